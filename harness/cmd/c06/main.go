// c06: differential / correspondence driver for property C06: "a response is
// only ever delivered to the call that sent the request" (concurrent operations
// on one kafka.Conn; concurrent RoundTrips on one kafka.Transport).
//
// Generates cases from one PRNG, runs the REAL code of /repo against the
// in-memory broker of kverif/muxfake and prints one line per case:
//
//	<id> <op> <args...> | <go result> | <features>
//
// ops: wr (step-level waitResponse), mux / muxbig (histories on one kafka.Conn),
// tr / trbig (histories on one kafka.Transport), avopen / avstale (replay of the
// ApiVersions body-read defect).  Everything is in memory; no network.
package main

import (
	"bufio"
	"context"
	"encoding/binary"
	"errors"
	"flag"
	"fmt"
	"io"
	"math"
	"math/rand"
	"os"
	"runtime"
	"sort"
	"strings"
	"sync"
	"time"

	kafka "github.com/segmentio/kafka-go"
	"github.com/segmentio/kafka-go/protocol"
	"github.com/segmentio/kafka-go/protocol/findcoordinator"
	"github.com/segmentio/kafka-go/protocol/listoffsets"
	"kverif/kvfmt"
	"kverif/muxfake"
)

const (
	smallWatchdog = 4 * time.Second
	bigWatchdog   = 10 * time.Second
	batchOffset   = 0x40
)

type result struct{ args, res, feats string }

type job struct {
	id     int
	op     string
	big    bool
	run    func() result
	serial bool // run after the parallel phase, alone, on a single P
}

var fetchMinSize int32 // c.fetchMinSize of a Conn for topic "t"

func hx(v int64) string { return kvfmt.I(v) }

func feats(m map[string]bool) string {
	if len(m) == 0 {
		return "-"
	}
	return kvfmt.Set(m)
}

func classify(err error) int {
	if err == nil {
		return 1
	}
	var ke kafka.Error
	if errors.As(err, &ke) {
		return 2
	}
	if errors.Is(err, io.ErrNoProgress) {
		return 3
	}
	return 4
}

// waitDone waits for ch or the watchdog; true = completed.
func waitDone(ch <-chan struct{}, d time.Duration) bool {
	t := time.NewTimer(d)
	defer t.Stop()
	select {
	case <-ch:
		return true
	case <-t.C:
		return false
	}
}

// releaseSpinners frees goroutines spinning in waitResponse after a HANG was
// recorded (they would otherwise burn CPU for the rest of the run).
func releaseSpinners(kc *kafka.Conn, done <-chan struct{}) {
	go func() {
		for i := 0; i < 3000; i++ {
			kafka.VerifSetInflight(kc, 1)
			select {
			case <-done:
				return
			case <-time.After(time.Millisecond):
			}
		}
	}()
}

// ---------------------------------------------------------------- op wr

func genWR(r *rand.Rand) job {
	var own int32
	idclass := "rand"
	switch r.Intn(10) {
	case 0:
		own, idclass = 1, "one"
	case 1:
		own, idclass = -1, "neg1"
	case 2:
		own, idclass = math.MinInt32, "min"
	case 3:
		own, idclass = math.MaxInt32, "max"
	case 4:
		own, idclass = 0, "zero"
	default:
		own = int32(r.Uint32())
	}
	inflight := int32(1 + r.Intn(3))
	var head int32
	headKind := ""
	switch x := r.Intn(20); {
	case x < 3:
		headKind = "none"
	case x < 10:
		head, headKind = own, "own"
	case x < 15:
		head, headKind = own^(int32(1+r.Intn(255))<<(8*uint(r.Intn(4)))), "diff1"
	default:
		head = int32(r.Uint32())
		if head == own {
			head++
		}
		headKind = "other"
	}
	end := "eof"
	if r.Intn(2) == 0 {
		end = "timeout"
	}
	foreign := headKind == "diff1" || headKind == "other"
	leave := foreign && inflight > 1
	body := make([]byte, r.Intn(13))
	r.Read(body)

	return job{op: "wr", run: func() result {
		headS, afterS := "-", "-"
		if headKind != "none" {
			headS = hx(int64(head))
		}
		if leave {
			afterS = "leave"
		}
		args := fmt.Sprintf("%s %s %s %s %s", hx(int64(own)), hx(int64(inflight)), headS, end, afterS)
		fs := map[string]bool{"inflight=" + hx(int64(inflight)): true, "end=" + end: true, "idclass=" + idclass: true}
		switch headKind {
		case "own", "none":
			fs["head="+headKind] = true
		default:
			fs["head=other"] = true
			if headKind == "diff1" {
				fs["diff1"] = true
			}
		}
		if leave {
			fs["leave"] = true
		}

		cl, sv := muxfake.Pipe()
		kc := kafka.VerifMuxConn(cl)
		kafka.VerifSetInflight(kc, inflight)
		if headKind != "none" {
			frame := make([]byte, 8, 8+len(body))
			binary.BigEndian.PutUint32(frame[0:], uint32(4+len(body)))
			binary.BigEndian.PutUint32(frame[4:], uint32(head))
			sv.Write(append(frame, body...))
		}
		if end == "eof" {
			sv.Close()
		} else if headKind == "none" {
			kc.SetReadDeadline(time.Now().Add(30 * time.Millisecond))
		} else {
			// the deadline only matters once the stream is exhausted; keep
			// it far away when a frame is there so that the outcome does
			// not depend on scheduling.
			kc.SetReadDeadline(time.Now().Add(3 * time.Second))
		}
		iterations := 0
		cl.OnSetReadDeadline = func() {
			iterations++
			if iterations == 2 && leave {
				kafka.VerifSetInflight(kc, 1)
			}
		}

		var out string
		done := make(chan struct{})
		go func() {
			defer close(done)
			size, held, err := kafka.VerifWaitResponse(kc, own)
			var outcome string
			switch {
			case err == nil:
				outcome = "own"
				if size != len(body) {
					outcome = "own-badsize"
				}
			case errors.Is(err, io.ErrNoProgress):
				outcome = "noprog"
				if iterations > 1 {
					outcome = "yield+noprog"
				}
			default:
				outcome = "close"
			}
			if err == nil {
				kafka.VerifDiscardBody(kc, size)
				if held {
					kafka.VerifReadUnlock(kc)
				}
			}
			out = fmt.Sprintf("%s %s %s %s", outcome, hx(int64(kafka.VerifInflight(kc))), kvfmt.Bool(cl.Closed()), kvfmt.Bool(held))
		}()
		if !waitDone(done, smallWatchdog) {
			releaseSpinners(kc, done)
			return result{args, "HANG", feats(fs)}
		}
		sv.Close()
		cl.Close()
		return result{args, out, feats(fs)}
	}}
}

// ---------------------------------------------------------------- calls on a legacy kafka.Conn

type muxCall struct {
	kind    string // ro rp av batch fc of
	n       int64
	stagger time.Duration
	hold    time.Duration // batch: time between ReadBatch and Close
}

func (c muxCall) class() string {
	switch c.kind {
	case "av", "batch":
		return c.kind
	}
	return "do"
}

// tag is the broker-side tag of the request the call sends.
func (c muxCall) tag() string {
	switch c.kind {
	case "ro":
		return "lo:" + hx(c.n)
	case "rp":
		return "md:m" + hx(c.n)
	case "av":
		return "av"
	case "batch":
		return "fe:" + hx(c.n+int64(fetchMinSize))
	case "fc":
		return "fc:g" + hx(c.n)
	case "of":
		return "of:g" + hx(c.n)
	}
	panic("kind")
}

// run performs the call; ok tells whether the returned value carries the
// call's own tag, got describes the value that was returned.
func (c muxCall) run(kc *kafka.Conn) (err error, ok bool, got string) {
	switch c.kind {
	case "ro":
		off, err := kc.ReadOffset(time.UnixMilli(c.n))
		return err, off == muxfake.OffsetForTag(c.n), hx(off)
	case "rp":
		topic := "m" + hx(c.n)
		parts, err := kc.ReadPartitions(topic)
		got = "none"
		if len(parts) > 0 {
			got = parts[0].Topic
		}
		ok = len(parts) == 1 && parts[0].Topic == topic && parts[0].ID == int(muxfake.PartitionIDFor(topic)) &&
			parts[0].Leader.Host == muxfake.HostFor(topic)
		return err, ok, got
	case "av":
		vs, err := kc.ApiVersions()
		ok = len(vs) == len(muxfake.ApiTable)
		for i := 0; ok && i < len(vs); i++ {
			t := muxfake.ApiTable[i]
			ok = vs[i].ApiKey == t.ApiKey && vs[i].MinVersion == t.MinVersion && vs[i].MaxVersion == t.MaxVersion
		}
		return err, ok, "table" + hx(int64(len(vs)))
	case "batch":
		bt := kc.ReadBatch(1, int(c.n))
		if c.hold > 0 {
			time.Sleep(c.hold)
		}
		thr, hwm := bt.Throttle(), bt.HighWaterMark()
		err := bt.Close()
		ok = thr == time.Duration(c.n+int64(fetchMinSize))*time.Millisecond && hwm == batchOffset
		return err, ok, hx(int64(thr / time.Millisecond))
	case "fc":
		g := "g" + hx(c.n)
		host, err := kafka.VerifFindCoordinator(kc, g)
		return err, host == muxfake.HostFor(g), host
	case "of":
		g := "g" + hx(c.n)
		off, err := kafka.VerifOffsetFetch(kc, g, "t", 0)
		return err, off == muxfake.CommittedForTag(c.n), hx(off)
	}
	panic("kind")
}

func errCodeFor(r *rand.Rand) int16 {
	// UnknownTopicOrPartition, NotLeaderForPartition, RequestTimedOut, NotCoordinatorForGroup, GroupAuthorizationFailed
	return []int16{3, 6, 7, 16, 30}[r.Intn(5)]
}

// ---------------------------------------------------------------- op mux

func genMux(r *rand.Rand) job {
	T := 1 + r.Intn(3)
	calls := make([]muxCall, T)
	usedN := map[int64]bool{}
	haveAV := false
	for i := range calls {
		c := &calls[i]
		switch x := r.Intn(20); {
		case x < 8:
			c.kind = "ro"
		case x < 13:
			c.kind = "rp"
		case x < 16 && !haveAV:
			c.kind, haveAV = "av", true
		case x < 16:
			c.kind = "ro"
		default:
			c.kind = "batch"
			c.hold = time.Duration(r.Intn(6)) * time.Millisecond
		}
		for {
			c.n = int64(0x10 + r.Intn(0xfff0))
			if !usedN[c.n] {
				usedN[c.n] = true
				break
			}
		}
		c.stagger = time.Duration(r.Intn(2000)) * time.Microsecond
	}

	fs := map[string]bool{"threads=" + hx(int64(T)): true}
	script := map[string]muxfake.Action{}
	acts := make([]muxfake.Action, T)
	for i := range acts {
		acts[i].Delay = time.Duration(r.Intn(6)) * time.Millisecond
	}
	mode := r.Intn(100)
	victim := r.Intn(T)
	deadline := time.Duration(0)
	switch {
	case mode < 30: // plain
	case mode < 58: // reorder
		if T > 1 {
			fs["reorder"] = true
			for i := range acts {
				if r.Intn(2) == 0 {
					acts[i].Hold = 1 + r.Intn(T-1)
				}
			}
		}
	case mode < 70:
		fs["drop"] = true
		acts[victim].Drop = true
	case mode < 84:
		fs["cut"] = true
		acts[victim].Cut = 1 + r.Intn(3)
	case mode < 94:
		if calls[victim].kind != "rp" {
			fs["errcode"] = true
			acts[victim].ErrCode = errCodeFor(r)
		}
	default:
		fs["dup"] = true
		acts[victim].Dup = true
	}
	if fs["drop"] || r.Intn(10) == 0 {
		fs["deadline"] = true
		deadline = time.Duration(150+r.Intn(60)) * time.Millisecond
	}
	needVersions := false
	hasBatch := false
	for i, c := range calls {
		script[c.tag()] = acts[i]
		fs["kind="+c.kind] = true
		if c.kind == "rp" || c.kind == "batch" {
			needVersions = true
		}
		if c.kind == "batch" {
			hasBatch = true
		}
	}

	return job{op: "mux", run: func() result {
		b := muxfake.NewBroker()
		cl := b.DialEnd()
		kc := kafka.VerifMuxConn(cl)
		setupErr := ""
		if needVersions {
			kc.SetDeadline(time.Now().Add(3 * time.Second))
			if err := kafka.VerifLoadVersions(kc); err != nil {
				setupErr = "SETUP:" + err.Error()
			}
			kc.SetDeadline(time.Time{})
		}
		if hasBatch {
			kc.Seek(batchOffset, kafka.SeekAbsolute|kafka.SeekDontCheck)
		}
		b.SetScript(script)
		b.SetGate(T, 60*time.Millisecond)
		nreq, nans := b.Mark()
		if deadline > 0 {
			kc.SetDeadline(time.Now().Add(deadline))
		}

		var mu sync.Mutex
		classes := make([]int, T)
		foreign := ""
		var wg sync.WaitGroup
		for i := range calls {
			wg.Add(1)
			go func(i int) {
				defer wg.Done()
				c := calls[i]
				time.Sleep(c.stagger)
				err, ok, got := c.run(kc)
				mu.Lock()
				classes[i] = classify(err)
				if err == nil && !ok && foreign == "" {
					foreign = fmt.Sprintf("FOREIGN:%s:%s", hx(int64(i)), got)
				}
				mu.Unlock()
			}(i)
		}
		done := make(chan struct{})
		go func() { wg.Wait(); close(done) }()
		completed := waitDone(done, smallWatchdog)

		reqs, anss := b.Journal(nreq, nans)
		callOf := map[string]int{}
		kinds := make([]string, T)
		for i, c := range calls {
			callOf[c.tag()] = i
			kinds[i] = c.class()
		}
		var snd, arr []int
		for _, q := range reqs {
			if i, ok := callOf[q.Tag]; ok {
				snd = append(snd, i)
			}
		}
		for _, a := range anss {
			if i, ok := callOf[a.Tag]; ok {
				arr = append(arr, i)
			}
		}
		env := ""
		if deadline > 0 {
			env += "d"
		}
		if fs["cut"] {
			env += "c"
		}
		if fs["errcode"] {
			env += "e"
		}
		if env == "" {
			env = "-"
		}
		args := fmt.Sprintf("T=%s kinds=%s snd=%s arr=%s env=%s", hx(int64(T)), strings.Join(kinds, ","), kvfmt.Ints(snd), kvfmt.Ints(arr), env)

		if !completed {
			releaseSpinners(kc, done)
			go func() { waitDone(done, 3*time.Second); b.Close(); cl.Close() }()
			return result{args, "HANG", feats(fs)}
		}
		b.Close()
		cl.Close()
		mu.Lock()
		defer mu.Unlock()
		if setupErr != "" {
			return result{args, setupErr, feats(fs)}
		}
		own := "own"
		if foreign != "" {
			own = foreign
		}
		return result{args, kvfmt.Ints(classes) + " " + own, feats(fs)}
	}}
}

// ---------------------------------------------------------------- op muxbig

func genMuxBig(r *rand.Rand) job {
	sub := r.Int63n(1 << 40)
	return job{op: "muxbig", big: true, run: func() result {
		r := rand.New(rand.NewSource(sub))
		G := 2 + r.Intn(15)
		fs := map[string]bool{"threads=" + hx(int64(G)): true, "reorder": true}
		fDrop, fCut, fErr, fDup := r.Intn(100) < 15, r.Intn(100) < 15, r.Intn(100) < 25, r.Intn(100) < 10
		deadline := time.Duration(0)
		if fDrop || r.Intn(100) < 15 {
			deadline = time.Duration(150+r.Intn(150)) * time.Millisecond
			fs["deadline"] = true
		}
		script := map[string]muxfake.Action{}
		plan := make([][]muxCall, G)
		total := 0
		for g := range plan {
			plan[g] = make([]muxCall, 3+r.Intn(8))
			for k := range plan[g] {
				c := &plan[g][k]
				c.kind = []string{"ro", "rp", "fc", "of"}[r.Intn(4)]
				c.n = int64(g+1)<<8 | int64(k+1)
				c.stagger = time.Duration(r.Intn(1000)) * time.Microsecond
				a := muxfake.Action{Delay: time.Duration(r.Intn(3000)) * time.Microsecond}
				if r.Intn(3) == 0 {
					a.Hold = 1 + r.Intn(3)
				}
				switch {
				case fDrop && r.Intn(100) < 3:
					a.Drop, fs["drop"] = true, true
				case fCut && r.Intn(100) < 2:
					a.Cut, fs["cut"] = 1+r.Intn(3), true
				case fErr && c.kind != "rp" && r.Intn(100) < 8:
					a.ErrCode, fs["errcode"] = errCodeFor(r), true
				case fDup && r.Intn(100) < 3:
					a.Dup, fs["dup"] = true, true
				}
				script[c.tag()] = a
				total++
			}
		}
		args := fmt.Sprintf("G=%s seed=%s calls=%s", hx(int64(G)), hx(sub), hx(int64(total)))

		b := muxfake.NewBroker()
		b.HoldMax = 8 * time.Millisecond
		cl := b.DialEnd()
		kc := kafka.VerifMuxConn(cl)
		kc.SetDeadline(time.Now().Add(3 * time.Second))
		if err := kafka.VerifLoadVersions(kc); err != nil {
			return result{args, "SETUP:" + err.Error(), feats(fs)}
		}
		kc.SetDeadline(time.Time{})
		b.SetScript(script)
		if deadline > 0 {
			kc.SetDeadline(time.Now().Add(deadline))
		}

		var mu sync.Mutex
		nok, nerr := 0, 0
		foreign := ""
		var wg sync.WaitGroup
		for g := range plan {
			wg.Add(1)
			go func(g int) {
				defer wg.Done()
				for k, c := range plan[g] {
					time.Sleep(c.stagger)
					err, ok, got := c.run(kc)
					mu.Lock()
					if err == nil {
						nok++
						if !ok && foreign == "" {
							foreign = fmt.Sprintf("FOREIGN:%s:%s:%s:%s:%s", hx(int64(g)), hx(int64(k)), c.kind, c.tag(), got)
						}
					} else {
						nerr++
					}
					mu.Unlock()
				}
			}(g)
		}
		done := make(chan struct{})
		go func() { wg.Wait(); close(done) }()
		if !waitDone(done, bigWatchdog) {
			releaseSpinners(kc, done)
			go func() { waitDone(done, 3*time.Second); b.Close(); cl.Close() }()
			return result{args, "HANG", feats(fs)}
		}
		b.Close()
		cl.Close()
		own := "own"
		if foreign != "" {
			own = foreign
		}
		return result{args, fmt.Sprintf("%s %s %s", hx(int64(nok)), hx(int64(nerr)), own), feats(fs)}
	}}
}

// ---------------------------------------------------------------- calls on a kafka.Transport

type trCall struct {
	kind    string // lo fc of
	n       int64
	ctxMode int // 0 = safety timeout only, 1 = cancel after ctxDur, 2 = deadline ctxDur
	ctxDur  time.Duration
	stagger time.Duration
}

func (c trCall) tags() []string {
	switch c.kind {
	case "lo":
		return []string{"lo:" + hx(c.n)}
	case "fc":
		return []string{"fc:g" + hx(c.n)}
	case "of":
		return []string{"fc:g" + hx(c.n), "of:g" + hx(c.n)}
	}
	panic("kind")
}

func (c trCall) topic() string { return "x" + hx(c.n) }

var fakeAddr = kafka.TCP("fake:9092")

// run performs the round trip: class 1 = value, 2 = nil response, 3 = error.
func (c trCall) run(tr *kafka.Transport, safety time.Duration) (class int, ok bool, got string) {
	ctx := context.Background()
	var cancel context.CancelFunc
	switch c.ctxMode {
	case 1:
		ctx, cancel = context.WithCancel(ctx)
		t := time.AfterFunc(c.ctxDur, cancel)
		defer t.Stop()
	case 2:
		ctx, cancel = context.WithTimeout(ctx, c.ctxDur)
	default:
		if safety > 0 {
			ctx, cancel = context.WithTimeout(ctx, safety)
		} else {
			cancel = func() {}
		}
	}
	defer cancel()

	switch c.kind {
	case "lo":
		m, err := tr.RoundTrip(ctx, fakeAddr, &listoffsets.Request{
			ReplicaID: -1,
			Topics: []listoffsets.RequestTopic{{
				Topic:      c.topic(),
				Partitions: []listoffsets.RequestPartition{{Partition: 0, CurrentLeaderEpoch: -1, Timestamp: -1}},
			}},
		})
		if err != nil {
			return 3, false, ""
		}
		if m == nil {
			return 2, false, ""
		}
		res := m.(*listoffsets.Response)
		got = "none"
		if len(res.Topics) > 0 && len(res.Topics[0].Partitions) > 0 {
			got = res.Topics[0].Topic + "/" + hx(res.Topics[0].Partitions[0].Offset)
		}
		ok = len(res.Topics) == 1 && res.Topics[0].Topic == c.topic() && len(res.Topics[0].Partitions) == 1 &&
			res.Topics[0].Partitions[0].Offset == muxfake.OffsetForTag(c.n) && res.Topics[0].Partitions[0].ErrorCode == 0
		return 1, ok, got
	case "fc":
		g := "g" + hx(c.n)
		m, err := tr.RoundTrip(ctx, fakeAddr, &findcoordinator.Request{Key: g})
		if err != nil {
			return 3, false, ""
		}
		if m == nil {
			return 2, false, ""
		}
		res := m.(*findcoordinator.Response)
		return 1, res.Host == muxfake.HostFor(g) && res.ErrorCode == 0, res.Host
	case "of":
		g := "g" + hx(c.n)
		cli := &kafka.Client{Addr: fakeAddr, Transport: tr}
		res, err := cli.OffsetFetch(ctx, &kafka.OffsetFetchRequest{GroupID: g, Topics: map[string][]int{"prime": {0}}})
		if err != nil {
			return 3, false, ""
		}
		if res == nil {
			return 2, false, ""
		}
		got = "none"
		ps := res.Topics["prime"]
		if len(ps) > 0 {
			got = hx(ps[0].CommittedOffset)
		}
		ok = len(ps) == 1 && ps[0].CommittedOffset == muxfake.CommittedForTag(c.n) && ps[0].Error == nil && res.Error == nil
		return 1, ok, got
	}
	panic("kind")
}

// prime sends one untagged request on the control connection group and one on
// the broker connection group so that idle connections exist.
func prime(tr *kafka.Transport) error {
	ctx, cancel := context.WithTimeout(context.Background(), 3*time.Second)
	defer cancel()
	if _, err := tr.RoundTrip(ctx, fakeAddr, &findcoordinator.Request{Key: "prime"}); err != nil {
		return err
	}
	_, err := tr.RoundTrip(ctx, fakeAddr, &listoffsets.Request{
		ReplicaID: -1,
		Topics: []listoffsets.RequestTopic{{
			Topic:      "prime",
			Partitions: []listoffsets.RequestPartition{{Partition: 0, CurrentLeaderEpoch: -1, Timestamp: -1}},
		}},
	})
	return err
}

func connJournal(conns []int, calls [][]int) string {
	if len(conns) == 0 {
		return "."
	}
	parts := make([]string, len(conns))
	for i, c := range conns {
		s := make([]string, len(calls[i]))
		for j, k := range calls[i] {
			s[j] = hx(int64(k))
		}
		parts[i] = hx(int64(c)) + ":" + strings.Join(s, ".")
	}
	return strings.Join(parts, ";")
}

func groupByConn(conn []int, call []int) string {
	idx := map[int]int{}
	var conns []int
	for _, c := range conn {
		if _, ok := idx[c]; !ok {
			idx[c] = 0
			conns = append(conns, c)
		}
	}
	sort.Ints(conns)
	for i, c := range conns {
		idx[c] = i
	}
	calls := make([][]int, len(conns))
	for i, c := range conn {
		calls[idx[c]] = append(calls[idx[c]], call[i])
	}
	return connJournal(conns, calls)
}

// ---------------------------------------------------------------- op tr

func genTR(r *rand.Rand) job {
	T := 1 + r.Intn(3)
	calls := make([]trCall, T)
	fs := map[string]bool{"threads=" + hx(int64(T)): true}
	script := map[string]muxfake.Action{}
	topics := []string{"prime"}
	used := map[int64]bool{}
	envF, envC := false, false
	for i := range calls {
		c := &calls[i]
		c.kind = []string{"lo", "lo", "fc"}[r.Intn(3)]
		for {
			c.n = int64(0x10 + r.Intn(0xfff0))
			if !used[c.n] {
				used[c.n] = true
				break
			}
		}
		c.stagger = time.Duration(r.Intn(4000)) * time.Microsecond
		if c.kind == "lo" {
			topics = append(topics, c.topic())
		}
		fs["kind="+c.kind] = true
		a := muxfake.Action{Delay: time.Duration(r.Intn(6)) * time.Millisecond}
		switch x := r.Intn(100); {
		case x < 55:
		case x < 65:
			a.Drop, fs["drop"], envF = true, true, true
		case x < 80:
			a.Cut, fs["cut"], envF = 1+r.Intn(3), true, true
		case x < 90:
			a.Dup, fs["dup"] = true, true
		default:
			a.Delay = time.Duration(5+r.Intn(10)) * time.Millisecond
			fs["delay"] = true
		}
		switch x := r.Intn(100); {
		case x < 65:
		case x < 82:
			c.ctxMode, c.ctxDur = 1, time.Duration(r.Intn(8000))*time.Microsecond
			fs["cancel"], envC = true, true
		default:
			c.ctxMode, c.ctxDur = 2, time.Duration(30+r.Intn(30))*time.Millisecond
			fs["ctxdeadline"], envF = true, true
		}
		if a.Drop && c.ctxMode == 0 {
			c.ctxMode, c.ctxDur = 2, time.Duration(30+r.Intn(30))*time.Millisecond
			fs["ctxdeadline"] = true
		}
		script[c.tags()[0]] = a
	}
	warm := r.Intn(3) != 0
	idle := warm && r.Intn(5) == 0
	if warm {
		fs["warm"] = true
	}
	if idle {
		fs["idle"] = true
	}

	return job{op: "tr", run: func() result {
		b := muxfake.NewBroker(topics...)
		tr := &kafka.Transport{Dial: b.Dial}
		if idle {
			tr.IdleTimeout = 3 * time.Millisecond
		}
		setupErr := ""
		if warm {
			if err := prime(tr); err != nil {
				setupErr = "SETUP:" + err.Error()
			}
			if idle {
				time.Sleep(12 * time.Millisecond)
			}
		}
		b.SetScript(script)
		nreq, nans := b.Mark()

		var mu sync.Mutex
		classes := make([]int, T)
		foreign := ""
		var wg sync.WaitGroup
		for i := range calls {
			wg.Add(1)
			go func(i int) {
				defer wg.Done()
				c := calls[i]
				time.Sleep(c.stagger)
				class, ok, got := c.run(tr, 2*time.Second)
				mu.Lock()
				classes[i] = class
				if class == 1 && !ok && foreign == "" {
					foreign = fmt.Sprintf("FOREIGN:%s:%s", hx(int64(i)), got)
				}
				mu.Unlock()
			}(i)
		}
		done := make(chan struct{})
		go func() { wg.Wait(); close(done) }()
		completed := waitDone(done, smallWatchdog)

		reqs, anss := b.Journal(nreq, nans)
		callOf := map[string]int{}
		for i, c := range calls {
			callOf[c.tags()[0]] = i
		}
		var qc, qk, ac, ak []int
		for _, q := range reqs {
			if i, ok := callOf[q.Tag]; ok {
				qc, qk = append(qc, q.Conn), append(qk, i)
			}
		}
		for _, a := range anss {
			if i, ok := callOf[a.Tag]; ok {
				ac, ak = append(ac, a.Conn), append(ak, i)
			}
		}
		env := ""
		if envF {
			env += "f"
		}
		if envC {
			env += "c"
		}
		if idle {
			env += "i"
		}
		if env == "" {
			env = "-"
		}
		args := fmt.Sprintf("T=%s conns=%s ans=%s env=%s", hx(int64(T)), groupByConn(qc, qk), groupByConn(ac, ak), env)

		b.Close()
		tr.CloseIdleConnections()
		if !completed {
			return result{args, "HANG", feats(fs)}
		}
		mu.Lock()
		defer mu.Unlock()
		if setupErr != "" {
			return result{args, setupErr, feats(fs)}
		}
		own := "own"
		if foreign != "" {
			own = foreign
		}
		return result{args, kvfmt.Ints(classes) + " " + own, feats(fs)}
	}}
}

// ---------------------------------------------------------------- op trbig

func genTRBig(r *rand.Rand) job {
	sub := r.Int63n(1 << 40)
	return job{op: "trbig", big: true, run: func() result {
		r := rand.New(rand.NewSource(sub))
		G := 2 + r.Intn(15)
		fs := map[string]bool{"threads=" + hx(int64(G)): true, "reorder": true}
		fDrop, fCut, fDup := r.Intn(100) < 25, r.Intn(100) < 25, r.Intn(100) < 25
		script := map[string]muxfake.Action{}
		topics := []string{"prime"}
		plan := make([][]trCall, G)
		total := 0
		for g := range plan {
			plan[g] = make([]trCall, 3+r.Intn(8))
			for k := range plan[g] {
				c := &plan[g][k]
				c.kind = []string{"lo", "lo", "fc", "of"}[r.Intn(4)]
				c.n = int64(g+1)<<8 | int64(k+1)
				c.stagger = time.Duration(r.Intn(1000)) * time.Microsecond
				if c.kind == "lo" {
					topics = append(topics, c.topic())
				}
				switch x := r.Intn(100); {
				case x < 70:
				case x < 85:
					c.ctxMode, c.ctxDur = 1, time.Duration(r.Intn(5000))*time.Microsecond
					fs["cancel"] = true
				default:
					c.ctxMode, c.ctxDur = 2, time.Duration(5+r.Intn(25))*time.Millisecond
					fs["deadline"] = true
				}
				for _, tag := range c.tags() {
					a := muxfake.Action{Delay: time.Duration(r.Intn(3000)) * time.Microsecond}
					switch {
					case fDrop && r.Intn(100) < 4:
						a.Drop, fs["drop"] = true, true
					case fCut && r.Intn(100) < 4:
						a.Cut, fs["cut"] = 1+r.Intn(3), true
					case fDup && r.Intn(100) < 6:
						a.Dup, fs["dup"] = true, true
					}
					script[tag] = a
				}
				total++
			}
		}
		args := fmt.Sprintf("G=%s seed=%s calls=%s", hx(int64(G)), hx(sub), hx(int64(total)))

		b := muxfake.NewBroker(topics...)
		tr := &kafka.Transport{Dial: b.Dial}
		if r.Intn(4) == 0 {
			tr.IdleTimeout = 2 * time.Millisecond
			fs["idle"] = true
		}
		if err := prime(tr); err != nil {
			b.Close()
			return result{args, "SETUP:" + err.Error(), feats(fs)}
		}
		b.SetScript(script)

		var mu sync.Mutex
		nok, nerr := 0, 0
		foreign := ""
		var wg sync.WaitGroup
		for g := range plan {
			wg.Add(1)
			go func(g int) {
				defer wg.Done()
				for k, c := range plan[g] {
					time.Sleep(c.stagger)
					class, ok, got := c.run(tr, 250*time.Millisecond)
					mu.Lock()
					if class == 1 {
						nok++
						if !ok && foreign == "" {
							foreign = fmt.Sprintf("FOREIGN:%s:%s:%s:%s:%s", hx(int64(g)), hx(int64(k)), c.kind, c.tags()[len(c.tags())-1], got)
						}
					} else {
						nerr++
					}
					mu.Unlock()
				}
			}(g)
		}
		done := make(chan struct{})
		go func() { wg.Wait(); close(done) }()
		completed := waitDone(done, bigWatchdog)
		b.Close()
		tr.CloseIdleConnections()
		if !completed {
			return result{args, "HANG", feats(fs)}
		}
		own := "own"
		if foreign != "" {
			own = foreign
		}
		return result{args, fmt.Sprintf("%s %s %s", hx(int64(nok)), hx(int64(nerr)), own), feats(fs)}
	}}
}

// ---------------------------------------------------------------- ops avopen / avstale

// genAV replays: (*Conn).ApiVersions does not close the connection when
// reading the response body fails.
func genAV(r *rand.Rand, stale bool) job {
	base := int32(r.Intn(1 << 20))
	k := r.Intn(4)
	N := k + 1 + r.Intn(8)
	tag := int64(0x100 + r.Intn(0xf000))
	op := "avopen"
	if stale {
		op = "avstale"
		N = k + 7
	}
	return job{op: op, run: func() result {
		args := fmt.Sprintf("base=%s N=%s k=%s tag=%s", hx(int64(base)), hx(int64(N)), hx(int64(k)), hx(tag))
		fs := map[string]bool{"k=" + hx(int64(k)): true}
		cl, sv := muxfake.Pipe()
		kc := kafka.VerifMuxConn(cl)
		kafka.VerifSetCorrelationID(kc, base)

		triples := make([]byte, 0, 6*N)
		for i := 0; i < N; i++ {
			triples = append(triples, 0, byte(i), 0, 0, 0, byte(1+i%5))
		}
		if stale {
			// the bytes after the first k triples are exactly one frame
			// [size][id of the next request][ListOffsets v1 body, offset 0x5a5a] + 1 pad byte
			f := triples[6*k : 6*k : 6*N]
			put32 := func(v uint32) { f = binary.BigEndian.AppendUint32(f, v) }
			put32(37)
			put32(uint32(base + 2))
			put32(1)
			f = append(f, 0, 1, 't')
			put32(1)
			put32(0)                                     // partition
			f = append(f, 0, 0)                          // error code
			f = binary.BigEndian.AppendUint64(f, 0)      // timestamp
			f = binary.BigEndian.AppendUint64(f, 0x5a5a) // offset
			f = append(f, 0)
			if len(f) != 42 {
				panic("stale frame size")
			}
		}

		returned := make(chan struct{})
		rest := make(chan struct{})
		go func() { // the broker, by hand
			rd := bufio.NewReader(sv)
			_, corr, _, _, err := protocol.ReadRequest(rd)
			if err != nil {
				close(rest)
				return
			}
			hdr := make([]byte, 0, 14)
			hdr = binary.BigEndian.AppendUint32(hdr, uint32(4+2+4+6*N))
			hdr = binary.BigEndian.AppendUint32(hdr, uint32(corr))
			hdr = append(hdr, 0, 0)
			hdr = binary.BigEndian.AppendUint32(hdr, uint32(N))
			sv.Write(append(hdr, triples[:6*k]...))
			<-returned
			sv.Write(triples[6*k:])
			close(rest)
			for { // honest from here on
				ver, corr, _, msg, err := protocol.ReadRequest(rd)
				if err != nil {
					return
				}
				frame, err := muxfake.Frame(ver, corr, msg, 0, nil)
				if err != nil {
					return
				}
				sv.Write(frame)
			}
		}()

		var out string
		done := make(chan struct{})
		go func() {
			defer close(done)
			kc.SetDeadline(time.Now().Add(80 * time.Millisecond))
			_, err := kc.ApiVersions()
			averr := err != nil
			closed := cl.Closed()
			close(returned)
			<-rest
			kc.SetDeadline(time.Now().Add(300 * time.Millisecond))
			off, err := kc.ReadOffset(time.UnixMilli(tag))
			class := classify(err)
			honest := muxfake.OffsetForTag(tag)
			if stale {
				got := "-"
				if err == nil {
					got = hx(off)
				}
				out = fmt.Sprintf("averr=%s closed=%s next=%s got=%s honest=%s", kvfmt.Bool(averr), kvfmt.Bool(closed), hx(int64(class)), got, hx(honest))
			} else {
				check := "-"
				if err == nil {
					check = "own"
					if off != honest {
						check = "FOREIGN:0:" + hx(off)
					}
				}
				out = fmt.Sprintf("averr=%s closed=%s next=%s %s", kvfmt.Bool(averr), kvfmt.Bool(closed), hx(int64(class)), check)
			}
		}()
		if !waitDone(done, smallWatchdog) {
			releaseSpinners(kc, done)
			sv.Close()
			return result{args, "HANG", feats(fs)}
		}
		sv.Close()
		cl.Close()
		return result{args, out, feats(fs)}
	}}
}

// ---------------------------------------------------------------- main

func main() {
	seed := flag.Int64("seed", 1, "PRNG seed")
	n := flag.Int("n", 100, "number of generated cases per small op family")
	big := flag.Int("big", 10, "number of big scenarios per big op family")
	nav := flag.Int("av", 4, "number of avopen and of avstale replays")
	workers := flag.Int("workers", 16, "parallel scenarios")
	ncut := flag.Int("cut", 18, "number of trcut scenarios (response cut at byte k, followers must get a fresh connection)")
	nsplit := flag.Int("split", 40, "number of trsplit scenarios (one call split into several exchanges and merged)")
	npage := flag.Int("page", 12, "number of trpage scenarios (page pool cross-talk between Fetch responses)")
	nmuxcut := flag.Int("muxcut", 24, "number of muxcut scenarios (concurrent Conn operations, first answer cut at byte k)")
	nmeta := flag.Int("meta", 10, "number of trmeta scenarios (first metadata response of a fresh Transport cut)")
	nbatch := flag.Int("batchrd", 40, "number of batchrd scenarios (Batch reads on real message sets, forged frames in the values)")
	child := flag.String("child", "", "internal: run one scenario of this family in this process")
	sub := flag.Int64("sub", 0, "internal: sub-seed of the child scenario")
	ntail := flag.Int("tail", 30, "number of trtail scenarios (fetch record set with a truncated last batch, then reuse of the pooled connection)")
	npoolx := flag.Int("poolx", 24, "number of poolx scenarios (decompression buffer pool across Conns)")
	nlate := flag.Int("late", 24, "number of trlate scenarios (deadline mid-exchange, late answer, followers)")
	flag.Parse()

	{
		cl, _ := muxfake.Pipe()
		fetchMinSize = kafka.VerifFetchMinSize(kafka.VerifMuxConn(cl))
	}

	if *child == "batchrd" {
		batchRdChild(*sub)
		return
	}
	if *child == "poolx" {
		poolXChild(*sub)
		return
	}

	r := rand.New(rand.NewSource(*seed))
	var jobs []job
	add := func(j job) {
		j.id = len(jobs) + 1
		jobs = append(jobs, j)
	}
	for i := 0; i < *n; i++ {
		add(genWR(r))
	}
	for i := 0; i < *n; i++ {
		add(genMux(r))
	}
	for i := 0; i < *big; i++ {
		add(genMuxBig(r))
	}
	for i := 0; i < *n; i++ {
		add(genTR(r))
	}
	for i := 0; i < *big; i++ {
		add(genTRBig(r))
	}
	for i := 0; i < *nav; i++ {
		add(genAV(r, false))
	}
	for i := 0; i < *nav; i++ {
		add(genAV(r, true))
	}
	for i := 0; i < *nlate; i++ {
		add(genTRLate(r))
	}
	for i := 0; i < *ncut; i++ {
		add(genTRCut(r))
	}
	for i := 0; i < *nsplit; i++ {
		add(genTRSplit(r))
	}
	for i := 0; i < *npage; i++ {
		add(genTRPage(r))
	}
	for i := 0; i < *nmuxcut; i++ {
		add(genMuxCut(r))
	}
	for i := 0; i < *nmeta; i++ {
		add(genTRMeta(r))
	}
	for i := 0; i < *nbatch; i++ {
		add(genBatchRd(r))
	}
	for i := 0; i < *ntail; i++ {
		add(genTRTail(r))
	}
	for i := 0; i < *npoolx; i++ {
		add(genPoolX(r))
	}

	// big scenarios first, results printed in id order
	order := make([]int, 0, len(jobs))
	for i, j := range jobs {
		if j.big && !j.serial {
			order = append(order, i)
		}
	}
	for i, j := range jobs {
		if !j.big && !j.serial {
			order = append(order, i)
		}
	}
	results := make([]result, len(jobs))
	ch := make(chan int)
	var wg sync.WaitGroup
	for w := 0; w < *workers; w++ {
		wg.Add(1)
		go func() {
			defer wg.Done()
			for i := range ch {
				results[i] = jobs[i].run()
			}
		}()
	}
	for _, i := range order {
		ch <- i
	}
	close(ch)
	wg.Wait()

	// serial phase: one scenario at a time on a single P (sync.Pool caches are per P)
	prev := runtime.GOMAXPROCS(1)
	for i, j := range jobs {
		if j.serial {
			results[i] = j.run()
		}
	}
	runtime.GOMAXPROCS(prev)

	out := bufio.NewWriter(os.Stdout)
	for i, j := range jobs {
		fmt.Fprintf(out, "%d %s %s | %s | %s\n", j.id, j.op, results[i].args, results[i].res, results[i].feats)
	}
	out.Flush()
}
