package main

// op trpage — cross-talk through the page pool of the protocol package: several Client.Fetch
// calls on one Transport, every call fetches a topic only it asks for and the broker fills the
// records of topic "pg<X>" with the letter X.  Call 0 consumes its first record (whose key is
// nil / EMPTY-non-nil / non-empty) and closes key and value, as the protocol.Bytes documentation
// asks; the other calls are served on the same Transport BETWEEN the remaining records of
// call 0's response, which call 0 goes on reading.  Predicate (harness + extracted monitor mon_pure): every
// byte a call reads from its response is its own letter.  These scenarios run one after the
// other on a single P (the page pool is a sync.Pool with per-P caches).

import (
	"bytes"
	"context"
	"fmt"
	"math/rand"
	"strings"
	"time"

	kafka "github.com/segmentio/kafka-go"
	"github.com/segmentio/kafka-go/protocol"
	"kverif/muxfake"
)

func genTRPage(r *rand.Rand) job {
	K := 3 + r.Intn(3)
	letters := "ABCDEFG"
	topics := make([]string, 1+K)
	recs := map[string][]muxfake.RecSpec{}
	for i := range topics {
		topics[i] = "pg" + hx(int64(r.Intn(0xfff))) + letters[i:i+1]
	}
	keyMode := r.Intn(3)
	if r.Intn(2) == 0 {
		keyMode = 1
	}
	first := muxfake.RecSpec{KeyMode: keyMode, KeyLen: 1 + r.Intn(8), ValueLen: 8 + r.Intn(24)}
	spec0 := []muxfake.RecSpec{first}
	for j := 1 + r.Intn(3); j > 0; j-- {
		spec0 = append(spec0, muxfake.RecSpec{ValueLen: (1 + r.Intn(8)) << 10})
	}
	recs[topics[0]] = spec0
	for i := 1; i <= K; i++ {
		recs[topics[i]] = []muxfake.RecSpec{{ValueLen: (4 + r.Intn(28)) << 10}}
	}
	closeOthers := r.Intn(2) == 0
	fs := map[string]bool{"calls=" + hx(int64(1+K)): true, "key=" + []string{"nil", "empty", "nonempty"}[keyMode]: true}
	if closeOthers {
		fs["closeothers"] = true
	}

	return job{op: "trpage", serial: true, run: func() result {
		b := muxfake.NewBroker(append([]string{"prime"}, topics...)...)
		b.SetRecords(recs)
		tr := &kafka.Transport{Dial: b.Dial, MetadataTTL: time.Hour, IdleTimeout: time.Hour}
		client := &kafka.Client{Addr: fakeAddr, Transport: tr}
		ctx, cancel := context.WithTimeout(context.Background(), 5*time.Second)
		defer cancel()
		defer func() { b.Close(); tr.CloseIdleConnections() }()

		foreign := make([]int, 1+K)
		read := make([]int, 1+K)
		errs := ""
		fetch := func(i int) *kafka.FetchResponse {
			res, err := client.Fetch(ctx, &kafka.FetchRequest{Topic: topics[i], Partition: 0, Offset: 0, MinBytes: 1, MaxBytes: 1 << 20, MaxWait: time.Second})
			if err != nil {
				errs = fmt.Sprintf("ERR:%d:%v", i, err)
				return nil
			}
			if res.Topic != topics[i] {
				foreign[i] += 1 << 20
			}
			return res
		}
		consume := func(i int, rec *protocol.Record, closeIt bool) {
			letter := topics[i][len(topics[i])-1]
			for _, f := range []protocol.Bytes{rec.Key, rec.Value} {
				if f == nil {
					continue
				}
				v, err := protocol.ReadAll(f)
				if err != nil {
					errs = fmt.Sprintf("ERR:%d:%v", i, err)
					continue
				}
				read[i] += len(v)
				foreign[i] += len(v) - bytes.Count(v, []byte{letter})
				if closeIt {
					f.Close()
				}
			}
		}
		res0 := fetch(0)
		if res0 == nil {
			return result{"n=" + hx(int64(1+K)), errs, feats(fs)}
		}
		rec, err := res0.Records.ReadRecord()
		if err != nil {
			return result{"n=" + hx(int64(1+K)), "ERR:0:" + err.Error(), feats(fs)}
		}
		consume(0, rec, true)
		// the other calls are served between the records of call 0 (at least one after each)
		next := 1
		others := func(n int) {
			for ; n > 0 && next <= K; n-- {
				i := next
				next++
				if res := fetch(i); res != nil {
					if rr, err := res.Records.ReadRecord(); err == nil {
						consume(i, rr, closeOthers)
					} else {
						errs = fmt.Sprintf("ERR:%d:%v", i, err)
					}
				}
			}
		}
		left := len(spec0) - 1
		for left > 0 {
			share := (K - next + 1) / left
			if share < 1 {
				share = 1
			}
			others(share)
			rec, err := res0.Records.ReadRecord()
			if err != nil {
				break
			}
			consume(0, rec, true)
			left--
		}
		others(K)

		fl := make([]string, len(foreign))
		rl := make([]string, len(read))
		sl := make([]string, len(spec0))
		for i := range foreign {
			fl[i], rl[i] = hx(int64(foreign[i])), hx(int64(read[i]))
		}
		for i, sp := range spec0 {
			sl[i] = hx(int64(sp.ValueLen))
		}
		args := fmt.Sprintf("n=%s key=%s recs0=%s read=%s foreign=%s", hx(int64(1+K)), hx(int64(keyMode)), strings.Join(sl, "."), strings.Join(rl, ","), strings.Join(fl, ","))
		if errs != "" {
			return result{args, errs, feats(fs)}
		}
		verdict := "ok"
		for i, f := range foreign {
			if f != 0 && verdict == "ok" {
				verdict = fmt.Sprintf("BAD:%s:%s", hx(int64(i)), hx(int64(f)))
			}
		}
		return result{args, "pure=" + verdict, feats(fs)}
	}}
}
