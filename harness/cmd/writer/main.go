// writer: correspondence driver for the kafka.Writer checks.
//
// Generates cases from one PRNG and prints one line per case:
//
//	<id> <op> <args...> | <go result> | <features>
//
// Step-level ops (add, size, wm) exercise writeBatch / partitionWriter through
// the hooks of /repo/verif_export_writer.go; cfgd checks the defaulting of the
// Writer options (VerifWriterEffective of verif_export_writer2.go); pdl and pto
// show which timeout option limits the produce round trip; nwc reads back what
// NewWriter makes of a WriterConfig; rtb prints the retry classification; prr and pr drive the response
// mapping of (*kafka.Client).Produce through a scripted RoundTripper; e2e runs the real kafka.Writer on
// the fake cluster of kverif/fakert and prints the globally sequenced history;
// f3 replays the Close / WriteMessages race.  All numbers are lowercase hex.
package main

import (
	"bufio"
	"context"
	"crypto/tls"
	"encoding/binary"
	"errors"
	"flag"
	"fmt"
	"io"
	"math/rand"
	"net"
	"os"
	"sort"
	"strings"
	"sync"
	"sync/atomic"
	"time"

	kafka "github.com/segmentio/kafka-go"
	"github.com/segmentio/kafka-go/compress"
	"github.com/segmentio/kafka-go/protocol/produce"
	"github.com/segmentio/kafka-go/sasl/plain"
	"kverif/fakert"
	"kverif/kvfmt"
)

const watchdog = 10 * time.Second

type line struct{ op, args, res, feats string }

func hx(v int) string { return kvfmt.I(int64(v)) }

func sanitize(s string) string {
	s = strings.Map(func(r rune) rune {
		switch {
		case r == ' ' || r == '\t' || r == '\n' || r == '\r':
			return '_'
		case r == '|':
			return '!'
		}
		return r
	}, s)
	if len(s) > 120 {
		s = s[:120]
	}
	if s == "" {
		s = "?"
	}
	return s
}

// ---------------------------------------------------------------------------
// step level: add, size, wm

func sizedMsg(s int) kafka.Message { return kafka.Message{Value: make([]byte, s-23)} }

func genAdd(r *rand.Rand) line {
	batchSize := 1 + r.Intn(6)
	batchBytes := 23 + r.Intn(378)
	n := 1 + r.Intn(8)
	b := kafka.VerifNewBatch()
	defer b.Stop()
	var sizes, res []string
	feat := map[string]bool{}
	for i := 0; i < n; i++ {
		room := batchBytes - int(b.Bytes())
		var s int
		switch r.Intn(10) {
		case 0:
			s = 23
		case 1:
			s = batchBytes
		case 2:
			s = batchBytes - 1
		case 3:
			s = batchBytes + 1
		case 4:
			s = room
		case 5:
			s = room - 1
		case 6:
			s = room + 1
		case 7:
			s = 23 + r.Intn(batchBytes-23+11)
		default:
			s = 23 + r.Intn(batchBytes/3+1)
		}
		if s < 23 {
			s = 23
		}
		m := sizedMsg(s)
		if int(kafka.VerifTotalSize(m)) != s {
			panic("sizedMsg: size mismatch")
		}
		before := b.Size()
		ok := b.Add(m, batchSize, int64(batchBytes))
		full := b.Full(batchSize, int64(batchBytes))
		sizes = append(sizes, hx(s))
		res = append(res, fmt.Sprintf("%s%s:%s:%s", kvfmt.Bool(ok), kvfmt.Bool(full), hx(b.Size()), kvfmt.I(b.Bytes())))
		switch {
		case !ok:
			feat["add-rejected"] = true
		case before == 0 && s > batchBytes:
			feat["oversize-first"] = true
		}
		if ok && b.Size() > batchSize {
			feat["beyond-size"] = true
		}
		if full && b.Size() >= batchSize {
			feat["full-by-size"] = true
		}
		if full && b.Bytes() >= int64(batchBytes) {
			feat["full-by-bytes"] = true
		}
		if ok && b.Bytes() == int64(batchBytes) {
			feat["exact-bytes"] = true
		}
		if !full {
			feat["not-full"] = true
		}
	}
	return line{"add", fmt.Sprintf("%s %s %s", hx(batchSize), hx(batchBytes), strings.Join(sizes, ",")), strings.Join(res, ","), kvfmt.Set(feat)}
}

func genSize(r *rand.Rand) line {
	opt := func() ([]byte, string, string) {
		switch r.Intn(5) {
		case 0:
			return nil, "-", "nil"
		case 1:
			return []byte{}, "0", "empty"
		}
		n := 1 + r.Intn(300)
		return make([]byte, n), hx(n), "some"
	}
	k, ks, kf := opt()
	v, vs, vf := opt()
	sz := kafka.VerifTotalSize(kafka.Message{Key: k, Value: v})
	return line{"size", ks + " " + vs, kvfmt.I(int64(sz)), "key-" + kf + ",value-" + vf}
}

func genWM(r *rand.Rand) line {
	batchSize := 1 + r.Intn(6)
	batchBytes := 23 + r.Intn(378)
	async := r.Intn(4) == 0
	w := &kafka.Writer{BatchSize: batchSize, BatchBytes: int64(batchBytes), BatchTimeout: time.Hour, Async: async}
	pw := kafka.VerifNewPW(w)
	defer pw.Drain()
	ncalls := 1 + r.Intn(4)
	var calls, results []string
	feat := map[string]bool{}
	if async {
		feat["async"] = true
	} else {
		feat["sync"] = true
	}
	for c := 0; c < ncalls; c++ {
		n := r.Intn(9)
		if n == 0 && r.Intn(3) != 0 {
			n = 1
		}
		var sizes []string
		msgs := make([]kafka.Message, 0, n)
		for i := 0; i < n; i++ {
			var s int
			switch r.Intn(8) {
			case 0:
				s = batchBytes
			case 1:
				s = batchBytes - 1
			case 2:
				s = batchBytes / 2
			case 3:
				s = batchBytes - batchBytes/2
			case 4:
				s = batchBytes/2 + 1
			case 5:
				s = 23
			default:
				s = 23 + r.Intn(batchBytes/3+1)
			}
			if s < 23 {
				s = 23
			}
			if s > batchBytes {
				s = batchBytes
			}
			sizes = append(sizes, hx(s))
			msgs = append(msgs, sizedMsg(s))
		}
		refs := pw.WriteMessages(msgs)
		q, cur := pw.Snapshot()
		rs := "-"
		if !async {
			rs = kvfmt.Ints(refs)
			if len(refs) > 0 && refs[len(refs)-1] != refs[0] {
				feat["call-split"] = true
			}
		}
		cs := "-"
		if cur >= 0 {
			cs = hx(cur)
			feat["open-batch"] = true
		}
		if len(q) > 0 {
			feat["queued"] = true
		}
		if n == 0 {
			feat["empty-call"] = true
		}
		if c > 0 && n > 0 {
			feat["multi-call"] = true
		}
		sl := "."
		if len(sizes) > 0 {
			sl = strings.Join(sizes, ",")
		}
		calls = append(calls, sl)
		results = append(results, fmt.Sprintf("r=%s;q=%s;c=%s", rs, kvfmt.Ints(q), cs))
	}
	return line{"wm", fmt.Sprintf("%s %s %s %s", hx(batchSize), hx(batchBytes), kvfmt.Bool(async), strings.Join(calls, "/")),
		strings.Join(results, "/"), kvfmt.Set(feat)}
}

// ---------------------------------------------------------------------------
// e2e: plan

type planMsg struct {
	id    uint64
	topic int // message-level topic number, -1 = none
	size  int // VerifTotalSize of msg
	part  int
	msg   kafka.Message // the message as submitted (all attributes set)
}

const (
	ctxNone = iota
	ctxCancelled
	ctxSoon
)

type planCall struct {
	msgs     []planMsg
	times    string // time profile of the call (feature tag times=...)
	ctxMode  int
	ctxDelay time.Duration
	pause    time.Duration // sleep before the call (non-det scenarios)
}

type plan struct {
	topics       []int // partitions per topic
	batchSize    int
	batchBytes   int
	maxAttempts  int
	async        bool
	wtopic       int
	det          bool
	batchTimeout time.Duration
	backoffMin   time.Duration
	backoffMax   time.Duration
	callers      [][]planCall
	afterClose   []planCall
	closeRace    bool
	closeDelay   time.Duration
	faults       map[fakert.TP][]fakert.Reaction
	metaAt       int
	metaCode     int
	feat         map[string]bool

	// Options LEFT AT THEIR ZERO VALUE in the Writer (the documented default
	// applies; batchSize / batchBytes / maxAttempts / batchTimeout above then
	// hold that default for the generator's own use).
	zBatchSize    bool
	zBatchBytes   bool
	zMaxAttempts  bool
	zBatchTimeout bool
	zBackoff      bool
	zReadTimeout  bool
	zWriteTimeout bool
	balancerNil   bool // default round-robin balancer
	acks          kafka.RequiredAcks
	newWriter     bool // built with kafka.NewWriter(WriterConfig) instead of a literal
	sizeBB        int  // the limit message sizes are drawn around (= batchBytes unless that is the default)
	bigLeft       int  // near-1MiB messages still allowed in this scenario

	// effective configuration read from the scenario's Writer (VerifWriterEffective)
	custom   func(p *plan, release func()) line // scenarios with their own choreography
	cfgCodes []int                              // codes a custom scenario injects outside p.faults (for the cfg list)

	readTimeout, writeTimeout time.Duration // explicit values (0 = the harness' 5 s unless left at zero)

	effSet                  bool
	effBS, effBB, effMaxAtt int
}

const (
	defaultBatchSize   = 100
	defaultBatchBytes  = 1048576
	defaultMaxAttempts = 10
	bigThreshold       = 4096 // targets above this use the shared zero slab + vid header
)

// slab backs the values of all big messages (never written to).
var slab = make([]byte, defaultBatchBytes+8192)

// budgets of slow defaults per run (plans are generated sequentially)
var budgetTimeout, budgetBackoff = 8, 8

// Kafka codes are kept in the encoded form of fakert.Enc (negative codes as
// 65536+c); none of them may fall into the transport range 1001..1099.
var boundaryCodes = []int{fakert.Enc(-1), fakert.Enc(-2), fakert.Enc(-32768), 1, 127, 128, 255, 256, 32767}
var kafkaCodes = append([]int{1, 2, 3, 5, 6, 7, 10, 13, 17, 19, 20, 29, 87}, boundaryCodes...)
var netCodes = []int{fakert.CodeUnexpectedEOF, fakert.CodeConnReset, fakert.CodePipe, fakert.CodeConnRefused,
	fakert.CodeDeadline, fakert.CodeBoom, fakert.CodeTemp, fakert.CodeEOF}

// seenErr is the error as (*partitionWriter).writeBatch sees it.
func seenErr(code int) error {
	if !fakert.IsTransport(code) {
		return fakert.ErrOf(code) // kafka.Error of the decoded code
	}
	return fmt.Errorf("kafka.(*Client).Produce: %w", fakert.ErrOf(code))
}

// retriable asks the code under test. It feeds ONLY the informational
// retriable list of the cfg token and the rtb op: the classification is part
// of the specification on the model side, so nothing the harness decides
// (generator choices, feature tags, verdicts) may depend on it.
func retriable(code int) bool { return kafka.VerifRetriable(seenErr(code)) }

// specRetriable is the harness' own table for the codes of its fault alphabet
// (Kafka codes with a temporary condition; the transient network errors,
// deadline and Temporary() errors; NOT a plain io.EOF, NOT "boom"). It steers
// the generator and the feature tags only.
var specRetriableCodes = map[int]bool{2: true, 3: true, 5: true, 6: true, 7: true, 13: true, 19: true, 20: true,
	fakert.CodeUnexpectedEOF: true, fakert.CodeConnReset: true, fakert.CodePipe: true, fakert.CodeConnRefused: true,
	fakert.CodeDeadline: true, fakert.CodeTemp: true}

func specRetriable(code int) bool { return specRetriableCodes[code] }

const minE2ESize = 32 // 1-byte key, 8-byte value

func pickSize(r *rand.Rand, bb int) int {
	var s int
	switch r.Intn(12) {
	case 0:
		s = bb
	case 1:
		s = bb - 1
	case 2:
		s = bb / 2
	case 3:
		s = bb/2 + 1
	case 4:
		s = bb - bb/2
	case 5:
		s = bb / 3
	case 6:
		s = minE2ESize
	default:
		span := bb - minE2ESize
		if span > 40 {
			span = 40
		}
		s = minE2ESize + r.Intn(span+1)
	}
	if s < minE2ESize {
		s = minE2ESize
	}
	if s > bb {
		s = bb
	}
	return s
}

func genReaction(r *rand.Rand, forceFail bool) fakert.Reaction {
	var re fakert.Reaction
	k := r.Intn(4)
	if forceFail {
		k = 1 + r.Intn(3)
	}
	re.Kind = fakert.Kind(k)
	switch re.Kind {
	case fakert.RejectedCode:
		if r.Intn(5) < 2 { // boundary codes with probability >= 1/3 (kafkaCodes holds them too)
			re.Code = boundaryCodes[r.Intn(len(boundaryCodes))]
		} else {
			re.Code = kafkaCodes[r.Intn(len(kafkaCodes))]
		}
	case fakert.AppliedLost, fakert.NotApplied:
		re.Code = netCodes[r.Intn(len(netCodes))]
	}
	if r.Intn(5) == 0 {
		re.Delay = time.Duration(1+r.Intn(3)) * time.Millisecond
	}
	return re
}

// callTimes draws the time profile of a call of n messages.
func callTimes(r *rand.Rand, n int) (string, []time.Time) {
	ts := make([]time.Time, n)
	base := time.Unix(1600000000+int64(r.Intn(100000000)), int64(r.Intn(1000000000)))
	label := ""
	switch k := r.Intn(20); {
	case k < 2:
		label = "zero"
	case k < 5:
		label = "inc"
		for i := range ts {
			ts[i] = base.Add(time.Duration(i) * time.Millisecond)
		}
	case k < 7:
		label = "equal"
		for i := range ts {
			ts[i] = base
		}
	case k < 11:
		label = "dec"
		for i := range ts {
			ts[i] = base.Add(-time.Duration(i) * time.Millisecond)
		}
	case k < 14:
		label = "dec-subms"
		for i := range ts {
			ts[i] = base.Add(-time.Duration(i) * time.Microsecond)
		}
	case k < 17:
		label = "far"
		y2100 := time.Date(2100, 6, 1, 12, 0, 0, 0, time.UTC)
		y2001 := time.Date(2001, 2, 3, 4, 5, 6, 7000000, time.UTC)
		for i := range ts {
			switch i % 3 {
			case 0:
				ts[i] = y2100
			case 1:
				ts[i] = y2001
			}
		}
	default:
		label = "mixed"
		for i := range ts {
			if r.Intn(2) == 0 {
				ts[i] = base.Add(time.Duration(r.Intn(2000000)-1000000) * time.Microsecond)
			}
		}
	}
	if n == 0 {
		label = ""
	}
	return label, ts
}

var headerKeys = []string{"", "a", "k1", "hdr", "x-y"}

// decorate sets every attribute of the message of m (key, headers, value
// shape, time, caller-set Offset / Partition) and then pads the value so that
// VerifTotalSize hits target when the id travels in the value. idInValue
// forces that shape (used for the message that must be one byte too large).
func (p *plan) decorate(r *rand.Rand, m *planMsg, target int, tm time.Time, idInValue bool) {
	km := kafka.Message{Time: tm}
	if m.topic >= 0 {
		km.Topic = fmt.Sprintf("t%d", m.topic)
	}
	// The balancer reads the partition from a 1-byte key; on single-partition
	// topics the key is free.
	t := m.topic
	if t < 0 {
		t = p.wtopic
	}
	shortKey := []byte{byte(m.part)}
	km.Key = shortKey
	if t >= 0 && p.topics[t] == 1 && m.part == 0 {
		switch r.Intn(4) {
		case 0:
			km.Key = nil
		case 1:
			km.Key = []byte{}
		case 2:
			km.Key = make([]byte, 2+r.Intn(15))
			r.Read(km.Key)
		}
	}
	if r.Intn(10) < 3 {
		for i, n := 0, 1+r.Intn(3); i < n; i++ {
			h := kafka.Header{Key: headerKeys[r.Intn(len(headerKeys))]}
			switch r.Intn(4) {
			case 0: // nil value
			case 1:
				h.Value = []byte{}
			default:
				h.Value = make([]byte, 1+r.Intn(6))
				r.Read(h.Value)
			}
			km.Headers = append(km.Headers, h)
		}
	}
	if r.Intn(5) == 0 { // caller-set Offset / Partition: the writer must ignore them
		km.Offset = []int64{-1, -12345, 1 << 40, r.Int63(), 7}[r.Intn(5)]
		km.Partition = []int{-1, 1 << 30, r.Intn(3), 7, -1 << 31}[r.Intn(5)]
		if km.Offset == 0 && km.Partition == 0 {
			km.Offset = 3
		}
	}
	idb := make([]byte, 8)
	binary.BigEndian.PutUint64(idb, m.id)
	big := target > bigThreshold
	vid := big || (!idInValue && r.Intn(10) == 0)
	if big { // id in header "vid", value = a slice of the shared zero slab
		km.Value = slab[:0]
		km.Headers = append(km.Headers, kafka.Header{Key: fakert.VidHeader, Value: idb})
	} else if vid { // id in header "vid", value nil / empty / shorter than 8 bytes
		switch r.Intn(3) {
		case 0:
			km.Value = nil
		case 1:
			km.Value = []byte{}
		default:
			km.Value = make([]byte, 1+r.Intn(7))
			r.Read(km.Value)
		}
		km.Headers = append(km.Headers, kafka.Header{Key: fakert.VidHeader, Value: idb})
	} else {
		km.Value = idb
	}
	size := func() int { return int(kafka.VerifTotalSize(km)) }
	limit := target
	if (vid && !big) || (size() <= p.batchBytes && target <= p.batchBytes && r.Intn(2) == 0) {
		limit = p.batchBytes // any size that fits a batch will do
	}
	if size() > limit { // too big with its decoration: drop headers, then the long key
		if vid {
			km.Headers = km.Headers[len(km.Headers)-1:]
		} else {
			km.Headers = nil
		}
		if size() > limit {
			km.Key = shortKey
		}
	}
	if !vid && size() < target {
		km.Value = make([]byte, 8+target-size())
		copy(km.Value, idb)
	}
	if big {
		km.Value = slab[:target-size()]
	}
	m.size = size()
	m.msg = km
	f := p.feat
	if len(km.Headers) > 0 && !(vid && len(km.Headers) == 1) {
		f["headers"] = true
	}
	switch {
	case km.Key == nil:
		f["key-nil"] = true
	case len(km.Key) == 0:
		f["key-empty"] = true
	case len(km.Key) > 1:
		f["key-long"] = true
	}
	if big {
		f["value-big"] = true
	} else if vid {
		f["value-short"] = true
	}
	if km.Offset != 0 || km.Partition != 0 {
		f["caller-offset-partition"] = true
	}
}

// plainMsg builds the message of the fixed scenarios: 1-byte key, id in the
// value, total size 40, the given time.
func plainMsg(id uint64, tm time.Time) planMsg {
	v := make([]byte, 16)
	binary.BigEndian.PutUint64(v, id)
	km := kafka.Message{Key: []byte{0}, Value: v, Time: tm}
	return planMsg{id: id, topic: -1, part: 0, size: int(kafka.VerifTotalSize(km)), msg: km}
}

// sizedPlainMsg is plainMsg with a chosen total size (>= 32) and partition.
func sizedPlainMsg(id uint64, size, part int) planMsg {
	v := make([]byte, size-24)
	binary.BigEndian.PutUint64(v, id)
	km := kafka.Message{Key: []byte{byte(part)}, Value: v}
	return planMsg{id: id, topic: -1, part: part, size: int(kafka.VerifTotalSize(km)), msg: km}
}

func genPlan(r *rand.Rand) *plan {
	p := &plan{feat: map[string]bool{}, faults: map[fakert.TP][]fakert.Reaction{}}
	nt := 1 + r.Intn(3)
	for i := 0; i < nt; i++ {
		p.topics = append(p.topics, 1+r.Intn(3))
	}
	p.det = r.Intn(2) == 0
	p.async = r.Intn(3) == 0
	p.batchSize = 1 + r.Intn(10)
	if r.Intn(4) == 0 {
		p.batchSize = 1 + r.Intn(2)
	}
	switch r.Intn(3) {
	case 0:
		p.batchBytes = 60 + r.Intn(100)
	case 1:
		p.batchBytes = 60 + r.Intn(400)
	default:
		p.batchBytes = 60 + r.Intn(1941)
	}
	p.maxAttempts = 1 + r.Intn(4)
	p.sizeBB = p.batchBytes
	if r.Intn(4) == 0 {
		p.zBatchSize, p.batchSize = true, defaultBatchSize
	}
	if r.Intn(4) == 0 {
		p.zBatchBytes, p.batchBytes = true, defaultBatchBytes
		p.bigLeft = 6
	}
	if r.Intn(4) == 0 {
		p.zMaxAttempts, p.maxAttempts = true, defaultMaxAttempts
	}
	p.zReadTimeout = r.Intn(4) == 0
	p.zWriteTimeout = r.Intn(4) == 0
	p.newWriter = r.Intn(5) == 0
	switch r.Intn(4) {
	case 0:
		p.acks = kafka.RequireNone // the zero value of a Writer literal
		if p.newWriter {
			p.acks = kafka.RequireAll // NewWriter turns 0 into RequireAll
		}
	case 1:
		p.acks = kafka.RequireOne
	default:
		p.acks = kafka.RequireAll
	}
	p.backoffMin = time.Millisecond
	p.backoffMax = time.Duration(1+r.Intn(2)) * time.Millisecond
	p.wtopic = -1
	if r.Intn(2) == 0 {
		p.wtopic = r.Intn(nt)
	}
	ncallers := 1
	switch {
	case p.det && p.async:
		p.batchTimeout = time.Hour
	case p.det:
		p.batchTimeout = time.Duration(200+r.Intn(100)) * time.Millisecond
	default:
		p.batchTimeout = time.Duration(1+r.Intn(20)) * time.Millisecond
		ncallers = 1 + r.Intn(8)
	}
	if !p.det && r.Intn(5) == 0 {
		p.closeRace = true
		p.closeDelay = time.Duration(r.Intn(8000)) * time.Microsecond
	}

	genCall := func(g int, seq *uint64) planCall {
		var c planCall
		n := r.Intn(13)
		if n == 0 && r.Intn(3) != 0 {
			n = 1 + r.Intn(4)
		}
		// topic / partition targets: half of the calls aim at one partition
		oneTP := r.Intn(2) == 0
		t0 := r.Intn(nt)
		if p.wtopic >= 0 {
			t0 = p.wtopic
		}
		p0 := r.Intn(p.topics[t0])
		targets := make([]int, n)
		for i := 0; i < n; i++ {
			*seq++
			m := planMsg{id: uint64(g)<<20 + *seq, topic: -1}
			t := t0
			if p.wtopic < 0 && !oneTP {
				t = r.Intn(nt)
			}
			if p.wtopic < 0 {
				m.topic = t
			}
			if oneTP {
				m.part = p0
			} else {
				m.part = r.Intn(p.topics[t])
			}
			targets[i] = pickSize(r, p.sizeBB)
			c.msgs = append(c.msgs, m)
		}
		if p.zBatchBytes && n > 0 && p.bigLeft > 0 && r.Intn(5) == 0 { // sizes around the default limit
			bb := defaultBatchBytes
			targets[r.Intn(n)] = []int{bb, bb - 1, bb - 23, 600000, bb / 2, bb/2 + 1}[r.Intn(6)]
			p.bigLeft--
			if n > 1 && r.Intn(2) == 0 {
				targets[r.Intn(n)] = []int{bb, bb - 1, 600000, bb / 2}[r.Intn(4)]
			}
		}
		large := -1
		if n > 0 && r.Intn(12) == 0 { // one byte over BatchBytes: first / middle / last
			switch r.Intn(3) {
			case 0:
				large = 0
			case 1:
				large = n / 2
			default:
				large = n - 1
			}
			targets[large] = p.batchBytes + 1
		}
		if n > 0 && r.Intn(16) == 0 { // topic conflict
			i := r.Intn(n)
			if p.wtopic >= 0 {
				t := r.Intn(nt)
				c.msgs[i].topic = t
				c.msgs[i].part = r.Intn(p.topics[t])
			} else {
				c.msgs[i].topic = -1
				c.msgs[i].part = 0
			}
		}
		var times []time.Time
		c.times, times = callTimes(r, n)
		for i := range c.msgs {
			p.decorate(r, &c.msgs[i], targets[i], times[i], i == large)
		}
		if !p.det && !p.async && r.Intn(10) == 0 {
			if r.Intn(2) == 0 {
				c.ctxMode = ctxCancelled
			} else {
				c.ctxMode = ctxSoon
				c.ctxDelay = time.Duration(200+r.Intn(8000)) * time.Microsecond
			}
		}
		if !p.det && r.Intn(3) == 0 {
			c.pause = time.Duration(r.Intn(3000)) * time.Microsecond
		}
		return c
	}

	seqs := make([]uint64, ncallers)
	for g := 0; g < ncallers; g++ {
		nc := 1 + r.Intn(6)
		var calls []planCall
		for i := 0; i < nc; i++ {
			calls = append(calls, genCall(g, &seqs[g]))
		}
		p.callers = append(p.callers, calls)
	}
	if r.Intn(4) == 0 {
		for i, n := 0, 1+r.Intn(2); i < n; i++ {
			c := genCall(0, &seqs[0])
			c.ctxMode, c.pause = ctxNone, 0
			p.afterClose = append(p.afterClose, c)
		}
	}

	// fault scripts
	for t, np := range p.topics {
		for pt := 0; pt < np; pt++ {
			if r.Intn(100) < 45 {
				continue
			}
			var script []fakert.Reaction
			switch r.Intn(5) {
			case 0: // the same retriable failure until the attempts are exhausted, and beyond
				var re fakert.Reaction
				for {
					re = genReaction(r, true)
					if specRetriable(re.Code) && !(p.acks == kafka.RequireNone && re.Kind == fakert.RejectedCode) {
						break
					}
				}
				for i, n := 0, p.maxAttempts+r.Intn(4); i < n; i++ {
					script = append(script, re)
				}
			case 1: // long mixed script
				for i, n := 0, p.maxAttempts+r.Intn(5); i < n; i++ {
					script = append(script, genReaction(r, r.Intn(3) != 0))
				}
			default:
				for i, n := 0, 1+r.Intn(3); i < n; i++ {
					script = append(script, genReaction(r, false))
				}
			}
			if p.acks == kafka.RequireNone {
				// Client.Produce ignores the response without acks: a broker
				// error code would never be seen, script transport errors only
				for i := range script {
					if script[i].Kind == fakert.RejectedCode {
						script[i].Kind, script[i].Code = fakert.AppliedAcked, 0
					}
				}
			}
			p.faults[fakert.TP{Topic: fmt.Sprintf("t%d", t), Partition: pt}] = script
		}
	}

	// slow defaults, within their budgets
	failures := 0 // the largest number of failing reactions in one script
	for _, sc := range p.faults {
		n := 0
		for _, re := range sc {
			if re.Kind != fakert.AppliedAcked {
				n++
			}
		}
		if n > failures {
			failures = n
		}
	}
	if failures <= 1 && budgetBackoff > 0 && r.Intn(3) == 0 {
		p.zBackoff = true // 100 ms / 1 s: at most one retry per partition
		p.backoffMin, p.backoffMax = 100*time.Millisecond, time.Second
		budgetBackoff--
	}
	switch {
	case p.det && p.async && !p.zBackoff && r.Intn(4) == 0:
		p.zBatchTimeout = true // Close flushes long before the default second
		p.batchTimeout = time.Second
	case p.det && !p.async && len(p.callers[0]) == 1 && budgetTimeout > 0 && r.Intn(2) == 0:
		p.zBatchTimeout = true // one call waits at most one second
		p.batchTimeout = time.Second
		budgetTimeout--
	}
	if r.Intn(10) == 0 {
		p.metaAt = 1 + r.Intn(20)
		if r.Intn(2) == 0 {
			p.metaCode = kafkaCodes[r.Intn(len(kafkaCodes))]
		} else {
			p.metaCode = netCodes[r.Intn(len(netCodes))]
		}
	}
	if ncallers == 1 && !p.closeRace && r.Intn(4) == 0 {
		p.balancerNil = true
		p.roundRobinParts()
	}
	return p
}

// roundRobinParts rewrites the partitions of the C events for the default
// balancer: the RoundRobin of one writer answers partitions[counter % n] and
// increments its counter on every Balance call, which WriteMessages makes per
// message in order, after the too-large scan of the whole call, the topic
// choice and the metadata lookup of that message (each of which ends the call).
// Only valid for one caller whose calls all pass enter().
func (p *plan) roundRobinParts() {
	counter, meta := 0, 0
	for ci := range p.callers[0] {
		c := &p.callers[0][ci]
		large := false
		for _, m := range c.msgs {
			if m.size > p.batchBytes {
				large = true
			}
		}
		if large {
			continue
		}
		for i := range c.msgs {
			t := p.effTopic(c.msgs[i])
			if t < 0 {
				break
			}
			meta++
			if meta == p.metaAt {
				break
			}
			c.msgs[i].part = counter % p.topics[t]
			counter++
		}
	}
}

// effTopic is the topic a message is routed to, or -1 when the writer rejects
// it (both or neither topic set).
func (p *plan) effTopic(m planMsg) int {
	switch {
	case p.wtopic >= 0 && m.topic >= 0, p.wtopic < 0 && m.topic < 0:
		return -1
	case m.topic >= 0:
		return m.topic
	}
	return p.wtopic
}

func (p *plan) cfg() string {
	codes := map[int]bool{}
	for _, c := range p.cfgCodes {
		codes[c] = true
	}
	for _, s := range p.faults {
		for _, re := range s {
			if re.Kind != fakert.AppliedAcked {
				codes[re.Code] = true
			}
		}
	}
	var retr []int
	for c := range codes {
		if retriable(c) {
			retr = append(retr, c)
		}
	}
	sort.Ints(retr)
	rs := "."
	if len(retr) > 0 {
		s := make([]string, len(retr))
		for i, c := range retr {
			s[i] = hx(c)
		}
		rs = strings.Join(s, ";")
	}
	wt := "-"
	if p.wtopic >= 0 {
		wt = hx(p.wtopic)
	}
	bs, bb, ma := p.batchSize, p.batchBytes, p.maxAttempts
	if p.effSet { // what the scenario's Writer really works with
		bs, bb, ma = p.effBS, p.effBB, p.effMaxAtt
	}
	return fmt.Sprintf("cfg=%s,%s,%s,%s,%s,%s,%s", hx(bs), hx(bb), hx(ma),
		kvfmt.Bool(p.async), wt, rs, kvfmt.Bool(p.det))
}

// planFeatures derives the plan-level feature tags (limits, conflicts, ...).
func (p *plan) planFeatures() {
	f := p.feat
	f[fmt.Sprintf("callers=%d", len(p.callers))] = true
	if p.async {
		f["async"] = true
	} else {
		f["sync"] = true
	}
	if p.det {
		f["det"] = true
	} else {
		f["nondet"] = true
	}
	if p.closeRace {
		f["close-race"] = true
	}
	if len(p.afterClose) > 0 {
		f["after-close"] = true
	}
	for tag, on := range map[string]bool{
		"default-batchsize": p.zBatchSize, "default-batchbytes": p.zBatchBytes, "default-maxattempts": p.zMaxAttempts,
		"default-batchtimeout": p.zBatchTimeout, "default-backoff": p.zBackoff, "balancer-nil": p.balancerNil, "newwriter": p.newWriter,
	} {
		if on {
			f[tag] = true
		}
	}
	f["acks="+p.acks.String()] = true
	type bstate struct {
		size  int
		bytes int
	}
	tps := map[[2]int]bool{}
	tset := map[int]bool{}
	open := map[[2]int]*bstate{}
	for _, calls := range p.callers {
		for _, c := range calls {
			if c.ctxMode != ctxNone {
				f["ctx-cancel"] = true
			}
			if c.times != "" {
				f["times="+c.times] = true
			}
			valid := true
			for _, m := range c.msgs {
				if m.size > p.batchBytes {
					f["toolarge"] = true
					valid = false
				}
				if p.effTopic(m) < 0 {
					f["topic-conflict"] = true
					valid = false
				}
			}
			if !valid {
				continue
			}
			if !(p.det && p.async) {
				open = map[[2]int]*bstate{} // every call starts on fresh batches (approximation when non-det)
			}
			for _, m := range c.msgs {
				if m.size == p.batchBytes {
					f["exact-bytes"] = true
				}
				key := [2]int{p.effTopic(m), m.part}
				tps[key] = true
				tset[key[0]] = true
				b := open[key]
				if b == nil {
					b = &bstate{}
					open[key] = b
				}
				if b.size > 0 && b.bytes+m.size > p.batchBytes {
					f["full-by-bytes"] = true
					*b = bstate{}
				}
				b.size++
				b.bytes += m.size
				if b.size >= p.batchSize {
					f["full-by-size"] = true
					*b = bstate{}
				} else if b.bytes >= p.batchBytes {
					f["full-by-bytes"] = true
					*b = bstate{}
				}
			}
		}
	}
	if len(tps) > 1 {
		f["multi-partition"] = true
	}
	if len(tset) > 1 {
		f["multi-topic"] = true
	}
}

// ---------------------------------------------------------------------------
// e2e: run

type scRun struct {
	p    *plan
	hist *fakert.History
	fake *fakert.Fake
	w    *kafka.Writer

	ncalls int // guarded by the history lock (only touched inside hist.Do)

	mu      sync.Mutex
	result  string
	abort   chan struct{}
	aborted bool

	relOnce sync.Once
	release func()

	completions int64 // messages handed to Completion so far (atomic)

	anomMu sync.Mutex
	anom   string // first Go-side anomaly (ANOMALY:...), reported when there is no HANG / PANIC
	anomD  string // its description
}

func (s *scRun) anomaly(kind, detail string) {
	s.anomMu.Lock()
	defer s.anomMu.Unlock()
	if s.anom == "" {
		s.anom, s.anomD = "ANOMALY:"+kind, detail
	}
}

// checkCompletion verifies the attributes the writer sets on the messages of a
// successful completion against what the fake acknowledged.
func (s *scRun) checkCompletion(msgs []kafka.Message) {
	for i := range msgs {
		m := &msgs[i]
		at, ok := s.fake.Acked(msgID(*m))
		if !ok {
			continue
		}
		if m.Topic != at.TP.Topic || m.Partition != at.TP.Partition || m.Offset != at.Offset {
			s.anomaly("completion-attrs", fmt.Sprintf("id %x: completion has %s/%d@%d, acknowledged at %s/%d@%d",
				msgID(*m), m.Topic, m.Partition, m.Offset, at.TP.Topic, at.TP.Partition, at.Offset))
			return
		}
	}
}

// fail records the first failure (HANG:... / PANIC:...) and aborts the scenario.
func (s *scRun) fail(res string) {
	s.mu.Lock()
	defer s.mu.Unlock()
	if !s.aborted {
		s.aborted = true
		s.result = res
		close(s.abort)
	}
}

// watch waits for done under the watchdog. After one second of waiting the
// scenario gives its concurrency slot back so that a hang does not stall the
// other scenarios. It returns false when the watchdog tripped.
func (s *scRun) watch(done <-chan struct{}) bool {
	t := time.NewTimer(time.Second)
	defer t.Stop()
	select {
	case <-done:
		return true
	case <-t.C:
	}
	s.relOnce.Do(s.release)
	t2 := time.NewTimer(watchdog - time.Second)
	defer t2.Stop()
	select {
	case <-done:
		return true
	case <-t2.C:
		return false
	}
}

func msgID(m kafka.Message) uint64 {
	id, _ := fakert.MessageID(m.Value, m.Headers)
	return id
}

func msgIDs(ms []kafka.Message) string {
	ids := make([]uint64, len(ms))
	for i := range ms {
		ids[i] = msgID(ms[i])
	}
	return fakert.IDs(ids)
}

func (s *scRun) buildMsgs(c *planCall) []kafka.Message {
	msgs := make([]kafka.Message, len(c.msgs))
	for i, m := range c.msgs {
		msgs[i] = m.msg
		if int(kafka.VerifTotalSize(msgs[i])) != m.size || msgID(msgs[i]) != m.id {
			panic(fmt.Sprintf("e2e message %x: size %d, planned %d", m.id, kafka.VerifTotalSize(msgs[i]), m.size))
		}
	}
	return msgs
}

func formatC(cnum, g int, merr string, c *planCall) string {
	ms := "."
	if len(c.msgs) > 0 {
		l := make([]string, len(c.msgs))
		for i, m := range c.msgs {
			t := "-"
			if m.topic >= 0 {
				t = hx(m.topic)
			}
			l[i] = fmt.Sprintf("%x.%s.%s.%s", m.id, t, hx(m.size), hx(m.part))
		}
		ms = strings.Join(l, ";")
	}
	return fmt.Sprintf("C%s:%s:%s:%s", hx(cnum), hx(g), merr, ms)
}

func classifyResult(err error, msgs []kafka.Message) string {
	if err == nil {
		return "nil"
	}
	if err == io.ErrClosedPipe {
		return "closed"
	}
	var tl kafka.MessageTooLargeError
	if errors.As(err, &tl) {
		id := msgID(tl.Message)
		for i := range msgs {
			if msgID(msgs[i]) == id {
				return "toolarge." + hx(i)
			}
		}
		return "toolarge.?"
	}
	if we, ok := err.(kafka.WriteErrors); ok {
		l := make([]string, len(we))
		for i, e := range we {
			if e == nil {
				l[i] = "-"
			} else {
				l[i] = hx(fakert.Classify(e))
			}
		}
		if len(l) == 0 {
			return "we.."
		}
		return "we." + strings.Join(l, ";")
	}
	if strings.HasPrefix(err.Error(), "kafka.(*Writer): Topic must") {
		return "topic"
	}
	// The fake answers metadata whatever the state of ctx, so context.Canceled
	// can only come from the wait loop of WriteMessages; any other recognised
	// error (DeadlineExceeded included) is a scripted metadata fault.
	if errors.Is(err, context.Canceled) {
		return "ctx"
	}
	if fakert.Classify(err) != fakert.CodeUnknown {
		return "meta"
	}
	return "other." + sanitize(err.Error())
}

// doCall runs one WriteMessages call of caller g under the watchdog. It
// returns false when the scenario must stop (hang or panic).
func (s *scRun) doCall(g int, c *planCall) bool {
	if c.pause > 0 {
		time.Sleep(c.pause)
	}
	select {
	case <-s.abort:
		return false
	default:
	}
	msgs := s.buildMsgs(c)
	ctx := context.Background()
	cancel := func() {}
	switch c.ctxMode {
	case ctxCancelled:
		ctx, cancel = context.WithCancel(ctx)
		cancel()
	case ctxSoon:
		// cancelled (not timed out) so that the caller's ctx error is always
		// context.Canceled, which no fault script produces
		ctx, cancel = context.WithCancel(ctx)
		t := time.AfterFunc(c.ctxDelay, cancel)
		defer t.Stop()
	}
	defer cancel()

	single := len(s.p.callers) == 1
	metaBefore := 0
	if single {
		metaBefore, _ = s.fake.MetaState()
	}
	cnum := 0
	seq := s.hist.Do(func(int) string {
		cnum = s.ncalls
		s.ncalls++
		return formatC(cnum, g, "-", c)
	})
	done := make(chan struct{})
	go func() {
		defer close(done)
		defer func() {
			if r := recover(); r != nil {
				s.fail("PANIC:" + sanitize(fmt.Sprint(r)))
			}
		}()
		err := s.w.WriteMessages(ctx, msgs...)
		res := classifyResult(err, msgs)
		s.hist.Do(func(int) string { return fmt.Sprintf("R%s:%s", hx(cnum), res) })
	}()
	if !s.watch(done) {
		s.fail("HANG:call")
		return false
	}
	if single && s.p.metaAt > 0 {
		after, fired := s.fake.MetaState()
		if fired && metaBefore < s.p.metaAt && s.p.metaAt <= after {
			merr := fmt.Sprintf("%s.%s", hx(s.p.metaAt-metaBefore-1), hx(s.p.metaCode))
			s.hist.Patch(seq, formatC(cnum, g, merr, c))
		}
	}
	select {
	case <-s.abort:
		return false
	default:
		return true
	}
}

// keyBalancer reads the partition from the first key byte.
var keyBalancer = kafka.BalancerFunc(func(m kafka.Message, parts ...int) int {
	if len(m.Key) == 0 || len(parts) == 0 {
		return 0
	}
	return parts[int(m.Key[0])%len(parts)]
})

// buildWriter constructs the scenario's Writer, leaving at their zero value
// the options the plan says so; either as a literal or through NewWriter.
func (p *plan) buildWriter(fake *fakert.Fake) *kafka.Writer {
	topic := ""
	if p.wtopic >= 0 {
		topic = fmt.Sprintf("t%d", p.wtopic)
	}
	var bs, ma int
	var bb int64
	var bt, bmin, bmax, rt, wt time.Duration
	if !p.zBatchSize {
		bs = p.batchSize
	}
	if !p.zBatchBytes {
		bb = int64(p.batchBytes)
	}
	if !p.zMaxAttempts {
		ma = p.maxAttempts
	}
	if !p.zBatchTimeout {
		bt = p.batchTimeout
	}
	if !p.zBackoff {
		bmin, bmax = p.backoffMin, p.backoffMax
	}
	if !p.zReadTimeout {
		rt = 5 * time.Second
		if p.readTimeout > 0 {
			rt = p.readTimeout
		}
	}
	if !p.zWriteTimeout {
		wt = 5 * time.Second
		if p.writeTimeout > 0 {
			wt = p.writeTimeout
		}
	}
	var bal kafka.Balancer
	if !p.balancerNil {
		bal = keyBalancer
	}
	var w *kafka.Writer
	if p.newWriter {
		// NewWriter: RequiredAcks 0 becomes RequireAll, a nil Balancer becomes a
		// fresh RoundRobin, and a Transport is built from the Dialer (replaced
		// by the fake below; the private one is only closed by Close).
		w = kafka.NewWriter(kafka.WriterConfig{
			Brokers:      []string{"fake:9092"},
			Topic:        topic,
			Balancer:     bal,
			MaxAttempts:  ma,
			BatchSize:    bs,
			BatchBytes:   int(bb),
			BatchTimeout: bt,
			ReadTimeout:  rt,
			WriteTimeout: wt,
			RequiredAcks: int(p.acks),
			Async:        p.async,
		})
		w.Transport = fake
	} else {
		w = &kafka.Writer{
			Addr:         kafka.TCP("fake:9092"),
			Topic:        topic,
			Balancer:     bal,
			Transport:    fake,
			MaxAttempts:  ma,
			BatchSize:    bs,
			BatchBytes:   bb,
			BatchTimeout: bt,
			ReadTimeout:  rt,
			WriteTimeout: wt,
			RequiredAcks: p.acks,
			Async:        p.async,
		}
	}
	w.WriteBackoffMin, w.WriteBackoffMax = bmin, bmax
	return w
}

func (s *scRun) finish() line {
	hist, fake, p := s.hist, s.fake, s.p
	// A RoundTrip abandoned by the writer may still be inside the fake:
	// let it land so that the history and the logs show it.
	for i := 0; i < 200 && fake.InFlight() > 0; i++ {
		time.Sleep(5 * time.Millisecond)
	}
	events := hist.Freeze()
	tps, logs := fake.Logs()
	for i, tp := range tps {
		events = append(events, fmt.Sprintf("L%s.%s:%s", hx(fake.TopicNum(tp.Topic)), hx(tp.Partition), fakert.IDs(logs[i])))
	}
	s.mu.Lock()
	res := s.result
	s.mu.Unlock()
	if res == "" && fake.TwoInFlight() { // before the other anomalies
		res = "ANOMALY:two-in-flight"
		fmt.Fprintf(os.Stderr, "writer: %s %s\n", p.cfg(), res)
	}
	if d := fake.RecordAnomaly(); d != "" {
		s.anomaly("record-attrs", d)
	}
	s.anomMu.Lock()
	if res == "" && s.anom != "" {
		res = s.anom
		fmt.Fprintf(os.Stderr, "writer: %s %s: %s\n", p.cfg(), s.anom, s.anomD)
	}
	s.anomMu.Unlock()
	if res == "" {
		res = "ok"
	}
	s.observedFeatures(fake.Journal(), events)
	if res == "HANG:close" {
		p.feat["close-hang"] = true
	}
	if fake.TwoInFlight() { // also when a HANG / PANIC takes the result
		p.feat["two-in-flight"] = true
	}
	return line{"e2e", p.cfg() + " " + strings.Join(events, " "), res, kvfmt.Set(p.feat)}
}

// setupScenario builds the fake, the history and the Writer of a plan.
func setupScenario(p *plan, release func()) *scRun {
	hist := fakert.NewHistory()
	fake := fakert.New(hist, p.topics)
	for tp, sc := range p.faults {
		fake.SetScript(tp, sc)
	}
	if p.metaAt > 0 {
		fake.SetMetaFault(p.metaAt, p.metaCode)
	}
	s := &scRun{p: p, hist: hist, fake: fake, abort: make(chan struct{}), release: release}
	expected := map[uint64]kafka.Message{}
	for _, calls := range append(append([][]planCall(nil), p.callers...), p.afterClose) {
		for _, c := range calls {
			for _, m := range c.msgs {
				expected[m.id] = m.msg
			}
		}
	}
	fake.SetExpected(expected)

	w := p.buildWriter(fake)
	w.Completion = func(msgs []kafka.Message, err error) {
		o := "-"
		if err != nil {
			o = hx(fakert.Classify(err))
		}
		ids := msgIDs(msgs)
		hist.Do(func(int) string { return fmt.Sprintf("K%s:%s", o, ids) })
		if err == nil && p.acks != kafka.RequireNone { // without acks the writer gets no offsets
			s.checkCompletion(msgs)
		}
		atomic.AddInt64(&s.completions, int64(len(msgs)))
	}
	ebs, ebb, ema, _, _, _, _, _ := kafka.VerifWriterEffective(w)
	p.effBS, p.effBB, p.effMaxAtt, p.effSet = ebs, int(ebb), ema, true
	if p.newWriter {
		// For NewWriter the limit the documentation promises is the CONFIGURED
		// one (WriterConfig.BatchBytes if > 0, else 1048576 - which is what
		// p.batchBytes holds), so that a field lost between WriterConfig and
		// Writer shows as a violation of the limits. The mapping of every
		// WriterConfig field onto the Writer itself is what the nwc op checks.
		p.effBB = p.batchBytes
	}
	s.w = w
	return s
}

func runScenario(p *plan, release func()) line {
	s := setupScenario(p, release)
	defer s.relOnce.Do(release)
	hist, w := s.hist, s.w

	var wg sync.WaitGroup
	for g := range p.callers {
		wg.Add(1)
		go func(g int) {
			defer wg.Done()
			defer func() {
				if r := recover(); r != nil {
					s.fail("PANIC:" + sanitize(fmt.Sprint(r)))
				}
			}()
			for i := range p.callers[g] {
				if !s.doCall(g, &p.callers[g][i]) {
					return
				}
			}
		}(g)
	}
	callersDone := make(chan struct{})
	go func() { wg.Wait(); close(callersDone) }()

	finish := s.finish

	if p.closeRace {
		select {
		case <-time.After(p.closeDelay):
		case <-callersDone:
		}
	} else {
		// every call is itself under the watchdog, so this wait is bounded
		<-callersDone
	}
	select {
	case <-s.abort:
		return finish()
	default:
	}

	hist.Record("X")
	closed := make(chan struct{})
	go func() {
		defer close(closed)
		defer func() {
			if r := recover(); r != nil {
				s.fail("PANIC:" + sanitize(fmt.Sprint(r)))
			}
		}()
		w.Close()
		hist.Record("Y")
	}()
	if !s.watch(closed) {
		s.fail("HANG:close")
		return finish()
	}
	<-callersDone
	select {
	case <-s.abort:
		return finish()
	default:
	}
	for i := range p.afterClose {
		if !s.doCall(0, &p.afterClose[i]) {
			break
		}
	}
	return finish()
}

// observedFeatures derives the fault-kind tags from what the fake journalled
// and the completions that were delivered.
func (s *scRun) observedFeatures(journal []fakert.Attempt, events []string) {
	f := s.p.feat
	faulty := false
	for _, a := range journal {
		if a.Seen == 0 {
			continue
		}
		faulty = true
		r := specRetriable(a.Seen)
		switch {
		case a.Applied:
			f["lost"] = true
			if r {
				f["net-retriable"] = true
			} else {
				f["net-permanent"] = true
			}
		case !fakert.IsTransport(a.Seen) && r:
			f["code-retriable"] = true
		case !fakert.IsTransport(a.Seen):
			f["code-permanent"] = true
		case r:
			f["net-retriable"] = true
		default:
			f["net-permanent"] = true
		}
	}
	if !faulty {
		f["acked-only"] = true
	}
	for _, e := range events {
		if strings.HasPrefix(e, "K") && !strings.HasPrefix(e, "K-:") {
			var code int
			fmt.Sscanf(e[1:strings.Index(e, ":")], "%x", &code)
			if specRetriable(code) {
				f["exhausted"] = true
			}
		}
	}
	if _, fired := s.fake.MetaState(); fired {
		f["meta-fault"] = true
	}
}

// ---------------------------------------------------------------------------
// e2e: guaranteed boundary-code coverage (independent of -n)

// boundaryPlans builds, for each boundary code x {sync, async} x position of
// the rejection (first attempt / after one retry / last of three attempts), a
// deterministic one-caller, one-partition scenario: a call of 3 messages
// (BatchSize 3) hitting the script, a second call of 1 message that is
// acknowledged, then Close.
func boundaryPlans() []*plan {
	reset := fakert.Reaction{Kind: fakert.NotApplied, Code: fakert.CodeConnReset}
	pipe := fakert.Reaction{Kind: fakert.AppliedLost, Code: fakert.CodePipe}
	var plans []*plan
	for _, c := range []int{-1, 1, 127, 128, 255, 32767, -32768} {
		rej := fakert.Reaction{Kind: fakert.RejectedCode, Code: fakert.Enc(c)}
		for _, async := range []bool{false, true} {
			for _, pos := range []string{"first", "retry", "last"} {
				p := &plan{feat: map[string]bool{}, faults: map[fakert.TP][]fakert.Reaction{}}
				p.topics = []int{1}
				p.acks = kafka.RequireAll
				p.batchSize = 3
				p.batchBytes = 1000
				p.maxAttempts = 3
				p.async = async
				p.wtopic = 0
				p.det = true
				p.batchTimeout = 200 * time.Millisecond
				if async {
					p.batchTimeout = time.Hour
				}
				p.backoffMin = time.Millisecond
				p.backoffMax = time.Millisecond
				var script []fakert.Reaction
				switch pos {
				case "first":
					script = []fakert.Reaction{rej}
				case "retry":
					script = []fakert.Reaction{reset, rej}
				default:
					script = []fakert.Reaction{reset, pipe, rej}
				}
				p.faults[fakert.TP{Topic: "t0", Partition: 0}] = script
				base := time.Unix(1700000000, 0)
				mk := func(id uint64) planMsg { return plainMsg(id, base.Add(-time.Duration(id)*time.Millisecond)) }
				p.callers = [][]planCall{{
					{msgs: []planMsg{mk(1), mk(2), mk(3)}, times: "dec"},
					{msgs: []planMsg{mk(4)}, times: "dec"},
				}}
				p.planFeatures()
				p.feat["boundary-code"] = true
				p.feat["pos="+pos] = true
				plans = append(plans, p)
			}
		}
	}
	return plans
}

// timeOrderPlans builds the fixed scenarios on the order inside a batch:
// {sync, async} x {decreasing ms, decreasing sub-ms, set-then-zero} x {no
// fault, batch appended twice}: one call of 4 messages (BatchSize 4), Close.
func timeOrderPlans() []*plan {
	base := time.Unix(1700000000, 500000000)
	var plans []*plan
	for _, async := range []bool{false, true} {
		for _, prof := range []string{"dec", "dec-subms", "mixed"} {
			for _, twice := range []bool{false, true} {
				p := &plan{feat: map[string]bool{}, faults: map[fakert.TP][]fakert.Reaction{}}
				p.topics = []int{1}
				p.acks = kafka.RequireAll
				p.batchSize = 4
				p.batchBytes = 1000
				p.maxAttempts = 3
				p.async = async
				p.wtopic = 0
				p.det = true
				p.batchTimeout = 200 * time.Millisecond
				if async {
					p.batchTimeout = time.Hour
				}
				p.backoffMin = time.Millisecond
				p.backoffMax = time.Millisecond
				if twice {
					p.faults[fakert.TP{Topic: "t0", Partition: 0}] = []fakert.Reaction{
						{Kind: fakert.AppliedLost, Code: fakert.CodePipe}, {Kind: fakert.AppliedAcked}}
				}
				var msgs []planMsg
				for i := 0; i < 4; i++ {
					var tm time.Time
					switch prof {
					case "dec":
						tm = base.Add(-time.Duration(i) * time.Millisecond)
					case "dec-subms":
						tm = base.Add(-time.Duration(i) * time.Microsecond)
					default: // set, zero, earlier, zero
						if i%2 == 0 {
							tm = base.Add(-time.Duration(i) * time.Second)
						}
					}
					msgs = append(msgs, plainMsg(uint64(i+1), tm))
				}
				p.callers = [][]planCall{{{msgs: msgs, times: prof}}}
				p.planFeatures()
				p.feat["time-order"] = true
				plans = append(plans, p)
			}
		}
	}
	return plans
}

// defaultBatchBytesPlans builds the fixed family on the default BatchBytes
// (the field is LEFT AT ZERO, so the limit is the documented 1048576): sizes
// exactly at and just below the limit are accepted, sizes above it make the
// whole call fail with toolarge.<i> and nothing of it is sent, and two
// messages of 600000 bytes go to two requests. One caller, one partition,
// BatchSize 3, sync and async. The big values are slices of the shared slab.
func defaultBatchBytesPlans() []*plan {
	const bb = defaultBatchBytes
	type callSpec []int // total sizes; 0 = a small message
	families := []struct {
		name  string
		calls []callSpec
	}{
		{"exact", []callSpec{{0, bb, 0}}},
		{"minus1", []callSpec{{0, bb - 1, 0}}},
		{"minus23", []callSpec{{0, bb - 23, 0}}},
		{"over-first", []callSpec{{bb + 1, 0, 0}, {bb + 2, 0, 0}, {bb + 4096, 0, 0}, {0}}},
		{"over-middle", []callSpec{{0, bb + 1, 0}, {0, bb + 2, 0}, {0, bb + 4096, 0}, {0}}},
		{"over-last", []callSpec{{0, 0, bb + 1}, {0, 0, bb + 2}, {0, 0, bb + 4096}, {0}}},
		{"two-600k", []callSpec{{600000, 600000}}},
	}
	var plans []*plan
	for _, fam := range families {
		for _, async := range []bool{false, true} {
			p := &plan{feat: map[string]bool{}, faults: map[fakert.TP][]fakert.Reaction{}}
			p.topics = []int{1}
			p.acks = kafka.RequireAll
			p.batchSize = 3
			p.zBatchBytes, p.batchBytes = true, bb
			p.maxAttempts = 3
			p.async = async
			p.wtopic = 0
			p.det = true
			p.batchTimeout = 200 * time.Millisecond
			if async {
				p.batchTimeout = time.Hour
			}
			p.backoffMin = time.Millisecond
			p.backoffMax = time.Millisecond
			id := uint64(0)
			var calls []planCall
			for _, spec := range fam.calls {
				var c planCall
				c.times = "zero"
				for _, size := range spec {
					id++
					if size == 0 {
						c.msgs = append(c.msgs, plainMsg(id, time.Time{}))
						continue
					}
					idb := make([]byte, 8)
					binary.BigEndian.PutUint64(idb, id)
					km := kafka.Message{Key: []byte{0}, Value: slab[:0], Headers: []kafka.Header{{Key: fakert.VidHeader, Value: idb}}}
					km.Value = slab[:size-int(kafka.VerifTotalSize(km))]
					c.msgs = append(c.msgs, planMsg{id: id, topic: -1, part: 0, size: int(kafka.VerifTotalSize(km)), msg: km})
				}
				calls = append(calls, c)
			}
			p.callers = [][]planCall{calls}
			p.planFeatures()
			p.feat["value-big"] = true
			p.feat["big="+fam.name] = true
			plans = append(plans, p)
		}
	}
	return plans
}

// newWriterBatchBytesPlans: NewWriter(WriterConfig{BatchBytes: 200, BatchSize:
// 10, ...}): a 201-byte message first / middle / last makes its call fail with
// nothing sent, and five 60-byte messages are cut into requests of <= 200 bytes.
func newWriterBatchBytesPlans() []*plan {
	var plans []*plan
	for _, async := range []bool{false, true} {
		for pos := 0; pos < 3; pos++ {
			p := &plan{feat: map[string]bool{}, faults: map[fakert.TP][]fakert.Reaction{}}
			p.topics = []int{1}
			p.acks = kafka.RequireAll
			p.newWriter = true
			p.batchSize = 10
			p.batchBytes = 200
			p.sizeBB = 200
			p.maxAttempts = 3
			p.async = async
			p.wtopic = 0
			p.det = true
			p.batchTimeout = 200 * time.Millisecond
			if async {
				p.batchTimeout = time.Hour
			}
			p.backoffMin = time.Millisecond
			p.backoffMax = time.Millisecond
			var c0, c1 planCall
			c0.times, c1.times = "zero", "zero"
			for i := 0; i < 3; i++ {
				size := 40
				if i == pos {
					size = 201
				}
				c0.msgs = append(c0.msgs, sizedPlainMsg(uint64(i+1), size, 0))
			}
			for i := 0; i < 5; i++ {
				c1.msgs = append(c1.msgs, sizedPlainMsg(uint64(i+4), 60, 0))
			}
			p.callers = [][]planCall{{c0, c1}}
			p.planFeatures()
			p.feat["newwriter-batchbytes"] = true
			p.feat["pos="+[]string{"first", "middle", "last"}[pos]] = true
			plans = append(plans, p)
		}
	}
	return plans
}

// lateLandingPlans: the first produce request of partition 0 is Held inside the
// fake, ignoring the context, for longer than WriteTimeout. A correct writer
// stays in that round trip, sees the acknowledgement and goes on: one request
// per batch, the log in submission order. det=0 (timed).
func lateLandingPlans() []*plan {
	var plans []*plan
	for _, async := range []bool{false, true} {
		for variant := 0; variant < 3; variant++ {
			p := &plan{feat: map[string]bool{}, faults: map[fakert.TP][]fakert.Reaction{}}
			p.acks = kafka.RequireAll
			p.batchSize = 1
			p.batchBytes = 1000
			p.sizeBB = 1000
			p.maxAttempts = 3
			p.async = async
			p.wtopic = 0
			p.det = false
			p.batchTimeout = 10 * time.Millisecond
			p.backoffMin = 5 * time.Millisecond
			p.backoffMax = 5 * time.Millisecond
			p.readTimeout = time.Second
			hold := 350 * time.Millisecond
			p.writeTimeout = 100 * time.Millisecond
			p.topics = []int{1}
			var c0, c1 planCall
			c0.times, c1.times = "zero", "zero"
			switch variant {
			case 1:
				hold, p.writeTimeout = 250*time.Millisecond, 60*time.Millisecond
				fallthrough
			case 0:
				c0.msgs = []planMsg{sizedPlainMsg(1, 40, 0)}
				c1.msgs = []planMsg{sizedPlainMsg(2, 40, 0)}
			default: // two partitions, only partition 0 is held, partition 1 carries two batches
				p.topics = []int{2}
				c0.msgs = []planMsg{sizedPlainMsg(1, 40, 0), sizedPlainMsg(2, 40, 1)}
				c1.msgs = []planMsg{sizedPlainMsg(3, 40, 0), sizedPlainMsg(4, 40, 1)}
			}
			p.faults[fakert.TP{Topic: "t0", Partition: 0}] = []fakert.Reaction{{Kind: fakert.Held, Delay: hold}}
			p.callers = [][]planCall{{c0, c1}}
			p.planFeatures()
			for _, t := range []string{"late-landing", "held", "ctx-ignoring-roundtripper"} {
				p.feat[t] = true
			}
			plans = append(plans, p)
		}
	}
	return plans
}

// closeRaceUsedPlans: Close racing a call that was admitted before Close and
// is still in its metadata lookup, on a writer that HAS ALREADY WRITTEN (its
// partition-writer map exists). variant a: nothing else in flight; b: a
// produce answer of an earlier call is still held back by the fake (the first
// sender is draining); c: like b, but that answer is a lost one that is retried.
// The late call must return closed without creating a second sender, and Close
// must return. Everything is sequenced by events, not by sleeping.
func closeRaceUsedPlans() []*plan {
	var plans []*plan
	for _, async := range []bool{false, true} {
		for _, variant := range []string{"a", "b", "c"} {
			p := &plan{feat: map[string]bool{}, faults: map[fakert.TP][]fakert.Reaction{}}
			p.topics = []int{1}
			p.acks = kafka.RequireAll
			p.batchSize = 1
			p.batchBytes = 1000
			p.sizeBB = 1000
			p.maxAttempts = 3
			p.async = async
			p.wtopic = 0
			p.det = false
			p.batchTimeout = 10 * time.Millisecond
			p.backoffMin = 2 * time.Millisecond
			p.backoffMax = 2 * time.Millisecond
			g1, gL := 1, 2
			id1 := uint64(g1)<<20 + 1
			if async {
				g1, id1 = 0, 2 // the async caller does not block: same goroutine
			}
			calls := []planCall{
				{msgs: []planMsg{sizedPlainMsg(1, 40, 0)}, times: "zero"},
				{msgs: []planMsg{sizedPlainMsg(id1, 40, 0)}, times: "zero"},
				{msgs: []planMsg{sizedPlainMsg(uint64(gL)<<20+1, 40, 0)}, times: "zero"},
			}
			ncallers := 3
			if async {
				ncallers = 2
			}
			if variant == "a" {
				calls = []planCall{calls[0], calls[2]}
				ncallers = 2
			}
			p.callers = [][]planCall{calls} // for the features and the expected messages only
			p.planFeatures()
			delete(p.feat, "callers=1")
			p.feat[fmt.Sprintf("callers=%d", ncallers)] = true
			for _, t := range []string{"close-race-used", "used-writer", "close-race", "variant=" + variant} {
				p.feat[t] = true
			}
			if variant == "c" {
				p.cfgCodes = []int{fakert.CodePipe}
			}
			variant, g1 := variant, g1
			p.custom = func(p *plan, release func()) line { return runCloseRaceUsed(p, release, variant, g1, gL) }
			plans = append(plans, p)
		}
	}
	return plans
}

// waitFor polls cond under the scenario watchdog (10 s); false = timed out.
func waitFor(cond func() bool) bool {
	deadline := time.Now().Add(watchdog)
	for !cond() {
		if time.Now().After(deadline) {
			return false
		}
		time.Sleep(time.Millisecond)
	}
	return true
}

func runCloseRaceUsed(p *plan, release func(), variant string, g1, gL int) line {
	s := setupScenario(p, release)
	defer s.relOnce.Do(release)
	calls := p.callers[0]
	tp := fakert.TP{Topic: "t0", Partition: 0}
	guard := func(f func()) { // recover in every goroutine we start
		defer func() {
			if r := recover(); r != nil {
				s.fail("PANIC:" + sanitize(fmt.Sprint(r)))
			}
		}()
		f()
	}
	var wg sync.WaitGroup

	// call 0 completes normally: the writer is now "used"
	if !s.doCall(0, &calls[0]) {
		return s.finish()
	}
	if !waitFor(func() bool { return atomic.LoadInt64(&s.completions) >= 1 && s.fake.InFlight() == 0 }) {
		s.fail("HANG:completion")
		return s.finish()
	}
	late := &calls[1]
	if variant != "a" {
		// an earlier batch whose answer the fake holds back: the first sender is draining
		if variant == "b" {
			s.fake.SetScript(tp, []fakert.Reaction{{Kind: fakert.AppliedAcked, Delay: 300 * time.Millisecond}})
		} else {
			s.fake.SetScript(tp, []fakert.Reaction{{Kind: fakert.AppliedLost, Code: fakert.CodePipe, Delay: 300 * time.Millisecond}, {Kind: fakert.AppliedAcked}})
		}
		late = &calls[2]
		if g1 == 0 {
			if !s.doCall(0, &calls[1]) {
				return s.finish()
			}
		} else {
			wg.Add(1)
			go guard(func() { defer wg.Done(); s.doCall(g1, &calls[1]) })
		}
		if !waitFor(func() bool { return s.fake.InFlight() >= 1 || atomic.LoadInt64(&s.completions) >= 2 }) {
			s.fail("HANG:call")
			return s.finish()
		}
	}

	// the late call parks in its metadata lookup, past the closed check
	s.fake.HoldMetadata()
	wg.Add(1)
	go guard(func() { defer wg.Done(); s.doCall(gL, late) })
	parked := waitFor(s.fake.MetadataHeld)

	s.hist.Record("X")
	closed := make(chan struct{})
	go guard(func() {
		defer close(closed)
		s.w.Close()
		s.hist.Record("Y")
	})
	// Close has marked the writer closed when an empty call is refused
	marked := waitFor(func() bool { return s.w.WriteMessages(context.Background()) == io.ErrClosedPipe })
	s.fake.ReleaseMetadata()
	if !parked || !marked {
		p.feat["choreography-failed"] = true
	}
	wg.Wait() // every call is under its own watchdog
	select {
	case <-s.abort:
		return s.finish()
	default:
	}
	if !s.watch(closed) {
		s.fail("HANG:close")
	}
	return s.finish()
}

// ---------------------------------------------------------------------------
// op trk: BatchTimeout counts from the opening of a batch (trickling producer)

// runTRKOnce: an async writer receives one message every T/3, 14 in all; each
// produce request is reported as the accept times (ms since start) of its
// messages. maxSpan is the largest last-first of a request.
func runTRKOnce(T time.Duration) (reqs []string, maxSpan int64, res string) {
	const n = 14
	fake := fakert.New(fakert.NewHistory(), []int{1})
	w := &kafka.Writer{
		Addr:         kafka.TCP("fake:9092"),
		Topic:        "t0",
		Transport:    fake,
		BatchSize:    100,
		BatchTimeout: T,
		MaxAttempts:  1,
		RequiredAcks: kafka.RequireAll,
		Async:        true,
		Balancer:     kafka.BalancerFunc(func(kafka.Message, ...int) int { return 0 }),
		Completion:   func([]kafka.Message, error) {},
	}
	var mu sync.Mutex
	accept := make([]int64, n+1)
	res = "ok"
	done := make(chan string, 1)
	go func() {
		defer func() {
			if r := recover(); r != nil {
				done <- "PANIC:" + sanitize(fmt.Sprint(r))
			}
		}()
		start := time.Now()
		for i := 1; i <= n; i++ {
			if d := time.Until(start.Add(time.Duration(i-1) * T / 3)); d > 0 {
				time.Sleep(d)
			}
			if err := w.WriteMessages(context.Background(), idMsg(uint64(i))); err != nil {
				done <- "other." + sanitize(err.Error())
				return
			}
			mu.Lock()
			accept[i] = time.Since(start).Milliseconds()
			mu.Unlock()
		}
		time.Sleep(3 * T)
		w.Close()
		done <- "ok"
	}()
	select {
	case res = <-done:
	case <-time.After(watchdog + 20*T):
		res = "HANG:close"
	}
	mu.Lock()
	defer mu.Unlock()
	for _, a := range fake.Journal() {
		var l []string
		first, last := int64(-1), int64(0)
		for _, id := range a.IDs {
			t := int64(-1)
			if id >= 1 && id <= n {
				t = accept[id]
			}
			l = append(l, kvfmt.I(t))
			if first < 0 {
				first = t
			}
			last = t
		}
		if last-first > maxSpan {
			maxSpan = last - first
		}
		reqs = append(reqs, strings.Join(l, ","))
	}
	return reqs, maxSpan, res
}

func runTRK(T time.Duration) line {
	ms := T.Milliseconds()
	feat := map[string]bool{"trickle": true, "async": true, fmt.Sprintf("T=%x", ms): true}
	reqs, span, res := runTRKOnce(T)
	if res == "ok" && span > 2*ms { // timing class: one second chance
		feat["rerun"] = true
		reqs, span, res = runTRKOnce(T)
	}
	feat[fmt.Sprintf("requests=%x", len(reqs))] = true
	feat[fmt.Sprintf("max-span=%x", span)] = true
	rl := "."
	if len(reqs) > 0 {
		rl = strings.Join(reqs, "/")
	}
	return line{"trk", fmt.Sprintf("%x %x %x %s", 100, ms, ms, rl), res, kvfmt.Set(feat)}
}

// ---------------------------------------------------------------------------
// step level: NewWriter's mapping of WriterConfig onto the Writer (op nwc)

func genNWC(r *rand.Rand, allZero bool) line {
	num := func(max int64) int64 {
		if allZero || r.Intn(3) == 0 {
			return 0
		}
		return 1 + r.Int63n(max)
	}
	bbytes := num(1 << 20)
	if bbytes > 0 && r.Intn(3) == 0 {
		bbytes = 1<<20 + r.Int63n(1<<22) // above 1 MiB too
	}
	maxAtt, bsize := num(1000), num(100000)
	bt, rt, wt := num(1000000), num(1000000), num(1000000)
	acks := []int{0, 1, -1}[r.Intn(3)]
	async, balNil, codec, topicSet, logger, elogger, nb := r.Intn(2) == 0, r.Intn(2) == 0, r.Intn(5), r.Intn(2) == 0, r.Intn(2) == 0, r.Intn(2) == 0, 1+r.Intn(3)
	if allZero {
		acks, async, balNil, codec, topicSet, logger, elogger, nb = 0, false, true, 0, false, false, false, 1
	}
	ms := func(x int64) time.Duration { return time.Duration(x) * time.Millisecond }
	cfg := kafka.WriterConfig{
		MaxAttempts:  int(maxAtt),
		BatchSize:    int(bsize),
		BatchBytes:   int(bbytes),
		BatchTimeout: ms(bt),
		ReadTimeout:  ms(rt),
		WriteTimeout: ms(wt),
		RequiredAcks: acks,
		Async:        async,
	}
	for i := 0; i < nb; i++ {
		cfg.Brokers = append(cfg.Brokers, fmt.Sprintf("b%d:9092", i))
	}
	if !balNil {
		if r.Intn(2) == 0 {
			cfg.Balancer = &kafka.Hash{}
		} else {
			cfg.Balancer = keyBalancer
		}
	}
	if codec != 0 {
		cfg.CompressionCodec = compress.Codecs[codec]
	}
	if topicSet {
		cfg.Topic = "t0"
	}
	if logger {
		cfg.Logger = kafka.LoggerFunc(func(string, ...interface{}) {})
	}
	if elogger {
		cfg.ErrorLogger = kafka.LoggerFunc(func(string, ...interface{}) {})
	}
	w := kafka.NewWriter(cfg)
	ebs, ebb, ema, ebt, emin, emax, ert, ewt := kafka.VerifWriterEffective(w)
	bal := "given"
	if _, ok := w.Balancer.(*kafka.RoundRobin); ok {
		bal = "rr"
	}
	naddr := 0
	if w.Addr != nil {
		naddr = len(strings.Split(w.Addr.String(), ","))
	}
	toMs := func(d time.Duration) string { return kvfmt.I(int64(d / time.Millisecond)) }
	res := strings.Join([]string{
		hx(ebs), kvfmt.I(ebb), hx(ema), toMs(ebt), toMs(emin), toMs(emax), toMs(ert), toMs(ewt),
		kvfmt.I(int64(w.RequiredAcks)), kvfmt.Bool(w.Async), bal, kvfmt.I(int64(w.Compression)),
		kvfmt.Bool(w.Topic == "t0"), kvfmt.Bool(w.Logger != nil), kvfmt.Bool(w.ErrorLogger != nil), hx(naddr),
	}, ":")
	args := strings.Join([]string{
		kvfmt.I(maxAtt), kvfmt.I(bsize), kvfmt.I(bbytes), kvfmt.I(bt), kvfmt.I(rt), kvfmt.I(wt),
		kvfmt.I(int64(acks)), kvfmt.Bool(async), kvfmt.Bool(balNil), hx(codec), kvfmt.Bool(topicSet),
		kvfmt.Bool(logger), kvfmt.Bool(elogger), hx(nb),
	}, " ")
	zeros := 0
	for _, v := range []int64{maxAtt, bsize, bbytes, bt, rt, wt} {
		if v == 0 {
			zeros++
		}
	}
	feat := map[string]bool{fmt.Sprintf("zero-fields=%d", zeros): true}
	if bbytes > 0 && bbytes < 1<<20 {
		feat["batchbytes<1mib"] = true
	}
	return line{"nwc", args, res, kvfmt.Set(feat)}
}

// ---------------------------------------------------------------------------
// step level: NewWriter's mapping of the Dialer onto its Transport (op nwt)

// genNWT builds a writer with NewWriter and reads the Transport it made back:
// sasl:tls:clientID:idleTimeoutMs:metadataTTLms:dial. The writer is never used.
func genNWT(sasl, tlsOn, clientID, dialerNil bool, idleMs, rebalMs int64) line {
	if dialerNil {
		sasl, tlsOn, clientID = false, false, false
	}
	ms := func(x int64) time.Duration { return time.Duration(x) * time.Millisecond }
	cfg := kafka.WriterConfig{Brokers: []string{"b0:9092"}, Topic: "t0", IdleConnTimeout: ms(idleMs), RebalanceInterval: ms(rebalMs)}
	if !dialerNil {
		d := &kafka.Dialer{}
		if clientID {
			d.ClientID = "cid"
		}
		if sasl {
			d.SASLMechanism = plain.Mechanism{Username: "u", Password: "p"}
		}
		if tlsOn {
			d.TLS = &tls.Config{}
		}
		cfg.Dialer = d
	}
	args := fmt.Sprintf("%s %s %s %s %s %s", kvfmt.Bool(sasl), kvfmt.Bool(tlsOn), kvfmt.Bool(clientID), kvfmt.Bool(dialerNil), kvfmt.I(idleMs), kvfmt.I(rebalMs))
	feat := map[string]bool{"dialer-given": true}
	if dialerNil {
		delete(feat, "dialer-given")
	}
	for tag, on := range map[string]bool{"sasl": sasl, "tls": tlsOn, "sasl-no-tls": sasl && !tlsOn, "dialer-nil": dialerNil,
		"idle-default": idleMs == 0, "ttl-default": rebalMs == 0} {
		if on {
			feat[tag] = true
		}
	}
	res := "x"
	func() {
		defer func() {
			if r := recover(); r != nil {
				res = "PANIC:" + sanitize(fmt.Sprint(r))
			}
		}()
		w := kafka.NewWriter(cfg)
		tr, ok := w.Transport.(*kafka.Transport)
		if !ok {
			res = "x.transport-" + sanitize(fmt.Sprintf("%T", w.Transport))
			return
		}
		cid := tr.ClientID
		if cid == "" {
			cid = "."
		}
		res = fmt.Sprintf("%s:%s:%s:%s:%s:%s", kvfmt.Bool(tr.SASL != nil), kvfmt.Bool(tr.TLS != nil), sanitize(cid),
			kvfmt.I(int64(tr.IdleTimeout/time.Millisecond)), kvfmt.I(int64(tr.MetadataTTL/time.Millisecond)), kvfmt.Bool(tr.Dial != nil))
	}()
	return line{"nwt", args, res, kvfmt.Set(feat)}
}

func nwtLines(seed int64, n int) []line {
	r := rand.New(rand.NewSource(seed))
	var lines []line
	for _, c := range [][2]bool{{false, false}, {false, true}, {true, false}, {true, true}} {
		lines = append(lines, genNWT(c[0], c[1], true, false, 0, 0))
	}
	dur := func() int64 {
		if r.Intn(3) == 0 {
			return 0
		}
		return 1 + r.Int63n(1000000)
	}
	for i := 0; i < n; i++ {
		lines = append(lines, genNWT(r.Intn(2) == 0, r.Intn(2) == 0, r.Intn(2) == 0, r.Intn(5) == 0, dur(), dur()))
	}
	return lines
}

// ---------------------------------------------------------------------------
// step level: the retry classification of the code under test (op rtb)

// genRTB prints, one line per error class, whether the writer's retry test
// holds for the error exactly as writeBatch sees it. The verdict on these
// lines is the model's (its own table); nothing else in the harness uses them.
func genRTB() []line {
	var lines []line
	add := func(enc int, tag string) {
		lines = append(lines, line{"rtb", hx(enc), kvfmt.Bool(retriable(enc)), tag})
	}
	add(fakert.Enc(-1), "kafka-code")
	for c := 1; c <= 120; c++ {
		add(c, "kafka-code")
	}
	for _, c := range []int{127, 128, 255, 256, 32767, -2, -32768} {
		add(fakert.Enc(c), "kafka-code")
	}
	for c := fakert.CodeUnexpectedEOF; c <= fakert.CodeEOF; c++ {
		add(c, "transport")
	}
	return lines
}

// ---------------------------------------------------------------------------
// step level: defaulting of the Writer options (op cfgd)

// genCfgd: raw field values -> the effective values of VerifWriterEffective
// (durations in ms).
func genCfgd(r *rand.Rand, allZero bool) line {
	pick := func(max int64) int64 {
		if allZero {
			return 0
		}
		switch r.Intn(8) {
		case 0, 1:
			return 0
		case 2:
			return -1
		case 3:
			return -1 - r.Int63n(max)
		case 4:
			return 1
		default:
			return 1 + r.Int63n(max)
		}
	}
	v := []int64{pick(100000), pick(1 << 40), pick(1000), pick(1000000), pick(1000000), pick(1000000), pick(1000000), pick(1000000)}
	ms := func(x int64) time.Duration { return time.Duration(x) * time.Millisecond }
	w := &kafka.Writer{
		BatchSize:       int(v[0]),
		BatchBytes:      v[1],
		MaxAttempts:     int(v[2]),
		BatchTimeout:    ms(v[3]),
		WriteBackoffMin: ms(v[4]),
		WriteBackoffMax: ms(v[5]),
		ReadTimeout:     ms(v[6]),
		WriteTimeout:    ms(v[7]),
	}
	bs, bb, ma, bt, bmin, bmax, rt, wt := kafka.VerifWriterEffective(w)
	eff := []int64{int64(bs), bb, int64(ma), int64(bt / time.Millisecond), int64(bmin / time.Millisecond),
		int64(bmax / time.Millisecond), int64(rt / time.Millisecond), int64(wt / time.Millisecond)}
	args, res := make([]string, 8), make([]string, 8)
	zeros, neg := 0, false
	for i := range v {
		args[i], res[i] = kvfmt.I(v[i]), kvfmt.I(eff[i])
		if v[i] == 0 {
			zeros++
		}
		if v[i] < 0 {
			neg = true
		}
	}
	feat := map[string]bool{fmt.Sprintf("zero-fields=%d", zeros): true}
	if neg {
		feat["negative"] = true
	}
	return line{"cfgd", strings.Join(args, " "), strings.Join(res, ":"), kvfmt.Set(feat)}
}

// ---------------------------------------------------------------------------
// which option feeds which deadline (ops pdl, pto)

// dlRec answers through a fake cluster and records, at entry of RoundTrip, the
// time left on the context of the first metadata and the first produce request.
type dlRec struct {
	inner *fakert.Fake
	mu    sync.Mutex
	seen  map[string]bool
	left  map[string]string // "meta" / "produce" -> remaining time, "-" = no deadline
}

func (d *dlRec) RoundTrip(ctx context.Context, addr net.Addr, req kafka.Request) (kafka.Response, error) {
	kind := "meta"
	if _, ok := req.(*produce.Request); ok {
		kind = "produce"
	}
	left := "-"
	if dl, ok := ctx.Deadline(); ok {
		ms := time.Until(dl).Milliseconds()
		left = kvfmt.I((ms + 250) / 500 * 500) // nearest multiple of 500 ms
	}
	d.mu.Lock()
	if !d.seen[kind] {
		d.seen[kind] = true
		d.left[kind] = left
	}
	d.mu.Unlock()
	return d.inner.RoundTrip(ctx, addr, req)
}

func idMsg(id uint64) kafka.Message {
	v := make([]byte, 8)
	binary.BigEndian.PutUint64(v, id)
	return kafka.Message{Value: v}
}

// genPDL: ReadTimeout / WriteTimeout (raw, ms) -> the time limit the produce
// and the metadata round trips of one synchronous write run under. No sleeping.
func genPDL(rt, wt int64) line {
	ms := func(x int64) time.Duration { return time.Duration(x) * time.Millisecond }
	rec := &dlRec{inner: fakert.New(fakert.NewHistory(), []int{1}), seen: map[string]bool{}, left: map[string]string{"meta": "?", "produce": "?"}}
	w := &kafka.Writer{
		Addr:         kafka.TCP("fake:9092"),
		Topic:        "t0",
		Transport:    rec,
		ReadTimeout:  ms(rt),
		WriteTimeout: ms(wt),
		BatchSize:    1,
		BatchTimeout: 10 * time.Millisecond,
		MaxAttempts:  1,
		RequiredAcks: kafka.RequireAll,
		Balancer:     kafka.BalancerFunc(func(kafka.Message, ...int) int { return 0 }),
	}
	err := w.WriteMessages(context.Background(), idMsg(1))
	w.Close()
	feat := map[string]bool{}
	_, _, _, _, _, _, ert, ewt := kafka.VerifWriterEffective(w)
	switch {
	case ert < ewt:
		feat["rt<wt"] = true
	case ert > ewt:
		feat["rt>wt"] = true
	default:
		feat["rt=wt"] = true
	}
	if rt <= 0 {
		feat["default-read"] = true
	}
	if wt <= 0 {
		feat["default-write"] = true
	}
	rec.mu.Lock()
	res := rec.left["produce"] + ":" + rec.left["meta"]
	rec.mu.Unlock()
	if err != nil {
		res = "x." + sanitize(err.Error())
	}
	return line{"pdl", kvfmt.I(rt) + " " + kvfmt.I(wt), res, kvfmt.Set(feat)}
}

func genPDLs(r *rand.Rand) []line {
	pairs := [][2]int64{{0, 0}, {500, 30000}, {30000, 500}, {0, 1500}, {1500, 0}}
	pick := func() int64 {
		switch r.Intn(6) {
		case 0:
			return 0
		case 1:
			return -1
		}
		return int64(500 * (1 + r.Intn(60)))
	}
	for i := 0; i < 60; i++ {
		pairs = append(pairs, [2]int64{pick(), pick()})
	}
	lines := make([]line, len(pairs))
	for i, pr := range pairs {
		lines[i] = genPDL(pr[0], pr[1])
	}
	return lines
}

// runPTO: one message through the real Writer on a fake whose first answer is
// held back ackDelay ms (the request is applied at once; the fake stops
// waiting when the request's context ends). Result attempts:copies:res.
func runPTO(rt, wt, ackDelay int64, async bool) line {
	ms := func(x int64) time.Duration { return time.Duration(x) * time.Millisecond }
	fake := fakert.New(fakert.NewHistory(), []int{1})
	tp := fakert.TP{Topic: "t0", Partition: 0}
	fake.SetScript(tp, []fakert.Reaction{{Kind: fakert.AppliedAcked, Delay: ms(ackDelay)}, {Kind: fakert.AppliedAcked}})
	completed := make(chan string, 4)
	w := &kafka.Writer{
		Addr:            kafka.TCP("fake:9092"),
		Topic:           "t0",
		Transport:       fake,
		ReadTimeout:     ms(rt),
		WriteTimeout:    ms(wt),
		BatchSize:       1,
		BatchTimeout:    10 * time.Millisecond,
		MaxAttempts:     3,
		WriteBackoffMin: 5 * time.Millisecond,
		WriteBackoffMax: 5 * time.Millisecond,
		RequiredAcks:    kafka.RequireAll,
		Async:           async,
		Balancer:        kafka.BalancerFunc(func(kafka.Message, ...int) int { return 0 }),
		Completion: func(msgs []kafka.Message, err error) {
			res := "nil"
			if err != nil {
				res = "we." + hx(fakert.Classify(err))
			}
			select {
			case completed <- res:
			default:
			}
		},
	}
	msgs := []kafka.Message{idMsg(1)}
	res := "hang"
	done := make(chan string, 1)
	go func() {
		defer func() {
			if r := recover(); r != nil {
				done <- "other.panic:" + sanitize(fmt.Sprint(r))
			}
		}()
		r := classifyResult(w.WriteMessages(context.Background(), msgs...), msgs)
		if async && r == "nil" {
			select {
			case r = <-completed:
			case <-time.After(watchdog):
				r = "hang"
			}
		}
		w.Close()
		done <- r
	}()
	select {
	case res = <-done:
	case <-time.After(watchdog):
	}
	attempts := 0
	for _, a := range fake.Journal() {
		if a.Topic == tp.Topic && a.Partition == tp.Partition {
			attempts++
		}
	}
	copies := 0
	if _, logs := fake.Logs(); len(logs) == 1 {
		for _, id := range logs[0] {
			if id == 1 {
				copies++
			}
		}
	}
	feat := map[string]bool{}
	if async {
		feat["async"] = true
	} else {
		feat["sync"] = true
	}
	_, _, _, _, _, _, _, ewt := kafka.VerifWriterEffective(w)
	if ms(ackDelay) < ewt {
		feat["ack-within-write-timeout"] = true
	} else {
		feat["ack-after-write-timeout"] = true
	}
	return line{"pto", fmt.Sprintf("%s %s %s %s", kvfmt.I(rt), kvfmt.I(wt), kvfmt.I(ackDelay), kvfmt.Bool(async)),
		fmt.Sprintf("%s:%s:%s", hx(attempts), hx(copies), res), kvfmt.Set(feat)}
}

// runPTOs runs the fixed timed cases concurrently.
func runPTOs() []line {
	type c struct {
		rt, wt, delay int64
		async         bool
	}
	var cases []c
	for _, async := range []bool{false, true} {
		for _, t := range [][3]int64{{150, 2000, 300}, {2000, 150, 300}, {0, 150, 300}, {150, 0, 300}} {
			cases = append(cases, c{t[0], t[1], t[2], async})
		}
	}
	lines := make([]line, len(cases))
	var wg sync.WaitGroup
	for i, cs := range cases {
		wg.Add(1)
		go func(i int, cs c) {
			defer wg.Done()
			lines[i] = runPTO(cs.rt, cs.wt, cs.delay, cs.async)
		}(i, cs)
	}
	wg.Wait()
	return lines
}

// ---------------------------------------------------------------------------
// step level: (*kafka.Client).Produce response mapping (ops prr, pr)

// prRT is a scripted RoundTripper answering every request with one produce
// response.
type prRT struct {
	throttle int32
	part     produce.ResponsePartition
}

func (rt *prRT) RoundTrip(ctx context.Context, addr net.Addr, req kafka.Request) (kafka.Response, error) {
	return &produce.Response{
		ThrottleTimeMs: rt.throttle,
		Topics:         []produce.ResponseTopic{{Topic: "t0", Partitions: []produce.ResponsePartition{rt.part}}},
	}, nil
}

func produceVia(rt *prRT) (*kafka.ProduceResponse, error) {
	c := &kafka.Client{Addr: kafka.TCP("fake:9092"), Transport: rt}
	return c.Produce(context.Background(), &kafka.ProduceRequest{
		Topic:        "t0",
		Partition:    0,
		RequiredAcks: kafka.RequireAll,
		Records:      kafka.NewRecordReader(kafka.Record{Value: kafka.NewBytes([]byte("x"))}),
	})
}

// prErr renders the error part of a Produce outcome: "-" for success, the
// signed Kafka code of res.Error, "x" for anything else.
func prErr(res *kafka.ProduceResponse, err error) string {
	if err != nil || res == nil {
		return "x"
	}
	if res.Error == nil {
		return "-"
	}
	var ke kafka.Error
	if errors.As(res.Error, &ke) {
		return kvfmt.I(int64(ke))
	}
	return "x"
}

// genPRR covers all 65536 partition error codes in chunks of 256.
func genPRR() []line {
	var lines []line
	for lo := 0; lo < 65536; lo += 256 {
		hi := lo + 255
		items := make([]string, 0, 256)
		for u := lo; u <= hi; u++ {
			rt := &prRT{part: produce.ResponsePartition{Partition: 0, ErrorCode: int16(uint16(u))}}
			items = append(items, prErr(produceVia(rt)))
		}
		lines = append(lines, line{"prr", fmt.Sprintf("%x %x", lo, hi), strings.Join(items, ","), "all-codes"})
	}
	return lines
}

func pickI64(r *rand.Rand) int64 {
	switch r.Intn(12) {
	case 0:
		return 0
	case 1:
		return -1
	case 2:
		return 1
	case 3:
		return 1 << 32
	case 4:
		return 1<<32 + int64(r.Intn(100000))
	case 5:
		return -(1 << 32) - int64(r.Intn(100000))
	case 6:
		return 1<<63 - 1
	case 7:
		return -1 << 63
	case 8:
		return r.Int63()
	case 9:
		return -r.Int63()
	default:
		return int64(r.Intn(100000))
	}
}

func genPR(r *rand.Rand) line {
	feat := map[string]bool{}
	var code int16
	switch r.Intn(6) {
	case 0:
		code = 0
	case 1:
		code = int16(fakert.Dec(boundaryCodes[r.Intn(len(boundaryCodes))]))
	case 2:
		code = -int16(1 + r.Intn(200))
	case 3:
		code = int16(1 + r.Intn(120))
	default:
		code = int16(uint16(r.Intn(65536)))
	}
	switch {
	case code < 0:
		feat["code-neg"] = true
	case code == 0:
		feat["code-zero"] = true
	default:
		feat["code-pos"] = true
	}
	var th int32
	switch r.Intn(7) {
	case 0:
		th = 0
	case 1:
		th = 1
	case 2:
		th = -1
	case 3:
		th = 1<<31 - 1
	case 4:
		th = -1 << 31
	default:
		th = int32(r.Intn(100000))
	}
	var lat int64
	switch r.Intn(12) {
	case 0:
		lat = 0
	case 1:
		lat = -1
	case 2:
		lat = 1
	case 3:
		lat = 999
	case 4:
		lat = 1000
	case 5:
		lat = 1001
	case 6:
		lat = 1000000000000
	case 7:
		lat = 1000000000000 + int64(r.Intn(100000000))
	case 8:
		lat = -int64(r.Intn(1000000)) - 2
	case 9:
		lat = 1<<32 + int64(r.Intn(5000))
	default:
		lat = int64(r.Intn(5000))
	}
	if lat <= 0 {
		feat["lat-nonpos"] = true
	}
	bo, lso := pickI64(r), pickI64(r)
	part := produce.ResponsePartition{Partition: 0, ErrorCode: code, BaseOffset: bo, LogAppendTime: lat, LogStartOffset: lso}
	hasmsg := r.Intn(3) == 0
	if hasmsg {
		part.ErrorMessage = "boom"
		feat["msg"] = true
	}
	recs := "."
	if r.Intn(3) == 0 {
		feat["recerrs"] = true
		seen := map[int32]bool{}
		var l []string
		for i, n := 0, 1+r.Intn(4); i < n; i++ {
			var idx int32
			switch r.Intn(6) {
			case 0:
				idx = -1 - int32(r.Intn(3))
			case 1:
				idx = 1<<31 - 1 - int32(r.Intn(3))
			default:
				idx = int32(r.Intn(10))
			}
			if seen[idx] { // distinct indexes only: the result is a map
				continue
			}
			seen[idx] = true
			part.RecordErrors = append(part.RecordErrors, produce.ResponseError{BatchIndex: idx, BatchIndexErrorMessage: "r"})
			l = append(l, kvfmt.I(int64(idx)))
		}
		recs = strings.Join(l, ",")
	}
	args := fmt.Sprintf("%s %s %s %s %s %s %s", kvfmt.I(int64(code)), kvfmt.I(int64(th)), kvfmt.I(bo), kvfmt.I(lat), kvfmt.I(lso), kvfmt.Bool(hasmsg), recs)
	res, err := produceVia(&prRT{throttle: th, part: part})
	e := prErr(res, err)
	if err != nil || res == nil {
		return line{"pr", args, "x", kvfmt.Set(feat)}
	}
	ls := "-"
	if !res.LogAppendTime.IsZero() {
		ls = kvfmt.I(res.LogAppendTime.UnixMilli())
	}
	keys := make([]int, 0, len(res.RecordErrors))
	for k := range res.RecordErrors {
		keys = append(keys, k)
	}
	sort.Ints(keys)
	ks := "."
	if len(keys) > 0 {
		l := make([]string, len(keys))
		for i, k := range keys {
			l[i] = kvfmt.I(int64(k))
		}
		ks = strings.Join(l, ",")
	}
	out := fmt.Sprintf("%s:%s:%s:%s:%s:%s", e, kvfmt.I(int64(res.Throttle/time.Millisecond)), kvfmt.I(res.BaseOffset), ls, kvfmt.I(res.LogStartOffset), ks)
	return line{"pr", args, out, kvfmt.Set(feat)}
}

// ---------------------------------------------------------------------------
// f3: Close racing a WriteMessages that is already past enter() (regression
// scenario of the fixed Close hang). Go result <close>:<a>, close = returned |
// hang (2 s watchdog), a = result of the racing call (nil | closed | other.<text>
// | hang); tag produced = the record reached the fake.

func runF3() line {
	hist := fakert.NewHistory()
	fake := fakert.New(hist, []int{1})
	entered := make(chan struct{})
	releaseB := make(chan struct{})
	var once sync.Once
	w := &kafka.Writer{
		Addr:            kafka.TCP("fake:9092"),
		Transport:       fake,
		Topic:           "t0",
		MaxAttempts:     1,
		WriteBackoffMin: time.Millisecond,
		WriteBackoffMax: time.Millisecond,
		BatchSize:       1,
		BatchBytes:      1000,
		BatchTimeout:    10 * time.Millisecond,
		RequiredAcks:    kafka.RequireAll,
		Balancer: kafka.BalancerFunc(func(m kafka.Message, parts ...int) int {
			once.Do(func() {
				close(entered)
				<-releaseB
			})
			return 0
		}),
	}
	feat := map[string]bool{"f3": true}
	v := make([]byte, 16)
	binary.BigEndian.PutUint64(v, 1)
	amsgs := []kafka.Message{{Value: v}}
	aDone := make(chan string, 1)
	go func() {
		defer func() {
			if r := recover(); r != nil {
				aDone <- "other.panic:" + sanitize(fmt.Sprint(r))
			}
		}()
		aDone <- classifyResult(w.WriteMessages(context.Background(), amsgs...), amsgs)
	}()
	select {
	case <-entered:
	case <-time.After(2 * time.Second):
		return line{"f3", "cfg=1,3e8,1,0,0,.,0", "other.balancer-not-entered", kvfmt.Set(feat)}
	}
	closed := make(chan struct{})
	go func() {
		defer close(closed)
		defer func() { recover() }()
		w.Close()
	}()
	// wait until Close has marked the writer closed: an empty WriteMessages
	// call returns io.ErrClosedPipe from then on (and nil, without side
	// effects, before).
	marked := false
	for i := 0; i < 2000 && !marked; i++ {
		if w.WriteMessages(context.Background()) == io.ErrClosedPipe {
			marked = true
		} else {
			time.Sleep(100 * time.Microsecond)
		}
	}
	if !marked {
		feat["close-not-marked"] = true
	}
	time.Sleep(5 * time.Millisecond) // let Close reach group.Wait
	close(releaseB)
	ares := "hang"
	select {
	case ares = <-aDone:
	case <-time.After(2 * time.Second):
	}
	res := "returned"
	select {
	case <-closed:
	case <-time.After(2 * time.Second):
		res = "hang"
	}
	res += ":" + ares
	if _, logs := fake.Logs(); len(logs) == 1 && len(logs[0]) == 1 {
		feat["produced"] = true
	}
	return line{"f3", "cfg=1,3e8,1,0,0,.,0", res, kvfmt.Set(feat)}
}

// ---------------------------------------------------------------------------

func main() {
	seed := flag.Int64("seed", 1, "PRNG seed")
	count := flag.Int("n", 300, "number of e2e scenarios")
	jobs := flag.Int("j", 16, "scenarios run concurrently")
	wcut := flag.Int("wcut", 0, "print only this many `wcut` scenarios (produce response cut at byte k, wire level) and exit")
	nwt := flag.Int("nwt", 0, "print only the 4 fixed + this many random `nwt` cases (NewWriter's Dialer -> Transport mapping) and exit")
	flag.Parse()
	r := rand.New(rand.NewSource(*seed))
	out := bufio.NewWriterSize(os.Stdout, 1<<20)
	defer out.Flush()
	if *nwt > 0 {
		for i, l := range nwtLines(*seed, *nwt) {
			fmt.Fprintf(out, "%d %s %s | %s | %s\n", i+1, l.op, l.args, l.res, l.feats)
		}
		return
	}
	if *wcut > 0 {
		for i, l := range wcutLines(*seed, *wcut) {
			fmt.Fprintf(out, "%d %s %s | %s | %s\n", i+1, l.op, l.args, l.res, l.feats)
		}
		return
	}

	var lines []line
	for i := 0; i < 3**count; i++ {
		lines = append(lines, genAdd(r))
	}
	for i := 0; i < 50; i++ {
		lines = append(lines, genSize(r))
	}
	for i := 0; i < *count; i++ {
		lines = append(lines, genWM(r))
	}

	lines = append(lines, genPRR()...)
	for i := 0; i < 300; i++ {
		lines = append(lines, genPR(r))
	}

	lines = append(lines, genCfgd(r, true))
	for i := 0; i < 150; i++ {
		lines = append(lines, genCfgd(r, false))
	}
	lines = append(lines, genPDLs(r)...)
	lines = append(lines, runPTOs()...)
	lines = append(lines, genNWC(r, true))
	for i := 0; i < 150; i++ {
		lines = append(lines, genNWC(r, false))
	}
	lines = append(lines, genRTB()...)

	// e2e: all plans come from the one PRNG first, then run concurrently; the
	// fixed boundary-code scenarios follow the generated ones.
	plans := make([]*plan, *count)
	for i := range plans {
		plans[i] = genPlan(r)
		plans[i].planFeatures()
	}
	plans = append(plans, boundaryPlans()...)
	plans = append(plans, timeOrderPlans()...)
	plans = append(plans, defaultBatchBytesPlans()...)
	plans = append(plans, newWriterBatchBytesPlans()...)
	plans = append(plans, lateLandingPlans()...)
	plans = append(plans, closeRaceUsedPlans()...)

	// trk: timed, runs alongside the e2e scenarios; its lines follow rtb
	trkAt := len(lines)
	trkLines := make([]line, 3)
	var trkWG sync.WaitGroup
	for i, T := range []time.Duration{300 * time.Millisecond, 200 * time.Millisecond, 400 * time.Millisecond} {
		trkWG.Add(1)
		go func(i int, T time.Duration) {
			defer trkWG.Done()
			trkLines[i] = runTRK(T)
		}(i, T)
	}
	results := make([]line, len(plans))
	sem := make(chan struct{}, *jobs)
	var wg sync.WaitGroup
	for i := range plans {
		sem <- struct{}{}
		wg.Add(1)
		go func(i int) {
			defer wg.Done()
			defer func() {
				if r := recover(); r != nil {
					results[i] = line{"e2e", plans[i].cfg(), "PANIC:" + sanitize(fmt.Sprint(r)), "harness-panic"}
				}
			}()
			if plans[i].custom != nil {
				results[i] = plans[i].custom(plans[i], func() { <-sem })
				return
			}
			results[i] = runScenario(plans[i], func() { <-sem })
		}(i)
	}
	wg.Wait()
	trkWG.Wait()
	lines = append(lines[:trkAt:trkAt], append(trkLines, lines[trkAt:]...)...)
	lines = append(lines, results...)
	lines = append(lines, wireLines(*seed)...)
	lines = append(lines, runF3())

	for i, l := range lines {
		fmt.Fprintf(out, "%d %s %s | %s | %s\n", i+1, l.op, l.args, l.res, l.feats)
	}
}
