package main

// wcut family: the real kafka.Writer on the real kafka.Transport over the wire-level fake broker
// of wire.go (synchronous pipes), where the only fault is "the produce response is delivered up to
// byte k, then the connection is lost (the broker closes it)". Per partition a cut script is
// consumed one entry per produce request of that partition; an entry says whether the broker
// appends the records before it answers and where the answer is cut.
//
// One line per scenario: op `wcut`, args = cfg + the globally sequenced history in the e2e event
// vocabulary (C / R / K / A / X / Y / L); the A events come from the broker and are recorded when
// the request has been fully received.

import (
	"bytes"
	"context"
	"encoding/binary"
	"fmt"
	"math/rand"
	"net"
	"os"
	"sort"
	"strings"
	"sync"
	"time"

	kafka "github.com/segmentio/kafka-go"
	"github.com/segmentio/kafka-go/protocol"
	"github.com/segmentio/kafka-go/protocol/produce"
	"kverif/fakert"
	"kverif/kvfmt"
)

const (
	regNothing   = iota // nothing is sent
	regSize             // 1..3: inside the size prefix
	regCorrID           // 4..7: inside the correlation id
	regTopics           // inside the topic array (count, topic name, partition count)
	regPartition        // inside the partition entry
	regLastByte         // only the last byte is missing
	nRegions
)

var regionNames = [nRegions]string{"nothing", "size", "corrid", "topics", "partition", "lastbyte"}

// cutEntry is one entry of a partition's cut script.
type cutEntry struct {
	applied bool // the broker appends the records before it answers
	region  int
	pick    int // selects the byte inside the region
}

type wcutMsg struct {
	id   uint64
	part int
	size int
	msg  kafka.Message
}

type wcutPlan struct {
	nparts      int
	batchSize   int
	maxAttempts int
	async       bool
	backoff     time.Duration
	callers     [][][]wcutMsg // caller -> call -> messages
	scripts     [][]cutEntry  // per partition
}

// det tells whether the scenario is deterministic in the model's sense: one caller, synchronous,
// and every batch is closed by its size (each call sends to each partition a multiple of
// BatchSize messages).
func (p *wcutPlan) det() bool {
	if p.async || len(p.callers) != 1 {
		return false
	}
	for _, call := range p.callers[0] {
		n := make([]int, p.nparts)
		for _, m := range call {
			n[m.part]++
		}
		for _, c := range n {
			if c%p.batchSize != 0 {
				return false
			}
		}
	}
	return true
}

// wcutReq is a produce request as the broker received it.
type wcutReq struct {
	part       int
	conn       int // number of the connection it arrived on
	ids        []uint64
	applied    bool
	cut        bool
	region     int
	k          int
	connsAtCut int  // connections opened so far when the answer was cut
	delivered  bool // the complete answer was written to the client
	seq        int  // position of its A event
	onCutConn  bool // it arrived on a connection on which an answer had been cut
}

// wcutState is the broker-side state of the family.
type wcutState struct {
	mu       sync.Mutex
	scripts  [][]cutEntry
	reqs     []*wcutReq
	cutConns map[int]bool
	logs     map[int][]uint64
}

// cutCode is the code of the error a client reports for a cut answer (unless the Writer's error
// log shows another one).
const cutCode = fakert.CodeUnexpectedEOF

func formatA(part int, applied bool, seen int, ids []uint64) string {
	return fakert.FormatAttempt("0", fakert.Attempt{Partition: part, IDs: ids, Applied: applied, Seen: seen})
}

// cutByte maps a script entry to the number of bytes of the answer frame that are delivered.
func cutByte(e cutEntry, ver int16, frameLen int) int {
	tEnd := 8 + 4 + 2 + len(wireTopic) + 4
	pe := 4 + 2 + 8
	if ver >= 2 {
		pe += 8
	}
	if ver >= 5 {
		pe += 8
	}
	lo, hi := 0, 0
	switch e.region {
	case regSize:
		lo, hi = 1, 3
	case regCorrID:
		lo, hi = 4, 7
	case regTopics:
		lo, hi = 8, tEnd-1
	case regPartition:
		lo, hi = tEnd, tEnd+pe-1
	case regLastByte:
		lo, hi = frameLen-1, frameLen-1
	}
	k := lo + e.pick%(hi-lo+1)
	if k > frameLen-1 {
		k = frameLen - 1
	}
	if k < 0 {
		k = 0
	}
	return k
}

// serve handles one produce request; it returns false when the connection is over.
func (st *wcutState) serve(b *wireBroker, conn int, c net.Conn, ver int16, corr int32, r *produce.Request) bool {
	partition, ids, ok := b.produceIDs(r)
	if !ok {
		return false
	}
	part := int(partition)
	req := &wcutReq{part: part, conn: conn, ids: ids, applied: true}
	var entry cutEntry
	st.mu.Lock()
	if s := st.scripts[part]; len(s) > 0 {
		entry, st.scripts[part] = s[0], s[1:]
		req.cut, req.applied, req.region = true, entry.applied, entry.region
	}
	st.mu.Unlock()
	seen := 0
	if req.cut {
		seen = cutCode
	}
	base := int64(0)
	req.seq = b.hist.Do(func(int) string {
		st.mu.Lock()
		base = int64(len(st.logs[part]))
		if req.applied {
			st.logs[part] = append(st.logs[part], ids...)
		} else if _, touched := st.logs[part]; !touched {
			st.logs[part] = nil
		}
		req.onCutConn = st.cutConns[conn]
		st.reqs = append(st.reqs, req)
		st.mu.Unlock()
		return formatA(part, req.applied, seen, ids)
	})
	if req.seq < 0 {
		return false // the scenario is over
	}
	var frame bytes.Buffer
	err := protocol.WriteResponse(&frame, ver, corr, &produce.Response{
		Topics: []produce.ResponseTopic{{
			Topic: wireTopic,
			Partitions: []produce.ResponsePartition{{
				Partition:  partition,
				ErrorCode:  0,
				BaseOffset: base,
			}},
		}},
	})
	if err != nil {
		b.anomaly("encode:" + err.Error())
		return false
	}
	if !req.cut {
		_, err := c.Write(frame.Bytes())
		st.mu.Lock()
		req.delivered = err == nil
		st.mu.Unlock()
		return err == nil
	}
	k := cutByte(entry, ver, frame.Len())
	b.mu.Lock()
	nconn := b.nconn
	b.mu.Unlock()
	st.mu.Lock()
	req.k, req.connsAtCut = k, nconn
	st.cutConns[conn] = true
	st.mu.Unlock()
	if k > 0 {
		c.Write(frame.Bytes()[:k])
	}
	return false // the caller closes the connection
}

// ---------------------------------------------------------------------------

// wcutLog collects what the Writer's error logger reports for failed attempts.
type wcutLog struct {
	mu   sync.Mutex
	errs map[int][]error // per partition, in order
}

func (l *wcutLog) Printf(format string, args ...interface{}) {
	if !strings.HasPrefix(format, "error writing messages to") || len(args) != 4 {
		return
	}
	part, ok1 := args[1].(int32)
	err, ok2 := args[3].(error)
	if !ok1 || !ok2 {
		return
	}
	l.mu.Lock()
	l.errs[int(part)] = append(l.errs[int(part)], err)
	l.mu.Unlock()
}

func runWcut(p *wcutPlan) (ln line) {
	det := p.det()
	feat := map[string]bool{
		"wcut":                                 true,
		fmt.Sprintf("partitions=%d", p.nparts): true,
		fmt.Sprintf("callers=%d", len(p.callers)): true,
	}
	if p.async {
		feat["async"] = true
	} else {
		feat["sync"] = true
	}
	if det {
		feat["det"] = true
	} else {
		feat["nondet"] = true
	}

	hist := fakert.NewHistory()
	st := &wcutState{cutConns: map[int]bool{}, logs: map[int][]uint64{}}
	for _, s := range p.scripts {
		st.scripts = append(st.scripts, append([]cutEntry(nil), s...))
	}
	b := newWireBroker(hist, &wireSpec{batchSize: p.batchSize})
	b.nparts = p.nparts
	b.cut = st
	elog := &wcutLog{errs: map[int][]error{}}

	var resMu sync.Mutex
	result := ""
	fail := func(r string) {
		resMu.Lock()
		if result == "" {
			result = r
		}
		resMu.Unlock()
	}
	failed := func() bool {
		resMu.Lock()
		defer resMu.Unlock()
		return result != ""
	}

	// what the writer reported, per message id
	var outMu sync.Mutex
	okIDs := map[uint64]bool{}
	failIDs := map[uint64]error{}
	report := func(id uint64, err error) {
		outMu.Lock()
		if err == nil {
			okIDs[id] = true
		} else if _, dup := failIDs[id]; !dup {
			failIDs[id] = err
		}
		outMu.Unlock()
	}
	exhausted := false

	finish := func() line {
		events := hist.Freeze()
		b.shutdown()
		wgDone := make(chan struct{})
		go func() { b.wg.Wait(); close(wgDone) }()
		wireWait(wgDone, wireWatchdog)

		st.mu.Lock()
		reqs := append([]*wcutReq(nil), st.reqs...)
		byPart := map[int][]*wcutReq{}
		for _, r := range reqs {
			byPart[r.part] = append(byPart[r.part], r)
		}
		// the code of a cut: what the Writer's error log shows for that attempt when the log and
		// the broker agree on the number of failed attempts of the partition
		elog.mu.Lock()
		regionErr := map[int]error{}
		for part, rs := range byPart {
			var cuts []*wcutReq
			for _, r := range rs {
				if r.cut || !r.delivered {
					cuts = append(cuts, r)
				}
			}
			errs := elog.errs[part]
			for i, r := range cuts {
				code := cutCode
				if len(errs) == len(cuts) {
					code = fakert.Classify(errs[i])
					if r.cut {
						regionErr[r.region] = errs[i]
					}
				}
				if !r.cut {
					feat["undelivered-answer"] = true
				}
				if r.seq >= 0 && r.seq < len(events) {
					events[r.seq] = formatA(r.part, r.applied, code, r.ids)
				}
			}
		}
		elog.mu.Unlock()
		if os.Getenv("WCUT_DEBUG") != "" {
			for reg, err := range regionErr {
				fmt.Fprintf(os.Stderr, "wcut: cut in %s: %q code %x\n", regionNames[reg], err.Error(), fakert.Classify(err))
			}
		}
		var parts []int
		for part := range st.logs {
			parts = append(parts, part)
		}
		sort.Ints(parts)
		for _, part := range parts {
			events = append(events, fmt.Sprintf("L0.%s:%s", hx(part), fakert.IDs(st.logs[part])))
		}
		ncuts := 0
		for _, r := range reqs {
			if r.cut {
				ncuts++
				feat["cut-region="+regionNames[r.region]] = true
				if r.applied {
					feat["applied-cut"] = true
				} else {
					feat["unapplied-cut"] = true
				}
			}
		}
		feat[fmt.Sprintf("cuts=%d", ncuts)] = true

		// Go-side checks
		anomaly := ""
		flag := func(a string) {
			if anomaly == "" {
				anomaly = a
			}
		}
		for _, rs := range byPart {
			for i, r := range rs {
				if r.onCutConn {
					flag("ANOMALY:same-connection-after-cut")
				}
				if i > 0 && rs[i-1].cut {
					// after a cut the next produce request of the partition comes on another
					// connection; with a single partition (one partition writer, so one broker
					// connection at a time) on one opened after the cut
					if r.conn == rs[i-1].conn || (p.nparts == 1 && r.conn < rs[i-1].connsAtCut) {
						flag("ANOMALY:same-connection-after-cut")
					}
				}
			}
		}
		for _, rs := range byPart {
			first := map[uint64]string{}
			for _, r := range rs {
				l := fakert.IDs(r.ids)
				for _, id := range r.ids {
					if f, seen := first[id]; seen && f != l {
						flag("ANOMALY:retried-request-differs")
					} else if !seen {
						first[id] = l
					}
				}
			}
		}
		reached := map[uint64]int{}
		acked := map[uint64]bool{}
		for _, r := range reqs {
			for _, id := range r.ids {
				reached[id]++
				if r.applied && !r.cut && r.delivered {
					acked[id] = true
				}
			}
		}
		st.mu.Unlock()
		outMu.Lock()
		var failedIDs, okList []uint64
		for id := range failIDs {
			failedIDs = append(failedIDs, id)
		}
		for id := range okIDs {
			okList = append(okList, id)
		}
		sort.Slice(failedIDs, func(i, j int) bool { return failedIDs[i] < failedIDs[j] })
		sort.Slice(okList, func(i, j int) bool { return okList[i] < okList[j] })
		for _, id := range failedIDs {
			if reached[id] >= p.maxAttempts {
				exhausted = true
			}
		}
		for _, id := range okList {
			if !acked[id] {
				flag("ANOMALY:success-without-ack")
			}
		}
		outMu.Unlock()
		if exhausted {
			feat["exhausted"] = true
		}

		// the retriable list is fixed by the specification (a cut answer is an unexpected EOF,
		// which is retriable), not asked of the code under test
		rs := "."
		if p.hasCuts() {
			rs = hx(cutCode)
		}
		cfg := fmt.Sprintf("cfg=%s,%s,%s,%s,0,%s,%s", hx(p.batchSize), hx(1048576), hx(p.maxAttempts), kvfmt.Bool(p.async), rs, kvfmt.Bool(det))

		b.mu.Lock()
		banom := b.anom
		b.mu.Unlock()
		resMu.Lock()
		res := result
		resMu.Unlock()
		if res == "" && banom != "" {
			res = "PANIC:wire-broker:" + sanitize(banom)
		}
		if res == "" {
			res = anomaly
		}
		if res == "" {
			res = "ok"
		}
		return line{"wcut", cfg + " " + strings.Join(events, " "), res, kvfmt.Set(feat)}
	}
	defer func() {
		if r := recover(); r != nil {
			fail("PANIC:" + sanitize(fmt.Sprint(r)))
			ln = finish()
		}
	}()

	tr := &kafka.Transport{Dial: b.dial, MetadataTTL: time.Hour}
	w := &kafka.Writer{
		Addr:            kafka.TCP("fake:9092"),
		Topic:           wireTopic,
		Transport:       tr,
		BatchSize:       p.batchSize,
		BatchTimeout:    10 * time.Millisecond,
		WriteTimeout:    time.Second,
		ReadTimeout:     time.Second,
		MaxAttempts:     p.maxAttempts,
		WriteBackoffMin: p.backoff,
		WriteBackoffMax: p.backoff,
		RequiredAcks:    kafka.RequireAll,
		Async:           p.async,
		Balancer:        keyBalancer,
		ErrorLogger:     elog,
		Completion: func(msgs []kafka.Message, err error) {
			o := "-"
			if err != nil {
				o = hx(fakert.Classify(err))
			}
			ids := msgIDs(msgs)
			hist.Do(func(int) string { return fmt.Sprintf("K%s:%s", o, ids) })
			for i := range msgs {
				report(msgID(msgs[i]), err)
			}
		},
	}

	ncalls := 0 // guarded by the history lock
	var wg sync.WaitGroup
	for g := range p.callers {
		wg.Add(1)
		go func(g int) {
			defer wg.Done()
			defer func() {
				if r := recover(); r != nil {
					fail("PANIC:" + sanitize(fmt.Sprint(r)))
				}
			}()
			for _, call := range p.callers[g] {
				if failed() {
					return
				}
				msgs := make([]kafka.Message, len(call))
				l := make([]string, len(call))
				for i, m := range call {
					msgs[i] = m.msg
					l[i] = fmt.Sprintf("%x.-.%s.%s", m.id, hx(m.size), hx(m.part))
				}
				cnum := 0
				hist.Do(func(int) string {
					cnum = ncalls
					ncalls++
					return fmt.Sprintf("C%s:%s:-:%s", hx(cnum), hx(g), strings.Join(l, ";"))
				})
				done := make(chan struct{})
				go func() {
					defer close(done)
					defer func() {
						if r := recover(); r != nil {
							fail("PANIC:" + sanitize(fmt.Sprint(r)))
						}
					}()
					err := w.WriteMessages(context.Background(), msgs...)
					res := classifyResult(err, msgs)
					hist.Do(func(int) string { return fmt.Sprintf("R%s:%s", hx(cnum), res) })
					if p.async {
						return // a nil result of an asynchronous call reports nothing
					}
					switch we, isWE := err.(kafka.WriteErrors); {
					case err == nil:
						for i := range msgs {
							report(msgID(msgs[i]), nil)
						}
					case isWE && len(we) == len(msgs):
						for i := range msgs {
							report(msgID(msgs[i]), we[i])
						}
					}
				}()
				if !wireWait(done, wireWatchdog) {
					fail("HANG:call")
					return
				}
			}
		}(g)
	}
	wg.Wait() // every call is under the watchdog
	if failed() {
		return finish()
	}

	hist.Record("X")
	closed := make(chan struct{})
	go func() {
		defer close(closed)
		defer func() {
			if r := recover(); r != nil {
				fail("PANIC:" + sanitize(fmt.Sprint(r)))
			}
		}()
		w.Close()
		hist.Record("Y")
		tr.CloseIdleConnections()
	}()
	if !wireWait(closed, wireWatchdog) {
		fail("HANG:close")
	}
	return finish()
}

func (p *wcutPlan) hasCuts() bool {
	for _, s := range p.scripts {
		if len(s) > 0 {
			return true
		}
	}
	return false
}

// ---------------------------------------------------------------------------
// generation

func genWcut(r *rand.Rand) *wcutPlan {
	p := &wcutPlan{
		nparts:      1 + r.Intn(3),
		batchSize:   1 + r.Intn(4),
		maxAttempts: []int{1, 2, 3, 5}[r.Intn(4)],
		async:       r.Intn(3) == 0,
		backoff:     time.Duration(2+r.Intn(4)) * time.Millisecond,
	}
	ncallers := 1
	if r.Intn(5) == 0 {
		ncallers = 2 + r.Intn(2)
	}
	// about half of the single-caller synchronous scenarios close every batch by size
	bySize := ncallers == 1 && !p.async && r.Intn(2) == 0
	if bySize && p.batchSize == 4 && r.Intn(2) == 0 {
		p.batchSize = 2
	}
	id := uint64(1)
	newMsg := func(part int) wcutMsg {
		v := make([]byte, 8+r.Intn(24))
		binary.BigEndian.PutUint64(v, id)
		for i := 8; i < len(v); i++ {
			v[i] = byte(r.Intn(256))
		}
		m := kafka.Message{Key: []byte{byte(part)}, Value: v}
		wm := wcutMsg{id: id, part: part, size: int(kafka.VerifTotalSize(m)), msg: m}
		id++
		return wm
	}
	for g := 0; g < ncallers; g++ {
		var calls [][]wcutMsg
		for c, nc := 0, 1+r.Intn(3); c < nc; c++ {
			var call []wcutMsg
			if bySize {
				limit := 6
				if p.batchSize > 3 {
					limit = 8
				}
				var parts []int
				for len(parts) == 0 || (len(parts)+1)*p.batchSize <= limit && r.Intn(2) == 0 {
					parts = append(parts, r.Intn(p.nparts))
				}
				for _, part := range parts {
					for i := 0; i < p.batchSize; i++ {
						call = append(call, newMsg(part))
					}
				}
				// interleave the partitions, keeping the ids increasing
				r.Shuffle(len(call), func(i, j int) { call[i].part, call[j].part = call[j].part, call[i].part })
				for i := range call {
					call[i].msg.Key = []byte{byte(call[i].part)}
				}
			} else {
				for i, n := 0, 1+r.Intn(6); i < n; i++ {
					call = append(call, newMsg(r.Intn(p.nparts)))
				}
			}
			calls = append(calls, call)
		}
		p.callers = append(p.callers, calls)
	}
	// the cut scripts: 1-3 cuts per partition (now and then none), every region
	p.scripts = make([][]cutEntry, p.nparts)
	for part := range p.scripts {
		if r.Intn(8) == 0 {
			continue
		}
		for i, n := 0, 1+r.Intn(3); i < n; i++ {
			p.scripts[part] = append(p.scripts[part], cutEntry{
				applied: r.Intn(2) == 0,
				region:  r.Intn(nRegions),
				pick:    r.Intn(1 << 16),
			})
		}
	}
	return p
}

// wcutLines runs n scenarios derived from the seed, 16 at a time.
func wcutLines(seed int64, n int) []line {
	r := rand.New(rand.NewSource(seed ^ 0x77637574))
	plans := make([]*wcutPlan, n)
	for i := range plans {
		plans[i] = genWcut(r)
	}
	lines := make([]line, n)
	sem := make(chan struct{}, 16)
	var wg sync.WaitGroup
	for i := range plans {
		sem <- struct{}{}
		wg.Add(1)
		go func(i int) {
			defer wg.Done()
			defer func() { <-sem }()
			defer func() {
				if r := recover(); r != nil {
					lines[i] = line{"wcut", "cfg=?", "PANIC:" + sanitize(fmt.Sprint(r)), "harness-panic,wcut"}
				}
			}()
			lines[i] = runWcut(plans[i])
		}(i)
	}
	wg.Wait()
	return lines
}
