package main

// wire family: the real kafka.Writer on the real kafka.Transport whose Dial hands out one end of
// a synchronous net.Pipe (a Write blocks until the peer has read it; deadlines are supported) to
// a small wire-level fake broker (this file). The broker can stall in the middle of the frame of
// the n-th produce request: while it is stalled the client's Write blocks. The stalled
// connection is released only after every WriteMessages call has returned; what the broker then
// still receives on it is appended to the log like any other produce request, so a client that
// left a stale copy of a batch behind (a round trip without a write deadline) shows up as a late
// `A` event after the later batches.
//
// One line per scenario: op `wire`, args = cfg + the globally sequenced history in the e2e
// event vocabulary (C / R / K / A / X / Y / L).

import (
	"bufio"
	"bytes"
	"context"
	"encoding/binary"
	"errors"
	"fmt"
	"io"
	"math/rand"
	"net"
	"runtime"
	"strings"
	"sync"
	"sync/atomic"
	"time"

	kafka "github.com/segmentio/kafka-go"
	"github.com/segmentio/kafka-go/protocol"
	"github.com/segmentio/kafka-go/protocol/apiversions"
	"github.com/segmentio/kafka-go/protocol/metadata"
	"github.com/segmentio/kafka-go/protocol/produce"
	"kverif/fakert"
	"kverif/kvfmt"
)

const (
	wireWatchdog = 5 * time.Second
	wireTopic    = "t0"
	// wireCloseWait bounds the wait for the client to close the stalled connection before the
	// release (the release never happens before the calls returned plus wireGrace).
	wireCloseWait = 250 * time.Millisecond
	wireGrace     = 20 * time.Millisecond
	// wireDrain bounds the broker's reads on the stalled connection after the release.
	wireDrain = time.Second
)

// wireApiTable is the ApiVersions answer of the wire broker.
var wireApiTable = []apiversions.ApiKeyResponse{
	{ApiKey: int16(protocol.Produce), MinVersion: 3, MaxVersion: 7},
	{ApiKey: int16(protocol.Metadata), MinVersion: 1, MaxVersion: 6},
	{ApiKey: int16(protocol.ApiVersions), MinVersion: 0, MaxVersion: 2},
}

type wireSpec struct {
	batchSize    int
	calls        [][]kafka.Message
	stallAt      int    // 1-based index of the produce request to stall, 0 = none
	stallK       string // "0", "1", "half", "last"
	writeTimeout time.Duration
}

// wireConn is the client end of a pipe; it tells when the client closed it.
type wireConn struct {
	net.Conn
	once   sync.Once
	closed chan struct{}
}

func (c *wireConn) Close() error {
	err := c.Conn.Close()
	c.once.Do(func() { close(c.closed) })
	return err
}

type wireBroker struct {
	hist *fakert.History
	sp   *wireSpec

	mu       sync.Mutex
	down     bool
	ends     []net.Conn // every pipe end, closed at the end of the scenario
	nconn    int
	produceN int        // produce-class frames whose size header was read
	log      []uint64   // partition 0; appended under the history lock and mu (lock order: history, then mu)
	nparts   int        // partitions of the topic the metadata answer advertises, 0 = 1
	cut      *wcutState // wcut family: produce answers may be cut (wcut.go), nil otherwise
	anom     string

	host     string       // what the metadata answer advertises for broker 1
	port     int32        //
	lis      net.Listener // census scenarios on loopback TCP
	open     int          // connections whose serving goroutine has not yet seen the client's close
	reqTimes []time.Time  // arrival time of every decoded request

	stalledConn *wireConn     // client end of the stalled connection
	stalled     chan struct{} // closed when the stall is reached
	release     chan struct{} // closed to let the stalled connection go on
	staleDone   chan struct{} // closed when the stalled connection has been dealt with after the release
	staleIDs    []uint64      // what was appended from the stalled connection after the release

	stalledOnce, releaseOnce, staleOnce sync.Once
	wg                                  sync.WaitGroup
}

func newWireBroker(hist *fakert.History, sp *wireSpec) *wireBroker {
	return &wireBroker{
		hist:      hist,
		sp:        sp,
		host:      "fake",
		port:      9092,
		stalled:   make(chan struct{}),
		release:   make(chan struct{}),
		staleDone: make(chan struct{}),
	}
}

func (b *wireBroker) anomaly(s string) {
	b.mu.Lock()
	if b.anom == "" {
		b.anom = s
	}
	b.mu.Unlock()
}

func (b *wireBroker) dial(ctx context.Context, network, addr string) (net.Conn, error) {
	if addr != "fake:9092" {
		b.anomaly("dial-" + addr)
	}
	b.mu.Lock()
	defer b.mu.Unlock()
	if b.down {
		return nil, errors.New("wire: broker is down")
	}
	cl, sv := net.Pipe()
	wc := &wireConn{Conn: cl, closed: make(chan struct{})}
	idx := b.nconn
	b.nconn++
	b.open++
	b.ends = append(b.ends, cl, sv)
	b.wg.Add(1)
	go b.serve(idx, sv, wc)
	return wc, nil
}

// listen makes the broker reachable on a loopback TCP port (for writers whose dial function
// cannot be replaced); the metadata answer advertises that address.
func (b *wireBroker) listen() (string, error) {
	lis, err := net.Listen("tcp", "127.0.0.1:0")
	if err != nil {
		return "", err
	}
	ta := lis.Addr().(*net.TCPAddr)
	b.mu.Lock()
	b.lis = lis
	b.host, b.port = "127.0.0.1", int32(ta.Port)
	b.mu.Unlock()
	b.wg.Add(1)
	go func() {
		defer b.wg.Done()
		for {
			c, err := lis.Accept()
			if err != nil {
				return
			}
			b.mu.Lock()
			if b.down {
				b.mu.Unlock()
				c.Close()
				return
			}
			idx := b.nconn
			b.nconn++
			b.open++
			b.ends = append(b.ends, c)
			b.wg.Add(1)
			b.mu.Unlock()
			go b.serve(idx, c, nil)
		}
	}()
	return lis.Addr().String(), nil
}

// census returns the number of connections the client has not closed yet and the number of
// requests that arrived after t.
func (b *wireBroker) census(t time.Time) (open, late int) {
	b.mu.Lock()
	defer b.mu.Unlock()
	for _, rt := range b.reqTimes {
		if rt.After(t) {
			late++
		}
	}
	return b.open, late
}

// shutdown closes every pipe end, which unblocks every read and write on them.
func (b *wireBroker) shutdown() {
	b.releaseOnce.Do(func() { close(b.release) })
	b.mu.Lock()
	b.down = true
	ends := b.ends
	b.ends = nil
	lis := b.lis
	b.mu.Unlock()
	if lis != nil {
		lis.Close()
	}
	for _, c := range ends {
		c.Close()
	}
}

func (b *wireBroker) stallBytes(size int) int {
	k := 0
	switch b.sp.stallK {
	case "1":
		k = 1
	case "half":
		k = size / 2
	case "last":
		k = size - 1
	}
	if k > size {
		k = size
	}
	if k < 0 {
		k = 0
	}
	return k
}

// serve is the goroutine of one connection. The first connection the Transport dials is its
// control connection (the pool waits for the first metadata answer on it before it sends anything
// else); every later connection is a broker connection, which carries ApiVersions first and
// produce requests after that. This is how the broker knows that the frame it is about to read is
// a produce request without reading a byte of it (the check after decoding reports a mismatch).
func (b *wireBroker) serve(idx int, c net.Conn, client *wireConn) {
	defer b.wg.Done()
	defer c.Close()
	defer func() {
		b.mu.Lock()
		b.open--
		b.mu.Unlock()
	}()
	defer func() {
		if r := recover(); r != nil {
			b.anomaly("broker-panic:" + fmt.Sprint(r))
		}
	}()
	for nframe := 0; ; nframe++ {
		var hdr [4]byte
		if _, err := io.ReadFull(c, hdr[:]); err != nil {
			return
		}
		size := int(int32(binary.BigEndian.Uint32(hdr[:])))
		if size < 0 || size > 1<<24 {
			b.anomaly(fmt.Sprintf("frame-size-%d", size))
			return
		}
		frame := make([]byte, 4+size)
		copy(frame, hdr[:])
		got := 4
		produceClass := idx > 0 && nframe > 0
		afterRelease := false
		if produceClass {
			b.mu.Lock()
			b.produceN++
			stall := b.sp.stallAt > 0 && b.produceN == b.sp.stallAt
			if stall {
				b.stalledConn = client
			}
			b.mu.Unlock()
			if stall {
				k := b.stallBytes(size)
				if _, err := io.ReadFull(c, frame[got:got+k]); err != nil {
					b.stalledOnce.Do(func() { close(b.stalled) })
					b.staleOnce.Do(func() { close(b.staleDone) })
					return
				}
				got += k
				b.stalledOnce.Do(func() { close(b.stalled) })
				<-b.release
				afterRelease = true
				c.SetReadDeadline(time.Now().Add(wireDrain))
			}
		}
		if _, err := io.ReadFull(c, frame[got:]); err != nil {
			if afterRelease {
				b.staleOnce.Do(func() { close(b.staleDone) })
			}
			return
		}
		ver, corr, _, msg, err := protocol.ReadRequest(bufio.NewReader(bytes.NewReader(frame)))
		if err != nil {
			b.anomaly("decode:" + err.Error())
			if afterRelease {
				b.staleOnce.Do(func() { close(b.staleDone) })
			}
			return
		}
		b.mu.Lock()
		b.reqTimes = append(b.reqTimes, time.Now())
		host, port := b.host, b.port
		b.mu.Unlock()
		if _, isProduce := msg.(*produce.Request); isProduce != produceClass && b.sp.stallAt > 0 {
			b.anomaly(fmt.Sprintf("conn%d-frame%d-api%d", idx, nframe, msg.ApiKey()))
		}
		var res protocol.Message
		switch m := msg.(type) {
		case *apiversions.Request:
			res = &apiversions.Response{ApiKeys: wireApiTable}
		case *metadata.Request:
			var parts []metadata.ResponsePartition
			for p := 0; p < b.nparts || p == 0; p++ {
				parts = append(parts, metadata.ResponsePartition{
					PartitionIndex: int32(p), LeaderID: 1, ReplicaNodes: []int32{1}, IsrNodes: []int32{1},
				})
			}
			res = &metadata.Response{
				ClusterID:    "fake",
				ControllerID: 1,
				Brokers:      []metadata.ResponseBroker{{NodeID: 1, Host: host, Port: port}},
				Topics:       []metadata.ResponseTopic{{Name: wireTopic, Partitions: parts}},
			}
		case *produce.Request:
			if b.cut != nil {
				// wcut family: the answer may be delivered only up to some byte, after which
				// the connection is lost
				if !b.cut.serve(b, idx, c, ver, corr, m) {
					return
				}
				continue
			}
			res = b.produce(m, afterRelease)
		default:
			b.anomaly(fmt.Sprintf("api%d", msg.ApiKey()))
			return
		}
		if afterRelease {
			b.staleOnce.Do(func() { close(b.staleDone) })
			c.SetReadDeadline(time.Time{})
		}
		if res == nil {
			return
		}
		if err := protocol.WriteResponse(c, ver, corr, res); err != nil {
			return
		}
	}
}

// produceIDs checks the shape of a produce request (one partition of the topic) and reads the ids
// of its records.
func (b *wireBroker) produceIDs(r *produce.Request) (partition int32, ids []uint64, ok bool) {
	if len(r.Topics) != 1 || len(r.Topics[0].Partitions) != 1 || r.Topics[0].Topic != wireTopic {
		b.anomaly("produce-shape")
		return 0, nil, false
	}
	part := &r.Topics[0].Partitions[0]
	if part.Partition < 0 || (part.Partition > 0 && int(part.Partition) >= b.nparts) {
		b.anomaly(fmt.Sprintf("produce-partition-%d", part.Partition))
		return 0, nil, false
	}
	if rr := part.RecordSet.Records; rr != nil {
		for {
			rec, err := rr.ReadRecord()
			if err == io.EOF {
				break
			}
			if err != nil {
				b.anomaly("records:" + err.Error())
				return 0, nil, false
			}
			var val []byte
			if rec.Value != nil {
				if val, err = protocol.ReadAll(rec.Value); err != nil {
					b.anomaly("value:" + err.Error())
					return 0, nil, false
				}
				rec.Value.Close()
			}
			if rec.Key != nil {
				rec.Key.Close()
			}
			id, ok := fakert.MessageID(val, rec.Headers)
			if !ok {
				b.anomaly("record-without-id")
				return 0, nil, false
			}
			ids = append(ids, id)
		}
	}
	return part.Partition, ids, true
}

// produce appends the records of a fully received produce request and records the A event at that
// very moment.
func (b *wireBroker) produce(r *produce.Request, afterRelease bool) protocol.Message {
	partition, ids, ok := b.produceIDs(r)
	if !ok {
		return nil
	}
	if partition != 0 {
		b.anomaly(fmt.Sprintf("produce-partition-%d", partition))
		return nil
	}
	base := int64(-1)
	seq := b.hist.Do(func(int) string {
		b.mu.Lock()
		base = int64(len(b.log))
		b.log = append(b.log, ids...)
		b.mu.Unlock()
		return fmt.Sprintf("A0.0:1:-:%s", fakert.IDs(ids))
	})
	if seq < 0 {
		// the history is frozen: the scenario is over, nothing is appended any more
		return nil
	}
	if afterRelease {
		b.mu.Lock()
		b.staleIDs = append(b.staleIDs, ids...)
		b.mu.Unlock()
	}
	return &produce.Response{
		Topics: []produce.ResponseTopic{{
			Topic: wireTopic,
			Partitions: []produce.ResponsePartition{{
				Partition:  0,
				ErrorCode:  0,
				BaseOffset: base,
			}},
		}},
	}
}

// wireWait waits for done under the wire watchdog.
func wireWait(done <-chan struct{}, d time.Duration) bool {
	t := time.NewTimer(d)
	defer t.Stop()
	select {
	case <-done:
		return true
	case <-t.C:
		return false
	}
}

func runWire(sp *wireSpec) (ln line) {
	feat := map[string]bool{"wire": true, fmt.Sprintf("batches=%d", len(sp.calls)): true, fmt.Sprintf("batchsize=%d", sp.batchSize): true}
	if sp.stallAt > 0 {
		feat["stall-k="+sp.stallK] = true
		feat[fmt.Sprintf("stall-at=%d", sp.stallAt)] = true
	} else {
		feat["no-stall"] = true
	}
	const maxAttempts = 3
	cfg := fmt.Sprintf("cfg=%s,%s,%s,0,0,%s,0", hx(sp.batchSize), hx(1048576), hx(maxAttempts), hx(fakert.CodeDeadline))

	hist := fakert.NewHistory()
	b := newWireBroker(hist, sp)

	var resMu sync.Mutex
	result := ""
	fail := func(r string) {
		resMu.Lock()
		if result == "" {
			result = r
		}
		resMu.Unlock()
	}
	finish := func() line {
		events := hist.Freeze()
		b.shutdown()
		wgDone := make(chan struct{})
		go func() { b.wg.Wait(); close(wgDone) }()
		wireWait(wgDone, wireWatchdog)
		// nothing is appended once the history is frozen
		b.mu.Lock()
		events = append(events, "L0.0:"+fakert.IDs(b.log))
		if len(b.staleIDs) > 0 {
			feat["stale-delivered"] = true
		}
		anom := b.anom
		b.mu.Unlock()
		resMu.Lock()
		res := result
		resMu.Unlock()
		if res == "" && anom != "" {
			res = "PANIC:wire-broker:" + sanitize(anom)
		}
		if res == "" {
			res = "ok"
		}
		return line{"wire", cfg + " " + strings.Join(events, " "), res, kvfmt.Set(feat)}
	}
	defer func() {
		if r := recover(); r != nil {
			fail("PANIC:" + sanitize(fmt.Sprint(r)))
			ln = finish()
		}
	}()

	tr := &kafka.Transport{Dial: b.dial, MetadataTTL: time.Hour}
	w := &kafka.Writer{
		Addr:            kafka.TCP("fake:9092"),
		Topic:           wireTopic,
		Transport:       tr,
		BatchSize:       sp.batchSize,
		BatchTimeout:    10 * time.Millisecond,
		WriteTimeout:    sp.writeTimeout,
		ReadTimeout:     time.Second,
		MaxAttempts:     maxAttempts,
		WriteBackoffMin: 5 * time.Millisecond,
		WriteBackoffMax: 5 * time.Millisecond,
		RequiredAcks:    kafka.RequireAll,
		Balancer:        kafka.BalancerFunc(func(kafka.Message, ...int) int { return 0 }),
		Completion: func(msgs []kafka.Message, err error) {
			o := "-"
			if err != nil {
				o = hx(fakert.Classify(err))
			}
			ids := msgIDs(msgs)
			hist.Do(func(int) string { return fmt.Sprintf("K%s:%s", o, ids) })
		},
	}

	// one caller: successive synchronous calls, each under the watchdog
	for cnum, msgs := range sp.calls {
		if !wireCall(hist, w, cnum, msgs, fail) {
			return finish()
		}
		resMu.Lock()
		stop := result != ""
		resMu.Unlock()
		if stop {
			return finish()
		}
	}

	// every call has returned: only now is the stalled connection released
	if sp.stallAt > 0 {
		feat["released-after-return"] = true
		select {
		case <-b.stalled:
			b.mu.Lock()
			sc := b.stalledConn
			b.mu.Unlock()
			time.Sleep(wireGrace)
			if sc != nil && wireWait(sc.closed, wireCloseWait) {
				feat["stalled-conn-closed"] = true
			}
			b.releaseOnce.Do(func() { close(b.release) })
			// the stalled connection's goroutine reads on under a read deadline
			wireWait(b.staleDone, wireDrain+wireWatchdog)
		default:
			feat["stall-not-reached"] = true
			b.releaseOnce.Do(func() { close(b.release) })
		}
	}

	hist.Record("X")
	closed := make(chan struct{})
	go func() {
		defer close(closed)
		defer func() {
			if r := recover(); r != nil {
				fail("PANIC:" + sanitize(fmt.Sprint(r)))
			}
		}()
		w.Close()
		hist.Record("Y")
		tr.CloseIdleConnections()
	}()
	if !wireWait(closed, wireWatchdog) {
		fail("HANG:close")
	}
	return finish()
}

// ---------------------------------------------------------------------------
// census: what a closed writer leaves behind

const (
	censusWatchdog = 2 * time.Second
	censusGrace    = 300 * time.Millisecond // requests later than this after Y are late
	censusObserve  = 400 * time.Millisecond // the broker is observed at least this long after Y
)

type censusSpec struct {
	newWriter bool // kafka.NewWriter (the writer owns its transport) or the literal control
	async     bool
	batchSize int
	rebalance time.Duration // WriterConfig.RebalanceInterval = the MetadataTTL of NewWriter's transport, 0 = default
	calls     [][]kafka.Message
}

// transportGoroutines counts the goroutines of kafka-go's transport.go: the pools' discover loops
// and the connections' run loops, in the whole process.
func transportGoroutines() int {
	buf := make([]byte, 1<<18)
	for {
		n := runtime.Stack(buf, true)
		if n < len(buf) {
			buf = buf[:n]
			break
		}
		buf = make([]byte, 2*len(buf))
	}
	n := 0
	for _, g := range strings.Split(string(buf), "\n\n") {
		if strings.Contains(g, "kafka-go.(*connPool).discover(") || strings.Contains(g, "kafka-go.(*conn).run(") {
			n++
		}
	}
	return n
}

// settleGoroutines waits (bounded) until the transport goroutine count is down to want.
func settleGoroutines(want int, d time.Duration) int {
	end := time.Now().Add(d)
	for {
		n := transportGoroutines()
		if n <= want || !time.Now().Before(end) {
			return n
		}
		time.Sleep(5 * time.Millisecond)
	}
}

// runCensus runs the sequential part of a census scenario (writer creation to goroutine census)
// and returns the function that completes the line: when the census is clean so far that function
// only keeps observing the scenario's own broker, so it may run while the next scenario starts.
func runCensus(sp *censusSpec) (final func() line, background bool) {
	feat := map[string]bool{"wire": true, "census": true, fmt.Sprintf("calls=%d", len(sp.calls)): true, fmt.Sprintf("batchsize=%d", sp.batchSize): true}
	if sp.newWriter {
		feat["newwriter"] = true
	} else {
		feat["literal-control"] = true
	}
	if sp.async {
		feat["async"] = true
	} else {
		feat["sync"] = true
	}
	if sp.rebalance > 0 {
		feat["short-metadata-ttl"] = true
	}
	const maxAttempts = 3
	cfg := fmt.Sprintf("cfg=%s,%s,%s,%s,0,%s,0", hx(sp.batchSize), hx(1048576), hx(maxAttempts), kvfmt.Bool(sp.async), hx(fakert.CodeDeadline))

	hist := fakert.NewHistory()
	b := newWireBroker(hist, &wireSpec{batchSize: sp.batchSize})

	var resMu sync.Mutex
	result := ""
	fail := func(r string) {
		resMu.Lock()
		if result == "" {
			result = r
		}
		resMu.Unlock()
	}
	failed := func() bool {
		resMu.Lock()
		defer resMu.Unlock()
		return result != ""
	}
	var w *kafka.Writer
	var dialFuncUsed atomic.Bool
	base := 0
	// finish closes the scenario down: whatever the writer left behind is torn down by force so
	// that it cannot disturb what runs next.
	finish := func(leak string) line {
		events := hist.Freeze()
		if leak != "" || failed() {
			if w != nil {
				if tr, ok := w.Transport.(*kafka.Transport); ok && tr != nil {
					tr.CloseIdleConnections()
				}
			}
		}
		b.shutdown()
		wgDone := make(chan struct{})
		go func() { b.wg.Wait(); close(wgDone) }()
		wireWait(wgDone, wireWatchdog)
		if leak != "" || failed() {
			settleGoroutines(base, time.Second)
		}
		b.mu.Lock()
		events = append(events, "L0.0:"+fakert.IDs(b.log))
		anom := b.anom
		b.mu.Unlock()
		if dialFuncUsed.Load() {
			feat["dialfunc-used"] = true
		}
		resMu.Lock()
		res := result
		resMu.Unlock()
		if res == "" && anom != "" {
			res = "PANIC:wire-broker:" + sanitize(anom)
		}
		if res == "" {
			res = leak
		}
		if res == "" {
			res = "ok"
		}
		return line{"wire", cfg + " " + strings.Join(events, " "), res, kvfmt.Set(feat)}
	}
	now := func(l line) (func() line, bool) { return func() line { return l }, false }
	var ln line
	panicked := true
	defer func() {
		if panicked {
			fail("PANIC:" + sanitize(fmt.Sprint(recover())))
			ln = finish("")
			final, background = func() line { return ln }, false
		}
	}()

	completion := func(msgs []kafka.Message, err error) {
		o := "-"
		if err != nil {
			o = hx(fakert.Classify(err))
		}
		ids := msgIDs(msgs)
		hist.Do(func(int) string { return fmt.Sprintf("K%s:%s", o, ids) })
	}
	balancer := kafka.BalancerFunc(func(kafka.Message, ...int) int { return 0 })

	base = transportGoroutines()
	var literalTr *kafka.Transport
	if sp.newWriter {
		// NewWriter builds its transport's dial function from the net.Dialer fields of
		// config.Dialer and ignores Dialer.DialFunc, so the broker listens on loopback TCP;
		// DialFunc is set all the same (to a plain TCP dial) and its use is tagged.
		addr, err := b.listen()
		if err != nil {
			panic("wire: listen: " + err.Error())
		}
		feat["tcp-loopback"] = true
		dialFunc := func(ctx context.Context, network, address string) (net.Conn, error) {
			dialFuncUsed.Store(true)
			return (&net.Dialer{}).DialContext(ctx, network, address)
		}
		w = kafka.NewWriter(kafka.WriterConfig{
			Brokers:           []string{addr},
			Topic:             wireTopic,
			Dialer:            &kafka.Dialer{DialFunc: dialFunc, Timeout: time.Second},
			Balancer:          balancer,
			BatchSize:         sp.batchSize,
			BatchTimeout:      10 * time.Millisecond,
			WriteTimeout:      time.Second,
			ReadTimeout:       time.Second,
			MaxAttempts:       maxAttempts,
			RequiredAcks:      -1,
			Async:             sp.async,
			RebalanceInterval: sp.rebalance,
		})
		w.Completion = completion
	} else {
		literalTr = &kafka.Transport{Dial: b.dial, MetadataTTL: time.Hour}
		w = &kafka.Writer{
			Addr:         kafka.TCP("fake:9092"),
			Topic:        wireTopic,
			Transport:    literalTr,
			BatchSize:    sp.batchSize,
			BatchTimeout: 10 * time.Millisecond,
			WriteTimeout: time.Second,
			ReadTimeout:  time.Second,
			MaxAttempts:  maxAttempts,
			RequiredAcks: kafka.RequireAll,
			Async:        sp.async,
			Balancer:     balancer,
			Completion:   completion,
		}
	}

	for cnum, msgs := range sp.calls {
		if !wireCall(hist, w, cnum, msgs, fail) || failed() {
			panicked = false
			return now(finish(""))
		}
	}

	hist.Record("X")
	var yMu sync.Mutex
	var yTime time.Time
	closed := make(chan struct{})
	go func() {
		defer close(closed)
		defer func() {
			if r := recover(); r != nil {
				fail("PANIC:" + sanitize(fmt.Sprint(r)))
			}
		}()
		w.Close()
		hist.Record("Y")
		yMu.Lock()
		yTime = time.Now()
		yMu.Unlock()
		if literalTr != nil {
			// the transport of a literal Writer belongs to the caller
			literalTr.CloseIdleConnections()
		}
	}()
	if !wireWait(closed, wireWatchdog) {
		fail("HANG:close")
	}
	if failed() {
		panicked = false
		return now(finish(""))
	}
	yMu.Lock()
	y := yTime
	yMu.Unlock()

	// the census: poll until the broker has seen every connection closed and the transport
	// goroutines are back to the count taken before the writer was created
	verdict := func(open, late, extra int) string {
		var parts []string
		if open > 0 {
			parts = append(parts, "conns-open="+hx(open))
		}
		if late > 0 {
			parts = append(parts, "late-requests="+hx(late))
		}
		if extra > 0 {
			parts = append(parts, "goroutines=+"+hx(extra))
		}
		if len(parts) == 0 {
			return ""
		}
		return "LEAK:" + strings.Join(parts, ",")
	}
	end := y.Add(censusWatchdog)
	open, late, extra := 0, 0, 0
	for {
		open, late = b.census(y.Add(censusGrace))
		extra = transportGoroutines() - base
		if (open == 0 && late == 0 && extra <= 0) || !time.Now().Before(end) {
			break
		}
		time.Sleep(5 * time.Millisecond)
	}
	panicked = false
	if v := verdict(open, late, extra); v != "" {
		return now(finish(v))
	}
	// clean so far: the rest of the observation only concerns this scenario's broker
	return func() (ln line) {
		defer func() {
			if r := recover(); r != nil {
				fail("PANIC:" + sanitize(fmt.Sprint(r)))
				ln = finish("")
			}
		}()
		if d := time.Until(y.Add(censusObserve)); d > 0 {
			time.Sleep(d)
		}
		open, late := b.census(y.Add(censusGrace))
		return finish(verdict(open, late, 0))
	}, true
}

// wireCall records the C event of one call, runs WriteMessages under the watchdog and records its
// R event. It returns false when the watchdog tripped.
func wireCall(hist *fakert.History, w *kafka.Writer, cnum int, msgs []kafka.Message, fail func(string)) bool {
	msgs = append([]kafka.Message(nil), msgs...)
	l := make([]string, len(msgs))
	for i, m := range msgs {
		l[i] = fmt.Sprintf("%x.-.%s.0", msgID(m), hx(int(kafka.VerifTotalSize(m))))
	}
	hist.Record(fmt.Sprintf("C%s:0:-:%s", hx(cnum), strings.Join(l, ";")))
	done := make(chan struct{})
	go func() {
		defer close(done)
		defer func() {
			if r := recover(); r != nil {
				fail("PANIC:" + sanitize(fmt.Sprint(r)))
			}
		}()
		err := w.WriteMessages(context.Background(), msgs...)
		res := classifyResult(err, msgs)
		hist.Do(func(int) string { return fmt.Sprintf("R%s:%s", hx(cnum), res) })
	}()
	if !wireWait(done, wireWatchdog) {
		fail("HANG:call")
		return false
	}
	return true
}

func wireMsg(r *rand.Rand, id uint64) kafka.Message {
	v := make([]byte, 8+r.Intn(40))
	binary.BigEndian.PutUint64(v, id)
	for i := 8; i < len(v); i++ {
		v[i] = byte(r.Intn(256))
	}
	return kafka.Message{Value: v}
}

// wireLines runs the wire-level family; the scenarios are derived from the seed and run
// concurrently.
func wireLines(seed int64) []line {
	r := rand.New(rand.NewSource(seed ^ 0x77697265))
	ks := []string{"0", "1", "half", "last"}
	mk := func(batchSize, ncalls, perCall, stallAt int, k string) *wireSpec {
		sp := &wireSpec{
			batchSize:    batchSize,
			stallAt:      stallAt,
			stallK:       k,
			writeTimeout: time.Duration(60+r.Intn(41)) * time.Millisecond,
		}
		id := uint64(1)
		for c := 0; c < ncalls; c++ {
			var msgs []kafka.Message
			for i := 0; i < perCall; i++ {
				msgs = append(msgs, wireMsg(r, id))
				id++
			}
			sp.calls = append(sp.calls, msgs)
		}
		return sp
	}
	var specs []*wireSpec
	for _, k := range ks {
		specs = append(specs, mk(1, 2, 1, 1, k)) // BatchSize 1, two calls, first produce request stalled
	}
	specs = append(specs,
		mk(2, 2, 2, 1, ks[r.Intn(len(ks))]), // BatchSize 2, two calls of two messages
		mk(1, 3, 1, 1, ks[r.Intn(len(ks))]), // three calls, first produce request stalled
		mk(1, 3, 1, 2, ks[r.Intn(len(ks))]), // three calls, the first attempt of the second call stalled
		mk(1, 2, 1, 0, "-"),                 // control: no stall
	)
	lines := make([]line, len(specs))
	var wg sync.WaitGroup
	for i := range specs {
		wg.Add(1)
		go func(i int) {
			defer wg.Done()
			defer func() {
				if r := recover(); r != nil {
					lines[i] = line{"wire", "cfg=?", "PANIC:" + sanitize(fmt.Sprint(r)), "wire,harness-panic"}
				}
			}()
			lines[i] = runWire(specs[i])
		}(i)
	}
	wg.Wait()

	// census scenarios: one after the other (the goroutine census is process-wide), after every
	// other wire scenario has finished and its transport's goroutines are gone
	settleGoroutines(0, time.Second)
	mkc := func(newWriter, async bool, batchSize, ncalls, perCall int, rebalance time.Duration) *censusSpec {
		sp := &censusSpec{newWriter: newWriter, async: async, batchSize: batchSize, rebalance: rebalance}
		id := uint64(1)
		for c := 0; c < ncalls; c++ {
			var msgs []kafka.Message
			for i := 0; i < perCall; i++ {
				msgs = append(msgs, wireMsg(r, id))
				id++
			}
			sp.calls = append(sp.calls, msgs)
		}
		return sp
	}
	cspecs := []*censusSpec{
		mkc(true, false, 1, 1, 1, 0),
		mkc(true, false, 2, 2, 2, 0),
		mkc(true, false, 1, 3, 1, 500*time.Millisecond),
		mkc(true, true, 1, 2, 1, 0),
		mkc(true, true, 2, 1, 1+r.Intn(2), 500*time.Millisecond),
		mkc(false, false, 1, 2, 1, 0), // control: literal Writer, the harness closes its transport
	}
	clines := make([]line, len(cspecs))
	var cwg sync.WaitGroup
	for i := range cspecs {
		var final func() line
		background := false
		func() {
			defer func() {
				if r := recover(); r != nil {
					l := line{"wire", "cfg=?", "PANIC:" + sanitize(fmt.Sprint(r)), "census,harness-panic,wire"}
					final, background = func() line { return l }, false
				}
			}()
			final, background = runCensus(cspecs[i])
		}()
		if !background {
			clines[i] = final()
			continue
		}
		cwg.Add(1)
		go func(i int, final func() line) {
			defer cwg.Done()
			defer func() {
				if r := recover(); r != nil {
					clines[i] = line{"wire", "cfg=?", "PANIC:" + sanitize(fmt.Sprint(r)), "census,harness-panic,wire"}
				}
			}()
			clines[i] = final()
		}(i, final)
	}
	cwg.Wait()
	return append(lines, clines...)
}
