package main

// Batches around every varint boundary of the per-record fields of format 2: record counts
// 63/64/65, 127/128/129, 8191/8192/8193 (offset deltas are zig-zag varints: boundaries at 64
// and 8192), timestamp deltas at +-(2^(7k-1) -1, 0, +1) for k = 1..5, key / value / header key /
// header value lengths at 63/64/65 and 8191/8192/8193, header counts 63/64/65 — through
// protocol.RecordSet.WriteTo (wp), the kafka.Writer / Client.Produce path (ww), the legacy
// writeBuffer (wl) and a real Conn (wc).  Same result format as the other writer cases: the
// strict reference decoder (every record must occupy exactly its announced length) and the
// byte-exact model.

import (
	"fmt"
	"math/rand"
)

func varintCases(r *rand.Rand, level int) {
	if level <= 0 {
		return
	}
	base := baseMs*1_000_000 + 500_000 // half a millisecond past a whole one
	tiny := func(n int) []inRec {
		recs := make([]inRec, n)
		for i := range recs {
			recs[i] = inRec{ns: base + int64(i%7)*1_000_000, val: []byte{byte(i)}}
			if i%5 == 0 {
				recs[i].key = []byte{byte(i >> 8), byte(i)}
			}
		}
		return recs
	}
	type vcase struct {
		recs []inRec
		tags []string
		big  bool
	}
	var cases []vcase
	for _, n := range []int{63, 64, 65, 127, 128, 129, 8191, 8192, 8193} {
		cases = append(cases, vcase{recs: tiny(n), tags: []string{fmt.Sprintf("count=%d", n)}, big: n > 1000})
	}
	// timestamp deltas
	{
		recs := []inRec{{ns: base + 1<<36*1_000_000, val: []byte("t0")}}
		for k := 1; k <= 5; k++ {
			b := int64(1) << uint(7*k-1)
			for _, d := range []int64{b - 1, b, b + 1, -(b - 1), -b, -(b + 1)} {
				recs = append(recs, inRec{ns: recs[0].ns + d*1_000_000 + int64(r.Intn(999_999)), val: []byte{byte(k)}})
			}
		}
		cases = append(cases, vcase{recs: recs, tags: []string{"tsdelta-boundaries", "subms"}})
	}
	// lengths of keys, values, header keys, header values
	for _, L := range []int{63, 64, 65, 8191, 8192, 8193} {
		recs := []inRec{
			{ns: base, key: genContent(r, L), val: []byte("k")},
			{ns: base + 1_000_000, key: []byte("v"), val: genContent(r, L)},
			{ns: base + 2_000_000, val: []byte("hk"), hdrs: []rhdr{{key: genContent(r, L), val: []byte("x")}}},
			{ns: base + 3_000_000, val: []byte("hv"), hdrs: []rhdr{{key: []byte("h"), val: genContent(r, L)}}},
		}
		cases = append(cases, vcase{recs: recs, tags: []string{fmt.Sprintf("len=%d", L)}})
	}
	// header counts
	{
		var recs []inRec
		for i, n := range []int{63, 64, 65} {
			hs := make([]rhdr, n)
			for j := range hs {
				hs[j] = rhdr{key: []byte{byte('a' + j%26)}, val: []byte{byte(j)}}
			}
			recs = append(recs, inRec{ns: base + int64(i)*1_000_000, val: []byte("h"), hdrs: hs})
		}
		cases = append(cases, vcase{recs: recs, tags: []string{"hdrcount=63,64,65"}})
	}
	i := 0
	for _, vc := range cases {
		for _, op := range []string{"wp", "ww", "wl", "wc"} {
			codecs := []int{0}
			if !vc.big || level > 1 {
				codecs = []int{0, 1 + i%4}
			}
			if vc.big && level < 2 {
				// quick tier: the batches of 8191..8193 records cost over a second each in the model;
				// keep 8192 and 8193 for the protocol writer and 8193 for the Writer path (the legacy writers get 129 here, 8193 in thorough)
				n := len(vc.recs)
				if op == "wc" || op == "wl" || n == 8191 || (n == 8192 && op != "wp") {
					continue
				}
			}
			for _, codec := range codecs {
				i++
				if only != "" && only != op {
					id++
					continue
				}
				feat := map[string]bool{"varint": true}
				for _, t := range vc.tags {
					feat[t] = true
				}
				var args, res string
				switch op {
				case "wp":
					args, res = runWP(2, codec, vc.recs)
				case "ww":
					args, res = runWW(codec, int16(3+i%6), vc.recs)
				case "wl":
					args, res = runWL(2, codec, vc.recs)
				default:
					args, res = runWC(2, codec, vc.recs)
				}
				emit(op, args, res, writerFeats(2, codec, feat))
			}
		}
	}
}
