package main

// Two writer families that go through protocol.WriteRequest / WriteResponse (one shared
// pageBuffer per frame, header fields back-patched with WriteAt):
//
//   ww  the kafka.Writer path: one Writer batch per case through a RoundTripper that encodes
//       the typed produce request with protocol.WriteRequest; the record set that reaches
//       the wire is cut out, decoded by the reference decoder and compared with the messages
//       given (null vs empty exactly); same args/result as `wp` (the model treats it alike).
//       Every nil/empty/non-empty pattern of key and value, in every order.
//   frame sweep: Produce requests (v3..v8) and Fetch responses (v4..v11) with 3 partitions
//       whose first record set is sized so that the SECOND set starts at 65536*k - a for
//       every a in a window: each back-patched field of its batch header (set size, batch
//       length, crc, lastOffsetDelta, first/max timestamp, count) straddles, ends on and
//       starts on a page boundary in some case.  The small sets are emitted as `wp` cases
//       (reference decoder + byte-exact model), the whole frame as a `wf` case.

import (
	"bytes"
	"context"
	"encoding/binary"
	"errors"
	"fmt"
	"math/rand"
	"net"
	"time"

	kafka "github.com/segmentio/kafka-go"
	"github.com/segmentio/kafka-go/protocol"
	"github.com/segmentio/kafka-go/protocol/fetch"
	"github.com/segmentio/kafka-go/protocol/metadata"
	"github.com/segmentio/kafka-go/protocol/produce"
	"kverif/kvfmt"
)

// ------------------------------------------------------------------ ww: the Writer path

type captureRT struct {
	version int16
	frames  [][]byte
	err     error
}

func (rt *captureRT) RoundTrip(ctx context.Context, addr net.Addr, req kafka.Request) (kafka.Response, error) {
	switch r := req.(type) {
	case *metadata.Request:
		res := &metadata.Response{
			Brokers:      []metadata.ResponseBroker{{NodeID: 1, Host: "fake", Port: 9092}},
			ClusterID:    "c05",
			ControllerID: 1,
		}
		names := r.TopicNames
		if len(names) == 0 {
			names = []string{"t"}
		}
		for _, name := range names {
			res.Topics = append(res.Topics, metadata.ResponseTopic{Name: name, Partitions: []metadata.ResponsePartition{{
				PartitionIndex: 0, LeaderID: 1, ReplicaNodes: []int32{1}, IsrNodes: []int32{1}}}})
		}
		return res, nil
	case *produce.Request:
		buf := &bytes.Buffer{}
		r.Prepare(rt.version) // what the real transport does once the version is negotiated
		if err := protocol.WriteRequest(buf, rt.version, 1, "c", r); err != nil {
			rt.err = err
			return nil, err
		}
		rt.frames = append(rt.frames, append([]byte(nil), buf.Bytes()...))
		res := &produce.Response{}
		for _, t := range r.Topics {
			rt2 := produce.ResponseTopic{Topic: t.Topic}
			for _, p := range t.Partitions {
				rt2.Partitions = append(rt2.Partitions, produce.ResponsePartition{Partition: p.Partition})
			}
			res.Topics = append(res.Topics, rt2)
		}
		return res, nil
	}
	return nil, fmt.Errorf("unexpected request %T", req)
}

func runWW(codec int, version int16, recs []inRec) (args string, res string) {
	var oracle []oracleEntry
	ver, now := 2, int64(0)
	if version < 3 {
		ver = 1
	}
	defer func() {
		if p := recover(); p != nil {
			res = panicString(p)
		}
		args = fmt.Sprintf("%x %s %s %s %s", ver, kvfmt.U(uint64(codec)), kvfmt.I(now), oracleString(oracle), irString(recs))
	}()
	rt := &captureRT{version: version}
	w := &kafka.Writer{
		Addr:         kafka.TCP("fake:9092"),
		Topic:        "t",
		Balancer:     kafka.BalancerFunc(func(kafka.Message, ...int) int { return 0 }),
		BatchSize:    len(recs),
		BatchBytes:   64 << 20,
		BatchTimeout: 5 * time.Second,
		RequiredAcks: kafka.RequireAll,
		Transport:    rt,
	}
	if codec != 0 {
		w.Compression = kafka.Compression(codec)
	}
	msgs := toMessages(recs)
	for i := range msgs {
		msgs[i].Offset = 0
	}
	ctx, cancel := context.WithTimeout(context.Background(), 20*time.Second)
	err := w.WriteMessages(ctx, msgs...)
	cancel()
	w.Close()
	if err != nil || rt.err != nil {
		return "", "ERR other"
	}
	if len(rt.frames) != 1 {
		return "", fmt.Sprintf("ERR frames=%d", len(rt.frames))
	}
	set, why := cutRecordSet(rt.frames[0])
	if why != "" {
		return "", "ERR cut:" + why
	}
	if ver == 1 && codec != 0 && len(set) >= 30 {
		now = int64(binary.BigEndian.Uint64(set[22:30]))
	}
	oracle = outputOracle(ver, codec, set)
	return "", okResult(set)
}

func kvPattern(r *rand.Rand, k int) []byte {
	switch k {
	case 0:
		return nil
	case 1:
		return []byte{}
	default:
		return genContent(r, 1+r.Intn(12))
	}
}

func writerPathCases(r *rand.Rand, level int) {
	if level <= 0 || (only != "" && only != "ww") {
		return
	}
	ns := baseMs*1_000_000 + 12345
	mk := func(pat []int) []inRec {
		recs := make([]inRec, len(pat))
		for i, p := range pat {
			ns += int64(1 + r.Intn(3_000_000))
			recs[i] = inRec{ns: ns, key: kvPattern(r, p/3), val: kvPattern(r, p%3)}
			if r.Intn(6) == 0 {
				recs[i].hdrs = genHeaders(r)
			}
		}
		return recs
	}
	emitWW := func(i int, pat []int) {
		codec := i % 5
		version := int16(2 + i%7) // produce v2 (message format 1) .. v8
		recs := mk(pat)
		feat := map[string]bool{"writerpath": true, fmt.Sprintf("produce=v%d", version): true, fmt.Sprintf("n=%d", len(pat)): true}
		kinds := map[int]bool{}
		for _, p := range pat {
			kinds[p/3] = true
			kinds[3+p%3] = true
		}
		if kinds[0] && (kinds[1] || kinds[2]) {
			feat["mixed-nil-keys"] = true
		}
		if kinds[3] && (kinds[4] || kinds[5]) {
			feat["mixed-nil-values"] = true
		}
		for _, rc := range recs {
			contentFeats(feat, rc.key, rc.val, rc.hdrs)
		}
		args, res := runWW(codec, version, recs)
		ver := 2
		if version < 3 {
			ver = 1
		}
		emit("ww", args, res, writerFeats(ver, codec, feat))
	}
	i := 0
	// every ordered pair of (key kind, value kind) patterns
	for a := 0; a < 9; a++ {
		for b := 0; b < 9; b++ {
			emitWW(i, []int{a, b})
			i++
		}
	}
	// longer batches with random patterns
	n := 30
	if level > 1 {
		n = 300
	}
	for j := 0; j < n; j++ {
		pat := make([]int, 3+r.Intn(6))
		for x := range pat {
			pat[x] = r.Intn(9)
		}
		emitWW(i, pat)
		i++
	}
}

// ------------------------------------------------------------------ the frame sweep

func smallRecs(r *rand.Rand, n int) []inRec {
	recs := make([]inRec, n)
	ns := baseMs*1_000_000 + int64(r.Intn(1_000_000_000))*1000
	for i := range recs {
		ns += int64(1 + r.Intn(5_000_000))
		recs[i] = inRec{ns: ns, key: kvPattern(r, r.Intn(3)), val: kvPattern(r, r.Intn(3))}
	}
	return recs
}

func standaloneSet(codec int, recs []inRec) ([]byte, error) {
	rs := protocol.RecordSet{Version: 2, Attributes: protocol.Attributes(codec), Records: protocol.NewRecordReader(toRecords(recs)...)}
	buf := &bytes.Buffer{}
	_, err := rs.WriteTo(buf)
	return buf.Bytes(), err
}

// buildFrame encodes a Produce request (kind 0) or a Fetch response (kind 1) with one topic
// and the given record sets, one per partition.
func buildFrame(kind int, version int16, sets [][]inRec) ([]byte, error) {
	buf := &bytes.Buffer{}
	mkrs := func(recs []inRec) protocol.RecordSet {
		return protocol.RecordSet{Version: 2, Records: protocol.NewRecordReader(toRecords(recs)...)}
	}
	if kind == 0 {
		req := &produce.Request{Acks: -1, Timeout: 1000}
		t := produce.RequestTopic{Topic: "t"}
		for i, recs := range sets {
			t.Partitions = append(t.Partitions, produce.RequestPartition{Partition: int32(i), RecordSet: mkrs(recs)})
		}
		req.Topics = []produce.RequestTopic{t}
		return frameBytes(buf, protocol.WriteRequest(buf, version, 7, "c", req))
	}
	res := &fetch.Response{}
	t := fetch.ResponseTopic{Topic: "t"}
	for i, recs := range sets {
		t.Partitions = append(t.Partitions, fetch.ResponsePartition{Partition: int32(i), HighWatermark: 100, LastStableOffset: 100, RecordSet: mkrs(recs)})
	}
	res.Topics = []fetch.ResponseTopic{t}
	return frameBytes(buf, protocol.WriteResponse(buf, version, 7, res))
}

func frameBytes(buf *bytes.Buffer, err error) ([]byte, error) {
	if err != nil {
		return nil, err
	}
	return append([]byte(nil), buf.Bytes()...), nil
}

// the part of a record set that is never back-patched: everything after the 4+61 byte header
func locateSet(frame, standalone []byte, from int) int {
	if len(standalone) < 4+61 {
		return -1
	}
	i := bytes.Index(frame[from:], standalone[4+61:])
	if i < 0 {
		return -1
	}
	return from + i - (4 + 61)
}

func frameSweep(r *rand.Rand, level int) {
	if level <= 0 || (only != "" && only != "wp" && only != "wf") {
		return
	}
	const page = 65536
	step := 1
	_ = step
	caseNo := 0
	for a := -3; a <= 70; a++ {
		ks := []int{1}
		if level > 1 || a%9 == 0 {
			ks = append(ks, 2)
		}
		for _, k := range ks {
			kind := caseNo % 2
			version := int16(3 + caseNo%6)
			if kind == 1 {
				version = int16(4 + caseNo%8)
			}
			caseNo++
			target := page*k - a // where the second record set must start
			p1 := smallRecs(r, 1+r.Intn(3))
			p2 := smallRecs(r, 1+r.Intn(3))
			// marker keys make the payloads unique in the frame
			p1[0].key = []byte(fmt.Sprintf("P1-%d-%d", a, k))
			p2[0].key = []byte(fmt.Sprintf("P2-%d-%d", a, k))
			s1, e1 := standaloneSet(0, p1)
			s2, e2 := standaloneSet(0, p2)
			big := []inRec{{ns: baseMs*1_000_000 + 777, key: []byte("P0"), val: bigContent(r, target-200)}}
			var frame []byte
			var err error
			at1 := -1
			for try := 0; try < 6; try++ {
				frame, err = buildFrame(kind, version, [][]inRec{big, p1, p2})
				if err != nil || e1 != nil || e2 != nil {
					break
				}
				at1 = locateSet(frame, s1, 0)
				if at1 < 0 || at1 == target {
					break
				}
				n := len(big[0].val) + target - at1
				if n < 1 {
					break
				}
				big[0].val = bigContent(r, n)
			}
			feat := map[string]bool{"framesweep": true, fmt.Sprintf("align=%d", a): true, fmt.Sprintf("k=%d", k): true}
			if kind == 0 {
				feat[fmt.Sprintf("produce=v%d", version)] = true
			} else {
				feat[fmt.Sprintf("fetchresp=v%d", version)] = true
			}
			res := "ok"
			switch {
			case err != nil || e1 != nil || e2 != nil:
				res = "ERR encode"
			case at1 < 0:
				res = "ERR locate1"
			case at1 != target:
				res = fmt.Sprintf("GENBUG:align:%d/%d", at1, target)
			}
			at2 := -1
			if res == "ok" {
				at2 = locateSet(frame, s2, at1+len(s1))
				if at2 < 0 {
					res = "ERR locate2"
				}
			}
			if res == "ok" {
				// the whole frame: size prefix, first (big) set through the reference decoder
				if int(binary.BigEndian.Uint32(frame)) != len(frame)-4 {
					res = "BAD:framesize"
				}
				s0, e0 := standaloneSet(0, big)
				at0 := -1
				if e0 == nil {
					at0 = locateSet(frame, s0, 0)
				}
				if at0 < 0 {
					res = "BAD:locate0"
				} else if recs, derr := decodeSet(frame[at0:at0+len(s0)], decOpts{}); derr != nil || len(recs) != 1 || !bytes.Equal(recs[0].val, big[0].val) {
					res = "BAD:set0:" + errText(derr)
				}
				if at2+len(s2) > len(frame) {
					res = "BAD:short"
				}
			}
			emit("wf", fmt.Sprintf("%x %x %x", kind, version, target), res, kvfmt.Set(feat))
			if at1 >= 0 && at2 >= 0 && at2+len(s2) <= len(frame) {
				for i, x := range []struct {
					at   int
					s    []byte
					recs []inRec
				}{{at1, s1, p1}, {at2, s2, p2}} {
					f2 := map[string]bool{"framesweep": true, "inframe": true, fmt.Sprintf("setno=%d", i+1): true, fmt.Sprintf("align=%d", a): true}
					args := fmt.Sprintf("2 0 0 . %s", irString(x.recs))
					emit("wp", args, okResult(frame[x.at:x.at+len(x.s)]), writerFeats(2, 0, f2))
				}
			}
		}
	}
}

func errText(err error) string {
	if err == nil {
		return "mismatch"
	}
	var rj reject
	if errors.As(err, &rj) {
		return string(rj)
	}
	return "error"
}
