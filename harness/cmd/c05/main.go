// c05: correspondence driver for Kafka record batches / message sets
// (property C05).
//
// Generates cases from one PRNG, runs the real encoders and decoders of /repo
// on them and prints one line per case:
//
//	<id> <op> <args...> | <go result> | <features>
//
// Writer ops (wp, wl, wc) give the bytes the library wrote together with what
// an independent strict decoder (refcodec.go) makes of them; the reader op
// (rd) feeds record sets rendered by the independent encoder to the two
// decoders of the library.  The OCaml driver evaluates the extracted Coq model
// on "<id> <op> <args...>".
package main

import (
	"bufio"
	"flag"
	"fmt"
	"math/rand"
	"os"
	"strings"

	"kverif/kvfmt"
)

var out *bufio.Writer
var id int
var only string

func emit(op string, args string, res string, feats string) {
	id++
	if only != "" && only != op {
		return
	}
	if strings.Contains(args, " | ") || strings.Contains(res, " | ") {
		res = "HARNESSBUG:separator-in-output"
	}
	fmt.Fprintf(out, "%d %s %s | %s | %s\n", id, op, args, res, feats)
}

// ------------------------------------------------------------------ formats

func hdrsString(hs []rhdr) string {
	if len(hs) == 0 {
		return "."
	}
	s := make([]string, len(hs))
	for i, h := range hs {
		s[i] = kvfmt.Bytes(h.key) + "=" + kvfmt.OptBytes(h.val)
	}
	return strings.Join(s, ";")
}

// inRec is a record handed to a writer: offset as given, time in nanoseconds
// since the Unix epoch.
type inRec struct {
	off  int64
	ns   int64
	key  []byte
	val  []byte
	hdrs []rhdr
}

func irString(recs []inRec) string {
	if len(recs) == 0 {
		return "."
	}
	s := make([]string, len(recs))
	for i, r := range recs {
		s[i] = kvfmt.I(r.off) + ":" + kvfmt.I(r.ns) + ":" + kvfmt.OptBytes(r.key) + ":" + kvfmt.OptBytes(r.val) + ":" + hdrsString(r.hdrs)
	}
	return strings.Join(s, ",")
}

func drString(recs []rrec) string {
	if len(recs) == 0 {
		return "."
	}
	s := make([]string, len(recs))
	for i, r := range recs {
		s[i] = kvfmt.I(r.off) + ":" + kvfmt.I(r.ts) + ":" + kvfmt.OptBytes(r.key) + ":" + kvfmt.OptBytes(r.val) + ":" + hdrsString(r.hdrs)
	}
	return strings.Join(s, ",")
}

func oracleString(o []oracleEntry) string {
	if len(o) == 0 {
		return "."
	}
	s := make([]string, len(o))
	for i, e := range o {
		s[i] = kvfmt.U(uint64(e.codec)) + ":" + kvfmt.Bytes(e.plain) + ":" + kvfmt.Bytes(e.comp)
	}
	return strings.Join(s, ";")
}

// panicString renders a recovered panic value without spaces or pipes.
func panicString(p interface{}) string {
	s := fmt.Sprint(p)
	s = strings.Map(func(c rune) rune {
		switch {
		case c == ' ' || c == '\t' || c == '\n' || c == '\r':
			return '_'
		case c == '|':
			return '/'
		}
		return c
	}, s)
	if len(s) > 120 {
		s = s[:120]
	}
	return "PANIC:" + s
}

// ------------------------------------------------------------ shared content

// genContent fills n bytes: random, or repetitive so the codecs have
// something to compress.
func genContent(r *rand.Rand, n int) []byte {
	b := make([]byte, n)
	switch r.Intn(3) {
	case 0:
		r.Read(b)
	case 1:
		for i := range b {
			b[i] = byte('a' + r.Intn(26))
		}
	default:
		period := 1 + r.Intn(7)
		pat := make([]byte, period)
		r.Read(pat)
		for i := range b {
			b[i] = pat[i%period]
		}
	}
	return b
}

func genHeaders(r *rand.Rand) []rhdr {
	n := 0
	if r.Intn(5) < 2 {
		n = 1 + r.Intn(3)
	}
	var hs []rhdr
	for i := 0; i < n; i++ {
		var h rhdr
		if r.Intn(6) == 0 {
			h.key = []byte{}
		} else {
			h.key = make([]byte, 1+r.Intn(10))
			for j := range h.key {
				h.key[j] = byte('a' + r.Intn(26))
			}
			if r.Intn(8) == 0 { // arbitrary bytes are legal in a Go string
				r.Read(h.key)
			}
		}
		switch r.Intn(6) {
		case 0:
			h.val = nil
		case 1:
			h.val = []byte{}
		default:
			h.val = genContent(r, 1+r.Intn(20))
		}
		hs = append(hs, h)
	}
	return hs
}

func contentFeats(feat map[string]bool, key, val []byte, hdrs []rhdr) {
	switch {
	case key == nil:
		feat["nullkey"] = true
	case len(key) == 0:
		feat["emptykey"] = true
	}
	switch {
	case val == nil:
		feat["nullval"] = true
	case len(val) == 0:
		feat["emptyval"] = true
	}
	if len(hdrs) > 0 {
		feat["hdrs"] = true
	}
	for _, h := range hdrs {
		if h.val == nil {
			feat["nullhdrval"] = true
		}
		if len(h.key) == 0 {
			feat["emptyhdrkey"] = true
		}
	}
}

func main() {
	seed := flag.Int64("seed", 1, "PRNG seed")
	count := flag.Int("n", 600, "number of generated cases (half writers: wp/wl/wc evenly, half readers)")
	big := flag.Int("big", 0, "additional writer cases with one value above 64 KiB")
	holes := flag.Bool("holes", true, "generate v1 wrappers whose inner offsets have holes")
	pg := flag.Int("pg", 40, "number of page-buffer operation sequences (pg), followed by 2 concurrent cases (pgc)")
	bigrd := flag.Int("bigrd", 1, "page-boundary reader suite (rd cases with 64 KiB..200 KB of key+value bytes): 0 none, 1 every size and codec once, 2 full cross product")
	pgr := flag.Int("pgr", 30, "number of page-buffer sequences with ReadFrom and a digest after every operation (pgr)")
	cc := flag.Int("cc", 4, "concurrent-producer rounds per GOMAXPROCS value (wc cases over slow peers, wp cases from concurrent goroutines); 0 = none")
	ww := flag.Int("ww", 1, "kafka.Writer path cases (ww): 0 none, 1 all ordered pairs of nil/empty/non-empty keys and values + 30 longer batches, 2 + 300")
	fs := flag.Int("fs", 1, "frame sweep (wf + wp cases): record batch headers across 64 KiB page boundaries in Produce requests / Fetch responses: 0 none, 1 quick, 2 also two-page offsets for every alignment")
	vi := flag.Int("vi", 1, "varint-boundary writer cases (record counts 63..8193, timestamp deltas, lengths, header counts): 0 none, 1 quick, 2 every codec variant")
	av := flag.Int("av", 1, "negotiated API version sweep: Client.Produce / Writer at every Produce version (wv) and Client.Fetch at every Fetch version (rd, tag clientfetch) through a wire-level fake broker: 0 none, 1 quick, 2 more cases per version")
	flag.StringVar(&only, "only", "", "print only the cases of this op (wp, wl, wc, rd, pg, pgc)")
	flag.Parse()
	r := rand.New(rand.NewSource(*seed))
	out = bufio.NewWriterSize(os.Stdout, 1<<20)
	defer out.Flush()

	writerCases(r, *count/2, *big)
	readerCases(r, *count-*count/2, *holes)
	pageCases(r, *pg) // after all other cases: their ids do not change
	bigReaderCases(r, *bigrd)
	pageRFCases(r, *pgr)
	concurrentCases(r, *cc)
	writerPathCases(r, *ww)
	frameSweep(r, *fs)
	varintCases(r, *vi)
	produceVersionCases(r, *av)
	fetchVersionCases(r, *av)
}
