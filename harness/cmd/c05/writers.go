package main

import (
	"bufio"
	"bytes"
	"encoding/binary"
	"errors"
	"fmt"
	"io"
	"math/rand"
	"net"
	"time"

	kafka "github.com/segmentio/kafka-go"
	"github.com/segmentio/kafka-go/compress"
	"github.com/segmentio/kafka-go/protocol"
	"kverif/kvfmt"
)

const baseMs = int64(1_600_000_000_000)

// ---------------------------------------------------------------- generation

func genField(r *rand.Rand, nilWeight int) []byte {
	x := r.Intn(100)
	switch {
	case x < nilWeight:
		return nil
	case x < nilWeight+10:
		return []byte{}
	case x < 92:
		return genContent(r, 1+r.Intn(40))
	default:
		return genContent(r, 200+r.Intn(1801))
	}
}

func countBucket(n int) string {
	switch {
	case n == 0:
		return "n=0"
	case n == 1:
		return "n=1"
	case n <= 5:
		return "n=2-5"
	default:
		return "n=6+"
	}
}

func genWriterRecs(r *rand.Rand, allowEmpty bool, big bool) ([]inRec, map[string]bool) {
	feat := map[string]bool{}
	var n int
	switch x := r.Intn(20); {
	case x == 0 && allowEmpty:
		n = 0
	case x <= 2:
		n = 1
	case x <= 5:
		n = 2 + r.Intn(4)
	case x <= 17:
		n = 1 + r.Intn(12)
	default:
		n = 13 + r.Intn(48)
	}
	if big {
		n = 1 + r.Intn(3)
	}

	subms := r.Intn(2) == 0
	decreasing := r.Intn(7) == 0
	far := n >= 2 && r.Intn(25) == 0
	farAt := 0
	if far {
		farAt = 1 + r.Intn(n-1)
	}
	offsets := r.Intn(5) == 0

	recs := make([]inRec, n)
	ms := baseMs + int64(r.Intn(1_000_000))
	off := int64(0)
	for i := range recs {
		if i > 0 {
			var step int64
			switch x := r.Intn(10); {
			case x < 2:
				step = 0
			case x < 8:
				step = 1 + int64(r.Intn(5))
			default:
				step = 6 + int64(r.Intn(1000))
			}
			if decreasing && r.Intn(2) == 0 {
				step = -step
			}
			ms += step
		}
		if far && i == farAt {
			jump := int64(1)<<31 + int64(r.Intn(1_000_000))
			if r.Intn(3) == 0 {
				jump = -jump
			}
			ms += jump
		}
		ns := ms * 1_000_000
		if subms {
			ns += int64(r.Intn(1_000_000))
		}
		if offsets {
			off += int64(r.Intn(1000))
		}
		recs[i] = inRec{
			off:  off,
			ns:   ns,
			key:  genField(r, 25),
			val:  genField(r, 12),
			hdrs: genHeaders(r),
		}
	}
	if big {
		recs[r.Intn(n)].val = genContent(r, 70000+r.Intn(70001))
		feat["big"] = true
	}

	feat[countBucket(n)] = true
	anySub := false
	for i, rc := range recs {
		contentFeats(feat, rc.key, rc.val, rc.hdrs)
		if rc.ns%1_000_000 != 0 {
			anySub = true
		}
		if i > 0 && rc.ns < recs[i-1].ns {
			feat["tsdecreasing"] = true
		}
		if d := rc.ns/1_000_000 - recs[0].ns/1_000_000; d >= 1<<31 || d <= -(1<<31) {
			feat["tsfar"] = true
		}
		if rc.off != 0 {
			feat["off!=0"] = true
		}
	}
	if n > 0 {
		if anySub {
			feat["subms"] = true
		} else {
			feat["wholems"] = true
		}
	}
	return recs, feat
}

func f4Witness() ([]inRec, map[string]bool) {
	recs := []inRec{
		{ns: 1600000000000900000, val: []byte("a")},
		{ns: 1600000000001100000, val: []byte("b")},
	}
	return recs, map[string]bool{"f4-witness": true, "n=2-5": true, "nullkey": true, "subms": true}
}

func toHeaders(hs []rhdr) []protocol.Header {
	if len(hs) == 0 {
		return nil
	}
	o := make([]protocol.Header, len(hs))
	for i, h := range hs {
		o[i] = protocol.Header{Key: string(h.key), Value: h.val}
	}
	return o
}

func toMessages(recs []inRec) []kafka.Message {
	msgs := make([]kafka.Message, len(recs))
	for i, rc := range recs {
		msgs[i] = kafka.Message{
			Offset:  rc.off,
			Key:     rc.key,
			Value:   rc.val,
			Headers: toHeaders(rc.hdrs),
			Time:    time.Unix(0, rc.ns),
		}
	}
	return msgs
}

func toRecords(recs []inRec) []protocol.Record {
	o := make([]protocol.Record, len(recs))
	for i, rc := range recs {
		o[i] = protocol.Record{
			Offset:  rc.off,
			Time:    time.Unix(0, rc.ns),
			Headers: toHeaders(rc.hdrs),
		}
		if rc.key != nil {
			o[i].Key = protocol.NewBytes(rc.key)
		}
		if rc.val != nil {
			o[i].Value = protocol.NewBytes(rc.val)
		}
	}
	return o
}

func codecOf(c int) kafka.CompressionCodec {
	if c == 0 {
		return nil
	}
	return compress.Codecs[c]
}

// ------------------------------------------------------- looking at the output

// compressedPayload finds the compressed bytes in a record set written with a
// codec: format 2 keeps them after the set size and the 61 byte batch header,
// format 1 in the value of the (first) wrapper message.
func compressedPayload(ver int, set []byte) ([]byte, bool) {
	if ver == 2 {
		if len(set) < 4+61 {
			return nil, false
		}
		return set[4+61:], true
	}
	// size(4) offset(8) size(4) crc(4) magic(1) attributes(1) timestamp(8) key value
	p := 4 + 8 + 4 + 4 + 1 + 1 + 8
	if len(set) < p+4 {
		return nil, false
	}
	kl := int(int32(binary.BigEndian.Uint32(set[p:])))
	p += 4
	if kl > 0 {
		p += kl
	}
	if len(set) < p+4 {
		return nil, false
	}
	vl := int(int32(binary.BigEndian.Uint32(set[p:])))
	p += 4
	if vl < 0 || len(set) < p+vl {
		return nil, false
	}
	return set[p : p+vl], true
}

func outputOracle(ver, codec int, set []byte) []oracleEntry {
	if codec == 0 {
		return nil
	}
	comp, ok := compressedPayload(ver, set)
	if !ok {
		return nil
	}
	plain, err := refDecompress(codec, comp)
	if err != nil {
		return nil
	}
	return []oracleEntry{{codec, plain, comp}}
}

func okResult(set []byte) string {
	d := "."
	recs, err := decodeSet(set, decOpts{})
	if err != nil {
		d = err.Error()
	} else {
		d = drString(recs)
	}
	return "OK " + kvfmt.Bytes(set) + " D " + d
}

// cutRecordSet cuts the record set (int32 size and the bytes it announces) out
// of a produce request for one topic "t"-like name and one partition, and
// checks that the request ends with it.
func cutRecordSet(req []byte) ([]byte, string) {
	p := 0
	need := func(n int) bool { return len(req)-p >= n }
	if !need(4) {
		return nil, "short"
	}
	if int(int32(binary.BigEndian.Uint32(req))) != len(req)-4 {
		return nil, "reqsize"
	}
	p = 4
	if !need(8) {
		return nil, "short"
	}
	apiKey := int16(binary.BigEndian.Uint16(req[p:]))
	apiVersion := int16(binary.BigEndian.Uint16(req[p+2:]))
	if apiKey != 0 {
		return nil, "apikey"
	}
	p += 8 // api key, api version, correlation id
	str := func(nullable bool) bool {
		if !need(2) {
			return false
		}
		n := int(int16(binary.BigEndian.Uint16(req[p:])))
		p += 2
		if n < 0 {
			return nullable && n == -1
		}
		if !need(n) {
			return false
		}
		p += n
		return true
	}
	if !str(false) { // client id
		return nil, "clientid"
	}
	if apiVersion >= 3 && !str(true) { // transactional id
		return nil, "txnid"
	}
	if !need(6) { // acks, timeout
		return nil, "short"
	}
	p += 6
	if !need(4) || binary.BigEndian.Uint32(req[p:]) != 1 {
		return nil, "topics"
	}
	p += 4
	if !str(false) {
		return nil, "topic"
	}
	if !need(8) || binary.BigEndian.Uint32(req[p:]) != 1 || binary.BigEndian.Uint32(req[p+4:]) != 0 {
		return nil, "partitions"
	}
	p += 8
	if !need(4) {
		return nil, "short"
	}
	size := int(int32(binary.BigEndian.Uint32(req[p:])))
	if size < 0 || !need(4+size) {
		return nil, "setsize"
	}
	if len(req)-p != 4+size {
		return nil, "trailing"
	}
	return req[p:], ""
}

// ------------------------------------------------------------------------ wp

func runWP(ver, codec int, recs []inRec) (args string, res string) {
	now := int64(0)
	var oracle []oracleEntry
	defer func() {
		if p := recover(); p != nil {
			res = panicString(p)
		}
		args = fmt.Sprintf("%x %s %s %s %s", ver, kvfmt.U(uint64(codec)), kvfmt.I(now), oracleString(oracle), irString(recs))
	}()
	rs := protocol.RecordSet{
		Version:    int8(ver),
		Attributes: protocol.Attributes(codec),
		Records:    protocol.NewRecordReader(toRecords(recs)...),
	}
	buf := &bytes.Buffer{}
	if _, err := rs.WriteTo(buf); err != nil {
		if errors.Is(err, protocol.ErrNoRecord) {
			return "", "ERR norecord"
		}
		return "", "ERR other"
	}
	set := buf.Bytes()
	if ver == 1 && codec != 0 && len(set) >= 30 {
		now = int64(binary.BigEndian.Uint64(set[22:30]))
	}
	oracle = outputOracle(ver, codec, set)
	return "", okResult(set)
}

// ------------------------------------------------------------------------ wl

func runWL(ver, codec int, recs []inRec) (args string, res string) {
	var oracle []oracleEntry
	defer func() {
		if p := recover(); p != nil {
			res = panicString(p)
		}
		args = fmt.Sprintf("%x %s %s %s", ver, kvfmt.U(uint64(codec)), oracleString(oracle), irString(recs))
	}()
	versions := []int{2}
	if ver == 2 {
		versions = []int{7, 3}
	}
	var set []byte
	for i, pv := range versions {
		req, err := kafka.VerifProduceRequest(pv, codecOf(codec), toMessages(recs)...)
		if err != nil {
			return "", "ERR other"
		}
		s, why := cutRecordSet(req)
		if why != "" {
			return "", "ERR cut:" + why
		}
		if i == 0 {
			set = s
		} else if !bytes.Equal(set, s) {
			return "", "ERR v3v7differ"
		}
	}
	oracle = outputOracle(ver, codec, set)
	return "", okResult(set)
}

// ------------------------------------------------------------------------ wc

// fakeBroker answers ApiVersions (advertising produce up to maxProduce) and
// one Produce request, which it hands back whole (with its size prefix).
func fakeBroker(c net.Conn, maxProduce int16, got chan<- []byte) {
	defer close(got)
	br := bufio.NewReader(c)
	for {
		var szb [4]byte
		if _, err := io.ReadFull(br, szb[:]); err != nil {
			return
		}
		sz := int(int32(binary.BigEndian.Uint32(szb[:])))
		if sz < 8 || sz > 1<<28 {
			return
		}
		body := make([]byte, sz)
		if _, err := io.ReadFull(br, body); err != nil {
			return
		}
		apiKey := int16(binary.BigEndian.Uint16(body[0:]))
		apiVersion := int16(binary.BigEndian.Uint16(body[2:]))
		corr := body[4:8]

		var w wbuf
		w.i32(0) // size, patched below
		w.raw(corr)
		switch apiKey {
		case 18: // ApiVersions v0: error code, [api key, min, max]
			w.i16(0)
			w.i32(3)
			w.i16(0) // produce
			w.i16(0)
			w.i16(maxProduce)
			w.i16(1) // fetch
			w.i16(0)
			w.i16(10)
			w.i16(18) // api versions
			w.i16(0)
			w.i16(0)
		case 0: // Produce: [topic [partition error offset timestamp (start offset)]] throttle
			w.i32(1)
			w.i16(1)
			w.raw([]byte("t"))
			w.i32(1)
			w.i32(0)  // partition
			w.i16(0)  // error code
			w.i64(0)  // base offset
			w.i64(-1) // log append time
			if apiVersion >= 5 {
				w.i64(0) // log start offset
			}
			w.i32(0) // throttle time
		default:
			return
		}
		binary.BigEndian.PutUint32(w.b, uint32(len(w.b)-4))
		if apiKey == 0 {
			got <- append(szb[:], body...)
		}
		if _, err := c.Write(w.b); err != nil {
			return
		}
		if apiKey == 0 {
			return
		}
	}
}

func produceOverConn(maxProduce int16, codec kafka.CompressionCodec, msgs []kafka.Message) ([]byte, error) {
	cli, srv := net.Pipe()
	got := make(chan []byte, 1)
	go fakeBroker(srv, maxProduce, got)

	conn := kafka.NewConnWith(cli, kafka.ConnConfig{ClientID: "c", Topic: "t", Partition: 0})
	conn.SetDeadline(time.Now().Add(20 * time.Second))
	_, err := conn.WriteCompressedMessages(codec, msgs...)
	conn.Close()
	srv.Close()
	req := <-got
	if err != nil {
		return nil, err
	}
	if req == nil {
		return nil, errors.New("no produce request seen")
	}
	return req, nil
}

func runWC(ver, codec int, recs []inRec) (args string, res string) {
	var oracle []oracleEntry
	defer func() {
		if p := recover(); p != nil {
			res = panicString(p)
		}
		args = fmt.Sprintf("%x %s %s %s", ver, kvfmt.U(uint64(codec)), oracleString(oracle), irString(recs))
	}()
	maxProduce := int16(2)
	if ver == 2 {
		maxProduce = 7
	}
	req, err := produceOverConn(maxProduce, codecOf(codec), toMessages(recs))
	if err != nil {
		return "", "ERR other"
	}
	want := map[int16]int16{2: 2, 7: 7}[maxProduce]
	if len(req) < 8 || int16(binary.BigEndian.Uint16(req[6:])) != want {
		return "", "ERR produceversion"
	}
	set, why := cutRecordSet(req)
	if why != "" {
		return "", "ERR cut:" + why
	}
	oracle = outputOracle(ver, codec, set)
	return "", okResult(set)
}

// -------------------------------------------------------------------- driver

func writerFeats(ver, codec int, feat map[string]bool) string {
	feat[fmt.Sprintf("v%d", ver)] = true
	feat[fmt.Sprintf("codec=%d", codec)] = true
	return kvfmt.Set(feat)
}

func runWriter(op string, ver, codec int, recs []inRec, feat map[string]bool) {
	var args, res string
	switch op {
	case "wp":
		args, res = runWP(ver, codec, recs)
	case "wl":
		args, res = runWL(ver, codec, recs)
	default:
		args, res = runWC(ver, codec, recs)
	}
	emit(op, args, res, writerFeats(ver, codec, feat))
}

func writerCases(r *rand.Rand, n int, big int) {
	for _, op := range []string{"wl", "wc", "wp"} {
		recs, feat := f4Witness()
		runWriter(op, 2, 0, recs, feat)
	}
	ops := []string{"wp", "wl", "wc"}
	for i := 0; i < n; i++ {
		op := ops[i%3]
		ver := 1 + (i/3)%2
		codec := (i / 6) % 5
		recs, feat := genWriterRecs(r, op == "wp", false)
		runWriter(op, ver, codec, recs, feat)
	}
	for i := 0; i < big; i++ {
		op := ops[i%3]
		ver := 1 + (i/3)%2
		codec := (i / 6) % 5
		recs, feat := genWriterRecs(r, false, true)
		runWriter(op, ver, codec, recs, feat)
	}
}
