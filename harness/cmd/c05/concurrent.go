package main

// Concurrent producers.  The encoders are pure functions in the model; the code, however,
// draws its scratch buffers and compressors from pools (bufferPool in write.go /
// recordbatch.go, the codec writer pools in compress/*), so what one producer puts on the
// wire must also be right while OTHER producers encode at the same time.
//
//   legacy:   2..4 real Conns, each on its own net.Pipe with a scripted peer that reads the
//             produce request SLOWLY (pause after the first k bytes, k in {8, 100, 4096, 4097},
//             then small pieces), so that a producer sits in the middle of flushing its batch
//             while the others compress and write theirs.  Every request received is emitted
//             as an ordinary `wc` case: decoded by the reference decoder, compared with what
//             that Conn was given, and byte-exact with the model.
//   protocol: goroutines calling RecordSet.WriteTo (v1/v2, every codec) at the same time,
//             emitted as `wp` cases.
// Both under GOMAXPROCS 1, 2 and 8 (the pools have per-P slots).

import (
	"encoding/binary"
	"encoding/hex"
	"fmt"
	"io"
	"math/rand"
	"net"
	"runtime"
	"sync"
	"time"

	kafka "github.com/segmentio/kafka-go"
	"kverif/kvfmt"
)

type ccProducer struct {
	ver, codec int
	recs       []inRec
	pause      int // the peer pauses after this many bytes of the produce request
	piece      int // and then reads pieces of this size
	req        []byte
	err        error
	mid        chan struct{} // closed when the peer reached its pause point (or has everything)
	resume     chan struct{} // closed to let the peer go on
	done       chan struct{} // closed when WriteCompressedMessages returned
}

// slowBroker: ApiVersions answered at once; the produce request is read up to p.pause bytes,
// then the peer waits for p.resume, then reads the rest in small pieces.
func slowBroker(c net.Conn, maxProduce int16, p *ccProducer) {
	midOnce := sync.Once{}
	signalMid := func() { midOnce.Do(func() { close(p.mid) }) }
	defer signalMid()
	for {
		var head [8]byte // size, api key, api version
		if _, err := io.ReadFull(c, head[:]); err != nil {
			return
		}
		sz := int(int32(binary.BigEndian.Uint32(head[:])))
		if sz < 8 || sz > 1<<28 {
			return
		}
		apiKey := int16(binary.BigEndian.Uint16(head[4:]))
		apiVersion := int16(binary.BigEndian.Uint16(head[6:]))
		req := make([]byte, 4+sz)
		copy(req, head[:])
		got := 8
		if apiKey == 0 {
			if p.pause > got {
				n := p.pause
				if n > len(req) {
					n = len(req)
				}
				if _, err := io.ReadFull(c, req[got:n]); err != nil {
					return
				}
				got = n
			}
			signalMid()
			select {
			case <-p.resume:
			case <-time.After(10 * time.Second):
				return
			}
			for got < len(req) {
				n := got + p.piece
				if n > len(req) {
					n = len(req)
				}
				if _, err := io.ReadFull(c, req[got:n]); err != nil {
					return
				}
				got = n
				runtime.Gosched()
			}
		} else if _, err := io.ReadFull(c, req[got:]); err != nil {
			return
		}
		corr := req[8:12]
		var w wbuf
		w.i32(0)
		w.raw(corr)
		switch apiKey {
		case 18:
			w.i16(0)
			w.i32(3)
			w.i16(0)
			w.i16(0)
			w.i16(maxProduce)
			w.i16(1)
			w.i16(0)
			w.i16(10)
			w.i16(18)
			w.i16(0)
			w.i16(0)
		case 0:
			w.i32(1)
			w.i16(1)
			w.raw([]byte("t"))
			w.i32(1)
			w.i32(0)
			w.i16(0)
			w.i64(0)
			w.i64(-1)
			if apiVersion >= 5 {
				w.i64(0)
			}
			w.i32(0)
		default:
			return
		}
		binary.BigEndian.PutUint32(w.b, uint32(len(w.b)-4))
		if apiKey == 0 {
			p.req = req
		}
		if _, err := c.Write(w.b); err != nil {
			return
		}
		if apiKey == 0 {
			return
		}
	}
}

func (p *ccProducer) run() {
	defer close(p.done)
	cli, srv := net.Pipe()
	maxProduce := int16(2)
	if p.ver == 2 {
		maxProduce = 7
	}
	brokerDone := make(chan struct{})
	go func() { defer close(brokerDone); slowBroker(srv, maxProduce, p) }()
	conn := kafka.NewConnWith(cli, kafka.ConnConfig{ClientID: "c", Topic: "t", Partition: 0})
	conn.SetDeadline(time.Now().Add(20 * time.Second))
	_, p.err = conn.WriteCompressedMessages(codecOf(p.codec), toMessages(p.recs)...)
	conn.Close()
	srv.Close()
	<-brokerDone
}

func waitOr(ch <-chan struct{}, other <-chan struct{}) {
	select {
	case <-ch:
	case <-other:
	case <-time.After(15 * time.Second):
	}
}

// incompressible values, different for every producer
func ccRecs(r *rand.Rand, large bool) []inRec {
	n := 1 + r.Intn(5)
	total := 200 + r.Intn(1300)
	if large {
		total = 6000 + r.Intn(26000)
	}
	recs := make([]inRec, n)
	ns := baseMs*1_000_000 + int64(r.Intn(1_000_000_000))*1000
	for i := range recs {
		v := make([]byte, total/n+r.Intn(50))
		r.Read(v)
		var k []byte
		if r.Intn(3) != 0 {
			k = make([]byte, 1+r.Intn(12))
			r.Read(k)
		}
		ns += int64(r.Intn(5_000_000))
		recs[i] = inRec{ns: ns, key: k, val: v}
	}
	return recs
}

func legacyRound(r *rand.Rand, gmp int, round int) {
	k := 2 + r.Intn(3)
	nested := round%3 != 2
	ps := make([]*ccProducer, k)
	for i := range ps {
		ver := 2
		if r.Intn(4) == 0 {
			ver = 1
		}
		codec := 1 + r.Intn(4)
		if r.Intn(8) == 0 {
			codec = 0
		}
		large := i == 0 || r.Intn(3) != 0
		ps[i] = &ccProducer{ver: ver, codec: codec, recs: ccRecs(r, large),
			pause: []int{8, 100, 4096, 4097}[r.Intn(4)], piece: []int{64, 512, 1460}[r.Intn(3)],
			mid: make(chan struct{}), resume: make(chan struct{}), done: make(chan struct{})}
	}
	if nested {
		// producer i is parked in the middle of its request while producers i+1.. run; the
		// last one completes first, then the others resume in reverse order
		for i, p := range ps {
			if i == len(ps)-1 {
				close(p.resume)
			}
			go p.run()
			waitOr(p.mid, p.done)
		}
		for i := len(ps) - 1; i >= 0; i-- {
			if i != len(ps)-1 {
				close(ps[i].resume)
			}
			waitOr(ps[i].done, nil)
		}
	} else {
		// all at once, the peers only being slow
		for _, p := range ps {
			close(p.resume)
			go p.run()
		}
		for _, p := range ps {
			waitOr(p.done, nil)
		}
	}
	for i, p := range ps {
		feat := map[string]bool{"concurrent": true, fmt.Sprintf("gmp=%d", gmp): true, fmt.Sprintf("producers=%d", k): true,
			fmt.Sprintf("pause=%d", p.pause): true}
		if nested {
			feat["nested"] = true
			if i < len(ps)-1 {
				feat["parked"] = true
			}
		} else {
			feat["free"] = true
		}
		var oracle []oracleEntry
		res := ""
		switch {
		case p.err != nil:
			res = "ERR other"
		case p.req == nil:
			res = "ERR norequest"
		default:
			set, why := cutRecordSet(p.req)
			if why != "" {
				res = "ERR cut:" + why
			} else {
				if len(set) > 4096 {
					feat["above4k"] = true
				} else {
					feat["below4k"] = true
				}
				oracle = outputOracle(p.ver, p.codec, set)
				res = okResult(set)
			}
		}
		args := fmt.Sprintf("%x %s %s %s", p.ver, kvfmt.U(uint64(p.codec)), oracleString(oracle), irString(p.recs))
		emit("wc", args, res, writerFeats(p.ver, p.codec, feat))
	}
}

type ccProto struct {
	ver, codec int
	recs       []inRec
	args, res  string
}

func protoRound(r *rand.Rand, gmp int, G, iters int) {
	jobs := make([][]*ccProto, G)
	for g := range jobs {
		for i := 0; i < iters; i++ {
			ver := 1 + r.Intn(2)
			codec := r.Intn(5)
			if r.Intn(3) == 0 { // the codec writers with the most pooling
				ver, codec = 1, 2
			}
			recs, _ := genWriterRecs(r, false, false)
			if len(recs) > 6 {
				recs = recs[:6]
			}
			jobs[g] = append(jobs[g], &ccProto{ver: ver, codec: codec, recs: recs})
		}
	}
	start := make(chan struct{})
	var wg sync.WaitGroup
	for g := range jobs {
		wg.Add(1)
		go func(js []*ccProto) {
			defer wg.Done()
			<-start
			for _, j := range js {
				j.args, j.res = runWP(j.ver, j.codec, j.recs)
			}
		}(jobs[g])
	}
	close(start)
	wg.Wait()
	for g := range jobs {
		for i, j := range jobs[g] {
			// print a sample, and everything the reference decoder does not map back to the input
			bad := false
			if set, ok := okSet(j.res); ok {
				recs, err := decodeSet(set, decOpts{})
				bad = err != nil || len(recs) != len(j.recs)
				for x := 0; !bad && x < len(recs); x++ {
					bad = string(recs[x].key) != string(j.recs[x].key) || string(recs[x].val) != string(j.recs[x].val)
				}
			} else {
				bad = true
			}
			if !bad && (i+g)%4 != 0 {
				id++
				continue
			}
			feat := map[string]bool{"concurrent": true, fmt.Sprintf("gmp=%d", gmp): true, fmt.Sprintf("goroutines=%d", G): true}
			emit("wp", j.args, j.res, writerFeats(j.ver, j.codec, feat))
		}
	}
}

// okSet extracts the bytes of an "OK <hex> D ..." result.
func okSet(res string) ([]byte, bool) {
	if len(res) < 4 || res[:3] != "OK " {
		return nil, false
	}
	h := res[3:]
	for i := 0; i < len(h); i++ {
		if h[i] == ' ' {
			h = h[:i]
			break
		}
	}
	if h == "." {
		return nil, true
	}
	b, err := hex.DecodeString(h)
	return b, err == nil
}

// concurrentCases: `rounds` legacy rounds and one protocol round per GOMAXPROCS value.
func concurrentCases(r *rand.Rand, rounds int) {
	if rounds <= 0 {
		return
	}
	if only != "" && only != "wc" && only != "wp" {
		return
	}
	prev := runtime.GOMAXPROCS(0)
	defer runtime.GOMAXPROCS(prev)
	for _, gmp := range []int{1, 2, 8} {
		runtime.GOMAXPROCS(gmp)
		for i := 0; i < rounds; i++ {
			legacyRound(r, gmp, i)
		}
		protoRound(r, gmp, 2+gmp, 24)
	}
}
