package main

// pgr: page-operation sequences that interleave pageBuffer.Write, pageBuffer.ReadFrom (readers
// delivering their data in arbitrary chunkings), Ref / Unref / Close, with a digest of the
// whole page state after EVERY real operation (a "ck" op), compared with the extracted model
// (step / pb_read_from of Model/Pages.v).
//
//   rdf:<b>:<hexdata>:<src>:<n>.<nil|err>   pb.ReadFrom(r) on buffer b: the bytes the reader
//        holds (EOF readers: all of them — ReadFrom must drain the reader; failing readers:
//        what they hand out before the error), the pages newPage() returned in order
//        (`f` fresh / page id from the pool, `.` none), the returned count and error class
//   ck   digest: per buffer `x` (unref'ed) or <page>.<offset>.<length>_… `#`<fnv32 of content>
//        (`-` for no page), buffers joined by `,`, then `/` and the refcounts of all pages;
//        after an rdf additionally `=<n>.<nil|err>`

import (
	"errors"
	"fmt"
	"io"
	"math/rand"
	"runtime"
	"runtime/debug"
	"strings"

	"github.com/segmentio/kafka-go/protocol"
	"kverif/kvfmt"
)

var errBoom = errors.New("boom")

func fnv32(h uint32, b []byte) uint32 {
	for _, c := range b {
		h = (h ^ uint32(c)) * 16777619
	}
	return h
}

func (c *pgCase) digest() string {
	bs := make([]string, len(c.bufs))
	for i, b := range c.bufs {
		if !b.alive {
			bs[i] = "x"
			continue
		}
		pgs := b.vb.Pages()
		h := uint32(2166136261)
		ps := make([]string, len(pgs))
		for j, p := range pgs {
			id, known := c.pageID[p.Handle]
			if !known {
				id = 0xffffff
			}
			ps[j] = kvfmt.U(uint64(id)) + "." + kvfmt.U(uint64(p.Offset)) + "." + kvfmt.U(uint64(p.Length))
			h = fnv32(h, p.Handle.Data(0, p.Length))
		}
		s := "-"
		if len(ps) > 0 {
			s = strings.Join(ps, "_")
		}
		bs[i] = s + "#" + kvfmt.U(uint64(h))
	}
	refcs := "."
	if len(c.pages) > 0 {
		s := make([]string, len(c.pages))
		for i, h := range c.pages {
			refc, _ := protocol.VerifPageState(h)
			s[i] = kvfmt.U(uint64(refc))
		}
		refcs = strings.Join(s, ",")
	}
	return strings.Join(bs, ",") + "/" + refcs
}

// chunkReader hands out data in the given chunk sizes (0 = a zero-length read with a nil
// error), then ends with io.EOF or a sticky error, either on its own or together with the
// last bytes.
type chunkReader struct {
	data      []byte
	chunks    []int
	fail      error // io.EOF or errBoom
	together  bool  // the final error comes with the last chunk (n > 0, err)
	delivered int
	done      bool
}

func (r *chunkReader) Read(p []byte) (int, error) {
	if r.done {
		return 0, r.fail
	}
	if len(p) == 0 {
		return 0, nil
	}
	n := len(r.data)
	if len(r.chunks) > 0 {
		n = r.chunks[0]
		r.chunks = r.chunks[1:]
	}
	if n > len(r.data) {
		n = len(r.data)
	}
	if n > len(p) { // keep the rest of the chunk for the next call
		r.chunks = append([]int{n - len(p)}, r.chunks...)
		n = len(p)
	}
	copy(p, r.data[:n])
	r.data = r.data[n:]
	r.delivered += n
	if len(r.data) == 0 && (len(r.chunks) == 0 || r.together) {
		if r.together && n > 0 {
			r.done = true
			return n, r.fail
		}
		if len(r.chunks) == 0 && n == 0 {
			r.done = true
			return 0, r.fail
		}
	}
	return n, nil
}

// chunking of size bytes for a buffer that currently holds cur bytes
func (c *pgCase) pickChunks(cur, size int) []int {
	r := c.r
	var chunks []int
	toBoundary := pgPageSize - cur%pgPageSize // bytes until the next page boundary
	left := size
	add := func(n int) {
		if n > left {
			n = left
		}
		if n < 0 {
			n = 0
		}
		chunks = append(chunks, n)
		left -= n
		if n > 0 {
			toBoundary -= n
			for toBoundary <= 0 {
				toBoundary += pgPageSize
			}
		}
	}
	switch r.Intn(5) {
	case 0: // one piece
		add(size)
	case 1: // first chunk ends exactly at / one before / one after the page boundary
		add(toBoundary + r.Intn(3) - 1)
		c.feat["rf-boundary"] = true
	default:
	}
	for left > 0 {
		switch x := r.Intn(10); {
		case x == 0:
			chunks = append(chunks, 0)
			c.feat["rf-zero"] = true
		case x < 3:
			add(toBoundary + r.Intn(3) - 1)
			c.feat["rf-boundary"] = true
		case x < 6:
			add(1 + r.Intn(100))
		case x < 8:
			add(1000 + r.Intn(20000))
		default:
			add(left)
		}
		if len(chunks) > 40 {
			add(left)
		}
	}
	if r.Intn(4) == 0 {
		chunks = append(chunks, 0)
		c.feat["rf-zero"] = true
	}
	return chunks
}

func (c *pgCase) readFrom(bi int, size int) {
	r := c.r
	b := c.bufs[bi]
	bs := kvfmt.U(uint64(bi))
	data := make([]byte, size)
	c.wctr++
	pgFill(data, c.wctr, len(b.shadow))
	rd := &chunkReader{data: append([]byte(nil), data...), chunks: c.pickChunks(len(b.shadow), size), fail: io.EOF}
	if r.Intn(5) == 0 {
		rd.fail = errBoom
		c.feat["rf-err"] = true
	}
	if r.Intn(3) == 0 && size > 0 {
		rd.together = true
		// (n > 0, err) together: drop trailing zero-length reads so that the last bytes carry it
		for len(rd.chunks) > 0 && rd.chunks[len(rd.chunks)-1] == 0 {
			rd.chunks = rd.chunks[:len(rd.chunks)-1]
		}
		c.feat["rf-errwithdata"] = true
	}
	c.feat["readfrom"] = true
	if size == 0 {
		c.feat["rf-empty"] = true
	}
	if len(b.shadow)%pgPageSize != 0 {
		c.feat["rf-partial"] = true
		if len(b.shadow)%pgPageSize+size > pgPageSize {
			c.feat["rf-partial-cross"] = true
		}
	}

	before := b.vb.Pages()
	n, err := b.vb.ReadFrom(rd)
	after := b.vb.Pages()
	if len(after) < len(before) || len(before) != len(b.pages) {
		c.fail("GENBUG:page-list-shrunk")
		return
	}
	var got []byte
	for i, p := range before {
		a := after[i]
		if a.Handle != p.Handle || a.Offset != p.Offset {
			c.fail("GENBUG:page-replaced")
			return
		}
		if a.Length != p.Length {
			if i != len(before)-1 || a.Length < p.Length {
				c.fail("GENBUG:non-tail-page-changed")
				return
			}
			got = append(got, a.Handle.Data(p.Length, a.Length)...)
		}
	}
	var src []string
	for _, a := range after[len(before):] {
		id, known := c.pageID[a.Handle]
		if known {
			c.feat["poolreuse"] = true
			c.feat["rf-poolreuse"] = true
			c.released[id] = -1
			src = append(src, kvfmt.U(uint64(id)))
		} else {
			id = len(c.pages)
			c.pages = append(c.pages, a.Handle)
			c.pageID[a.Handle] = id
			c.released = append(c.released, -1)
			src = append(src, "f")
		}
		b.pages = append(b.pages, id)
		got = append(got, a.Handle.Data(0, a.Length)...)
	}
	class := "nil"
	if err != nil {
		class = "err"
	}
	want := "nil"
	if rd.fail != io.EOF {
		want = "err"
	}
	// what a correct ReadFrom must have consumed: everything up to the reader's end
	if int(n) != len(got) || string(got) != string(data[:len(got)]) {
		c.fail("GENBUG:readfrom-bytes:%d/%d", n, len(got))
	}
	if len(got) != size || class != want {
		c.fail("SHORTREAD:%s:read=%s:of=%s:err=%s/%s", kvfmt.U(uint64(len(c.ops))), kvfmt.U(uint64(len(got))), kvfmt.U(uint64(size)), class, want)
	}
	s := "."
	if len(src) > 0 {
		s = strings.Join(src, ",")
	}
	c.op("rdf:" + bs + ":" + kvfmt.Bytes(data) + ":" + s + ":" + kvfmt.U(uint64(size)) + "." + want)
	c.suffix = "=" + kvfmt.U(uint64(n)) + "." + class
	b.shadow = append(b.shadow, got...)
	c.written += size
	if b.vb.Size() != int64(len(b.shadow)) {
		c.fail("GENBUG:buffer-size")
	}
	c.observe()
}

// writeAt: pb.WriteAt over a range inside the buffer (back-patching), when the hook offers it.
type writerAt interface {
	WriteAt(b []byte, off int64) (int, error)
}

func (c *pgCase) writeAt(bi int) bool {
	r := c.r
	b := c.bufs[bi]
	wa, ok := interface{}(b.vb).(writerAt)
	size := len(b.shadow)
	if !ok || size == 0 {
		return false
	}
	np := size / pgPageSize
	var off, n int
	switch x := r.Intn(100); {
	case x < 20 || np == 0: // anywhere, short
		off = r.Intn(size)
		n = 1 + r.Intn(12)
	case x < 40: // ends exactly on a page boundary
		n = 1 + r.Intn(12)
		off = (1+r.Intn(np))*pgPageSize - n
	case x < 55: // starts exactly on a page boundary
		off = (1 + r.Intn(np)) * pgPageSize
		n = 1 + r.Intn(12)
	case x < 85: // straddles a page boundary
		n = 2 + r.Intn(11)
		off = (1+r.Intn(np))*pgPageSize - 1 - r.Intn(n-1)
	case x < 95 && np >= 2: // spans three pages
		k := 1 + r.Intn(np-1)
		off = k*pgPageSize - 1 - r.Intn(40)
		n = (k+1)*pgPageSize + 1 + r.Intn(40) - off
		c.feat["wa-3pages"] = true
	default: // everything
		off, n = 0, size
	}
	if off < 0 {
		off = 0
	}
	if off+n > size {
		n = size - off
	}
	if n <= 0 {
		return false
	}
	data := make([]byte, n)
	c.wctr++
	pgFill(data, c.wctr+77, off)
	before := b.vb.Pages()
	wn, err := wa.WriteAt(data, int64(off))
	after := b.vb.Pages()
	if wn != n || err != nil {
		c.fail("GENBUG:writeat-result:%d/%d", wn, n)
	}
	if len(after) != len(before) || b.vb.Size() != int64(size) {
		c.fail("GENBUG:writeat-changed-layout")
	}
	copy(b.shadow[off:], data)
	c.feat["writeat"] = true
	if off/pgPageSize != (off+n-1)/pgPageSize {
		c.feat["wa-straddle"] = true
	}
	if (off+n)%pgPageSize == 0 {
		c.feat["wa-ends-on-boundary"] = true
	}
	if off%pgPageSize == 0 && off > 0 {
		c.feat["wa-starts-on-boundary"] = true
	}
	for _, rf := range c.refs {
		if rf.buf == bi && !rf.closed && int(rf.begin) < off+n && off < int(rf.end) {
			rf.first = append([]byte(nil), b.shadow[rf.begin:rf.end]...) // the owner rewrote bytes under the ref
			c.feat["wa-under-ref"] = true
		}
	}
	c.op("wat:" + kvfmt.U(uint64(bi)) + ":" + kvfmt.U(uint64(off)) + ":" + kvfmt.Bytes(data))
	c.observe()
	return true
}

func (c *pgCase) stepRF() int {
	r := c.r
	alive := c.aliveBufs()
	if len(alive) == 0 {
		c.newBuf()
		return 1
	}
	if r.Intn(100) < 25 {
		if c.writeAt(alive[r.Intn(len(alive))]) {
			return 1
		}
	}
	if r.Intn(100) < 45 {
		bi := alive[r.Intn(len(alive))]
		b := c.bufs[bi]
		var size int
		switch x := r.Intn(100); {
		case x < 5:
			size = 0
		case x < 25:
			size = 1 + r.Intn(100)
		case x < 45: // up to the page boundary, give or take one
			size = pgPageSize - len(b.shadow)%pgPageSize + r.Intn(3) - 1
		case x < 80: // across the boundary
			size = pgPageSize - len(b.shadow)%pgPageSize + 1 + r.Intn(20000)
		default:
			size = 2*pgPageSize + r.Intn(300)
		}
		if c.written+size > pgWriteCap {
			size = r.Intn(100)
		}
		c.readFrom(bi, size)
		return 1
	}
	return c.step()
}

func runPageRFCase(r *rand.Rand) {
	defer debug.SetGCPercent(debug.SetGCPercent(-1))
	c := &pgCase{r: r, pageID: map[protocol.VerifPageHandle]int{}, feat: map[string]bool{}, tracing: true}
	res := ""
	func() {
		defer func() {
			if p := recover(); p != nil {
				res = panicString(p)
			}
		}()
		c.newBuf()
		if r.Intn(2) == 0 { // a partly filled tail page to start with
			c.write(0, 1+r.Intn(3000))
		}
		n := 4 + r.Intn(16)
		for a := 0; a < n && c.bad == ""; {
			a += c.stepRF()
		}
		if c.bad != "" {
			res = c.bad
		} else {
			res = strings.Join(c.trace, ";") + " " + c.result()
		}
	}()
	emit("pgr", strings.Join(c.ops, ";"), res, kvfmt.Set(c.feat))
}

func pageRFCases(r *rand.Rand, n int) {
	if n <= 0 {
		return
	}
	if only != "" && only != "pgr" {
		id += n
		return
	}
	defer runtime.GOMAXPROCS(runtime.GOMAXPROCS(1))
	runtime.LockOSThread()
	defer runtime.UnlockOSThread()
	for i := 0; i < n; i++ {
		runPageRFCase(r)
	}
	_ = fmt.Sprint
}
