package main

import (
	"bufio"
	"bytes"
	"errors"
	"fmt"
	"io"
	"math/rand"

	kafka "github.com/segmentio/kafka-go"
	"github.com/segmentio/kafka-go/protocol"
	"kverif/kvfmt"
)

// gItem is one item of a generated fetch response: a plain message, a wrapper
// message or a record batch.
type gItem struct {
	kind    string // v0, v1, v1wrap, v2
	control bool
	recs    []rrec  // what a consumer is meant to see (absolute offsets); none for control batches
	offs    []int64 // absolute offsets of all records the item holds
	enc     encoded
}

type readerGen struct {
	r      *rand.Rand
	feat   map[string]bool
	oracle []oracleEntry
	next   int64 // next free absolute offset
	tsBase int64
}

func (g *readerGen) gap() int64 {
	if g.r.Intn(10) < 7 {
		return 0
	}
	return 1 + int64(g.r.Intn(5))
}

func (g *readerGen) key() []byte {
	switch x := g.r.Intn(20); {
	case x < 5:
		return nil
	case x < 7:
		return []byte{}
	default:
		return genContent(g.r, 1+g.r.Intn(16))
	}
}

func (g *readerGen) val() []byte {
	switch x := g.r.Intn(20); {
	case x < 2:
		return nil
	case x < 4:
		return []byte{}
	case x < 19:
		return genContent(g.r, 1+g.r.Intn(30))
	default:
		return genContent(g.r, 200+g.r.Intn(200))
	}
}

func (g *readerGen) plain(magic int8) gItem {
	k, v := g.key(), g.val()
	ts := int64(0)
	if magic == 1 {
		ts = g.tsBase + int64(g.r.Intn(100000))
	}
	off := g.next
	g.next += 1 + g.gap()
	contentFeats(g.feat, k, v, nil)
	kind := fmt.Sprintf("v%d", magic)
	g.feat[kind] = true
	return gItem{
		kind: kind,
		recs: []rrec{{off: off, ts: ts, key: k, val: v}},
		offs: []int64{off},
		enc:  encodeMessage(magic, off, 0, ts, k, v),
	}
}

func (g *readerGen) wrapper(codec int, holes bool, minN int) (gItem, error) {
	n := 1 + g.r.Intn(6)
	if n < minN {
		n = minN
	}
	if holes && n < 2 {
		n = 2
	}
	stored := make([]int64, n)
	if holes {
		s := int64(0)
		if g.r.Intn(5) == 0 {
			s = 1 + int64(g.r.Intn(3))
		}
		hole := 1 + g.r.Intn(n-1) // this step is certainly wider than one
		for i := range stored {
			if i > 0 {
				s += 1 + int64(g.r.Intn(3))
				if i == hole {
					s += 1 + int64(g.r.Intn(2))
				}
			}
			stored[i] = s
		}
		g.feat["v1holes"] = true
	} else {
		for i := range stored {
			stored[i] = int64(i)
		}
	}
	it := gItem{kind: "v1wrap"}
	var inner []byte
	ts := g.tsBase + int64(g.r.Intn(100000))
	for i := 0; i < n; i++ {
		k, v := g.key(), g.val()
		ts += int64(g.r.Intn(50))
		contentFeats(g.feat, k, v, nil)
		inner = append(inner, encodeMessage(1, stored[i], 0, ts, k, v).b...)
		abs := g.next + stored[i]
		it.recs = append(it.recs, rrec{off: abs, ts: ts, key: k, val: v})
		it.offs = append(it.offs, abs)
	}
	wrapperOff := g.next + stored[n-1]
	g.next = wrapperOff + 1 + g.gap()
	enc, err := encodeWrapper(codec, wrapperOff, ts, inner, &g.oracle)
	if err != nil {
		return it, err
	}
	it.enc = enc
	g.feat["v1wrap"] = true
	g.feat[fmt.Sprintf("codec=%d", codec)] = true
	return it, nil
}

func (g *readerGen) batch(codec int, control bool, minN int) (gItem, error) {
	r := g.r
	n := 1 + r.Intn(8)
	if n < minN {
		n = minN
	}
	gaps := !control && r.Intn(4) == 0
	if control {
		n = 1
		codec = 0
	}
	txn := control || r.Intn(7) == 0

	d := batchDesc{
		base:          g.next,
		leaderEpoch:   int32(r.Intn(12)) - 1,
		attrs:         int16(codec),
		firstTs:       g.tsBase + int64(r.Intn(100000)),
		producerID:    -1,
		producerEpoch: -1,
		baseSequence:  -1,
	}
	if txn {
		d.attrs |= 1 << 4
		d.producerID = int64(1000 + r.Intn(1000))
		d.producerEpoch = int16(r.Intn(5))
		d.baseSequence = int32(r.Intn(100))
		g.feat["txn"] = true
	}
	if control {
		d.attrs |= 1 << 5
		d.baseSequence = -1
		g.feat["control"] = true
	}
	if gaps {
		g.feat["gaps"] = true
	}
	it := gItem{kind: "v2", control: control}
	delta := int64(0)
	if gaps && r.Intn(3) == 0 {
		delta = 1 + int64(r.Intn(2))
	}
	d.maxTs = -1 << 62
	for i := 0; i < n; i++ {
		if i > 0 {
			delta++
			if gaps {
				delta += int64(r.Intn(3))
			}
		}
		var br batchRec
		br.offDelta = delta
		if (i > 0 || r.Intn(5) == 0) && r.Intn(4) != 0 {
			br.tsDelta = int64(r.Intn(2001)) - 1000
		}
		if control {
			br.key = []byte{0, 0, 0, byte(r.Intn(2))}
			br.val = []byte{}
			if r.Intn(2) == 0 {
				br.val = []byte{0, 0, 0, 0, 0, byte(r.Intn(8))}
			}
		} else {
			br.key, br.val, br.hdrs = g.key(), g.val(), genHeaders(r)
			contentFeats(g.feat, br.key, br.val, br.hdrs)
		}
		d.recs = append(d.recs, br)
		ts := d.firstTs + br.tsDelta
		if ts > d.maxTs {
			d.maxTs = ts
		}
		it.offs = append(it.offs, d.base+delta)
		if !control {
			it.recs = append(it.recs, rrec{off: d.base + delta, ts: ts, key: br.key, val: br.val, hdrs: br.hdrs})
		}
	}
	d.lastOffsetDelta = int32(delta)
	if gaps && r.Intn(2) == 0 {
		d.lastOffsetDelta += int32(1 + r.Intn(3))
	}
	g.next = d.base + int64(d.lastOffsetDelta) + 1 + g.gap()
	enc, err := encodeBatch(d, &g.oracle)
	if err != nil {
		return it, err
	}
	it.enc = enc
	g.feat["v2"] = true
	g.feat[fmt.Sprintf("codec=%d", codec)] = true
	return it, nil
}

// ------------------------------------------------------------ the real readers

func fromHeaders(hs []protocol.Header) []rhdr {
	var o []rhdr
	for _, h := range hs {
		o = append(o, rhdr{key: []byte(h.Key), val: h.Value})
	}
	return o
}

// runP reads the set the way Client.Fetch consumers do.
func runP(set []byte) string {
	var recs []rrec
	status := "err"
	func() {
		defer func() {
			if p := recover(); p != nil {
				status = "panic"
			}
		}()
		var rs protocol.RecordSet
		if _, err := rs.ReadFrom(bufio.NewReader(bytes.NewReader(set))); err != nil {
			return
		}
		if rs.Records == nil {
			status = "ok"
			return
		}
		for len(recs) < 100000 {
			rec, err := rs.Records.ReadRecord()
			if err != nil {
				if errors.Is(err, io.EOF) {
					status = "ok"
				}
				return
			}
			k, kerr := protocol.ReadAll(rec.Key)
			v, verr := protocol.ReadAll(rec.Value)
			if rec.Key != nil {
				rec.Key.Close()
			}
			if rec.Value != nil {
				rec.Value.Close()
			}
			if kerr != nil || verr != nil {
				return
			}
			recs = append(recs, rrec{
				off:  rec.Offset,
				ts:   rec.Time.UnixNano() / 1000000,
				key:  k,
				val:  v,
				hdrs: fromHeaders(rec.Headers),
			})
		}
	}()
	return drString(recs) + "!" + status
}

// runM reads the set the way Conn.ReadBatch / Reader consumers do.
func runM(set []byte, min int64) string {
	var recs []rrec
	status := "err"
	func() {
		defer func() {
			if p := recover(); p != nil {
				recs = nil
				status = "panic"
			}
		}()
		msgs, err := kafka.VerifReadMessageSet(set[4:], min)
		for _, m := range msgs {
			ts := int64(0)
			if !m.Time.IsZero() {
				ts = m.Time.UnixNano() / 1000000
			}
			recs = append(recs, rrec{off: m.Offset, ts: ts, key: m.Key, val: m.Value, hdrs: fromHeaders(m.Headers)})
		}
		switch {
		case errors.Is(err, io.EOF):
			status = "eof"
		case kafka.VerifIsShortRead(err):
			status = "short"
		}
	}()
	return drString(recs) + "!" + status
}

// ------------------------------------------------------------------ one case

func genReaderCase(r *rand.Rand, holes bool) (args, res, feats string) {
	g := &readerGen{r: r, feat: map[string]bool{}}
	wantCrc := r.Intn(100) < 15
	wantHoles := r.Intn(100) < 5 && holes
	wantMid := r.Intn(100) < 5
	nItems := 1 + r.Intn(4)

	switch r.Intn(6) {
	case 0:
		g.next = 0
	case 1:
		g.next = 1<<32 + int64(r.Intn(1_000_000))
	default:
		g.next = int64(r.Intn(1_000_001))
	}
	g.tsBase = baseMs + int64(r.Intn(1_000_000_000))

	// how many leading items use the old formats
	var nOld int
	switch x := r.Intn(10); {
	case x < 5:
		nOld = 0
	case x < 8:
		nOld = nItems
	default:
		nOld = r.Intn(nItems + 1)
	}
	if rdFetchVersion >= 0 && rdFetchVersion < 4 {
		nOld = nItems // Fetch v0..v3 responses carry message sets of format 0/1 only
	}
	if wantHoles && nOld == 0 {
		nOld = 1 + r.Intn(nItems)
	}
	holesAt := -1
	if wantHoles {
		holesAt = r.Intn(nOld)
	}

	var items []gItem
	for i := 0; i < nItems; i++ {
		minN := 1
		if wantMid && i == 0 {
			minN = 2
		}
		var it gItem
		var err error
		if i < nOld {
			x := r.Intn(4)
			switch {
			case i == holesAt:
				it, err = g.wrapper(1+r.Intn(4), true, minN)
			case x >= 2 || minN > 1:
				it, err = g.wrapper(1+r.Intn(4), false, minN)
			case x == 0:
				it = g.plain(0)
			default:
				it = g.plain(1)
			}
		} else {
			control := r.Intn(10) == 0 && minN == 1
			it, err = g.batch(r.Intn(5), control, minN)
		}
		if err != nil {
			return ".", "GENBUG:encode:" + panicString(err), ""
		}
		items = append(items, it)
	}
	g.feat[fmt.Sprintf("items=%d", nItems)] = true

	raw := make([][]byte, nItems)
	total := 0
	for i, it := range items {
		raw[i] = it.enc.b
		total += len(it.offs)
	}
	clean := encodeSet(raw...)
	if recs, err := decodeSet(clean, decOpts{lenientLastOffsetDelta: true}); err != nil || len(recs) != total {
		return ".", fmt.Sprintf("GENBUG:selfdecode:%v:%d/%d", err, len(recs), total), ""
	}

	// corruption of one item
	bad := nItems
	if wantCrc {
		bad = r.Intn(nItems)
		e := items[bad].enc
		b := clone(e.b)
		if len(e.content) > 0 && r.Intn(2) == 0 {
			b[e.content[r.Intn(len(e.content))]] ^= 1 << uint(r.Intn(8))
			g.feat["crcpayload"] = true
		} else {
			b[e.crcPos+r.Intn(4)] ^= 1 << uint(r.Intn(8))
			g.feat["crcfield"] = true
		}
		raw[bad] = b
		g.feat["crcbad"] = true
		if bad == 0 {
			g.feat["crcbad-first"] = true
		} else {
			g.feat["crcbad-later"] = true
		}
	}
	set := encodeSet(raw...)
	if wantCrc {
		if _, err := decodeSet(set, decOpts{lenientLastOffsetDelta: true}); err == nil || err.Error() != "REJECT:crc" {
			return ".", fmt.Sprintf("GENBUG:corruption-not-detected:%v", err), ""
		}
	}

	// fetch offset
	min := items[0].offs[0]
	if wantMid && len(items[0].offs) >= 2 {
		min = items[0].offs[1+r.Intn(len(items[0].offs)-1)]
		g.feat["min>first"] = true
	}

	// what the consumer is meant to see
	var expect []rrec
	for i, it := range items {
		if i >= bad {
			break
		}
		expect = append(expect, it.recs...)
	}

	args = kvfmt.I(min) + " " + oracleString(g.oracle) + " " + kvfmt.Bytes(set)
	p := ""
	if rdFetchVersion >= 0 {
		p = runPFetch(set, min, int16(rdFetchVersion), r)
	} else {
		p = runP(set)
	}
	res = "P " + p + " M " + runM(set, min) + " E " + drString(expect)
	return args, res, kvfmt.Set(g.feat)
}

func readerCases(r *rand.Rand, n int, holes bool) {
	for i := 0; i < n; i++ {
		args, res, feats := genReaderCase(r, holes)
		emit("rd", args, res, feats)
	}
}
