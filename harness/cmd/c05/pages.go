// Operation-sequence differential for the ref-counted 64 KiB pages of
// /repo/protocol/buffer.go (pageBuffer / page / pageRef / pagePool).
//
//	pg <ops>            | <refcs> R <reads>
//	pgc <G> <iters>     | ok | corrupt:<n>
//
// The generator drives the real code through the hooks of
// /repo/protocol/verif_export_c05.go and translates what the real code did
// into model-level ops (joined by ';', all numbers hexadecimal):
//
//	nb                 new buffer (ids 0,1,2,... in creation order)
//	np:<b>:<p|f>       buffer b appended a page from newPage(): known page id
//	                   (came back from pagePool) or f = fresh (next page id)
//	ap:<b>:<hexdata>   data appended to the last page of buffer b
//	rf:<b>:<segs>      pageRef created from b (next ref id); segs = ','-joined
//	                   <p>.<lo>.<hi> for every page of ref.pages in order,
//	                   [lo,hi) = covered byte range within the page (lo = hi for
//	                   a page held without a covered byte); '.' if ref.pages
//	                   is empty
//	ub:<b>             buffer b unref'ed
//	ur:<r>             ref r closed (a second ur on the same ref is a no-op)
//
// Page ids are local to one case: a page that is still in pagePool from an
// earlier case is reported as fresh.
package main

import (
	"bytes"
	"fmt"
	"math/rand"
	"runtime"
	"runtime/debug"
	"strings"
	"sync"
	"sync/atomic"

	"github.com/segmentio/kafka-go/protocol"
	"kverif/kvfmt"
)

const (
	pgPageSize = protocol.VerifPageSize
	pgWriteCap = 300 << 10 // bytes written per case (approximately)
	pgRefCap   = 384 << 10 // bytes visible through open refs at any time
)

type pgBuf struct {
	vb     *protocol.VerifPageBuffer
	shadow []byte // everything written to the buffer
	alive  bool   // not yet unref'ed
	pages  []int  // page ids of pb.pages, in order
}

type pgRef struct {
	buf        int
	vr         *protocol.VerifPageRef
	begin, end int64
	first      []byte // what the ref returned right after its creation
	closed     bool
	created    int // index of its rf op
	npages     int // len(ref.pages) at creation
}

type pgCase struct {
	r        *rand.Rand
	ops      []string
	bufs     []*pgBuf
	refs     []*pgRef
	pages    []protocol.VerifPageHandle // registry: keeps every page reachable
	pageID   map[protocol.VerifPageHandle]int
	released []int // per page: index of the op after which refc was seen at 0, else -1
	feat     map[string]bool
	bad      string // first GENBUG / UNSTABLE
	written  int
	wctr     uint32
	tracing  bool     // pgr cases: a state digest after every real operation
	trace    []string // the digests, one per "ck" op
	suffix   string   // appended to the next digest (result of a ReadFrom)
}

func (c *pgCase) fail(format string, a ...interface{}) {
	if c.bad == "" {
		c.bad = fmt.Sprintf(format, a...)
	}
}

func (c *pgCase) op(s string) { c.ops = append(c.ops, s) }

// pgFill writes a cheap pattern that depends on the write counter k and on the
// position within the buffer (including the page number), so that bytes left
// over from another write or another page are detectable.
func pgFill(b []byte, k uint32, pos int) {
	mul := 2*k + 1
	add := byte(k * 151)
	for i := range b {
		v := uint32(pos + i)
		b[i] = byte((v*mul)>>3) + byte(v>>11)*13 + byte(v>>16)*101 + add
	}
}

// -------------------------------------------------------------- primitives

// observe runs after every real operation: notes pages whose refcount reached
// zero and checks that every open ref still returns its original bytes.
func (c *pgCase) observe() {
	last := len(c.ops) - 1
	for i, h := range c.pages {
		refc, _ := protocol.VerifPageState(h)
		if refc == 0 {
			if c.released[i] < 0 {
				c.released[i] = last
			}
		}
	}
	for i, rf := range c.refs {
		if rf.closed {
			continue
		}
		got := rf.vr.Bytes()
		if !bytes.Equal(got, rf.first) || !bytes.Equal(got, c.bufs[rf.buf].shadow[rf.begin:rf.end]) {
			c.fail("UNSTABLE:%s:%s", kvfmt.U(uint64(last)), kvfmt.U(uint64(i)))
		}
	}
	if c.tracing {
		c.op("ck")
		c.trace = append(c.trace, c.digest()+c.suffix)
		c.suffix = ""
	}
}

func (c *pgCase) newBuf() int {
	b := &pgBuf{vb: protocol.VerifNewPageBuffer(), alive: true}
	if b.vb.Size() != 0 || len(b.vb.Pages()) != 0 {
		c.fail("GENBUG:new-buffer-not-empty")
	}
	c.bufs = append(c.bufs, b)
	c.op("nb")
	c.observe()
	return len(c.bufs) - 1
}

func (c *pgCase) openRefsBefore(opIndex int) bool {
	for _, rf := range c.refs {
		if !rf.closed && rf.npages > 0 && rf.created < opIndex {
			return true
		}
	}
	return false
}

func (c *pgCase) write(bi int, size int) {
	b := c.bufs[bi]
	bs := kvfmt.U(uint64(bi))
	data := make([]byte, size)
	c.wctr++
	pgFill(data, c.wctr, len(b.shadow))

	before := b.vb.Pages()
	n, err := b.vb.Write(data)
	if n != size || err != nil {
		c.fail("GENBUG:write-result")
	}
	after := b.vb.Pages()
	if len(after) < len(before) || len(before) != len(b.pages) {
		c.fail("GENBUG:page-list-shrunk")
		return
	}

	var got []byte
	for i, p := range before {
		a := after[i]
		if a.Handle != p.Handle || a.Offset != p.Offset || c.pageID[a.Handle] != b.pages[i] {
			c.fail("GENBUG:page-replaced")
			return
		}
		if a.Length != p.Length {
			if i != len(before)-1 || a.Length < p.Length {
				c.fail("GENBUG:non-tail-page-changed")
				return
			}
			d := a.Handle.Data(p.Length, a.Length)
			c.op("ap:" + bs + ":" + kvfmt.Bytes(d))
			got = append(got, d...)
		}
	}
	for i, a := range after[len(before):] {
		if a.Offset != int64(len(before)+i)*pgPageSize {
			c.fail("GENBUG:page-offset")
		}
		id, known := c.pageID[a.Handle]
		if known {
			c.feat["poolreuse"] = true
			if rel := c.released[id]; rel >= 0 && c.openRefsBefore(rel) {
				c.feat["reuse-while-ref-open"] = true
			}
			c.released[id] = -1
			c.op("np:" + bs + ":" + kvfmt.U(uint64(id)))
		} else {
			id = len(c.pages)
			c.pages = append(c.pages, a.Handle)
			c.pageID[a.Handle] = id
			c.released = append(c.released, -1)
			c.op("np:" + bs + ":f")
		}
		b.pages = append(b.pages, id)
		if a.Length > 0 {
			d := a.Handle.Data(0, a.Length)
			c.op("ap:" + bs + ":" + kvfmt.Bytes(d))
			got = append(got, d...)
		}
	}
	if !bytes.Equal(got, data) {
		c.fail("GENBUG:ap-concat")
	}
	b.shadow = append(b.shadow, data...)
	c.written += size
	if b.vb.Size() != int64(len(b.shadow)) {
		c.fail("GENBUG:buffer-size")
	}
	c.observe()
}

func pgClamp(v int64) int64 {
	if v < 0 {
		return 0
	}
	if v > pgPageSize {
		return pgPageSize
	}
	return v
}

func (c *pgCase) ref(bi int, begin, end int64) int {
	b := c.bufs[bi]
	vr := b.vb.Ref(begin, end)
	rf := &pgRef{buf: bi, vr: vr, begin: begin, end: end, created: len(c.ops)}
	ri := len(c.refs)
	c.refs = append(c.refs, rf)

	if vr.Offset() != begin || vr.Size() != end-begin {
		c.fail("GENBUG:ref-range")
	}
	pgs := vr.Pages()
	rf.npages = len(pgs)
	segs := make([]string, len(pgs))
	covered := 0
	for i, p := range pgs {
		id, known := c.pageID[p.Handle]
		if !known {
			c.fail("GENBUG:ref-unknown-page")
		}
		lo, hi := pgClamp(begin-p.Offset), pgClamp(end-p.Offset)
		if lo < hi {
			covered++
		}
		segs[i] = kvfmt.U(uint64(id)) + "." + kvfmt.U(uint64(lo)) + "." + kvfmt.U(uint64(hi))
	}
	s := "."
	if len(segs) > 0 {
		s = strings.Join(segs, ",")
	}
	c.op("rf:" + kvfmt.U(uint64(bi)) + ":" + s)

	if covered > 1 {
		c.feat["xpage"] = true
	}
	if begin == end {
		c.feat["emptyref"] = true
	}
	if (begin > 0 && begin%pgPageSize == 0) || (end > 0 && end%pgPageSize == 0) {
		c.feat["boundary"] = true
	}
	if len(pgs) > covered {
		c.feat["heldpage"] = true // a page held without a covered byte
	}

	rf.first = vr.Bytes()
	if rf.first == nil {
		c.fail("GENBUG:new-ref-closed")
	}
	c.observe()
	return ri
}

func (c *pgCase) unrefBuf(bi int) {
	b := c.bufs[bi]
	for _, rf := range c.refs {
		if rf.buf == bi && !rf.closed && rf.npages > 0 {
			c.feat["ubfirst"] = true
		}
	}
	b.vb.Unref()
	b.vb = nil // the pageBuffer went back to pageBufferPool
	b.alive = false
	c.op("ub:" + kvfmt.U(uint64(bi)))
	c.observe()
}

func (c *pgCase) closeRef(ri int) {
	rf := c.refs[ri]
	if rf.closed {
		c.feat["doubleclose"] = true
	}
	if err := rf.vr.Close(); err != nil {
		c.fail("GENBUG:close-error")
	}
	rf.closed = true
	if !rf.vr.Closed() || rf.vr.Bytes() != nil || len(rf.vr.Pages()) != 0 {
		c.fail("GENBUG:closed-ref-state")
	}
	c.op("ur:" + kvfmt.U(uint64(ri)))
	c.observe()
}

// --------------------------------------------------------------- generation

func (c *pgCase) aliveBufs() []int {
	var l []int
	for i, b := range c.bufs {
		if b.alive {
			l = append(l, i)
		}
	}
	return l
}

func (c *pgCase) refsWhere(f func(*pgRef) bool) []int {
	var l []int
	for i, rf := range c.refs {
		if f(rf) {
			l = append(l, i)
		}
	}
	return l
}

func (c *pgCase) pickSize(b *pgBuf) int {
	r := c.r
	var s int
	switch x := r.Intn(100); {
	case x < 35:
		s = 1 + r.Intn(100)
	case x < 55:
		s = 1000 + r.Intn(4001)
	case x < 70: // exactly the free space of the tail page (a whole page if it is full)
		s = pgPageSize - len(b.shadow)%pgPageSize
	case x < 90:
		s = 60000 + r.Intn(10001)
	default:
		s = 2*pgPageSize + r.Intn(200)
	}
	return c.budget(s)
}

func (c *pgCase) budget(s int) int {
	if c.written+s > pgWriteCap {
		s = 1 + c.r.Intn(100)
	}
	return s
}

func min64(a, b int64) int64 {
	if a < b {
		return a
	}
	return b
}

func max64(a, b int64) int64 {
	if a > b {
		return a
	}
	return b
}

func (c *pgCase) pickLen() int64 {
	r := c.r
	switch r.Intn(3) {
	case 0:
		return 1 + r.Int63n(2000)
	case 1:
		return 1 + r.Int63n(pgPageSize+5000)
	default:
		return pgPageSize + r.Int63n(90000)
	}
}

func (c *pgCase) pickRange(b *pgBuf, nonEmpty bool) (begin, end int64) {
	r := c.r
	size := int64(len(b.shadow))
	if size == 0 {
		return 0, 0
	}
	np := size / pgPageSize // number of page boundaries in (0, size]
	x := r.Intn(100)
	if nonEmpty && x < 12 {
		x = 70
	}
	switch {
	case x < 12: // empty
		switch y := r.Intn(4); {
		case y == 0 && np > 0:
			begin = (1 + r.Int63n(np)) * pgPageSize
		case y == 1:
			begin = size
		default:
			begin = r.Int63n(size + 1)
		}
		end = begin
	case x < 30 && np > 0: // ends exactly on a page boundary
		end = (1 + r.Int63n(np)) * pgPageSize
		begin = max64(0, end-c.pickLen())
	case x < 42 && np > 0: // starts exactly on a page boundary
		begin = r.Int63n(np+1) * pgPageSize
		if begin == size {
			begin -= pgPageSize
		}
		end = min64(size, begin+c.pickLen())
	case x < 50 && np > 0: // small, straddling a page boundary
		k := (1 + r.Int63n(np)) * pgPageSize
		begin = max64(0, k-1-r.Int63n(50))
		end = min64(size, k+1+r.Int63n(50))
	case x < 70: // small, anywhere
		begin = r.Int63n(size)
		end = min64(size, begin+1+r.Int63n(2000))
	case x < 90: // 2..3 pages when the buffer is large enough
		begin = r.Int63n(size)
		end = min64(size, begin+pgPageSize+r.Int63n(90000))
	default: // everything
		begin, end = 0, size
	}
	// keep the bytes visible through open refs (they are all printed) bounded
	open := int64(0)
	for _, rf := range c.refs {
		if !rf.closed {
			open += rf.end - rf.begin
		}
	}
	if open+end-begin > pgRefCap {
		begin = max64(begin, end-1-r.Int63n(2000))
	}
	return begin, end
}

// recycle is the scenario of interest: while a ref on some other buffer stays
// open, release every page of a victim buffer (unref the buffer, close its
// refs in a random order), then create a new buffer and write to it so that
// the pooled pages are handed out again.  Returns the number of high-level
// actions it stands for.
func (c *pgCase) recycle() int {
	r := c.r
	hasOpen := func(bi int) bool {
		return len(c.refsWhere(func(rf *pgRef) bool { return rf.buf == bi && !rf.closed })) > 0
	}
	var cands []int
	for i, b := range c.bufs {
		if len(b.pages) > 0 && (b.alive || hasOpen(i)) {
			cands = append(cands, i)
		}
	}
	if len(cands) == 0 {
		alive := c.aliveBufs()
		bi := alive[r.Intn(len(alive))]
		c.write(bi, c.budget(60000+r.Intn(10001)))
		return 1
	}
	v := cands[r.Intn(len(cands))]
	n := 0

	// a ref on another buffer that stays open across the whole scenario
	keepers := c.refsWhere(func(rf *pgRef) bool { return rf.buf != v && !rf.closed && rf.begin < rf.end })
	if len(keepers) == 0 {
		w := -1
		for _, bi := range c.aliveBufs() {
			if bi != v {
				w = bi
			}
		}
		if w < 0 {
			w = c.newBuf()
			n++
		}
		if len(c.bufs[w].shadow) == 0 {
			c.write(w, c.pickSize(c.bufs[w]))
			n++
		}
		begin, end := c.pickRange(c.bufs[w], true)
		c.ref(w, begin, end)
		n++
	}

	if c.bufs[v].alive && r.Intn(4) != 0 {
		c.unrefBuf(v)
		n++
	}
	open := c.refsWhere(func(rf *pgRef) bool { return rf.buf == v && !rf.closed })
	r.Shuffle(len(open), func(i, j int) { open[i], open[j] = open[j], open[i] })
	for _, ri := range open {
		c.closeRef(ri)
	}
	if len(open) > 0 {
		n++
	}
	if c.bufs[v].alive {
		c.unrefBuf(v)
		n++
	}

	nbuf := c.newBuf()
	size := len(c.bufs[v].pages)*pgPageSize - r.Intn(3000)
	if r.Intn(3) == 0 {
		size = c.pickSize(c.bufs[nbuf])
	}
	c.write(nbuf, c.budget(size))
	return n + 2
}

func (c *pgCase) step() int {
	r := c.r
	alive := c.aliveBufs()
	if len(alive) == 0 {
		c.newBuf()
		return 1
	}
	bi := alive[r.Intn(len(alive))]
	b := c.bufs[bi]
	open := c.refsWhere(func(rf *pgRef) bool { return !rf.closed })
	closed := c.refsWhere(func(rf *pgRef) bool { return rf.closed })

	x := r.Intn(100)
	if x >= 74 && x < 78 && len(closed) == 0 {
		x = 55 // no ref to close twice: close one
	}
	if x >= 52 && x < 62 && len(open) == 0 {
		x = 30 // no ref to close: create one
	}
	if x >= 68 && x < 74 && len(alive) >= 3 {
		x = 0
	}
	if x >= 28 && x < 52 && len(b.shadow) == 0 && r.Intn(4) != 0 {
		x = 0 // mostly write first: a ref on an empty buffer holds nothing
	}
	switch {
	case x < 28:
		c.write(bi, c.pickSize(b))
	case x < 52:
		begin, end := c.pickRange(b, false)
		c.ref(bi, begin, end)
	case x < 62:
		c.closeRef(open[r.Intn(len(open))])
	case x < 68:
		c.unrefBuf(bi)
	case x < 74:
		c.newBuf()
	case x < 78:
		c.closeRef(closed[r.Intn(len(closed))])
	default:
		return c.recycle()
	}
	return 1
}

func (c *pgCase) result() string {
	if c.bad != "" {
		return c.bad
	}
	refcs := "."
	if len(c.pages) > 0 {
		s := make([]string, len(c.pages))
		for i, h := range c.pages {
			refc, _ := protocol.VerifPageState(h)
			s[i] = kvfmt.U(uint64(refc))
		}
		refcs = strings.Join(s, ",")
	}
	reads := "."
	if len(c.refs) > 0 {
		s := make([]string, len(c.refs))
		for i, rf := range c.refs {
			if rf.closed {
				s[i] = "x"
			} else {
				s[i] = kvfmt.Bytes(rf.vr.Bytes())
			}
		}
		reads = strings.Join(s, ",")
	}
	return refcs + " R " + reads
}

func runPageCase(r *rand.Rand) {
	// No collection inside a case: it would clear pagePool.
	defer debug.SetGCPercent(debug.SetGCPercent(-1))

	c := &pgCase{
		r:      r,
		pageID: map[protocol.VerifPageHandle]int{},
		feat:   map[string]bool{},
	}
	res := ""
	func() {
		defer func() {
			if p := recover(); p != nil {
				res = panicString(p)
			}
		}()
		c.newBuf()
		n := 3 + r.Intn(23)
		for a := 0; a < n && c.bad == ""; {
			a += c.step()
		}
		res = c.result()
	}()

	switch n := len(c.pages); {
	case n == 0:
		c.feat["pages=0"] = true
	case n == 1:
		c.feat["pages=1"] = true
	case n <= 3:
		c.feat["pages=2-3"] = true
	default:
		c.feat["pages=4+"] = true
	}
	emit("pg", strings.Join(c.ops, ";"), res, kvfmt.Set(c.feat))
}

// ------------------------------------------------------------- concurrency

// runPgc: G goroutines hammer the shared pagePool / pageBufferPool.
func runPgc(G, iters int) string {
	const maxSize = 3 * pgPageSize
	table := make([]byte, 1<<20)
	rand.New(rand.NewSource(0x5eed)).Read(table)

	var bad int64
	var wg sync.WaitGroup
	for g := 0; g < G; g++ {
		wg.Add(1)
		go func(g int) {
			defer wg.Done()
			defer func() {
				if p := recover(); p != nil {
					atomic.AddInt64(&bad, 1)
				}
			}()
			type held struct {
				vr         *protocol.VerifPageRef
				begin, end int
			}
			for it := 0; it < iters; it++ {
				h := uint64(g+1)*0x9e3779b97f4a7c15 ^ uint64(it+1)*0xc2b2ae3d27d4eb4f
				next := func() uint64 { // xorshift64
					h ^= h << 13
					h ^= h >> 7
					h ^= h << 17
					return h
				}
				var size int
				switch next() % 4 {
				case 0:
					size = int(1+next()%3) * pgPageSize // exactly 1..3 full pages
				default:
					size = int(1 + next()%maxSize)
				}
				off := int(next() % uint64(len(table)-maxSize))
				data := table[off : off+size]

				vb := protocol.VerifNewPageBuffer()
				// written in two pieces so that the tail page is extended too
				cut := int(next() % uint64(size+1))
				vb.Write(data[:cut])
				vb.Write(data[cut:])
				if vb.Size() != int64(size) {
					atomic.AddInt64(&bad, 1)
				}

				refs := make([]held, 1+next()%4)
				for i := range refs {
					b := int(next() % uint64(size+1))
					e := b + int(next()%uint64(size-b+1))
					if next()%4 == 0 {
						e = size
					}
					refs[i] = held{vb.Ref(int64(b), int64(e)), b, e}
				}
				vb.Unref()
				if next()%2 == 0 {
					runtime.Gosched()
				}
				for _, rf := range refs {
					if !bytes.Equal(rf.vr.Bytes(), data[rf.begin:rf.end]) {
						atomic.AddInt64(&bad, 1)
					}
				}
				for _, rf := range refs {
					rf.vr.Close()
				}
			}
		}(g)
	}
	wg.Wait()
	if bad != 0 {
		return "corrupt:" + kvfmt.U(uint64(bad))
	}
	return "ok"
}

func pageCases(r *rand.Rand, n int) {
	if only != "" && only != "pg" {
		id += n // nothing after the pg cases draws from r
	} else {
		func() {
			// sync.Pool is per-P: with a single P (and no collection inside
			// a case) a released page is found again deterministically, so
			// two runs with the same seed print the same lines.  A miss
			// would simply be reported as "f".
			defer runtime.GOMAXPROCS(runtime.GOMAXPROCS(1))
			runtime.LockOSThread()
			defer runtime.UnlockOSThread()
			for i := 0; i < n; i++ {
				runPageCase(r)
			}
		}()
	}
	for _, p := range [][2]int{{4, 200}, {8, 1000}} {
		if only != "" && only != "pgc" {
			id++
			continue
		}
		emit("pgc", kvfmt.U(uint64(p[0]))+" "+kvfmt.U(uint64(p[1])), runPgc(p[0], p[1]), "concurrent")
	}
}
