package main

// The negotiated API version as a dimension.  A wire-level fake broker (in-memory, plugged
// into kafka.Transport.Dial) advertises Produce max = v / Fetch max = v in its ApiVersions
// answer, so that the library's own negotiation picks v, for EVERY Produce version v0..v8 and
// EVERY Fetch version v0..v11 the library registers.
//
//   wv <producever> <codec> <now> <oracle> <IRs>   Client.Produce and kafka.Writer through the
//        real Transport: the record set of the produce request the broker received, decoded by
//        the reference decoder and byte-exact with the model's proto_produce(version): message
//        format 2 iff version >= 3 (headers kept), else format 1 (no headers: header-less input)
//   rd   (tag clientfetch, fetch=vN) the reference-encoded set is served in a Fetch response
//        laid out BY HAND for version N from the protocol guide (throttle_time_ms from v1;
//        error_code, session_id from v7; per partition last_stable_offset and
//        aborted_transactions from v4, log_start_offset from v5, preferred_read_replica from
//        v11) and read through Client.Fetch.

import (
	"context"
	"encoding/binary"
	"errors"
	"fmt"
	"io"
	"math/rand"
	"net"
	"sync"
	"time"

	kafka "github.com/segmentio/kafka-go"
	"github.com/segmentio/kafka-go/protocol"
	"kverif/kvfmt"
)

type verBroker struct {
	produceMax, fetchMax int16
	fetchSet             []byte // record set (with its int32 size) served to fetch requests
	aborted              [][2]int64
	mu                   sync.Mutex
	produced             [][]byte // produce request frames (with size prefix)
	seenVersions         map[int16][]int16
}

func (b *verBroker) dial(ctx context.Context, network, addr string) (net.Conn, error) {
	c, s := net.Pipe()
	go b.serve(s)
	return c, nil
}

func (b *verBroker) note(apiKey, v int16) {
	b.mu.Lock()
	if b.seenVersions == nil {
		b.seenVersions = map[int16][]int16{}
	}
	b.seenVersions[apiKey] = append(b.seenVersions[apiKey], v)
	b.mu.Unlock()
}

func (b *verBroker) serve(c net.Conn) {
	defer c.Close()
	for {
		var szb [4]byte
		if _, err := io.ReadFull(c, szb[:]); err != nil {
			return
		}
		sz := int(int32(binary.BigEndian.Uint32(szb[:])))
		if sz < 8 || sz > 1<<28 {
			return
		}
		body := make([]byte, sz)
		if _, err := io.ReadFull(c, body); err != nil {
			return
		}
		apiKey := int16(binary.BigEndian.Uint16(body[0:]))
		v := int16(binary.BigEndian.Uint16(body[2:]))
		b.note(apiKey, v)
		var w wbuf
		w.i32(0)
		w.raw(body[4:8]) // correlation id
		str := func(s string) { w.i16(int16(len(s))); w.raw([]byte(s)) }
		switch apiKey {
		case 18: // ApiVersions v0
			w.i16(0)
			w.i32(4)
			for _, e := range [][3]int16{{0, 0, b.produceMax}, {1, 0, b.fetchMax}, {3, 0, 1}, {18, 0, 0}} {
				w.i16(e[0])
				w.i16(e[1])
				w.i16(e[2])
			}
		case 3: // Metadata v0 / v1
			w.i32(1) // brokers
			w.i32(1)
			str("fake")
			w.i32(9092)
			if v >= 1 {
				w.i16(-1) // rack
				w.i32(1)  // controller id
			}
			w.i32(1) // topics
			w.i16(0)
			str("t")
			if v >= 1 {
				w.i8(0) // is_internal
			}
			w.i32(1) // partitions
			w.i16(0)
			w.i32(0)
			w.i32(1) // leader
			w.i32(1)
			w.i32(1)
			w.i32(1)
			w.i32(1)
		case 0: // Produce
			b.mu.Lock()
			b.produced = append(b.produced, append(append([]byte(nil), szb[:]...), body...))
			b.mu.Unlock()
			w.i32(1)
			str("t")
			w.i32(1)
			w.i32(0)  // partition
			w.i16(0)  // error code
			w.i64(42) // base offset
			if v >= 2 {
				w.i64(-1) // log append time
			}
			if v >= 5 {
				w.i64(0) // log start offset
			}
			if v >= 8 {
				w.i32(0)  // record errors
				w.i16(-1) // error message
			}
			if v >= 1 {
				w.i32(0) // throttle time
			}
		case 1: // Fetch
			if v >= 1 {
				w.i32(0) // throttle time
			}
			if v >= 7 {
				w.i16(0) // error code
				w.i32(0) // session id
			}
			w.i32(1)
			str("t")
			w.i32(1)
			w.i32(0)         // partition
			w.i16(0)         // error code
			w.i64(1_000_000) // high watermark
			if v >= 4 {
				w.i64(999_999) // last stable offset
			}
			if v >= 5 {
				w.i64(0) // log start offset
			}
			if v >= 4 {
				if b.aborted == nil {
					w.i32(-1)
				} else {
					w.i32(int32(len(b.aborted)))
					for _, a := range b.aborted {
						w.i64(a[0])
						w.i64(a[1])
					}
				}
			}
			if v >= 11 {
				w.i32(-1) // preferred read replica
			}
			w.raw(b.fetchSet)
		default:
			return
		}
		binary.BigEndian.PutUint32(w.b, uint32(len(w.b)-4))
		if _, err := c.Write(w.b); err != nil {
			return
		}
	}
}

func (b *verBroker) transport() *kafka.Transport {
	return &kafka.Transport{Dial: b.dial, ClientID: "c", DialTimeout: 5 * time.Second}
}

// ------------------------------------------------------------------ produce at every version

// ackSummary: what the caller was told and what the broker saw, for C01's clause "an applied
// and acknowledged batch is reported as success, sent once, each message once in the log".
func ackSummary(callErr error, frames [][]byte, recs []inRec) string {
	res := "nil"
	if callErr != nil {
		res = "err"
	}
	count := map[string]int{}
	for _, f := range frames {
		set, why := cutRecordSet(f)
		if why != "" {
			continue
		}
		got, err := decodeSet(set, decOpts{})
		if err != nil {
			continue
		}
		for _, g := range got {
			count[string(g.key)+"\x00"+string(g.val)+fmt.Sprint(g.key == nil, g.val == nil)]++
		}
	}
	want := map[string]int{}
	for _, rc := range recs {
		want[string(rc.key)+"\x00"+string(rc.val)+fmt.Sprint(rc.key == nil, rc.val == nil)]++
	}
	log := "once"
	for k, n := range want {
		switch c := count[k]; {
		case c < n:
			log = "missing"
		case c > n && log == "once":
			log = fmt.Sprintf("dup:%d", c/n)
		}
	}
	return fmt.Sprintf("res=%s reqs=%d log=%s", res, len(frames), log)
}

func runWV(version int16, viaWriter bool, codec int, recs []inRec) (args string, res string, ack string) {
	var oracle []oracleEntry
	now := int64(0)
	defer func() {
		if p := recover(); p != nil {
			res = panicString(p)
		}
		args = fmt.Sprintf("%x %s %s %s %s", version, kvfmt.U(uint64(codec)), kvfmt.I(now), oracleString(oracle), irString(recs))
	}()
	b := &verBroker{produceMax: version, fetchMax: 0}
	tr := b.transport()
	defer tr.CloseIdleConnections()
	ctx, cancel := context.WithTimeout(context.Background(), 20*time.Second)
	defer cancel()
	var err error
	if viaWriter {
		w := &kafka.Writer{Addr: kafka.TCP("fake:9092"), Topic: "t",
			Balancer:  kafka.BalancerFunc(func(kafka.Message, ...int) int { return 0 }),
			BatchSize: len(recs), BatchBytes: 64 << 20, BatchTimeout: 5 * time.Second,
			RequiredAcks: kafka.RequireAll, Transport: tr,
			MaxAttempts: 3, WriteBackoffMin: time.Millisecond, WriteBackoffMax: 5 * time.Millisecond}
		if codec != 0 {
			w.Compression = kafka.Compression(codec)
		}
		err = w.WriteMessages(ctx, toMessages(recs)...)
		w.Close()
	} else {
		cl := &kafka.Client{Addr: kafka.TCP("fake:9092"), Transport: tr}
		var pres *kafka.ProduceResponse
		pres, err = cl.Produce(ctx, &kafka.ProduceRequest{Topic: "t", Partition: 0, RequiredAcks: kafka.RequireAll,
			Records: kafka.NewRecordReader(toKafkaRecords(recs)...), Compression: kafka.Compression(codec)})
		if err == nil && pres.Error != nil {
			err = pres.Error
		}
	}
	b.mu.Lock()
	frames := b.produced
	b.mu.Unlock()
	ack = ackSummary(err, frames, recs)
	if err != nil {
		return "", "ERR other", ack
	}
	if len(frames) != 1 {
		return "", fmt.Sprintf("ERR frames=%d", len(frames)), ack
	}
	if got := int16(binary.BigEndian.Uint16(frames[0][6:])); got != version {
		return "", fmt.Sprintf("ERR negotiated=%d", got), ack
	}
	set, why := cutRecordSet(frames[0])
	if why != "" {
		return "", "ERR cut:" + why, ack
	}
	ver := 2
	if version < 3 {
		ver = 1
	}
	if ver == 1 && codec != 0 && len(set) >= 30 {
		now = int64(binary.BigEndian.Uint64(set[22:30]))
	}
	oracle = outputOracle(ver, codec, set)
	return "", okResult(set), ack
}

func toKafkaRecords(recs []inRec) []kafka.Record {
	prs := toRecords(recs)
	out := make([]kafka.Record, len(prs))
	for i, p := range prs {
		out[i] = kafka.Record(p)
	}
	return out
}

func produceVersionCases(r *rand.Rand, level int) {
	if level <= 0 || (only != "" && only != "wv" && only != "wa") {
		return
	}
	i := 0
	for v := int16(0); v <= 8; v++ {
		for _, viaWriter := range []bool{false, true} {
			for rep := 0; rep < 1+level; rep++ {
				i++
				n := 1 + r.Intn(5)
				recs := make([]inRec, n)
				ns := baseMs*1_000_000 + int64(r.Intn(1_000_000_000))
				for j := range recs {
					ns += int64(1 + r.Intn(4_000_000))
					recs[j] = inRec{ns: ns, key: kvPattern(r, r.Intn(3)), val: kvPattern(r, r.Intn(3))}
					if v >= 3 && (j == 0 || r.Intn(2) == 0) {
						recs[j].hdrs = genHeaders(r)
						if len(recs[j].hdrs) == 0 {
							recs[j].hdrs = []rhdr{{key: []byte("h"), val: []byte{byte(i)}}}
						}
					}
				}
				codec := i % 5
				feat := map[string]bool{"negotiated": true, fmt.Sprintf("produce=v%d", v): true}
				if viaWriter {
					feat["writerpath"] = true
				} else {
					feat["clientproduce"] = true
				}
				for _, rc := range recs {
					contentFeats(feat, rc.key, rc.val, rc.hdrs)
				}
				args, res, ack := runWV(v, viaWriter, codec, recs)
				ver := 2
				if v < 3 {
					ver = 1
				}
				fs := writerFeats(ver, codec, feat)
				emit("wv", args, res, fs)
				path := "c"
				if viaWriter {
					path = "w"
				}
				// wa: what the caller was told / how often the broker was asked / the broker's log
				emit("wa", fmt.Sprintf("%x %s %x", v, path, len(recs)), ack, fs)
			}
		}
	}
}

// ------------------------------------------------------------------ Client.Fetch at every version

// rdFetchVersion >= 0 makes genReaderCase read the set through Client.Fetch at that version.
var rdFetchVersion = -1

func runPFetch(set []byte, min int64, version int16, r *rand.Rand) string {
	var recs []rrec
	status := "err"
	b := &verBroker{produceMax: 0, fetchMax: version, fetchSet: set}
	switch r.Intn(3) {
	case 0:
		b.aborted = [][2]int64{}
	case 1:
		b.aborted = [][2]int64{{1000 + int64(r.Intn(100)), min}, {7, min + 3}}
	}
	func() {
		defer func() {
			if p := recover(); p != nil {
				status = "panic"
			}
		}()
		tr := b.transport()
		defer tr.CloseIdleConnections()
		ctx, cancel := context.WithTimeout(context.Background(), 20*time.Second)
		defer cancel()
		cl := &kafka.Client{Addr: kafka.TCP("fake:9092"), Transport: tr}
		res, err := cl.Fetch(ctx, &kafka.FetchRequest{Topic: "t", Partition: 0, Offset: min, MinBytes: 1, MaxBytes: 64 << 20, MaxWait: time.Second})
		if err != nil {
			return
		}
		b.mu.Lock()
		seen := b.seenVersions[1]
		b.mu.Unlock()
		if len(seen) != 1 || seen[0] != version {
			status = "negotiation"
			return
		}
		if res.Error != nil {
			return
		}
		if res.Records == nil {
			status = "ok"
			return
		}
		for len(recs) < 100000 {
			rec, err := res.Records.ReadRecord()
			if err != nil {
				if errors.Is(err, io.EOF) {
					status = "ok"
				}
				return
			}
			k, kerr := protocol.ReadAll(rec.Key)
			v, verr := protocol.ReadAll(rec.Value)
			if rec.Key != nil {
				rec.Key.Close()
			}
			if rec.Value != nil {
				rec.Value.Close()
			}
			if kerr != nil || verr != nil {
				return
			}
			recs = append(recs, rrec{off: rec.Offset, ts: rec.Time.UnixNano() / 1000000, key: k, val: v, hdrs: fromHeaders(rec.Headers)})
		}
	}()
	return drString(recs) + "!" + status
}

func fetchVersionCases(r *rand.Rand, level int) {
	if level <= 0 || (only != "" && only != "rd") {
		return
	}
	defer func() { rdFetchVersion = -1 }()
	for v := 0; v <= 11; v++ {
		for rep := 0; rep < 2+level; rep++ {
			rdFetchVersion = v
			args, res, feats := genReaderCase(r, true)
			if feats != "" {
				feats += ","
			}
			emit("rd", args, res, feats+fmt.Sprintf("clientfetch,fetch=v%d", v))
		}
	}
}
