package main

// Page-boundary suite for the readers: fetch responses whose key+value bytes cross one or
// several 64 KiB page boundaries of protocol.pageBuffer at non-aligned positions — plain
// keyed v0/v1 messages, compressed wrappers (every codec, magic 0 and 1, several wrappers
// per response with a small one first), v2 batches (every codec) — emitted as ordinary
// `rd` cases (same result format, same self-checks) in every run.

import (
	"fmt"
	"math/rand"

	"kverif/kvfmt"
)

// sizes of key+value bytes per item: around one page, and several pages
var pageSizes = []int{65536 - 17, 65536 - 16, 65536 - 15, 65536 - 1, 65536, 65536 + 1, 65536 + 15, 65536 + 16, 65536 + 17, 70000, 100000, 200000}

var bigWords = []string{"kafka", "record", "batch", "offset", "page", "ref", "crc", "gzip", "snappy", "lz4", "zstd", "key", "value", "wrapper", "fetch", "conn"}

// text-like content (compresses to a fraction), different at every position range
func bigContent(r *rand.Rand, n int) []byte {
	b := make([]byte, 0, n+8)
	for len(b) < n {
		b = append(b, bigWords[r.Intn(len(bigWords))]...)
		b = append(b, byte('0'+r.Intn(10)))
	}
	return b[:n]
}

// split total key+value bytes over n messages: keys of 0..17 bytes (some null), values the rest
func bigKV(r *rand.Rand, total, n int) (keys, vals [][]byte) {
	remain := total
	for i := 0; i < n; i++ {
		var k []byte
		switch r.Intn(6) {
		case 0:
			k = nil
		case 1:
			k = bigContent(r, 17)
		case 2:
			k = bigContent(r, 1)
		default:
			k = bigContent(r, 16)
		}
		if len(k) > remain {
			k = k[:remain]
		}
		remain -= len(k)
		share := remain
		if i < n-1 {
			share = remain / (n - i)
			if share > 3 {
				share += r.Intn(share/2) - share/4
			}
		}
		v := bigContent(r, share)
		remain -= share
		keys = append(keys, k)
		vals = append(vals, v)
	}
	return
}

func (g *readerGen) bigPlain(magic int8, total int) gItem {
	klen := []int{16, 16, 1, 17}[g.r.Intn(4)]
	k := bigContent(g.r, klen)
	v := bigContent(g.r, total-klen)
	ts := int64(0)
	if magic == 1 {
		ts = g.tsBase + int64(g.r.Intn(100000))
	}
	off := g.next
	g.next += 1 + g.gap()
	kind := fmt.Sprintf("v%d", magic)
	g.feat[kind] = true
	g.feat["keyed"] = true
	return gItem{kind: kind, recs: []rrec{{off: off, ts: ts, key: k, val: v}}, offs: []int64{off},
		enc: encodeMessage(magic, off, 0, ts, k, v)}
}

func (g *readerGen) bigWrapper(magic int8, codec, total, n int) (gItem, error) {
	keys, vals := bigKV(g.r, total, n)
	it := gItem{kind: "v1wrap"}
	var inner []byte
	ts := g.tsBase + int64(g.r.Intn(100000))
	first := g.next
	for i := 0; i < n; i++ {
		ts += int64(g.r.Intn(50))
		stored := int64(i) // magic 1: relative
		mts := ts
		if magic == 0 {
			stored = first + int64(i) // magic 0: absolute inner offsets, no timestamps
			mts = 0
		}
		inner = append(inner, encodeMessage(magic, stored, 0, mts, keys[i], vals[i]).b...)
		it.recs = append(it.recs, rrec{off: first + int64(i), ts: mts, key: keys[i], val: vals[i]})
		it.offs = append(it.offs, first+int64(i))
	}
	wrapperOff := first + int64(n-1)
	g.next = wrapperOff + 1 + g.gap()
	comp, err := refCompress(codec, inner)
	if err != nil {
		return it, err
	}
	g.oracle = append(g.oracle, oracleEntry{codec, inner, comp})
	wts := ts
	if magic == 0 {
		wts = 0
	}
	e := encodeMessage(magic, wrapperOff, int8(codec), wts, nil, comp)
	e.content = nil
	it.enc = e
	g.feat["v1wrap"] = true
	if magic == 0 {
		g.feat["v0wrap"] = true
	}
	g.feat[fmt.Sprintf("codec=%d", codec)] = true
	return it, nil
}

func (g *readerGen) bigBatch(codec, total, n int) (gItem, error) {
	keys, vals := bigKV(g.r, total, n)
	d := batchDesc{base: g.next, leaderEpoch: -1, attrs: int16(codec), firstTs: g.tsBase + int64(g.r.Intn(100000)),
		producerID: -1, producerEpoch: -1, baseSequence: -1}
	it := gItem{kind: "v2"}
	d.maxTs = -1 << 62
	for i := 0; i < n; i++ {
		br := batchRec{offDelta: int64(i), tsDelta: int64(g.r.Intn(2001)) - 1000, key: keys[i], val: vals[i]}
		if i%5 == 1 {
			br.hdrs = genHeaders(g.r)
		}
		d.recs = append(d.recs, br)
		ts := d.firstTs + br.tsDelta
		if ts > d.maxTs {
			d.maxTs = ts
		}
		it.offs = append(it.offs, d.base+int64(i))
		it.recs = append(it.recs, rrec{off: d.base + int64(i), ts: ts, key: br.key, val: br.val, hdrs: br.hdrs})
	}
	d.lastOffsetDelta = int32(n - 1)
	g.next = d.base + int64(n) + g.gap()
	enc, err := encodeBatch(d, &g.oracle)
	if err != nil {
		return it, err
	}
	it.enc = enc
	g.feat["v2"] = true
	g.feat[fmt.Sprintf("codec=%d", codec)] = true
	return it, nil
}

// how many messages hold the bytes: many small ones or a few that each span pages
func bigCount(r *rand.Rand, total int, few bool) int {
	if few {
		return 2 + r.Intn(2)
	}
	return 20 + total/1000 + r.Intn(10)
}

type bigPlan struct {
	build func(g *readerGen) ([]gItem, error)
	tags  []string
}

func emitBig(r *rand.Rand, p bigPlan) {
	g := &readerGen{r: r, feat: map[string]bool{"bigset": true, "pagecross": true}}
	g.next = int64(r.Intn(1_000_001))
	g.tsBase = baseMs + int64(r.Intn(1_000_000_000))
	for _, t := range p.tags {
		g.feat[t] = true
	}
	items, err := p.build(g)
	if err != nil {
		emit("rd", ".", "GENBUG:encode:"+panicString(err), kvfmt.Set(g.feat))
		return
	}
	raw := make([][]byte, len(items))
	total := 0
	var expect []rrec
	for i, it := range items {
		raw[i] = it.enc.b
		total += len(it.offs)
		expect = append(expect, it.recs...)
	}
	g.feat[fmt.Sprintf("items=%d", len(items))] = true
	set := encodeSet(raw...)
	if recs, err := decodeSet(set, decOpts{lenientLastOffsetDelta: true}); err != nil || len(recs) != total {
		emit("rd", ".", fmt.Sprintf("GENBUG:selfdecode:%v:%d/%d", err, len(recs), total), kvfmt.Set(g.feat))
		return
	}
	min := items[0].offs[0]
	args := kvfmt.I(min) + " " + oracleString(g.oracle) + " " + kvfmt.Bytes(set)
	res := "P " + runP(set) + " M " + runM(set, min) + " E " + drString(expect)
	emit("rd", args, res, kvfmt.Set(g.feat))
}

// bigReaderCases: level 0 = none, 1 = every size and every codec at least once (quick),
// 2 = the full cross product (thorough).
func bigReaderCases(r *rand.Rand, level int) {
	if level <= 0 {
		return
	}
	main4 := map[int]bool{65537: true, 70000: true, 100000: true, 200000: true}
	var plans []bigPlan
	for i, s := range pageSizes {
		s, i := s, i
		// plain keyed messages, magic 0 and 1 alternating (both in the thorough tier)
		for m := int8(0); m <= 1; m++ {
			if level < 2 && int(m) != i%2 {
				continue
			}
			m := m
			plans = append(plans, bigPlan{tags: []string{fmt.Sprintf("size=%d", s), "bigplain"},
				build: func(g *readerGen) ([]gItem, error) { return []gItem{g.bigPlain(m, s)}, nil }})
		}
		// wrappers and v2 batches
		for codec := 0; codec <= 4; codec++ {
			codec := codec
			if level < 2 && !main4[s] && codec != i%5 {
				continue
			}
			few := (i+codec)%3 == 0
			if codec > 0 && !(level < 2 && s >= 200000 && codec != 1+i%4 && codec != 1+(i+2)%4) {
				magic := int8(1)
				if (i+codec)%4 == 0 {
					magic = 0
				}
				plans = append(plans, bigPlan{tags: []string{fmt.Sprintf("size=%d", s), "bigwrap"},
					build: func(g *readerGen) ([]gItem, error) {
						it, err := g.bigWrapper(magic, codec, s, bigCount(g.r, s, few))
						return []gItem{it}, err
					}})
			} else if level < 2 && !main4[s] {
				// codec 0 slot of a rotated size: a gzip wrapper, so that every size meets a wrapper
				plans = append(plans, bigPlan{tags: []string{fmt.Sprintf("size=%d", s), "bigwrap"},
					build: func(g *readerGen) ([]gItem, error) {
						it, err := g.bigWrapper(1, 1+i%4, s, bigCount(g.r, s, few))
						return []gItem{it}, err
					}})
			}
			if level < 2 && s >= 100000 && codec != 0 && codec != 1+i%4 {
				continue // quick tier: the largest v2 batches with two of the five codecs
			}
			plans = append(plans, bigPlan{tags: []string{fmt.Sprintf("size=%d", s), "bigbatch"},
				build: func(g *readerGen) ([]gItem, error) {
					it, err := g.bigBatch(codec, s, bigCount(g.r, s, few))
					return []gItem{it}, err
				}})
		}
	}
	// several items per response, a small one first
	for codec := 1; codec <= 4; codec++ {
		codec := codec
		plans = append(plans, bigPlan{tags: []string{"multi", "smallfirst"},
			build: func(g *readerGen) ([]gItem, error) {
				a, err := g.bigWrapper(1, codec, 10000, 20)
				if err != nil {
					return nil, err
				}
				b, err := g.bigWrapper(1, codec, 100000, 100)
				return []gItem{a, b}, err
			}})
	}
	plans = append(plans,
		bigPlan{tags: []string{"multi", "bigfirst"}, build: func(g *readerGen) ([]gItem, error) {
			a, err := g.bigWrapper(1, 1, 100000, 100)
			if err != nil {
				return nil, err
			}
			b, err := g.bigWrapper(1, 1, 500, 3)
			return []gItem{a, b}, err
		}},
		bigPlan{tags: []string{"multi", "smallfirst", "mixed"}, build: func(g *readerGen) ([]gItem, error) {
			a := g.plain(1)
			b := g.bigPlain(1, 70000)
			c, err := g.bigWrapper(1, 3, 70000, 40)
			if err != nil {
				return nil, err
			}
			d, err := g.bigBatch(2, 100000, 60)
			return []gItem{a, b, c, d}, err
		}},
		bigPlan{tags: []string{"multi", "smallfirst", "mixed"}, build: func(g *readerGen) ([]gItem, error) {
			a, err := g.bigWrapper(0, 2, 3000, 5)
			if err != nil {
				return nil, err
			}
			b, err := g.bigWrapper(0, 4, 140000, 3)
			if err != nil {
				return nil, err
			}
			c := g.bigPlain(0, 65536+16)
			return []gItem{a, b, c}, nil
		}})
	for _, p := range plans {
		emitBig(r, p)
	}
}
