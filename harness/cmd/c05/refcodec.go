// Reference codec for Kafka message sets and record batches, written from the
// description of the on-disk / on-wire formats (message format 0 and 1,
// compressed wrapper messages, record batch format 2).  It shares no code with
// kafka-go except hash/crc32 of the standard library and the compression
// codecs themselves (gzip, snappy, lz4, zstd), which are used as black boxes.
package main

import (
	"bytes"
	"encoding/binary"
	"fmt"
	"hash/crc32"
	"io"

	"github.com/segmentio/kafka-go/compress"
)

// rhdr is a record header; val == nil is a null value.
type rhdr struct {
	key []byte
	val []byte
}

// rrec is a record with its offset and millisecond timestamp.
type rrec struct {
	off  int64
	ts   int64
	key  []byte // nil = null
	val  []byte // nil = null
	hdrs []rhdr
}

// oracleEntry says: the real codec turned plain into comp.
type oracleEntry struct {
	codec int
	plain []byte
	comp  []byte
}

var castagnoli = crc32.MakeTable(crc32.Castagnoli)

// ---------------------------------------------------------------- compression

func refCompress(codec int, plain []byte) ([]byte, error) {
	if codec < 1 || codec >= len(compress.Codecs) || compress.Codecs[codec] == nil {
		return nil, fmt.Errorf("codec %d", codec)
	}
	var buf bytes.Buffer
	w := compress.Codecs[codec].NewWriter(&buf)
	if _, err := w.Write(plain); err != nil {
		w.Close()
		return nil, err
	}
	if err := w.Close(); err != nil {
		return nil, err
	}
	return buf.Bytes(), nil
}

func refDecompress(codec int, comp []byte) (plain []byte, err error) {
	defer func() {
		if p := recover(); p != nil {
			err = fmt.Errorf("panic: %v", p)
		}
	}()
	if codec < 1 || codec >= len(compress.Codecs) || compress.Codecs[codec] == nil {
		return nil, fmt.Errorf("codec %d", codec)
	}
	r := compress.Codecs[codec].NewReader(bytes.NewReader(comp))
	plain, err = io.ReadAll(r)
	r.Close()
	if err != nil {
		return nil, err
	}
	if plain == nil {
		plain = []byte{}
	}
	return plain, nil
}

// -------------------------------------------------------------------- encoder

type wbuf struct{ b []byte }

func (w *wbuf) i8(v int8)    { w.b = append(w.b, byte(v)) }
func (w *wbuf) i16(v int16)  { w.b = binary.BigEndian.AppendUint16(w.b, uint16(v)) }
func (w *wbuf) i32(v int32)  { w.b = binary.BigEndian.AppendUint32(w.b, uint32(v)) }
func (w *wbuf) i64(v int64)  { w.b = binary.BigEndian.AppendUint64(w.b, uint64(v)) }
func (w *wbuf) raw(p []byte) { w.b = append(w.b, p...) }

// varint: zig-zag, then base 128 little-endian groups with continuation bit.
func (w *wbuf) varint(v int64) {
	u := (uint64(v) << 1) ^ uint64(v>>63)
	for u >= 0x80 {
		w.b = append(w.b, byte(u&0x7f)|0x80)
		u >>= 7
	}
	w.b = append(w.b, byte(u))
}

// encoded is one item of a record set together with the places a corruption
// may touch: the stored CRC field and the content bytes (key / value / header
// bytes, never a length) when the item is not compressed.
type encoded struct {
	b       []byte
	crcPos  int
	content []int
}

// encodeMessage renders a message of format 0 or 1.
func encodeMessage(magic int8, off int64, attrs int8, ts int64, key, val []byte) encoded {
	var body wbuf // magic .. end (what the CRC covers)
	var content []int
	body.i8(magic)
	body.i8(attrs)
	if magic >= 1 {
		body.i64(ts)
	}
	putBytes := func(p []byte) {
		if p == nil {
			body.i32(-1)
			return
		}
		body.i32(int32(len(p)))
		for i := range p {
			content = append(content, 16+len(body.b)+i)
		}
		body.raw(p)
	}
	putBytes(key)
	putBytes(val)

	var w wbuf
	w.i64(off)
	w.i32(int32(4 + len(body.b)))
	w.i32(int32(crc32.ChecksumIEEE(body.b)))
	w.raw(body.b)
	return encoded{b: w.b, crcPos: 12, content: content}
}

// encodeWrapper renders a format-1 wrapper message around the concatenated
// inner messages: attributes carry the codec, the key is null, the value is
// the compressed inner message set.
func encodeWrapper(codec int, off int64, ts int64, inner []byte, oracle *[]oracleEntry) (encoded, error) {
	comp, err := refCompress(codec, inner)
	if err != nil {
		return encoded{}, err
	}
	*oracle = append(*oracle, oracleEntry{codec, inner, comp})
	e := encodeMessage(1, off, int8(codec), ts, nil, comp)
	e.content = nil // compressed bytes are not touched by the corruptor
	return e, nil
}

type batchRec struct {
	tsDelta  int64
	offDelta int64
	key      []byte
	val      []byte
	hdrs     []rhdr
}

type batchDesc struct {
	base            int64
	leaderEpoch     int32
	attrs           int16 // bits 0-2 codec, 3 timestamp type, 4 transactional, 5 control
	lastOffsetDelta int32
	firstTs         int64
	maxTs           int64
	producerID      int64
	producerEpoch   int16
	baseSequence    int32
	recs            []batchRec
}

// encodeBatch renders a record batch of format 2.
func encodeBatch(d batchDesc, oracle *[]oracleEntry) (encoded, error) {
	var recs wbuf
	var content []int
	for _, r := range d.recs {
		var body wbuf
		var bc []int
		put := func(p []byte) {
			if p == nil {
				body.varint(-1)
				return
			}
			body.varint(int64(len(p)))
			for i := range p {
				bc = append(bc, len(body.b)+i)
			}
			body.raw(p)
		}
		body.i8(0)
		body.varint(r.tsDelta)
		body.varint(r.offDelta)
		put(r.key)
		put(r.val)
		body.varint(int64(len(r.hdrs)))
		for _, h := range r.hdrs {
			k := h.key
			if k == nil {
				k = []byte{}
			}
			put(k)
			put(h.val)
		}
		recs.varint(int64(len(body.b)))
		start := len(recs.b)
		recs.raw(body.b)
		for _, c := range bc {
			content = append(content, start+c)
		}
	}
	payload := recs.b
	codec := int(d.attrs & 7)
	if codec != 0 {
		comp, err := refCompress(codec, recs.b)
		if err != nil {
			return encoded{}, err
		}
		*oracle = append(*oracle, oracleEntry{codec, recs.b, comp})
		payload = comp
		content = nil
	}

	var tail wbuf // attributes .. end (what the CRC covers)
	tail.i16(d.attrs)
	tail.i32(d.lastOffsetDelta)
	tail.i64(d.firstTs)
	tail.i64(d.maxTs)
	tail.i64(d.producerID)
	tail.i16(d.producerEpoch)
	tail.i32(d.baseSequence)
	tail.i32(int32(len(d.recs)))
	tail.raw(payload)

	var w wbuf
	w.i64(d.base)
	w.i32(int32(4 + 1 + 4 + len(tail.b)))
	w.i32(d.leaderEpoch)
	w.i8(2)
	w.i32(int32(crc32.Checksum(tail.b, castagnoli)))
	w.raw(tail.b)
	for i := range content {
		content[i] += 61
	}
	return encoded{b: w.b, crcPos: 17, content: content}, nil
}

// encodeSet prefixes the items with the int32 size of the set.
func encodeSet(items ...[]byte) []byte {
	n := 0
	for _, it := range items {
		n += len(it)
	}
	var w wbuf
	w.i32(int32(n))
	for _, it := range items {
		w.raw(it)
	}
	return w.b
}

// -------------------------------------------------------------------- decoder

type reject string

func (r reject) Error() string { return "REJECT:" + string(r) }

type rbuf struct {
	b []byte
	p int
}

func (r *rbuf) left() int { return len(r.b) - r.p }

func (r *rbuf) take(n int, what string) []byte {
	if n < 0 || n > r.left() {
		panic(reject(what))
	}
	s := r.b[r.p : r.p+n]
	r.p += n
	return s
}

func (r *rbuf) i8(what string) int8   { return int8(r.take(1, what)[0]) }
func (r *rbuf) i16(what string) int16 { return int16(binary.BigEndian.Uint16(r.take(2, what))) }
func (r *rbuf) i32(what string) int32 { return int32(binary.BigEndian.Uint32(r.take(4, what))) }
func (r *rbuf) i64(what string) int64 { return int64(binary.BigEndian.Uint64(r.take(8, what))) }

func (r *rbuf) varint(what string) int64 {
	var u uint64
	for i := 0; i < 10; i++ {
		c := r.take(1, what)[0]
		if i == 9 && c > 1 {
			panic(reject(what + "-overflow"))
		}
		u |= uint64(c&0x7f) << (7 * uint(i))
		if c&0x80 == 0 {
			return int64(u>>1) ^ -int64(u&1)
		}
	}
	panic(reject(what + "-toolong"))
}

func clone(p []byte) []byte {
	c := make([]byte, len(p))
	copy(c, p)
	return c
}

type decOpts struct {
	// lenientLastOffsetDelta accepts lastOffsetDelta >= offsetDelta of the
	// last record (a broker may return compacted batches); the strict
	// setting demands equality, as for a freshly produced batch.
	lenientLastOffsetDelta bool
}

// decodeSet decodes a record set (int32 size + items) strictly.  The records
// come back "raw": format 2 records at baseOffset+offsetDelta with timestamp
// firstTimestamp+timestampDelta, plain messages as stored (timestamp 0 for
// format 0), inner messages of a wrapper with their offsets as stored.
func decodeSet(set []byte, o decOpts) (recs []rrec, err error) {
	defer func() {
		if p := recover(); p != nil {
			if rj, ok := p.(reject); ok {
				recs, err = nil, rj
				return
			}
			panic(p)
		}
	}()
	r := &rbuf{b: set}
	size := r.i32("nosize")
	if int(size) != r.left() {
		panic(reject("setsize"))
	}
	for r.left() > 0 {
		if r.left() < 17 {
			panic(reject("itemtrunc"))
		}
		switch magic := r.b[r.p+16]; magic {
		case 0, 1:
			m := decodeMessage(r)
			if codec := int(m.attrs & 7); codec != 0 {
				recs = append(recs, decodeWrapper(m, codec)...)
			} else {
				recs = append(recs, m.rec)
			}
		case 2:
			recs = append(recs, decodeBatch(r, o)...)
		default:
			panic(reject("magic"))
		}
	}
	return recs, nil
}

type message struct {
	magic int8
	attrs int8
	rec   rrec
}

func decodeMessage(r *rbuf) message {
	var m message
	m.rec.off = r.i64("msgtrunc")
	size := r.i32("msgtrunc")
	if size < 14 || int(size) > r.left() {
		panic(reject("msgsize"))
	}
	body := &rbuf{b: r.take(int(size), "msgsize")}
	crc := uint32(body.i32("msgshort"))
	if crc32.ChecksumIEEE(body.b[body.p:]) != crc {
		panic(reject("crc"))
	}
	m.magic = body.i8("msgshort")
	m.attrs = body.i8("msgshort")
	switch m.magic {
	case 0:
	case 1:
		m.rec.ts = body.i64("msgshort")
	default:
		panic(reject("magic"))
	}
	get := func(what string) []byte {
		n := body.i32(what)
		if n == -1 {
			return nil
		}
		if n < -1 {
			panic(reject(what))
		}
		return clone(body.take(int(n), what))
	}
	m.rec.key = get("keylen")
	m.rec.val = get("vallen")
	if body.left() != 0 {
		panic(reject("msgend"))
	}
	return m
}

func decodeWrapper(m message, codec int) []rrec {
	if m.rec.key != nil {
		panic(reject("wrapperkey"))
	}
	if m.rec.val == nil {
		panic(reject("wrappervalue"))
	}
	plain, err := refDecompress(codec, m.rec.val)
	if err != nil {
		panic(reject("decompress"))
	}
	var recs []rrec
	in := &rbuf{b: plain}
	for in.left() > 0 {
		if in.left() < 17 {
			panic(reject("innertrunc"))
		}
		im := decodeMessage(in)
		if im.attrs&7 != 0 {
			panic(reject("nestedwrapper"))
		}
		recs = append(recs, im.rec)
	}
	return recs
}

func decodeBatch(r *rbuf, o decOpts) []rrec {
	base := r.i64("batchtrunc")
	batchLength := r.i32("batchtrunc")
	if batchLength < 49 || int(batchLength) > r.left() {
		panic(reject("batchlen"))
	}
	body := &rbuf{b: r.take(int(batchLength), "batchlen")}
	_ = body.i32("hdr") // partition leader epoch
	if body.i8("hdr") != 2 {
		panic(reject("magic"))
	}
	crc := uint32(body.i32("hdr"))
	if crc32.Checksum(body.b[body.p:], castagnoli) != crc {
		panic(reject("crc"))
	}
	attrs := body.i16("hdr")
	lastOffsetDelta := body.i32("hdr")
	firstTs := body.i64("hdr")
	_ = body.i64("hdr") // max timestamp
	_ = body.i64("hdr") // producer id
	_ = body.i16("hdr") // producer epoch
	_ = body.i32("hdr") // base sequence
	count := body.i32("hdr")
	if count < 0 {
		panic(reject("count"))
	}
	payload := body.b[body.p:]
	if codec := int(attrs & 7); codec != 0 {
		if codec > 4 {
			panic(reject("codec"))
		}
		plain, err := refDecompress(codec, payload)
		if err != nil {
			panic(reject("decompress"))
		}
		payload = plain
	}

	in := &rbuf{b: payload}
	recs := make([]rrec, 0, count)
	lastDelta := int64(-1)
	for i := int32(0); i < count; i++ {
		if in.left() == 0 {
			panic(reject("count"))
		}
		length := in.varint("reclen")
		if length < 0 || length > int64(in.left()) {
			panic(reject("reclen"))
		}
		start := in.p
		_ = in.i8("rec") // record attributes
		tsDelta := in.varint("rec")
		offDelta := in.varint("rec")
		get := func(what string, nullable bool) []byte {
			n := in.varint(what)
			if n == -1 && nullable {
				return nil
			}
			if n < 0 || n > int64(in.left()) {
				panic(reject(what))
			}
			return clone(in.take(int(n), what))
		}
		rec := rrec{off: base + offDelta, ts: firstTs + tsDelta}
		rec.key = get("keylen", true)
		rec.val = get("vallen", true)
		nh := in.varint("hdrcount")
		if nh < 0 || nh > int64(in.left()) {
			panic(reject("hdrcount"))
		}
		for h := int64(0); h < nh; h++ {
			var hd rhdr
			hd.key = get("hdrkeylen", false)
			hd.val = get("hdrvallen", true)
			rec.hdrs = append(rec.hdrs, hd)
		}
		if int64(in.p-start) != length {
			panic(reject("reclen"))
		}
		lastDelta = offDelta
		recs = append(recs, rec)
	}
	if in.left() != 0 {
		panic(reject("batchend"))
	}
	if count > 0 {
		if o.lenientLastOffsetDelta {
			if int64(lastOffsetDelta) < lastDelta {
				panic(reject("lastoffsetdelta"))
			}
		} else if int64(lastOffsetDelta) != lastDelta {
			panic(reject("lastoffsetdelta"))
		}
	}
	return recs
}
