// c18: correspondence driver for property C18 (with SASL configured, nothing is sent
// before authentication succeeds).
//
// Enumerates scripted broker behaviours, runs the REAL Dialer / Transport of /repo against
// the wire-level fake of kverif/saslfake over net.Pipe connections and prints one line per
// case:   <id> run <path> <mech> <hsmax> <authmax> <cred> <fstep> <fkind> <credidx> | <go result> | <features>
// where the go result is   J=<broker journal> E=<dial/roundtrip returned an error> C=<client
// had closed the connection when it returned>   or PANIC / HANG / MECHERR.
// The OCaml driver evaluates the extracted Coq model on "<id> run <args...>".
//
// Every case runs in a child process (a panic in a goroutine of the library cannot be
// recovered in-process): the parent restarts the child after a crash and records PANIC for
// the case that was running.
package main

import (
	"bufio"
	"context"
	"errors"
	"flag"
	"fmt"
	"io"
	"math/rand"
	"net"
	"os"
	"os/exec"
	"runtime"
	"sort"
	"strconv"
	"strings"
	"sync"
	"sync/atomic"
	"time"

	kafka "github.com/segmentio/kafka-go"
	"github.com/segmentio/kafka-go/protocol/metadata"
	"github.com/segmentio/kafka-go/sasl"
	"github.com/segmentio/kafka-go/sasl/plain"
	"github.com/segmentio/kafka-go/sasl/scram"
	"kverif/kvfmt"
	"kverif/saslfake"
)

// ---------------------------------------------------------------- credentials

type credEntry struct {
	label        string
	user, pass   string // what the client is configured with
	suser, spass string // what the SCRAM server stores (SASLprep form, written by hand)
	prohibited   bool   // SASLprep must refuse user or pass (SCRAM only)
	scramOnly    bool
}

func credTable(seed int64) []credEntry {
	t := []credEntry{
		{label: "basic", user: "alice", pass: "s3cret-pw", suser: "alice", spass: "s3cret-pw"},
		{label: "escape =,", user: "a=b,c", pass: "p,=w=", suser: "a=b,c", spass: "p,=w="},
		{label: "escape literal =2C", user: "us=2Cer", pass: "pw=3D", suser: "us=2Cer", spass: "pw=3D"},
		{label: "escape only ,=", user: ",", pass: "=", suser: ",", spass: "="},
		{label: "spaces", user: "x y", pass: " lead trail ", suser: "x y", spass: " lead trail "},
		{label: "utf8 stable", user: "жук", pass: "пароль-日本", suser: "жук", spass: "пароль-日本"},
	}
	for i, p := range saslfake.PrepTable {
		t = append(t, credEntry{label: "prep-pass " + p.Label, user: fmt.Sprintf("prepuser%d", i), pass: p.Raw,
			suser: fmt.Sprintf("prepuser%d", i), spass: p.Stored, prohibited: p.Prohibited, scramOnly: true})
		t = append(t, credEntry{label: "prep-user " + p.Label, user: p.Raw, pass: "pw-of-" + strconv.Itoa(i),
			suser: p.Stored, spass: "pw-of-" + strconv.Itoa(i), prohibited: p.Prohibited, scramOnly: true})
	}
	// random credentials over an alphabet that SASLprep leaves unchanged
	r := rand.New(rand.NewSource(seed*7919 + 18))
	alpha := []rune("abcXYZ019=,=,-_.:;!?@#$%^&*()[]{}<>/\\|~`'\" +éßЖ日本")
	gen := func() string {
		n := 1 + r.Intn(12)
		s := make([]rune, n)
		for i := range s {
			s[i] = alpha[r.Intn(len(alpha))]
		}
		return string(s)
	}
	for i := 0; i < 24; i++ {
		u, p := gen(), gen()
		t = append(t, credEntry{label: "random", user: u, pass: p, suser: u, spass: p})
	}
	return t
}

// ---------------------------------------------------------------- cases

type tcase struct {
	path    string // d | t
	mech    string // plain | s256 | s512
	hs, au  int    // saslfake.Absent = not listed
	cred    string // right | wrongpw | nouser | prohib
	fstep   int    // -1 = none
	fkind   string
	credidx int
	// fkind == rawresp (op "rawread"): the raw response at step fstep
	rawPrefix int64
	rawN      int
	rawEnd    string // close | silent
	// fkind == rawcut (op "rawcut"): the genuine raw response at step fstep cut after rawN
	// bytes; cutPad > 0: PLAIN's empty success payload padded to cutPad bytes
	cutPad int
	// serial: run after the parallel phase, alone in one child (Conn-path cases that make the
	// client allocate 1-2 GiB: several of them at once exhaust a loaded host)
	serial bool
	// op "addr": api is how the connection is made (d DialContext, dl Dial, lp LookupPartition,
	// ld DialLeader, t Transport, tr Transport with a BrokerResolver), addr the class of the dial address
	api, addr string
	// op "conc": pattern has one letter per overlapping connection (r right credentials,
	// w wrong password, n unknown user); they all share ONE Mechanism value
	pattern string
}

var addrOf = map[string]string{"num": "broker.test:9092", "noport": "broker.test", "svc": "broker.test:kafka-sasl",
	"ipv6": "[::1]:9092", "zero": "broker.test:0", "huge": "broker.test:65536", "empty": ""}

func (c tcase) op() string {
	if c.pattern != "" {
		return "conc"
	}
	if c.api != "" {
		return "addr"
	}
	if c.fkind == saslfake.FRawCut {
		return "rawcut"
	}
	if c.fkind == saslfake.FRawResp {
		return "rawread"
	}
	return "run"
}

func verS(v int) string {
	if v == saslfake.Absent {
		return "-"
	}
	return kvfmt.I(int64(v))
}
func stepS(v int) string {
	if v < 0 {
		return "-"
	}
	return kvfmt.I(int64(v))
}

func (c tcase) args() string {
	if c.pattern != "" {
		return fmt.Sprintf("%s %s %s %s", c.path, c.mech, verS(c.hs), c.pattern)
	}
	if c.api != "" {
		return fmt.Sprintf("%s %s %s %s", c.api, c.mech, c.addr, verS(c.hs))
	}
	if c.fkind == saslfake.FRawCut {
		return fmt.Sprintf("%s %s %s %s %s %s", c.path, c.mech, stepS(c.fstep), kvfmt.I(int64(c.rawN)), c.rawEnd, kvfmt.I(int64(c.cutPad)))
	}
	if c.fkind == saslfake.FRawResp {
		return fmt.Sprintf("%s %s %s %s %s %s %s", c.path, c.mech, c.cred, stepS(c.fstep), kvfmt.I(c.rawPrefix), kvfmt.I(int64(c.rawN)), c.rawEnd)
	}
	return fmt.Sprintf("%s %s %s %s %s %s %s %s", c.path, c.mech, verS(c.hs), verS(c.au), c.cred, stepS(c.fstep), c.fkind, kvfmt.I(int64(c.credidx)))
}

func parseV(s string) int {
	if s == "-" {
		return saslfake.Absent
	}
	neg := strings.HasPrefix(s, "-")
	v, err := strconv.ParseInt(strings.TrimPrefix(s, "-"), 16, 64)
	if err != nil {
		panic("bad number " + s)
	}
	if neg {
		return -int(v)
	}
	return int(v)
}

func parseCase(s string) tcase {
	f := strings.Fields(s)
	auOf := func(hs int) int {
		if hs >= 1 {
			return 1
		}
		return saslfake.Absent
	}
	if len(f) == 5 && f[0] == "addr" {
		hs := parseV(f[4])
		path := "d"
		if f[1] == "t" || f[1] == "tr" {
			path = "t"
		}
		return tcase{path: path, mech: f[2], hs: hs, au: auOf(hs), cred: "right", fstep: -1, fkind: saslfake.FNone, api: f[1], addr: f[3]}
	}
	if len(f) == 5 && f[0] == "conc" {
		hs := parseV(f[3])
		return tcase{path: f[1], mech: f[2], hs: hs, au: auOf(hs), cred: "right", fstep: -1, fkind: saslfake.FNone, pattern: f[4]}
	}
	if len(f) > 0 && (f[0] == "run" || f[0] == "rawread" || f[0] == "rawcut") {
		f = f[1:]
	}
	if len(f) == 6 {
		return tcase{path: f[0], mech: f[1], hs: 0, au: saslfake.Absent, cred: "right", fstep: parseV(f[2]), fkind: saslfake.FRawCut,
			rawN: parseV(f[3]), rawEnd: f[4], cutPad: parseV(f[5])}
	}
	if len(f) == 7 {
		return tcase{path: f[0], mech: f[1], hs: 0, au: saslfake.Absent, cred: f[2], fstep: parseV(f[3]), fkind: saslfake.FRawResp,
			rawPrefix: int64(parseV(f[4])), rawN: parseV(f[5]), rawEnd: f[6]}
	}
	if len(f) != 8 {
		panic("bad case: " + s)
	}
	c := tcase{path: f[0], mech: f[1], hs: parseV(f[2]), au: parseV(f[3]), cred: f[4], fkind: f[6], credidx: parseV(f[7])}
	c.fstep = -1
	if f[5] != "-" {
		c.fstep = parseV(f[5])
	}
	return c
}

func nsteps(mech string) int {
	if mech == "plain" {
		return 1
	}
	return 2
}

func enumerate(creds []credEntry) (main, side []tcase) {
	framedKinds := []string{saslfake.FUnsup, saslfake.FAuthFail, saslfake.FTrunc, saslfake.FShort, saslfake.FCorrID, saslfake.FClose}
	rawKinds := []string{saslfake.FTrunc, saslfake.FNegLen, saslfake.FJunk, saslfake.FClose}
	// the product of the property's quantifier
	for _, path := range []string{"d", "t"} {
		for _, mech := range []string{"plain", "s256", "s512"} {
			for _, hs := range []int{0, 1} {
				au := saslfake.Absent
				if hs == 1 {
					au = 1
				}
				for _, cred := range []string{"right", "wrongpw", "nouser"} {
					main = append(main, tcase{path: path, mech: mech, hs: hs, au: au, cred: cred, fstep: -1, fkind: saslfake.FNone, credidx: 0})
					for step := 0; step < 2+nsteps(mech); step++ {
						kinds := framedKinds
						if step >= 2 {
							if hs == 0 {
								kinds = rawKinds
							} else {
								kinds = append(append([]string{}, framedKinds...), saslfake.FJunk)
							}
						}
						for _, k := range kinds {
							main = append(main, tcase{path: path, mech: mech, hs: hs, au: au, cred: cred, fstep: step, fkind: k, credidx: 0})
						}
					}
				}
			}
		}
	}
	// side tables: every advertised version pair; every credential of the table
	for _, path := range []string{"d", "t"} {
		for _, mech := range []string{"plain", "s256"} {
			for _, hs := range []int{saslfake.Absent, -1, 0, 1, 3} {
				for _, au := range []int{saslfake.Absent, 0, 1, 2} {
					side = append(side, tcase{path: path, mech: mech, hs: hs, au: au, cred: "right", fstep: -1, fkind: saslfake.FNone, credidx: 0})
				}
			}
		}
		for i, ce := range creds {
			if i == 0 {
				continue
			}
			for _, mech := range []string{"plain", "s256", "s512"} {
				if mech == "plain" && ce.scramOnly {
					continue
				}
				for _, hs := range []int{0, 1} {
					au := saslfake.Absent
					if hs == 1 {
						au = 1
					}
					if ce.prohibited {
						side = append(side, tcase{path: path, mech: mech, hs: hs, au: au, cred: "prohib", fstep: -1, fkind: saslfake.FNone, credidx: i})
						continue
					}
					side = append(side, tcase{path: path, mech: mech, hs: hs, au: au, cred: "right", fstep: -1, fkind: saslfake.FNone, credidx: i})
					side = append(side, tcase{path: path, mech: mech, hs: hs, au: au, cred: "wrongpw", fstep: -1, fkind: saslfake.FNone, credidx: i})
				}
			}
		}
	}
	// error code x error_message of framed refusals: every code x {null, empty, text} at the
	// SaslAuthenticate steps (handshake v1), every code at ApiVersions and SaslHandshake
	// (those responses have no message field), both paths, every mechanism
	codes := []int{0, 58, 33, 34, 35, 1, -1, 128, 255, 32767, -32768}
	for _, path := range []string{"d", "t"} {
		for _, mech := range []string{"plain", "s256", "s512"} {
			for _, code := range codes {
				for step := 2; step < 2+nsteps(mech); step++ {
					for _, mode := range []string{"null", "empty", "text"} {
						side = append(side, tcase{path: path, mech: mech, hs: 1, au: 1, cred: "right", fstep: step,
							fkind: fmt.Sprintf("%s%s:%s", saslfake.FErrPrefix, kvfmt.I(int64(code)), mode)})
					}
				}
				for step := 0; step < 2; step++ {
					for _, hs := range []int{0, 1} {
						au := saslfake.Absent
						if hs == 1 {
							au = 1
						}
						side = append(side, tcase{path: path, mech: mech, hs: hs, au: au, cred: "right", fstep: step,
							fkind: fmt.Sprintf("%s%s:-", saslfake.FErrPrefix, kvfmt.I(int64(code)))})
					}
				}
			}
		}
	}
	// the dial address: every class x every way of making the connection x mechanisms x
	// handshake versions, fault-free
	for _, api := range []string{"d", "dl", "lp", "ld", "t", "tr"} {
		path := "d"
		if api == "t" || api == "tr" {
			path = "t"
		}
		for _, mech := range []string{"plain", "s256", "s512"} {
			for _, ac := range []string{"num", "noport", "svc", "ipv6", "zero", "huge", "empty"} {
				for _, hs := range []int{0, 1} {
					au := saslfake.Absent
					if hs == 1 {
						au = 1
					}
					side = append(side, tcase{path: path, mech: mech, hs: hs, au: au, cred: "right", fstep: -1, fkind: saslfake.FNone, api: api, addr: ac})
				}
			}
		}
	}
	// overlapping authentications over one Mechanism value
	for _, path := range []string{"d", "t"} {
		for _, mech := range []string{"plain", "s256", "s512"} {
			for _, hs := range []int{0, 1} {
				au := saslfake.Absent
				if hs == 1 {
					au = 1
				}
				for _, pat := range []string{"rr", "rw", "wr", "rrr", "rwr", "rrrr", "rnwr"} {
					side = append(side, tcase{path: path, mech: mech, hs: hs, au: au, cred: "right", fstep: -1, fkind: saslfake.FNone, pattern: pat})
				}
			}
		}
	}
	// the raw (handshake v0) response read: every class of length prefix x 0..3 payload
	// bytes x {close, silence until the read deadline} x both paths, at each raw step.
	// PLAIN accepts any payload, so for PLAIN a prefix smaller than the payload (trailing
	// garbage that would corrupt the first use of the handed-out connection) is left out,
	// and a complete response is only followed by silence (the broker stays).
	for _, path := range []string{"d", "t"} {
		for _, ms := range []struct {
			mech string
			step int
		}{{"plain", 2}, {"s256", 2}, {"s256", 3}} {
			for n := 0; n <= 3; n++ {
				seen := map[int64]bool{}
				for _, pfx := range []int64{0, 1, int64(n), int64(n) + 1, 1 << 16, 1 << 24, 1 << 30, 1<<31 - 1, -1, -(1 << 31)} {
					if seen[pfx] {
						continue
					}
					seen[pfx] = true
					if ms.mech == "plain" && pfx >= 0 && pfx < int64(n) {
						continue
					}
					// Conn path: readNewBytes allocates the announced length (an observation, not a
					// verdict).  Announced lengths >= 2^30 are kept on a few scripts only and run
					// one at a time: dozens of 1-2 GiB allocations in parallel children can exhaust
					// a loaded host and kill children at random.
					huge := pfx >= 1<<30
					if huge && path == "d" && !(ms.mech == "plain" && (n == 0 || n == 2)) {
						continue
					}
					for _, end := range []string{"close", "silent"} {
						if ms.mech == "plain" && pfx >= 0 && pfx <= int64(n) && end == "close" {
							continue // accepted by PLAIN: the broker must stay to serve the first use
						}
						side = append(side, tcase{path: path, mech: ms.mech, hs: 0, au: saslfake.Absent, cred: "right", fstep: ms.step,
							fkind: saslfake.FRawResp, rawPrefix: pfx, rawN: n, rawEnd: end, serial: huge && path == "d"})
					}
				}
			}
		}
	}
	return
}

// ---------------------------------------------------------------- running one case

type recConn struct {
	net.Conn
	mu     sync.Mutex
	closed bool
	capped bool // rawread cases: once the harness armed the read deadline the client cannot clear it
}

func (r *recConn) SetDeadline(t time.Time) error {
	if r.isCapped() && t.IsZero() {
		return r.Conn.SetWriteDeadline(t)
	}
	return r.Conn.SetDeadline(t)
}
func (r *recConn) SetReadDeadline(t time.Time) error {
	if r.isCapped() && t.IsZero() {
		return nil
	}
	return r.Conn.SetReadDeadline(t)
}
func (r *recConn) isCapped() bool { r.mu.Lock(); defer r.mu.Unlock(); return r.capped }
func (r *recConn) arm(d time.Duration) {
	r.mu.Lock()
	r.capped = true
	r.mu.Unlock()
	r.Conn.SetReadDeadline(time.Now().Add(d))
}

func (r *recConn) Close() error {
	r.mu.Lock()
	r.closed = true
	r.mu.Unlock()
	return r.Conn.Close()
}
func (r *recConn) isClosed() bool { r.mu.Lock(); defer r.mu.Unlock(); return r.closed }

var mechNames = map[string]string{"plain": "PLAIN", "s256": "SCRAM-SHA-256", "s512": "SCRAM-SHA-512"}

type outcome struct {
	res   string
	feats []string
	notes []string
	alloc uint64 // runtime.MemStats.TotalAlloc around the dial / round trip
	recv  int    // bytes of the faulted raw response that were put on the wire
	frame int    // rawcut: length of the genuine frame
	cut   bool   // rawcut: the frame was really cut
}

// recMech counts the challenges handed to the mechanism
type recMech struct {
	sasl.Mechanism
	n *int32
}

func (m recMech) Start(ctx context.Context) (sasl.StateMachine, []byte, error) {
	s, ir, err := m.Mechanism.Start(ctx)
	if err != nil {
		return nil, nil, err
	}
	return recSess{s, m.n}, ir, nil
}

type recSess struct {
	sasl.StateMachine
	n *int32
}

func (s recSess) Next(ctx context.Context, challenge []byte) (bool, []byte, error) {
	atomic.AddInt32(s.n, 1)
	return s.StateMachine.Next(ctx, challenge)
}

func cutClass(k, frame int) string {
	switch {
	case k == 0:
		return "cut=nothing"
	case k < 4:
		return "cut=in-prefix"
	case k == 4:
		return "cut=after-prefix"
	case k == frame-1:
		return "cut=last-byte"
	}
	return "cut=in-payload"
}

func runCase(c tcase, creds []credEntry, seed int64) outcome {
	ce := creds[c.credidx]
	var o outcome
	o.feats = append(o.feats, "path="+c.path, "mech="+c.mech, "hs="+verS(c.hs), "auth="+verS(c.au), "cred="+c.cred)
	if code, mode, ok := saslfake.ParseErrKind(c.fkind); ok {
		o.feats = append(o.feats, "fault=errcode", "fstep="+stepS(c.fstep), "code="+strconv.Itoa(int(code)), "msg="+mode)
	} else if c.fstep >= 0 {
		o.feats = append(o.feats, "fault="+c.fkind, "fstep="+stepS(c.fstep))
	} else {
		o.feats = append(o.feats, "fault=none")
	}
	if c.credidx != 0 {
		o.feats = append(o.feats, "credcase="+strings.SplitN(ce.label, " ", 2)[0])
	}

	// the server's database
	r := rand.New(rand.NewSource(seed ^ int64(len(c.args()))*1000003 ^ int64(c.credidx)<<20 ^ int64(c.fstep+2)<<8))
	salt := make([]byte, 16)
	r.Read(salt)
	snonce := make([]byte, 18)
	for i := range snonce {
		snonce[i] = "ABCDEFGHIJKLMNOPQRSTUVWXYZabcdefghijklmnopqrstuvwxyz0123456789+/%$)("[r.Intn(68)]
	}
	suser, spass := ce.suser, ce.spass
	if c.mech == "plain" {
		suser, spass = ce.user, ce.pass // PLAIN: the client sends its strings untouched
	}
	var db saslfake.DB
	switch c.cred {
	case "right", "prohib":
		db = saslfake.DB{{Name: suser, Password: spass, Salt: salt, Iter: 4096}}
	case "wrongpw":
		db = saslfake.DB{{Name: suser, Password: spass + "~other", Salt: salt, Iter: 4096}}
	case "nouser":
		db = saslfake.DB{{Name: suser + "-someone-else", Password: spass, Salt: salt, Iter: 4096}}
	}
	db = append(db, saslfake.User{Name: "bystander", Password: "bystander-pw", Salt: salt, Iter: 4096})

	var mech sasl.Mechanism
	var err error
	switch c.mech {
	case "plain":
		mech = plain.Mechanism{Username: ce.user, Password: ce.pass}
	case "s256":
		mech, err = scram.Mechanism(scram.SHA256, ce.user, ce.pass)
	case "s512":
		mech, err = scram.Mechanism(scram.SHA512, ce.user, ce.pass)
	}
	if err != nil {
		o.res = "MECHERR"
		o.notes = append(o.notes, err.Error())
		return o
	}

	script := &saslfake.Script{HsMax: c.hs, AuthMax: c.au, Mechs: []string{"PLAIN", "SCRAM-SHA-256", "SCRAM-SHA-512"},
		DB: db, SNonce: string(snonce), FaultStep: c.fstep, FaultKind: c.fkind,
		RawPrefix: int32(c.rawPrefix), RawPayload: c.rawN, RawEnd: c.rawEnd, CutPad: c.cutPad}
	if c.fkind == saslfake.FRawCut {
		o.feats = append(o.feats, "end="+c.rawEnd, "pad="+strconv.Itoa(c.cutPad))
	}
	var nextCalls int32
	mech = recMech{mech, &nextCalls}
	if c.fkind == saslfake.FRawResp {
		o.recv = 4 + c.rawN
		o.feats = append(o.feats, "end="+c.rawEnd, "payload="+strconv.Itoa(c.rawN), "prefix="+prefixClass(c.rawPrefix, c.rawN))
	}

	var mu sync.Mutex
	var journals []*saslfake.Journal
	var conns []*recConn
	var ends []net.Conn
	active := true
	dial := func(ctx context.Context, network, address string) (net.Conn, error) {
		mu.Lock()
		defer mu.Unlock()
		if !active {
			return nil, errors.New("c18: case is over")
		}
		cli, srv := net.Pipe()
		rc := &recConn{Conn: cli}
		conns = append(conns, rc)
		ends = append(ends, srv)
		sc := *script
		sc.OnFault = func() { rc.arm(120 * time.Millisecond) }
		journals = append(journals, saslfake.Serve(srv, &sc))
		return rc, nil
	}

	type ret struct {
		err      error
		closedAt bool
		useErr   error
	}
	done := make(chan ret, 1)
	var transport *kafka.Transport
	var m0, m1 runtime.MemStats
	runtime.ReadMemStats(&m0)
	address := "broker.test:9092"
	if c.api != "" {
		address = addrOf[c.addr]
		o.feats = append(o.feats, "api="+c.api, "addr="+c.addr)
	}
	go func() {
		ctx, cancel := context.WithTimeout(context.Background(), 6*time.Second)
		defer cancel()
		var rt ret
		if c.path == "d" {
			d := &kafka.Dialer{ClientID: "c18", DialFunc: dial, SASLMechanism: mech, Timeout: 6 * time.Second}
			var conn *kafka.Conn
			var err error
			switch c.api {
			case "dl":
				conn, err = d.Dial("tcp", address)
			case "lp":
				// dials, reads the partitions and closes by itself
				_, err = d.LookupPartition(ctx, "tcp", address, "t", 0)
			case "ld":
				// LookupPartition on the address, then a second connection to the leader
				conn, err = d.DialLeader(ctx, "tcp", address, "t", 0)
			default:
				conn, err = d.DialContext(ctx, "tcp", address)
			}
			rt.err = err
			mu.Lock()
			if len(conns) > 0 {
				rt.closedAt = conns[0].isClosed()
			}
			mu.Unlock()
			if err == nil && (c.api == "lp" || c.api == "ld") {
				rt.closedAt = false // the first connection was used and closed by the library's own lookup
			}
			if err == nil && conn != nil {
				conn.SetDeadline(time.Now().Add(4 * time.Second))
				_, rt.useErr = conn.ReadPartitions("t")
				conn.Close()
			}
		} else {
			transport = &kafka.Transport{ClientID: "c18", Dial: dial, SASL: mech, DialTimeout: 6 * time.Second, MetadataTTL: 1000 * time.Hour}
			if c.api == "tr" {
				transport.Resolver = staticResolver{}
			}
			_, err := transport.RoundTrip(ctx, kafka.TCP(address), &metadata.Request{TopicNames: []string{"t"}})
			rt.err = err
			mu.Lock()
			if len(conns) > 0 {
				rt.closedAt = conns[0].isClosed()
			}
			mu.Unlock()
		}
		done <- rt
	}()

	// the Conn path allocates the announced length: 1-2 GiB of page zeroing can take long on
	// a starved host
	watchdog := 9 * time.Second
	if c.fkind == saslfake.FRawResp && c.path == "d" && c.rawPrefix >= 1<<30 {
		watchdog = 60 * time.Second
	}
	var rt ret
	select {
	case rt = <-done:
		runtime.ReadMemStats(&m1)
		o.alloc = m1.TotalAlloc - m0.TotalAlloc
	case <-time.After(watchdog):
		mu.Lock()
		active = false
		for _, e := range ends {
			e.Close()
		}
		toks := ""
		if len(journals) > 0 {
			toks = strings.Join(journals[0].Tokens(), ",")
		}
		mu.Unlock()
		o.res = "HANG"
		o.notes = append(o.notes, "journal at watchdog: "+toks)
		return o
	}
	mu.Lock()
	active = false
	mu.Unlock()
	if transport != nil {
		transport.CloseIdleConnections()
	}
	// let the broker side finish reading what the client wrote / notice the close
	mu.Lock()
	js := append([]*saslfake.Journal(nil), journals...)
	mu.Unlock()
	// The journal is read only after the broker goroutine of every connection has FINISHED (it
	// ends when the client closes or the script closes), never while it may still be adding
	// tokens.  A connection the client leaves open is given 500 ms (late writes of a faulty
	// client are still journalled), then the broker's end is closed: net.Pipe writes are
	// synchronous, so everything the client wrote before the call returned has been read by
	// then, and the goroutine adds its token before it notices the close.  If a goroutine has
	// not ended 20 s later the case is UNSETTLED (no verdict), never a truncated journal.
	unsettled := false
	for i, j := range js {
		select {
		case <-j.ClientGone():
			continue
		case <-time.After(500 * time.Millisecond):
			o.notes = append(o.notes, "connection still open 500 ms after the case ended")
		}
		mu.Lock()
		if i < len(ends) {
			ends[i].Close()
		}
		mu.Unlock()
		select {
		case <-j.ClientGone():
		case <-time.After(20 * time.Second):
			unsettled = true
		}
	}
	if unsettled {
		o.res = "UNSETTLED"
		return o
	}
	if len(js) == 0 {
		o.res = "NOCONN"
		if rt.err != nil {
			o.res = "NOCONN E=1"
			o.notes = append(o.notes, "error: "+rt.err.Error())
		}
		return o
	}
	e := "0"
	if rt.err != nil || rt.useErr != nil {
		e = "1"
	}
	cl := "0"
	if rt.closedAt {
		cl = "1"
	}
	toks := js[0].Tokens()
	tj := "."
	if len(toks) > 0 {
		tj = strings.Join(toks, ",")
	}
	o.res = fmt.Sprintf("J=%s E=%s C=%s", tj, e, cl)
	if c.api == "ld" {
		// the journal of the second connection (to the partition leader)
		x := "-"
		if len(js) > 1 {
			x = strings.Join(js[1].Tokens(), ",")
		}
		o.res += " X=" + x
	}
	if c.fkind == saslfake.FRawResp || c.fkind == saslfake.FRawCut {
		o.res += " K=" + errClass(rt.err, rt.useErr)
	}
	if c.fkind == saslfake.FRawCut {
		// N: how many challenges the mechanism was handed (Next calls)
		o.res += fmt.Sprintf(" N=%d", atomic.LoadInt32(&nextCalls))
		o.frame, o.cut = js[0].Frame()
		if o.cut {
			o.recv = c.rawN
			o.feats = append(o.feats, cutClass(c.rawN, o.frame))
		} else {
			o.feats = append(o.feats, "not-cut")
		}
	}
	// notes (not compared): error class, extra connections
	switch {
	case rt.err == nil && rt.useErr != nil:
		o.notes = append(o.notes, "dial ok, first use failed: "+rt.useErr.Error())
	case rt.err == nil:
	case errors.Is(rt.err, kafka.UnsupportedSASLMechanism):
		o.feats = append(o.feats, "err=33")
	case errors.Is(rt.err, kafka.SASLAuthenticationFailed):
		o.feats = append(o.feats, "err=58")
	default:
		o.feats = append(o.feats, "err=other")
	}
	if rt.err != nil {
		o.notes = append(o.notes, "error: "+rt.err.Error())
	}
	if c.fstep >= 0 {
		if js[0].FaultReached() {
			o.feats = append(o.feats, "fault-reached")
		} else {
			o.feats = append(o.feats, "fault-unreached")
		}
	}
	for _, t := range toks {
		if t == "raw" {
			o.feats = append(o.feats, "raw-exchange")
			break
		}
	}
	for i, j := range js[1:] {
		o.notes = append(o.notes, fmt.Sprintf("extra connection %d: %s", i+1, strings.Join(j.Tokens(), ",")))
		o.feats = append(o.feats, "extra-conn")
	}
	for _, j := range js {
		o.notes = append(o.notes, j.Notes()...)
	}
	return o
}

type staticResolver struct{}

func (staticResolver) LookupBrokerIPAddr(ctx context.Context, b kafka.Broker) ([]net.IPAddr, error) {
	return []net.IPAddr{{IP: net.IPv4(127, 0, 0, 1)}}, nil
}

// runConc: len(pattern) authentications that overlap in time and share ONE Mechanism value:
// a Dialer used from several goroutines, or one Transport asked for several clusters at once.
// Connection i talks to "broker-<i>.test:9092"; its broker knows the right password, another
// password or another user according to pattern[i]; every broker holds its answer to the first
// authentication message until the first messages of all connections have arrived.
func runConc(c tcase, creds []credEntry, seed int64) outcome {
	ce := creds[0]
	n := len(c.pattern)
	var o outcome
	o.feats = append(o.feats, "path="+c.path, "mech="+c.mech, "hs="+verS(c.hs), "auth="+verS(c.au), "cred=mixed",
		"conc="+strconv.Itoa(n), "pattern="+c.pattern)
	r := rand.New(rand.NewSource(seed ^ int64(len(c.args()))*7368787))
	salt := make([]byte, 16)
	r.Read(salt)
	var mech sasl.Mechanism
	var err error
	switch c.mech {
	case "plain":
		mech = plain.Mechanism{Username: ce.user, Password: ce.pass}
	case "s256":
		mech, err = scram.Mechanism(scram.SHA256, ce.user, ce.pass)
	case "s512":
		mech, err = scram.Mechanism(scram.SHA512, ce.user, ce.pass)
	}
	if err != nil {
		o.res = "MECHERR"
		return o
	}
	// the barrier: all first authentication messages have arrived (or 3 s have passed)
	var bmu sync.Mutex
	arrived := 0
	all := make(chan struct{})
	overlap := true
	barrier := func() {
		bmu.Lock()
		arrived++
		if arrived == n {
			close(all)
		}
		bmu.Unlock()
		select {
		case <-all:
		case <-time.After(3 * time.Second):
			bmu.Lock()
			overlap = false
			bmu.Unlock()
		}
	}
	scripts := make([]*saslfake.Script, n)
	for i := 0; i < n; i++ {
		snonce := make([]byte, 18)
		for k := range snonce {
			snonce[k] = "ABCDEFGHIJKLMNOPQRSTUVWXYZabcdefghijklmnopqrstuvwxyz0123456789"[r.Intn(62)]
		}
		var db saslfake.DB
		switch c.pattern[i] {
		case 'r':
			db = saslfake.DB{{Name: ce.suser, Password: ce.spass, Salt: salt, Iter: 4096}}
		case 'w':
			db = saslfake.DB{{Name: ce.suser, Password: ce.spass + "~other", Salt: salt, Iter: 4096}}
		default:
			db = saslfake.DB{{Name: ce.suser + "-someone-else", Password: ce.spass, Salt: salt, Iter: 4096}}
		}
		scripts[i] = &saslfake.Script{HsMax: c.hs, AuthMax: c.au, Mechs: []string{"PLAIN", "SCRAM-SHA-256", "SCRAM-SHA-512"},
			DB: db, SNonce: string(snonce), FaultStep: -1, FaultKind: saslfake.FNone, Barrier: barrier}
	}
	var mu sync.Mutex
	journals := make([][]*saslfake.Journal, n)
	conns := make([][]*recConn, n)
	var ends []net.Conn
	active := true
	dial := func(ctx context.Context, network, address string) (net.Conn, error) {
		mu.Lock()
		defer mu.Unlock()
		var i int
		if _, err := fmt.Sscanf(address, "broker-%d.test:9092", &i); err != nil || i < 0 || i >= n || !active {
			return nil, errors.New("c18: unexpected dial " + address)
		}
		cli, srv := net.Pipe()
		rc := &recConn{Conn: cli}
		conns[i] = append(conns[i], rc)
		ends = append(ends, srv)
		journals[i] = append(journals[i], saslfake.Serve(srv, scripts[i]))
		return rc, nil
	}
	type ret struct {
		err, useErr error
		closedAt    bool
	}
	rets := make([]ret, n)
	var transport *kafka.Transport
	if c.path == "t" {
		transport = &kafka.Transport{ClientID: "c18", Dial: dial, SASL: mech, DialTimeout: 6 * time.Second, MetadataTTL: 1000 * time.Hour}
	}
	dialer := &kafka.Dialer{ClientID: "c18", DialFunc: dial, SASLMechanism: mech, Timeout: 6 * time.Second}
	var wg sync.WaitGroup
	for i := 0; i < n; i++ {
		wg.Add(1)
		go func(i int) {
			defer wg.Done()
			ctx, cancel := context.WithTimeout(context.Background(), 6*time.Second)
			defer cancel()
			addr := fmt.Sprintf("broker-%d.test:9092", i)
			closed := func() bool {
				mu.Lock()
				defer mu.Unlock()
				return len(conns[i]) > 0 && conns[i][0].isClosed()
			}
			if c.path == "d" {
				conn, err := dialer.DialContext(ctx, "tcp", addr)
				rets[i].err = err
				rets[i].closedAt = closed()
				if err == nil {
					conn.SetDeadline(time.Now().Add(4 * time.Second))
					_, rets[i].useErr = conn.ReadPartitions("t")
					conn.Close()
				}
			} else {
				_, err := transport.RoundTrip(ctx, kafka.TCP(addr), &metadata.Request{TopicNames: []string{"t"}})
				rets[i].err = err
				rets[i].closedAt = closed()
			}
		}(i)
	}
	done := make(chan struct{})
	go func() { wg.Wait(); close(done) }()
	select {
	case <-done:
	case <-time.After(12 * time.Second):
		mu.Lock()
		active = false
		for _, e := range ends {
			e.Close()
		}
		mu.Unlock()
		o.res = "HANG"
		return o
	}
	mu.Lock()
	active = false
	mu.Unlock()
	if transport != nil {
		transport.CloseIdleConnections()
	}
	var parts []string
	for i := 0; i < n; i++ {
		mu.Lock()
		js := append([]*saslfake.Journal(nil), journals[i]...)
		mu.Unlock()
		if len(js) == 0 {
			parts = append(parts, "NOCONN")
			continue
		}
		for k, j := range js {
			select {
			case <-j.ClientGone():
				continue
			case <-time.After(500 * time.Millisecond):
			}
			_ = k
			mu.Lock()
			for _, e := range ends {
				e.Close()
			}
			mu.Unlock()
			select {
			case <-j.ClientGone():
			case <-time.After(20 * time.Second):
				o.res = "UNSETTLED"
				return o
			}
		}
		e, cl := "0", "0"
		if rets[i].err != nil || rets[i].useErr != nil {
			e = "1"
		}
		if rets[i].closedAt {
			cl = "1"
		}
		toks := js[0].Tokens()
		tj := "."
		if len(toks) > 0 {
			tj = strings.Join(toks, ",")
		}
		parts = append(parts, fmt.Sprintf("J=%s E=%s C=%s", tj, e, cl))
		if rets[i].err != nil {
			o.notes = append(o.notes, fmt.Sprintf("conn %d error: %v", i, rets[i].err))
		}
		if len(js) > 1 {
			o.feats = append(o.feats, "extra-conn")
		}
	}
	o.res = strings.Join(parts, " / ")
	bmu.Lock()
	if overlap {
		o.feats = append(o.feats, "overlap-forced")
	} else {
		o.feats = append(o.feats, "overlap-timeout")
	}
	bmu.Unlock()
	return o
}

// errClass: how the dial / round trip ended, for the raw response cases
func errClass(err, useErr error) string {
	var ne net.Error
	switch {
	case err == nil && useErr == nil:
		return "ok"
	case err == nil:
		return "use"
	case errors.Is(err, kafka.SASLAuthenticationFailed):
		return "eof" // io.EOF is reported as SASLAuthenticationFailed by both authenticateSASL loops
	case errors.Is(err, io.ErrUnexpectedEOF):
		return "ueof"
	case strings.Contains(err.Error(), "invalid SASL authentication response length"):
		return "proto"
	case errors.Is(err, os.ErrDeadlineExceeded) || (errors.As(err, &ne) && ne.Timeout()):
		return "timeout"
	}
	return "mech"
}

// prefixClass names the length prefix relative to the payload that follows
func prefixClass(p int64, n int) string {
	switch {
	case p < 0:
		return "negative"
	case p == int64(n):
		return "exact"
	case p < int64(n):
		return "less"
	case p == int64(n)+1:
		return "one-more"
	case p >= 1<<30:
		return "huge"
	}
	return "more"
}

func clean(s string) string {
	s = strings.ReplaceAll(s, "\n", " ")
	s = strings.ReplaceAll(s, "|", "/")
	return s
}

// ---------------------------------------------------------------- child / parent

func child(creds []credEntry, seed int64) {
	in := bufio.NewScanner(os.Stdin)
	in.Buffer(make([]byte, 1<<20), 1<<20)
	out := bufio.NewWriter(os.Stdout)
	for in.Scan() {
		line := strings.TrimSpace(in.Text())
		if line == "" {
			continue
		}
		sp := strings.SplitN(line, " ", 2)
		fmt.Fprintf(out, "BEGIN %s\n", sp[0])
		out.Flush()
		pc := parseCase(sp[1])
		var o outcome
		if pc.pattern != "" {
			o = runConc(pc, creds, seed)
		} else {
			o = runCase(pc, creds, seed)
		}
		if len(o.feats) > 5 {
			sort.Strings(o.feats[5:])
		}
		fmt.Fprintf(out, "RES %s | %s | %s | %s | alloc=%d recv=%d frame=%d cut=%v\n", sp[0], o.res, strings.Join(o.feats, ","), clean(strings.Join(o.notes, "; ")), o.alloc, o.recv, o.frame, o.cut)
		out.Flush()
	}
}

type result struct {
	res, feats, notes, meas string
}

func runWorker(self string, seed int64, ids []int, cases []tcase, results []result, wg *sync.WaitGroup) {
	defer wg.Done()
	restarts := 0
	for len(ids) > 0 {
		// under an address-space limit, as checks/schema_common.run_dec_child does
		cmd := exec.Command("sh", "-c", fmt.Sprintf("ulimit -v %d; exec \"$0\" -child -seed %d", *vlimitKB, seed), self)
		stdin, _ := cmd.StdinPipe()
		stdout, _ := cmd.StdoutPipe()
		var stderr strings.Builder
		cmd.Stderr = &stderr
		if err := cmd.Start(); err != nil {
			fmt.Fprintln(os.Stderr, "cannot start child:", err)
			os.Exit(3)
		}
		go func(ids []int) {
			w := bufio.NewWriter(stdin)
			for _, i := range ids {
				fmt.Fprintf(w, "%d %s %s\n", i, cases[i].op(), cases[i].args())
			}
			w.Flush()
			stdin.Close()
		}(ids)
		sc := bufio.NewScanner(stdout)
		sc.Buffer(make([]byte, 1<<20), 1<<20)
		current := -1
		doneN := 0
		for sc.Scan() {
			line := sc.Text()
			switch {
			case strings.HasPrefix(line, "BEGIN "):
				current, _ = strconv.Atoi(line[6:])
			case strings.HasPrefix(line, "RES "):
				p := strings.SplitN(line[4:], " | ", 5)
				i, _ := strconv.Atoi(p[0])
				for len(p) < 5 {
					p = append(p, "")
				}
				results[i] = result{p[1], p[2], p[3], p[4]}
				current = -1
				doneN++
			}
		}
		io.Copy(io.Discard, stdout)
		err := cmd.Wait()
		if current >= 0 {
			// the child died while running this case
			msg := stderr.String()
			if k := strings.Index(msg, "panic:"); k >= 0 {
				msg = msg[k:]
			}
			if len(msg) > 600 {
				msg = msg[:600]
			}
			o := result{res: "PANIC", notes: clean(msg), meas: "alloc=0 recv=0"}
			if strings.Contains(stderr.String(), "out of memory") || strings.Contains(stderr.String(), "cannot allocate") {
				o.res = "OOM"
			} else if !strings.Contains(stderr.String(), "panic:") && !strings.Contains(stderr.String(), "fatal error:") {
				// no Go crash report: the child was killed from outside (OOM killer, job
				// control); that says nothing about the library
				o.res = "KILLED"
				o.notes = clean(fmt.Sprintf("child ended without a Go crash report: %v %s", err, msg))
			}
			c := cases[current]
			o.feats = fmt.Sprintf("path=%s,mech=%s,hs=%s,auth=%s,cred=%s,fault=%s,fstep=%s,crash", c.path, c.mech, verS(c.hs), verS(c.au), c.cred, c.fkind, stepS(c.fstep))
			results[current] = o
			doneN++
		} else if err != nil && doneN < len(ids) {
			// died between two cases: start another child for the rest (a few times)
			restarts++
			if restarts > 8 {
				fmt.Fprintln(os.Stderr, "child failed without a running case:", err, stderr.String())
				os.Exit(3)
			}
		}
		ids = ids[doneN:]
	}
}

var vlimitKB = new(int64)

// enumerateCuts: every cut position of the genuine raw response (positions past the end
// of the frame come back tagged not-cut and are dropped by the check) for PLAIN step 2
// (empty payload, and padded to 8 bytes), SCRAM-SHA-256 steps 2 and 3, both paths; ending
// close at every position, silence + read deadline at every stride-th position and at the
// positions around the prefix.
func enumerateCuts(stride int) (cs []tcase) {
	for _, path := range []string{"d", "t"} {
		for _, ms := range []struct {
			mech      string
			step, pad int
			kmax      int
		}{{"plain", 2, 0, 4}, {"plain", 2, 8, 12}, {"s256", 2, 0, 140}, {"s256", 3, 0, 60}, {"s512", 3, 0, 100}} {
			for k := 0; k < ms.kmax; k++ {
				cs = append(cs, tcase{path: path, mech: ms.mech, hs: 0, au: saslfake.Absent, cred: "right", fstep: ms.step,
					fkind: saslfake.FRawCut, rawN: k, rawEnd: "close", cutPad: ms.pad})
				if k <= 5 || k%stride == 0 {
					cs = append(cs, tcase{path: path, mech: ms.mech, hs: 0, au: saslfake.Absent, cred: "right", fstep: ms.step,
						fkind: saslfake.FRawCut, rawN: k, rawEnd: "silent", cutPad: ms.pad})
				}
			}
		}
	}
	return
}

func main() {
	seed := flag.Int64("seed", 1, "PRNG seed")
	isChild := flag.Bool("child", false, "internal: run cases from stdin")
	one := flag.String("case", "", "run a single case (the arguments after 'run') in-process and print it")
	defWorkers := runtime.NumCPU() / 2
	if defWorkers > 12 {
		defWorkers = 12
	}
	if defWorkers < 2 {
		defWorkers = 2
	}
	workers := flag.Int("workers", defWorkers, "parallel child processes (default min(12, NumCPU/2))")
	subset := flag.String("subset", "all", "all | rawcut (only the cut positions of the raw SASL response) | rawread (only the raw response reads) | nofault (only the fault-free runs)")
	cutStride := flag.Int("cutstride", 6, "rawcut: silence ending at every n-th cut position")
	flag.Int64Var(vlimitKB, "vlimit", 24000000, "address-space limit of the child processes, KB (ulimit -v)")
	flag.Int("n", 0, "unused (the enumeration is exhaustive)")
	flag.Parse()

	creds := credTable(*seed)
	if err := saslfake.SelfTest(); err != nil {
		fmt.Fprintln(os.Stderr, "reference server self-test failed:", err)
		os.Exit(4)
	}
	if *isChild {
		child(creds, *seed)
		return
	}
	if *one != "" {
		c := parseCase(*one)
		var o outcome
		if c.pattern != "" {
			o = runConc(c, creds, *seed)
		} else {
			o = runCase(c, creds, *seed)
		}
		fmt.Printf("1 %s %s | %s | %s | alloc=%d recv=%d frame=%d cut=%v\n# %s\n", c.op(), c.args(), o.res, strings.Join(o.feats, ","), o.alloc, o.recv, o.frame, o.cut, strings.Join(o.notes, "; "))
		return
	}

	mainCases, side := enumerate(creds)
	if *subset == "rawcut" {
		mainCases, side = nil, enumerateCuts(*cutStride)
	}
	if *subset == "nofault" { // only the fault-free runs of the product (request framing per negotiated versions; hosted by C04 too)
		var only []tcase
		for _, c := range append(append([]tcase{}, mainCases...), side...) {
			if c.fstep < 0 && c.op() == "run" {
				only = append(only, c)
			}
		}
		mainCases, side = nil, only
	}
	if *subset == "rawread" { // only the raw response reads (allocation measured per case; hosted by C20 too)
		var only []tcase
		for _, c := range side {
			if c.op() == "rawread" {
				only = append(only, c)
			}
		}
		mainCases, side = nil, only
	}
	cases := append(append([]tcase{}, mainCases...), side...)
	results := make([]result, len(cases))
	self, _ := os.Executable()
	var wg sync.WaitGroup
	var par, ser []int
	for i, c := range cases {
		if c.serial {
			ser = append(ser, i)
		} else {
			par = append(par, i)
		}
	}
	for w := 0; w < *workers; w++ {
		var ids []int
		for i := w; i < len(par); i += *workers {
			ids = append(ids, par[i])
		}
		wg.Add(1)
		go runWorker(self, *seed, ids, cases, results, &wg)
	}
	wg.Wait()
	if len(ser) > 0 { // one at a time, nothing else running
		wg.Add(1)
		runWorker(self, *seed, ser, cases, results, &wg)
	}
	out := bufio.NewWriter(os.Stdout)
	defer out.Flush()
	for i, c := range cases {
		part := "product"
		if i >= len(mainCases) {
			part = "side"
		}
		r := results[i]
		fmt.Fprintf(out, "%d %s %s | %s | %s,%s | %s\n", i+1, c.op(), c.args(), r.res, r.feats, part, r.meas)
		if r.notes != "" {
			fmt.Fprintf(os.Stderr, "NOTE %d %s\n", i+1, r.notes)
		}
	}
}
