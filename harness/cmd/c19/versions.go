package main

// Version sweep of the query APIs through the REAL kafka.Transport: the fake brokers' ApiVersions
// answer pins the highest version of one API to v, so the library negotiates exactly v, and the
// RESPONSES of ListOffsets / Metadata / OffsetCommit / OffsetFetch are laid out by hand below from
// the Kafka protocol guide (https://kafka.apache.org/protocol: "Responses" of each API key, per
// version) — not from the struct tags of /repo/protocol and not with the library's encoder.
// None of the versions the library registers for these four APIs is flexible (ListOffsets v1-v5,
// Metadata v0-v8, OffsetCommit v0-v7, OffsetFetch v0-v5: flexible from v6 / v9 / v8 / v6), so all
// frames use the classic encodings: int16-length strings (-1 = null), int32-length arrays.
//
// Cases are emitted in the formats of the lo / of / oc / md / co families with, as the broker's
// response, what a broker of that version CONVEYS (throttle_time_ms, top-level error_code, rack,
// cluster_id, controller_id, is_internal exist from some version on), and go through the same
// extracted model and predicates.

import (
	"context"
	"encoding/binary"
	"fmt"
	"math/rand"
	"strings"
	"time"

	kafka "github.com/segmentio/kafka-go"
	"github.com/segmentio/kafka-go/protocol"
	"github.com/segmentio/kafka-go/protocol/listoffsets"
	"github.com/segmentio/kafka-go/protocol/metadata"
	"github.com/segmentio/kafka-go/protocol/offsetcommit"
	"github.com/segmentio/kafka-go/protocol/offsetfetch"
	"kverif/kvfmt"
)

type wire struct{ b []byte }

func (w *wire) i8(v int8)   { w.b = append(w.b, byte(v)) }
func (w *wire) i16(v int16) { w.b = binary.BigEndian.AppendUint16(w.b, uint16(v)) }
func (w *wire) i32(v int32) { w.b = binary.BigEndian.AppendUint32(w.b, uint32(v)) }
func (w *wire) i64(v int64) { w.b = binary.BigEndian.AppendUint64(w.b, uint64(v)) }
func (w *wire) str(s string) {
	w.i16(int16(len(s)))
	w.b = append(w.b, s...)
}

// nullable string: the empty string is sent as null (what brokers do for an absent rack / metadata)
func (w *wire) nstr(s string) {
	if s == "" {
		w.i16(-1)
		return
	}
	w.str(s)
}
func (w *wire) i32s(l []int32) {
	w.i32(int32(len(l)))
	for _, v := range l {
		w.i32(v)
	}
}
func (w *wire) boolean(v bool) {
	if v {
		w.i8(1)
	} else {
		w.i8(0)
	}
}

// handEncode lays out the body of the response (after the correlation id) for the four query APIs;
// nil = not one of them (the caller falls back to the library's encoder: ApiVersions, FindCoordinator).
func handEncode(v int16, res protocol.Message) []byte {
	w := &wire{}
	switch r := res.(type) {
	case *offsetfetch.Response:
		// OffsetFetch Response (Version: 0-1) => [topics]
		//   topics => name [partitions]; partitions => partition_index committed_offset metadata error_code
		// v2: ... error_code (top level, after the topics);  v3-v4: throttle_time_ms first;
		// v5: partitions => partition_index committed_offset committed_leader_epoch metadata error_code
		if v >= 3 {
			w.i32(r.ThrottleTimeMs)
		}
		w.i32(int32(len(r.Topics)))
		for _, t := range r.Topics {
			w.str(t.Name)
			w.i32(int32(len(t.Partitions)))
			for _, p := range t.Partitions {
				w.i32(p.PartitionIndex)
				w.i64(p.CommittedOffset)
				if v >= 5 {
					w.i32(p.ComittedLeaderEpoch)
				}
				w.nstr(p.Metadata)
				w.i16(p.ErrorCode)
			}
		}
		if v >= 2 {
			w.i16(r.ErrorCode)
		}
	case *listoffsets.Response:
		// ListOffsets Response (Version: 1) => [topics]; topics => name [partitions];
		//   partitions => partition_index error_code timestamp offset
		// v2-v3: throttle_time_ms first;  v4-v5: partitions => ... offset leader_epoch
		if v >= 2 {
			w.i32(r.ThrottleTimeMs)
		}
		w.i32(int32(len(r.Topics)))
		for _, t := range r.Topics {
			w.str(t.Topic)
			w.i32(int32(len(t.Partitions)))
			for _, p := range t.Partitions {
				w.i32(p.Partition)
				w.i16(p.ErrorCode)
				w.i64(p.Timestamp)
				w.i64(p.Offset)
				if v >= 4 {
					w.i32(p.LeaderEpoch)
				}
			}
		}
	case *offsetcommit.Response:
		// OffsetCommit Response (Version: 0-2) => [topics]; topics => name [partitions];
		//   partitions => partition_index error_code;   v3-v7: throttle_time_ms first
		if v >= 3 {
			w.i32(r.ThrottleTimeMs)
		}
		w.i32(int32(len(r.Topics)))
		for _, t := range r.Topics {
			w.str(t.Name)
			w.i32(int32(len(t.Partitions)))
			for _, p := range t.Partitions {
				w.i32(p.PartitionIndex)
				w.i16(p.ErrorCode)
			}
		}
	case *metadata.Response:
		// Metadata Response (Version: 0) => [brokers] [topics]
		//   brokers => node_id host port;  topics => error_code name [partitions]
		//   partitions => error_code partition_index leader_id [replica_nodes] [isr_nodes]
		// v1: brokers => ... rack; controller_id after the brokers; topics => error_code name is_internal
		// v2: cluster_id (nullable) between the brokers and controller_id;  v3-v4: throttle_time_ms first
		// v5-v6: partitions => ... [offline_replicas];  v7: partitions => ... leader_id leader_epoch ...
		// v8: topics => ... topic_authorized_operations; cluster_authorized_operations last
		if v >= 3 {
			w.i32(r.ThrottleTimeMs)
		}
		w.i32(int32(len(r.Brokers)))
		for _, b := range r.Brokers {
			w.i32(b.NodeID)
			w.str(b.Host)
			w.i32(b.Port)
			if v >= 1 {
				w.nstr(b.Rack)
			}
		}
		if v >= 2 {
			w.nstr(r.ClusterID)
		}
		if v >= 1 {
			w.i32(r.ControllerID)
		}
		w.i32(int32(len(r.Topics)))
		for _, t := range r.Topics {
			w.i16(t.ErrorCode)
			w.str(t.Name)
			if v >= 1 {
				w.boolean(t.IsInternal)
			}
			w.i32(int32(len(t.Partitions)))
			for _, p := range t.Partitions {
				w.i16(p.ErrorCode)
				w.i32(p.PartitionIndex)
				w.i32(p.LeaderID)
				if v >= 7 {
					w.i32(p.LeaderEpoch)
				}
				w.i32s(p.ReplicaNodes)
				w.i32s(p.IsrNodes)
				if v >= 5 {
					w.i32s(p.OfflineReplicas)
				}
			}
			if v >= 8 {
				w.i32(t.TopicAuthorizedOperations)
			}
		}
		if v >= 8 {
			w.i32(r.ClusterAuthorizedOperations)
		}
	default:
		return nil
	}
	return w.b
}

// conveyedMetadata: the cluster's metadata as a broker of version v conveys it
func (e *e2eCluster) conveyedMetadata(v int16) *metadata.Response {
	r := &metadata.Response{}
	if v >= 3 {
		r.ThrottleTimeMs = e.throttle
	}
	if v >= 2 {
		r.ClusterID = "e2e"
	}
	if v >= 1 {
		r.ControllerID = int32(e.nb - 1)
	}
	for b := 0; b < e.nb; b++ {
		rb := metadata.ResponseBroker{NodeID: int32(b), Host: e2eHost(b), Port: 9092}
		if e.racks && v >= 1 {
			rb.Rack = fmt.Sprintf("rack-%d", b%2)
		}
		r.Brokers = append(r.Brokers, rb)
	}
	t := metadata.ResponseTopic{Name: e.topic}
	for p, st := range e.parts {
		t.Partitions = append(t.Partitions, metadata.ResponsePartition{PartitionIndex: int32(p), LeaderID: st.leader, ReplicaNodes: []int32{st.leader}, IsrNodes: []int32{st.leader}})
	}
	r.Topics = []metadata.ResponseTopic{t}
	return r
}

func fmtMdAPI(res *kafka.MetadataResponse) string {
	bs := make([]string, len(res.Brokers))
	for j, b := range res.Brokers {
		bs[j] = fmtBroker(b)
	}
	ts := make([]string, len(res.Topics))
	for j, t := range res.Topics {
		ts[j] = S(t.Name) + "/" + kvfmt.Bool(t.Internal) + "/" + code(t.Error) + ":" + fmtPartitions(t.Partitions)
	}
	return I(int64(res.Throttle/time.Millisecond)) + " " + S(res.ClusterID) + " " + fmtBroker(res.Controller) + " " + join(bs, ",") + " " + join(ts, ";")
}

func errText(err error) string { return "ERR:" + strings.ReplaceAll(err.Error(), " ", "_") }

// tierVersions: a handful of cases per (api, version).
func tierVersions(r *rand.Rand, reps int) {
	sweeps := []struct {
		api      string
		key      protocol.ApiKey
		min, max int16
	}{
		{"of", protocol.OffsetFetch, 0, 5},
		{"lo", protocol.ListOffsets, 1, 5},
		{"md", protocol.Metadata, 0, 8},
		{"oc", protocol.OffsetCommit, 0, 7},
	}
	ctx := context.Background()
	for _, sw := range sweeps {
		for v := sw.min; v <= sw.max; v++ {
			for rep := 0; rep < reps; rep++ {
				e, bootstrap := genE2E(r)
				e.hand, e.racks = true, true
				e.throttle = int32(10 + r.Intn(90))
				e.maxVer = map[protocol.ApiKey]int16{sw.key: v}
				e.verSeen = map[protocol.ApiKey]int16{}
				e.coord["grp-err"] = int32(r.Intn(e.nb))
				e.groupErr["grp-err"] = 25 // UNKNOWN_MEMBER_ID at group level (conveyed from v2 on)
				e.committed["grp-err"] = map[int32]commitState{}
				tr := &kafka.Transport{Dial: e.dial, DialTimeout: 2 * time.Second}
				client := &kafka.Client{Addr: kafka.TCP(e2eHost(bootstrap) + ":9092"), Transport: tr, Timeout: 5 * time.Second}
				feats := []string{"ver-sweep", "api=" + sw.api, fmt.Sprintf("v=%d", v)}
				np := len(e.parts)
				seen := func(res string) string { // the version the brokers actually saw must be the pinned one
					e.mu.Lock()
					defer e.mu.Unlock()
					if got, ok := e.verSeen[sw.key]; !ok || got != v {
						return fmt.Sprintf("VERSION-BAD(saw_%d_ok_%v)", got, ok) + res
					}
					return res
				}
				switch sw.api {
				case "of":
					for _, group := range []string{fmt.Sprintf("grp-%d", r.Intn(e.nb+1)), "grp-err"} {
						var ids []int
						for p := 0; p < np; p++ {
							if r.Intn(4) != 0 {
								ids = append(ids, p)
							}
						}
						if len(ids) == 0 {
							ids = []int{0}
						}
						fres, err := client.OffsetFetch(ctx, &kafka.OffsetFetchRequest{GroupID: group, Topics: map[string][]int{e.topic: ids}})
						want := &offsetfetch.Response{Topics: []offsetfetch.ResponseTopic{{Name: e.topic}}}
						if v >= 3 {
							want.ThrottleTimeMs = e.throttle
						}
						if v >= 2 {
							want.ErrorCode = e.groupErr[group]
						}
						ids32 := make([]int32, len(ids))
						e.mu.Lock()
						for k, p := range ids {
							ids32[k] = int32(p)
							want.Topics[0].Partitions = append(want.Topics[0].Partitions, e.fetchOne(true, group, int32(p)))
						}
						e.mu.Unlock()
						ulist := S(e.topic) + ":" + fmtIDs(ids32)
						gf := feats
						if group == "grp-err" {
							gf = append(append([]string{}, feats...), "group-error")
						}
						if err != nil {
							emit("of", ulist+" "+fmtOfResponse(want), seen("Q"+ulist+" "+errText(err)), gf)
						} else {
							emit("of", ulist+" "+fmtOfResponse(want), seen("Q"+ulist+" "+fmtOfAPI(fres)), gf)
						}
					}
					// ConsumerOffsets: Metadata (at its highest version) then OffsetFetch at version v
					group := fmt.Sprintf("grp-%d", r.Intn(e.nb+1))
					co, err := client.ConsumerOffsets(ctx, kafka.TopicAndGroup{Topic: e.topic, GroupId: group})
					want := &offsetfetch.Response{Topics: []offsetfetch.ResponseTopic{{Name: e.topic}}}
					if v >= 3 {
						want.ThrottleTimeMs = e.throttle
					}
					ids32 := make([]int32, np)
					e.mu.Lock()
					for p := 0; p < np; p++ {
						ids32[p] = int32(p)
						want.Topics[0].Partitions = append(want.Topics[0].Partitions, e.fetchOne(true, group, int32(p)))
					}
					e.mu.Unlock()
					cargs := S(e.topic) + " " + fmtMdResponse(e.conveyedMetadata(8)) + " " + fmtOfResponse(want)
					cq := "Q" + S(e.topic) + ":" + fmtIDs(ids32)
					if err != nil {
						emit("co", cargs, seen(cq+" "+errText(err)), append(append([]string{}, feats...), "consumer-offsets"))
					} else {
						rl := make([]string, 0, len(co))
						for p := 0; p < np; p++ {
							if off, ok := co[p]; ok {
								rl = append(rl, I(int64(p))+"/"+I(off))
							}
						}
						emit("co", cargs, seen(cq+" R"+join(rl, ",")), append(append([]string{}, feats...), "consumer-offsets"))
					}
				case "lo":
					var reqs []kafka.OffsetRequest
					for p := 0; p < np; p++ {
						switch r.Intn(3) {
						case 0:
							reqs = append(reqs, kafka.FirstOffsetOf(p))
						case 1:
							reqs = append(reqs, kafka.LastOffsetOf(p))
						default:
							reqs = append(reqs, kafka.FirstOffsetOf(p), kafka.LastOffsetOf(p))
						}
						if r.Intn(3) == 0 {
							reqs = append(reqs, kafka.OffsetRequest{Partition: p, Timestamp: 1600000000000 + int64(r.Intn(150))})
						}
					}
					res, err := client.ListOffsets(ctx, &kafka.ListOffsetsRequest{Topics: map[string][]kafka.OffsetRequest{e.topic: reqs}})
					ul := make([]string, len(reqs))
					outs := make([]string, len(reqs))
					pq := &listoffsets.Request{ReplicaID: -1, Topics: []listoffsets.RequestTopic{{Topic: e.topic}}}
					th := int32(0)
					if v >= 2 {
						th = e.throttle
					}
					for k, q := range reqs {
						ul[k] = I(int64(q.Partition)) + "/" + I(q.Timestamp)
						a := e.listOffset(-1, e.topic, int32(q.Partition), q.Timestamp)
						if v < 4 {
							a.LeaderEpoch = 0 // not on the wire before v4
						}
						outs[k] = "A/" + I(int64(a.ErrorCode)) + "/" + I(a.Timestamp) + "/" + I(a.Offset) + "/" + I(int64(a.LeaderEpoch)) + "/" + I(int64(th))
						pq.Topics[0].Partitions = append(pq.Topics[0].Partitions, listoffsets.RequestPartition{Partition: int32(q.Partition), CurrentLeaderEpoch: -1, Timestamp: q.Timestamp})
					}
					args := "0 " + S(e.topic) + ":" + strings.Join(ul, ",") + " " + join(outs, "~")
					q := "Q" + fmtReq(pq, "@")
					if err != nil {
						emit("lo", args, seen(q+" "+errText(err)), feats)
					} else {
						emit("lo", args, seen(q+" "+e.fmtLoEntries(res)), feats)
					}
				case "md":
					res, err := client.Metadata(ctx, &kafka.MetadataRequest{})
					conveyed := e.conveyedMetadata(v)
					conveyed.ThrottleTimeMs = 0 // Client.Metadata is answered from the Transport's cache, whose throttle time is reset (transport.go)
					args := fmtMdResponse(conveyed)
					if err != nil {
						emit("md", args, seen(errText(err)), feats)
					} else {
						emit("md", args, seen(fmtMdAPI(res)), feats)
					}
				case "oc":
					group := fmt.Sprintf("grp-%d", r.Intn(e.nb+1))
					var commits []kafka.OffsetCommit
					for p := 0; p < np; p++ {
						if p == 0 || r.Intn(2) == 0 {
							commits = append(commits, kafka.OffsetCommit{Partition: p, Offset: int64(700000 + r.Intn(1000)), Metadata: []string{"", "c"}[r.Intn(2)]})
						}
					}
					gen := r.Intn(50)
					cres, err := client.OffsetCommit(ctx, &kafka.OffsetCommitRequest{GroupID: group, GenerationID: gen, MemberID: "m1", Topics: map[string][]kafka.OffsetCommit{e.topic: commits}})
					ps := make([]string, len(commits))
					rl := make([]string, len(commits))
					stateOK := true
					e.mu.Lock()
					for k, cm := range commits {
						ps[k] = I(int64(cm.Partition)) + "/" + I(cm.Offset) + "/" + S(cm.Metadata)
						rl[k] = I(int64(cm.Partition)) + "/0"
						if cs := e.committed[group][int32(cm.Partition)]; cs.off != cm.Offset || cs.meta != cm.Metadata {
							stateOK = false
						}
					}
					e.mu.Unlock()
					th := int32(0)
					if v >= 3 {
						th = e.throttle
					}
					cargs := I(int64(gen)) + " " + S(e.topic) + ":" + strings.Join(ps, ",") + " " + I(int64(th)) + " " + S(e.topic) + ":" + strings.Join(rl, ",")
					cq := "Q" + I(int64(gen)) + "/5265c00@" + S(e.topic) + ":" + strings.Join(ps, ",")
					if err != nil {
						emit("oc", cargs, seen(cq+" "+errText(err)), feats)
					} else {
						al := make([]string, len(cres.Topics[e.topic]))
						for k, p := range cres.Topics[e.topic] {
							al[k] = I(int64(p.Partition)) + "/" + code(p.Error)
						}
						flag := ""
						if !stateOK {
							flag = "STATE-BAD"
						}
						emit("oc", cargs, seen(flag+cq+" R"+I(int64(cres.Throttle/time.Millisecond))+"@"+S(e.topic)+":"+strings.Join(al, ",")), feats)
					}
				}
				e.close()
				tr.CloseIdleConnections()
			}
		}
	}
}
