// c19: correspondence driver for the offset / metadata queries (property C19).
//
// Three tiers, all on the real code of /repo:
//  1. listoffsets.(*Request).Split / (*Response).Merge called directly;
//  2. Client.ListOffsets / OffsetFetch / OffsetCommit / ConsumerOffsets / Metadata
//     through a fake kafka.RoundTripper holding a generated cluster state;
//  3. Conn.Seek / ReadFirstOffset / ReadLastOffset / ReadOffset / ReadPartitions
//     against a scripted wire-level peer over net.Pipe.
//
// One line per case:   <id> <op> <args...> | <go result> | <features>
// The OCaml driver evaluates the extracted Coq model on "<id> <op> <args...>".
package main

import (
	"bufio"
	"bytes"
	"context"
	"encoding/binary"
	"errors"
	"flag"
	"fmt"
	"io"
	"math"
	"math/rand"
	"net"
	"os"
	"sort"
	"strings"
	"sync"
	"time"

	kafka "github.com/segmentio/kafka-go"
	"github.com/segmentio/kafka-go/protocol"
	"github.com/segmentio/kafka-go/protocol/apiversions"
	"github.com/segmentio/kafka-go/protocol/listoffsets"
	"github.com/segmentio/kafka-go/protocol/metadata"
	"github.com/segmentio/kafka-go/protocol/offsetcommit"
	"github.com/segmentio/kafka-go/protocol/offsetfetch"
	"kverif/kvfmt"
)

var out *bufio.Writer
var id int

func emit(op string, args string, res string, feats []string) {
	id++
	sort.Strings(feats)
	fmt.Fprintf(out, "%d %s %s | %s | %s\n", id, op, args, res, strings.Join(feats, ","))
}

func I(v int64) string  { return kvfmt.I(v) }
func S(s string) string { return kvfmt.Bytes([]byte(s)) }

func join(l []string, sep string) string {
	if len(l) == 0 {
		return "."
	}
	return strings.Join(l, sep)
}

type fakeErr struct{ id int64 }

func (e *fakeErr) Error() string { return fmt.Sprintf("fake failure %d", e.id) }

func errID(err error) string {
	var fe *fakeErr
	if errors.As(err, &fe) {
		return "E" + I(fe.id)
	}
	return "E?" + strings.ReplaceAll(err.Error(), " ", "_")
}

// kafka error code of an error value: 0 for nil
func code(err error) string {
	if err == nil {
		return "0"
	}
	var ke kafka.Error
	if errors.As(err, &ke) {
		return I(int64(ke))
	}
	return "?" + strings.ReplaceAll(err.Error(), " ", "_")
}

// ---------------------------------------------------------------- list offsets formats

func fmtReqTopics(ts []listoffsets.RequestTopic) string {
	l := make([]string, len(ts))
	for i, t := range ts {
		ps := make([]string, len(t.Partitions))
		for j, p := range t.Partitions {
			ps[j] = I(int64(p.Partition)) + "/" + I(int64(p.CurrentLeaderEpoch)) + "/" + I(p.Timestamp)
		}
		l[i] = S(t.Topic) + ":" + strings.Join(ps, ",")
	}
	return join(l, ";")
}

func fmtReq(r *listoffsets.Request, sep string) string {
	return I(int64(r.ReplicaID)) + sep + I(int64(r.IsolationLevel)) + sep + fmtReqTopics(r.Topics)
}

func fmtRespPart(p listoffsets.ResponsePartition) string {
	return I(int64(p.Partition)) + "/" + I(int64(p.ErrorCode)) + "/" + I(p.Timestamp) + "/" + I(p.Offset) + "/" + I(int64(p.LeaderEpoch))
}

func fmtRespTopics(ts []listoffsets.ResponseTopic) string {
	l := make([]string, len(ts))
	for i, t := range ts {
		ps := make([]string, len(t.Partitions))
		for j, p := range t.Partitions {
			ps[j] = fmtRespPart(p)
		}
		l[i] = S(t.Topic) + ":" + strings.Join(ps, ",")
	}
	return join(l, ";")
}

func fmtResp(r *listoffsets.Response) string {
	return "R" + I(int64(r.ThrottleTimeMs)) + "@" + fmtRespTopics(r.Topics)
}

func partLess(a, b listoffsets.ResponsePartition) bool {
	if a.Partition != b.Partition {
		return a.Partition < b.Partition
	}
	if a.Offset != b.Offset {
		return a.Offset < b.Offset
	}
	if a.Timestamp != b.Timestamp {
		return a.Timestamp < b.Timestamp
	}
	if a.ErrorCode != b.ErrorCode {
		return a.ErrorCode < b.ErrorCode
	}
	return a.LeaderEpoch < b.LeaderEpoch
}

// canonical form of a merged response: entries of a topic fully ordered, plus
// whether the raw output was ordered the way Merge promises
func fmtMerged(r *listoffsets.Response) string {
	sorted := true
	ts := make([]listoffsets.ResponseTopic, len(r.Topics))
	for i, t := range r.Topics {
		if i > 0 && !(r.Topics[i-1].Topic < t.Topic) {
			sorted = false
		}
		ps := append([]listoffsets.ResponsePartition{}, t.Partitions...)
		for j := 1; j < len(ps); j++ {
			a, b := ps[j-1], ps[j]
			if a.Partition > b.Partition || (a.Partition == b.Partition && a.Offset > b.Offset) {
				sorted = false
			}
		}
		sort.SliceStable(ps, func(a, b int) bool { return partLess(ps[a], ps[b]) })
		ts[i] = listoffsets.ResponseTopic{Topic: t.Topic, Partitions: ps}
	}
	return "R" + I(int64(r.ThrottleTimeMs)) + "@" + fmtRespTopics(ts) + "@s" + kvfmt.Bool(sorted)
}

func fmtResults(results []interface{}) string {
	l := make([]string, len(results))
	for i, r := range results {
		switch v := r.(type) {
		case error:
			l[i] = errID(v)
		case *listoffsets.Response:
			l[i] = fmtResp(v)
		}
	}
	return join(l, "~")
}

// ---------------------------------------------------------------- generators

var topicNames = []string{"a", "b", "ab", "a-long-topic-name", "t1", "t2", "t10", "Z", "zz", "\xc3\xa9", "", "b\x00", "orders", "events"}

func genTopicName(r *rand.Rand) string {
	return topicNames[r.Intn(len(topicNames))]
}

func genTimestamp(r *rand.Rand) int64 {
	switch r.Intn(8) {
	case 0, 1:
		return -2
	case 2, 3:
		return -1
	case 4:
		return 0
	case 5:
		return int64(r.Intn(5))
	case 6:
		return 1600000000000 + int64(r.Intn(1000))
	default:
		return r.Int63()
	}
}

func genOffset(r *rand.Rand) int64 {
	switch r.Intn(6) {
	case 0:
		return 0
	case 1:
		return int64(r.Intn(4))
	case 2:
		return math.MaxInt64 - int64(r.Intn(3))
	case 3:
		return -1
	default:
		return int64(r.Intn(100000))
	}
}

var errCodes = []int16{0, 0, 0, 0, 1, 3, 5, 6, -1, 29}

func genLoRequest(r *rand.Rand, maxTopics, maxParts int, dupTopics bool) *listoffsets.Request {
	req := &listoffsets.Request{ReplicaID: int32(r.Intn(3) - 1), IsolationLevel: int8(r.Intn(2))}
	nt := r.Intn(maxTopics + 1)
	used := map[string]bool{}
	for i := 0; i < nt; i++ {
		name := genTopicName(r)
		if used[name] && !dupTopics {
			continue
		}
		used[name] = true
		np := r.Intn(maxParts + 1)
		if r.Intn(10) == 0 {
			np = 13 + r.Intn(20) // beyond the insertion-sort threshold of sort.Slice
		}
		var ps []listoffsets.RequestPartition
		for j := 0; j < np; j++ {
			p := listoffsets.RequestPartition{Partition: int32(r.Intn(6)), CurrentLeaderEpoch: int32(r.Intn(4) - 1), Timestamp: genTimestamp(r)}
			if r.Intn(20) == 0 {
				p.Partition = int32(r.Int31())
			}
			ps = append(ps, p)
		}
		req.Topics = append(req.Topics, listoffsets.RequestTopic{Topic: name, Partitions: ps})
	}
	return req
}

// ---------------------------------------------------------------- tier 1: Split / Merge

func safeMerge(reqs []protocol.Message, results []interface{}) (res string) {
	defer func() {
		if e := recover(); e != nil {
			res = "PANIC"
		}
	}()
	m, err := new(listoffsets.Response).Merge(reqs, results)
	if err != nil {
		return errID(err)
	}
	return fmtMerged(m.(*listoffsets.Response))
}

func fmtReqList(msgs []protocol.Message) string {
	l := make([]string, len(msgs))
	for i, m := range msgs {
		l[i] = fmtReq(m.(*listoffsets.Request), "@")
	}
	return join(l, "~")
}

func tier1(r *rand.Rand, n int) {
	for i := 0; i < n; i++ {
		req := genLoRequest(r, 5, 5, true)
		msgs, _, err := req.Split(protocol.Cluster{})
		feats := []string{}
		if err != nil {
			emit("split", fmtReq(req, " "), "ERR", feats)
			continue
		}
		nsub := 0
		seen := map[string]int{}
		dup := false
		for _, t := range req.Topics {
			for _, p := range t.Partitions {
				nsub++
				k := fmt.Sprintf("%s/%d", t.Topic, p.Partition)
				seen[k]++
				if seen[k] > 1 {
					dup = true
				}
			}
		}
		if dup {
			feats = append(feats, "dup-partition")
		}
		switch {
		case nsub == 0:
			feats = append(feats, "subs=0")
		case nsub == 1:
			feats = append(feats, "subs=1")
		case nsub <= 12:
			feats = append(feats, "subs<=12")
		default:
			feats = append(feats, "subs>12")
		}
		emit("split", fmtReq(req, " "), fmtReqList(msgs), feats)

		// results for the sub-requests
		results := make([]interface{}, len(msgs))
		mode := r.Intn(10) // 0: all fail, 1-2: adversarial responses mixed in, else faithful answers with some failures
		failp := []float64{0, 0.1, 0.3, 0.7}[r.Intn(4)]
		faithful := true
		fails := 0
		tieOffset := int64(r.Intn(50))
		for j, m := range msgs {
			sub := m.(*listoffsets.Request)
			t := sub.Topics[0]
			p := t.Partitions[0]
			if mode == 0 || r.Float64() < failp {
				results[j] = &fakeErr{id: int64(100 + j)}
				fails++
				continue
			}
			if (mode == 1 || mode == 2) && r.Intn(3) == 0 {
				faithful = false
				results[j] = genAdversarialResponse(r, t.Topic, p.Partition)
				continue
			}
			off := genOffset(r)
			if r.Intn(3) == 0 {
				off = tieOffset
			}
			ts := int64(-1)
			if r.Intn(2) == 0 {
				ts = genTimestamp(r)
			}
			results[j] = &listoffsets.Response{
				ThrottleTimeMs: int32(r.Intn(5)) * int32(r.Intn(3)-1) * 7,
				Topics: []listoffsets.ResponseTopic{{Topic: t.Topic, Partitions: []listoffsets.ResponsePartition{{
					Partition: p.Partition, ErrorCode: errCodes[r.Intn(len(errCodes))], Timestamp: ts, Offset: off, LeaderEpoch: int32(r.Intn(5) - 1),
				}}}},
			}
		}
		mf := append([]string{}, feats...)
		if faithful {
			mf = append(mf, "faithful")
		} else {
			mf = append(mf, "adversarial")
		}
		switch {
		case len(msgs) > 0 && fails == len(msgs):
			mf = append(mf, "all-failed")
		case fails > 0:
			mf = append(mf, "some-failed")
		default:
			mf = append(mf, "none-failed")
		}
		emit("merge", fmtReqList(msgs)+" "+fmtResults(results), safeMerge(msgs, results), mf)
	}
	// Merge on requests that did not come from Split (several topics / partitions
	// per request, empty partition lists, fewer or more results than requests)
	for i := 0; i < n/3; i++ {
		nreq := r.Intn(5)
		msgs := make([]protocol.Message, nreq)
		for j := range msgs {
			msgs[j] = genLoRequest(r, 3, 3, true)
		}
		nres := nreq
		feats := []string{"raw"}
		switch r.Intn(8) {
		case 0:
			if nres > 0 {
				nres--
				feats = append(feats, "fewer-results")
			}
		case 1:
			nres++
			feats = append(feats, "more-results")
		}
		results := make([]interface{}, nres)
		for j := range results {
			if r.Intn(3) == 0 {
				results[j] = &fakeErr{id: int64(200 + j)}
			} else {
				results[j] = genAdversarialResponse(r, genTopicName(r), int32(r.Intn(4)))
			}
		}
		emit("merge", fmtReqList(msgs)+" "+fmtResults(results), safeMerge(msgs, results), feats)
	}
}

func genAdversarialResponse(r *rand.Rand, topic string, partition int32) *listoffsets.Response {
	res := &listoffsets.Response{ThrottleTimeMs: int32(r.Intn(100))}
	nt := r.Intn(3)
	for i := 0; i < nt; i++ {
		name := topic
		if r.Intn(3) == 0 {
			name = genTopicName(r)
		}
		np := r.Intn(3)
		var ps []listoffsets.ResponsePartition
		for j := 0; j < np; j++ {
			pp := partition
			if r.Intn(3) == 0 {
				pp = int32(r.Intn(6))
			}
			ps = append(ps, listoffsets.ResponsePartition{Partition: pp, ErrorCode: errCodes[r.Intn(len(errCodes))],
				Timestamp: genTimestamp(r), Offset: genOffset(r), LeaderEpoch: int32(r.Intn(3))})
		}
		res.Topics = append(res.Topics, listoffsets.ResponseTopic{Topic: name, Partitions: ps})
	}
	return res
}

// ---------------------------------------------------------------- tier 2: Client on a fake RoundTripper

type tsEntry struct{ ts, off int64 }

type partState struct {
	start, end int64
	leader     int32
	index      []tsEntry // ascending timestamps and offsets
	errCode    int16
	epoch      int32
}

type cluster struct {
	topics      map[string]map[int32]*partState
	brokers     map[int32]protocol.Broker
	unreachable map[int32]bool
	committed   map[string]map[string]map[int32]commitState // group -> topic -> partition
	commitErr   map[string]int16                            // "topic/partition" -> error code on commit / fetch
	throttle    int32
}

type commitState struct {
	off  int64
	meta string
}

func genCluster(r *rand.Rand) *cluster {
	c := &cluster{topics: map[string]map[int32]*partState{}, brokers: map[int32]protocol.Broker{}, unreachable: map[int32]bool{},
		committed: map[string]map[string]map[int32]commitState{}, commitErr: map[string]int16{}, throttle: int32(r.Intn(3) * 50)}
	nb := 1 + r.Intn(5)
	for b := 0; b < nb; b++ {
		c.brokers[int32(b)] = protocol.Broker{ID: int32(b), Host: fmt.Sprintf("h%d", b), Port: int32(9092 + b), Rack: []string{"", "r1", "r2"}[r.Intn(3)]}
		if r.Intn(6) == 0 {
			c.unreachable[int32(b)] = true
		}
	}
	nt := 1 + r.Intn(5)
	for len(c.topics) < nt {
		name := genTopicName(r)
		if _, ok := c.topics[name]; ok {
			continue
		}
		ps := map[int32]*partState{}
		np := 1 + r.Intn(6)
		for p := 0; p < np; p++ {
			st := &partState{leader: int32(r.Intn(nb)), epoch: int32(r.Intn(9))}
			st.start = int64(r.Intn(1000))
			if r.Intn(3) == 0 {
				st.start = 0
			}
			n := r.Intn(8)
			ts := int64(1600000000000 + r.Intn(100))
			off := st.start
			for k := 0; k < n; k++ {
				st.index = append(st.index, tsEntry{ts, off})
				ts += int64(r.Intn(3)) * 10 // equal timestamps happen
				off += int64(1 + r.Intn(5))
			}
			st.end = off
			if r.Intn(8) == 0 {
				st.errCode = []int16{3, 6, 5, 1}[r.Intn(4)]
			}
			ps[int32(p)] = st
		}
		c.topics[name] = ps
	}
	return c
}

func (c *cluster) layout() protocol.Cluster {
	l := protocol.Cluster{Brokers: c.brokers, Topics: map[string]protocol.Topic{}}
	for name, ps := range c.topics {
		t := protocol.Topic{Name: name, Partitions: map[int32]protocol.Partition{}}
		for id, st := range ps {
			t.Partitions[id] = protocol.Partition{ID: id, Leader: st.leader}
		}
		l.Topics[name] = t
	}
	return l
}

// what the leader answers for one (topic, partition, timestamp)
func (c *cluster) answer(topic string, partition int32, ts int64) listoffsets.ResponsePartition {
	st, ok := c.topics[topic][partition]
	if !ok {
		return listoffsets.ResponsePartition{Partition: partition, ErrorCode: 3, Timestamp: -1, Offset: -1, LeaderEpoch: -1}
	}
	if st.errCode != 0 {
		return listoffsets.ResponsePartition{Partition: partition, ErrorCode: st.errCode, Timestamp: -1, Offset: -1, LeaderEpoch: -1}
	}
	switch ts {
	case -2:
		return listoffsets.ResponsePartition{Partition: partition, Timestamp: -1, Offset: st.start, LeaderEpoch: st.epoch}
	case -1:
		return listoffsets.ResponsePartition{Partition: partition, Timestamp: -1, Offset: st.end, LeaderEpoch: st.epoch}
	}
	for _, e := range st.index {
		if e.ts >= ts {
			return listoffsets.ResponsePartition{Partition: partition, Timestamp: e.ts, Offset: e.off, LeaderEpoch: st.epoch}
		}
	}
	return listoffsets.ResponsePartition{Partition: partition, Timestamp: -1, Offset: -1, LeaderEpoch: st.epoch}
}

// fakeRT implements kafka.RoundTripper.  For Splitter messages it replays the
// path of transport.go (*connPool).roundTrip: Split, one round trip per message
// to the broker returned by (*Request).Broker, results joined in order, Merge.
type fakeRT struct {
	c        *cluster
	seen     []protocol.Message
	outcomes []string // per list-offsets sub-request, in order
	routeBad bool
	mdResp   *metadata.Response
	ofResp   *offsetfetch.Response
	ocResp   *offsetcommit.Response
	nextErr  int64
}

func (f *fakeRT) RoundTrip(ctx context.Context, addr net.Addr, req kafka.Request) (kafka.Response, error) {
	f.seen = append(f.seen, req)
	switch m := req.(type) {
	case *listoffsets.Request:
		layout := f.c.layout()
		msgs, merger, err := m.Split(layout)
		if err != nil {
			return nil, err
		}
		results := make([]interface{}, len(msgs))
		for i, sm := range msgs {
			sub := sm.(*listoffsets.Request)
			b, berr := sub.Broker(layout)
			t, p := sub.Topics[0], sub.Topics[0].Partitions[0]
			if berr != nil { // sendRequest: "return reject(err)": the sub-request is not sent
				if _, known := f.c.topics[t.Topic][p.Partition]; known {
					f.routeBad = true
				}
				f.nextErr++
				results[i] = &fakeErr{id: f.nextErr}
				f.outcomes = append(f.outcomes, "F/"+I(f.nextErr))
				continue
			}
			if st, ok := f.c.topics[t.Topic][p.Partition]; ok {
				if b.ID != st.leader {
					f.routeBad = true
				}
			} else if b.ID != -1 && len(f.c.topics[t.Topic]) != 0 {
				f.routeBad = true
			}
			if st, ok := f.c.topics[t.Topic][p.Partition]; ok && f.c.unreachable[st.leader] {
				f.nextErr++
				results[i] = &fakeErr{id: f.nextErr}
				f.outcomes = append(f.outcomes, "F/"+I(f.nextErr))
				continue
			}
			a := f.c.answer(t.Topic, p.Partition, p.Timestamp)
			results[i] = &listoffsets.Response{ThrottleTimeMs: f.c.throttle, Topics: []listoffsets.ResponseTopic{{Topic: t.Topic, Partitions: []listoffsets.ResponsePartition{a}}}}
			f.outcomes = append(f.outcomes, "A/"+I(int64(a.ErrorCode))+"/"+I(a.Timestamp)+"/"+I(a.Offset)+"/"+I(int64(a.LeaderEpoch))+"/"+I(int64(f.c.throttle)))
		}
		return merger.Merge(msgs, results)
	case *metadata.Request:
		return f.mdResp, nil
	case *offsetfetch.Request:
		return f.ofResp, nil
	case *offsetcommit.Request:
		return f.ocResp, nil
	}
	return nil, fmt.Errorf("fakeRT: unexpected request %T", req)
}

func fmtTime(t time.Time) string {
	if t.IsZero() {
		return "0"
	}
	return I(t.Unix()*1000 + int64(t.Nanosecond())/1000000)
}

func tier2ListOffsets(r *rand.Rand, n int) {
	for i := 0; i < n; i++ {
		c := genCluster(r)
		rt := &fakeRT{c: c}
		client := &kafka.Client{Addr: kafka.TCP("fake:9092"), Transport: rt}
		user := map[string][]kafka.OffsetRequest{}
		names := []string{}
		for name := range c.topics {
			names = append(names, name)
		}
		sort.Strings(names)
		feats := []string{}
		nt := 1 + r.Intn(len(names))
		if r.Intn(25) == 0 {
			nt = 0
		}
		for _, k := range r.Perm(len(names))[:nt] {
			name := names[k]
			nreq := 1 + r.Intn(6)
			if r.Intn(12) == 0 {
				nreq = 0
			}
			if r.Intn(12) == 0 {
				nreq = 13 + r.Intn(8)
			}
			reqs := []kafka.OffsetRequest{}
			for j := 0; j < nreq; j++ {
				p := r.Intn(len(c.topics[name]))
				if r.Intn(15) == 0 {
					p = len(c.topics[name]) + r.Intn(2) // unknown partition
					feats = append(feats, "unknown-partition")
				}
				switch r.Intn(4) {
				case 0:
					reqs = append(reqs, kafka.FirstOffsetOf(p))
				case 1:
					reqs = append(reqs, kafka.LastOffsetOf(p))
				case 2:
					reqs = append(reqs, kafka.TimeOffsetOf(p, time.Unix(0, 0).Add(time.Duration(1600000000000+r.Intn(150))*time.Millisecond)))
				default:
					reqs = append(reqs, kafka.OffsetRequest{Partition: p, Timestamp: genTimestamp(r)})
				}
			}
			user[name] = reqs
		}
		if r.Intn(15) == 0 {
			user["missing-topic"] = []kafka.OffsetRequest{kafka.FirstOffsetOf(0), kafka.LastOffsetOf(1)}
			feats = append(feats, "unknown-topic")
		}
		iso := kafka.IsolationLevel(r.Intn(2))
		res, err := client.ListOffsets(context.Background(), &kafka.ListOffsetsRequest{Topics: user, IsolationLevel: iso})
		// the user request in the order the client iterated its map = the order of the protocol request
		if len(rt.seen) != 1 {
			emit("lo", "?", "NOREQUEST", feats)
			continue
		}
		preq := rt.seen[0].(*listoffsets.Request)
		ul := make([]string, len(preq.Topics))
		for j, t := range preq.Topics {
			ps := make([]string, len(user[t.Topic]))
			for k, q := range user[t.Topic] {
				ps[k] = I(int64(q.Partition)) + "/" + I(q.Timestamp)
			}
			ul[j] = S(t.Topic) + ":" + strings.Join(ps, ",")
		}
		args := I(int64(iso)) + " " + join(ul, ";") + " " + join(rt.outcomes, "~")
		q := "Q" + fmtReq(preq, "@")
		nfail := 0
		for _, o := range rt.outcomes {
			if o[0] == 'F' {
				nfail++
			}
		}
		switch {
		case len(rt.outcomes) == 0:
			feats = append(feats, "subs=0")
		case nfail == len(rt.outcomes):
			feats = append(feats, "all-failed")
		case nfail > 0:
			feats = append(feats, "some-failed")
		default:
			feats = append(feats, "none-failed")
		}
		if len(rt.outcomes) > 12 {
			feats = append(feats, "subs>12")
		}
		if rt.routeBad {
			q += "ROUTE-BAD"
		}
		if err != nil {
			emit("lo", args, q+" "+errID(err), feats)
			continue
		}
		// collisions: one (topic, partition, offset) answered for two different
		// non-sentinel timestamps: the Offsets map can keep only one of them
		type tpo struct {
			t string
			p int32
			o int64
		}
		coll := map[tpo]map[int64]bool{}
		k := 0
		for _, t := range preq.Topics {
			for _, p := range t.Partitions {
				o := strings.Split(rt.outcomes[k], "/")
				k++
				if p.Timestamp == -1 || p.Timestamp == -2 {
					continue
				}
				var key tpo
				if o[0] == "F" {
					continue // failed entries carry timestamp -1
				}
				a := c.answer(t.Topic, p.Partition, p.Timestamp)
				key = tpo{t.Topic, p.Partition, a.Offset}
				if coll[key] == nil {
					coll[key] = map[int64]bool{}
				}
				mt := p.Timestamp
				if mt <= 0 {
					mt = 0
				}
				coll[key][mt] = true
			}
		}
		var entries []string
		tnames := []string{}
		for name := range res.Topics {
			tnames = append(tnames, name)
		}
		sort.Strings(tnames)
		hasColl := false
		for _, name := range tnames {
			ps := append([]kafka.PartitionOffsets{}, res.Topics[name]...)
			sort.SliceStable(ps, func(a, b int) bool { return ps[a].Partition < ps[b].Partition })
			for _, p := range ps {
				offs := []int64{}
				for o := range p.Offsets {
					offs = append(offs, o)
				}
				sort.Slice(offs, func(a, b int) bool { return offs[a] < offs[b] })
				ol := make([]string, len(offs))
				for x, o := range offs {
					if len(coll[tpo{name, int32(p.Partition), o}]) > 1 {
						ol[x] = I(o) + "=*"
						hasColl = true
					} else {
						ol[x] = I(o) + "=" + fmtTime(p.Offsets[o])
					}
				}
				entries = append(entries, S(name)+"/"+I(int64(p.Partition))+"/"+I(p.FirstOffset)+"/"+I(p.LastOffset)+"/"+code(p.Error)+"/"+join(ol, "+"))
			}
		}
		if hasColl {
			feats = append(feats, "offset-collision")
		}
		emit("lo", args, q+" R"+I(int64(res.Throttle/time.Millisecond))+"@"+join(entries, ","), feats)
	}
}

// ---- metadata

func genMetadataResponse(r *rand.Rand, adversarial bool) *metadata.Response {
	res := &metadata.Response{ThrottleTimeMs: int32(r.Intn(3) * 10), ClusterID: []string{"", "cluster-1", "c"}[r.Intn(3)]}
	nb := r.Intn(6)
	ids := []int32{}
	for b := 0; b < nb; b++ {
		idv := int32(b)
		if r.Intn(4) == 0 {
			idv = int32(r.Intn(2000))
		}
		if adversarial && r.Intn(3) == 0 && len(ids) > 0 {
			idv = ids[r.Intn(len(ids))] // duplicate node id
		}
		ids = append(ids, idv)
		res.Brokers = append(res.Brokers, metadata.ResponseBroker{NodeID: idv, Host: fmt.Sprintf("host%d-%d", idv, b), Port: int32(9000 + r.Intn(100)), Rack: []string{"", "", "rack-a", "b"}[r.Intn(4)]})
	}
	pick := func() int32 {
		switch {
		case len(ids) == 0 || r.Intn(8) == 0:
			return int32(r.Intn(7) - 1) // possibly unknown, possibly -1
		default:
			return ids[r.Intn(len(ids))]
		}
	}
	res.ControllerID = pick()
	nt := r.Intn(4)
	for t := 0; t < nt; t++ {
		top := metadata.ResponseTopic{Name: genTopicName(r), IsInternal: r.Intn(5) == 0}
		if r.Intn(6) == 0 {
			top.ErrorCode = []int16{3, 5, 17, 29}[r.Intn(4)]
		}
		np := r.Intn(5)
		for p := 0; p < np; p++ {
			part := metadata.ResponsePartition{PartitionIndex: int32(p), LeaderID: pick()}
			if r.Intn(6) == 0 {
				part.ErrorCode = []int16{5, 9, 6}[r.Intn(3)]
				if r.Intn(2) == 0 {
					part.LeaderID = -1
				}
			}
			if r.Intn(10) == 0 {
				part.PartitionIndex = int32(r.Intn(100))
			}
			for k := r.Intn(4); k > 0; k-- {
				part.ReplicaNodes = append(part.ReplicaNodes, pick())
			}
			for k := r.Intn(3); k > 0; k-- {
				part.IsrNodes = append(part.IsrNodes, pick())
			}
			for k := r.Intn(2); k > 0; k-- {
				part.OfflineReplicas = append(part.OfflineReplicas, pick())
			}
			top.Partitions = append(top.Partitions, part)
		}
		res.Topics = append(res.Topics, top)
	}
	return res
}

func fmtIDs(l []int32) string {
	s := make([]string, len(l))
	for i, v := range l {
		s[i] = I(int64(v))
	}
	return join(s, "+")
}

func fmtMdResponse(m *metadata.Response) string {
	bs := make([]string, len(m.Brokers))
	for i, b := range m.Brokers {
		bs[i] = I(int64(b.NodeID)) + "/" + S(b.Host) + "/" + I(int64(b.Port)) + "/" + S(b.Rack)
	}
	ts := make([]string, len(m.Topics))
	for i, t := range m.Topics {
		ps := make([]string, len(t.Partitions))
		for j, p := range t.Partitions {
			ps[j] = I(int64(p.ErrorCode)) + "/" + I(int64(p.PartitionIndex)) + "/" + I(int64(p.LeaderID)) + "/" + fmtIDs(p.ReplicaNodes) + "/" + fmtIDs(p.IsrNodes) + "/" + fmtIDs(p.OfflineReplicas)
		}
		ts[i] = I(int64(t.ErrorCode)) + "/" + S(t.Name) + "/" + kvfmt.Bool(t.IsInternal) + ":" + strings.Join(ps, ",")
	}
	return I(int64(m.ThrottleTimeMs)) + " " + S(m.ClusterID) + " " + I(int64(m.ControllerID)) + " " + join(bs, ",") + " " + join(ts, ";")
}

func fmtBroker(b kafka.Broker) string {
	return I(int64(b.ID)) + "_" + S(b.Host) + "_" + I(int64(b.Port)) + "_" + S(b.Rack)
}

func fmtBrokers(l []kafka.Broker) string {
	s := make([]string, len(l))
	for i, b := range l {
		s[i] = fmtBroker(b)
	}
	return join(s, "+")
}

func fmtPartition(p kafka.Partition) string {
	return S(p.Topic) + "/" + I(int64(p.ID)) + "/" + code(p.Error) + "/" + fmtBroker(p.Leader) + "/" + fmtBrokers(p.Replicas) + "/" + fmtBrokers(p.Isr) + "/" + fmtBrokers(p.OfflineReplicas)
}

func fmtPartitions(l []kafka.Partition) string {
	s := make([]string, len(l))
	for i, p := range l {
		s[i] = fmtPartition(p)
	}
	return strings.Join(s, ",")
}

func mdFeats(m *metadata.Response) []string {
	f := map[string]bool{}
	known := map[int32]int{}
	for _, b := range m.Brokers {
		known[b.NodeID]++
		if known[b.NodeID] > 1 {
			f["dup-node-id"] = true
		}
	}
	if len(m.Brokers) == 0 {
		f["no-brokers"] = true
	}
	if known[m.ControllerID] == 0 {
		f["controller-unknown"] = true
	}
	for _, t := range m.Topics {
		if t.ErrorCode != 0 {
			f["topic-error"] = true
		}
		for _, p := range t.Partitions {
			if p.ErrorCode != 0 {
				f["partition-error"] = true
			}
			if known[p.LeaderID] == 0 {
				f["leader-unknown"] = true
			}
			for _, x := range p.ReplicaNodes {
				if known[x] == 0 {
					f["replica-unknown"] = true
				}
			}
		}
	}
	if len(m.Topics) == 0 {
		f["no-topics"] = true
	}
	l := []string{}
	for k := range f {
		l = append(l, k)
	}
	return l
}

func tier2Metadata(r *rand.Rand, n int) {
	for i := 0; i < n; i++ {
		m := genMetadataResponse(r, r.Intn(4) == 0)
		rt := &fakeRT{mdResp: m}
		client := &kafka.Client{Addr: kafka.TCP("fake:9092"), Transport: rt}
		var asked []string
		for k := r.Intn(3); k > 0; k-- {
			asked = append(asked, genTopicName(r))
		}
		res, err := client.Metadata(context.Background(), &kafka.MetadataRequest{Topics: asked})
		if err != nil {
			emit("md", fmtMdResponse(m), "ERR", mdFeats(m))
			continue
		}
		seen := rt.seen[0].(*metadata.Request)
		flag := ""
		if fmt.Sprint(seen.TopicNames) != fmt.Sprint(asked) || (seen.TopicNames == nil) != (asked == nil) {
			flag = "REQUEST-BAD"
		}
		bs := make([]string, len(res.Brokers))
		for j, b := range res.Brokers {
			bs[j] = fmtBroker(b)
		}
		ts := make([]string, len(res.Topics))
		for j, t := range res.Topics {
			ts[j] = S(t.Name) + "/" + kvfmt.Bool(t.Internal) + "/" + code(t.Error) + ":" + fmtPartitions(t.Partitions)
		}
		emit("md", fmtMdResponse(m), flag+I(int64(res.Throttle/time.Millisecond))+" "+S(res.ClusterID)+" "+fmtBroker(res.Controller)+" "+join(bs, ",")+" "+join(ts, ";"), mdFeats(m))
	}
}

// ---- offset fetch / commit on a stateful fake group coordinator

func fmtOfResponse(m *offsetfetch.Response) string {
	ts := make([]string, len(m.Topics))
	for i, t := range m.Topics {
		ps := make([]string, len(t.Partitions))
		for j, p := range t.Partitions {
			ps[j] = I(int64(p.PartitionIndex)) + "/" + I(p.CommittedOffset) + "/" + S(p.Metadata) + "/" + I(int64(p.ErrorCode))
		}
		ts[i] = S(t.Name) + ":" + strings.Join(ps, ",")
	}
	return I(int64(m.ThrottleTimeMs)) + " " + I(int64(m.ErrorCode)) + " " + join(ts, ";")
}

func fmtOfAPI(res *kafka.OffsetFetchResponse) string {
	names := []string{}
	for name := range res.Topics {
		names = append(names, name)
	}
	sort.Strings(names)
	ts := make([]string, len(names))
	for i, name := range names {
		ps := make([]string, len(res.Topics[name]))
		for j, p := range res.Topics[name] {
			ps[j] = I(int64(p.Partition)) + "/" + I(p.CommittedOffset) + "/" + S(p.Metadata) + "/" + code(p.Error)
		}
		ts[i] = S(name) + ":" + strings.Join(ps, ",")
	}
	return "R" + I(int64(res.Throttle/time.Millisecond)) + "/" + code(res.Error) + "@" + join(ts, ";")
}

// the coordinator's answer to an offset fetch, from the cluster state
func (c *cluster) fetchCommitted(group string, req *offsetfetch.Request, r *rand.Rand) *offsetfetch.Response {
	res := &offsetfetch.Response{ThrottleTimeMs: c.throttle}
	topics := req.Topics
	if topics == nil { // all topics of the group
		names := []string{}
		for name := range c.committed[group] {
			names = append(names, name)
		}
		sort.Strings(names)
		for _, name := range names {
			t := offsetfetch.RequestTopic{Name: name}
			for p := range c.committed[group][name] {
				t.PartitionIndexes = append(t.PartitionIndexes, p)
			}
			sort.Slice(t.PartitionIndexes, func(a, b int) bool { return t.PartitionIndexes[a] < t.PartitionIndexes[b] })
			topics = append(topics, t)
		}
	}
	for _, t := range topics {
		rtp := offsetfetch.ResponseTopic{Name: t.Name}
		for _, p := range t.PartitionIndexes {
			e := offsetfetch.ResponsePartition{PartitionIndex: p, CommittedOffset: -1}
			if ec := c.commitErr[fmt.Sprintf("%s/%d", t.Name, p)]; ec != 0 {
				e.ErrorCode = ec
			} else if cs, ok := c.committed[group][t.Name][p]; ok {
				e.CommittedOffset = cs.off
				e.Metadata = cs.meta
			}
			rtp.Partitions = append(rtp.Partitions, e)
		}
		res.Topics = append(res.Topics, rtp)
	}
	return res
}

func tier2Offsets(r *rand.Rand, n int) {
	for i := 0; i < n; i++ {
		c := genCluster(r)
		names := []string{}
		for name := range c.topics {
			names = append(names, name)
		}
		sort.Strings(names)
		for _, name := range names {
			for p := 0; p < len(c.topics[name]); p++ { // partitions are 0..n-1; no map order in the PRNG stream
				if r.Intn(7) == 0 {
					c.commitErr[fmt.Sprintf("%s/%d", name, p)] = []int16{3, 14, 15, 16, 25}[r.Intn(5)]
				}
			}
		}
		group := []string{"g", "group-2", ""}[r.Intn(3)]
		// ---- commit
		commits := map[string][]kafka.OffsetCommit{}
		for _, k := range r.Perm(len(names))[:r.Intn(len(names)+1)] {
			name := names[k]
			var cs []kafka.OffsetCommit
			for j := r.Intn(5); j > 0; j-- {
				cs = append(cs, kafka.OffsetCommit{Partition: r.Intn(len(c.topics[name]) + 1), Offset: genOffset(r), Metadata: []string{"", "m", "meta data"}[r.Intn(3)]})
			}
			commits[name] = cs
		}
		gen := r.Intn(100)
		rt := &fakeRT{c: c}
		client := &kafka.Client{Addr: kafka.TCP("fake:9092"), Transport: rt}
		// the coordinator applies the commits and answers per partition
		ocres := &offsetcommit.Response{ThrottleTimeMs: c.throttle}
		rt.ocResp = ocres
		applied := false
		apply := func(req *offsetcommit.Request) {
			applied = true
			for _, t := range req.Topics {
				rtp := offsetcommit.ResponseTopic{Name: t.Name}
				for _, p := range t.Partitions {
					ec := c.commitErr[fmt.Sprintf("%s/%d", t.Name, p.PartitionIndex)]
					if _, ok := c.topics[t.Name][p.PartitionIndex]; !ok && ec == 0 {
						ec = 3
					}
					if ec == 0 {
						if c.committed[req.GroupID] == nil {
							c.committed[req.GroupID] = map[string]map[int32]commitState{}
						}
						if c.committed[req.GroupID][t.Name] == nil {
							c.committed[req.GroupID][t.Name] = map[int32]commitState{}
						}
						c.committed[req.GroupID][t.Name][p.PartitionIndex] = commitState{p.CommittedOffset, p.CommittedMetadata}
					}
					rtp.Partitions = append(rtp.Partitions, offsetcommit.ResponsePartition{PartitionIndex: p.PartitionIndex, ErrorCode: ec})
				}
				ocres.Topics = append(ocres.Topics, rtp)
			}
		}
		rtw := &applyRT{inner: rt, onCommit: apply}
		client.Transport = rtw
		cres, err := client.OffsetCommit(context.Background(), &kafka.OffsetCommitRequest{GroupID: group, GenerationID: gen, MemberID: "m1", Topics: commits})
		feats := []string{}
		if err != nil || !applied {
			emit("oc", "?", "ERR", feats)
			continue
		}
		creq := rt.seen[0].(*offsetcommit.Request)
		ul := make([]string, len(creq.Topics))
		ql := make([]string, len(creq.Topics))
		for j, t := range creq.Topics {
			ps := make([]string, len(commits[t.Name]))
			for k, cm := range commits[t.Name] {
				ps[k] = I(int64(cm.Partition)) + "/" + I(cm.Offset) + "/" + S(cm.Metadata)
			}
			ul[j] = S(t.Name) + ":" + strings.Join(ps, ",")
			qs := make([]string, len(t.Partitions))
			for k, p := range t.Partitions {
				qs[k] = I(int64(p.PartitionIndex)) + "/" + I(p.CommittedOffset) + "/" + S(p.CommittedMetadata)
			}
			ql[j] = S(t.Name) + ":" + strings.Join(qs, ",")
		}
		rl := make([]string, len(ocres.Topics))
		anyErr := false
		for j, t := range ocres.Topics {
			ps := make([]string, len(t.Partitions))
			for k, p := range t.Partitions {
				ps[k] = I(int64(p.PartitionIndex)) + "/" + I(int64(p.ErrorCode))
				if p.ErrorCode != 0 {
					anyErr = true
				}
			}
			rl[j] = S(t.Name) + ":" + strings.Join(ps, ",")
		}
		if anyErr {
			feats = append(feats, "partition-error")
		}
		if len(creq.Topics) == 0 {
			feats = append(feats, "no-topics")
		}
		anames := []string{}
		for name := range cres.Topics {
			anames = append(anames, name)
		}
		sort.Strings(anames)
		al := make([]string, len(anames))
		for j, name := range anames {
			ps := make([]string, len(cres.Topics[name]))
			for k, p := range cres.Topics[name] {
				ps[k] = I(int64(p.Partition)) + "/" + code(p.Error)
			}
			al[j] = S(name) + ":" + strings.Join(ps, ",")
		}
		flag := ""
		if creq.GroupID != group || creq.MemberID != "m1" {
			flag = "REQUEST-BAD"
		}
		emit("oc", I(int64(gen))+" "+join(ul, ";")+" "+I(int64(ocres.ThrottleTimeMs))+" "+join(rl, ";"),
			flag+"Q"+I(int64(creq.GenerationID))+"/"+I(creq.RetentionTimeMs)+"@"+join(ql, ";")+" R"+I(int64(cres.Throttle/time.Millisecond))+"@"+join(al, ";"), feats)

		// ---- fetch what was committed (same group, or another one)
		fgroup := group
		if r.Intn(5) == 0 {
			fgroup = "other"
		}
		ftopics := map[string][]int{}
		for _, k := range r.Perm(len(names))[:r.Intn(len(names)+1)] {
			name := names[k]
			var ps []int
			for j := r.Intn(5); j > 0; j-- {
				ps = append(ps, r.Intn(len(c.topics[name])+1))
			}
			ftopics[name] = ps
		}
		rt2 := &fakeRT{c: c}
		rtw2 := &applyRT{inner: rt2, onFetch: func(req *offsetfetch.Request) {
			rt2.ofResp = c.fetchCommitted(fgroup, req, r)
			if r.Intn(10) == 0 {
				rt2.ofResp.ErrorCode = []int16{15, 16, 25}[r.Intn(3)]
			}
		}}
		client2 := &kafka.Client{Addr: kafka.TCP("fake:9092"), Transport: rtw2}
		fres, err := client2.OffsetFetch(context.Background(), &kafka.OffsetFetchRequest{GroupID: fgroup, Topics: ftopics})
		if err != nil {
			emit("of", "?", "ERR", nil)
			continue
		}
		freq := rt2.seen[0].(*offsetfetch.Request)
		ffeats := []string{}
		q := "-"
		ulist := "."
		if freq.Topics != nil {
			ql := make([]string, len(freq.Topics))
			ul := make([]string, len(freq.Topics))
			for j, t := range freq.Topics {
				ql[j] = S(t.Name) + ":" + fmtIDs(t.PartitionIndexes)
				ups := make([]int32, len(ftopics[t.Name]))
				for k, p := range ftopics[t.Name] {
					ups[k] = int32(p)
				}
				ul[j] = S(t.Name) + ":" + fmtIDs(ups)
			}
			q = join(ql, ";")
			ulist = join(ul, ";")
		} else {
			ffeats = append(ffeats, "all-topics")
		}
		if freq.GroupID != fgroup {
			q += "REQUEST-BAD"
		}
		for _, t := range rt2.ofResp.Topics {
			for _, p := range t.Partitions {
				if p.ErrorCode != 0 {
					ffeats = append(ffeats, "partition-error")
				} else if p.CommittedOffset >= 0 {
					ffeats = append(ffeats, "committed")
				}
			}
		}
		if rt2.ofResp.ErrorCode != 0 {
			ffeats = append(ffeats, "group-error")
		}
		// the API result against the coordinator's state at serving time
		stateOK := true
		for name, ps := range fres.Topics {
			for _, p := range ps {
				ec := c.commitErr[fmt.Sprintf("%s/%d", name, p.Partition)]
				cs, ok := c.committed[fgroup][name][int32(p.Partition)]
				switch {
				case ec != 0:
					stateOK = stateOK && code(p.Error) == I(int64(ec))
				case ok:
					stateOK = stateOK && p.Error == nil && p.CommittedOffset == cs.off && p.Metadata == cs.meta
				default:
					stateOK = stateOK && p.Error == nil && p.CommittedOffset == -1
				}
			}
		}
		if !stateOK {
			q += "STATE-BAD"
		}
		emit("of", ulist+" "+fmtOfResponse(rt2.ofResp), "Q"+q+" "+fmtOfAPI(fres), dedup(ffeats))
	}
	// adversarial offset fetch responses (duplicate topics, partitions not asked for)
	for i := 0; i < n/2; i++ {
		res := &offsetfetch.Response{ThrottleTimeMs: int32(r.Intn(100)), ErrorCode: []int16{0, 0, 0, 16}[r.Intn(4)]}
		dup := false
		seen := map[string]bool{}
		for t := r.Intn(4); t > 0; t-- {
			rtp := offsetfetch.ResponseTopic{Name: genTopicName(r)}
			if seen[rtp.Name] {
				dup = true
			}
			seen[rtp.Name] = true
			for p := r.Intn(4); p > 0; p-- {
				rtp.Partitions = append(rtp.Partitions, offsetfetch.ResponsePartition{PartitionIndex: int32(r.Intn(5)), CommittedOffset: genOffset(r), Metadata: []string{"", "x"}[r.Intn(2)], ErrorCode: errCodes[r.Intn(len(errCodes))]})
			}
			res.Topics = append(res.Topics, rtp)
		}
		rt := &fakeRT{ofResp: res}
		client := &kafka.Client{Addr: kafka.TCP("fake:9092"), Transport: rt}
		fres, err := client.OffsetFetch(context.Background(), &kafka.OffsetFetchRequest{GroupID: "g"})
		if err != nil {
			emit("of", "?", "ERR", nil)
			continue
		}
		feats := []string{"adversarial", "all-topics"}
		if dup {
			feats = append(feats, "dup-topic")
		}
		emit("of", ". "+fmtOfResponse(res), "Q- "+fmtOfAPI(fres), feats)
	}
}

func dedup(l []string) []string {
	m := map[string]bool{}
	var o []string
	for _, s := range l {
		if !m[s] {
			m[s] = true
			o = append(o, s)
		}
	}
	return o
}

// applyRT lets the fake coordinator compute its answer from the request
type applyRT struct {
	inner    *fakeRT
	onCommit func(*offsetcommit.Request)
	onFetch  func(*offsetfetch.Request)
}

func (a *applyRT) RoundTrip(ctx context.Context, addr net.Addr, req kafka.Request) (kafka.Response, error) {
	switch m := req.(type) {
	case *offsetcommit.Request:
		if a.onCommit != nil {
			a.onCommit(m)
		}
	case *offsetfetch.Request:
		if a.onFetch != nil {
			a.onFetch(m)
		}
	}
	return a.inner.RoundTrip(ctx, addr, req)
}

func tier2ConsumerOffsets(r *rand.Rand, n int) {
	for i := 0; i < n; i++ {
		m := genMetadataResponse(r, false)
		asked := genTopicName(r)
		if len(m.Topics) > 0 && r.Intn(5) != 0 {
			asked = m.Topics[0].Name
		}
		rt := &fakeRT{mdResp: m}
		feats := []string{}
		rtw := &applyRT{inner: rt, onFetch: func(req *offsetfetch.Request) {
			res := &offsetfetch.Response{ThrottleTimeMs: 1}
			for _, t := range req.Topics {
				rtp := offsetfetch.ResponseTopic{Name: t.Name}
				if r.Intn(8) == 0 {
					rtp.Name = genTopicName(r)
					feats = append(feats, "other-topic-answered")
				}
				for _, p := range t.PartitionIndexes {
					e := offsetfetch.ResponsePartition{PartitionIndex: p, CommittedOffset: genOffset(r)}
					if r.Intn(6) == 0 {
						e.ErrorCode = 3
						e.CommittedOffset = -1
						feats = append(feats, "partition-error")
					}
					rtp.Partitions = append(rtp.Partitions, e)
				}
				res.Topics = append(res.Topics, rtp)
			}
			rt.ofResp = res
		}}
		client := &kafka.Client{Addr: kafka.TCP("fake:9092"), Transport: rtw}
		var res map[int]int64
		var err error
		panicked := false
		func() {
			defer func() {
				if e := recover(); e != nil {
					panicked = true
				}
			}()
			res, err = client.ConsumerOffsets(context.Background(), kafka.TopicAndGroup{Topic: asked, GroupId: "g"})
		}()
		if panicked {
			emit("co", S(asked)+" "+fmtMdResponse(m)+" 0 0 .", "PANIC", append(feats, "no-topics"))
			continue
		}
		if err != nil && len(m.Topics) == 0 && strings.Contains(err.Error(), "no topic in the response") {
			// a metadata response without topics: an error, before any OffsetFetch (once a panic)
			res := "NOTOPIC"
			if len(rt.seen) != 1 {
				res += "REQUEST-BAD"
			}
			emit("co", S(asked)+" "+fmtMdResponse(m)+" 0 0 .", res, append(feats, "no-topics"))
			continue
		}
		if err != nil {
			emit("co", "?", "ERR", feats)
			continue
		}
		freq := rt.seen[1].(*offsetfetch.Request)
		ql := make([]string, len(freq.Topics))
		for j, t := range freq.Topics {
			ql[j] = S(t.Name) + ":" + fmtIDs(t.PartitionIndexes)
		}
		keys := []int{}
		for k := range res {
			keys = append(keys, k)
		}
		sort.Ints(keys)
		rl := make([]string, len(keys))
		for j, k := range keys {
			rl[j] = I(int64(k)) + "/" + I(res[k])
		}
		mreq := rt.seen[0].(*metadata.Request)
		flag := ""
		if len(mreq.TopicNames) != 1 || mreq.TopicNames[0] != asked || freq.GroupID != "g" {
			flag = "REQUEST-BAD"
		}
		emit("co", S(asked)+" "+fmtMdResponse(m)+" "+fmtOfResponse(rt.ofResp), flag+"Q"+join(ql, ";")+" R"+join(rl, ","), dedup(append(feats, mdFeats(m)...)))
	}
}

// ---------------------------------------------------------------- tier 3: Conn against a wire-level peer

// peer serves the broker side of a net.Pipe with the codecs of /repo/protocol.
type peer struct {
	mu        sync.Mutex
	conn      net.Conn
	answer    func(ts int64) listoffsets.ResponsePartition // current list-offsets behaviour
	loTopics  func(ts int64) []listoffsets.ResponseTopic   // when set: the whole topic array of the answer
	topic     string
	partition int32
	loSeen    []int64 // timestamps of the list-offsets requests received
	badReq    bool
	mdMax     int16
	mdResp    *metadata.Response
	mdSeen    []*metadata.Request
	mdVersion []int16
	mdCluster *metadata.Response // when set: metadata requests are answered from this cluster according to the topic array ON THE WIRE
	mdWire    []string           // the topic array of each metadata request as read from the raw frame: "-" null, "." empty, else hex names
	raw       bytes.Buffer       // raw bytes of the request being read
	done      chan struct{}
}

// wireTopicArray decodes the topic array of a (non-flexible, v0..v8) metadata request frame
// by hand: size(4) api key(2) version(2) correlation id(4) client id(int16 length, -1 = null)
// then the int32 length of the topic array (-1 = null) and its int16-length-prefixed names.
func wireTopicArray(frame []byte) (isNull bool, names []string, ok bool) {
	if len(frame) < 14 {
		return false, nil, false
	}
	off := 12
	n := int(int16(binary.BigEndian.Uint16(frame[off:])))
	off += 2
	if n > 0 {
		off += n
	}
	if len(frame) < off+4 {
		return false, nil, false
	}
	count := int(int32(binary.BigEndian.Uint32(frame[off:])))
	off += 4
	if count < 0 {
		return true, nil, true
	}
	names = []string{}
	for i := 0; i < count; i++ {
		if len(frame) < off+2 {
			return false, nil, false
		}
		l := int(int16(binary.BigEndian.Uint16(frame[off:])))
		off += 2
		if l < 0 || len(frame) < off+l {
			return false, nil, false
		}
		names = append(names, string(frame[off:off+l]))
		off += l
	}
	return false, names, true
}

// clusterAnswer is what a broker holding cluster answers: a null array asks for every
// topic, a list for those named (one entry per distinct name; unknown names get
// UNKNOWN_TOPIC_OR_PARTITION), an empty array for none.
func clusterAnswer(cluster *metadata.Response, isNull bool, names []string) *metadata.Response {
	res := *cluster
	if isNull {
		return &res
	}
	res.Topics = []metadata.ResponseTopic{}
	seen := map[string]bool{}
	for _, name := range names {
		if seen[name] {
			continue
		}
		seen[name] = true
		found := false
		for _, t := range cluster.Topics {
			if t.Name == name {
				res.Topics = append(res.Topics, t)
				found = true
				break
			}
		}
		if !found {
			res.Topics = append(res.Topics, metadata.ResponseTopic{Name: name, ErrorCode: 3})
		}
	}
	return &res
}

func (p *peer) serve() {
	defer close(p.done)
	for {
		p.mu.Lock()
		p.raw.Reset()
		p.mu.Unlock()
		version, corr, _, msg, err := protocol.ReadRequest(io.TeeReader(p.conn, &p.raw))
		if err != nil {
			return
		}
		var res protocol.Message
		p.mu.Lock()
		switch m := msg.(type) {
		case *apiversions.Request:
			res = &apiversions.Response{ApiKeys: []apiversions.ApiKeyResponse{
				{ApiKey: int16(protocol.ListOffsets), MinVersion: 0, MaxVersion: 1},
				{ApiKey: int16(protocol.Metadata), MinVersion: 0, MaxVersion: p.mdMax},
				{ApiKey: int16(protocol.ApiVersions), MinVersion: 0, MaxVersion: 0},
			}}
		case *listoffsets.Request:
			if version != 1 || m.ReplicaID != -1 || len(m.Topics) != 1 || m.Topics[0].Topic != p.topic || len(m.Topics[0].Partitions) != 1 || m.Topics[0].Partitions[0].Partition != p.partition {
				p.badReq = true
			}
			ts := int64(0)
			if len(m.Topics) == 1 && len(m.Topics[0].Partitions) == 1 {
				ts = m.Topics[0].Partitions[0].Timestamp
			}
			p.loSeen = append(p.loSeen, ts)
			if p.loTopics != nil {
				res = &listoffsets.Response{Topics: p.loTopics(ts)}
			} else {
				res = &listoffsets.Response{Topics: []listoffsets.ResponseTopic{{Topic: p.topic, Partitions: []listoffsets.ResponsePartition{p.answer(ts)}}}}
			}
		case *metadata.Request:
			p.mdSeen = append(p.mdSeen, m)
			p.mdVersion = append(p.mdVersion, version)
			res = p.mdResp
			if p.mdCluster != nil {
				isNull, names, ok := wireTopicArray(p.raw.Bytes())
				switch {
				case !ok:
					p.badReq = true
					p.mdWire = append(p.mdWire, "?")
				case isNull:
					p.mdWire = append(p.mdWire, "-")
				default:
					l := make([]string, len(names))
					for i, nm := range names {
						l[i] = S(nm)
					}
					p.mdWire = append(p.mdWire, join(l, ","))
				}
				if (m.TopicNames == nil) != isNull || len(m.TopicNames) != len(names) {
					p.badReq = true // /repo/protocol's decoder disagrees with the raw frame
				}
				res = clusterAnswer(p.mdCluster, isNull, names)
			}
		default:
			p.badReq = true
			p.mu.Unlock()
			return
		}
		p.mu.Unlock()
		if err := protocol.WriteResponse(p.conn, version, corr, res); err != nil {
			return
		}
	}
}

func newPeer(topic string, partition int) (*kafka.Conn, *peer) {
	a, b := net.Pipe()
	p := &peer{conn: b, topic: topic, partition: int32(partition), mdMax: 1, done: make(chan struct{})}
	go p.serve()
	c := kafka.NewConnWith(a, kafka.ConnConfig{Topic: topic, Partition: partition})
	return c, p
}

func rawOffset(c *kafka.Conn) int64 {
	o, w := c.Offset()
	switch w {
	case kafka.SeekStart:
		return -2
	case kafka.SeekEnd:
		return -1
	}
	return o
}

type seekStep struct {
	off    int64
	whence int
	kind   byte // K, F, L
	first  int64
	last   int64
	code   int16
}

// slowSeeks counts the seek scenarios that ran into the connection deadline: on a Conn left
// misaligned by an earlier step every scenario would wait for it, so after three of them the
// remaining scenarios are reported as not run (the check then already has its failing cases).
var slowSeeks int

func runSeek(steps []seekStep, extra []string) {
	if slowSeeks >= 3 {
		emit("seek", "-", "NOT-RUN-after-3-scenarios-hit-the-deadline", append([]string{"not-run"}, extra...))
		return
	}
	t0 := time.Now()
	defer func() {
		if time.Since(t0) > 2*time.Second {
			slowSeeks++
		}
	}()
	c, p := newPeer("seek-topic", 3)
	defer func() { c.Close(); <-p.done }()
	c.SetDeadline(time.Now().Add(3 * time.Second))
	args := make([]string, len(steps))
	res := make([]string, len(steps))
	feats := map[string]bool{}
	for _, e := range extra {
		feats[e] = true
	}
	for i, s := range steps {
		s := s
		p.mu.Lock()
		p.loSeen = nil
		p.answer = func(ts int64) listoffsets.ResponsePartition {
			a := listoffsets.ResponsePartition{Partition: 3, Timestamp: -1}
			switch ts {
			case -2:
				a.Offset = s.first
				if s.kind == 'F' {
					a.ErrorCode, a.Offset = s.code, -1
				}
			case -1:
				a.Offset = s.last
				if s.kind == 'L' {
					a.ErrorCode, a.Offset = s.code, -1
				}
			default:
				a.ErrorCode = 42
			}
			return a
		}
		p.mu.Unlock()
		cur := rawOffset(c)
		ret, err := c.Seek(s.off, s.whence)
		p.mu.Lock()
		nreq := len(p.loSeen)
		okOrder := true
		for k, ts := range p.loSeen {
			if (k == 0 && ts != -2) || (k == 1 && ts != -1) || k > 1 {
				okOrder = false
			}
		}
		bad := p.badReq || !okOrder
		p.mu.Unlock()
		var ans string
		switch s.kind {
		case 'K':
			ans = "K:" + I(s.first) + ":" + I(s.last)
		case 'F':
			ans = "F:" + I(int64(s.code))
		default:
			ans = "L:" + I(s.first) + ":" + I(int64(s.code))
		}
		args[i] = I(s.off) + "/" + I(int64(s.whence)) + "/" + ans
		var rs string
		var ke kafka.Error
		switch {
		case err == nil:
			rs = "ok:" + I(ret)
		case errors.As(err, &ke):
			rs = "err:" + I(int64(ke))
			if ret != 0 {
				rs += "RET-NONZERO"
			}
		case strings.HasPrefix(err.Error(), "whence must be"):
			rs = "bw"
			if ret != 0 {
				rs += "RET-NONZERO"
			}
		default:
			rs = "?" + strings.ReplaceAll(err.Error(), " ", "_")
		}
		if bad {
			rs += "REQUEST-BAD"
		}
		res[i] = rs + "/" + I(rawOffset(c)) + "/" + I(int64(nreq))
		// features
		w := s.whence &^ kafka.SeekDontCheck
		wn := map[int]string{0: "start", 1: "absolute", 2: "end", 3: "current"}[w]
		if wn == "" {
			wn = "bad-whence"
		}
		feats[wn] = true
		if s.whence&kafka.SeekDontCheck != 0 {
			feats["dontcheck"] = true
		}
		if s.kind != 'K' {
			feats["broker-error"] = true
		}
		if cur < 0 && w == 3 {
			feats["current-on-sentinel"] = true
		}
		if w == 1 && s.off == cur && s.whence&kafka.SeekDontCheck == 0 {
			feats["unchanged-shortcut"] = true
		}
		if ke == kafka.OffsetOutOfRange && err != nil {
			feats["out-of-range"] = true
		}
	}
	fl := []string{}
	for k := range feats {
		fl = append(fl, k)
	}
	emit("seek", strings.Join(args, " "), strings.Join(res, ","), fl)
}

func genSeekSteps(r *rand.Rand) []seekStep {
	n := 1 + r.Intn(6)
	steps := make([]seekStep, n)
	first := int64(r.Intn(200))
	if r.Intn(3) == 0 {
		first = 0
	}
	last := first + int64(r.Intn(100))
	cur := int64(-2)
	for i := range steps {
		if r.Intn(4) == 0 { // the log moves
			first += int64(r.Intn(30))
			if last < first {
				last = first
			}
			last += int64(r.Intn(30))
		}
		s := seekStep{kind: 'K', first: first, last: last}
		if r.Intn(30) == 0 {
			s.first, s.last = math.MaxInt64-int64(r.Intn(50))-50, math.MaxInt64-int64(r.Intn(50))
		}
		switch r.Intn(12) {
		case 0:
			s.kind, s.code = 'F', []int16{3, 6, 9}[r.Intn(3)]
		case 1:
			s.kind, s.code = 'L', []int16{3, 6, 9}[r.Intn(3)]
		}
		s.whence = r.Intn(4)
		if r.Intn(25) == 0 {
			s.whence = []int{4, 5, -1, 7, 1 << 29}[r.Intn(5)]
		}
		if r.Intn(4) == 0 {
			s.whence |= kafka.SeekDontCheck
		}
		width := s.last - s.first
		switch r.Intn(10) {
		case 0: // boundaries of the range, relative to the mode
			s.off = []int64{0, width, width + 1, -1, 1}[r.Intn(5)]
		case 1:
			s.off = []int64{s.first, s.last, s.first - 1, s.last + 1}[r.Intn(4)]
		case 2:
			s.off = cur
		case 3:
			s.off = []int64{math.MaxInt64, math.MinInt64, math.MaxInt64 - 1, math.MinInt64 + 1}[r.Intn(4)]
		case 4:
			s.off = s.first + int64(r.Intn(int(width)+1)) - cur
		case 5:
			s.off = -int64(r.Intn(int(width) + 3))
		default:
			s.off = int64(r.Intn(int(width) + 3))
			if s.whence&3 == 1 {
				s.off += s.first - 1
			}
		}
		steps[i] = s
		// track a plausible current offset for the generator only
		if s.whence&3 == 1 {
			cur = s.off
		}
	}
	return steps
}

func tier3Seek(r *rand.Rand, n int) {
	// regression cases: the unchanged-offset shortcut (C19_seek_unchanged_shortcut_example) and
	// SeekCurrent from the FirstOffset/LastOffset placeholders (C19_seek_current_fresh; once a defect)
	runSeek([]seekStep{{off: -2, whence: kafka.SeekAbsolute, kind: 'K', first: 0, last: 10}}, []string{"shortcut-example"})
	runSeek([]seekStep{{off: 5, whence: kafka.SeekCurrent, kind: 'K', first: 100, last: 200}}, []string{"regression-current-sentinel"})
	runSeek([]seekStep{{off: 5, whence: kafka.SeekCurrent, kind: 'K', first: 0, last: 200}}, []string{"regression-current-sentinel"})
	runSeek([]seekStep{{off: 5, whence: kafka.SeekCurrent | kafka.SeekDontCheck, kind: 'K', first: 100, last: 200}}, []string{"regression-current-sentinel"})
	runSeek([]seekStep{{off: 101, whence: kafka.SeekCurrent | kafka.SeekDontCheck, kind: 'K', first: 100, last: 200}}, []string{"regression-current-sentinel"})
	runSeek([]seekStep{{off: 0, whence: kafka.SeekEnd, kind: 'K', first: 100, last: 200}, {off: 0, whence: kafka.SeekEnd | kafka.SeekDontCheck, kind: 'K', first: 100, last: 200}}, nil)
	runSeek([]seekStep{{off: 150, whence: kafka.SeekAbsolute, kind: 'K', first: 100, last: 200},
		{off: 150, whence: kafka.SeekAbsolute, kind: 'K', first: 160, last: 200}}, []string{"shortcut-example"})
	runSeek([]seekStep{{off: -1, whence: kafka.SeekAbsolute | kafka.SeekDontCheck, kind: 'K', first: 100, last: 200},
		{off: -5, whence: kafka.SeekCurrent, kind: 'K', first: 100, last: 200}}, []string{"regression-current-sentinel"})
	runSeek([]seekStep{{off: math.MinInt64, whence: kafka.SeekAbsolute | kafka.SeekDontCheck, kind: 'K', first: 0, last: 10},
		{off: math.MinInt64, whence: kafka.SeekCurrent, kind: 'K', first: 0, last: 10}}, []string{"int64-wrap"})
	for i := 0; i < n; i++ {
		runSeek(genSeekSteps(r), nil)
	}
}

func tier3ReadOffset(r *rand.Rand, n int) {
	// one connection per case: a kafka error in the middle of an (adversarial) answer
	// leaves the rest of the response unread, which is C11's business, not C19's
	for i := 0; i < n; i++ {
		tier3ReadOffsetCase(r)
	}
}

func tier3ReadOffsetCase(r *rand.Rand) {
	c, p := newPeer("ro-topic", 1)
	defer func() { c.Close(); <-p.done }()
	c.SetDeadline(time.Now().Add(30 * time.Second))
	{
		kind := r.Intn(3)
		var want int64
		var topics []listoffsets.ResponseTopic
		feats := []string{}
		if r.Intn(5) == 0 { // adversarial: several topics / partitions, or none
			feats = append(feats, "adversarial")
			for t := r.Intn(3); t > 0; t-- {
				rtp := listoffsets.ResponseTopic{Topic: genTopicName(r)}
				for k := r.Intn(3); k > 0; k-- {
					rtp.Partitions = append(rtp.Partitions, listoffsets.ResponsePartition{Partition: int32(r.Intn(3)), ErrorCode: errCodes[r.Intn(len(errCodes))], Timestamp: -1, Offset: genOffset(r)})
				}
				topics = append(topics, rtp)
			}
		} else {
			feats = append(feats, "faithful")
			e := listoffsets.ResponsePartition{Partition: 1, ErrorCode: errCodes[r.Intn(len(errCodes))], Timestamp: -1, Offset: genOffset(r)}
			if e.ErrorCode != 0 {
				feats = append(feats, "partition-error")
			}
			topics = []listoffsets.ResponseTopic{{Topic: "ro-topic", Partitions: []listoffsets.ResponsePartition{e}}}
		}
		p.mu.Lock()
		p.loSeen = nil
		p.loTopics = func(int64) []listoffsets.ResponseTopic { return topics }
		p.mu.Unlock()
		var off int64
		var err error
		switch kind {
		case 0:
			want = -2
			feats = append(feats, "first")
			off, err = c.ReadFirstOffset()
		case 1:
			want = -1
			feats = append(feats, "last")
			off, err = c.ReadLastOffset()
		default:
			want = 1600000000000 + int64(r.Intn(100000))
			feats = append(feats, "time")
			off, err = c.ReadOffset(time.Unix(0, 0).Add(time.Duration(want) * time.Millisecond))
		}
		p.mu.Lock()
		bad := p.badReq || len(p.loSeen) != 1 || p.loSeen[0] != want
		p.mu.Unlock()
		rs := "ok:" + I(off)
		if err != nil {
			rs = "err:" + code(err)
		}
		if bad {
			rs += "REQUEST-BAD"
		}
		emit("roff", fmtRespTopics(topics), rs, feats)
	}
}

func tier3ReadPartitions(r *rand.Rand, n int) {
	run := func(m *metadata.Response, v6 bool, connTopic string, asked []string, extra []string) {
		c, p := newPeer(connTopic, 0)
		defer func() { c.Close(); <-p.done }()
		c.SetDeadline(time.Now().Add(20 * time.Second))
		p.mu.Lock()
		p.mdResp = m
		if v6 {
			p.mdMax = 8
		}
		p.mu.Unlock()
		parts, err := c.ReadPartitions(asked...)
		p.mu.Lock()
		bad := p.badReq || len(p.mdSeen) != 1
		if !bad {
			want := asked
			if len(asked) == 0 && connTopic != "" {
				want = []string{connTopic}
			}
			seen := p.mdSeen[0]
			if fmt.Sprint(seen.TopicNames) != fmt.Sprint(want) || (seen.TopicNames == nil) != (len(want) == 0) {
				bad = true
			}
			if (v6 && p.mdVersion[0] != 6) || (!v6 && p.mdVersion[0] != 1) {
				bad = true
			}
		}
		p.mu.Unlock()
		feats := append(mdFeats(m), extra...)
		if v6 {
			feats = append(feats, "v6")
		} else {
			feats = append(feats, "v1")
		}
		if connTopic == "" {
			feats = append(feats, "no-conn-topic")
		}
		rs := ""
		if err != nil {
			rs = "err:" + code(err)
		} else {
			rs = "ok:" + fmtPartitions(parts)
			if len(parts) == 0 {
				rs = "ok:."
			}
		}
		if bad {
			rs += "REQUEST-BAD"
		}
		// metadata v1 has no cluster id / throttle / offline replicas on the wire: the
		// response given to the model is what the peer was asked to send
		emit("rp", kvfmt.Bool(v6)+" "+S(connTopic)+" "+fmtMdResponse(m), rs, dedup(feats))
	}
	// regression case: a leaderless partition's error code must be reported (once dropped)
	run(&metadata.Response{Brokers: []metadata.ResponseBroker{{NodeID: 0, Host: "h0", Port: 9092}},
		Topics: []metadata.ResponseTopic{{Name: "t", Partitions: []metadata.ResponsePartition{{ErrorCode: 5, PartitionIndex: 0, LeaderID: -1, ReplicaNodes: []int32{0}}}}}},
		false, "t", nil, []string{"regression-partition-error"})
	for i := 0; i < n; i++ {
		m := genMetadataResponse(r, r.Intn(5) == 0)
		connTopic := ""
		if r.Intn(4) != 0 {
			connTopic = genTopicName(r)
			if len(m.Topics) > 0 && r.Intn(2) == 0 {
				connTopic = m.Topics[r.Intn(len(m.Topics))].Name
			}
		}
		var asked []string
		for k := r.Intn(3); k > 0; k-- {
			asked = append(asked, genTopicName(r))
		}
		run(m, r.Intn(2) == 0, connTopic, asked, nil)
	}
}

// ---------------------------------------------------------------- tier 2b: two clusters behind one RoundTripper

// clusterRT answers ListOffsets / Metadata / OffsetFetch / OffsetCommit from one cluster's state.
type clusterRT struct {
	name string
	c    *cluster
}

func (k *clusterRT) metadata() *metadata.Response {
	res := &metadata.Response{ClusterID: "cluster-" + k.name, ControllerID: 0}
	ids := []int32{}
	for id := range k.c.brokers {
		ids = append(ids, id)
	}
	sort.Slice(ids, func(a, b int) bool { return ids[a] < ids[b] })
	for _, id := range ids {
		b := k.c.brokers[id]
		res.Brokers = append(res.Brokers, metadata.ResponseBroker{NodeID: b.ID, Host: k.name + "-" + b.Host, Port: b.Port, Rack: b.Rack})
	}
	names := []string{}
	for name := range k.c.topics {
		names = append(names, name)
	}
	sort.Strings(names)
	for _, name := range names {
		t := metadata.ResponseTopic{Name: name}
		for p := 0; p < len(k.c.topics[name]); p++ {
			st := k.c.topics[name][int32(p)]
			t.Partitions = append(t.Partitions, metadata.ResponsePartition{PartitionIndex: int32(p), LeaderID: st.leader, ReplicaNodes: []int32{st.leader}, IsrNodes: []int32{st.leader}})
		}
		res.Topics = append(res.Topics, t)
	}
	return res
}

func (k *clusterRT) RoundTrip(ctx context.Context, addr net.Addr, req kafka.Request) (kafka.Response, error) {
	switch m := req.(type) {
	case *listoffsets.Request:
		return (&fakeRT{c: k.c}).RoundTrip(ctx, addr, req)
	case *metadata.Request:
		res := k.metadata()
		if m.TopicNames != nil {
			var ts []metadata.ResponseTopic
			for _, n := range m.TopicNames {
				found := false
				for _, t := range res.Topics {
					if t.Name == n {
						ts, found = append(ts, t), true
					}
				}
				if !found {
					ts = append(ts, metadata.ResponseTopic{Name: n, ErrorCode: 3})
				}
			}
			res.Topics = ts
		}
		return res, nil
	case *offsetfetch.Request:
		return k.c.fetchCommitted(m.GroupID, m, nil), nil
	case *offsetcommit.Request:
		res := &offsetcommit.Response{}
		for _, t := range m.Topics {
			rtp := offsetcommit.ResponseTopic{Name: t.Name}
			for _, p := range t.Partitions {
				if k.c.committed[m.GroupID] == nil {
					k.c.committed[m.GroupID] = map[string]map[int32]commitState{}
				}
				if k.c.committed[m.GroupID][t.Name] == nil {
					k.c.committed[m.GroupID][t.Name] = map[int32]commitState{}
				}
				k.c.committed[m.GroupID][t.Name][p.PartitionIndex] = commitState{p.CommittedOffset, p.CommittedMetadata}
				rtp.Partitions = append(rtp.Partitions, offsetcommit.ResponsePartition{PartitionIndex: p.PartitionIndex})
			}
			res.Topics = append(res.Topics, rtp)
		}
		return res, nil
	}
	return nil, &servedErr{k.name}
}

// servedErr is what the clusters answer to the APIs they do not implement: the call
// fails, and the error tells which cluster was asked.
type servedErr struct{ cluster string }

func (e *servedErr) Error() string { return "served by cluster " + e.cluster }

// addrRT is one RoundTripper in front of several clusters, keyed by the address of the call.
type addrRT struct {
	clusters map[string]*clusterRT
	served   []string
}

func (a *addrRT) RoundTrip(ctx context.Context, addr net.Addr, req kafka.Request) (kafka.Response, error) {
	k, ok := a.clusters[addr.String()]
	if !ok {
		a.served = append(a.served, "?")
		return nil, fmt.Errorf("addrRT: no cluster at %v", addr)
	}
	a.served = append(a.served, k.name)
	return k.RoundTrip(ctx, addr, req)
}

// twoClusters: the same topics and partitions in both, but different leaders, offsets
// (B's are 1000000 higher), timestamps index and committed positions.
func twoClusters(r *rand.Rand) (*cluster, *cluster) {
	a := genCluster(r)
	a.unreachable = map[int32]bool{}
	b := &cluster{topics: map[string]map[int32]*partState{}, brokers: map[int32]protocol.Broker{}, unreachable: map[int32]bool{},
		committed: map[string]map[string]map[int32]commitState{}, commitErr: map[string]int16{}, throttle: a.throttle + 7}
	nb := 1 + r.Intn(4)
	for i := 0; i < nb; i++ {
		b.brokers[int32(i)] = protocol.Broker{ID: int32(i), Host: fmt.Sprintf("h%d", i), Port: int32(19092 + i)}
	}
	names := []string{}
	for name := range a.topics {
		names = append(names, name)
	}
	sort.Strings(names)
	for _, name := range names {
		b.topics[name] = map[int32]*partState{}
		for p := 0; p < len(a.topics[name]); p++ {
			sa := a.topics[name][int32(p)]
			sa.errCode = 0
			sb := &partState{start: sa.start + 1000000, end: sa.end + 1000000 + int64(r.Intn(50)), leader: int32(r.Intn(nb)), epoch: sa.epoch + 1}
			for _, e := range sa.index {
				sb.index = append(sb.index, tsEntry{e.ts + 5, e.off + 1000000})
			}
			b.topics[name][int32(p)] = sb
			for _, g := range []string{"g"} {
				for ci, c := range []*cluster{a, b} {
					if c.committed[g] == nil {
						c.committed[g] = map[string]map[int32]commitState{}
					}
					if c.committed[g][name] == nil {
						c.committed[g][name] = map[int32]commitState{}
					}
					c.committed[g][name][int32(p)] = commitState{int64(ci)*1000000 + int64(r.Intn(1000)), []string{"ma", "mb"}[ci]}
				}
			}
		}
	}
	return a, b
}

var addrA, addrB = kafka.TCP("cluster-a:9092"), kafka.TCP("cluster-b:9092")

func addrOf(x string) net.Addr {
	switch x {
	case "a":
		return addrA
	case "b":
		return addrB
	}
	return nil
}

// tier2Addresses: every Client query in the address configurations {client only, request
// only, both the same, both different, neither}: the answer must be the state of the
// cluster at the request's address when it has one, else at the client's.
func tier2Addresses(r *rand.Rand, n int) {
	configs := [][2]string{{"-", "a"}, {"-", "b"}, {"a", "-"}, {"b", "-"}, {"a", "a"}, {"b", "b"}, {"a", "b"}, {"b", "a"}, {"-", "-"}}
	cfgName := func(req, cl string) string {
		switch {
		case req == "-" && cl == "-":
			return "addr=neither"
		case req == "-":
			return "addr=client-only"
		case cl == "-":
			return "addr=request-only"
		case req == cl:
			return "addr=both-same"
		}
		return "addr=both-different"
	}
	for i := 0; i < n; i++ {
		ca, cb := twoClusters(r)
		names := []string{}
		for name := range ca.topics {
			names = append(names, name)
		}
		sort.Strings(names)
		topic := names[r.Intn(len(names))]
		part := r.Intn(len(ca.topics[topic]))
		for _, cfg := range configs {
			if i > 0 && r.Intn(3) != 0 {
				continue
			}
			req, cl := cfg[0], cfg[1]
			ctx := context.Background()
			run := func(api string, call func(c *kafka.Client, addr net.Addr) (string, error)) {
				rt := &addrRT{clusters: map[string]*clusterRT{addrA.String(): {"a", ca}, addrB.String(): {"b", cb}}}
				client := &kafka.Client{Addr: addrOf(cl), Transport: rt}
				var from string
				var err error
				func() {
					defer func() {
						if e := recover(); e != nil {
							err = fmt.Errorf("panic: %v", e)
						}
					}()
					from, err = call(client, addrOf(req))
				}()
				served := strings.Join(dedup(rt.served), "")
				res := ""
				var se *servedErr
				switch {
				case err == nil:
					res = served + "/" + from
				case errors.As(err, &se):
					res = served + "/-"
				case strings.Contains(err.Error(), "no address was given") && len(rt.served) == 0:
					res = "err"
				default:
					res = served + "/?" + strings.ReplaceAll(err.Error(), " ", "_")
				}
				emit("addr", api+" "+req+" "+cl, res, []string{cfgName(req, cl), "api=" + api})
			}
			which := func(isA, isB bool) string {
				switch {
				case isA && !isB:
					return "a"
				case isB && !isA:
					return "b"
				case isA && isB:
					return "ab"
				}
				return "none"
			}
			run("ListOffsets", func(c *kafka.Client, addr net.Addr) (string, error) {
				res, err := c.ListOffsets(ctx, &kafka.ListOffsetsRequest{Addr: addr, Topics: map[string][]kafka.OffsetRequest{topic: {kafka.FirstOffsetOf(part), kafka.LastOffsetOf(part)}}})
				if err != nil {
					return "", err
				}
				po := res.Topics[topic][0]
				sa, sb := ca.topics[topic][int32(part)], cb.topics[topic][int32(part)]
				return which(po.FirstOffset == sa.start && po.LastOffset == sa.end && po.Error == nil, po.FirstOffset == sb.start && po.LastOffset == sb.end && po.Error == nil), nil
			})
			run("Metadata", func(c *kafka.Client, addr net.Addr) (string, error) {
				res, err := c.Metadata(ctx, &kafka.MetadataRequest{Addr: addr, Topics: []string{topic}})
				if err != nil {
					return "", err
				}
				leader := -1
				if len(res.Topics) == 1 && len(res.Topics[0].Partitions) > part {
					leader = res.Topics[0].Partitions[part].Leader.ID
				}
				return which(res.ClusterID == "cluster-a" && leader == int(ca.topics[topic][int32(part)].leader) && len(res.Brokers) == len(ca.brokers),
					res.ClusterID == "cluster-b" && leader == int(cb.topics[topic][int32(part)].leader) && len(res.Brokers) == len(cb.brokers)), nil
			})
			run("OffsetFetch", func(c *kafka.Client, addr net.Addr) (string, error) {
				res, err := c.OffsetFetch(ctx, &kafka.OffsetFetchRequest{Addr: addr, GroupID: "g", Topics: map[string][]int{topic: {part}}})
				if err != nil {
					return "", err
				}
				p := res.Topics[topic][0]
				return which(p.CommittedOffset == ca.committed["g"][topic][int32(part)].off && p.Metadata == "ma", p.CommittedOffset == cb.committed["g"][topic][int32(part)].off && p.Metadata == "mb"), nil
			})
			consumerOffsets := run
			if req != "-" {
				consumerOffsets = func(string, func(*kafka.Client, net.Addr) (string, error)) {} // TopicAndGroup has no address of its own
			}
			consumerOffsets("ConsumerOffsets", func(c *kafka.Client, addr net.Addr) (string, error) {
				res, err := c.ConsumerOffsets(ctx, kafka.TopicAndGroup{Topic: topic, GroupId: "g"})
				if err != nil {
					return "", err
				}
				isA, isB := len(res) == len(ca.topics[topic]), len(res) == len(cb.topics[topic])
				for p, off := range res {
					isA = isA && off == ca.committed["g"][topic][int32(p)].off
					isB = isB && off == cb.committed["g"][topic][int32(p)].off
				}
				return which(isA, isB), nil
			})
			run("OffsetCommit", func(c *kafka.Client, addr net.Addr) (string, error) {
				mark := int64(5000000 + r.Intn(1000))
				res, err := c.OffsetCommit(ctx, &kafka.OffsetCommitRequest{Addr: addr, GroupID: "gc", GenerationID: 1, MemberID: "m", Topics: map[string][]kafka.OffsetCommit{topic: {{Partition: part, Offset: mark}}}})
				if err != nil {
					return "", err
				}
				if len(res.Topics[topic]) != 1 || res.Topics[topic][0].Error != nil {
					return "none", nil
				}
				wa := ca.committed["gc"][topic][int32(part)].off == mark
				wb := cb.committed["gc"][topic][int32(part)].off == mark
				delete(ca.committed, "gc")
				delete(cb.committed, "gc")
				return which(wa, wb), nil
			})
			// the other Client methods: the clusters do not implement them, the error tells which one was asked
			type gen = func(c *kafka.Client, addr net.Addr) (string, error)
			others := []struct {
				api  string
				call gen
			}{
				{"CreateTopics", func(c *kafka.Client, a net.Addr) (string, error) {
					_, err := c.CreateTopics(ctx, &kafka.CreateTopicsRequest{Addr: a})
					return "", err
				}},
				{"DeleteTopics", func(c *kafka.Client, a net.Addr) (string, error) {
					_, err := c.DeleteTopics(ctx, &kafka.DeleteTopicsRequest{Addr: a})
					return "", err
				}},
				{"CreatePartitions", func(c *kafka.Client, a net.Addr) (string, error) {
					_, err := c.CreatePartitions(ctx, &kafka.CreatePartitionsRequest{Addr: a})
					return "", err
				}},
				{"DescribeConfigs", func(c *kafka.Client, a net.Addr) (string, error) {
					_, err := c.DescribeConfigs(ctx, &kafka.DescribeConfigsRequest{Addr: a})
					return "", err
				}},
				{"AlterConfigs", func(c *kafka.Client, a net.Addr) (string, error) {
					_, err := c.AlterConfigs(ctx, &kafka.AlterConfigsRequest{Addr: a})
					return "", err
				}},
				{"ListGroups", func(c *kafka.Client, a net.Addr) (string, error) {
					_, err := c.ListGroups(ctx, &kafka.ListGroupsRequest{Addr: a})
					return "", err
				}},
				{"DescribeGroups", func(c *kafka.Client, a net.Addr) (string, error) {
					_, err := c.DescribeGroups(ctx, &kafka.DescribeGroupsRequest{Addr: a, GroupIDs: []string{"g"}})
					return "", err
				}},
				{"DeleteGroups", func(c *kafka.Client, a net.Addr) (string, error) {
					_, err := c.DeleteGroups(ctx, &kafka.DeleteGroupsRequest{Addr: a, GroupIDs: []string{"g"}})
					return "", err
				}},
				{"FindCoordinator", func(c *kafka.Client, a net.Addr) (string, error) {
					_, err := c.FindCoordinator(ctx, &kafka.FindCoordinatorRequest{Addr: a, Key: "g"})
					return "", err
				}},
				{"JoinGroup", func(c *kafka.Client, a net.Addr) (string, error) {
					_, err := c.JoinGroup(ctx, &kafka.JoinGroupRequest{Addr: a, GroupID: "g"})
					return "", err
				}},
				{"SyncGroup", func(c *kafka.Client, a net.Addr) (string, error) {
					_, err := c.SyncGroup(ctx, &kafka.SyncGroupRequest{Addr: a, GroupID: "g"})
					return "", err
				}},
				{"Heartbeat", func(c *kafka.Client, a net.Addr) (string, error) {
					_, err := c.Heartbeat(ctx, &kafka.HeartbeatRequest{Addr: a, GroupID: "g"})
					return "", err
				}},
				{"LeaveGroup", func(c *kafka.Client, a net.Addr) (string, error) {
					_, err := c.LeaveGroup(ctx, &kafka.LeaveGroupRequest{Addr: a, GroupID: "g"})
					return "", err
				}},
				{"OffsetDelete", func(c *kafka.Client, a net.Addr) (string, error) {
					_, err := c.OffsetDelete(ctx, &kafka.OffsetDeleteRequest{Addr: a, GroupID: "g"})
					return "", err
				}},
				{"Fetch", func(c *kafka.Client, a net.Addr) (string, error) {
					_, err := c.Fetch(ctx, &kafka.FetchRequest{Addr: a, Topic: topic, Partition: part, Offset: 0})
					return "", err
				}},
				{"Produce", func(c *kafka.Client, a net.Addr) (string, error) {
					_, err := c.Produce(ctx, &kafka.ProduceRequest{Addr: a, Topic: topic, Partition: part, RequiredAcks: kafka.RequireAll, Records: kafka.NewRecordReader(kafka.Record{Value: kafka.NewBytes([]byte("v"))})})
					return "", err
				}},
				{"InitProducerID", func(c *kafka.Client, a net.Addr) (string, error) {
					_, err := c.InitProducerID(ctx, &kafka.InitProducerIDRequest{Addr: a})
					return "", err
				}},
				{"EndTxn", func(c *kafka.Client, a net.Addr) (string, error) {
					_, err := c.EndTxn(ctx, &kafka.EndTxnRequest{Addr: a})
					return "", err
				}},
				{"ApiVersions", func(c *kafka.Client, a net.Addr) (string, error) {
					_, err := c.ApiVersions(ctx, &kafka.ApiVersionsRequest{Addr: a})
					return "", err
				}},
				{"ElectLeaders", func(c *kafka.Client, a net.Addr) (string, error) {
					_, err := c.ElectLeaders(ctx, &kafka.ElectLeadersRequest{Addr: a})
					return "", err
				}},
				{"DescribeACLs", func(c *kafka.Client, a net.Addr) (string, error) {
					_, err := c.DescribeACLs(ctx, &kafka.DescribeACLsRequest{Addr: a})
					return "", err
				}},
				{"AlterPartitionReassignments", func(c *kafka.Client, a net.Addr) (string, error) {
					_, err := c.AlterPartitionReassignments(ctx, &kafka.AlterPartitionReassignmentsRequest{Addr: a})
					return "", err
				}},
				{"ListPartitionReassignments", func(c *kafka.Client, a net.Addr) (string, error) {
					_, err := c.ListPartitionReassignments(ctx, &kafka.ListPartitionReassignmentsRequest{Addr: a})
					return "", err
				}},
				{"IncrementalAlterConfigs", func(c *kafka.Client, a net.Addr) (string, error) {
					_, err := c.IncrementalAlterConfigs(ctx, &kafka.IncrementalAlterConfigsRequest{Addr: a})
					return "", err
				}},
				{"AddPartitionsToTxn", func(c *kafka.Client, a net.Addr) (string, error) {
					_, err := c.AddPartitionsToTxn(ctx, &kafka.AddPartitionsToTxnRequest{Addr: a})
					return "", err
				}},
				{"AddOffsetsToTxn", func(c *kafka.Client, a net.Addr) (string, error) {
					_, err := c.AddOffsetsToTxn(ctx, &kafka.AddOffsetsToTxnRequest{Addr: a})
					return "", err
				}},
				{"TxnOffsetCommit", func(c *kafka.Client, a net.Addr) (string, error) {
					_, err := c.TxnOffsetCommit(ctx, &kafka.TxnOffsetCommitRequest{Addr: a})
					return "", err
				}},
			}
			if i == 0 {
				for _, o := range others {
					run(o.api, o.call)
				}
			} else {
				o := others[r.Intn(len(others))]
				run(o.api, o.call)
			}
		}
	}
}

// genClusterMetadata: a cluster's metadata with distinct, non-empty topic names
func genClusterMetadata(r *rand.Rand) *metadata.Response {
	m := genMetadataResponse(r, false)
	var ts []metadata.ResponseTopic
	seen := map[string]bool{}
	for _, t := range m.Topics {
		if t.Name == "" || seen[t.Name] {
			continue
		}
		seen[t.Name] = true
		if t.ErrorCode != 0 && r.Intn(2) == 0 {
			t.ErrorCode = 0
		}
		ts = append(ts, t)
	}
	if len(ts) == 0 || r.Intn(3) == 0 {
		for _, name := range []string{"orders", "payments", "t1"} {
			if !seen[name] {
				seen[name] = true
				np := 1 + r.Intn(3)
				t := metadata.ResponseTopic{Name: name}
				for p := 0; p < np; p++ {
					part := metadata.ResponsePartition{PartitionIndex: int32(p)}
					if len(m.Brokers) > 0 {
						part.LeaderID = m.Brokers[r.Intn(len(m.Brokers))].NodeID
						part.ReplicaNodes = []int32{part.LeaderID}
						part.IsrNodes = []int32{part.LeaderID}
					}
					t.Partitions = append(t.Partitions, part)
				}
				ts = append(ts, t)
			}
		}
	}
	m.Topics = ts
	return m
}

// rpArg is one shape of the ReadPartitions argument
type rpArg struct {
	shape string
	call  func(c *kafka.Conn) ([]kafka.Partition, error)
	enc   string   // "-" no argument (nil variadic), "." empty non-nil slice, else hex names
	names []string // topics named by the caller
}

func rpArgs(r *rand.Rand, cluster *metadata.Response) []rpArg {
	known := func() string {
		if len(cluster.Topics) > 0 && r.Intn(4) != 0 {
			return cluster.Topics[r.Intn(len(cluster.Topics))].Name
		}
		return []string{"a", "b", "zz", "missing"}[r.Intn(4)]
	}
	named := func(shape string, names []string) rpArg {
		l := make([]string, len(names))
		for i, n := range names {
			l[i] = S(n)
		}
		return rpArg{shape: shape, enc: strings.Join(l, ","), names: names,
			call: func(c *kafka.Conn) ([]kafka.Partition, error) { return c.ReadPartitions(names...) }}
	}
	one := known()
	several := []string{known(), known(), known()}
	d := known()
	dups := []string{d, known(), d}
	backing := []string{"x", "y"}
	var cfgTopics []string // a config that names no topic, decoded into an empty non-nil slice
	cfgTopics = append([]string{}, cfgTopics...)
	return []rpArg{
		{shape: "arg-none", enc: "-", call: func(c *kafka.Conn) ([]kafka.Partition, error) { return c.ReadPartitions() }},
		{shape: "arg-nil-slice", enc: "-", call: func(c *kafka.Conn) ([]kafka.Partition, error) { var l []string; return c.ReadPartitions(l...) }},
		{shape: "arg-empty-nonnil", enc: ".", call: func(c *kafka.Conn) ([]kafka.Partition, error) { return c.ReadPartitions([]string{}...) }},
		{shape: "arg-empty-cfg", enc: ".", call: func(c *kafka.Conn) ([]kafka.Partition, error) { return c.ReadPartitions(cfgTopics...) }},
		{shape: "arg-resliced-empty", enc: ".", call: func(c *kafka.Conn) ([]kafka.Partition, error) { return c.ReadPartitions(backing[:0]...) }},
		named("arg-one", []string{one}),
		named("arg-several", several),
		named("arg-duplicates", dups),
	}
}

// tier3ReadPartitionsQuery: ReadPartitions for every shape of the argument x Conn with /
// without topic x metadata v1 / v6, against a peer that answers from a cluster according
// to the topic array on the wire.
func tier3ReadPartitionsQuery(r *rand.Rand, n int) {
	for i := 0; i < n; i++ {
		cluster := genClusterMetadata(r)
		connTopics := []string{"", "orders"}
		if len(cluster.Topics) > 0 {
			connTopics[1] = cluster.Topics[r.Intn(len(cluster.Topics))].Name
		}
		if r.Intn(4) == 0 {
			connTopics[1] = "not-in-cluster"
		}
		for _, a := range rpArgs(r, cluster) {
			for _, connTopic := range connTopics {
				for _, v6 := range []bool{false, true} {
					if i > 0 && r.Intn(3) != 0 {
						continue // the first cluster runs the full product, the others a third of it
					}
					rpQueryCase(cluster, a, connTopic, v6)
				}
			}
		}
	}
}

func rpQueryCase(cluster *metadata.Response, a rpArg, connTopic string, v6 bool) {
	c, p := newPeer(connTopic, 0)
	defer func() { c.Close(); <-p.done }()
	c.SetDeadline(time.Now().Add(10 * time.Second))
	p.mu.Lock()
	p.mdCluster = cluster
	if v6 {
		p.mdMax = 8
	}
	p.mu.Unlock()
	parts, err := a.call(c)
	p.mu.Lock()
	bad := p.badReq || len(p.mdWire) != 1 || len(p.mdVersion) != 1
	wire := "?"
	if len(p.mdWire) == 1 {
		wire = p.mdWire[0]
	}
	if !bad && ((v6 && p.mdVersion[0] != 6) || (!v6 && p.mdVersion[0] != 1)) {
		bad = true
	}
	p.mu.Unlock()
	feats := append(mdFeats(cluster), a.shape)
	if v6 {
		feats = append(feats, "v6")
	} else {
		feats = append(feats, "v1")
	}
	if connTopic == "" {
		feats = append(feats, "no-conn-topic")
	} else {
		feats = append(feats, "conn-topic")
	}
	rs := ""
	if err != nil {
		rs = "err:" + code(err)
	} else {
		rs = "ok:" + fmtPartitions(parts)
		if len(parts) == 0 {
			rs = "ok:."
		}
	}
	if bad {
		rs += "REQUEST-BAD"
	}
	emit("rpq", kvfmt.Bool(v6)+" "+S(connTopic)+" "+a.enc+" "+fmtMdResponse(cluster), "Q"+wire+" "+rs, dedup(feats))
}

func main() {
	seed := flag.Int64("seed", 1, "PRNG seed")
	count := flag.Int("n", 400, "number of cases per family")
	subset := flag.String("subset", "", "run one family only: cut = responses cut at byte k through the real Transport (hosted for C17)")
	cutStride := flag.Int("cutstride", 4, "-subset cut: distance between the cut positions")
	flag.Parse()
	r := rand.New(rand.NewSource(*seed))
	out = bufio.NewWriterSize(os.Stdout, 1<<20)
	defer out.Flush()

	if *subset == "cut" {
		tierCut(r, *cutStride)
		tierCutFan(r, *cutStride)
		return
	}

	tier1(r, *count)
	tier2ListOffsets(r, *count)
	tier2Metadata(r, *count)
	tier2Offsets(r, *count/2)
	tier2ConsumerOffsets(r, *count/2)
	tier2Addresses(r, *count/20+1)
	tierE2E(r, *count/100+3)
	tierE2EFaults(r, *count/50+12)
	tierVersions(r, 2+*count/4000)
	tier3Seek(r, *count)
	tier3ReadOffset(r, *count)
	tier3ReadPartitions(r, *count/2)
	tier3ReadPartitionsQuery(r, *count/8+1)
}
