package main

// End-to-end family of the C19 driver: Client.ListOffsets / OffsetFetch / OffsetCommit through
// the REAL kafka.Transport against a wire-level multi-broker fake (one net.Pipe per dialled
// connection, /repo/protocol's ReadRequest/WriteResponse on the broker side).
//
// Broker ids start at 0 and the bootstrap address points at a non-zero broker.  Every
// broker answers only for what it owns: ListOffsets for partitions it does not lead comes
// back NOT_LEADER_FOR_PARTITION (6), OffsetFetch / OffsetCommit for groups it does not
// coordinate NOT_COORDINATOR (16).  Every per-partition / per-group query must therefore
// report the owner's state; the cases are emitted in the formats of the lo / of / oc
// families (single topic, so the order of the protocol request is the caller's) with the
// OWNERS' answers as the expected outcomes, and go through the same model and predicates.

import (
	"bytes"
	"context"
	"encoding/binary"
	"errors"
	"fmt"
	"io"
	"math/rand"
	"net"
	"sort"
	"strings"
	"sync"
	"time"

	kafka "github.com/segmentio/kafka-go"
	"github.com/segmentio/kafka-go/protocol"
	"github.com/segmentio/kafka-go/protocol/apiversions"
	"github.com/segmentio/kafka-go/protocol/describeconfigs"
	"github.com/segmentio/kafka-go/protocol/describegroups"
	"github.com/segmentio/kafka-go/protocol/findcoordinator"
	"github.com/segmentio/kafka-go/protocol/listgroups"
	"github.com/segmentio/kafka-go/protocol/listoffsets"
	"github.com/segmentio/kafka-go/protocol/metadata"
	"github.com/segmentio/kafka-go/protocol/offsetcommit"
	"github.com/segmentio/kafka-go/protocol/offsetfetch"
)

type e2eCluster struct {
	mu        sync.Mutex
	nb        int
	topic     string
	parts     []*partState // leader, start, end, index, epoch
	coord     map[string]int32
	committed map[string]map[int32]commitState
	asked     map[int32]int // broker id -> number of owner-only requests (list offsets, offset fetch/commit) received
	conns     []net.Conn
	// transport-level faults
	refuse    map[int32]bool // dialling this broker is refused
	dropOnLO  map[int32]bool // this broker closes the connection when it receives a ListOffsets request
	ghost     map[int32]bool // partition whose leader id (in the metadata) is not in the broker list
	hidden    map[int32]bool // partition the metadata does not list
	bootstrap int32
	// cut responses: while a broker is in cutLO (cutOF), every ListOffsets (OffsetFetch) response it
	// produces is written up to byte k only and the connection is then closed
	cutLO    map[int32]int
	cutOF    map[int32]int
	cutFrame int // length of the last frame subjected to a cut (4-byte size prefix included)
	// fan-out APIs: while cutFor is set, every response to that api of a broker in cutAny is cut at byte k
	cutFor    protocol.ApiKey
	cutAny    map[int32]int
	cutFrames map[int32]int // length of the last frame each broker subjected to such a cut
	// version sweep: the ApiVersions answer pins these maxima; the four query APIs are answered with
	// frames laid out BY HAND for the version of the request (versions.go), not with the library's encoder
	hand      bool
	maxVer    map[protocol.ApiKey]int16
	throttle  int32
	racks     bool
	groupErr  map[string]int16
	verSeen   map[protocol.ApiKey]int16 // version of the last request seen per api
	ctrlDials int                       // dials of the bootstrap address so far (the first one is the Transport's control connection)
}

const e2eGhostLeader = 77

func e2eHost(id int) string { return fmt.Sprintf("e2e-b%d", id) }

func (e *e2eCluster) dial(ctx context.Context, network, address string) (net.Conn, error) {
	var id int
	if _, err := fmt.Sscanf(address, "e2e-b%d:9092", &id); err != nil || id < 0 || id >= e.nb {
		return nil, fmt.Errorf("e2e: no broker at %s", address)
	}
	e.mu.Lock()
	if e.refuse[int32(id)] {
		e.mu.Unlock()
		return nil, &fakeErr{id: 1}
	}
	e.mu.Unlock()
	a, b := net.Pipe()
	e.mu.Lock()
	e.conns = append(e.conns, b)
	e.mu.Unlock()
	go e.serve(int32(id), b)
	return a, nil
}

func (e *e2eCluster) close() {
	e.mu.Lock()
	defer e.mu.Unlock()
	for _, c := range e.conns {
		c.Close()
	}
}

func (e *e2eCluster) serve(id int32, c net.Conn) {
	defer c.Close()
	for {
		version, corr, _, msg, err := protocol.ReadRequest(c)
		if err != nil {
			return
		}
		var res protocol.Message
		e.mu.Lock()
		switch m := msg.(type) {
		case *apiversions.Request:
			mv := func(k protocol.ApiKey, def int16) int16 {
				if v, ok := e.maxVer[k]; ok {
					return v
				}
				return def
			}
			res = &apiversions.Response{ApiKeys: []apiversions.ApiKeyResponse{
				{ApiKey: int16(protocol.ListOffsets), MinVersion: 1, MaxVersion: mv(protocol.ListOffsets, 5)},
				{ApiKey: int16(protocol.Metadata), MinVersion: 0, MaxVersion: mv(protocol.Metadata, 8)},
				{ApiKey: int16(protocol.OffsetCommit), MinVersion: 0, MaxVersion: mv(protocol.OffsetCommit, 7)},
				{ApiKey: int16(protocol.OffsetFetch), MinVersion: 0, MaxVersion: mv(protocol.OffsetFetch, 5)},
				{ApiKey: int16(protocol.FindCoordinator), MinVersion: 0, MaxVersion: 2},
				{ApiKey: int16(protocol.ListGroups), MinVersion: 0, MaxVersion: 2},
				{ApiKey: int16(protocol.DescribeGroups), MinVersion: 0, MaxVersion: 4},
				{ApiKey: int16(protocol.DescribeConfigs), MinVersion: 0, MaxVersion: 3},
				{ApiKey: int16(protocol.ApiVersions), MinVersion: 0, MaxVersion: 2},
			}}
		case *metadata.Request:
			r := &metadata.Response{ClusterID: "e2e", ControllerID: int32(e.nb - 1), ThrottleTimeMs: e.throttle}
			for b := 0; b < e.nb; b++ {
				rb := metadata.ResponseBroker{NodeID: int32(b), Host: e2eHost(b), Port: 9092}
				if e.racks {
					rb.Rack = fmt.Sprintf("rack-%d", b%2)
				}
				r.Brokers = append(r.Brokers, rb)
			}
			t := metadata.ResponseTopic{Name: e.topic}
			for p, st := range e.parts {
				if e.hidden[int32(p)] {
					continue
				}
				l := st.leader
				if e.ghost[int32(p)] {
					l = e2eGhostLeader
				}
				t.Partitions = append(t.Partitions, metadata.ResponsePartition{PartitionIndex: int32(p), LeaderID: l, ReplicaNodes: []int32{l}, IsrNodes: []int32{l}})
			}
			r.Topics = []metadata.ResponseTopic{t}
			res = r
		case *findcoordinator.Request:
			co, ok := e.coord[m.Key]
			if !ok {
				res = &findcoordinator.Response{ErrorCode: 15, NodeID: -1}
			} else {
				res = &findcoordinator.Response{NodeID: co, Host: e2eHost(int(co)), Port: 9092}
			}
		case *listgroups.Request:
			r := &listgroups.Response{}
			for _, g := range e.groupNames() {
				if e.coord[g] == id {
					r.Groups = append(r.Groups, listgroups.ResponseGroup{GroupID: g, ProtocolType: "consumer"})
				}
			}
			res = r
		case *describegroups.Request:
			r := &describegroups.Response{}
			for _, g := range m.Groups {
				rg := describegroups.ResponseGroup{GroupID: g}
				if co, ok := e.coord[g]; ok && co == id {
					rg.GroupState, rg.ProtocolType, rg.ProtocolData = fmt.Sprintf("Stable-%d", id), "consumer", "range"
				} else {
					rg.ErrorCode = 16
				}
				r.Groups = append(r.Groups, rg)
			}
			res = r
		case *describeconfigs.Request:
			r := &describeconfigs.Response{}
			for _, rs := range m.Resources {
				r.Resources = append(r.Resources, describeconfigs.ResponseResource{ResourceType: rs.ResourceType, ResourceName: rs.ResourceName,
					ConfigEntries: []describeconfigs.ResponseConfigEntry{{ConfigName: "answered.by", ConfigValue: fmt.Sprint(id)}}})
			}
			res = r
		case *listoffsets.Request:
			if e.dropOnLO[id] {
				e.mu.Unlock()
				return // the deferred Close drops the connection with the request unanswered
			}
			e.asked[id]++
			r := &listoffsets.Response{ThrottleTimeMs: e.throttle}
			for _, t := range m.Topics {
				rt := listoffsets.ResponseTopic{Topic: t.Topic}
				for _, p := range t.Partitions {
					rt.Partitions = append(rt.Partitions, e.listOffset(id, t.Topic, p.Partition, p.Timestamp))
				}
				r.Topics = append(r.Topics, rt)
			}
			res = r
		case *offsetfetch.Request:
			e.asked[id]++
			r := &offsetfetch.Response{ThrottleTimeMs: e.throttle}
			owner := e.coord[m.GroupID] == id
			if !owner {
				r.ErrorCode = 16
			} else {
				r.ErrorCode = e.groupErr[m.GroupID]
			}
			for _, t := range m.Topics {
				rt := offsetfetch.ResponseTopic{Name: t.Name}
				for _, p := range t.PartitionIndexes {
					rt.Partitions = append(rt.Partitions, e.fetchOne(owner, m.GroupID, p))
				}
				r.Topics = append(r.Topics, rt)
			}
			res = r
		case *offsetcommit.Request:
			e.asked[id]++
			r := &offsetcommit.Response{ThrottleTimeMs: e.throttle}
			owner := e.coord[m.GroupID] == id
			for _, t := range m.Topics {
				rt := offsetcommit.ResponseTopic{Name: t.Name}
				for _, p := range t.Partitions {
					ec := int16(0)
					switch {
					case !owner:
						ec = 16
					case t.Name != e.topic || int(p.PartitionIndex) >= len(e.parts) || p.PartitionIndex < 0:
						ec = 3
					default:
						if e.committed[m.GroupID] == nil {
							e.committed[m.GroupID] = map[int32]commitState{}
						}
						e.committed[m.GroupID][p.PartitionIndex] = commitState{p.CommittedOffset, p.CommittedMetadata}
					}
					rt.Partitions = append(rt.Partitions, offsetcommit.ResponsePartition{PartitionIndex: p.PartitionIndex, ErrorCode: ec})
				}
				r.Topics = append(r.Topics, rt)
			}
			res = r
		default:
			e.mu.Unlock()
			return
		}
		if e.verSeen != nil {
			e.verSeen[msg.ApiKey()] = version
		}
		if e.hand {
			if body := handEncode(version, res); body != nil {
				e.mu.Unlock()
				frame := make([]byte, 8, 8+len(body))
				binary.BigEndian.PutUint32(frame[0:], uint32(4+len(body)))
				binary.BigEndian.PutUint32(frame[4:], uint32(corr))
				if _, err := c.Write(append(frame, body...)); err != nil {
					return
				}
				continue
			}
		}
		cutAt := -1
		if e.cutFor == msg.ApiKey() && e.cutAny != nil {
			if k, ok := e.cutAny[id]; ok {
				var buf bytes.Buffer
				if err := protocol.WriteResponse(&buf, version, corr, res); err != nil {
					e.mu.Unlock()
					return
				}
				frame := buf.Bytes()
				e.cutFrames[id] = len(frame)
				e.mu.Unlock()
				if k < len(frame) {
					if k > 0 {
						c.Write(frame[:k])
					}
					return
				}
				if _, err := c.Write(frame); err != nil {
					return
				}
				continue
			}
		}
		switch msg.(type) {
		case *listoffsets.Request:
			if k, ok := e.cutLO[id]; ok {
				cutAt = k
			}
		case *offsetfetch.Request:
			if k, ok := e.cutOF[id]; ok {
				cutAt = k
			}
		}
		e.mu.Unlock()
		if cutAt >= 0 {
			var buf bytes.Buffer
			if err := protocol.WriteResponse(&buf, version, corr, res); err != nil {
				return
			}
			frame := buf.Bytes()
			e.mu.Lock()
			e.cutFrame = len(frame)
			e.mu.Unlock()
			if cutAt < len(frame) {
				if cutAt > 0 {
					c.Write(frame[:cutAt])
				}
				return // the deferred Close loses the connection with the response cut at byte cutAt
			}
			if _, err := c.Write(frame); err != nil {
				return
			}
			continue
		}
		if err := protocol.WriteResponse(c, version, corr, res); err != nil {
			return
		}
	}
}

// listOffset: broker id's answer for (topic, partition, ts); id < 0 = the owner's answer
func (e *e2eCluster) listOffset(id int32, topic string, partition int32, ts int64) listoffsets.ResponsePartition {
	if topic != e.topic || partition < 0 || int(partition) >= len(e.parts) {
		return listoffsets.ResponsePartition{Partition: partition, ErrorCode: 3, Timestamp: -1, Offset: -1, LeaderEpoch: -1}
	}
	st := e.parts[partition]
	if id >= 0 && st.leader != id {
		return listoffsets.ResponsePartition{Partition: partition, ErrorCode: 6, Timestamp: -1, Offset: -1, LeaderEpoch: -1}
	}
	switch ts {
	case -2:
		return listoffsets.ResponsePartition{Partition: partition, Timestamp: -1, Offset: st.start, LeaderEpoch: st.epoch}
	case -1:
		return listoffsets.ResponsePartition{Partition: partition, Timestamp: -1, Offset: st.end, LeaderEpoch: st.epoch}
	}
	for _, x := range st.index {
		if x.ts >= ts {
			return listoffsets.ResponsePartition{Partition: partition, Timestamp: x.ts, Offset: x.off, LeaderEpoch: st.epoch}
		}
	}
	return listoffsets.ResponsePartition{Partition: partition, Timestamp: -1, Offset: -1, LeaderEpoch: st.epoch}
}

func (e *e2eCluster) fetchOne(owner bool, group string, p int32) offsetfetch.ResponsePartition {
	r := offsetfetch.ResponsePartition{PartitionIndex: p, CommittedOffset: -1, ComittedLeaderEpoch: -1}
	if !owner {
		r.ErrorCode = 16
		return r
	}
	if cs, ok := e.committed[group][p]; ok {
		r.CommittedOffset, r.Metadata = cs.off, cs.meta
	}
	return r
}

func genE2E(r *rand.Rand) (*e2eCluster, int) {
	e := &e2eCluster{nb: 2 + r.Intn(3), topic: []string{"orders", "e2e-topic", "t"}[r.Intn(3)],
		coord: map[string]int32{}, committed: map[string]map[int32]commitState{}, asked: map[int32]int{},
		refuse: map[int32]bool{}, dropOnLO: map[int32]bool{}, ghost: map[int32]bool{}, hidden: map[int32]bool{},
		cutLO: map[int32]int{}, cutOF: map[int32]int{}, groupErr: map[string]int16{}, cutFrames: map[int32]int{}}
	np := 2 + r.Intn(5)
	for p := 0; p < np; p++ {
		st := &partState{leader: int32(r.Intn(e.nb)), epoch: int32(r.Intn(9)), start: int64(r.Intn(500))}
		if p == 0 {
			st.leader = 0 // broker 0 always owns something
		}
		ts, off := int64(1600000000000+r.Intn(100)), st.start
		for k := r.Intn(6); k > 0; k-- {
			st.index = append(st.index, tsEntry{ts, off})
			ts += int64(1+r.Intn(3)) * 10
			off += int64(1 + r.Intn(5))
		}
		st.end = off
		e.parts = append(e.parts, st)
	}
	for g := 0; g < e.nb+1; g++ {
		name := fmt.Sprintf("grp-%d", g)
		e.coord[name] = int32(g % e.nb) // grp-0 is coordinated by broker 0
		e.committed[name] = map[int32]commitState{}
		for p := 0; p < np; p++ {
			if r.Intn(3) != 0 {
				e.committed[name][int32(p)] = commitState{int64(g*10000 + p*100 + r.Intn(100)), []string{"", "m"}[r.Intn(2)]}
			}
		}
	}
	bootstrap := 1 + r.Intn(e.nb-1) // never broker 0
	e.bootstrap = int32(bootstrap)
	return e, bootstrap
}

func tierE2E(r *rand.Rand, n int) {
	for i := 0; i < n; i++ {
		e, bootstrap := genE2E(r)
		tr := &kafka.Transport{Dial: e.dial, DialTimeout: 2 * time.Second}
		client := &kafka.Client{Addr: kafka.TCP(e2eHost(bootstrap) + ":9092"), Transport: tr, Timeout: 5 * time.Second}
		ctx := context.Background()
		base := []string{"e2e", fmt.Sprintf("brokers=%d", e.nb)}

		// ---- ListOffsets: partitions led by different brokers, broker 0 among them
		var reqs []kafka.OffsetRequest
		zeroLed := false
		for p := range e.parts {
			if p != 0 && r.Intn(4) == 0 {
				continue
			}
			if r.Intn(2) == 0 || p == 0 {
				reqs = append(reqs, kafka.FirstOffsetOf(p))
			}
			if r.Intn(2) == 0 {
				reqs = append(reqs, kafka.LastOffsetOf(p))
			}
			if r.Intn(3) == 0 {
				reqs = append(reqs, kafka.OffsetRequest{Partition: p, Timestamp: 1600000000000 + int64(r.Intn(150))})
			}
			zeroLed = zeroLed || e.parts[p].leader == 0
		}
		res, err := client.ListOffsets(ctx, &kafka.ListOffsetsRequest{Topics: map[string][]kafka.OffsetRequest{e.topic: reqs}})
		feats := append([]string{}, base...)
		if zeroLed {
			feats = append(feats, "owner=broker-0")
		}
		ul := make([]string, len(reqs))
		outs := make([]string, len(reqs))
		pq := &listoffsets.Request{ReplicaID: -1, Topics: []listoffsets.RequestTopic{{Topic: e.topic}}}
		for k, q := range reqs {
			ul[k] = I(int64(q.Partition)) + "/" + I(q.Timestamp)
			a := e.listOffset(-1, e.topic, int32(q.Partition), q.Timestamp) // the owner's answer
			outs[k] = "A/" + I(int64(a.ErrorCode)) + "/" + I(a.Timestamp) + "/" + I(a.Offset) + "/" + I(int64(a.LeaderEpoch)) + "/0"
			pq.Topics[0].Partitions = append(pq.Topics[0].Partitions, listoffsets.RequestPartition{Partition: int32(q.Partition), CurrentLeaderEpoch: -1, Timestamp: q.Timestamp})
		}
		args := "0 " + S(e.topic) + ":" + strings.Join(ul, ",") + " " + join(outs, "~")
		q := "Q" + fmtReq(pq, "@")
		if err != nil {
			emit("lo", args, q+" ERR:"+strings.ReplaceAll(err.Error(), " ", "_"), feats)
		} else {
			var entries []string
			ps := append([]kafka.PartitionOffsets{}, res.Topics[e.topic]...)
			sortPartitionOffsets(ps)
			for _, p := range ps {
				var ol []string
				for _, o := range sortedOffsets(p.Offsets) {
					ol = append(ol, I(o)+"="+fmtTime(p.Offsets[o]))
				}
				entries = append(entries, S(e.topic)+"/"+I(int64(p.Partition))+"/"+I(p.FirstOffset)+"/"+I(p.LastOffset)+"/"+code(p.Error)+"/"+join(ol, "+"))
			}
			emit("lo", args, q+" R"+I(int64(res.Throttle/time.Millisecond))+"@"+join(entries, ","), feats)
		}

		// ---- OffsetFetch / OffsetCommit for every group (grp-0 is coordinated by broker 0)
		for g := 0; g < e.nb+1; g++ {
			group := fmt.Sprintf("grp-%d", g)
			gf := append([]string{}, base...)
			if e.coord[group] == 0 {
				gf = append(gf, "owner=broker-0")
			}
			// commit
			var commits []kafka.OffsetCommit
			for p := range e.parts {
				if r.Intn(2) == 0 {
					commits = append(commits, kafka.OffsetCommit{Partition: p, Offset: int64(900000 + r.Intn(1000)), Metadata: []string{"", "c"}[r.Intn(2)]})
				}
			}
			if len(commits) > 0 {
				gen := r.Intn(50)
				cres, err := client.OffsetCommit(ctx, &kafka.OffsetCommitRequest{GroupID: group, GenerationID: gen, MemberID: "m1", Topics: map[string][]kafka.OffsetCommit{e.topic: commits}})
				ps := make([]string, len(commits))
				rl := make([]string, len(commits))
				stateOK := true
				e.mu.Lock()
				for k, cm := range commits {
					ps[k] = I(int64(cm.Partition)) + "/" + I(cm.Offset) + "/" + S(cm.Metadata)
					rl[k] = I(int64(cm.Partition)) + "/0" // the coordinator accepts every commit
					if cs := e.committed[group][int32(cm.Partition)]; cs.off != cm.Offset || cs.meta != cm.Metadata {
						stateOK = false
					}
				}
				e.mu.Unlock()
				cargs := I(int64(gen)) + " " + S(e.topic) + ":" + strings.Join(ps, ",") + " 0 " + S(e.topic) + ":" + strings.Join(rl, ",")
				cq := "Q" + I(int64(gen)) + "/5265c00@" + S(e.topic) + ":" + strings.Join(ps, ",")
				switch {
				case err != nil:
					emit("oc", cargs, cq+" ERR:"+strings.ReplaceAll(err.Error(), " ", "_"), gf)
				default:
					al := make([]string, len(cres.Topics[e.topic]))
					for k, p := range cres.Topics[e.topic] {
						al[k] = I(int64(p.Partition)) + "/" + code(p.Error)
					}
					flag := ""
					if !stateOK {
						flag = "STATE-BAD"
					}
					emit("oc", cargs, flag+cq+" R"+I(int64(cres.Throttle/time.Millisecond))+"@"+S(e.topic)+":"+strings.Join(al, ","), gf)
				}
			}
			// fetch: what the coordinator holds now
			var ids []int
			for p := range e.parts {
				if r.Intn(3) != 0 {
					ids = append(ids, p)
				}
			}
			if len(ids) == 0 {
				ids = []int{0}
			}
			fres, err := client.OffsetFetch(ctx, &kafka.OffsetFetchRequest{GroupID: group, Topics: map[string][]int{e.topic: ids}})
			want := &offsetfetch.Response{Topics: []offsetfetch.ResponseTopic{{Name: e.topic}}}
			ids32 := make([]int32, len(ids))
			e.mu.Lock()
			for k, p := range ids {
				ids32[k] = int32(p)
				want.Topics[0].Partitions = append(want.Topics[0].Partitions, e.fetchOne(true, group, int32(p)))
			}
			e.mu.Unlock()
			ulist := S(e.topic) + ":" + fmtIDs(ids32)
			if err != nil {
				emit("of", ulist+" "+fmtOfResponse(want), "Q"+ulist+" ERR:"+strings.ReplaceAll(err.Error(), " ", "_"), gf)
			} else {
				emit("of", ulist+" "+fmtOfResponse(want), "Q"+ulist+" "+fmtOfAPI(fres), gf)
			}
		}
		e.close()
		tr.CloseIdleConnections()
	}
}

func sortPartitionOffsets(ps []kafka.PartitionOffsets) {
	for i := 1; i < len(ps); i++ {
		for j := i; j > 0 && ps[j-1].Partition > ps[j].Partition; j-- {
			ps[j-1], ps[j] = ps[j], ps[j-1]
		}
	}
}

func sortedOffsets(m map[int64]time.Time) []int64 {
	l := make([]int64, 0, len(m))
	for o := range m {
		l = append(l, o)
	}
	for i := 1; i < len(l); i++ {
		for j := i; j > 0 && l[j-1] > l[j]; j-- {
			l[j-1], l[j] = l[j], l[j-1]
		}
	}
	return l
}

// ---------------------------------------------------------------- transport-level faults

// e2eErrClass names the transport-level failure behind an error of the call: 1 = the dial
// was refused, 2 = the connection was dropped with the request unanswered, 3 = the
// partition's leader is not among the brokers of the layout (ErrNoLeader), 4 = the
// partition is not in the layout (ErrNoPartition).
func e2eErrClass(err error) string {
	var fe *fakeErr
	switch {
	case errors.As(err, &fe) || strings.Contains(err.Error(), "fake failure 1"):
		return "1"
	case errors.Is(err, protocol.ErrNoLeader) || errors.Is(err, kafka.BrokerNotAvailable):
		return "3"
	case errors.Is(err, protocol.ErrNoPartition):
		return "4"
	case errors.Is(err, io.EOF) || errors.Is(err, io.ErrUnexpectedEOF) || errors.Is(err, io.ErrClosedPipe) || strings.Contains(err.Error(), "closed"):
		return "2"
	}
	return "?" + strings.ReplaceAll(err.Error(), " ", "_")
}

// expectedOutcome: what the Transport's sub-request for (partition, ts) must come back with,
// given the faults: the owner's answer, or a failure (the sub-request is not even sent when
// the layout does not list the partition or its leader).
func (e *e2eCluster) expectedOutcome(p int32, ts int64) string {
	ans := func(a listoffsets.ResponsePartition) string {
		return "A/" + I(int64(a.ErrorCode)) + "/" + I(a.Timestamp) + "/" + I(a.Offset) + "/" + I(int64(a.LeaderEpoch)) + "/0"
	}
	if int(p) >= len(e.parts) || e.hidden[p] {
		return "F/4"
	}
	l := e.parts[p].leader
	switch {
	case e.ghost[p]:
		return "F/3"
	case e.refuse[l]:
		return "F/1"
	case e.dropOnLO[l]:
		return "F/2"
	}
	return ans(e.listOffset(-1, e.topic, p, ts))
}

// tierE2EFaults: Client.ListOffsets over several partitions through the real Transport while
// some sub-requests fail at the transport level.  Expected (the model's Merge over the
// positionally aligned outcomes): healthy partitions report the owners' offsets, a failed
// sub-request's partition carries an error, the call succeeds unless every sub-request failed.
func tierE2EFaults(r *rand.Rand, n int) {
	for i := 0; i < n; i++ {
		e, bootstrap := genE2E(r)
		fault := []string{"refused", "dropped", "ghost-leader", "hidden-partition", "mixed", "all-failed"}[i%6]
		np := len(e.parts)
		victim := int32(r.Intn(np))
		setFault := func(kind string, p int32) {
			l := e.parts[p].leader
			switch kind {
			case "refused":
				if l == int32(bootstrap) { // the control connection must come up: move the partition to another broker first
					l = (l + 1) % int32(e.nb)
					e.parts[p].leader = l
				}
				e.refuse[l] = true
			case "dropped":
				if l == int32(bootstrap) {
					l = (l + 1) % int32(e.nb)
					e.parts[p].leader = l
				}
				e.dropOnLO[l] = true
			case "ghost-leader":
				e.ghost[p] = true
			case "hidden-partition":
				e.hidden[p] = true
			}
		}
		switch fault {
		case "mixed":
			for _, k := range []string{"refused", "dropped", "ghost-leader", "hidden-partition"} {
				if r.Intn(2) == 0 {
					setFault(k, int32(r.Intn(np)))
				}
			}
			setFault([]string{"refused", "dropped", "ghost-leader"}[r.Intn(3)], victim)
		case "all-failed":
			kind := []string{"ghost-leader", "hidden-partition", "refused", "dropped"}[r.Intn(4)]
			for p := 0; p < np; p++ {
				setFault(kind, int32(p))
			}
		default:
			setFault(fault, victim)
		}
		tr := &kafka.Transport{Dial: e.dial, DialTimeout: 2 * time.Second}
		client := &kafka.Client{Addr: kafka.TCP(e2eHost(bootstrap) + ":9092"), Transport: tr, Timeout: 5 * time.Second}
		var reqs []kafka.OffsetRequest
		for p := 0; p < np; p++ {
			if int32(p) != victim && r.Intn(5) == 0 {
				continue
			}
			switch r.Intn(3) {
			case 0:
				reqs = append(reqs, kafka.FirstOffsetOf(p))
			case 1:
				reqs = append(reqs, kafka.LastOffsetOf(p))
			default:
				reqs = append(reqs, kafka.FirstOffsetOf(p), kafka.LastOffsetOf(p))
			}
			if r.Intn(4) == 0 {
				reqs = append(reqs, kafka.OffsetRequest{Partition: p, Timestamp: 1600000000000 + int64(r.Intn(150))})
			}
		}
		if r.Intn(6) == 0 {
			reqs = append(reqs, kafka.LastOffsetOf(np)) // a partition nobody has
		}
		t0 := time.Now()
		res, err := client.ListOffsets(context.Background(), &kafka.ListOffsetsRequest{Topics: map[string][]kafka.OffsetRequest{e.topic: reqs}})
		feats := []string{"e2e", "fault=" + fault, fmt.Sprintf("brokers=%d", e.nb)}
		if time.Since(t0) > time.Second {
			feats = append(feats, "slow")
		}
		ul := make([]string, len(reqs))
		outs := make([]string, len(reqs))
		pq := &listoffsets.Request{ReplicaID: -1, Topics: []listoffsets.RequestTopic{{Topic: e.topic}}}
		nfail := 0
		e.mu.Lock()
		for k, q := range reqs {
			ul[k] = I(int64(q.Partition)) + "/" + I(q.Timestamp)
			outs[k] = e.expectedOutcome(int32(q.Partition), q.Timestamp)
			if outs[k][0] == 'F' {
				nfail++
			}
			pq.Topics[0].Partitions = append(pq.Topics[0].Partitions, listoffsets.RequestPartition{Partition: int32(q.Partition), CurrentLeaderEpoch: -1, Timestamp: q.Timestamp})
		}
		e.mu.Unlock()
		switch {
		case nfail == len(reqs):
			feats = append(feats, "all-failed")
		case nfail > 0:
			feats = append(feats, "some-failed")
		default:
			feats = append(feats, "none-failed")
		}
		args := "0 " + S(e.topic) + ":" + strings.Join(ul, ",") + " " + join(outs, "~")
		q := "Q" + fmtReq(pq, "@")
		if err != nil {
			emit("lo", args, q+" E"+e2eErrClass(err), feats)
		} else {
			var entries []string
			ps := append([]kafka.PartitionOffsets{}, res.Topics[e.topic]...)
			sortPartitionOffsets(ps)
			for _, p := range ps {
				var ol []string
				for _, o := range sortedOffsets(p.Offsets) {
					ol = append(ol, I(o)+"="+fmtTime(p.Offsets[o]))
				}
				entries = append(entries, S(e.topic)+"/"+I(int64(p.Partition))+"/"+I(p.FirstOffset)+"/"+I(p.LastOffset)+"/"+code(p.Error)+"/"+join(ol, "+"))
			}
			emit("lo", args, q+" R"+I(int64(res.Throttle/time.Millisecond))+"@"+join(entries, ","), feats)
		}
		e.close()
		tr.CloseIdleConnections()
	}
}

// ---------------------------------------------------------------- cut responses (hosted for C17)

// fmtLoEntries is the canonical form of a ListOffsets result over the e2e topic.
func (e *e2eCluster) fmtLoEntries(res *kafka.ListOffsetsResponse) string {
	var entries []string
	ps := append([]kafka.PartitionOffsets{}, res.Topics[e.topic]...)
	sortPartitionOffsets(ps)
	for _, p := range ps {
		var ol []string
		for _, o := range sortedOffsets(p.Offsets) {
			ol = append(ol, I(o)+"="+fmtTime(p.Offsets[o]))
		}
		entries = append(entries, S(e.topic)+"/"+I(int64(p.Partition))+"/"+I(p.FirstOffset)+"/"+I(p.LastOffset)+"/"+code(p.Error)+"/"+join(ol, "+"))
	}
	return "R" + I(int64(res.Throttle/time.Millisecond)) + "@" + join(entries, ",")
}

// cutRegion names the part of a list-offsets v5 response frame byte k falls into:
// size(4) correlation id(4) throttle(4) topic array length(4) topic name(2+n) partition array
// length(4) partition(4) error(2) timestamp(8) offset(8) leader epoch(4).
func cutRegion(k, frame, topicLen int) string {
	switch {
	case k >= frame:
		return "not-cut"
	case k == 0:
		return "cut=nothing-sent"
	case k < 4:
		return "cut=size-prefix"
	case k < 8:
		return "cut=correlation-id"
	case k < 12:
		return "cut=throttle"
	case k < 16:
		return "cut=topic-array-length"
	case k < 18+topicLen:
		return "cut=topic-name"
	case k < 22+topicLen:
		return "cut=partition-array-length"
	case k < 28+topicLen:
		return "cut=partition-id-and-error"
	case k < 44+topicLen:
		return "cut=timestamp-and-offset"
	}
	return "cut=leader-epoch"
}

// tierCut: Client.ListOffsets over several partitions / leaders (and Client.OffsetFetch) through
// the real Transport where, for one or more leaders, the response is delivered up to byte k and
// the connection is then lost; k = 0, stride, 2*stride, ... past the end of the frame.  Each
// ListOffsets case is followed by the same call once the brokers answer in full again.
func tierCut(r *rand.Rand, stride int) {
	if stride < 1 {
		stride = 1
	}
	for k := 0; k <= 76; k += stride {
		for rep := 0; rep < 2; rep++ {
			e, bootstrap := genE2E(r)
			tr := &kafka.Transport{Dial: e.dial, DialTimeout: 2 * time.Second}
			client := &kafka.Client{Addr: kafka.TCP(e2eHost(bootstrap) + ":9092"), Transport: tr, Timeout: 5 * time.Second}
			np := len(e.parts)
			victims := map[int32]bool{e.parts[r.Intn(np)].leader: true}
			if rep == 1 && r.Intn(2) == 0 {
				victims[e.parts[r.Intn(np)].leader] = true
			}
			if rep == 1 && r.Intn(4) == 0 { // every leader
				for _, st := range e.parts {
					victims[st.leader] = true
				}
			}
			e.mu.Lock()
			for v := range victims {
				e.cutLO[v] = k
			}
			e.mu.Unlock()
			var reqs []kafka.OffsetRequest
			for p := 0; p < np; p++ {
				switch r.Intn(3) {
				case 0:
					reqs = append(reqs, kafka.FirstOffsetOf(p))
				case 1:
					reqs = append(reqs, kafka.LastOffsetOf(p))
				default:
					reqs = append(reqs, kafka.FirstOffsetOf(p), kafka.LastOffsetOf(p))
				}
				if r.Intn(4) == 0 {
					reqs = append(reqs, kafka.OffsetRequest{Partition: p, Timestamp: 1600000000000 + int64(r.Intn(150))})
				}
			}
			call := func(after bool) {
				t0 := time.Now()
				res, err := client.ListOffsets(context.Background(), &kafka.ListOffsetsRequest{Topics: map[string][]kafka.OffsetRequest{e.topic: reqs}})
				slow := time.Since(t0) > 2*time.Second
				e.mu.Lock()
				frame := e.cutFrame
				cutNow := !after && k < frame
				ul := make([]string, len(reqs))
				outs := make([]string, len(reqs))
				pq := &listoffsets.Request{ReplicaID: -1, Topics: []listoffsets.RequestTopic{{Topic: e.topic}}}
				nfail := 0
				for i, q := range reqs {
					ul[i] = I(int64(q.Partition)) + "/" + I(q.Timestamp)
					if cutNow && victims[e.parts[q.Partition].leader] {
						outs[i] = "F/2"
						nfail++
					} else {
						a := e.listOffset(-1, e.topic, int32(q.Partition), q.Timestamp)
						outs[i] = "A/" + I(int64(a.ErrorCode)) + "/" + I(a.Timestamp) + "/" + I(a.Offset) + "/" + I(int64(a.LeaderEpoch)) + "/0"
					}
					pq.Topics[0].Partitions = append(pq.Topics[0].Partitions, listoffsets.RequestPartition{Partition: int32(q.Partition), CurrentLeaderEpoch: -1, Timestamp: q.Timestamp})
				}
				e.mu.Unlock()
				feats := []string{"cut-family", fmt.Sprintf("brokers=%d", e.nb), fmt.Sprintf("victims=%d", len(victims))}
				switch {
				case after:
					feats = append(feats, "after-cut")
				default:
					feats = append(feats, cutRegion(k, frame, len(e.topic)))
				}
				switch {
				case nfail == len(reqs):
					feats = append(feats, "all-failed")
				case nfail > 0:
					feats = append(feats, "some-failed")
				default:
					feats = append(feats, "none-failed")
				}
				args := "0 " + S(e.topic) + ":" + strings.Join(ul, ",") + " " + join(outs, "~")
				q := "Q" + fmtReq(pq, "@")
				rs := ""
				if err != nil {
					rs = "E" + e2eErrClass(err)
				} else {
					rs = e.fmtLoEntries(res)
				}
				if slow {
					rs += "SLOW"
				}
				emit("lo", args, q+" "+rs, append(feats, fmt.Sprintf("k=%d", k)))
			}
			call(false)
			e.mu.Lock()
			e.cutLO = map[int32]int{}
			e.mu.Unlock()
			call(true)

			// ---- OffsetFetch: one round trip to the coordinator, its response cut the same way
			group := fmt.Sprintf("grp-%d", r.Intn(e.nb+1))
			e.mu.Lock()
			e.cutFrame = 0
			e.cutOF[e.coord[group]] = k
			e.mu.Unlock()
			ids := []int{}
			for p := 0; p < np; p++ {
				ids = append(ids, p)
			}
			fetch := func() string {
				t0 := time.Now()
				fres, err := client.OffsetFetch(context.Background(), &kafka.OffsetFetchRequest{GroupID: group, Topics: map[string][]int{e.topic: ids}})
				st := "ok-state"
				switch {
				case err != nil:
					st = "err"
				default:
					e.mu.Lock()
					ps := fres.Topics[e.topic]
					if len(ps) != np || fres.Error != nil {
						st = "ok-BAD"
					}
					for _, p := range ps {
						w := e.fetchOne(true, group, int32(p.Partition))
						if p.Error != nil || p.CommittedOffset != w.CommittedOffset || p.Metadata != w.Metadata {
							st = "ok-BAD"
						}
					}
					e.mu.Unlock()
				}
				if time.Since(t0) > 2*time.Second {
					st += "SLOW"
				}
				return st
			}
			first := fetch()
			e.mu.Lock()
			frame := e.cutFrame
			e.cutOF = map[int32]int{}
			e.mu.Unlock()
			follow := fetch()
			region := "cut"
			if k >= frame {
				region = "not-cut"
			}
			emit("cutof", I(int64(k))+" "+I(int64(frame)), "first="+first+" followup="+follow, []string{"cut-family", region, fmt.Sprintf("k=%d", k)})
			e.close()
			tr.CloseIdleConnections()
		}
	}
}

func (e *e2eCluster) groupNames() []string {
	l := make([]string, 0, len(e.coord))
	for g := range e.coord {
		l = append(l, g)
	}
	sort.Strings(l)
	return l
}

// tierCutFan: the fan-out / merge APIs of the Transport — ListGroups (one request per broker),
// DescribeGroups (one per group, to its coordinator), DescribeConfigs (one per broker resource) —
// where one or more of the sub-responses are delivered up to byte k and the connection is then
// lost.  Each case lists the PARTS of the call in a canonical order (label, then either F = its
// sub-response was cut, or the items its broker answered); the result is ERR or the sorted items.
// Every case is followed by the same call with all brokers answering in full.
func tierCutFan(r *rand.Rand, stride int) {
	if stride < 1 {
		stride = 1
	}
	apis := []struct {
		name string
		key  protocol.ApiKey
		maxK int
	}{{"ListGroups", protocol.ListGroups, 60}, {"DescribeGroups", protocol.DescribeGroups, 70}, {"DescribeConfigs", protocol.DescribeConfigs, 70}}
	ctx := context.Background()
	for _, api := range apis {
		for k := 0; k <= api.maxK; k += stride {
			e, bootstrap := genE2E(r)
			tr := &kafka.Transport{Dial: e.dial, DialTimeout: 2 * time.Second}
			client := &kafka.Client{Addr: kafka.TCP(e2eHost(bootstrap) + ":9092"), Transport: tr, Timeout: 5 * time.Second}
			victims := map[int32]int{int32(r.Intn(e.nb)): k}
			if r.Intn(3) == 0 {
				victims[int32(r.Intn(e.nb))] = k
			}
			groups := e.groupNames()
			type part struct {
				label  string
				broker int32
				items  []string
			}
			var parts []part
			var call func() ([]string, error)
			switch api.name {
			case "ListGroups":
				for b := 0; b < e.nb; b++ {
					p := part{label: fmt.Sprintf("b%d", b), broker: int32(b)}
					for _, g := range groups {
						if e.coord[g] == int32(b) {
							p.items = append(p.items, S(g)+"@"+I(int64(b)))
						}
					}
					parts = append(parts, p)
				}
				call = func() ([]string, error) {
					res, err := client.ListGroups(ctx, &kafka.ListGroupsRequest{})
					if err != nil {
						return nil, err
					}
					if res.Error != nil {
						return nil, res.Error
					}
					var l []string
					for _, g := range res.Groups {
						l = append(l, S(g.GroupID)+"@"+I(int64(g.Coordinator)))
					}
					return l, nil
				}
			case "DescribeGroups":
				for _, g := range groups {
					parts = append(parts, part{label: S(g), broker: e.coord[g], items: []string{S(g) + "/0/" + S(fmt.Sprintf("Stable-%d", e.coord[g]))}})
				}
				call = func() ([]string, error) {
					res, err := client.DescribeGroups(ctx, &kafka.DescribeGroupsRequest{GroupIDs: groups})
					if err != nil {
						return nil, err
					}
					var l []string
					for _, g := range res.Groups {
						l = append(l, S(g.GroupID)+"/"+code(g.Error)+"/"+S(g.GroupState))
					}
					return l, nil
				}
			default:
				var rs []kafka.DescribeConfigRequestResource
				for b := 0; b < e.nb; b++ {
					rs = append(rs, kafka.DescribeConfigRequestResource{ResourceType: kafka.ResourceTypeBroker, ResourceName: fmt.Sprint(b)})
					parts = append(parts, part{label: fmt.Sprintf("b%d", b), broker: int32(b), items: []string{S(fmt.Sprint(b)) + "/0/" + S(fmt.Sprint(b))}})
				}
				call = func() ([]string, error) {
					res, err := client.DescribeConfigs(ctx, &kafka.DescribeConfigsRequest{Resources: rs})
					if err != nil {
						return nil, err
					}
					var l []string
					for _, x := range res.Resources {
						by := "?"
						if len(x.ConfigEntries) == 1 {
							by = x.ConfigEntries[0].ConfigValue
						}
						l = append(l, S(x.ResourceName)+"/"+code(x.Error)+"/"+S(by))
					}
					return l, nil
				}
			}
			run := func(after bool) {
				e.mu.Lock()
				e.cutFrames = map[int32]int{}
				e.cutFor, e.cutAny = api.key, nil
				if !after {
					e.cutAny = victims
				}
				e.mu.Unlock()
				t0 := time.Now()
				items, err := call()
				slow := time.Since(t0) > 2*time.Second
				e.mu.Lock()
				ps := make([]string, len(parts))
				ncut := 0
				for i, p := range parts {
					n, asked := e.cutFrames[p.broker]
					if _, v := victims[p.broker]; !after && v && asked && k < n {
						ps[i] = p.label + ":F"
						ncut++
					} else {
						ps[i] = p.label + ":" + join(p.items, "+")
					}
				}
				e.mu.Unlock()
				feats := []string{"cut-family", "fan-out", "api=" + api.name, fmt.Sprintf("brokers=%d", e.nb), fmt.Sprintf("k=%d", k)}
				switch {
				case after:
					feats = append(feats, "after-cut")
				case ncut == 0:
					feats = append(feats, "not-cut")
				case ncut == len(parts):
					feats = append(feats, "cut", "all-failed")
				default:
					feats = append(feats, "cut", "some-failed")
				}
				rs := ""
				if err != nil {
					rs = "ERR"
				} else {
					sort.Strings(items)
					rs = "OK:" + join(items, "+")
				}
				if slow {
					rs += "SLOW"
				}
				emit("fan", api.name+" "+strings.Join(ps, ","), rs, feats)
			}
			run(false)
			run(true)
			e.close()
			tr.CloseIdleConnections()
		}
	}
}
