package main

// Response direction of the Conn half of C04: every hand-written response reader
// of the Conn on generated wire values.
//
//	<id> cresp <reader> <ver> <body hex> <wire value> | <decoded value> <remain> <proto verdict> | <features>
//
// <wire value>: comma separated pre-order tokens following the reader's grammar:
// Z<hex> integer / boolean, S<hex>|S.|S- string or bytes (empty, null), L<n>|L-
// array (null), struct fields in order.  <decoded value>: the rendering of the
// decoded Go value by /repo/verif_export_c04b.go (I<hex>, S<hex>, L<n> ...),
// or ERR when the reader returned an error.  The proto verdict is the second
// codec of the library on the same bytes: protocol.ReadResponse then
// protocol.WriteResponse reproduce the frame ("proto=same"), for the two
// consumer-group blobs protocol.Unmarshal into protocol/consumer's types gives
// the same field values ("proto=same").

import (
	"bytes"
	"encoding/binary"
	"fmt"
	"math"
	"sort"
	"strings"

	kafka "github.com/segmentio/kafka-go"
	"github.com/segmentio/kafka-go/protocol"
	pconsumer "github.com/segmentio/kafka-go/protocol/consumer"
	"kverif/kvfmt"
)

// grammar descriptors, the Go twin of Model/Legacy.v ty / ConnOps.resp_ty
type lty struct {
	k      byte // '1' '2' '4' '8' ints, 'b' bool, 's' string, 'y' bytes, 'a' array, 't' struct
	elem   *lty
	fields []*lty
}

var (
	tI8   = &lty{k: '1'}
	tI16  = &lty{k: '2'}
	tI32  = &lty{k: '4'}
	tI64  = &lty{k: '8'}
	tBool = &lty{k: 'b'}
	tStr  = &lty{k: 's'}
	tByt  = &lty{k: 'y'}
)

func tArr(e *lty) *lty   { return &lty{k: 'a', elem: e} }
func tup(f ...*lty) *lty { return &lty{k: 't', fields: f} }

var (
	tBroker     = tup(tI32, tStr, tI32, tStr)
	tPartMetaV1 = tup(tI16, tI32, tI32, tArr(tI32), tArr(tI32))
	tPartMetaV6 = tup(tI16, tI32, tI32, tArr(tI32), tArr(tI32), tArr(tI32))
	tAborted    = tup(tI64, tI64)
)

func tTopicMeta(p *lty) *lty { return tup(tI16, tStr, tBool, tArr(p)) }

type readerSpec struct {
	name string
	ver  int
	key  int16 // api key for the protocol package, -1: none
	ty   *lty
}

func fetchTy(ver int) *lty {
	if ver == 2 {
		return tup(tI32, tArr(tup(tStr, tArr(tup(tI32, tI16, tI64, tByt)))))
	}
	part := tup(tI32, tI16, tI64, tI64, tI64, tArr(tAborted), tByt)
	if ver == 5 {
		return tup(tI32, tArr(tup(tStr, tArr(part))))
	}
	return tup(tI32, tI16, tI32, tArr(tup(tStr, tArr(part))))
}

var readers = []readerSpec{
	{"metadata", 1, 3, tup(tArr(tBroker), tI32, tArr(tTopicMeta(tPartMetaV1)))},
	{"metadata", 6, 3, tup(tI32, tArr(tBroker), tStr, tI32, tArr(tTopicMeta(tPartMetaV6)))},
	{"findcoordinator", 0, 10, tup(tI16, tI32, tStr, tI32)},
	{"joingroup", 1, 11, tup(tI16, tI32, tStr, tStr, tStr, tArr(tup(tStr, tByt)))},
	{"joingroup", 2, 11, tup(tI32, tI16, tI32, tStr, tStr, tStr, tArr(tup(tStr, tByt)))},
	{"syncgroup", 0, 14, tup(tI16, tByt)},
	{"heartbeat", 0, 12, tup(tI16)},
	{"leavegroup", 0, 13, tup(tI16)},
	{"offsetcommit", 2, 8, tup(tArr(tup(tStr, tArr(tup(tI32, tI16)))))},
	{"offsetfetch", 1, 9, tup(tArr(tup(tStr, tArr(tup(tI32, tI64, tStr, tI16)))))},
	{"listgroups", 1, 16, tup(tI32, tI16, tArr(tup(tStr, tStr)))},
	{"createtopics", 0, 19, tup(tArr(tup(tStr, tI16)))},
	{"createtopics", 1, 19, tup(tArr(tup(tStr, tI16, tStr)))},
	{"createtopics", 2, 19, tup(tI32, tArr(tup(tStr, tI16, tStr)))},
	{"deletetopics", 0, 20, tup(tArr(tup(tStr, tI16)))},
	{"deletetopics", 1, 20, tup(tI32, tArr(tup(tStr, tI16)))},
	{"saslhandshake", 0, 17, tup(tI16, tArr(tStr))},
	{"saslhandshake", 1, 17, tup(tI16, tArr(tStr))},
	{"saslauthenticate", 0, 36, tup(tI16, tStr, tByt)},
	{"producepartition", 2, -1, tup(tI32, tI16, tI64, tI64)},
	{"producepartition", 3, -1, tup(tI32, tI16, tI64, tI64)},
	{"producepartition", 7, -1, tup(tI32, tI16, tI64, tI64, tI64)},
	{"listoffsetspartition", 1, -1, tup(tI32, tI16, tI64, tI64)},
	{"fetchheader", 2, -1, fetchTy(2)},
	{"fetchheader", 5, -1, fetchTy(5)},
	{"fetchheader", 10, -1, fetchTy(10)},
	{"apiversions", 0, 18, tup(tI16, tArr(tup(tI16, tI16, tI16)))},
	{"groupmetadata", 0, -1, tup(tI16, tArr(tStr), tByt)},
	{"groupassignment", 0, -1, tup(tI16, tArr(tup(tStr, tArr(tI32))), tByt)},
}

// generation state of one value
type wgen struct {
	b     []byte
	t     []string
	fs    featset
	depth int
	// fetch header: exactly one topic / one partition, error code 0
	single   bool
	distinct map[string]bool // group assignment: topics seen
	dupKeys  bool
}

func (g *wgen) arrLen() int {
	if g.single && g.depth <= 2 {
		return 1
	}
	switch rng.Intn(12) {
	case 0:
		g.fs.add("null-array")
		g.fs.add("has-null")
		return -1
	case 1:
		g.fs.add("empty-array")
		return 0
	case 2:
		return 1
	case 3, 4, 5:
		g.fs.add("array>=2")
		return 2
	case 6, 7, 8:
		g.fs.add("array>=3")
		return 3
	}
	g.fs.add("array>=3")
	return 4 + rng.Intn(3)
}

func (g *wgen) gen(t *lty, path string) {
	switch t.k {
	case '1', '2', '4', '8':
		var v int64
		switch t.k {
		case '1':
			v = int64(int8(rng.Intn(256)))
		case '2':
			v = int64(ri16())
			if strings.HasSuffix(path, "err") && rng.Intn(3) != 0 {
				v = 0
			}
		case '4':
			v = int64(ri32())
		default:
			v = ri64()
		}
		if g.single && path == "fetch-err" {
			v = 0
		}
		g.t = append(g.t, "Z"+kvfmt.I(v))
		switch t.k {
		case '1':
			g.b = append(g.b, byte(v))
		case '2':
			g.b = binary.BigEndian.AppendUint16(g.b, uint16(v))
		case '4':
			g.b = binary.BigEndian.AppendUint32(g.b, uint32(v))
		default:
			g.b = binary.BigEndian.AppendUint64(g.b, uint64(v))
		}
	case 'b':
		v := rng.Intn(2)
		g.t = append(g.t, "Z"+kvfmt.I(int64(v)))
		g.b = append(g.b, byte(v))
	case 's', 'y':
		var s []byte
		null := false
		switch rng.Intn(10) {
		case 0:
			null = true
			g.fs.add("null-" + map[byte]string{'s': "string", 'y': "bytes"}[t.k])
			g.fs.add("has-null")
		case 1:
			g.fs.add("empty-" + map[byte]string{'s': "string", 'y': "bytes"}[t.k])
		case 2:
			s = []byte(rstr(false, g.fs))
			if len(s) > 300 {
				s = s[:300]
			}
		default:
			s = []byte(rstr(false, featset{}))
			if len(s) > 12 {
				s = s[:12]
			}
		}
		if path == "map-key" {
			// topics of an assignment: mostly distinct
			null = false
			for tries := 0; tries < 20; tries++ {
				if rng.Intn(10) == 0 && len(g.distinct) > 0 {
					for k := range g.distinct {
						s = []byte(k)
						break
					}
					g.dupKeys = true
					break
				}
				if !g.distinct[string(s)] {
					break
				}
				s = []byte(rstr(true, featset{}))
				if len(s) > 12 {
					s = s[:12]
				}
			}
			g.distinct[string(s)] = true
		}
		switch {
		case null:
			g.t = append(g.t, "S-")
			if t.k == 's' {
				g.b = append(g.b, 0xff, 0xff)
			} else {
				g.b = append(g.b, 0xff, 0xff, 0xff, 0xff)
			}
		default:
			g.t = append(g.t, "S"+kvfmt.Bytes(s))
			if t.k == 's' {
				g.b = binary.BigEndian.AppendUint16(g.b, uint16(len(s)))
			} else {
				g.b = binary.BigEndian.AppendUint32(g.b, uint32(len(s)))
			}
			g.b = append(g.b, s...)
		}
	case 'a':
		g.depth++
		n := g.arrLen()
		if n < 0 {
			g.t = append(g.t, "L-")
			g.b = append(g.b, 0xff, 0xff, 0xff, 0xff)
		} else {
			g.t = append(g.t, fmt.Sprintf("L%x", n))
			g.b = binary.BigEndian.AppendUint32(g.b, uint32(n))
			for i := 0; i < n; i++ {
				g.gen(t.elem, path)
			}
		}
		g.depth--
	case 't':
		for i, f := range t.fields {
			p := path
			if f.k == '2' && (i == 1 || len(t.fields) <= 3) {
				p = path + "err"
			}
			g.gen(f, p)
		}
	}
}

func classifyRespErr(err error) string {
	if err == nil {
		return ""
	}
	return "ERR"
}

// the protocol package on the same response
func respProtoVerdict(spec readerSpec, body []byte, hasNull, emptyStr bool, decoded string, dup bool) string {
	switch spec.name {
	case "groupmetadata":
		var s pconsumer.Subscription
		if err := protocol.Unmarshal(body, 0, &s); err != nil {
			return "proto=DIFF:" + strings.ReplaceAll(err.Error(), " ", "_")
		}
		t := &toks{}
		t.i(int64(s.Version))
		t.l = append(t.l, fmt.Sprintf("L%x", len(s.Topics)))
		for _, x := range s.Topics {
			t.s(x)
		}
		t.l = append(t.l, "S"+kvfmt.Bytes(s.UserData))
		if t.String() != decoded {
			return "proto=DIFF:" + t.String()
		}
		return "proto=same"
	case "groupassignment":
		if dup {
			return "proto=skip:duplicate-topics"
		}
		var a pconsumer.Assignment
		if err := protocol.Unmarshal(body, 0, &a); err != nil {
			return "proto=DIFF:" + strings.ReplaceAll(err.Error(), " ", "_")
		}
		sort.Slice(a.AssignedPartitions, func(i, j int) bool { return a.AssignedPartitions[i].Topic < a.AssignedPartitions[j].Topic })
		t := &toks{}
		t.i(int64(a.Version))
		t.l = append(t.l, fmt.Sprintf("L%x", len(a.AssignedPartitions)))
		for _, tp := range a.AssignedPartitions {
			t.s(tp.Topic)
			t.l = append(t.l, fmt.Sprintf("L%x", len(tp.Partitions)))
			for _, p := range tp.Partitions {
				t.i(int64(p))
			}
		}
		t.l = append(t.l, "S"+kvfmt.Bytes(a.UserData))
		if t.String() != decoded {
			return "proto=DIFF:" + t.String()
		}
		return "proto=same"
	}
	if spec.key < 0 {
		return "proto=skip:partial-reader"
	}
	if hasNull {
		return "proto=skip:null-in-value"
	}
	if emptyStr {
		// the reflection codec re-encodes "" in a NULLABLE_STRING position as null
		return "proto=skip:empty-string-in-value"
	}
	fr := binary.BigEndian.AppendUint32(nil, uint32(len(body)+4))
	fr = binary.BigEndian.AppendUint32(fr, 77)
	fr = append(fr, body...)
	v := func() (s string) {
		defer func() {
			if r := recover(); r != nil {
				s = fmt.Sprintf("proto=DIFF:panic:%v", r)
			}
		}()
		corr, msg, err := protocol.ReadResponse(bytes.NewReader(fr), protocol.ApiKey(spec.key), int16(spec.ver))
		if err != nil {
			return "proto=DIFF:" + strings.ReplaceAll(err.Error(), " ", "_")
		}
		var b bytes.Buffer
		if err := protocol.WriteResponse(&b, int16(spec.ver), corr, msg); err != nil {
			return "proto=DIFF:" + strings.ReplaceAll(err.Error(), " ", "_")
		}
		if !bytes.Equal(b.Bytes(), fr) {
			return "proto=DIFF:reencode"
		}
		return "proto=same"
	}()
	return v
}

func genResp(spec readerSpec) {
	fs := featset{}
	g := &wgen{fs: fs, distinct: map[string]bool{}}
	path := ""
	if spec.name == "fetchheader" {
		g.single = true
	}
	if spec.name == "groupassignment" {
		// tag the key position
		t := spec.ty
		g.gen(t.fields[0], "")
		g.depth++
		n := g.arrLen()
		if n < 0 {
			g.t = append(g.t, "L-")
			g.b = append(g.b, 0xff, 0xff, 0xff, 0xff)
		} else {
			g.t = append(g.t, fmt.Sprintf("L%x", n))
			g.b = binary.BigEndian.AppendUint32(g.b, uint32(n))
			for i := 0; i < n; i++ {
				g.gen(tStr, "map-key")
				g.gen(tArr(tI32), "")
			}
			if n >= 2 {
				fs.add("map>=2")
			}
		}
		g.depth--
		g.gen(t.fields[2], "")
		if g.dupKeys {
			fs.add("duplicate-topics")
		}
	} else if spec.name == "fetchheader" {
		t := spec.ty
		// throttle [error code, session id] one topic, one partition with error code 0
		for _, f := range t.fields[:len(t.fields)-1] {
			if f.k == '2' {
				g.gen(f, "fetch-err")
			} else {
				g.gen(f, "")
			}
		}
		topics := t.fields[len(t.fields)-1]
		g.t = append(g.t, "L1")
		g.b = binary.BigEndian.AppendUint32(g.b, 1)
		g.gen(tStr, "")
		g.t = append(g.t, "L1")
		g.b = binary.BigEndian.AppendUint32(g.b, 1)
		part := topics.elem.fields[1].elem
		for i, f := range part.fields {
			switch {
			case i == 1:
				g.gen(f, "fetch-err")
			case f.k == 'a':
				g.single = false
				g.gen(f, "")
				g.single = true
			default:
				g.gen(f, "")
			}
		}
	} else {
		g.gen(spec.ty, path)
	}
	body := g.b
	var rendered string
	var remain int
	var err error
	panicked := false
	if spec.name == "apiversions" {
		// through the Conn: the scripted answer to its ApiVersions request
		f := &fakeConn{priming: true, rawTable: body}
		conn := kafka.NewConnWith(f, kafka.ConnConfig{ClientID: "c"})
		func() {
			defer func() {
				if r := recover(); r != nil {
					panicked = true
				}
			}()
			var vs []kafka.ApiVersion
			vs, err = conn.ApiVersions()
			code := int64(0)
			var ke kafka.Error
			if err != nil {
				if e, ok := err.(kafka.Error); ok {
					ke = e
					code = int64(ke)
					err = nil
				}
			}
			t := &toks{}
			t.i(code)
			t.l = append(t.l, fmt.Sprintf("L%x", len(vs)))
			for _, v := range vs {
				t.i(int64(v.ApiKey))
				t.i(int64(v.MinVersion))
				t.i(int64(v.MaxVersion))
			}
			rendered = t.String()
		}()
	} else {
		func() {
			defer func() {
				if r := recover(); r != nil {
					panicked = true
				}
			}()
			rendered, remain, err = kafka.VerifC04Read(spec.name, spec.ver, body, len(body))
		}()
	}
	res := rendered + " " + kvfmt.I(int64(remain))
	switch {
	case panicked:
		res = "PANIC"
	case err != nil:
		res = "ERR"
		fs.add("reader-error")
	}
	verdict := "proto=skip:reader-error"
	if err == nil && !panicked {
		verdict = respProtoVerdict(spec, body, fs["has-null"], fs["empty-string"], rendered, g.dupKeys)
	}
	fs.add(fmt.Sprintf("reader=%sv%d", spec.name, spec.ver))
	if len(body) > math.MaxInt32 {
		return
	}
	emitLine(fmt.Sprintf("cresp %s %s %s %s", spec.name, kvfmt.I(int64(spec.ver)), kvfmt.Bytes(body), strings.Join(g.t, ",")),
		res+" "+verdict, fs.String())
}

func genResponses(perReader int) {
	for _, spec := range readers {
		n := perReader
		if spec.name == "groupassignment" || spec.name == "groupmetadata" {
			n *= 3
		}
		for i := 0; i < n; i++ {
			genResp(spec)
		}
	}
}
