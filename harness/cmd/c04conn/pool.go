package main

// History-independence of protocol.Marshal / protocol.Unmarshal: both take their
// encoder / decoder object from a sync.Pool.  "Decoding an encoded value returns
// the same value" must hold whatever the pooled object decoded before, so valid
// Marshal -> Unmarshal round trips are interleaved with decodes that fail
// (truncated encoding, a version-0 subscription read with the version-1 schema
// as Client.JoinGroup does for an old member, garbage), on one goroutine (the
// same pooled decoder is handed out again) and on several.
//
//	<id> pool <mode> <steps> | <outcomes> | <features>
//
// steps: v.<type><version> a valid round trip, f.<kind> a decode that must fail.
// outcomes, one per step: ok (round trip returned the value), err (the decode
// failed), BAD:<why> (a valid round trip failed or returned another value),
// unexpected-ok (a decode meant to fail succeeded).  Parallel mode: the steps of
// goroutine k are prefixed k/ .

import (
	"bytes"
	"fmt"
	"reflect"
	"strings"
	"sync"

	"github.com/segmentio/kafka-go/protocol"
	pconsumer "github.com/segmentio/kafka-go/protocol/consumer"
)

// a Marshal-able type of the harness' own
type poolLocal struct {
	A int32    `kafka:"min=v0,max=v1"`
	B string   `kafka:"min=v0,max=v1"`
	C []byte   `kafka:"min=v0,max=v1,nullable"`
	D []string `kafka:"min=v1,max=v1"`
	E int64    `kafka:"min=v0,max=v1"`
}

type poolStep struct {
	desc    string
	version int16
	value   interface{}        // valid: the value to marshal
	fresh   func() interface{} // a new zero value to decode into
	data    []byte             // failing: the bytes to decode
	fail    bool
}

func rTopicPartitions(fs featset) []pconsumer.TopicPartition {
	n := rng.Intn(4)
	l := make([]pconsumer.TopicPartition, n)
	for i := range l {
		l[i].Topic = rstr(false, featset{})
		if len(l[i].Topic) > 20 {
			l[i].Topic = l[i].Topic[:20]
		}
		for j := rng.Intn(4); j > 0; j-- {
			l[i].Partitions = append(l[i].Partitions, ri32())
		}
	}
	return l
}

func rTopics() []string {
	n := rng.Intn(4)
	l := make([]string, n)
	for i := range l {
		l[i] = rstr(false, featset{})
		if len(l[i]) > 20 {
			l[i] = l[i][:20]
		}
	}
	return l
}

func rUser() []byte {
	switch rng.Intn(3) {
	case 0:
		return nil
	case 1:
		return []byte{}
	}
	return rbytesN(1 + rng.Intn(12))
}

func validStep(fs featset) poolStep {
	v := int16(rng.Intn(2))
	switch rng.Intn(4) {
	case 0:
		s := pconsumer.Subscription{Version: v, Topics: rTopics(), UserData: rUser()}
		if v == 1 {
			s.OwnedPartitions = rTopicPartitions(fs)
		}
		return poolStep{desc: fmt.Sprintf("v.sub%d", v), version: v, value: s, fresh: func() interface{} { return &pconsumer.Subscription{} }}
	case 1:
		a := pconsumer.Assignment{Version: v, AssignedPartitions: rTopicPartitions(fs), UserData: rUser()}
		return poolStep{desc: fmt.Sprintf("v.asg%d", v), version: v, value: a, fresh: func() interface{} { return &pconsumer.Assignment{} }}
	case 2:
		tp := pconsumer.TopicPartition{Topic: "t" + rstr(true, featset{}), Partitions: []int32{ri32(), ri32()}}
		if len(tp.Topic) > 30 {
			tp.Topic = tp.Topic[:30]
		}
		return poolStep{desc: fmt.Sprintf("v.tp%d", v), version: v, value: tp, fresh: func() interface{} { return &pconsumer.TopicPartition{} }}
	}
	l := poolLocal{A: ri32(), B: "b" + fmt.Sprint(rng.Intn(1000)), C: rUser(), E: ri64()}
	if v == 1 {
		l.D = rTopics()
	}
	return poolStep{desc: fmt.Sprintf("v.local%d", v), version: v, value: l, fresh: func() interface{} { return &poolLocal{} }}
}

func failingStep(fs featset) poolStep {
	switch rng.Intn(3) {
	case 0: // a version-0 subscription read with the version-1 schema (an old member's metadata in Client.JoinGroup)
		s := pconsumer.Subscription{Version: 0, Topics: append(rTopics(), "x"), UserData: []byte("u")}
		b, err := protocol.Marshal(0, s)
		if err != nil {
			panic(err)
		}
		fs.add("fail-version-mismatch")
		return poolStep{desc: "f.vers", version: 1, data: b, fail: true, fresh: func() interface{} { return &pconsumer.Subscription{} }}
	case 1: // a valid encoding without its last byte
		st := validStep(fs)
		b, err := protocol.Marshal(st.version, st.value)
		if err != nil || len(b) == 0 {
			panic(fmt.Sprint("marshal: ", err))
		}
		fs.add("fail-truncated")
		return poolStep{desc: "f.trunc." + st.desc[2:], version: st.version, data: b[:len(b)-1], fail: true, fresh: st.fresh}
	}
	fs.add("fail-garbage")
	return poolStep{desc: "f.garbage", version: 1, data: append([]byte{0x00, 0x01, 0x7f, 0xff, 0xff, 0xff}, rbytesN(rng.Intn(6))...), fail: true,
		fresh: func() interface{} { return &pconsumer.Assignment{} }}
}

func runStep(st poolStep) (out string) {
	defer func() {
		if r := recover(); r != nil {
			out = fmt.Sprintf("BAD:panic:%v", r)
		}
	}()
	if st.fail {
		if err := protocol.Unmarshal(st.data, st.version, st.fresh()); err != nil {
			return "err"
		}
		return "unexpected-ok"
	}
	b, err := protocol.Marshal(st.version, st.value)
	if err != nil {
		return "BAD:marshal:" + strings.ReplaceAll(err.Error(), " ", "_")
	}
	got := st.fresh()
	if err := protocol.Unmarshal(b, st.version, got); err != nil {
		return "BAD:unmarshal-of-a-valid-encoding:" + strings.ReplaceAll(err.Error(), " ", "_")
	}
	b2, err := protocol.Marshal(st.version, reflect.ValueOf(got).Elem().Interface())
	if err != nil {
		return "BAD:remarshal:" + strings.ReplaceAll(err.Error(), " ", "_")
	}
	if !bytes.Equal(b, b2) {
		return "BAD:decoded-value-differs"
	}
	return "ok"
}

func genSteps(fs featset, n int) []poolStep {
	l := make([]poolStep, 0, n)
	for i := 0; i < n; i++ {
		if rng.Intn(3) == 0 {
			l = append(l, failingStep(fs))
		} else {
			l = append(l, validStep(fs))
		}
	}
	// every sequence has a failure directly followed by a valid round trip
	l = append(l, failingStep(fs), validStep(fs))
	return l
}

func genPool(parallel bool) {
	fs := featset{}
	if !parallel {
		steps := genSteps(fs, 6+rng.Intn(10))
		descs := make([]string, len(steps))
		outs := make([]string, len(steps))
		for i, st := range steps {
			descs[i] = st.desc
			outs[i] = runStep(st)
		}
		fs.add("pool-single")
		emitLine("pool single "+strings.Join(descs, ","), strings.Join(outs, ","), fs.String())
		return
	}
	const workers = 4
	seqs := make([][]poolStep, workers)
	for k := range seqs {
		seqs[k] = genSteps(fs, 10+rng.Intn(10))
	}
	res := make([][]string, workers)
	var wg sync.WaitGroup
	for k := range seqs {
		wg.Add(1)
		go func(k int) {
			defer wg.Done()
			for _, st := range seqs[k] {
				res[k] = append(res[k], runStep(st))
			}
		}(k)
	}
	wg.Wait()
	var descs, outs []string
	for k := range seqs {
		for i, st := range seqs[k] {
			descs = append(descs, fmt.Sprintf("%d/%s", k, st.desc))
			outs = append(outs, fmt.Sprintf("%d/%s", k, res[k][i]))
		}
	}
	fs.add("pool-parallel")
	emitLine("pool parallel "+strings.Join(descs, ","), strings.Join(outs, ","), fs.String())
}
