// c04conn: correspondence driver for the Conn half of property C04 (the
// hand-written request codec of kafka.Conn: write.go, sizeof.go, protocol.go,
// the size()/writeTo() methods of the request structs, recordbatch.go).
//
// For every operation of the Conn and every API version it can negotiate, a real
// kafka.Conn runs over an in-memory net.Conn whose ApiVersions answer pins the
// version; the exact bytes the operation wrote are captured.  One line per
// request:
//
//	<id> creq <api> <ver> <corr> <client id> <via> <args> | <bytes written> <proto verdict> | <features>
//
// <via> is "conn" (a method of the Conn) or "direct" (the writeBuffer function
// called through /repo/verif_export_c04.go with arguments a Conn method cannot
// produce deterministically: zero message times, explicit timeouts, any acks
// value, an empty client id).  <args> are comma separated pre-order tokens:
// I<hex> integer, S<hex> string, B<hex>|B- bytes / nil, N<hex>|N- list length /
// nil list, T/F bool, W<hex>|W- time as unix nanoseconds / the zero time.
//
// The proto verdict compares with the second codec of the library: the same
// request built as a protocol.Message and written by protocol.WriteRequest
// ("proto=same", "proto=DIFF:<hex>", "proto=skip:<why>"), for produce additionally
// protocol.ReadRequest of the captured frame ("dec=ok" / "dec=DIFF:<why>").
//
//	<id> neg <api key> <advertised min:max | -> <supported> <op> | <version sent | none> | <features>
//
// runs an operation against a broker advertising the given range and reports the
// version found in the request header.
//
//	<id> fetchmin <topic> | <Conn.fetchMinSize> |
//	<id> saslraw <data> | <bytes written> |
package main

import (
	"bufio"
	"bytes"
	"encoding/binary"
	"encoding/hex"
	"errors"
	"flag"
	"fmt"
	"io"
	"math"
	"math/rand"
	"net"
	"os"
	"sort"
	"strings"
	"time"

	kafka "github.com/segmentio/kafka-go"
	"github.com/segmentio/kafka-go/protocol"
	papiversions "github.com/segmentio/kafka-go/protocol/apiversions"
	pcreatetopics "github.com/segmentio/kafka-go/protocol/createtopics"
	pdeletetopics "github.com/segmentio/kafka-go/protocol/deletetopics"
	pfetch "github.com/segmentio/kafka-go/protocol/fetch"
	pfindcoordinator "github.com/segmentio/kafka-go/protocol/findcoordinator"
	pheartbeat "github.com/segmentio/kafka-go/protocol/heartbeat"
	pjoingroup "github.com/segmentio/kafka-go/protocol/joingroup"
	pleavegroup "github.com/segmentio/kafka-go/protocol/leavegroup"
	plistgroups "github.com/segmentio/kafka-go/protocol/listgroups"
	plistoffsets "github.com/segmentio/kafka-go/protocol/listoffsets"
	pmetadata "github.com/segmentio/kafka-go/protocol/metadata"
	poffsetcommit "github.com/segmentio/kafka-go/protocol/offsetcommit"
	poffsetfetch "github.com/segmentio/kafka-go/protocol/offsetfetch"
	pproduce "github.com/segmentio/kafka-go/protocol/produce"
	prawproduce "github.com/segmentio/kafka-go/protocol/rawproduce"
	psaslauthenticate "github.com/segmentio/kafka-go/protocol/saslauthenticate"
	psaslhandshake "github.com/segmentio/kafka-go/protocol/saslhandshake"
	psyncgroup "github.com/segmentio/kafka-go/protocol/syncgroup"
	"kverif/kvfmt"
)

// ---------------------------------------------------------------------------
// the fake peer: answers the priming ApiVersions request, then records what the
// client writes and reports end of stream
// ---------------------------------------------------------------------------

type verRange struct{ key, min, max int16 }

type fakeConn struct {
	in       []byte // everything the client wrote
	parsed   int    // bytes of in already answered (priming)
	resp     []byte
	priming  bool
	table    []verRange
	rawTable []byte // when set: the body of the ApiVersions answer, as is
	closed   bool
}

func (f *fakeConn) pump() {
	for f.priming && len(f.in)-f.parsed >= 4 {
		b := f.in[f.parsed:]
		sz := int(int32(binary.BigEndian.Uint32(b)))
		if sz < 8 || len(b) < 4+sz {
			return
		}
		key := int16(binary.BigEndian.Uint16(b[4:]))
		corr := binary.BigEndian.Uint32(b[8:])
		f.parsed += 4 + sz
		if key != 18 {
			continue
		}
		body := make([]byte, 0, 6+6*len(f.table))
		body = append(body, 0, 0)
		body = binary.BigEndian.AppendUint32(body, uint32(len(f.table)))
		for _, v := range f.table {
			body = binary.BigEndian.AppendUint16(body, uint16(v.key))
			body = binary.BigEndian.AppendUint16(body, uint16(v.min))
			body = binary.BigEndian.AppendUint16(body, uint16(v.max))
		}
		if f.rawTable != nil {
			body = f.rawTable
		}
		fr := binary.BigEndian.AppendUint32(nil, uint32(len(body)+4))
		fr = binary.BigEndian.AppendUint32(fr, corr)
		f.resp = append(f.resp, append(fr, body...)...)
	}
}

func (f *fakeConn) Read(p []byte) (int, error) {
	if f.closed {
		return 0, io.ErrClosedPipe
	}
	f.pump()
	if len(f.resp) > 0 {
		n := copy(p, f.resp)
		f.resp = f.resp[n:]
		return n, nil
	}
	return 0, io.EOF
}

func (f *fakeConn) Write(b []byte) (int, error) {
	if f.closed {
		return 0, io.ErrClosedPipe
	}
	f.in = append(f.in, b...)
	return len(b), nil
}

func (f *fakeConn) Close() error                       { f.closed = true; return nil }
func (f *fakeConn) LocalAddr() net.Addr                { return &net.TCPAddr{IP: net.IPv4(127, 0, 0, 1), Port: 50000} }
func (f *fakeConn) RemoteAddr() net.Addr               { return &net.TCPAddr{IP: net.IPv4(127, 0, 0, 1), Port: 9092} }
func (f *fakeConn) SetDeadline(t time.Time) error      { return nil }
func (f *fakeConn) SetReadDeadline(t time.Time) error  { return nil }
func (f *fakeConn) SetWriteDeadline(t time.Time) error { return nil }

// what the Conn supports per negotiated API (the lists handed to negotiateVersion)
var supported = map[int16][]int16{
	0: {2, 3, 7}, 1: {2, 5, 10}, 3: {1, 6}, 11: {1, 2}, 19: {0, 1, 2}, 20: {0, 1}, 17: {0, 1},
}

// a table that makes negotiateVersion pick version ver for api key
func pinTable(key, ver int16) []verRange {
	max := map[int16]int16{
		0: 7, 1: 10, 2: 1, 3: 6, 8: 2, 9: 1, 10: 0, 11: 2, 12: 0, 13: 0, 14: 0, 16: 1, 17: 1, 18: 0, 19: 2, 20: 1, 36: 0,
	}
	if _, ok := supported[key]; ok {
		max[key] = ver
	}
	keys := make([]int, 0, len(max))
	for k := range max {
		keys = append(keys, int(k))
	}
	sort.Ints(keys)
	t := make([]verRange, 0, len(keys))
	for _, k := range keys {
		t = append(t, verRange{int16(k), 0, max[int16(k)]})
	}
	return t
}

type connCfg struct {
	client    string
	topic     string
	partition int
	txid      string
	acks      int // -1 or 1
	corr0     int32
}

// runs op on a fresh Conn primed with table; returns the bytes the op wrote
func runConn(cfg connCfg, table []verRange, op func(c *kafka.Conn) error) (written []byte, opErr error, panicked bool) {
	f := &fakeConn{priming: true, table: table}
	conn := kafka.NewConnWith(f, kafka.ConnConfig{
		ClientID: cfg.client, Topic: cfg.topic, Partition: cfg.partition, TransactionalID: cfg.txid,
	})
	if err := kafka.VerifC11LoadVersions(conn); err != nil {
		fmt.Fprintln(os.Stderr, "c04conn: priming failed:", err)
		os.Exit(2)
	}
	f.priming = false
	if cfg.acks == 1 {
		conn.SetRequiredAcks(1)
	}
	kafka.VerifSetCorrelationID(conn, cfg.corr0)
	start := len(f.in)
	func() {
		defer func() {
			if r := recover(); r != nil {
				panicked = true
			}
		}()
		opErr = op(conn)
	}()
	return append([]byte(nil), f.in[start:]...), opErr, panicked
}

// ---------------------------------------------------------------------------
// tokens
// ---------------------------------------------------------------------------

type toks struct{ l []string }

func (t *toks) i(v int64)   { t.l = append(t.l, "I"+kvfmt.I(v)) }
func (t *toks) s(v string)  { t.l = append(t.l, "S"+kvfmt.Bytes([]byte(v))) }
func (t *toks) b(v []byte)  { t.l = append(t.l, "B"+kvfmt.OptBytes(v)) }
func (t *toks) n(v int)     { t.l = append(t.l, "N"+kvfmt.U(uint64(v))) }
func (t *toks) nnil()       { t.l = append(t.l, "N-") }
func (t *toks) bool(v bool) { t.l = append(t.l, map[bool]string{true: "T", false: "F"}[v]) }
func (t *toks) ns(p *string) {
	if p == nil {
		t.l = append(t.l, "B-")
	} else {
		t.l = append(t.l, "B"+kvfmt.Bytes([]byte(*p)))
	}
}
func (t *toks) w(v time.Time) {
	if v.IsZero() {
		t.l = append(t.l, "W-")
	} else {
		t.l = append(t.l, "W"+kvfmt.I(v.UnixNano()))
	}
}
func (t *toks) String() string {
	if len(t.l) == 0 {
		return "-"
	}
	return strings.Join(t.l, ",")
}

// ---------------------------------------------------------------------------
// random values, all from the one PRNG
// ---------------------------------------------------------------------------

var rng *rand.Rand

type featset map[string]bool

func (f featset) add(s string) { f[s] = true }
func (f featset) String() string {
	l := make([]string, 0, len(f))
	for k := range f {
		l = append(l, k)
	}
	sort.Strings(l)
	return strings.Join(l, ",")
}

func ri64() int64 {
	switch rng.Intn(8) {
	case 0:
		return 0
	case 1:
		return int64(rng.Intn(100))
	case 2:
		return -1 - int64(rng.Intn(100))
	case 3:
		return int64(rng.Uint64())
	case 4:
		return math.MaxInt64
	case 5:
		return math.MinInt64
	case 6:
		return rng.Int63n(1 << 40)
	}
	return int64(rng.Intn(1 << 16))
}

func ri32() int32 {
	switch rng.Intn(7) {
	case 0:
		return 0
	case 1:
		return int32(rng.Intn(100))
	case 2:
		return -1 - int32(rng.Intn(100))
	case 3:
		return int32(rng.Uint32())
	case 4:
		return math.MaxInt32
	case 5:
		return math.MinInt32
	}
	return int32(rng.Intn(1 << 16))
}

func ri16() int16 {
	switch rng.Intn(5) {
	case 0:
		return 0
	case 1:
		return int16(rng.Intn(10))
	case 2:
		return math.MaxInt16
	case 3:
		return math.MinInt16
	}
	return int16(rng.Uint32())
}

func rbytesN(n int) []byte {
	b := make([]byte, n)
	rng.Read(b)
	return b
}

// string lengths: mostly short, sometimes empty, sometimes around the 127/128
// and 255/256 boundaries, sometimes long
func rlenStr() int {
	switch rng.Intn(12) {
	case 0:
		return 0
	case 1:
		return 1
	case 2:
		return 127 + rng.Intn(3)
	case 3:
		return 255 + rng.Intn(3)
	case 4:
		return 300 + rng.Intn(700)
	}
	return 1 + rng.Intn(14)
}

// a string; empty only when mayEmpty
func rstr(mayEmpty bool, fs featset) string {
	n := rlenStr()
	if n == 0 && !mayEmpty {
		n = 1 + rng.Intn(8)
	}
	if n == 0 {
		fs.add("empty-string")
	}
	if n >= 127 {
		fs.add("long-string")
	}
	b := make([]byte, n)
	if rng.Intn(6) == 0 {
		rng.Read(b)
		fs.add("binary-string")
	} else {
		for i := range b {
			b[i] = byte('a' + rng.Intn(26))
		}
	}
	return string(b)
}

// a string for a position that is a NULLABLE_STRING in the protocol package's
// schema: the two codecs legitimately differ on "" there (Conn: length 0, the
// reflection codec: null), so it is empty only rarely and tagged
func rnullableStr(fs featset) string {
	if rng.Intn(8) == 0 {
		fs.add("empty-nullable-str")
		return ""
	}
	return rstr(false, fs)
}

// bytes of a position that is non-nullable BYTES in the grammar
func rbytes(fs featset) []byte {
	switch rng.Intn(10) {
	case 0:
		fs.add("nil-bytes")
		return nil
	case 1:
		fs.add("empty-bytes")
		return []byte{}
	case 2:
		return rbytesN(127 + rng.Intn(3))
	case 3:
		return rbytesN(300 + rng.Intn(400))
	}
	return rbytesN(1 + rng.Intn(24))
}

// key / value of a message: nullable
func rkv(fs featset, what string) []byte {
	switch rng.Intn(8) {
	case 0:
		fs.add("nil-" + what)
		return nil
	case 1:
		fs.add("empty-" + what)
		return []byte{}
	case 2:
		return rbytesN(60 + rng.Intn(80)) // varint length crosses one byte at 64
	case 3:
		return rbytesN(8100 + rng.Intn(200)) // and two bytes at 8192
	}
	return rbytesN(1 + rng.Intn(20))
}

func rcount(fs featset, what string) int {
	var n int
	switch rng.Intn(8) {
	case 0:
		n = 0
	case 1, 2, 3:
		n = 1
	case 4, 5:
		n = 2 + rng.Intn(3)
	case 6:
		n = 5 + rng.Intn(8)
	default:
		n = 20 + rng.Intn(30)
	}
	if n == 0 {
		fs.add("empty-" + what)
	}
	if n >= 20 {
		fs.add("many-" + what)
	}
	return n
}

func rclient(fs featset) string {
	switch rng.Intn(5) {
	case 0:
		fs.add("client-default")
		return ""
	case 1:
		return "c"
	}
	return rstr(false, fs)
}

func rcorr0() int32 {
	switch rng.Intn(6) {
	case 0:
		return 0
	case 1:
		return math.MaxInt32 // the id sent is MinInt32
	case 2:
		return -2 // the id sent is -1
	case 3:
		return -1
	}
	return int32(rng.Uint32())
}

// ---------------------------------------------------------------------------
// the second codec: protocol.WriteRequest
// ---------------------------------------------------------------------------

func protoFrame(ver int16, corr int32, client string, m protocol.Message) ([]byte, error) {
	var b bytes.Buffer
	if err := protocol.WriteRequest(&b, ver, corr, client, m); err != nil {
		return nil, err
	}
	return b.Bytes(), nil
}

func protoVerdict(written []byte, ver int16, corr int32, client string, m protocol.Message, skip string) string {
	if skip != "" {
		return "proto=skip:" + skip
	}
	p, err := protoFrame(ver, corr, client, m)
	if err != nil {
		return "proto=DIFF:error:" + strings.ReplaceAll(err.Error(), " ", "_")
	}
	if bytes.Equal(p, written) {
		return "proto=same"
	}
	return "proto=DIFF:" + hex.EncodeToString(p)
}

// ---------------------------------------------------------------------------
// output
// ---------------------------------------------------------------------------

var out *bufio.Writer
var caseID int

func emitLine(head, res, feats string) {
	caseID++
	fmt.Fprintf(out, "%d %s | %s | %s\n", caseID, head, res, feats)
}

func hexOrDot(b []byte) string {
	if len(b) == 0 {
		return "."
	}
	return hex.EncodeToString(b)
}

func emitReq(api string, ver int16, corr int32, client, via string, t *toks, written []byte, verdict string, fs featset, err error, panicked bool) {
	fs.add("api=" + api + "v" + fmt.Sprint(ver))
	fs.add("via=" + via)
	res := hexOrDot(written) + " " + verdict
	if panicked {
		res = "PANIC " + verdict
	}
	emitLine(fmt.Sprintf("creq %s %s %s %s %s %s", api, kvfmt.I(int64(ver)), kvfmt.I(int64(corr)), kvfmt.Bytes([]byte(client)), via, t.String()), res, fs.String())
}

func effClient(c string) string {
	if c == "" {
		return kafka.DefaultClientID
	}
	return c
}

// ---------------------------------------------------------------------------
// produce
// ---------------------------------------------------------------------------

// a codec of the harness: "compresses" by prefixing a marker; remembers its output
type markCodec struct {
	code int8
	last *bytes.Buffer
}

type markWriter struct {
	w     io.Writer
	wrote bool
}

func (m *markWriter) Write(p []byte) (int, error) {
	if !m.wrote {
		m.wrote = true
		if _, err := m.w.Write([]byte{0xC0, 0xDE}); err != nil {
			return 0, err
		}
	}
	return m.w.Write(p)
}
func (m *markWriter) Close() error {
	if !m.wrote {
		m.wrote = true
		_, err := m.w.Write([]byte{0xC0, 0xDE})
		return err
	}
	return nil
}

func (c *markCodec) Code() int8                          { return c.code }
func (c *markCodec) Name() string                        { return "mark" }
func (c *markCodec) NewReader(r io.Reader) io.ReadCloser { return io.NopCloser(r) }
func (c *markCodec) NewWriter(w io.Writer) io.WriteCloser {
	c.last = &bytes.Buffer{}
	return &markWriter{w: io.MultiWriter(w, c.last)}
}

type hdr struct {
	k string
	v []byte
}

func genMessages(fs featset, conn bool) []kafka.Message {
	n := 1
	switch rng.Intn(6) {
	case 0:
		n = 1
	case 1, 2:
		n = 2 + rng.Intn(3)
	case 3:
		n = 5 + rng.Intn(10)
	case 4:
		n = 30 + rng.Intn(40)
	default:
		n = 1 + rng.Intn(3)
	}
	if n > 1 {
		fs.add("multi-msg")
	}
	base := time.Unix(1600000000+int64(rng.Intn(100000000)), int64(rng.Intn(1000000000)))
	if rng.Intn(6) == 0 {
		base = time.Unix(int64(rng.Intn(1000))-500, int64(rng.Intn(1000000000))) // around the epoch, negative too
		fs.add("time-near-epoch")
	}
	mode := rng.Intn(5) // 0: all equal, 1: sub-millisecond apart, 2: milliseconds apart, 3: far apart / decreasing, 4: mixed with zero times
	msgs := make([]kafka.Message, n)
	large := false
	for i := range msgs {
		m := kafka.Message{}
		switch mode {
		case 0:
			m.Time = base
			fs.add("time-equal")
		case 1:
			m.Time = base.Add(time.Duration(rng.Intn(999999)) * time.Nanosecond)
			fs.add("time-submilli")
		case 2:
			m.Time = base.Add(time.Duration(rng.Intn(200)) * time.Millisecond)
			fs.add("time-distinct")
		case 3:
			m.Time = base.Add(time.Duration(rng.Int63n(int64(400*24*time.Hour))) - 200*24*time.Hour)
			fs.add("time-distinct")
			fs.add("time-far")
		default:
			if conn || rng.Intn(2) == 0 {
				m.Time = base.Add(time.Duration(rng.Intn(5000)) * time.Millisecond)
				fs.add("time-distinct")
			} else {
				fs.add("time-zero")
			}
		}
		if !conn && mode != 4 && rng.Intn(10) == 0 {
			m.Time = time.Time{}
			fs.add("time-zero")
		}
		m.Key = rkv(fs, "key")
		m.Value = rkv(fs, "value")
		if len(m.Key) > 8000 || len(m.Value) > 8000 {
			if large {
				// keep case lines small: one large blob per request
				m.Key, m.Value = []byte("k"), []byte("v")
			}
			large = true
		}
		if rng.Intn(3) == 0 {
			nh := 1 + rng.Intn(3)
			if rng.Intn(8) == 0 {
				nh = 10 + rng.Intn(10)
			}
			for j := 0; j < nh; j++ {
				h := kafka.Header{Key: rstr(true, fs)}
				if len(h.Key) > 300 {
					h.Key = h.Key[:20]
				}
				switch rng.Intn(4) {
				case 0:
					h.Value = nil
					fs.add("nil-header-value")
				case 1:
					h.Value = []byte{}
				default:
					h.Value = rbytesN(1 + rng.Intn(70))
				}
				m.Headers = append(m.Headers, h)
			}
			fs.add("headers")
		}
		if rng.Intn(4) == 0 {
			m.Offset = ri64() // written as is by produce v2, ignored by v3/v7
		}
		msgs[i] = m
	}
	return msgs
}

func msgTokens(t *toks, msgs []kafka.Message) {
	t.n(len(msgs))
	for _, m := range msgs {
		t.i(m.Offset)
		t.w(m.Time)
		t.b(m.Key)
		t.b(m.Value)
		t.n(len(m.Headers))
		for _, h := range m.Headers {
			t.s(h.Key)
			t.b(h.Value)
		}
	}
}

// the record set (int32 size and what it announces) inside a captured produce frame
func cutRecordSet(fr []byte, ver int16, client, topic string, txid *string) ([]byte, int) {
	off := 4 + 2 + 2 + 4 + 2 + len(client)
	if ver >= 3 {
		off += 2
		if txid != nil {
			off += len(*txid)
		}
	}
	off += 2 + 4 + 4 + 2 + len(topic) + 4 + 4
	if off+4 > len(fr) {
		return nil, off
	}
	return fr[off:], off
}

func produceVerdict(written []byte, ver int16, corr int32, client, topic string, partition int32, acks int16, timeoutMs int32, txid *string, msgs []kafka.Message, compressed bool) string {
	set, _ := cutRecordSet(written, ver, client, topic, txid)
	if set == nil {
		return "proto=DIFF:short-frame"
	}
	// (a) the frame around the record set, through protocol/rawproduce
	tx := ""
	if txid != nil {
		tx = *txid
	}
	req := &prawproduce.Request{
		TransactionalID: tx, Acks: acks, Timeout: timeoutMs,
		Topics: []prawproduce.RequestTopic{{Topic: topic, Partitions: []prawproduce.RequestPartition{{
			Partition: partition, RecordSet: protocol.RawRecordSet{Reader: bytes.NewReader(set)},
		}}}},
	}
	v := protoVerdict(written, ver, corr, client, req, "")
	if compressed {
		return v + " dec=skip:mark-codec"
	}
	// (b) the real protocol decoder on the captured frame
	dec := func() (s string) {
		defer func() {
			if r := recover(); r != nil {
				s = fmt.Sprintf("dec=DIFF:panic:%v", r)
			}
		}()
		full := written
		if n := 4 + int(int32(binary.BigEndian.Uint32(written))); n > len(written) && n-len(written) < 1<<16 {
			// the frame announces more than was sent: a reader would block; say so
			return fmt.Sprintf("dec=DIFF:frame-announces-%d-bytes-%d-sent", n, len(written))
		}
		gver, gcorr, gclient, m, err := protocol.ReadRequest(bytes.NewReader(full))
		if err != nil {
			return "dec=DIFF:" + strings.ReplaceAll(err.Error(), " ", "_")
		}
		pr, ok := m.(*pproduce.Request)
		if !ok {
			return fmt.Sprintf("dec=DIFF:type:%T", m)
		}
		if gver != ver || gcorr != corr || gclient != client {
			return "dec=DIFF:header"
		}
		if pr.TransactionalID != tx || pr.Acks != acks || pr.Timeout != timeoutMs || len(pr.Topics) != 1 ||
			pr.Topics[0].Topic != topic || len(pr.Topics[0].Partitions) != 1 || pr.Topics[0].Partitions[0].Partition != partition {
			return "dec=DIFF:fields"
		}
		rs := pr.Topics[0].Partitions[0].RecordSet
		i := 0
		if rs.Records != nil {
			for {
				rec, err := rs.Records.ReadRecord()
				if err != nil {
					if errors.Is(err, io.EOF) {
						break
					}
					return "dec=DIFF:record:" + strings.ReplaceAll(err.Error(), " ", "_")
				}
				if i >= len(msgs) {
					return "dec=DIFF:more-records"
				}
				k, _ := protocol.ReadAll(rec.Key)
				val, _ := protocol.ReadAll(rec.Value)
				want := msgs[i]
				wantOff := int64(i)
				if ver == 2 {
					wantOff = want.Offset
				}
				wantTs := int64(0)
				if !want.Time.IsZero() {
					wantTs = want.Time.UnixNano() / 1e6
				}
				gotTs := rec.Time.UnixNano() / 1e6
				if wantTs <= 0 {
					// protocol's makeTime turns timestamps <= 0 ... into Unix(0,..) as well; compare raw
					gotTs = rec.Time.UnixNano() / 1e6
				}
				if rec.Offset != wantOff {
					return fmt.Sprintf("dec=DIFF:offset[%d]", i)
				}
				if gotTs != wantTs {
					return fmt.Sprintf("dec=DIFF:time[%d]:%d!=%d", i, gotTs, wantTs)
				}
				if (rec.Key == nil) != (want.Key == nil) || !bytes.Equal(k, want.Key) {
					return fmt.Sprintf("dec=DIFF:key[%d]", i)
				}
				if (rec.Value == nil) != (want.Value == nil) || !bytes.Equal(val, want.Value) {
					return fmt.Sprintf("dec=DIFF:value[%d]", i)
				}
				if ver >= 3 {
					if len(rec.Headers) != len(want.Headers) {
						return fmt.Sprintf("dec=DIFF:headers[%d]", i)
					}
					for j, h := range rec.Headers {
						if h.Key != want.Headers[j].Key || !bytes.Equal(h.Value, want.Headers[j].Value) || (h.Value == nil) != (want.Headers[j].Value == nil) {
							return fmt.Sprintf("dec=DIFF:header[%d][%d]", i, j)
						}
					}
				}
				i++
			}
		}
		if i != len(msgs) {
			return fmt.Sprintf("dec=DIFF:%d-records-of-%d", i, len(msgs))
		}
		return "dec=ok"
	}()
	return v + " " + dec
}

func genProduce(ver int16) {
	fs := featset{}
	direct := rng.Intn(3) == 0
	msgs := genMessages(fs, !direct)
	topic := rstr(false, fs)
	partition := int32(rng.Intn(50))
	if rng.Intn(4) == 0 {
		partition = math.MaxInt32 - int32(rng.Intn(3))
	}
	var codec *markCodec
	if rng.Intn(5) == 0 {
		codec = &markCodec{code: int8(1 + rng.Intn(4))}
		fs.add("compressed")
	}
	var cc kafka.CompressionCodec
	if codec != nil {
		cc = codec
	}
	var txid *string
	txs := ""
	if ver >= 3 && rng.Intn(3) == 0 {
		txs = rstr(false, fs)
		txid = &txs
		fs.add("txid")
	}
	var written []byte
	var err error
	var panicked bool
	var corr int32
	var client string
	var acks int16
	var timeout time.Duration
	via := "conn"
	sent := append([]kafka.Message(nil), msgs...)
	if direct {
		via = "direct"
		client = rclient(fs)
		if fs["client-default"] {
			delete(fs, "client-default")
			fs.add("client-empty")
		}
		corr = int32(rcorr0())
		acks = []int16{-1, 0, 1, ri16()}[rng.Intn(4)]
		switch rng.Intn(5) {
		case 0:
			timeout = 0
		case 1:
			timeout = time.Duration(rng.Intn(60000)) * time.Millisecond
		case 2:
			timeout = time.Duration(ri64())
			fs.add("timeout-boundary")
		case 3:
			timeout = time.Duration(math.MaxInt32)*time.Millisecond + time.Duration(rng.Intn(3)-1)*time.Millisecond
			fs.add("timeout-boundary")
		default:
			timeout = time.Duration(rng.Int63n(int64(time.Hour)))
		}
		if ver >= 3 && txid == nil && rng.Intn(12) == 0 {
			// a pointer to "" (the Conn never builds one: emptyToNullable)
			txid = &txs
			fs.add("txid-empty-nonnull")
		}
		var b bytes.Buffer
		func() {
			defer func() {
				if r := recover(); r != nil {
					panicked = true
				}
			}()
			err = kafka.VerifC04WriteProduce(&b, int(ver), cc, corr, client, topic, partition, timeout, acks, txid, sent)
		}()
		written = b.Bytes()
	} else {
		cfg := connCfg{client: rclient(fs), topic: topic, partition: int(partition), txid: txs, acks: []int{-1, 1}[rng.Intn(2)], corr0: rcorr0()}
		client = effClient(cfg.client)
		corr = cfg.corr0 + 1
		acks = int16(cfg.acks)
		timeout = time.Duration(math.MaxInt32) * time.Millisecond // no deadline set: maxTimeout
		written, err, panicked = runConn(cfg, pinTable(0, ver), func(c *kafka.Conn) error {
			_, _, _, _, e := c.WriteCompressedMessagesAt(cc, sent...)
			return e
		})
	}
	_ = err
	t := &toks{}
	if codec != nil && codec.last != nil {
		t.i(int64(codec.code))
		t.b(codec.last.Bytes())
	} else {
		t.i(0)
		t.b(nil)
	}
	t.ns(txid)
	t.i(int64(acks))
	t.i(int64(timeout))
	t.s(topic)
	t.i(int64(partition))
	msgTokens(t, msgs)
	tms := int32(0)
	{
		d := timeout
		max := time.Duration(math.MaxInt32) * time.Millisecond
		min := time.Duration(math.MinInt32) * time.Millisecond
		if d > max {
			d = max
		} else if d < min {
			d = min
		}
		tms = int32(d / time.Millisecond)
	}
	verdict := "proto=skip:no-frame dec=skip:no-frame"
	if len(written) >= 4 && !panicked {
		if fs["txid-empty-nonnull"] {
			verdict = "proto=skip:empty-non-null-transactional-id dec=skip:empty-non-null-transactional-id"
		} else {
			verdict = produceVerdict(written, ver, corr, client, topic, partition, acks, tms, txid, msgs, codec != nil)
		}
	}
	emitReq("produce", ver, corr, client, via, t, written, verdict, fs, err, panicked)
}

// ---------------------------------------------------------------------------
// fetch, list offsets
// ---------------------------------------------------------------------------

func genFetch(ver int16) {
	fs := featset{}
	direct := rng.Intn(3) == 0
	topic := rstr(direct, fs)
	partition := int32(rng.Intn(50))
	if rng.Intn(4) == 0 {
		partition = math.MaxInt32 - int32(rng.Intn(3))
	}
	offset := ri64()
	for !direct && (offset == -1 || offset == -2) {
		offset = ri64() // the placeholders make the Conn ask for the offsets first
	}
	var isolation int8
	if rng.Intn(2) == 0 {
		isolation = 1
	}
	var minBytes, maxBytes int
	var maxWait time.Duration
	var written []byte
	var err error
	var panicked bool
	var corr int32
	var client string
	via := "conn"
	if direct {
		via = "direct"
		client = rclient(fs)
		if fs["client-default"] {
			delete(fs, "client-default")
			fs.add("client-empty")
		}
		corr = rcorr0()
		minBytes, maxBytes = int(ri32()), int(ri32())
		if rng.Intn(4) == 0 {
			maxBytes = int(ri64()) // truncated by int32(maxBytes)
			fs.add("int-truncation")
		}
		maxWait = time.Duration(ri64())
		isolation = int8(rng.Intn(256) - 128)
		var b bytes.Buffer
		err = kafka.VerifC04WriteFetch(&b, int(ver), corr, client, topic, partition, offset, minBytes, maxBytes, maxWait, isolation)
		written = b.Bytes()
	} else {
		cfg := connCfg{client: rclient(fs), topic: topic, partition: int(partition), corr0: rcorr0()}
		client = effClient(cfg.client)
		corr = cfg.corr0 + 1
		fmin := 58 + len(topic)
		cfgMin := []int{0, 1, rng.Intn(1 << 20)}[rng.Intn(3)]
		cfgMax := cfgMin + rng.Intn(1<<24)
		if rng.Intn(4) == 0 {
			cfgMax = math.MaxInt32 - fmin // the largest MaxBytes ReadBatchWith accepts
			fs.add("max-bytes-boundary")
		}
		var cfgWait time.Duration
		if rng.Intn(2) == 0 {
			cfgWait = time.Duration(1+rng.Intn(20000)) * time.Millisecond
			maxWait = cfgWait
		} else {
			maxWait = time.Duration(math.MaxInt32) * time.Millisecond // no deadline: maxTimeout
			fs.add("wait-default")
		}
		minBytes, maxBytes = cfgMin, cfgMax+fmin
		written, err, panicked = runConn(cfg, pinTable(1, ver), func(c *kafka.Conn) error {
			if int(kafka.VerifC04FetchMinSize(c)) != fmin {
				return fmt.Errorf("fetchMinSize %d != %d", kafka.VerifC04FetchMinSize(c), fmin)
			}
			if _, e := c.Seek(offset, kafka.SeekAbsolute|kafka.SeekDontCheck); e != nil {
				return e
			}
			b := c.ReadBatchWith(kafka.ReadBatchConfig{MinBytes: cfgMin, MaxBytes: cfgMax, IsolationLevel: kafka.IsolationLevel(isolation), MaxWait: cfgWait})
			return b.Close()
		})
		if err != nil && strings.HasPrefix(err.Error(), "fetchMinSize") {
			fmt.Fprintln(os.Stderr, "c04conn:", err)
			os.Exit(2)
		}
	}
	t := &toks{}
	t.s(topic)
	t.i(int64(partition))
	t.i(offset)
	t.i(int64(minBytes))
	t.i(int64(maxBytes))
	t.i(int64(maxWait))
	t.i(int64(isolation))
	wms := func() int32 {
		d := maxWait
		max := time.Duration(math.MaxInt32) * time.Millisecond
		min := time.Duration(math.MinInt32) * time.Millisecond
		if d > max {
			d = max
		} else if d < min {
			d = min
		}
		return int32(d / time.Millisecond)
	}()
	req := &pfetch.Request{
		ReplicaID: -1, MaxWaitTime: wms, MinBytes: int32(minBytes), MaxBytes: int32(maxBytes), IsolationLevel: isolation,
		SessionID: 0, SessionEpoch: -1,
		Topics: []pfetch.RequestTopic{{Topic: topic, Partitions: []pfetch.RequestPartition{{
			Partition: partition, CurrentLeaderEpoch: -1, FetchOffset: offset, LogStartOffset: 0, PartitionMaxBytes: int32(maxBytes),
		}}}},
	}
	verdict := "proto=skip:no-frame"
	if len(written) >= 4 {
		verdict = protoVerdict(written, ver, corr, client, req, "")
	}
	emitReq("fetch", ver, corr, client, via, t, written, verdict, fs, err, panicked)
}

func genListOffsets() {
	fs := featset{}
	direct := rng.Intn(3) == 0
	topic := rstr(direct, fs)
	partition := int32(rng.Intn(50))
	var ts int64
	var written []byte
	var err error
	var panicked bool
	var corr int32
	var client string
	via := "conn"
	if direct {
		via = "direct"
		client = rclient(fs)
		if fs["client-default"] {
			delete(fs, "client-default")
			fs.add("client-empty")
		}
		corr = rcorr0()
		ts = ri64()
		var b bytes.Buffer
		err = kafka.VerifC04WriteListOffsets(&b, corr, client, topic, partition, ts)
		written = b.Bytes()
	} else {
		cfg := connCfg{client: rclient(fs), topic: topic, partition: int(partition), corr0: rcorr0()}
		client = effClient(cfg.client)
		corr = cfg.corr0 + 1
		which := rng.Intn(3)
		var tm time.Time
		switch which {
		case 0:
			ts = -2
			fs.add("first-offset")
		case 1:
			ts = -1
			fs.add("last-offset")
		default:
			tm = time.Unix(int64(rng.Intn(2000000000)), int64(rng.Intn(1000000000)))
			ts = tm.UnixNano() / 1e6
			fs.add("offset-at-time")
		}
		written, err, panicked = runConn(cfg, pinTable(2, 1), func(c *kafka.Conn) error {
			var e error
			switch which {
			case 0:
				_, e = c.ReadFirstOffset()
			case 1:
				_, e = c.ReadLastOffset()
			default:
				_, e = c.ReadOffset(tm)
			}
			return e
		})
	}
	t := &toks{}
	t.s(topic)
	t.i(int64(partition))
	t.i(ts)
	req := &plistoffsets.Request{ReplicaID: -1, Topics: []plistoffsets.RequestTopic{{Topic: topic,
		Partitions: []plistoffsets.RequestPartition{{Partition: partition, Timestamp: ts}}}}}
	verdict := "proto=skip:no-frame"
	if len(written) >= 4 {
		verdict = protoVerdict(written, 1, corr, client, req, "")
	}
	emitReq("listoffsets", 1, corr, client, via, t, written, verdict, fs, err, panicked)
}

// ---------------------------------------------------------------------------
// requests written by Conn.writeRequest
// ---------------------------------------------------------------------------

type simple struct {
	api   string
	key   int16
	ver   int16
	toks  *toks
	fs    featset
	op    func(c *kafka.Conn) error
	proto protocol.Message
	skip  string
	topic string // the Conn's own topic
}

func runSimple(s simple) {
	cfg := connCfg{client: rclient(s.fs), topic: s.topic, corr0: rcorr0()}
	client := effClient(cfg.client)
	corr := cfg.corr0 + 1
	written, err, panicked := runConn(cfg, pinTable(s.key, s.ver), s.op)
	verdict := "proto=skip:no-frame"
	if len(written) >= 4 {
		skip := s.skip
		if skip == "" && s.fs["empty-nullable-str"] {
			skip = "empty-nullable-string"
		}
		verdict = protoVerdict(written, s.ver, corr, client, s.proto, skip)
	}
	emitReq(s.api, s.ver, corr, client, "conn", s.toks, written, verdict, s.fs, err, panicked)
}

func genMetadata(ver int16) {
	fs := featset{}
	t := &toks{}
	var topics []string
	own := ""
	mode := rng.Intn(4)
	switch mode {
	case 0: // no argument, no topic on the Conn: nil = all topics
		fs.add("all-topics")
	case 1: // no argument: the Conn's own topic
		own = rstr(false, fs)
		topics = []string{own}
		fs.add("own-topic")
	default:
		n := rcount(fs, "topics")
		if n == 0 {
			n = 1
			delete(fs, "empty-topics")
		}
		for i := 0; i < n; i++ {
			topics = append(topics, rnullableStr(fs))
		}
	}
	if topics == nil {
		t.nnil()
	} else {
		t.n(len(topics))
		for _, s := range topics {
			t.s(s)
		}
	}
	t.bool(true)
	args := topics
	if mode <= 1 {
		args = nil
	}
	runSimple(simple{api: "metadata", key: 3, ver: ver, toks: t, fs: fs, topic: own,
		op:    func(c *kafka.Conn) error { _, e := c.ReadPartitions(args...); return e },
		proto: &pmetadata.Request{TopicNames: topics, AllowAutoTopicCreation: true}})
}

// Brokers / Controller: metadata v1 with an empty (non-nil) topic list
func genBrokers() {
	fs := featset{}
	t := &toks{}
	t.n(0)
	t.bool(false)
	ctl := rng.Intn(2) == 0
	fs.add(map[bool]string{true: "controller", false: "brokers"}[ctl])
	runSimple(simple{api: "metadata", key: 3, ver: 1, toks: t, fs: fs, topic: "t",
		op: func(c *kafka.Conn) error {
			if ctl {
				_, e := c.Controller()
				return e
			}
			_, e := c.Brokers()
			return e
		},
		proto: &pmetadata.Request{TopicNames: []string{}}})
}

func genFindCoordinator() {
	fs := featset{}
	t := &toks{}
	key := rstr(true, fs)
	t.s(key)
	runSimple(simple{api: "findcoordinator", key: 10, ver: 0, toks: t, fs: fs,
		op:    func(c *kafka.Conn) error { return kafka.VerifC04FindCoordinator(c, key) },
		proto: &pfindcoordinator.Request{Key: key}})
}

func genNameBytes(fs featset, what string) []kafka.VerifC04NameBytes {
	n := rcount(fs, what)
	l := make([]kafka.VerifC04NameBytes, n)
	for i := range l {
		l[i] = kafka.VerifC04NameBytes{Name: rstr(true, fs), Data: rbytes(fs)}
	}
	return l
}

func genJoinGroup(ver int16) {
	fs := featset{}
	t := &toks{}
	group, member, ptype := rstr(true, fs), rstr(true, fs), rstr(true, fs)
	st, rt := ri32(), ri32()
	protos := genNameBytes(fs, "protocols")
	t.s(group)
	t.i(int64(st))
	t.i(int64(rt))
	t.s(member)
	t.s(ptype)
	t.n(len(protos))
	pp := make([]pjoingroup.RequestProtocol, len(protos))
	for i, p := range protos {
		t.s(p.Name)
		t.b(p.Data)
		pp[i] = pjoingroup.RequestProtocol{Name: p.Name, Metadata: p.Data}
	}
	runSimple(simple{api: "joingroup", key: 11, ver: ver, toks: t, fs: fs,
		op: func(c *kafka.Conn) error {
			return kafka.VerifC04JoinGroup(c, group, st, rt, member, ptype, protos)
		},
		proto: &pjoingroup.Request{GroupID: group, SessionTimeoutMS: st, RebalanceTimeoutMS: rt, MemberID: member, ProtocolType: ptype, Protocols: pp}})
}

func genSyncGroup() {
	fs := featset{}
	t := &toks{}
	group, member := rstr(true, fs), rstr(true, fs)
	gen := ri32()
	as := genNameBytes(fs, "assignments")
	t.s(group)
	t.i(int64(gen))
	t.s(member)
	t.n(len(as))
	pa := make([]psyncgroup.RequestAssignment, len(as))
	for i, a := range as {
		t.s(a.Name)
		t.b(a.Data)
		pa[i] = psyncgroup.RequestAssignment{MemberID: a.Name, Assignment: a.Data}
	}
	runSimple(simple{api: "syncgroup", key: 14, ver: 0, toks: t, fs: fs,
		op:    func(c *kafka.Conn) error { return kafka.VerifC04SyncGroup(c, group, gen, member, as) },
		proto: &psyncgroup.Request{GroupID: group, GenerationID: gen, MemberID: member, Assignments: pa}})
}

func genHeartbeat() {
	fs := featset{}
	t := &toks{}
	group, member := rstr(true, fs), rstr(true, fs)
	gen := ri32()
	t.s(group)
	t.i(int64(gen))
	t.s(member)
	runSimple(simple{api: "heartbeat", key: 12, ver: 0, toks: t, fs: fs,
		op:    func(c *kafka.Conn) error { return kafka.VerifC04Heartbeat(c, group, gen, member) },
		proto: &pheartbeat.Request{GroupID: group, GenerationID: gen, MemberID: member}})
}

func genLeaveGroup() {
	fs := featset{}
	t := &toks{}
	group, member := rstr(true, fs), rstr(true, fs)
	t.s(group)
	t.s(member)
	runSimple(simple{api: "leavegroup", key: 13, ver: 0, toks: t, fs: fs,
		op:    func(c *kafka.Conn) error { return kafka.VerifC04LeaveGroup(c, group, member) },
		proto: &pleavegroup.Request{GroupID: group, MemberID: member}})
}

func genOffsetCommit() {
	fs := featset{}
	t := &toks{}
	group, member := rstr(true, fs), rstr(true, fs)
	gen := ri32()
	ret := ri64()
	nt := rcount(fs, "topics")
	topics := make([]kafka.VerifC04CommitTopic, nt)
	pt := make([]poffsetcommit.RequestTopic, nt)
	t.s(group)
	t.i(int64(gen))
	t.s(member)
	t.i(ret)
	t.n(nt)
	for i := range topics {
		topics[i].Topic = rstr(true, fs)
		np := rcount(fs, "partitions")
		if nt > 10 && np > 5 {
			np = 1 + rng.Intn(3)
		}
		t.s(topics[i].Topic)
		t.n(np)
		pt[i].Name = topics[i].Topic
		for j := 0; j < np; j++ {
			p := kafka.VerifC04CommitPartition{Partition: ri32(), Offset: ri64(), Metadata: rnullableStr(fs)}
			topics[i].Partitions = append(topics[i].Partitions, p)
			pt[i].Partitions = append(pt[i].Partitions, poffsetcommit.RequestPartition{PartitionIndex: p.Partition, CommittedOffset: p.Offset, CommittedMetadata: p.Metadata})
			t.i(int64(p.Partition))
			t.i(p.Offset)
			t.s(p.Metadata)
		}
	}
	runSimple(simple{api: "offsetcommit", key: 8, ver: 2, toks: t, fs: fs,
		op: func(c *kafka.Conn) error {
			return kafka.VerifC04OffsetCommit(c, group, gen, member, ret, topics)
		},
		proto: &poffsetcommit.Request{GroupID: group, GenerationID: gen, MemberID: member, RetentionTimeMs: ret, Topics: pt}})
}

func genOffsetFetch() {
	fs := featset{}
	t := &toks{}
	group := rstr(true, fs)
	nt := rcount(fs, "topics")
	topics := make([]kafka.VerifC04FetchTopic, nt)
	pt := make([]poffsetfetch.RequestTopic, nt)
	t.s(group)
	t.n(nt)
	for i := range topics {
		topics[i].Topic = rstr(true, fs)
		np := rcount(fs, "partitions")
		t.s(topics[i].Topic)
		t.n(np)
		for j := 0; j < np; j++ {
			p := ri32()
			topics[i].Partitions = append(topics[i].Partitions, p)
			t.i(int64(p))
		}
		pt[i] = poffsetfetch.RequestTopic{Name: topics[i].Topic, PartitionIndexes: topics[i].Partitions}
	}
	if nt == 0 {
		pt = []poffsetfetch.RequestTopic{} // nil would be the null array ("all topics") of the nullable field
	}
	runSimple(simple{api: "offsetfetch", key: 9, ver: 1, toks: t, fs: fs,
		op:    func(c *kafka.Conn) error { return kafka.VerifC04OffsetFetch(c, group, topics) },
		proto: &poffsetfetch.Request{GroupID: group, Topics: pt}})
}

func genListGroups() {
	fs := featset{}
	runSimple(simple{api: "listgroups", key: 16, ver: 1, toks: &toks{}, fs: fs,
		op:    func(c *kafka.Conn) error { return kafka.VerifC04ListGroups(c) },
		proto: &plistgroups.Request{}})
}

func genApiVersions() {
	fs := featset{}
	runSimple(simple{api: "apiversions", key: 18, ver: 0, toks: &toks{}, fs: fs,
		op:    func(c *kafka.Conn) error { _, e := c.ApiVersions(); return e },
		proto: &papiversions.Request{}})
}

func genCreateTopics(ver int16) {
	fs := featset{}
	t := &toks{}
	public := rng.Intn(3) == 0 // through the exported Conn.CreateTopics
	nt := rcount(fs, "topics")
	if nt > 12 {
		nt = 12
	}
	topics := make([]kafka.VerifC04CreateTopic, nt)
	cfgs := make([]kafka.TopicConfig, nt)
	pt := make([]pcreatetopics.RequestTopic, nt)
	t.n(nt)
	for i := range topics {
		ct := kafka.VerifC04CreateTopic{Topic: rstr(true, fs), NumPartitions: ri32(), ReplicationFactor: ri16()}
		na := rcount(fs, "assignments")
		if na > 6 {
			na = 6
		}
		for j := 0; j < na; j++ {
			a := kafka.VerifC04Assignment{Partition: ri32()}
			nr := rcount(fs, "replicas")
			if nr > 8 {
				nr = 8
			}
			for k := 0; k < nr; k++ {
				a.Replicas = append(a.Replicas, ri32())
			}
			ct.ReplicaAssignments = append(ct.ReplicaAssignments, a)
		}
		ne := rcount(fs, "configs")
		if ne > 6 {
			ne = 6
		}
		for j := 0; j < ne; j++ {
			ct.ConfigEntries = append(ct.ConfigEntries, kafka.VerifC04Config{Name: rstr(true, fs), Value: rnullableStr(fs)})
		}
		topics[i] = ct
		t.s(ct.Topic)
		t.i(int64(ct.NumPartitions))
		t.i(int64(ct.ReplicationFactor))
		t.n(len(ct.ReplicaAssignments))
		tc := kafka.TopicConfig{Topic: ct.Topic, NumPartitions: int(ct.NumPartitions), ReplicationFactor: int(ct.ReplicationFactor)}
		p := pcreatetopics.RequestTopic{Name: ct.Topic, NumPartitions: ct.NumPartitions, ReplicationFactor: ct.ReplicationFactor}
		for _, a := range ct.ReplicaAssignments {
			t.i(int64(a.Partition))
			t.n(len(a.Replicas))
			ra := kafka.ReplicaAssignment{Partition: int(a.Partition)}
			for _, r := range a.Replicas {
				t.i(int64(r))
				ra.Replicas = append(ra.Replicas, int(r))
			}
			tc.ReplicaAssignments = append(tc.ReplicaAssignments, ra)
			p.Assignments = append(p.Assignments, pcreatetopics.RequestAssignment{PartitionIndex: a.Partition, BrokerIDs: a.Replicas})
		}
		t.n(len(ct.ConfigEntries))
		for _, e := range ct.ConfigEntries {
			t.s(e.Name)
			t.s(e.Value)
			tc.ConfigEntries = append(tc.ConfigEntries, kafka.ConfigEntry{ConfigName: e.Name, ConfigValue: e.Value})
			p.Configs = append(p.Configs, pcreatetopics.RequestConfig{Name: e.Name, Value: e.Value})
		}
		cfgs[i] = tc
		pt[i] = p
	}
	timeout := ri32()
	validate := rng.Intn(2) == 0
	if public {
		timeout, validate = 0, false
		fs.add("public-method")
	}
	eff := timeout
	if timeout == 0 {
		eff = math.MaxInt32 // no deadline set: milliseconds(maxTimeout)
		fs.add("timeout-default")
	}
	t.i(int64(eff))
	t.bool(validate)
	runSimple(simple{api: "createtopics", key: 19, ver: ver, toks: t, fs: fs,
		op: func(c *kafka.Conn) error {
			if public {
				return c.CreateTopics(cfgs...)
			}
			return kafka.VerifC04CreateTopics(c, topics, timeout, validate)
		},
		proto: &pcreatetopics.Request{Topics: pt, TimeoutMs: eff, ValidateOnly: validate}})
}

func genDeleteTopics(ver int16) {
	fs := featset{}
	t := &toks{}
	public := rng.Intn(3) == 0
	n := rcount(fs, "topics")
	topics := make([]string, n)
	t.n(n)
	for i := range topics {
		topics[i] = rstr(true, fs)
		t.s(topics[i])
	}
	timeout := ri32()
	if public {
		timeout = 0
		fs.add("public-method")
	}
	eff := timeout
	if timeout == 0 {
		eff = math.MaxInt32
		fs.add("timeout-default")
	}
	t.i(int64(eff))
	runSimple(simple{api: "deletetopics", key: 20, ver: ver, toks: t, fs: fs,
		op: func(c *kafka.Conn) error {
			if public {
				return c.DeleteTopics(topics...)
			}
			return kafka.VerifC04DeleteTopics(c, topics, timeout)
		},
		proto: &pdeletetopics.Request{TopicNames: topics, TimeoutMs: eff}})
}

func genSaslHandshake(ver int16) {
	fs := featset{}
	t := &toks{}
	mech := []string{"PLAIN", "SCRAM-SHA-256", "SCRAM-SHA-512", "AWS_MSK_IAM", rstr(true, fs)}[rng.Intn(5)]
	t.s(mech)
	runSimple(simple{api: "saslhandshake", key: 17, ver: ver, toks: t, fs: fs,
		op:    func(c *kafka.Conn) error { return kafka.VerifC04SaslHandshake(c, mech) },
		proto: &psaslhandshake.Request{Mechanism: mech}})
}

func genSaslAuthenticate() {
	fs := featset{}
	t := &toks{}
	data := rbytes(fs)
	t.b(data)
	// after a v1 handshake: a SaslAuthenticate v0 request
	runSimple(simple{api: "saslauthenticate", key: 36, ver: 0, toks: t, fs: fs,
		op:    func(c *kafka.Conn) error { return kafka.VerifC04SaslAuthenticate(c, data) },
		proto: &psaslauthenticate.Request{AuthBytes: data}})
}

// after a v0 handshake: the token behind its length, no Kafka frame
func genSaslRaw() {
	fs := featset{}
	data := rbytes(fs)
	cfg := connCfg{client: "c", corr0: 0}
	table := pinTable(17, 0)
	written, _, panicked := runConn(cfg, table, func(c *kafka.Conn) error { return kafka.VerifC04SaslAuthenticate(c, data) })
	res := hexOrDot(written)
	if panicked {
		res = "PANIC"
	}
	fs.add("saslraw")
	emitLine("saslraw B"+kvfmt.OptBytes(data), res, fs.String())
}

// ---------------------------------------------------------------------------
// negotiated versions against random advertised ranges
// ---------------------------------------------------------------------------

func genNeg(key int16) {
	fs := featset{}
	sup := supported[key]
	var table []verRange
	adv := "-"
	// every other API advertised generously
	for k, m := range map[int16]int16{0: 9, 1: 12, 2: 5, 3: 9, 8: 7, 9: 5, 10: 2, 11: 7, 12: 4, 13: 4, 14: 5, 16: 2, 17: 1, 18: 2, 19: 5, 20: 3, 36: 1} {
		if k != key {
			table = append(table, verRange{k, 0, m})
		}
	}
	sort.Slice(table, func(i, j int) bool { return table[i].key < table[j].key })
	if rng.Intn(8) != 0 {
		min := int16(rng.Intn(13))
		max := min + int16(rng.Intn(13-int(min)))
		switch rng.Intn(6) {
		case 0:
			min, max = 0, int16(rng.Intn(13))
		case 1:
			max = sup[rng.Intn(len(sup))]
			min = int16(rng.Intn(int(max) + 1))
		case 2:
			min, max = 0, sup[0]-1 // below everything the client speaks (may be -1)
		}
		table = append(table, verRange{key, min, max})
		adv = kvfmt.I(int64(min)) + ":" + kvfmt.I(int64(max))
		fs.add("advertised")
	} else {
		fs.add("not-advertised")
	}
	cfg := connCfg{client: "c", topic: "t", corr0: 0}
	var op func(c *kafka.Conn) error
	switch key {
	case 0:
		op = func(c *kafka.Conn) error {
			_, e := c.WriteMessages(kafka.Message{Value: []byte("v"), Time: time.Unix(1600000000, 0)})
			return e
		}
	case 1:
		op = func(c *kafka.Conn) error {
			if _, e := c.Seek(3, kafka.SeekAbsolute|kafka.SeekDontCheck); e != nil {
				return e
			}
			return c.ReadBatchWith(kafka.ReadBatchConfig{MinBytes: 1, MaxBytes: 1000}).Close()
		}
	case 3:
		op = func(c *kafka.Conn) error { _, e := c.ReadPartitions(); return e }
	case 11:
		op = func(c *kafka.Conn) error {
			return kafka.VerifC04JoinGroup(c, "g", 1, 1, "", "consumer", nil)
		}
	case 19:
		op = func(c *kafka.Conn) error { return kafka.VerifC04CreateTopics(c, nil, 5, false) }
	case 20:
		op = func(c *kafka.Conn) error { return kafka.VerifC04DeleteTopics(c, []string{"x"}, 5) }
	case 17:
		op = func(c *kafka.Conn) error { return kafka.VerifC04SaslHandshake(c, "PLAIN") }
	}
	written, _, panicked := runConn(cfg, table, op)
	res := "none"
	switch {
	case panicked:
		res = "PANIC"
	case len(written) >= 8:
		k := int16(binary.BigEndian.Uint16(written[4:]))
		v := int16(binary.BigEndian.Uint16(written[6:]))
		if k != key {
			res = fmt.Sprintf("WRONGKEY:%d", k)
		} else {
			res = kvfmt.I(int64(v))
		}
	case len(written) > 0:
		res = "SHORT"
	}
	// the same question to apiVersionMap.negotiate directly
	tv := make([]kafka.ApiVersion, len(table))
	for i, r := range table {
		tv[i] = kafka.ApiVersion{ApiKey: r.key, MinVersion: r.min, MaxVersion: r.max}
	}
	direct := kafka.VerifC04Negotiate(tv, key, sup...)
	want := "none"
	if direct >= 0 {
		want = kvfmt.I(int64(direct))
	}
	if want != res {
		res += "/negotiate=" + want
	}
	s := make([]string, len(sup))
	for i, v := range sup {
		s[i] = kvfmt.I(int64(v))
	}
	fs.add(fmt.Sprintf("negkey=%d", key))
	emitLine(fmt.Sprintf("neg %s %s %s", kvfmt.I(int64(key)), adv, strings.Join(s, ",")), res, fs.String())
}

func genFetchMin() {
	fs := featset{}
	topic := rstr(true, fs)
	f := &fakeConn{}
	c := kafka.NewConnWith(f, kafka.ConnConfig{Topic: topic})
	emitLine("fetchmin S"+kvfmt.Bytes([]byte(topic)), kvfmt.I(int64(kafka.VerifC04FetchMinSize(c))), "fetchmin")
}

// ---------------------------------------------------------------------------

func genAll(n int) {
	for round := 0; round < n; round++ {
		for _, v := range []int16{2, 3, 7} {
			for k := 0; k < 4; k++ {
				genProduce(v)
			}
		}
		for _, v := range []int16{2, 5, 10} {
			genFetch(v)
			genFetch(v)
		}
		genListOffsets()
		genListOffsets()
		genMetadata(1)
		genMetadata(6)
		genMetadata(1)
		genMetadata(6)
		genBrokers()
		genFindCoordinator()
		genJoinGroup(1)
		genJoinGroup(2)
		genSyncGroup()
		genSyncGroup()
		genHeartbeat()
		genLeaveGroup()
		genOffsetCommit()
		genOffsetCommit()
		genOffsetFetch()
		genListGroups()
		genApiVersions()
		for _, v := range []int16{0, 1, 2} {
			genCreateTopics(v)
		}
		genDeleteTopics(0)
		genDeleteTopics(1)
		genSaslHandshake(0)
		genSaslHandshake(1)
		genSaslAuthenticate()
		genSaslAuthenticate()
		genSaslRaw()
		genFetchMin()
		for _, k := range []int16{0, 1, 3, 11, 19, 20, 17} {
			genNeg(k)
			genNeg(k)
		}
		genResponses(1)
		genPool(false)
		genPool(false)
		genPool(true)
	}
}

func main() {
	seed := flag.Int64("seed", 1, "PRNG seed")
	n := flag.Int("n", 4, "rounds (each round: every operation and version at least once)")
	flag.Parse()
	rng = rand.New(rand.NewSource(*seed))
	out = bufio.NewWriterSize(os.Stdout, 1<<20)
	defer out.Flush()
	genAll(*n)
}
