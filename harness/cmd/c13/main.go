// c13: correspondence driver for the partition balancers (property C13).
//
// Generates cases from one PRNG, runs the real balancers of /repo on them and
// prints one line per case:   <id> <op> <args...> | <go result> | <features>
// The OCaml driver evaluates the extracted Coq model on "<id> <op> <args...>".
package main

import (
	"bufio"
	"context"
	"flag"
	"fmt"
	"hash/crc32"
	"hash/fnv"
	"math/rand"
	"net"
	"os"
	"runtime"
	"sort"
	"strings"
	"sync"
	"sync/atomic"
	"time"

	kafka "github.com/segmentio/kafka-go"
	"github.com/segmentio/kafka-go/protocol"
	"github.com/segmentio/kafka-go/protocol/metadata"
	"github.com/segmentio/kafka-go/protocol/produce"
	"kverif/kvfmt"
)

var out *bufio.Writer
var id int

func emit(op string, args string, res string, feats string) {
	id++
	fmt.Fprintf(out, "%d %s %s | %s | %s\n", id, op, args, res, feats)
}

func genKey(r *rand.Rand) []byte {
	switch r.Intn(20) {
	case 0:
		return nil
	case 1:
		return []byte{}
	}
	var n int
	switch r.Intn(4) {
	case 0:
		n = r.Intn(8)
	case 1:
		n = r.Intn(68)
	case 2:
		n = 1 + r.Intn(16)
	default:
		n = r.Intn(300)
	}
	k := make([]byte, n)
	switch r.Intn(4) {
	case 0: // ascii
		for i := range k {
			k[i] = byte('a' + r.Intn(26))
		}
	case 1: // high-bit heavy
		for i := range k {
			k[i] = byte(0x80 | r.Intn(128))
		}
	case 2: // 0x00/0xff
		for i := range k {
			if r.Intn(2) == 0 {
				k[i] = 0xff
			}
		}
	default:
		r.Read(k)
	}
	return k
}

func keyFeat(k []byte) string {
	if k == nil {
		return "nil"
	}
	if len(k) == 0 {
		return "empty"
	}
	hb := "lo"
	for _, b := range k {
		if b >= 0x80 {
			hb = "hi"
			break
		}
	}
	return fmt.Sprintf("len%%4=%d,%s", len(k)%4, hb)
}

func genN(r *rand.Rand) int {
	switch r.Intn(10) {
	case 0:
		return 1
	case 1:
		return 2
	case 2:
		return 3
	case 3: // powers of two +-1
		p := 1 << uint(1+r.Intn(16))
		return p + r.Intn(3) - 1
	case 4:
		return 1 + r.Intn(100000)
	default:
		return 1 + r.Intn(64)
	}
}

func nFeat(n int) string {
	switch {
	case n == 1:
		return "n=1"
	case n&(n-1) == 0:
		return "n=pow2"
	case n < 64:
		return "n<64"
	default:
		return "n-large"
	}
}

var (
	offeredCache = map[int][]int{}
	offeredMu    sync.Mutex // offered is called from the concurrent families too
)

func offered(n int) []int {
	offeredMu.Lock()
	defer offeredMu.Unlock()
	if p, ok := offeredCache[n]; ok {
		return p
	}
	p := make([]int, n)
	for i := range p {
		p[i] = i
	}
	if n <= 4096 {
		offeredCache[n] = p
	}
	return p
}

func genParts(r *rand.Rand) []int {
	n := 1 + r.Intn(12)
	switch r.Intn(3) {
	case 0:
		return offered(n)
	case 1: // permutation of 0..n-1
		p := r.Perm(n)
		return p
	default: // arbitrary ids, distinct
		p := make([]int, n)
		seen := map[int]bool{}
		for i := range p {
			for {
				v := r.Intn(1000) - 10
				if !seen[v] {
					seen[v] = true
					p[i] = v
					break
				}
			}
		}
		return p
	}
}

func inList(x int, l []int) bool {
	for _, v := range l {
		if v == x {
			return true
		}
	}
	return false
}

// hashConc: the key-hashing balancers with their DEFAULT (pooled / stateless) hashers shared by
// many goroutines, as a Writer used from several goroutines does: the partition of a key is a
// pure function of key and partition count, so every concurrent call must return what the
// same call returned sequentially (and that value is compared with the model for the short
// keys).  More goroutines than Ps, short and long keys.  A wrong result needs one call to be
// interrupted between Reset, Write and Sum32 while another caller holds the same hasher, which
// is rare; the same family therefore also runs in a binary built with the race detector
// (checks/c13.py), where two callers sharing a hasher are reported whatever the timing.
func hashConc(r *rand.Rand, scale float64) {
	const nparts = 1021
	ps := offered(nparts)
	sizes := []int{0, 3, 24, 100, 4 << 10, 64 << 10, 1 << 20}
	keys := make([][]byte, len(sizes))
	for i, n := range sizes {
		k := make([]byte, n)
		for j := range k {
			k[j] = byte(r.Intn(256))
		}
		keys[i] = k
	}
	type bal struct {
		name   string
		b      kafka.Balancer
		budget time.Duration
	}
	bals := []bal{
		{"hash", &kafka.Hash{}, 1200 * time.Millisecond},
		{"ref", &kafka.ReferenceHash{}, 1200 * time.Millisecond},
		// a caller-supplied Hasher is shared by design and must be used under the balancer's lock
		// from Reset to Sum32 (in the race-detector build an early unlock is reported at once)
		{"hashu", &kafka.Hash{Hasher: fnv.New32a()}, 400 * time.Millisecond},
		{"refu", &kafka.ReferenceHash{Hasher: fnv.New32a()}, 400 * time.Millisecond},
		{"crc", kafka.CRC32Balancer{}, 300 * time.Millisecond},
		{"crcc", kafka.CRC32Balancer{Consistent: true}, 300 * time.Millisecond},
		{"mur", kafka.Murmur2Balancer{}, 300 * time.Millisecond},
		{"murc", kafka.Murmur2Balancer{Consistent: true}, 300 * time.Millisecond},
	}
	procs := runtime.GOMAXPROCS(0)
	for _, bl := range bals {
		want := make([]int, len(keys))
		for i, k := range keys {
			if len(k) == 0 && bl.name != "crcc" && bl.name != "murc" {
				// empty key: Hash / ReferenceHash fall back to round-robin, the non-consistent
				// crc32 / murmur2 balancers pick at random — only the range is checked
				want[i] = -1
				continue
			}
			want[i] = bl.b.Balance(kafka.Message{Key: k}, ps...)
		}
		const g = 48
		var wg sync.WaitGroup
		var calls int64
		var mu sync.Mutex
		first := ""
		deadline := time.Now().Add(time.Duration(float64(bl.budget) * scale))
		for t := 0; t < g; t++ {
			wg.Add(1)
			go func(t int) {
				defer wg.Done()
				for c := 0; time.Now().Before(deadline); c++ {
					i := (t + c) % len(keys)
					got := bl.b.Balance(kafka.Message{Key: keys[i]}, ps...)
					atomic.AddInt64(&calls, 1)
					if (want[i] >= 0 && got != want[i]) || got < 0 || got >= nparts {
						mu.Lock()
						if first == "" {
							first = fmt.Sprintf("DIFF:keylen=%x:got=%x:sequential=%x", len(keys[i]), got, want[i])
						}
						mu.Unlock()
						return
					}
				}
			}(t)
		}
		wg.Wait()
		res := "ok"
		if first != "" {
			res = first
		}
		emit("hashconc", fmt.Sprintf("%s %x %x", bl.name, nparts, g), res, fmt.Sprintf("default-hasher,concurrent,g=%d,calls>=%d", g, calls/1000*1000))
	}
	runtime.GOMAXPROCS(procs)
}

// wrt: the balancers as the Writer calls them.  A RoundTripper answers Metadata (topic "t", n
// partitions led by broker 1) and Produce, and records the partition of every produce request;
// a Writer WITHOUT a Balancer (the default round-robin), or with RoundRobin{ChunkSize}, writes
// messages over several WriteMessages calls; the partitions the messages reached, in order of
// the calls, must be the model's round-robin sequence over 0..n-1 — across calls, not only
// within one call.
type wrtRT struct {
	mu     sync.Mutex
	n      int
	topics map[string]int // multi-topic variant: partition count per topic
	parts  []int
	recs   []string // "topic/partition:value" per produced record (multi-topic variant)
}

func (f *wrtRT) RoundTrip(ctx context.Context, addr net.Addr, req protocol.Message) (protocol.Message, error) {
	switch r := req.(type) {
	case *metadata.Request:
		mk := func(n int) []metadata.ResponsePartition {
			ps := make([]metadata.ResponsePartition, n)
			for i := range ps {
				ps[i] = metadata.ResponsePartition{PartitionIndex: int32(i), LeaderID: 1, ReplicaNodes: []int32{1}, IsrNodes: []int32{1}}
			}
			return ps
		}
		res := &metadata.Response{
			Brokers:      []metadata.ResponseBroker{{NodeID: 1, Host: "broker.test", Port: 9092}},
			ControllerID: 1,
		}
		if f.topics != nil {
			var names []string
			for name := range f.topics {
				names = append(names, name)
			}
			sort.Strings(names)
			for _, name := range names {
				res.Topics = append(res.Topics, metadata.ResponseTopic{Name: name, Partitions: mk(f.topics[name])})
			}
		} else {
			res.Topics = []metadata.ResponseTopic{{Name: "t", Partitions: mk(f.n)}}
		}
		return res, nil
	case *produce.Request:
		res := &produce.Response{}
		f.mu.Lock()
		for _, t := range r.Topics {
			rt := produce.ResponseTopic{Topic: t.Topic}
			for _, p := range t.Partitions {
				n := 0
				if p.RecordSet.Records != nil {
					for {
						rec, err := p.RecordSet.Records.ReadRecord()
						if err != nil {
							break
						}
						if rec.Key != nil {
							rec.Key.Close()
						}
						if rec.Value != nil {
							if f.topics != nil {
								b, _ := protocol.ReadAll(rec.Value)
								f.recs = append(f.recs, fmt.Sprintf("%s/%d:%s", t.Topic, p.Partition, string(b)))
							}
							rec.Value.Close()
						}
						n++
					}
				}
				for i := 0; i < n; i++ {
					f.parts = append(f.parts, int(p.Partition))
				}
				rt.Partitions = append(rt.Partitions, produce.ResponsePartition{Partition: p.Partition})
			}
			res.Topics = append(res.Topics, rt)
		}
		f.mu.Unlock()
		return res, nil
	}
	return nil, fmt.Errorf("wrt: unexpected request %T", req)
}

func writerCases(r *rand.Rand, count int) {
	for i := 0; i < count; i++ {
		n := 1 + r.Intn(6)
		chunk := 0
		if r.Intn(2) == 0 {
			chunk = 1 + r.Intn(3)
		}
		rt := &wrtRT{n: n}
		w := &kafka.Writer{Addr: kafka.TCP("broker.test:9092"), Topic: "t", Transport: rt, BatchSize: 1, BatchTimeout: time.Millisecond, MaxAttempts: 1}
		if chunk > 0 {
			w.Balancer = &kafka.RoundRobin{ChunkSize: chunk}
		}
		calls := 2 + r.Intn(6)
		total := 0
		res := "ok"
		var sizes []string
		for c := 0; c < calls; c++ {
			k := 1
			if r.Intn(3) == 0 {
				k = 1 + r.Intn(3)
			}
			msgs := make([]kafka.Message, k)
			for j := range msgs {
				msgs[j] = kafka.Message{Value: []byte{byte(total + j)}}
			}
			ctx, cancel := context.WithTimeout(context.Background(), 5*time.Second)
			err := w.WriteMessages(ctx, msgs...)
			cancel()
			if err != nil {
				res = "ERR:" + strings.ReplaceAll(err.Error(), " ", "_")
				break
			}
			total += k
			sizes = append(sizes, fmt.Sprintf("%x", k))
		}
		w.Close()
		rt.mu.Lock()
		got := append([]int(nil), rt.parts...)
		rt.mu.Unlock()
		if res == "ok" {
			// BatchSize 1 and synchronous calls: requests arrive in message order, except that the
			// messages of ONE call that go to different partitions are produced concurrently —
			// compare per call as multisets, across calls in order
			var toks []string
			pos := 0
			for _, sz := range sizes {
				var k int
				fmt.Sscanf(sz, "%x", &k)
				seg := append([]int(nil), got[pos:min(pos+k, len(got))]...)
				sort.Ints(seg)
				toks = append(toks, kvfmt.Ints(seg))
				pos += k
			}
			res = strings.Join(toks, ";")
		}
		cfg := "default"
		if chunk > 0 {
			cfg = fmt.Sprintf("%x", chunk)
		}
		emit("wrt", fmt.Sprintf("%s %x %s", cfg, n, strings.Join(sizes, ",")), res, fmt.Sprintf("writer,calls=%d,%s", calls, map[bool]string{true: "default-balancer", false: "roundrobin-chunk"}[chunk == 0]))
	}
}

// wrtm: a Writer without a Topic whose messages carry their own topic, topics with DIFFERENT
// partition counts interleaved in one WriteMessages call (A, B, A ...).  A recording
// BalancerFunc around CRC32Balancer{Consistent} notes the partition list it is offered for
// every message; the list must be 0..n-1 of the MESSAGE's topic, and the record must reach the
// partition the balancer returns for that list.
func writerMultiTopicCases(r *rand.Rand, count int) {
	for i := 0; i < count; i++ {
		topics := map[string]int{"alpha": 1 + r.Intn(8), "beta": 1 + r.Intn(8), "gamma": 1 + r.Intn(8)}
		names := []string{"alpha", "beta", "gamma"}
		rt := &wrtRT{topics: topics}
		var mu sync.Mutex
		bad := ""
		inner := kafka.CRC32Balancer{Consistent: true}
		want := map[string]string{} // value -> "topic/partition"
		bal := kafka.BalancerFunc(func(msg kafka.Message, partitions ...int) int {
			n := topics[msg.Topic]
			ok := len(partitions) == n
			for j := 0; ok && j < n; j++ {
				ok = partitions[j] == j
			}
			p := inner.Balance(msg, partitions...)
			mu.Lock()
			if !ok && bad == "" {
				bad = fmt.Sprintf("OFFERED:%s:%x:%s", msg.Topic, n, kvfmt.Ints(partitions))
			}
			exp := inner.Balance(msg, offered(n)...)
			want[string(msg.Value)] = fmt.Sprintf("%s/%d", msg.Topic, exp)
			mu.Unlock()
			return p
		})
		w := &kafka.Writer{Addr: kafka.TCP("broker.test:9092"), Transport: rt, Balancer: bal, BatchTimeout: time.Millisecond, MaxAttempts: 1}
		calls := 1 + r.Intn(3)
		total := 0
		var pattern []string
		for c := 0; c < calls && bad == ""; c++ {
			k := 2 + r.Intn(7)
			msgs := make([]kafka.Message, k)
			for j := range msgs {
				tname := names[r.Intn(3)]
				if j == 2 { // A, B, A at the head of every call
					tname = msgs[0].Topic
				} else if j == 1 {
					for tname == msgs[0].Topic {
						tname = names[r.Intn(3)]
					}
				}
				msgs[j] = kafka.Message{Topic: tname, Key: []byte(fmt.Sprintf("key-%d-%d", i, total+j)), Value: []byte(fmt.Sprintf("v%d", total+j))}
				pattern = append(pattern, tname[:1])
			}
			ctx, cancel := context.WithTimeout(context.Background(), 5*time.Second)
			err := w.WriteMessages(ctx, msgs...)
			cancel()
			if err != nil {
				bad = "ERR:" + strings.ReplaceAll(err.Error(), " ", "_")
			}
			total += k
		}
		w.Close()
		res := "ok"
		if bad != "" {
			res = bad
		} else {
			rt.mu.Lock()
			got := map[string]string{}
			for _, rec := range rt.recs {
				tp, v, _ := strings.Cut(rec, ":")
				got[v] = tp
			}
			rt.mu.Unlock()
			for v, tp := range want {
				if got[v] != tp {
					res = fmt.Sprintf("PRODUCED:%s:%s:expected:%s", v, got[v], tp)
					break
				}
			}
			if res == "ok" && len(got) != total {
				res = fmt.Sprintf("COUNT:%x:%x", len(got), total)
			}
		}
		emit("wrtm", fmt.Sprintf("%x,%x,%x %s", topics["alpha"], topics["beta"], topics["gamma"], strings.Join(pattern, "")), res, fmt.Sprintf("writer,multi-topic,calls=%d", calls))
	}
}

func min(a, b int) int {
	if a < b {
		return a
	}
	return b
}

func main() {
	seed := flag.Int64("seed", 1, "PRNG seed")
	count := flag.Int("n", 2000, "number of cases per family")
	conc := flag.Bool("conc", true, "also run concurrent histories")
	only := flag.String("only", "", "hashconc: run only the concurrent default-hasher family (used by the race-detector build)")
	flag.Parse()
	r := rand.New(rand.NewSource(*seed))
	out = bufio.NewWriterSize(os.Stdout, 1<<20)
	defer out.Flush()
	if *only == "hashconc" {
		hashConc(r, 0.25)
		return
	}

	// keys whose hash code is a boundary value (sign bit, all ones, zero), against every
	// balancer that interprets the hash, for partition counts that are and are not powers of two
	for _, target := range boundaryHashes {
		var keys [][]byte
		for _, k := range fnvPreimages(target, 3) {
			h := fnv.New32a()
			h.Write(k)
			if h.Sum32() != target {
				panic("fnv preimage search is wrong")
			}
			keys = append(keys, k)
		}
		if k := murmur2Preimage(target); kafka.VerifMurmur2(k) == target {
			keys = append(keys, k)
		} else {
			panic("murmur2 preimage is wrong")
		}
		if k := crcPreimage(target); k != nil && crc32.ChecksumIEEE(k) == target {
			keys = append(keys, k)
		} else {
			panic("crc preimage is wrong")
		}
		for _, k := range keys {
			feat := fmt.Sprintf("boundary-hash=%x", target)
			hh := fnv.New32a()
			hh.Write(k)
			emit("fnv", kvfmt.Bytes(k), kvfmt.U(uint64(hh.Sum32())), feat)
			emit("crc", kvfmt.Bytes(k), kvfmt.U(uint64(crc32.ChecksumIEEE(k))), feat)
			emit("mm", kvfmt.Bytes(k), kvfmt.U(uint64(kafka.VerifMurmur2(k))), feat)
			for _, n := range []int{1, 2, 3, 5, 6, 7, 12, 64, 100, 1000, 65535, 65537} {
				h := &kafka.Hash{}
				p := h.Balance(kafka.Message{Key: k}, offered(n)...)
				emit("hashseq", fmt.Sprintf("%x:%s", n, kvfmt.OptBytes(k)), kvfmt.I(int64(p)), feat+","+nFeat(n))
				rh := &kafka.ReferenceHash{}
				p = rh.Balance(kafka.Message{Key: k}, offered(n)...)
				emit("ref", fmt.Sprintf("%x %s", n, kvfmt.OptBytes(k)), kvfmt.I(int64(p)), feat+","+nFeat(n))
				if n <= 1000 {
					ps := offered(n)
					p = kafka.CRC32Balancer{Consistent: true}.Balance(kafka.Message{Key: k}, ps...)
					emit("crcb", fmt.Sprintf("1 %s %s", kvfmt.Ints(ps), kvfmt.OptBytes(k)), kvfmt.I(int64(p)), feat+",cons=true")
					p = kafka.Murmur2Balancer{Consistent: true}.Balance(kafka.Message{Key: k}, ps...)
					emit("mmb", fmt.Sprintf("1 %s %s", kvfmt.Ints(ps), kvfmt.OptBytes(k)), kvfmt.I(int64(p)), feat+",cons=true")
				}
			}
		}
	}
	// raw hashes
	for i := 0; i < *count; i++ {
		k := genKey(r)
		h := fnv.New32a()
		h.Write(k)
		emit("fnv", kvfmt.Bytes(k), kvfmt.U(uint64(h.Sum32())), keyFeat(k))
		emit("crc", kvfmt.Bytes(k), kvfmt.U(uint64(crc32.ChecksumIEEE(k))), keyFeat(k))
		emit("mm", kvfmt.Bytes(k), kvfmt.U(uint64(kafka.VerifMurmur2(k))), keyFeat(k))
	}
	// Hash: sequences (nil keys go to the embedded RoundRobin, so state matters)
	for i := 0; i < *count/4; i++ {
		h := &kafka.Hash{}
		var args, res []string
		feat := map[string]bool{}
		steps := 1 + r.Intn(8)
		for s := 0; s < steps; s++ {
			k := genKey(r)
			if r.Intn(4) == 0 {
				k = nil
			}
			n := genN(r)
			p := h.Balance(kafka.Message{Key: k}, offered(n)...)
			args = append(args, fmt.Sprintf("%x:%s", n, kvfmt.OptBytes(k)))
			res = append(res, kvfmt.I(int64(p)))
			feat[keyFeat(k)] = true
			feat[nFeat(n)] = true
		}
		emit("hashseq", strings.Join(args, " "), strings.Join(res, ","), kvfmt.Set(feat))
	}
	// Hash and ReferenceHash with a caller-supplied Hasher (the same FNV-1a function, so the
	// reference results apply): one instance used for a whole sequence of keyed messages, then
	// by several goroutines at once — the result must stay a function of the key alone.
	for i := 0; i < *count/8+2; i++ {
		hh := &kafka.Hash{Hasher: fnv.New32a()}
		rh := &kafka.ReferenceHash{Hasher: fnv.New32a()}
		var args, res []string
		feat := map[string]bool{"custom-hasher": true}
		steps := 2 + r.Intn(7)
		for s := 0; s < steps; s++ {
			k := genKey(r)
			if k == nil {
				k = []byte{}
			}
			n := genN(r)
			p := hh.Balance(kafka.Message{Key: k}, offered(n)...)
			args = append(args, fmt.Sprintf("%x:%s", n, kvfmt.OptBytes(k)))
			res = append(res, kvfmt.I(int64(p)))
			feat[keyFeat(k)] = true
			feat[nFeat(n)] = true
			k2 := genKey(r)
			if k2 == nil {
				k2 = []byte{}
			}
			n2 := genN(r)
			p2 := rh.Balance(kafka.Message{Key: k2}, offered(n2)...)
			emit("ref", fmt.Sprintf("%x %s", n2, kvfmt.OptBytes(k2)), kvfmt.I(int64(p2)), keyFeat(k2)+","+nFeat(n2)+fmt.Sprintf(",custom-hasher,call=%d", s))
		}
		emit("hashseq", strings.Join(args, " "), strings.Join(res, ","), kvfmt.Set(feat))
	}
	for round := 0; round < 3; round++ {
		hh := &kafka.Hash{Hasher: fnv.New32a()}
		rh := &kafka.ReferenceHash{Hasher: fnv.New32a()}
		const g, per = 8, 40
		type one struct {
			n    int
			k    []byte
			p, q int
		}
		work := make([][]one, g)
		for t := 0; t < g; t++ {
			for c := 0; c < per; c++ {
				k := genKey(r)
				if k == nil {
					k = []byte{}
				}
				work[t] = append(work[t], one{n: genN(r), k: k})
			}
		}
		var wg sync.WaitGroup
		for t := 0; t < g; t++ {
			wg.Add(1)
			go func(t int) {
				defer wg.Done()
				for c := range work[t] {
					w := &work[t][c]
					w.p = hh.Balance(kafka.Message{Key: w.k}, offered(w.n)...)
					w.q = rh.Balance(kafka.Message{Key: w.k}, offered(w.n)...)
				}
			}(t)
		}
		wg.Wait()
		for t := 0; t < g; t++ {
			for _, w := range work[t] {
				emit("hashseq", fmt.Sprintf("%x:%s", w.n, kvfmt.OptBytes(w.k)), kvfmt.I(int64(w.p)), keyFeat(w.k)+","+nFeat(w.n)+",custom-hasher,concurrent")
				emit("ref", fmt.Sprintf("%x %s", w.n, kvfmt.OptBytes(w.k)), kvfmt.I(int64(w.q)), keyFeat(w.k)+","+nFeat(w.n)+",custom-hasher,concurrent")
			}
		}
	}
	// ReferenceHash
	for i := 0; i < *count; i++ {
		k := genKey(r)
		n := genN(r)
		h := &kafka.ReferenceHash{}
		p := h.Balance(kafka.Message{Key: k}, offered(n)...)
		res := kvfmt.I(int64(p))
		if k == nil {
			if p >= 0 && p < n {
				res = "Rin"
			} else {
				res = "Rout"
			}
		}
		emit("ref", fmt.Sprintf("%x %s", n, kvfmt.OptBytes(k)), res, keyFeat(k)+","+nFeat(n))
	}
	// CRC32Balancer, Murmur2Balancer on arbitrary partition lists
	for i := 0; i < *count; i++ {
		k := genKey(r)
		ps := genParts(r)
		cons := r.Intn(2) == 1
		p := kafka.CRC32Balancer{Consistent: cons}.Balance(kafka.Message{Key: k}, ps...)
		res := kvfmt.I(int64(p))
		if len(k) == 0 && !cons {
			if inList(p, ps) {
				res = "Rin"
			} else {
				res = "Rout"
			}
		}
		emit("crcb", fmt.Sprintf("%s %s %s", kvfmt.Bool(cons), kvfmt.Ints(ps), kvfmt.OptBytes(k)), res, keyFeat(k)+fmt.Sprintf(",cons=%v", cons))
		k = genKey(r)
		ps = genParts(r)
		cons = r.Intn(2) == 1
		p = kafka.Murmur2Balancer{Consistent: cons}.Balance(kafka.Message{Key: k}, ps...)
		res = kvfmt.I(int64(p))
		if k == nil && !cons {
			if inList(p, ps) {
				res = "Rin"
			} else {
				res = "Rout"
			}
		}
		emit("mmb", fmt.Sprintf("%s %s %s", kvfmt.Bool(cons), kvfmt.Ints(ps), kvfmt.OptBytes(k)), res, keyFeat(k)+fmt.Sprintf(",cons=%v", cons))
	}
	// RoundRobin sequences, counter optionally preset near the uint32 wrap
	for i := 0; i < *count/4; i++ {
		chunk := 0
		switch r.Intn(5) {
		case 0:
			chunk = -r.Intn(3)
		case 1:
			chunk = 1
		default:
			chunk = 1 + r.Intn(6)
		}
		rr := &kafka.RoundRobin{ChunkSize: chunk}
		preset := uint64(0)
		pf := "fresh"
		switch r.Intn(5) {
		case 0:
			preset = uint64(r.Intn(1000))
			pf = "preset-small"
		case 1: // crossing 2^32 (the former uint32 wrap)
			preset = uint64(^uint32(0)) - uint64(r.Intn(20))
			pf = "preset-cross-2^32"
		case 2: // crossing 2^63 (sign bit of an int conversion)
			preset = uint64(1)<<63 - uint64(r.Intn(20))
			pf = "preset-cross-2^63"
		}
		if pf != "fresh" {
			rr.VerifSetCounter(preset)
		}
		steps := 1 + r.Intn(40)
		fixed := genParts(r)
		var args, res []string
		for s := 0; s < steps; s++ {
			ps := fixed
			if r.Intn(10) == 0 {
				ps = genParts(r)
			}
			p := rr.Balance(kafka.Message{}, ps...)
			args = append(args, kvfmt.Ints(ps))
			res = append(res, kvfmt.I(int64(p)))
		}
		res = append(res, kvfmt.U(uint64(rr.VerifCounter())))
		emit("rr", fmt.Sprintf("%s %x %s", kvfmt.I(int64(chunk)), preset, strings.Join(args, " ")), strings.Join(res, ","),
			fmt.Sprintf("chunk=%d,%s", chunk, pf))
	}
	// LeastBytes sequences
	for i := 0; i < *count/4; i++ {
		lb := &kafka.LeastBytes{}
		steps := 1 + r.Intn(40)
		fixed := genParts(r)
		var args, res []string
		changes := 0
		for s := 0; s < steps; s++ {
			ps := fixed
			if r.Intn(12) == 0 {
				fixed = genParts(r)
				ps = fixed
				changes++
			}
			a, b := r.Intn(50), r.Intn(50)
			if r.Intn(5) == 0 {
				a, b = 0, 0
			}
			p := lb.Balance(kafka.Message{Key: make([]byte, a), Value: make([]byte, b)}, ps...)
			args = append(args, fmt.Sprintf("%s:%x", kvfmt.Ints(ps), a+b))
			res = append(res, kvfmt.I(int64(p)))
		}
		emit("lb", strings.Join(args, " "), strings.Join(res, ","), fmt.Sprintf("changes=%d", changes))
	}
	if !*conc {
		return
	}
	// Concurrent use: G goroutines call Balance; RoundRobin results must form the
	// multiset the sequential model produces for the same number of calls, and
	// LeastBytes with equal sizes must spread within one message of even.
	for i := 0; i < 20; i++ {
		g := 2 + r.Intn(7)
		per := 50 + r.Intn(200)
		n := 1 + r.Intn(9)
		chunk := 1 + r.Intn(4)
		rr := &kafka.RoundRobin{ChunkSize: chunk}
		lb := &kafka.LeastBytes{}
		var wg sync.WaitGroup
		resRR := make([][]int, g)
		resLB := make([][]int, g)
		for t := 0; t < g; t++ {
			wg.Add(1)
			go func(t int) {
				defer wg.Done()
				for c := 0; c < per; c++ {
					resRR[t] = append(resRR[t], rr.Balance(kafka.Message{}, offered(n)...))
					resLB[t] = append(resLB[t], lb.Balance(kafka.Message{Value: make([]byte, 10)}, offered(n)...))
				}
			}(t)
		}
		wg.Wait()
		cntRR := make([]int, n)
		cntLB := make([]int, n)
		for t := 0; t < g; t++ {
			for _, p := range resRR[t] {
				cntRR[p]++
			}
			for _, p := range resLB[t] {
				cntLB[p]++
			}
		}
		emit("rrconc", fmt.Sprintf("%x %x %x", chunk, n, g*per), kvfmt.Ints(cntRR), fmt.Sprintf("g=%d", g))
		sort.Ints(cntLB) // which partitions carry the remainder depends on the interleaving
		emit("lbconc", fmt.Sprintf("%x %x %x", 10, n, g*per), kvfmt.Ints(cntLB), fmt.Sprintf("g=%d", g))
	}
	hashConc(r, 1)
	writerCases(r, 24)
	writerMultiTopicCases(r, 16)
	// The list the Writer offers to its balancer (writer.go loadCachedPartitions): it must be
	// 0..n-1 for every caller, also while another caller grows the process-wide cache.  The
	// counts grow from call to call so that every round contains growth events.
	{
		const g = 8
		base := 1
		for round := 0; round < *count/100+6; round++ {
			var wg sync.WaitGroup
			bad := make([]string, g)
			ns := make([]int, g)
			for t := 0; t < g; t++ {
				ns[t] = base + t*37 + r.Intn(300)
			}
			start := make(chan struct{})
			for t := 0; t < g; t++ {
				wg.Add(1)
				go func(t int) {
					defer wg.Done()
					<-start
					l := kafka.VerifLoadCachedPartitions(ns[t])
					if len(l) != ns[t] {
						bad[t] = fmt.Sprintf("LEN:%x:%x", ns[t], len(l))
						return
					}
					for i, v := range l {
						if v != i {
							bad[t] = fmt.Sprintf("BAD:%x:%x:%x", ns[t], i, v)
							return
						}
					}
				}(t)
			}
			close(start)
			wg.Wait()
			res := "ok"
			for t := 0; t < g; t++ {
				if bad[t] != "" {
					res = bad[t]
					break
				}
			}
			emit("parts", fmt.Sprintf("%x %x", base, g), res, fmt.Sprintf("growth,g=%d", g))
			base += 900 + r.Intn(4000)
			if round%3 == 2 {
				base *= 2
			}
			if base > 3000000 {
				base = 3000000 + round
			}
		}
	}
}
