package main

// Keys whose hash hits a boundary value.  The balancers reinterpret the 32-bit hash as a
// signed int32 (Hash, ReferenceHash) or mask its sign bit (Murmur2Balancer); slips there show
// only for hash codes such as 0x80000000 (MinInt32), which a random key hits with
// probability 2^-32 — so such keys are constructed.

import (
	"encoding/binary"
	"hash/crc32"
)

var boundaryHashes = []uint32{0x80000000, 0x80000001, 0x7fffffff, 0, 1, 0xffffffff, 0xfffffffe}

// fnvPreimages returns up to max keys (5 bytes: 2 forward + 3 backward, meet in the middle)
// whose FNV-1a 32 hash equals target.
func fnvPreimages(target uint32, max int) [][]byte {
	var prime uint32 = 16777619
	var offset uint32 = 2166136261
	// modular inverse of the prime mod 2^32 (Newton iteration)
	inv := prime
	for i := 0; i < 5; i++ {
		inv *= 2 - prime*inv
	}
	fwd := make(map[uint32][2]byte, 1<<16)
	for a := 0; a < 256; a++ {
		for b := 0; b < 256; b++ {
			h := offset
			h = (h ^ uint32(a)) * prime
			h = (h ^ uint32(b)) * prime
			fwd[h] = [2]byte{byte(a), byte(b)}
		}
	}
	var out [][]byte
	for c := 0; c < 256 && len(out) < max; c++ {
		for d := 0; d < 256 && len(out) < max; d++ {
			for e := 0; e < 256; e++ {
				// undo the last three steps: h_prev = (h * inv) ^ byte
				h := target
				h = (h * inv) ^ uint32(e)
				h = (h * inv) ^ uint32(d)
				h = (h * inv) ^ uint32(c)
				if p, ok := fwd[h]; ok {
					out = append(out, []byte{p[0], p[1], byte(c), byte(d), byte(e)})
					if len(out) >= max {
						break
					}
				}
			}
		}
	}
	return out
}

func unxorshift(x uint32, s uint) uint32 {
	y := x
	for i := 0; i < 32; i += int(s) {
		y = x ^ (y >> s)
	}
	return y
}

// murmur2Preimage returns the 4-byte key whose murmur2 hash (seed 0x9747b28c) equals target.
func murmur2Preimage(target uint32) []byte {
	var seed uint32 = 0x9747b28c
	var m uint32 = 0x5bd1e995
	minv := m
	for i := 0; i < 5; i++ {
		minv *= 2 - m*minv
	}
	h := unxorshift(target, 15)
	h *= minv
	h = unxorshift(h, 13)
	h0 := (seed ^ 4) * m
	k := h ^ h0
	k *= minv
	k = unxorshift(k, 24)
	k *= minv
	b := make([]byte, 4)
	binary.LittleEndian.PutUint32(b, k)
	return b
}

// crcPreimage returns the 4-byte key whose CRC-32 (IEEE) equals target: over 4-byte messages
// the CRC is an affine bijection of GF(2)^32, solved by Gaussian elimination.
func crcPreimage(target uint32) []byte {
	f := func(x uint32) uint32 {
		var b [4]byte
		binary.LittleEndian.PutUint32(b[:], x)
		return crc32.ChecksumIEEE(b[:])
	}
	c := f(0)
	var rows [32]uint64 // bit i of the result: coefficients (low 32) | rhs (bit 32)
	var col [32]uint32
	for j := 0; j < 32; j++ {
		col[j] = f(1<<uint(j)) ^ c
	}
	rhs := target ^ c
	for i := 0; i < 32; i++ {
		var r uint64
		for j := 0; j < 32; j++ {
			if col[j]>>uint(i)&1 == 1 {
				r |= 1 << uint(j)
			}
		}
		if rhs>>uint(i)&1 == 1 {
			r |= 1 << 32
		}
		rows[i] = r
	}
	// eliminate
	var x uint32
	piv := [32]int{}
	used := [32]bool{}
	for j := 0; j < 32; j++ {
		p := -1
		for i := 0; i < 32; i++ {
			if !used[i] && rows[i]>>uint(j)&1 == 1 {
				p = i
				break
			}
		}
		if p < 0 {
			return nil
		}
		used[p] = true
		piv[j] = p
		for i := 0; i < 32; i++ {
			if i != p && rows[i]>>uint(j)&1 == 1 {
				rows[i] ^= rows[p]
			}
		}
	}
	for j := 0; j < 32; j++ {
		if rows[piv[j]]>>32&1 == 1 {
			x |= 1 << uint(j)
		}
	}
	b := make([]byte, 4)
	binary.LittleEndian.PutUint32(b, x)
	return b
}
