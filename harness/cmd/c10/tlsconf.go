package main

import (
	"context"
	"crypto/tls"
	"errors"
	"fmt"
	"math/rand"
	"net"
	"runtime"
	"strings"
	"sync"
	"time"

	kafka "github.com/segmentio/kafka-go"
	"github.com/segmentio/kafka-go/protocol"
	"github.com/segmentio/kafka-go/protocol/apiversions"
	"github.com/segmentio/kafka-go/protocol/metadata"
	"github.com/segmentio/kafka-go/protocol/produce"
)

func init() {
	register("transporttls", genTransportTLS)
	register("dialertls", genDialerTLS)
	register("conncompress", genConnCompress)
}

// ---------------------------------------------------------------- TLS configuration
//
// Transport.TLS / Dialer.TLS with an EMPTY ServerName: the library has to present the
// broker's host name as SNI on every connection, and the *tls.Config belongs to the
// caller: it is shared by every connection being established and must not be written.
// The peer is a TLS server that records the ClientHello's server name and aborts the
// handshake (no certificates needed).  Predicates: the SNI presented to address X is X's
// host; the caller's configuration is unchanged afterwards.

type sniLog struct {
	mu   sync.Mutex
	seen []string // "address sni"
}

func (l *sniLog) add(address, sni string) {
	l.mu.Lock()
	l.seen = append(l.seen, address+" "+sni)
	l.mu.Unlock()
}

// check returns the tags / prints MISMATCH lines for the recorded handshakes.
func (l *sniLog) check(cfg *tls.Config, what string) []string {
	l.mu.Lock()
	defer l.mu.Unlock()
	for _, s := range l.seen {
		parts := strings.SplitN(s, " ", 2)
		host, _, _ := net.SplitHostPort(parts[0])
		if parts[1] != host {
			printf("MISMATCH %s: SNI %q presented to %s\n", what, parts[1], parts[0])
		}
	}
	if cfg.ServerName != "" {
		printf("MISMATCH %s: the caller's tls.Config was modified (ServerName = %q)\n", what, cfg.ServerName)
	}
	return []string{fmt.Sprintf("handshakes=%d", len(l.seen)/4*4)}
}

func (l *sniLog) dial(ctx context.Context, network, address string) (net.Conn, error) {
	cli, srv := net.Pipe()
	go func() {
		defer srv.Close()
		s := tls.Server(srv, &tls.Config{GetConfigForClient: func(h *tls.ClientHelloInfo) (*tls.Config, error) {
			l.add(address, h.ServerName)
			return nil, errors.New("c10: handshake aborted after the ClientHello")
		}})
		s.SetDeadline(time.Now().Add(2 * time.Second))
		s.Handshake()
	}()
	return cli, nil
}

func genTransportTLS(r *rand.Rand, fc focus) *program {
	g := 2 + r.Intn(3)
	cfg := &tls.Config{MinVersion: tls.VersionTLS12}
	log := &sniLog{}
	var tr *kafka.Transport
	var gate sync.WaitGroup
	gate.Add(g)
	base := r.Intn(1000)
	var threads [][]op
	for i := 0; i < g; i++ {
		addr := kafka.TCP(fmt.Sprintf("broker%d-%d.example:9092", base, i))
		first := true
		var th []op
		for k, n := 0, 1+r.Intn(2); k < n; k++ {
			wait := first
			first = false
			th = append(th, op{"Transport.RoundTrip", func() {
				if wait {
					gate.Done()
					gate.Wait() // the connections to the different brokers are established together
				}
				ctx, cancel := context.WithTimeout(context.Background(), 150*time.Millisecond)
				tr.RoundTrip(ctx, addr, &metadata.Request{})
				cancel()
			}})
		}
		threads = append(threads, th)
	}
	return &program{
		threads: threads,
		before: func() {
			tr = &kafka.Transport{TLS: cfg, Dial: log.dial, DialTimeout: 200 * time.Millisecond, ClientID: "c10"}
		},
		after: func() []string {
			tr.CloseIdleConnections()
			return log.check(cfg, "Transport.TLS")
		},
		also: []string{"Transport.CloseIdleConnections"},
	}
}

func genDialerTLS(r *rand.Rand, fc focus) *program {
	g := 2 + r.Intn(3)
	cfg := &tls.Config{MinVersion: tls.VersionTLS12}
	log := &sniLog{}
	var d *kafka.Dialer
	var gate sync.WaitGroup
	gate.Add(g)
	base := r.Intn(1000)
	var threads [][]op
	for i := 0; i < g; i++ {
		address := fmt.Sprintf("broker%d-%d.example:9092", base, i)
		first := true
		var th []op
		for k, n := 0, 1+r.Intn(3); k < n; k++ {
			wait := first
			first = false
			th = append(th, op{"Dialer.DialContext", func() {
				if wait {
					gate.Done()
					gate.Wait()
				}
				ctx, cancel := context.WithTimeout(context.Background(), 300*time.Millisecond)
				if c, err := d.DialContext(ctx, "tcp", address); err == nil {
					c.Close()
				}
				cancel()
			}})
		}
		threads = append(threads, th)
	}
	return &program{
		threads: threads,
		before: func() {
			d = &kafka.Dialer{TLS: cfg, DialFunc: log.dial, Timeout: 300 * time.Millisecond, ClientID: "c10"}
		},
		after: func() []string { return log.check(cfg, "Dialer.TLS") },
	}
}

// ---------------------------------------------------------------- conncompress
//
// Conn.WriteCompressedMessages on several Conns at once against peers that read the produce
// request slowly: the compressed record batch lives in a buffer from a process-wide pool
// (acquireBuffer / releaseBuffer) and must stay owned by the writing call until the request
// has been written out; a buffer handed back early is taken by another call's compression
// while the first one is still copying it to the socket.

type slowConn struct {
	net.Conn
	piece int
}

func (s slowConn) Read(p []byte) (int, error) {
	if len(p) > s.piece {
		p = p[:s.piece]
	}
	n, err := s.Conn.Read(p)
	runtime.Gosched()
	return n, err
}

func serveSlowProduce(c net.Conn, maxProduce int16, piece int) {
	defer c.Close()
	in := slowConn{c, piece}
	for {
		version, corr, _, msg, err := protocol.ReadRequest(in)
		if err != nil {
			return
		}
		var res protocol.Message
		switch m := msg.(type) {
		case *apiversions.Request:
			res = &apiversions.Response{ApiKeys: []apiversions.ApiKeyResponse{
				{ApiKey: int16(protocol.Produce), MinVersion: 0, MaxVersion: maxProduce},
				{ApiKey: int16(protocol.ApiVersions), MinVersion: 0, MaxVersion: 0},
			}}
		case *produce.Request:
			pr := &produce.Response{}
			for _, t := range m.Topics {
				rt := produce.ResponseTopic{Topic: t.Topic}
				for i := range t.Partitions {
					drainRecords(t.Partitions[i].RecordSet.Records)
					rt.Partitions = append(rt.Partitions, produce.ResponsePartition{Partition: t.Partitions[i].Partition})
				}
				pr.Topics = append(pr.Topics, rt)
			}
			res = pr
		default:
			return
		}
		if err := protocol.WriteResponse(c, version, corr, res); err != nil {
			return
		}
	}
}

func genConnCompress(r *rand.Rand, fc focus) *program {
	g := 2 + r.Intn(3)
	var gate sync.WaitGroup
	gate.Add(g)
	var threads [][]op
	for i := 0; i < g; i++ {
		maxProduce := []int16{2, 7}[r.Intn(2)]
		piece := []int{64, 512, 1460}[r.Intn(3)]
		codec := kafka.Compression(1 + r.Intn(4)).Codec()
		first := true
		var th []op
		for k, n := 0, 1+r.Intn(3); k < n; k++ {
			msgs := make([]kafka.Message, 1+r.Intn(4))
			for j := range msgs {
				msgs[j] = kafka.Message{Key: genKey(r), Value: genPayload(r, 6000)}
			}
			wait := first
			first = false
			th = append(th, op{"Conn.WriteCompressedMessages", func() {
				cli, srv := net.Pipe()
				done := make(chan struct{})
				go func() { defer close(done); serveSlowProduce(srv, maxProduce, piece) }()
				conn := kafka.NewConnWith(cli, kafka.ConnConfig{ClientID: "c10", Topic: "t", Partition: 0})
				conn.SetDeadline(time.Now().Add(5 * time.Second))
				if wait {
					gate.Done()
					gate.Wait()
				}
				if _, err := conn.WriteCompressedMessages(codec, msgs...); err != nil {
					printf("MISMATCH Conn.WriteCompressedMessages: %v\n", err)
				}
				conn.Close()
				<-done
			}})
		}
		threads = append(threads, th)
	}
	return &program{threads: threads, also: []string{"Conn.Close", "Conn.SetDeadline"}}
}
