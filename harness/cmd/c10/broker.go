package main

import (
	"bytes"
	"encoding/binary"
	"fmt"
	"net"
	"sync/atomic"
	"time"

	"github.com/segmentio/kafka-go/protocol"
	"github.com/segmentio/kafka-go/protocol/apiversions"
	"github.com/segmentio/kafka-go/protocol/fetch"
	"github.com/segmentio/kafka-go/protocol/listoffsets"
	"github.com/segmentio/kafka-go/protocol/metadata"
)

// brokerConfig is the immutable script of a fake broker.
type brokerConfig struct {
	topic      string
	partitions int
	first      int64 // first offset of every partition
	last       int64 // last offset (high watermark) of every partition
	perFetch   int   // records per fetch response
	back       int64 // the batch of a fetch response starts this far below the requested offset
	fetchMax   int16 // highest fetch version advertised: 2, 5 or 10 (the three that Conn speaks)
	metaMax    int16 // highest metadata version advertised
	allApis    bool  // advertise the versions that the typed client (Transport) needs
	attrs      protocol.Attributes
	valueSize  int
	throttleMs int32
}

// fakeBroker serves the broker side of net.Pipe connections.  Its script is
// immutable and its counters are atomics, so the fake itself has no shared
// mutable state.
type fakeBroker struct {
	cfg     brokerConfig
	active  int64 // serving goroutines (a late dial may come while wait polls: no WaitGroup)
	fetches int64
	conns   int64
}

func newFakeBroker(cfg brokerConfig) *fakeBroker {
	if cfg.topic == "" {
		cfg.topic = "t"
	}
	if cfg.partitions == 0 {
		cfg.partitions = 1
	}
	if cfg.fetchMax == 0 {
		cfg.fetchMax = 2
	}
	if cfg.metaMax == 0 {
		cfg.metaMax = 1
	}
	if cfg.perFetch == 0 {
		cfg.perFetch = 1
	}
	return &fakeBroker{cfg: cfg}
}

// dial returns the client end of a new pipe served by the broker.
func (b *fakeBroker) dial() net.Conn {
	client, server := net.Pipe()
	atomic.AddInt64(&b.conns, 1)
	atomic.AddInt64(&b.active, 1)
	go func() {
		defer atomic.AddInt64(&b.active, -1)
		defer server.Close()
		b.serve(server)
	}()
	return client
}

// wait waits for every serving goroutine to exit (they do when the client
// end is closed); false if they did not within the timeout.
func (b *fakeBroker) wait(timeout time.Duration) bool {
	for t0 := time.Now(); atomic.LoadInt64(&b.active) != 0; time.Sleep(200 * time.Microsecond) {
		if time.Since(t0) > timeout {
			return false
		}
	}
	return true
}

func (b *fakeBroker) serve(c net.Conn) {
	for {
		version, corr, _, msg, err := protocol.ReadRequest(c)
		if err != nil {
			return
		}
		var res protocol.Message
		switch m := msg.(type) {
		case *apiversions.Request:
			res = b.apiVersions()
		case *listoffsets.Request:
			res = b.listOffsets(m)
		case *metadata.Request:
			res = b.metadata(m)
		case *fetch.Request:
			atomic.AddInt64(&b.fetches, 1)
			if _, err := c.Write(b.fetchResponse(version, corr, m)); err != nil {
				return
			}
			continue
		default:
			return
		}
		if err := protocol.WriteResponse(c, version, corr, res); err != nil {
			return
		}
	}
}

func (b *fakeBroker) apiVersions() *apiversions.Response {
	if b.cfg.allApis {
		return &apiversions.Response{ApiKeys: []apiversions.ApiKeyResponse{
			{ApiKey: int16(protocol.Fetch), MinVersion: 0, MaxVersion: 10},
			{ApiKey: int16(protocol.ListOffsets), MinVersion: 0, MaxVersion: 5},
			{ApiKey: int16(protocol.Metadata), MinVersion: 0, MaxVersion: 8},
			{ApiKey: int16(protocol.ApiVersions), MinVersion: 0, MaxVersion: 2},
		}}
	}
	return &apiversions.Response{ApiKeys: []apiversions.ApiKeyResponse{
		{ApiKey: int16(protocol.Fetch), MinVersion: 0, MaxVersion: b.cfg.fetchMax},
		{ApiKey: int16(protocol.ListOffsets), MinVersion: 0, MaxVersion: 1},
		{ApiKey: int16(protocol.Metadata), MinVersion: 0, MaxVersion: b.cfg.metaMax},
		{ApiKey: int16(protocol.ApiVersions), MinVersion: 0, MaxVersion: 0},
	}}
}

func (b *fakeBroker) listOffsets(m *listoffsets.Request) *listoffsets.Response {
	res := &listoffsets.Response{}
	for _, t := range m.Topics {
		rt := listoffsets.ResponseTopic{Topic: t.Topic}
		for _, p := range t.Partitions {
			off := b.cfg.last
			switch {
			case p.Timestamp == -2:
				off = b.cfg.first
			case p.Timestamp >= 0:
				off = b.cfg.first + (b.cfg.last-b.cfg.first)/2
			}
			rt.Partitions = append(rt.Partitions, listoffsets.ResponsePartition{
				Partition: p.Partition,
				Timestamp: p.Timestamp,
				Offset:    off,
			})
		}
		res.Topics = append(res.Topics, rt)
	}
	return res
}

func (b *fakeBroker) metadata(m *metadata.Request) *metadata.Response {
	res := &metadata.Response{
		Brokers:      []metadata.ResponseBroker{{NodeID: 1, Host: "fake", Port: 9092}},
		ClusterID:    "c10",
		ControllerID: 1,
	}
	names := m.TopicNames
	if len(names) == 0 {
		names = []string{b.cfg.topic}
	}
	for _, name := range names {
		t := metadata.ResponseTopic{Name: name}
		for p := 0; p < b.cfg.partitions; p++ {
			t.Partitions = append(t.Partitions, metadata.ResponsePartition{
				PartitionIndex: int32(p),
				LeaderID:       1,
				ReplicaNodes:   []int32{1},
				IsrNodes:       []int32{1},
			})
		}
		res.Topics = append(res.Topics, t)
	}
	return res
}

// encodeRecordSet renders n records as one v2 record batch starting at base:
// [int32 size][batch].  The codec of /repo/protocol always writes base offset
// 0; the field is not covered by the checksum and is patched afterwards.
func encodeRecordSet(base int64, n, valueSize int, attrs protocol.Attributes) []byte {
	recs := make([]protocol.Record, n)
	for i := range recs {
		v := make([]byte, valueSize)
		for j := range v {
			v[j] = byte('a' + (int(base)+i+j)%26)
		}
		recs[i] = protocol.Record{
			Time:  time.Unix(1600000000, 0),
			Key:   protocol.NewBytes([]byte(fmt.Sprintf("k%d", base+int64(i)))),
			Value: protocol.NewBytes(v),
		}
		if i%3 == 1 {
			recs[i].Headers = []protocol.Header{{Key: "h", Value: []byte("v")}}
		}
	}
	var buf bytes.Buffer
	rs := protocol.RecordSet{Version: 2, Attributes: attrs, Records: protocol.NewRecordReader(recs...)}
	if _, err := rs.WriteTo(&buf); err != nil {
		panic(err)
	}
	b := buf.Bytes()
	binary.BigEndian.PutUint64(b[4:12], uint64(base))
	return b
}

// fetchResponse renders the whole fetch response (size prefix included) in
// the v2, v5 or v10 layout, by hand: the typed codec cannot place the batch
// at the requested offset.
func (b *fakeBroker) fetchResponse(version int16, corr int32, m *fetch.Request) []byte {
	topic, partition, offset := b.cfg.topic, int32(0), int64(0)
	if len(m.Topics) > 0 {
		topic = m.Topics[0].Topic
		if len(m.Topics[0].Partitions) > 0 {
			partition = m.Topics[0].Partitions[0].Partition
			offset = m.Topics[0].Partitions[0].FetchOffset
		}
	}
	if offset -= b.cfg.back; offset < b.cfg.first {
		offset = b.cfg.first
	}
	n := b.cfg.perFetch
	if left := b.cfg.last - offset; left < int64(n) {
		n = int(left)
	}
	var set []byte
	if n > 0 {
		set = encodeRecordSet(offset, n, b.cfg.valueSize, b.cfg.attrs)
	} else {
		set = []byte{0, 0, 0, 0}
	}

	var body bytes.Buffer
	i16 := func(v int16) { binary.Write(&body, binary.BigEndian, v) }
	i32 := func(v int32) { binary.Write(&body, binary.BigEndian, v) }
	i64 := func(v int64) { binary.Write(&body, binary.BigEndian, v) }
	i32(corr)
	i32(b.cfg.throttleMs)
	if version >= 7 {
		i16(0) // error code
		i32(0) // session id
	}
	i32(1) // topics
	i16(int16(len(topic)))
	body.WriteString(topic)
	i32(1) // partitions
	i32(partition)
	i16(0) // error code
	i64(b.cfg.last)
	if version >= 4 {
		i64(b.cfg.last) // last stable offset
	}
	if version >= 5 {
		i64(b.cfg.first) // log start offset
	}
	if version >= 4 {
		i32(0) // aborted transactions
	}
	body.Write(set)

	out := make([]byte, 4, 4+body.Len())
	binary.BigEndian.PutUint32(out, uint32(body.Len()))
	return append(out, body.Bytes()...)
}
