package main

import (
	"context"
	"fmt"
	"io"
	"math/rand"
	"net"
	"os"
	"runtime/pprof"
	"sync"
	"sync/atomic"
	"time"

	kafka "github.com/segmentio/kafka-go"
	"github.com/segmentio/kafka-go/protocol"
	"github.com/segmentio/kafka-go/protocol/metadata"
	"github.com/segmentio/kafka-go/protocol/produce"
)

func init() {
	register("writer", genWriter)
}

// tempErr is a retriable error (Temporary() is true).
type tempErr struct{}

func (*tempErr) Error() string   { return "c10: temporary failure" }
func (*tempErr) Temporary() bool { return true }
func (*tempErr) Timeout() bool   { return false }

// fakeRT is an in-memory kafka.RoundTripper: one broker, nparts partitions for
// every topic asked for.  All its mutable state is under its own mutex.
type fakeRT struct {
	nparts    int
	failEvery int // every failEvery-th produce request fails with a temporary error (0: never)

	mu       sync.Mutex
	offsets  map[string]int64 // "topic/partition" -> next base offset
	produces int
	metas    int
	records  int
}

func (f *fakeRT) RoundTrip(ctx context.Context, addr net.Addr, req kafka.Request) (kafka.Response, error) {
	if err := ctx.Err(); err != nil {
		return nil, err
	}
	switch m := req.(type) {
	case *metadata.Request:
		f.mu.Lock()
		f.metas++
		f.mu.Unlock()
		res := &metadata.Response{
			Brokers:      []metadata.ResponseBroker{{NodeID: 1, Host: "fake", Port: 9092}},
			ClusterID:    "c10",
			ControllerID: 1,
		}
		for _, name := range m.TopicNames {
			t := metadata.ResponseTopic{Name: name}
			for p := 0; p < f.nparts; p++ {
				t.Partitions = append(t.Partitions, metadata.ResponsePartition{
					PartitionIndex: int32(p), LeaderID: 1, ReplicaNodes: []int32{1}, IsrNodes: []int32{1},
				})
			}
			res.Topics = append(res.Topics, t)
		}
		return res, nil

	case *produce.Request:
		res := &produce.Response{}
		for _, t := range m.Topics {
			rt := produce.ResponseTopic{Topic: t.Topic}
			for i := range t.Partitions {
				p := &t.Partitions[i]
				n := drainRecords(p.RecordSet.Records)
				f.mu.Lock()
				f.produces++
				fail := f.failEvery > 0 && f.produces%f.failEvery == 0
				key := fmt.Sprintf("%s/%d", t.Topic, p.Partition)
				base := f.offsets[key]
				if !fail {
					f.offsets[key] = base + int64(n)
					f.records += n
				}
				f.mu.Unlock()
				if fail {
					return nil, &tempErr{}
				}
				rt.Partitions = append(rt.Partitions, produce.ResponsePartition{
					Partition:  p.Partition,
					BaseOffset: base,
				})
			}
			res.Topics = append(res.Topics, rt)
		}
		return res, nil
	}
	return nil, fmt.Errorf("c10: unsupported request %T", req)
}

// drainRecords reads every record like a broker would.
func drainRecords(rr protocol.RecordReader) int {
	n := 0
	if rr == nil {
		return 0
	}
	for {
		rec, err := rr.ReadRecord()
		if err != nil {
			return n
		}
		n++
		if rec.Key != nil {
			protocol.ReadAll(rec.Key)
			rec.Key.Close()
		}
		if rec.Value != nil {
			protocol.ReadAll(rec.Value)
			rec.Value.Close()
		}
	}
}

type writerEnv struct {
	w           *kafka.Writer
	rt          *fakeRT
	completions int64
	tags        tagSet
	hung        int32
}

// closeWriter closes the writer, giving up after two seconds: a WriteMessages
// that passed its entry check before Close emptied the writers can create a
// partition writer that nobody closes, and Close then waits forever (known
// defect F3, not a race).  The writer is abandoned in that case.
func (e *writerEnv) closeWriter() {
	if atomic.LoadInt32(&e.hung) != 0 {
		return // already abandoned
	}
	done := make(chan struct{})
	go func() {
		e.w.Close()
		close(done)
	}()
	select {
	case <-done:
	case <-time.After(2 * time.Second):
		atomic.StoreInt32(&e.hung, 1)
		if debugTiming {
			pprof.Lookup("goroutine").WriteTo(os.Stderr, 1)
		}
		e.tags.add("F3-HANG-SKIPPED")
	}
}

func genWriter(r *rand.Rand, fc focus) *program {
	e := &writerEnv{}
	nparts := 1 + r.Intn(4)
	failEvery := 0
	if r.Intn(3) == 0 {
		failEvery = 2 + r.Intn(5)
	}
	perMessageTopic := r.Intn(3) == 0
	balancer := r.Intn(8)
	batchSize := 1 + r.Intn(5)
	batchTimeout := time.Duration(1+r.Intn(10)) * time.Millisecond
	acks := []kafka.RequiredAcks{kafka.RequireNone, kafka.RequireOne, kafka.RequireAll}[r.Intn(3)]
	async := r.Intn(4) == 0
	completion := r.Intn(3) == 0
	compression := kafka.Compression(0)
	if r.Intn(4) == 0 {
		compression = kafka.Compression(1 + r.Intn(4))
	}
	racyClose := r.Intn(10) == 0

	before := func() {
		e.rt = &fakeRT{nparts: nparts, failEvery: failEvery, offsets: map[string]int64{}}
		w := &kafka.Writer{
			Addr:            kafka.TCP("fake:9092"),
			Transport:       e.rt,
			BatchSize:       batchSize,
			BatchTimeout:    batchTimeout,
			RequiredAcks:    acks,
			Async:           async,
			Compression:     compression,
			MaxAttempts:     3,
			WriteBackoffMin: time.Millisecond,
			WriteBackoffMax: 5 * time.Millisecond,
		}
		if !perMessageTopic {
			w.Topic = "t0"
		}
		switch balancer {
		case 0: // the writer's own round robin
		case 1:
			w.Balancer = &kafka.RoundRobin{}
		case 2:
			w.Balancer = &kafka.LeastBytes{}
		case 3:
			w.Balancer = &kafka.Hash{}
		case 4:
			w.Balancer = &kafka.ReferenceHash{}
		case 5:
			w.Balancer = kafka.CRC32Balancer{}
		case 6:
			w.Balancer = kafka.Murmur2Balancer{}
		case 7:
			w.Balancer = &kafka.RoundRobin{ChunkSize: 2}
		}
		if completion {
			w.Completion = func(msgs []kafka.Message, err error) {
				atomic.AddInt64(&e.completions, int64(len(msgs)))
			}
		}
		e.w = w
	}

	cs := []choice{
		{"Writer.WriteMessages", 6, func(r *rand.Rand) func() {
			msgs := make([]kafka.Message, r.Intn(7))
			for i := range msgs {
				msgs[i] = kafka.Message{Key: genKey(r), Value: genPayload(r, 512)}
				if perMessageTopic {
					msgs[i].Topic = fmt.Sprintf("t%d", r.Intn(2))
				}
				if r.Intn(5) == 0 {
					msgs[i].Headers = []kafka.Header{{Key: "h", Value: []byte("v")}}
				}
			}
			timeout := 2 * time.Second
			if r.Intn(10) == 0 {
				timeout = time.Duration(r.Intn(3)) * time.Millisecond // the caller gives up early
			}
			return func() {
				ctx, cancel := context.WithTimeout(context.Background(), timeout)
				err := e.w.WriteMessages(ctx, msgs...)
				cancel()
				switch {
				case err == nil:
				case err == io.ErrClosedPipe:
					e.tags.add("err=closed")
				case err == context.DeadlineExceeded:
					e.tags.add("err=deadline")
				default:
					if _, ok := err.(kafka.WriteErrors); ok {
						e.tags.add("err=write-errors")
					} else {
						e.tags.add("err=other")
					}
				}
			}
		}},
		{"Writer.Stats", 2, func(r *rand.Rand) func() { return func() { _ = e.w.Stats() } }},
	}
	threads := genThreads(r, fc, cs, 1, 8)
	var tags []string
	if racyClose {
		// Close while the others may still be writing
		i := r.Intn(len(threads))
		at := r.Intn(len(threads[i]) + 1)
		th := append([]op{}, threads[i][:at]...)
		th = append(th, op{"Writer.Close", e.closeWriter})
		threads[i] = append(th, threads[i][at:]...)
		tags = append(tags, "close=racing")
	}
	if async {
		tags = append(tags, "async")
	}
	if failEvery > 0 {
		tags = append(tags, "temp-errors")
	}
	return &program{
		threads: threads,
		before:  before,
		after: func() []string {
			e.closeWriter() // all the writing goroutines have finished
			_ = e.w.Stats()
			return e.tags.list()
		},
		tags: tags,
		also: []string{"Writer.Close", "Writer.Stats"},
	}
}
