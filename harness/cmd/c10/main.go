// c10: concurrent client programs for the race detector (property C10: the
// types documented as goroutine-safe are free of data races).
//
// Every "program" is a set of per-goroutine op lists over the exported methods
// of one shared object (or a few).  The programs are generated up front from
// ONE PRNG (-seed), so the program is reproducible although the schedule is
// not; they are then run concurrently, one after the other, until -dur has
// elapsed.  The checking is done by the Go race detector (build with -race);
// this program only has to terminate.
//
// Line format:   <n> <scenario> g=<goroutines> ops=<total ops> | ok | <tags>
// Last line:     SUMMARY scenario=<name> programs=<n> ops=<total> methods=<list>
package main

import (
	"bufio"
	"flag"
	"fmt"
	"math/rand"
	"os"
	"sort"
	"strings"
	"sync"
	"time"
)

// ---------------------------------------------------------------- output

var (
	outMu sync.Mutex
	out   = bufio.NewWriterSize(os.Stdout, 1<<16)
)

func printf(format string, args ...interface{}) {
	outMu.Lock()
	fmt.Fprintf(out, format, args...)
	outMu.Unlock()
}

func flush() {
	outMu.Lock()
	out.Flush()
	outMu.Unlock()
}

// ---------------------------------------------------------------- programs

// op is one call of an exported method with pre-generated arguments.
type op struct {
	method string // "Type.Method"
	do     func()
}

// program is one concurrent client program.
type program struct {
	threads [][]op
	before  func()          // builds the shared objects (single goroutine)
	after   func() []string // tears them down (single goroutine), extra tags
	tags    []string        // extra tags known at generation time
	also    []string        // methods invoked inside the ops besides op.method
}

// tagSet collects tags from concurrently running ops.
type tagSet struct {
	mu sync.Mutex
	m  map[string]bool
}

func (t *tagSet) add(s string) {
	t.mu.Lock()
	if t.m == nil {
		t.m = map[string]bool{}
	}
	t.m[s] = true
	t.mu.Unlock()
}

func (t *tagSet) list() []string {
	t.mu.Lock()
	defer t.mu.Unlock()
	l := make([]string, 0, len(t.m))
	for s := range t.m {
		l = append(l, s)
	}
	sort.Strings(l)
	return l
}

// scenario generates programs.
type scenario struct {
	name string
	gen  func(r *rand.Rand, fc focus) *program
}

var scenarios []scenario

func register(name string, gen func(r *rand.Rand, fc focus) *program) {
	scenarios = append(scenarios, scenario{name, gen})
}

// ---------------------------------------------------------------- focus

// focusEntry says which scenario exercises a field and which methods touch it.
type focusEntry struct {
	scenario string
	methods  []string
	targeted string // the scenario written for this very field, if any
}

func fe(scenario, targeted string, methods ...string) focusEntry {
	return focusEntry{scenario, methods, targeted}
}

// focusTable maps Type.field to the methods reading or writing that field.
var focusTable = map[string]focusEntry{
	"Batch.err":                  fe("batch", "batcherr", "Batch.Err", "Batch.Read", "Batch.ReadMessage", "Batch.Close"),
	"Batch.offset":               fe("batch", "", "Batch.Offset", "Batch.Read", "Batch.ReadMessage", "Batch.Close"),
	"Batch.conn":                 fe("batch", "", "Batch.ReadMessage", "Batch.Close"),
	"Batch.msgs":                 fe("batch", "", "Batch.Read", "Batch.ReadMessage", "Batch.Close"),
	"Batch.lastOffset":           fe("batch", "", "Batch.Read", "Batch.ReadMessage"),
	"Conn.offset":                fe("batch", "connoffset", "Conn.Offset", "Conn.Seek", "Batch.ReadMessage", "Batch.Close"),
	"Conn.rdeadline":             fe("batch", "", "Conn.SetDeadline", "Conn.SetReadDeadline", "Batch.Read", "Batch.ReadMessage", "Batch.Close"),
	"Conn.wdeadline":             fe("batch", "", "Conn.SetDeadline", "Conn.SetWriteDeadline"),
	"Conn.requiredAcks":          fe("batch", "", "Conn.SetRequiredAcks"),
	"RoundRobin.counter":         fe("balancers", "", "RoundRobin.Balance", "Hash.Balance", "ReferenceHash.Balance"),
	"RoundRobin.offset":          fe("balancers", "", "RoundRobin.Balance"),
	"LeastBytes.counters":        fe("balancers", "", "LeastBytes.Balance"),
	"Hash.Hasher":                fe("balancers", "", "Hash.Balance"),
	"ReferenceHash.Hasher":       fe("balancers", "", "ReferenceHash.Balance"),
	"connPool.tls":               fe("transport", "transporttls", "Transport.RoundTrip"),
	"Transport.TLS":              fe("transport", "transporttls", "Transport.RoundTrip"),
	"Dialer.TLS":                 fe("transport", "dialertls", "Dialer.DialContext"),
	"$kafka.bufferPool":          fe("conn", "conncompress", "Conn.WriteCompressedMessages"),
	"$kafka.partitionsCache":     fe("writer", "writergrow", "Writer.WriteMessages"),
	"snappy.writer.xerialWriter": fe("codecs", "recordset", "snappy.Codec.NewWriter"),
	"Writer.writers":             fe("writer", "", "Writer.WriteMessages", "Writer.Close"),
	"Writer.closed":              fe("writer", "", "Writer.WriteMessages", "Writer.Close"),
	"Writer.stats":               fe("writer", "", "Writer.Stats", "Writer.WriteMessages"),
	"Writer.transport":           fe("writer", "", "Writer.WriteMessages", "Writer.Close"),
	"Writer.group":               fe("writer", "", "Writer.WriteMessages", "Writer.Close"),
	"Reader.cancel":              fe("reader", "readergroup", "Reader.SetOffset", "Reader.SetOffsetAt", "Reader.Close", "Reader.ReadMessage", "Reader.FetchMessage"),
	"Reader.offset":              fe("reader", "", "Reader.Offset", "Reader.SetOffset", "Reader.ReadMessage", "Reader.FetchMessage"),
	"Reader.lag":                 fe("reader", "", "Reader.Lag", "Reader.ReadMessage", "Reader.FetchMessage"),
	"Reader.closed":              fe("reader", "", "Reader.Close", "Reader.ReadMessage", "Reader.SetOffset"),
	"Reader.version":             fe("reader", "readerversion", "Reader.SetOffset", "Reader.ReadMessage", "Reader.FetchMessage"),
	"Reader.stats":               fe("reader", "", "Reader.Stats", "Reader.ReadMessage", "Reader.FetchMessage"),
	"Transport.pools":            fe("transport", "", "Transport.CloseIdleConnections", "Transport.RoundTrip", "Client.Metadata"),
	"gzip.Codec.writerPool":      fe("codecs", "", "gzip.Codec.NewWriter"),
	"zstd.Codec.encoderPool":     fe("codecs", "", "zstd.Codec.NewWriter"),
	"pageBuffer.pages":           fe("pagebuf", "", "protocol.WriteRequest", "protocol.ReadRequest", "protocol.Bytes.Read", "protocol.Bytes.Close"),
}

// focus is the set of methods to weight up (empty: no bias).
type focus map[string]bool

func parseFocus(s, scen string) focus {
	fc := focus{}
	for _, f := range strings.Split(s, ",") {
		f = strings.TrimSpace(f)
		e, ok := focusTable[f]
		if !ok || e.scenario != scen && e.targeted != scen {
			continue // unknown focus values (or of another scenario) are ignored
		}
		for _, m := range e.methods {
			fc[m] = true
		}
	}
	return fc
}

// choice is a weighted method generator.
type choice struct {
	method string
	weight int
	make   func(r *rand.Rand) func()
}

// pick draws one choice; the methods in the focus weigh 8 times more.
func pick(r *rand.Rand, fc focus, cs []choice) (string, func()) {
	total := 0
	for _, c := range cs {
		w := c.weight
		if fc[c.method] {
			w *= 8
		}
		total += w
	}
	n := r.Intn(total)
	for _, c := range cs {
		w := c.weight
		if fc[c.method] {
			w *= 8
		}
		if n < w {
			return c.method, c.make(r)
		}
		n -= w
	}
	panic("unreachable")
}

// genThreads fills g goroutines with n ops each, drawn from cs.
func genThreads(r *rand.Rand, fc focus, cs []choice, minOps, maxOps int) [][]op {
	g := 2 + r.Intn(7)
	threads := make([][]op, g)
	for i := range threads {
		n := minOps + r.Intn(maxOps-minOps+1)
		for j := 0; j < n; j++ {
			m, f := pick(r, fc, cs)
			threads[i] = append(threads[i], op{m, f})
		}
	}
	return threads
}

// ---------------------------------------------------------------- runner

// runOp runs one op; a panic inside the library is reported and survived.
func runOp(o op) {
	defer func() {
		if e := recover(); e != nil {
			printf("PANIC %s: %v\n", o.method, e)
		}
	}()
	o.do()
}

func runProgram(p *program) []string {
	if p.before != nil {
		p.before()
	}
	start := make(chan struct{})
	var wg sync.WaitGroup
	for _, th := range p.threads {
		wg.Add(1)
		go func(th []op) {
			defer wg.Done()
			<-start
			for _, o := range th {
				runOp(o)
			}
		}(th)
	}
	close(start)
	wg.Wait()
	if p.after != nil {
		return p.after()
	}
	return nil
}

var debugTiming = os.Getenv("C10_DEBUG") != ""

func main() {
	scenName := flag.String("scenario", "", "scenario name")
	seed := flag.Int64("seed", 1, "PRNG seed")
	dur := flag.Duration("dur", 2*time.Second, "how long to run")
	focusArg := flag.String("focus", "", "comma separated Type.field list")
	list := flag.Bool("list", false, "list the scenarios")
	flag.Parse()

	// the files register in alphabetical order: list in priority order
	order := map[string]int{}
	for i, n := range []string{"balancers", "codecs", "pagebuf", "batcherr", "connoffset", "readerversion", "readergroup", "writergrow", "recordset", "transporttls", "dialertls", "conncompress", "batch", "conn", "writer", "reader", "transport"} {
		order[n] = i
	}
	sort.SliceStable(scenarios, func(i, j int) bool { return order[scenarios[i].name] < order[scenarios[j].name] })
	if *list {
		for _, s := range scenarios {
			fmt.Println(s.name)
		}
		return
	}
	if *scenName == "" {
		// the focus selects the scenario: the targeted one where there is one
		for _, f := range strings.Split(*focusArg, ",") {
			if e, ok := focusTable[strings.TrimSpace(f)]; ok && *scenName == "" {
				*scenName = e.scenario
				if e.targeted != "" {
					*scenName = e.targeted
				}
			}
		}
	}
	var scen *scenario
	for i := range scenarios {
		if scenarios[i].name == *scenName {
			scen = &scenarios[i]
		}
	}
	if scen == nil {
		fmt.Fprintf(os.Stderr, "c10: unknown scenario %q\n", *scenName)
		os.Exit(2)
	}

	time.AfterFunc(3**dur+10*time.Second, func() {
		// the holder of the lock may be the one that is stuck
		if outMu.TryLock() {
			out.Flush()
		}
		fmt.Fprintf(os.Stdout, "\nWATCHDOG %s\n", scen.name)
		os.Exit(3)
	})

	r := rand.New(rand.NewSource(*seed))
	fc := parseFocus(*focusArg, scen.name)
	t0 := time.Now()
	programs, totalOps := 0, 0
	methods := map[string]bool{}
	for time.Since(t0) < *dur {
		p := scen.gen(r, fc)
		tp := time.Now()
		extra := runProgram(p)
		if debugTiming {
			fmt.Fprintf(os.Stderr, "c10: program %d took %v\n", programs+1, time.Since(tp))
		}
		programs++
		nops := 0
		used := map[string]bool{}
		for _, th := range p.threads {
			nops += len(th)
			for _, o := range th {
				used[o.method] = true
				methods[o.method] = true
			}
		}
		for _, m := range p.also {
			used[m] = true
			methods[m] = true
		}
		totalOps += nops
		tags := make([]string, 0, len(used)+len(extra)+len(p.tags))
		for m := range used {
			tags = append(tags, m)
		}
		sort.Strings(tags)
		tags = append(tags, p.tags...)
		tags = append(tags, extra...)
		printf("%d %s g=%d ops=%d | ok | %s\n", programs, scen.name, len(p.threads), nops, strings.Join(tags, ","))
	}
	ml := make([]string, 0, len(methods))
	for m := range methods {
		ml = append(ml, m)
	}
	sort.Strings(ml)
	printf("SUMMARY scenario=%s programs=%d ops=%d methods=%s\n", scen.name, programs, totalOps, strings.Join(ml, ","))
	flush()
}
