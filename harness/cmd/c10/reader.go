package main

import (
	"context"
	"errors"
	"math/rand"
	"net"
	"time"

	kafka "github.com/segmentio/kafka-go"
)

func init() {
	register("readerversion", genReaderVersion)
	register("reader", genReader)
}

type readerEnv struct {
	broker *fakeBroker
	rd     *kafka.Reader
	tags   tagSet
}

// closeReader closes the reader, giving up after three seconds.
func (e *readerEnv) closeReader() {
	done := make(chan struct{})
	go func() {
		e.rd.Close()
		close(done)
	}()
	select {
	case <-done:
	case <-time.After(3 * time.Second):
		e.tags.add("READER-CLOSE-HANG")
	}
}

// ---------------------------------------------------------------- readerversion

// The third targeted program; it needs no working broker (every dial fails).
// Reader.start increments r.version under the reader mutex and spawns a
// goroutine whose body reads r.version (building the partition reader)
// without it: a later start, from SetOffset, races with the goroutine that
// the previous start has just spawned.
func genReaderVersion(r *rand.Rand, fc focus) *program {
	e := &readerEnv{}
	before := func() {
		e.rd = kafka.NewReader(kafka.ReaderConfig{
			Brokers:   []string{"fake:9092"},
			Topic:     "t",
			Partition: 0,
			Dialer: &kafka.Dialer{DialFunc: func(ctx context.Context, network, addr string) (net.Conn, error) {
				return nil, errors.New("no broker")
			}},
			MinBytes:       1,
			MaxBytes:       1e6,
			MaxWait:        10 * time.Millisecond,
			ReadBackoffMin: time.Millisecond,
			ReadBackoffMax: 5 * time.Millisecond,
		})
		// the first read starts version 1 of a reader without group
		ctx, cancel := context.WithTimeout(context.Background(), 5*time.Millisecond)
		e.rd.FetchMessage(ctx)
		cancel()
	}
	var threads [][]op
	next := int64(1)
	for g := 0; g < 2; g++ {
		var th []op
		for i, k := 0, 3+r.Intn(20); i < k; i++ {
			off := next // always a new offset: SetOffset restarts only on a change
			next++
			th = append(th, op{"Reader.SetOffset", func() { e.rd.SetOffset(off) }})
		}
		threads = append(threads, th)
	}
	if r.Intn(2) == 0 {
		var th []op
		for i, k := 0, 3+r.Intn(20); i < k; i++ {
			switch r.Intn(3) {
			case 0:
				th = append(th, op{"Reader.Offset", func() { e.rd.Offset() }})
			case 1:
				th = append(th, op{"Reader.Lag", func() { e.rd.Lag() }})
			default:
				th = append(th, op{"Reader.Stats", func() { e.rd.Stats() }})
			}
		}
		threads = append(threads, th)
	}
	return &program{
		threads: threads,
		before:  before,
		after:   func() []string { e.closeReader(); return e.tags.list() },
		also:    []string{"Reader.FetchMessage", "Reader.Close"},
	}
}

// ---------------------------------------------------------------- reader

// A partition reader (no consumer group) against the scripted broker: every
// dial gets a new pipe; the broker answers ApiVersions, Metadata, ListOffsets
// and Fetch (records at the requested offset, the partition never runs dry).
func genReader(r *rand.Rand, fc focus) *program {
	e := &readerEnv{}
	cfg := genBrokerConfig(r)
	cfg.first, cfg.last = 0, 1000000
	cfg.perFetch = 1 + r.Intn(5)
	cfg.metaMax = []int16{1, 6}[r.Intn(2)]
	queue := []int{1, 2, 100}[r.Intn(3)]
	startAt := []int64{kafka.FirstOffset, kafka.LastOffset, 0, 5}[r.Intn(4)]
	racyClose := r.Intn(5) == 0
	lagInterval := time.Duration(r.Intn(2)) * 5 * time.Millisecond

	before := func() {
		e.broker = newFakeBroker(cfg)
		e.rd = kafka.NewReader(kafka.ReaderConfig{
			Brokers:   []string{"fake:9092"},
			Topic:     "t",
			Partition: 0,
			Dialer: &kafka.Dialer{DialFunc: func(ctx context.Context, network, addr string) (net.Conn, error) {
				return e.broker.dial(), nil
			}},
			MinBytes:        1,
			MaxBytes:        1e6,
			MaxWait:         20 * time.Millisecond,
			QueueCapacity:   queue,
			ReadBackoffMin:  time.Millisecond,
			ReadBackoffMax:  5 * time.Millisecond,
			ReadLagInterval: lagInterval,
			StartOffset:     startAt,
		})
	}
	timeout := func(r *rand.Rand) time.Duration {
		return []time.Duration{0, time.Millisecond, 20 * time.Millisecond, 200 * time.Millisecond}[r.Intn(4)]
	}
	note := func(what string, err error) {
		switch {
		case err == nil:
			e.tags.add(what + "=ok")
		case errors.Is(err, context.DeadlineExceeded):
			e.tags.add(what + "=deadline")
		default:
			e.tags.add(what + "=err")
		}
	}
	cs := []choice{
		{"Reader.ReadMessage", 4, func(r *rand.Rand) func() {
			d := timeout(r)
			return func() {
				ctx, cancel := context.WithTimeout(context.Background(), d)
				_, err := e.rd.ReadMessage(ctx)
				cancel()
				note("read", err)
			}
		}},
		{"Reader.FetchMessage", 4, func(r *rand.Rand) func() {
			d := timeout(r)
			return func() {
				ctx, cancel := context.WithTimeout(context.Background(), d)
				_, err := e.rd.FetchMessage(ctx)
				cancel()
				note("fetch", err)
			}
		}},
		{"Reader.SetOffset", 3, func(r *rand.Rand) func() {
			off := int64(r.Intn(1000))
			return func() { e.rd.SetOffset(off) }
		}},
		{"Reader.SetOffsetAt", 1, func(r *rand.Rand) func() {
			t := time.Unix(1600000000+int64(r.Intn(100)), 0)
			return func() {
				ctx, cancel := context.WithTimeout(context.Background(), 200*time.Millisecond)
				note("setoffsetat", e.rd.SetOffsetAt(ctx, t))
				cancel()
			}
		}},
		{"Reader.ReadLag", 1, func(r *rand.Rand) func() {
			return func() {
				ctx, cancel := context.WithTimeout(context.Background(), 200*time.Millisecond)
				_, err := e.rd.ReadLag(ctx)
				cancel()
				note("readlag", err)
			}
		}},
		{"Reader.Offset", 2, func(r *rand.Rand) func() { return func() { e.rd.Offset() } }},
		{"Reader.Lag", 2, func(r *rand.Rand) func() { return func() { e.rd.Lag() } }},
		{"Reader.Stats", 2, func(r *rand.Rand) func() { return func() { e.rd.Stats() } }},
		{"Reader.Config", 1, func(r *rand.Rand) func() { return func() { e.rd.Config() } }},
		{"Reader.CommitMessages", 1, func(r *rand.Rand) func() {
			// not available without a consumer group: returns at once
			return func() { e.rd.CommitMessages(context.Background(), kafka.Message{Topic: "t", Offset: 1}) }
		}},
	}
	threads := genThreads(r, fc, cs, 1, 8)
	var tags []string
	if racyClose {
		i := r.Intn(len(threads))
		at := r.Intn(len(threads[i]) + 1)
		th := append([]op{}, threads[i][:at]...)
		th = append(th, op{"Reader.Close", e.closeReader})
		threads[i] = append(th, threads[i][at:]...)
		tags = append(tags, "close=racing")
	}
	return &program{
		threads: threads,
		before:  before,
		after: func() []string {
			e.closeReader()
			if !e.broker.wait(2 * time.Second) {
				e.tags.add("BROKER-STUCK")
			}
			return e.tags.list()
		},
		tags: tags,
		also: []string{"Reader.Close"},
	}
}
