package main

import (
	"bytes"
	"context"
	"fmt"
	"io"
	"math/rand"
	"sync"
	"sync/atomic"
	"time"

	kafka "github.com/segmentio/kafka-go"
	"github.com/segmentio/kafka-go/compress"
	"github.com/segmentio/kafka-go/protocol"
)

func init() {
	register("writergrow", genWriterGrow)
	register("recordset", genRecordSet)
}

// ---------------------------------------------------------------- writergrow
//
// The Writer offers its balancer the list 0..n-1 from a PROCESS-WIDE cache
// (writer.go loadCachedPartitions, an atomic.Value holding a []int that grows
// in steps of 128).  The list must be complete before it is published: another
// WriteMessages, of any Writer, may load and read it at once.  Every program
// uses a partition count beyond the largest the process has seen so far, so
// the cache grows in every program, while several Writers (each on its own
// RoundTripper fake) write at the same moment; a barrier releases the first
// WriteMessages of all goroutines together.
var growParts int64 = 100

func genWriterGrow(r *rand.Rand, fc focus) *program {
	nw := 2 + r.Intn(3)
	nparts := int(atomic.AddInt64(&growParts, 128+int64(r.Intn(64))))
	envs := make([]*writerEnv, nw)
	var gate sync.WaitGroup
	gate.Add(nw)
	before := func() {
		for i := range envs {
			e := &writerEnv{rt: &fakeRT{nparts: nparts, offsets: map[string]int64{}}}
			e.w = &kafka.Writer{
				Addr:         kafka.TCP("fake:9092"),
				Topic:        fmt.Sprintf("grow%d", i),
				Transport:    e.rt,
				BatchSize:    1 + r.Intn(3),
				BatchTimeout: time.Millisecond,
				RequiredAcks: kafka.RequireOne,
				MaxAttempts:  2,
			}
			switch r.Intn(4) {
			case 1:
				e.w.Balancer = &kafka.RoundRobin{}
			case 2:
				e.w.Balancer = &kafka.LeastBytes{}
			case 3:
				e.w.Balancer = &kafka.Hash{}
			}
			envs[i] = e
		}
	}
	var threads [][]op
	for i := 0; i < nw; i++ {
		i := i
		var th []op
		first := true
		for k, n := 0, 1+r.Intn(3); k < n; k++ {
			msgs := make([]kafka.Message, 1+r.Intn(3))
			for j := range msgs {
				msgs[j] = kafka.Message{Key: genKey(r), Value: []byte("v")}
			}
			wait := first
			first = false
			th = append(th, op{"Writer.WriteMessages", func() {
				if wait {
					gate.Done()
					gate.Wait() // all writers reach their first write together: the cache grows under contention
				}
				ctx, cancel := context.WithTimeout(context.Background(), 2*time.Second)
				envs[i].w.WriteMessages(ctx, msgs...)
				cancel()
			}})
		}
		threads = append(threads, th)
	}
	return &program{
		threads: threads,
		before:  before,
		after: func() []string {
			var tags []string
			for _, e := range envs {
				e.closeWriter()
				tags = append(tags, e.tags.list()...)
			}
			return tags
		},
		tags: []string{fmt.Sprintf("partitions>%d", nparts/1000*1000)},
		also: []string{"Writer.Close"},
	}
}

// ---------------------------------------------------------------- recordset
//
// protocol.RecordSet.WriteTo / ReadFrom for message format v1 and v2 with every
// compression codec, from many goroutines: the codecs' pooled readers and writers
// are taken and returned concurrently (record_v1.go closes its compressor
// explicitly AND by defer: Close must be idempotent, or one pooled writer ends
// up with two owners).  Plus the defer+return idiom on the codecs directly: a
// writer closed twice while other goroutines call NewWriter.
func genRecordSet(r *rand.Rand, fc focus) *program {
	var cs []choice
	for _, version := range []int8{1, 2} {
		for _, attr := range []protocol.Attributes{0, protocol.Gzip, protocol.Snappy, protocol.Lz4, protocol.Zstd} {
			version, attr := version, attr
			name := fmt.Sprintf("protocol.RecordSet.WriteTo/v%d/%s", version, compress.Compression(attr))
			cs = append(cs, choice{name, 2, func(r *rand.Rand) func() {
				n := 1 + r.Intn(4)
				keys := make([][]byte, n)
				vals := make([][]byte, n)
				for i := range keys {
					keys[i], vals[i] = genKey(r), genPayload(r, 3000)
				}
				return func() { recordSetRoundTrip(version, attr, keys, vals) }
			}})
		}
	}
	for _, nc := range sharedCodecs[:4] {
		nc := nc
		cs = append(cs, choice{nc.name + ".NewWriter+Close+Close", 3, func(r *rand.Rand) func() {
			payload := append(genPayload(r, 5000), 'x')
			return func() { closeTwice(nc, payload) }
		}})
	}
	return &program{
		threads: genThreads(r, fc, cs, 3, 14),
		also:    []string{"protocol.RecordSet.ReadFrom", "protocol.RecordSet.WriteTo"},
	}
}

func recordSetRoundTrip(version int8, attr protocol.Attributes, keys, vals [][]byte) {
	recs := make([]protocol.Record, len(keys))
	for i := range recs {
		recs[i] = protocol.Record{
			Offset: int64(i),
			Time:   time.Unix(1600000000+int64(i), 0),
			Key:    protocol.NewBytes(keys[i]),
			Value:  protocol.NewBytes(vals[i]),
		}
	}
	rs := protocol.RecordSet{Version: version, Attributes: attr, Records: protocol.NewRecordReader(recs...)}
	var buf bytes.Buffer
	if _, err := rs.WriteTo(&buf); err != nil {
		printf("MISMATCH RecordSet.WriteTo v%d attr %d: %v\n", version, attr, err)
		return
	}
	var back protocol.RecordSet
	if _, err := back.ReadFrom(bytes.NewReader(buf.Bytes())); err != nil {
		printf("MISMATCH RecordSet.ReadFrom v%d attr %d: %v\n", version, attr, err)
		return
	}
	defer func() {
		if c, ok := back.Records.(io.Closer); ok {
			c.Close()
		}
	}()
	for i := 0; ; i++ {
		rec, err := back.Records.ReadRecord()
		if err != nil {
			if err != io.EOF || i != len(keys) {
				printf("MISMATCH RecordSet v%d attr %d: %d records back of %d (%v)\n", version, attr, i, len(keys), err)
			}
			return
		}
		k, _ := protocol.ReadAll(rec.Key)
		v, _ := protocol.ReadAll(rec.Value)
		if rec.Key != nil {
			rec.Key.Close()
		}
		if rec.Value != nil {
			rec.Value.Close()
		}
		if i < len(keys) && (!bytes.Equal(k, keys[i]) && len(k)+len(keys[i]) > 0 || !bytes.Equal(v, vals[i]) && len(v)+len(vals[i]) > 0) {
			printf("MISMATCH RecordSet v%d attr %d record %d differs\n", version, attr, i)
			return
		}
	}
}

// closeTwice: the defer+return idiom (explicit Close on the success path plus a
// deferred Close), then a round trip through the same codec.
func closeTwice(nc namedCodec, payload []byte) {
	var buf bytes.Buffer
	func() {
		w := nc.codec.NewWriter(&buf)
		defer w.Close()
		if _, err := w.Write(payload); err != nil {
			printf("MISMATCH %s write: %v\n", nc.name, err)
			return
		}
		if err := w.Close(); err != nil {
			printf("MISMATCH %s close: %v\n", nc.name, err)
		}
	}()
	func() {
		rd := nc.codec.NewReader(bytes.NewReader(buf.Bytes()))
		defer rd.Close()
		got, err := io.ReadAll(rd)
		if err != nil || !bytes.Equal(got, payload) {
			printf("MISMATCH %s round trip after double close: %d bytes of %d (%v)\n", nc.name, len(got), len(payload), err)
		}
		rd.Close()
	}()
}
