package main

import (
	"context"
	"errors"
	"io"
	"math/rand"
	"net"
	"time"

	kafka "github.com/segmentio/kafka-go"
	"github.com/segmentio/kafka-go/protocol/metadata"
)

func init() {
	register("transport", genTransport)
}

type transportEnv struct {
	broker    *fakeBroker
	transport *kafka.Transport
	client    *kafka.Client
	tags      tagSet
}

// One kafka.Transport (connection pool, cached cluster layout, background
// metadata refresh) shared by the goroutines through a kafka.Client; every
// dial gets a new pipe served by the scripted broker.
func genTransport(r *rand.Rand, fc focus) *program {
	e := &transportEnv{}
	cfg := genBrokerConfig(r)
	cfg.first, cfg.last = 0, 1000
	cfg.perFetch = 1 + r.Intn(4)
	cfg.allApis = true
	cfg.partitions = 1 + r.Intn(3)
	ttl := []time.Duration{time.Millisecond, 5 * time.Millisecond, time.Second}[r.Intn(3)]
	idle := []time.Duration{time.Millisecond, 10 * time.Millisecond, time.Second}[r.Intn(3)]

	before := func() {
		e.broker = newFakeBroker(cfg)
		e.transport = &kafka.Transport{
			Dial: func(ctx context.Context, network, addr string) (net.Conn, error) {
				return e.broker.dial(), nil
			},
			DialTimeout: time.Second,
			IdleTimeout: idle,
			MetadataTTL: ttl,
			ClientID:    "c10",
		}
		e.client = &kafka.Client{Addr: kafka.TCP("fake:9092"), Transport: e.transport, Timeout: time.Second}
	}
	note := func(what string, err error) {
		switch {
		case err == nil:
			e.tags.add(what + "=ok")
		case errors.Is(err, context.DeadlineExceeded):
			e.tags.add(what + "=deadline")
		default:
			e.tags.add(what + "=err")
		}
	}
	cs := []choice{
		{"Client.Metadata", 4, func(r *rand.Rand) func() {
			var topics []string
			if r.Intn(2) == 0 {
				topics = []string{"t"}
			}
			return func() {
				_, err := e.client.Metadata(context.Background(), &kafka.MetadataRequest{Topics: topics})
				note("metadata", err)
			}
		}},
		{"Client.ListOffsets", 3, func(r *rand.Rand) func() {
			req := &kafka.ListOffsetsRequest{Topics: map[string][]kafka.OffsetRequest{
				"t": {kafka.FirstOffsetOf(0), kafka.LastOffsetOf(0)},
			}}
			return func() {
				_, err := e.client.ListOffsets(context.Background(), req)
				note("listoffsets", err)
			}
		}},
		{"Client.Fetch", 3, func(r *rand.Rand) func() {
			off := int64(r.Intn(900))
			if r.Intn(4) == 0 {
				off = kafka.FirstOffset
			}
			return func() {
				res, err := e.client.Fetch(context.Background(), &kafka.FetchRequest{
					Topic: "t", Partition: 0, Offset: off, MinBytes: 1, MaxBytes: 1 << 20, MaxWait: 10 * time.Millisecond,
				})
				note("fetch", err)
				if err != nil {
					return
				}
				for {
					rec, err := res.Records.ReadRecord()
					if err != nil {
						if err != io.EOF {
							e.tags.add("fetch-records=err")
						}
						return
					}
					if rec.Key != nil {
						rec.Key.Close()
					}
					if rec.Value != nil {
						rec.Value.Close()
					}
				}
			}
		}},
		{"Client.ApiVersions", 1, func(r *rand.Rand) func() {
			return func() {
				_, err := e.client.ApiVersions(context.Background(), &kafka.ApiVersionsRequest{})
				note("apiversions", err)
			}
		}},
		{"Transport.RoundTrip", 2, func(r *rand.Rand) func() {
			d := []time.Duration{0, time.Millisecond, 200 * time.Millisecond}[r.Intn(3)]
			return func() {
				ctx, cancel := context.WithTimeout(context.Background(), d)
				_, err := e.transport.RoundTrip(ctx, kafka.TCP("fake:9092"), &metadata.Request{TopicNames: []string{"t"}})
				cancel()
				note("roundtrip", err)
			}
		}},
		{"Transport.CloseIdleConnections", 2, func(r *rand.Rand) func() {
			return func() { e.transport.CloseIdleConnections() }
		}},
	}
	return &program{
		threads: genThreads(r, fc, cs, 1, 8),
		before:  before,
		after: func() []string {
			e.transport.CloseIdleConnections()
			if !e.broker.wait(3 * time.Second) {
				e.tags.add("BROKER-STUCK")
			}
			return e.tags.list()
		},
		also: []string{"Transport.CloseIdleConnections"},
	}
}
