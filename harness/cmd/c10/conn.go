package main

import (
	"math/rand"
	"time"

	kafka "github.com/segmentio/kafka-go"
	"github.com/segmentio/kafka-go/protocol"
)

func init() {
	register("batcherr", genBatchErr)
	register("batch", genBatch)
	register("connoffset", genConnOffset)
	register("conn", genConn)
}

// batchEnv is the shared state of one Conn/Batch program.
type batchEnv struct {
	broker *fakeBroker
	conn   *kafka.Conn
	batch  *kafka.Batch
}

func genBrokerConfig(r *rand.Rand) brokerConfig {
	first := int64(r.Intn(3)) * int64(r.Intn(100))
	n := 1 + r.Intn(6)
	cfg := brokerConfig{
		first:      first,
		last:       first + int64(n),
		perFetch:   n,
		fetchMax:   []int16{2, 5, 10}[r.Intn(3)],
		valueSize:  []int{0, 1, 10, 100, 3000}[r.Intn(5)],
		throttleMs: int32(r.Intn(2) * 7),
	}
	if r.Intn(3) == 0 {
		cfg.attrs = protocol.Attributes(1 + r.Intn(4)) // compressed batch
	}
	return cfg
}

func (e *batchEnv) open(cfg brokerConfig, seek bool) {
	e.broker = newFakeBroker(cfg)
	e.conn = kafka.NewConnWith(e.broker.dial(), kafka.ConnConfig{Topic: "t", Partition: 0})
	e.conn.SetDeadline(time.Now().Add(10 * time.Second))
	if seek {
		// no round trip for the offsets: the batch starts at cfg.first
		e.conn.Seek(cfg.first, kafka.SeekAbsolute|kafka.SeekDontCheck)
	}
}

func (e *batchEnv) readBatch() {
	e.batch = e.conn.ReadBatchWith(kafka.ReadBatchConfig{MinBytes: 1, MaxBytes: 1 << 20})
}

func (e *batchEnv) close() []string {
	var tags []string
	if e.batch != nil {
		e.batch.Close()
	}
	e.conn.Close()
	if !e.broker.wait(2 * time.Second) {
		tags = append(tags, "BROKER-STUCK")
	}
	return tags
}

// ---------------------------------------------------------------- batcherr

// The targeted program: one goroutine polls Batch.Err while another reads the
// batch to its end (the read that hits the end stores io.EOF in batch.err
// under the batch mutex; Err reads the field without it) and closes it.
func genBatchErr(r *rand.Rand, fc focus) *program {
	cfg := genBrokerConfig(r)
	cfg.first, cfg.last, cfg.perFetch = 0, 1, 1 // a one-message batch
	e := &batchEnv{}
	polls := 20 + r.Intn(300)
	var poller, reader []op
	for i := 0; i < polls; i++ {
		poller = append(poller, op{"Batch.Err", func() { _ = e.batch.Err() }})
	}
	useRead := r.Intn(3) == 0
	for i := 0; i < 2; i++ { // the message, then the end of the batch
		if useRead {
			reader = append(reader, op{"Batch.Read", func() { e.batch.Read(make([]byte, 4096)) }})
		} else {
			reader = append(reader, op{"Batch.ReadMessage", func() { e.batch.ReadMessage() }})
		}
	}
	reader = append(reader, op{"Batch.Close", func() { e.batch.Close() }})
	return &program{
		threads: [][]op{poller, reader},
		before:  func() { e.open(cfg, true); e.readBatch() },
		after:   e.close,
		also:    []string{"Conn.ReadBatchWith", "Conn.Seek", "Conn.Close"},
	}
}

// ---------------------------------------------------------------- connoffset

// The second targeted program: Batch.ReadMessage compares the offset of the
// message with batch.conn.offset (to skip the messages below the requested
// offset) under the batch mutex only, while Conn.Seek writes Conn.offset
// under the conn mutex.  Seek with SeekDontCheck (and Offset) need no round
// trip, so they do not wait for the read lock that the open batch holds.
func genConnOffset(r *rand.Rand, fc focus) *program {
	cfg := genBrokerConfig(r)
	n := 3 + r.Intn(6)
	cfg.first, cfg.last, cfg.perFetch = 0, int64(n+4), n
	cfg.back = int64(r.Intn(3)) // the batch starts below the requested offset: the skip loop runs
	start := cfg.back + int64(r.Intn(2))
	e := &batchEnv{}
	var seeker, reader []op
	for i, k := 0, 10+r.Intn(100); i < k; i++ {
		switch r.Intn(4) {
		case 0:
			seeker = append(seeker, op{"Conn.Offset", func() { e.conn.Offset() }})
		case 1:
			d := int64(r.Intn(2))
			seeker = append(seeker, op{"Conn.Seek", func() { e.conn.Seek(d, kafka.SeekCurrent|kafka.SeekDontCheck) }})
		default:
			off := int64(r.Intn(n))
			seeker = append(seeker, op{"Conn.Seek", func() { e.conn.Seek(off, kafka.SeekAbsolute|kafka.SeekDontCheck) }})
		}
	}
	for i := 0; i <= n; i++ {
		reader = append(reader, op{"Batch.ReadMessage", func() { e.batch.ReadMessage() }})
	}
	reader = append(reader, op{"Batch.Close", func() { e.batch.Close() }})
	return &program{
		threads: [][]op{seeker, reader},
		before: func() {
			e.open(cfg, false)
			e.conn.Seek(start, kafka.SeekAbsolute|kafka.SeekDontCheck)
			e.readBatch()
		},
		after: e.close,
		also:  []string{"Conn.ReadBatchWith", "Conn.Close"},
	}
}

// ---------------------------------------------------------------- batch

func genDeadline(r *rand.Rand) func() time.Time {
	switch r.Intn(8) {
	case 0:
		return func() time.Time { return time.Time{} }
	case 1: // already expired: the reads of the batch fail from then on
		return func() time.Time { return time.Now().Add(-time.Second) }
	default:
		d := time.Duration(1+r.Intn(10)) * time.Second
		return func() time.Time { return time.Now().Add(d) }
	}
}

func genBatch(r *rand.Rand, fc focus) *program {
	cfg := genBrokerConfig(r)
	e := &batchEnv{}
	seek := r.Intn(4) != 0
	cs := []choice{
		{"Batch.Read", 4, func(r *rand.Rand) func() {
			size := []int{0, 1, 16, 4096}[r.Intn(4)] // the small ones get io.ErrShortBuffer
			return func() { e.batch.Read(make([]byte, size)) }
		}},
		{"Batch.ReadMessage", 6, func(r *rand.Rand) func() { return func() { e.batch.ReadMessage() } }},
		{"Batch.Err", 4, func(r *rand.Rand) func() { return func() { _ = e.batch.Err() } }},
		{"Batch.Offset", 3, func(r *rand.Rand) func() { return func() { _ = e.batch.Offset() } }},
		{"Batch.HighWaterMark", 1, func(r *rand.Rand) func() { return func() { _ = e.batch.HighWaterMark() } }},
		{"Batch.Throttle", 1, func(r *rand.Rand) func() { return func() { _ = e.batch.Throttle() } }},
		{"Batch.Partition", 1, func(r *rand.Rand) func() { return func() { _ = e.batch.Partition() } }},
		{"Batch.Close", 1, func(r *rand.Rand) func() { return func() { e.batch.Close() } }},
		{"Conn.Offset", 3, func(r *rand.Rand) func() { return func() { e.conn.Offset() } }},
		{"Conn.Seek", 2, func(r *rand.Rand) func() {
			// the two forms that need no round trip (the batch holds the read lock)
			if r.Intn(2) == 0 {
				off := cfg.first + int64(r.Intn(4))
				return func() { e.conn.Seek(off, kafka.SeekAbsolute|kafka.SeekDontCheck) }
			}
			d := int64(r.Intn(3))
			return func() { e.conn.Seek(d, kafka.SeekCurrent|kafka.SeekDontCheck) }
		}},
		{"Conn.SetDeadline", 1, func(r *rand.Rand) func() {
			d := genDeadline(r)
			return func() { e.conn.SetDeadline(d()) }
		}},
		{"Conn.SetReadDeadline", 1, func(r *rand.Rand) func() {
			d := genDeadline(r)
			return func() { e.conn.SetReadDeadline(d()) }
		}},
		{"Conn.SetWriteDeadline", 1, func(r *rand.Rand) func() {
			d := genDeadline(r)
			return func() { e.conn.SetWriteDeadline(d()) }
		}},
		{"Conn.SetRequiredAcks", 1, func(r *rand.Rand) func() {
			n := []int{-1, 1, 0}[r.Intn(3)]
			return func() { e.conn.SetRequiredAcks(n) }
		}},
		{"Conn.Broker", 1, func(r *rand.Rand) func() {
			return func() { e.conn.Broker() }
		}},
		{"Conn.LocalAddr", 1, func(r *rand.Rand) func() { return func() { e.conn.LocalAddr() } }},
		{"Conn.RemoteAddr", 1, func(r *rand.Rand) func() { return func() { e.conn.RemoteAddr() } }},
	}
	return &program{
		threads: genThreads(r, fc, cs, 2, 12),
		before:  func() { e.open(cfg, seek); e.readBatch() },
		after:   e.close,
		also:    []string{"Conn.ReadBatchWith", "Conn.Close"},
	}
}

// ---------------------------------------------------------------- conn

// Requests of many goroutines multiplexed on one Conn (each operation writes
// its request under the write lock and waits for its turn on the read lock);
// a whole batch (ReadBatch, ReadMessage..., Close) is one op.
func genConn(r *rand.Rand, fc focus) *program {
	cfg := genBrokerConfig(r)
	cfg.metaMax = []int16{1, 6}[r.Intn(2)]
	e := &batchEnv{}
	cs := []choice{
		{"Conn.ReadOffsets", 2, func(r *rand.Rand) func() { return func() { e.conn.ReadOffsets() } }},
		{"Conn.ReadFirstOffset", 1, func(r *rand.Rand) func() { return func() { e.conn.ReadFirstOffset() } }},
		{"Conn.ReadLastOffset", 1, func(r *rand.Rand) func() { return func() { e.conn.ReadLastOffset() } }},
		{"Conn.ReadOffset", 1, func(r *rand.Rand) func() {
			t := time.Unix(1600000000+int64(r.Intn(100)), 0)
			return func() { e.conn.ReadOffset(t) }
		}},
		{"Conn.ReadPartitions", 2, func(r *rand.Rand) func() { return func() { e.conn.ReadPartitions() } }},
		{"Conn.Brokers", 1, func(r *rand.Rand) func() { return func() { e.conn.Brokers() } }},
		{"Conn.Controller", 1, func(r *rand.Rand) func() { return func() { e.conn.Controller() } }},
		{"Conn.ApiVersions", 1, func(r *rand.Rand) func() { return func() { e.conn.ApiVersions() } }},
		{"Conn.Seek", 3, func(r *rand.Rand) func() {
			whence := []int{kafka.SeekStart, kafka.SeekAbsolute, kafka.SeekEnd, kafka.SeekCurrent,
				kafka.SeekAbsolute | kafka.SeekDontCheck, kafka.SeekCurrent | kafka.SeekDontCheck}[r.Intn(6)]
			off := int64(r.Intn(3))
			if whence&^kafka.SeekDontCheck == kafka.SeekAbsolute {
				off += cfg.first
			}
			return func() { e.conn.Seek(off, whence) }
		}},
		{"Conn.Offset", 2, func(r *rand.Rand) func() { return func() { e.conn.Offset() } }},
		{"Conn.ReadBatch", 3, func(r *rand.Rand) func() {
			n := r.Intn(4)
			return func() {
				b := e.conn.ReadBatch(1, 1<<20)
				for i := 0; i < n; i++ {
					if _, err := b.ReadMessage(); err != nil {
						break
					}
				}
				b.Close()
			}
		}},
		{"Conn.ReadMessage", 1, func(r *rand.Rand) func() { return func() { e.conn.ReadMessage(1 << 20) } }},
		{"Conn.SetDeadline", 1, func(r *rand.Rand) func() {
			d := time.Duration(2+r.Intn(10)) * time.Second
			return func() { e.conn.SetDeadline(time.Now().Add(d)) }
		}},
		{"Conn.SetReadDeadline", 1, func(r *rand.Rand) func() {
			d := time.Duration(2+r.Intn(10)) * time.Second
			return func() { e.conn.SetReadDeadline(time.Now().Add(d)) }
		}},
		{"Conn.SetWriteDeadline", 1, func(r *rand.Rand) func() {
			d := time.Duration(2+r.Intn(10)) * time.Second
			return func() { e.conn.SetWriteDeadline(time.Now().Add(d)) }
		}},
	}
	return &program{
		threads: genThreads(r, fc, cs, 2, 10),
		before:  func() { e.open(cfg, false) },
		after:   e.close,
		also:    []string{"Conn.Close", "Batch.ReadMessage", "Batch.Close"},
	}
}
