package main

import (
	"bytes"
	"fmt"
	"hash/fnv"
	"io"
	"math/rand"
	"time"

	kafka "github.com/segmentio/kafka-go"
	"github.com/segmentio/kafka-go/compress"
	cgzip "github.com/segmentio/kafka-go/compress/gzip"
	clz4 "github.com/segmentio/kafka-go/compress/lz4"
	csnappy "github.com/segmentio/kafka-go/compress/snappy"
	czstd "github.com/segmentio/kafka-go/compress/zstd"
	"github.com/segmentio/kafka-go/protocol"
	"github.com/segmentio/kafka-go/protocol/fetch"
	"github.com/segmentio/kafka-go/protocol/produce"
)

func init() {
	register("balancers", genBalancers)
	register("codecs", genCodecs)
	register("pagebuf", genPagebuf)
}

// ---------------------------------------------------------------- shared generators

func genKey(r *rand.Rand) []byte {
	switch r.Intn(8) {
	case 0:
		return nil
	case 1:
		return []byte{}
	}
	k := make([]byte, 1+r.Intn(24))
	r.Read(k)
	return k
}

func genPartitions(r *rand.Rand) []int {
	n := 1 + r.Intn(12)
	base := 0 // Hash and ReferenceHash return an index, which is the id only for 0..n-1
	ps := make([]int, n)
	for i := range ps {
		ps[i] = base + i
	}
	return ps
}

func genPayload(r *rand.Rand, max int) []byte {
	var n int
	switch r.Intn(6) {
	case 0:
		n = 0
	case 1:
		n = r.Intn(16)
	case 2:
		n = r.Intn(max)
	default:
		n = r.Intn(2048)
	}
	if n > max {
		n = max
	}
	b := make([]byte, n)
	switch r.Intn(3) {
	case 0:
		r.Read(b)
	case 1: // compressible
		p := make([]byte, 1+r.Intn(32))
		r.Read(p)
		for i := range b {
			b[i] = p[i%len(p)]
		}
	default:
	}
	return b
}

// ---------------------------------------------------------------- balancers

// pool of partition lists: sharing the same lists between calls lets LeastBytes
// keep its counters (a changed list makes it rebuild them).
func genBalancers(r *rand.Rand, fc focus) *program {
	var (
		rr   kafka.RoundRobin
		rrCh kafka.RoundRobin
		lb   kafka.LeastBytes
		h    kafka.Hash
		hH   kafka.Hash
		rh   kafka.ReferenceHash
		rhH  kafka.ReferenceHash
		crc  kafka.CRC32Balancer
		crcC kafka.CRC32Balancer
		mm   kafka.Murmur2Balancer
		mmC  kafka.Murmur2Balancer
	)
	lists := make([][]int, 1+r.Intn(3))
	for i := range lists {
		lists[i] = genPartitions(r)
	}
	before := func() {
		rr = kafka.RoundRobin{}
		rrCh = kafka.RoundRobin{ChunkSize: 3}
		lb = kafka.LeastBytes{}
		h = kafka.Hash{}
		hH = kafka.Hash{Hasher: fnv.New32a()}
		rh = kafka.ReferenceHash{}
		rhH = kafka.ReferenceHash{Hasher: fnv.New32a()}
		crc = kafka.CRC32Balancer{}
		crcC = kafka.CRC32Balancer{Consistent: true}
		mm = kafka.Murmur2Balancer{}
		mmC = kafka.Murmur2Balancer{Consistent: true}
	}
	call := func(b func() kafka.Balancer) func(r *rand.Rand) func() {
		return func(r *rand.Rand) func() {
			msg := kafka.Message{Key: genKey(r), Value: genPayload(r, 64)}
			ps := lists[r.Intn(len(lists))]
			return func() {
				p := b().Balance(msg, ps...)
				if p < ps[0] || p > ps[len(ps)-1] {
					printf("MISMATCH balancer %T returned %d outside of %v\n", b(), p, ps)
				}
			}
		}
	}
	cs := []choice{
		{"RoundRobin.Balance", 3, call(func() kafka.Balancer { return &rr })},
		{"RoundRobin.Balance", 2, call(func() kafka.Balancer { return &rrCh })},
		{"LeastBytes.Balance", 4, call(func() kafka.Balancer { return &lb })},
		{"Hash.Balance", 3, call(func() kafka.Balancer { return &h })},
		{"Hash.Balance", 3, call(func() kafka.Balancer { return &hH })},
		{"ReferenceHash.Balance", 3, call(func() kafka.Balancer { return &rh })},
		{"ReferenceHash.Balance", 3, call(func() kafka.Balancer { return &rhH })},
		{"CRC32Balancer.Balance", 1, call(func() kafka.Balancer { return crc })},
		{"CRC32Balancer.Balance", 1, call(func() kafka.Balancer { return crcC })},
		{"Murmur2Balancer.Balance", 1, call(func() kafka.Balancer { return mm })},
		{"Murmur2Balancer.Balance", 1, call(func() kafka.Balancer { return mmC })},
	}
	return &program{threads: genThreads(r, fc, cs, 5, 60), before: before}
}

// ---------------------------------------------------------------- codecs

type namedCodec struct {
	name  string
	codec compress.Codec
}

// The codecs are process-wide: the library's own global table plus private
// values with non-default settings, all shared by every goroutine.
var sharedCodecs = []namedCodec{
	{"gzip.Codec", compress.Codecs[compress.Gzip]},
	{"snappy.Codec", compress.Codecs[compress.Snappy]},
	{"lz4.Codec", compress.Codecs[compress.Lz4]},
	{"zstd.Codec", compress.Codecs[compress.Zstd]},
	{"gzip.Codec", &cgzip.Codec{Level: 1}},
	{"snappy.Codec", &csnappy.Codec{Framing: csnappy.Unframed}},
	{"snappy.Codec", &csnappy.Codec{Compression: csnappy.FasterCompression}},
	{"lz4.Codec", &clz4.Codec{}},
	{"zstd.Codec", &czstd.Codec{Level: 1}},
	{"gzip.Codec", kafka.Gzip.Codec()},
	{"zstd.Codec", kafka.Zstd.Codec()},
}

func roundTrip(nc namedCodec, payload []byte) {
	var buf bytes.Buffer
	w := nc.codec.NewWriter(&buf)
	// several writes, to go through the buffering of the writers
	for off := 0; off < len(payload); {
		n := len(payload) - off
		if n > 4096 {
			n = 4096
		}
		if _, err := w.Write(payload[off : off+n]); err != nil {
			printf("MISMATCH %s write: %v\n", nc.name, err)
			return
		}
		off += n
	}
	if err := w.Close(); err != nil {
		printf("MISMATCH %s close writer: %v\n", nc.name, err)
		return
	}
	rd := nc.codec.NewReader(bytes.NewReader(buf.Bytes()))
	got, err := io.ReadAll(rd)
	if err != nil {
		printf("MISMATCH %s read: %v\n", nc.name, err)
	}
	if err := rd.Close(); err != nil {
		printf("MISMATCH %s close reader: %v\n", nc.name, err)
	}
	if !bytes.Equal(got, payload) {
		printf("MISMATCH %s round trip of %d bytes gave %d bytes\n", nc.name, len(payload), len(got))
	}
}

func genCodecs(r *rand.Rand, fc focus) *program {
	var cs []choice
	for _, nc := range sharedCodecs {
		nc := nc
		cs = append(cs, choice{nc.name + ".NewWriter", 4, func(r *rand.Rand) func() {
			payload := append(genPayload(r, 70000), 'x') // lz4 renders no frame for an empty stream
			return func() { roundTrip(nc, payload) }
		}})
		cs = append(cs, choice{nc.name + ".Code", 1, func(r *rand.Rand) func() {
			return func() {
				if compress.Compression(nc.codec.Code()).Codec() == nil || nc.codec.Name() == "" {
					printf("MISMATCH %s code/name\n", nc.name)
				}
			}
		}})
	}
	cs = append(cs, choice{"Compression.Codec", 2, func(r *rand.Rand) func() {
		c := kafka.Compression(r.Intn(5))
		return func() {
			_ = c.String()
			if cd := c.Codec(); cd != nil && cd.Code() != int8(c) {
				printf("MISMATCH Compression(%d).Codec().Code()=%d\n", c, cd.Code())
			}
			var c2 kafka.Compression
			if b, err := c.MarshalText(); err == nil {
				_ = c2.UnmarshalText(b)
			}
		}
	}})
	p := &program{threads: genThreads(r, fc, cs, 2, 12)}
	// NewWriter ops also use NewReader
	for _, nc := range sharedCodecs {
		p.also = append(p.also, nc.name+".NewReader", nc.name+".Name")
	}
	return p
}

// ---------------------------------------------------------------- pagebuf

// pageBuffer is unexported and has no verif hooks: it is exercised through
// the message codec.  Every WriteRequest/WriteResponse renders into a pooled
// pageBuffer, every ReadRequest/ReadResponse of a message with a record set
// keeps pages alive through the key/value page references of the records,
// and the pages go back to the shared sync.Pool when the last reference is
// closed.  The "shared" ops spread the records of ONE decoded request over the
// goroutines, which then read and close page references into the same pages.

func genRecords(r *rand.Rand, n int) []protocol.Record {
	recs := make([]protocol.Record, n)
	for i := range recs {
		recs[i] = protocol.Record{
			Time:  time.Unix(1600000000+int64(i), 0),
			Key:   protocol.NewBytes(genKey(r)),
			Value: protocol.NewBytes(genPayload(r, 9000)),
		}
		if r.Intn(4) == 0 {
			recs[i].Headers = []protocol.Header{{Key: "h", Value: []byte("v")}}
		}
	}
	return recs
}

// copies of the keys and values, to compare with after the round trip
type recCopy struct{ key, value []byte }

func copyRecords(recs []protocol.Record) []recCopy {
	cp := make([]recCopy, len(recs))
	for i, rec := range recs {
		cp[i].key, _ = protocol.ReadAll(rec.Key)
		cp[i].value, _ = protocol.ReadAll(rec.Value)
		rewind(rec.Key)
		rewind(rec.Value)
	}
	return cp
}

func rewind(b protocol.Bytes) {
	if s, ok := b.(io.Seeker); ok && b != nil {
		s.Seek(0, io.SeekStart)
	}
}

func checkRecord(what string, rec *protocol.Record, want recCopy) {
	k, err1 := protocol.ReadAll(rec.Key)
	v, err2 := protocol.ReadAll(rec.Value)
	if err1 != nil || err2 != nil || !bytes.Equal(k, want.key) || !bytes.Equal(v, want.value) {
		printf("MISMATCH %s record: key %d/%d value %d/%d bytes (%v, %v)\n", what, len(k), len(want.key), len(v), len(want.value), err1, err2)
	}
	if rec.Key != nil {
		rec.Key.Close()
	}
	if rec.Value != nil {
		rec.Value.Close()
	}
}

func produceRoundTrip(recs []protocol.Record, want []recCopy, version int16, attrs protocol.Attributes) {
	req := &produce.Request{
		Acks:    -1,
		Timeout: 1000,
		Topics: []produce.RequestTopic{{Topic: "t", Partitions: []produce.RequestPartition{{
			Partition: 0,
			RecordSet: protocol.RecordSet{Version: 2, Attributes: attrs, Records: protocol.NewRecordReader(recs...)},
		}}}},
	}
	var buf bytes.Buffer
	if err := protocol.WriteRequest(&buf, version, 7, "c10", req); err != nil {
		printf("MISMATCH WriteRequest: %v\n", err)
		return
	}
	_, _, _, msg, err := protocol.ReadRequest(&buf)
	if err != nil {
		printf("MISMATCH ReadRequest: %v\n", err)
		return
	}
	rs := msg.(*produce.Request).Topics[0].Partitions[0].RecordSet
	for i := 0; ; i++ {
		rec, err := rs.Records.ReadRecord()
		if err != nil {
			if err != io.EOF || i != len(want) {
				printf("MISMATCH produce round trip: %d of %d records (%v)\n", i, len(want), err)
			}
			return
		}
		if i < len(want) {
			checkRecord("produce", rec, want[i])
		}
	}
}

func fetchRoundTrip(recs []protocol.Record, want []recCopy, version int16) {
	res := &fetch.Response{
		Topics: []fetch.ResponseTopic{{Topic: "t", Partitions: []fetch.ResponsePartition{{
			Partition:     0,
			HighWatermark: int64(len(recs)),
			RecordSet:     protocol.RecordSet{Version: 2, Records: protocol.NewRecordReader(recs...)},
		}}}},
	}
	var buf bytes.Buffer
	if err := protocol.WriteResponse(&buf, version, 9, res); err != nil {
		printf("MISMATCH WriteResponse: %v\n", err)
		return
	}
	_, msg, err := protocol.ReadResponse(&buf, protocol.Fetch, version)
	if err != nil {
		printf("MISMATCH ReadResponse: %v\n", err)
		return
	}
	rs := msg.(*fetch.Response).Topics[0].Partitions[0].RecordSet
	for i := 0; ; i++ {
		rec, err := rs.Records.ReadRecord()
		if err != nil {
			if err != io.EOF || i != len(want) {
				printf("MISMATCH fetch round trip: %d of %d records (%v)\n", i, len(want), err)
			}
			return
		}
		if i < len(want) {
			checkRecord("fetch", rec, want[i])
		}
	}
}

func genPagebuf(r *rand.Rand, fc focus) *program {
	// the records of one decoded request, spread over the goroutines
	nShared := 4 + r.Intn(40)
	sharedSrc := genRecords(r, nShared)
	sharedWant := copyRecords(sharedSrc)
	shared := make([]protocol.Record, 0, nShared)
	next := 0

	before := func() {
		req := &produce.Request{
			Acks: -1,
			Topics: []produce.RequestTopic{{Topic: "t", Partitions: []produce.RequestPartition{{
				RecordSet: protocol.RecordSet{Version: 2, Records: protocol.NewRecordReader(sharedSrc...)},
			}}}},
		}
		var buf bytes.Buffer
		if err := protocol.WriteRequest(&buf, 7, 1, "c10", req); err != nil {
			panic(err)
		}
		_, _, _, msg, err := protocol.ReadRequest(&buf)
		if err != nil {
			panic(err)
		}
		rs := msg.(*produce.Request).Topics[0].Partitions[0].RecordSet
		for {
			rec, err := rs.Records.ReadRecord()
			if err != nil {
				break
			}
			shared = append(shared, *rec) // ReadRecord reuses its buffer
		}
		if len(shared) != nShared {
			panic(fmt.Sprintf("pagebuf: %d of %d shared records", len(shared), nShared))
		}
	}

	cs := []choice{
		{"protocol.WriteRequest", 3, func(r *rand.Rand) func() {
			recs := genRecords(r, 1+r.Intn(8))
			want := copyRecords(recs)
			version := []int16{3, 5, 7}[r.Intn(3)]
			attrs := protocol.Attributes(0)
			if r.Intn(3) == 0 {
				attrs = protocol.Attributes(1 + r.Intn(4)) // compressed batch
			}
			return func() { produceRoundTrip(recs, want, version, attrs) }
		}},
		{"protocol.WriteResponse", 3, func(r *rand.Rand) func() {
			recs := genRecords(r, 1+r.Intn(8))
			want := copyRecords(recs)
			version := []int16{4, 5, 10, 11}[r.Intn(4)]
			return func() { fetchRoundTrip(recs, want, version) }
		}},
		{"protocol.Bytes.Read", 4, func(r *rand.Rand) func() {
			if next >= nShared {
				return func() {}
			}
			i := next
			next++
			return func() { checkRecord("shared", &shared[i], sharedWant[i]) }
		}},
	}
	after := func() []string {
		// the records that no goroutine took
		for i := next; i < nShared; i++ {
			checkRecord("shared", &shared[i], sharedWant[i])
		}
		return nil
	}
	p := &program{threads: genThreads(r, fc, cs, 3, 20), before: before, after: after}
	p.also = []string{"protocol.ReadRequest", "protocol.ReadResponse", "protocol.Bytes.Close", "protocol.ReadAll"}
	return p
}
