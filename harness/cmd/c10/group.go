package main

import (
	"context"
	"math/rand"
	"time"

	kafka "github.com/segmentio/kafka-go"

	"kverif/groupfake"
)

func init() {
	register("readergroup", genReaderGroup)
}

// ---------------------------------------------------------------- readergroup
//
// A Reader in consumer-group mode against the shared in-memory group broker
// (harness/groupfake): every forced rebalance ends the generation, whose
// goroutine calls Reader.unsubscribe (r.cancel + join.Wait) while the run
// loop of the next generation calls subscribe -> start (replaces r.cancel,
// increments r.version, spawns partition readers).  Regression program for
// the former unlocked uses of r.cancel / r.version; client goroutines call
// FetchMessage, CommitMessages, Stats, Lag, Offset, Config concurrently.
func genReaderGroup(r *rand.Rand, fc focus) *program {
	e := &readerEnv{}
	var b *groupfake.Broker
	parts := 1 + r.Intn(3)
	before := func() {
		b = groupfake.New(groupfake.Config{Topics: map[string]int{"t": parts}})
		for p := 0; p < parts; p++ {
			b.Append("t", p, 50)
		}
		e.rd = kafka.NewReader(kafka.ReaderConfig{
			Brokers:           []string{b.Addr()},
			GroupID:           "g",
			Topic:             "t",
			Dialer:            &kafka.Dialer{ClientID: "c10", DialFunc: b.Dial, Timeout: 3 * time.Second},
			HeartbeatInterval: 10 * time.Millisecond,
			SessionTimeout:    2 * time.Second,
			RebalanceTimeout:  300 * time.Millisecond,
			JoinGroupBackoff:  5 * time.Millisecond,
			MaxWait:           20 * time.Millisecond,
			ReadBackoffMin:    time.Millisecond,
			ReadBackoffMax:    5 * time.Millisecond,
			CommitInterval:    time.Duration(r.Intn(2)) * 10 * time.Millisecond,
			ReadLagInterval:   -1,
			MaxAttempts:       3,
			StartOffset:       kafka.FirstOffset,
			QueueCapacity:     4,
		})
		// wait for the first generation so that the rebalances below end a live one
		ctx, cancel := context.WithTimeout(context.Background(), 500*time.Millisecond)
		e.rd.FetchMessage(ctx)
		cancel()
	}
	fetch := func(commit bool) func() {
		return func() {
			ctx, cancel := context.WithTimeout(context.Background(), 15*time.Millisecond)
			m, err := e.rd.FetchMessage(ctx)
			cancel()
			if err == nil && commit {
				ctx, cancel = context.WithTimeout(context.Background(), 50*time.Millisecond)
				e.rd.CommitMessages(ctx, m)
				cancel()
			}
		}
	}
	cs := []choice{
		{"Reader.FetchMessage", 4, func(*rand.Rand) func() { return fetch(false) }},
		{"Reader.CommitMessages", 2, func(*rand.Rand) func() { return fetch(true) }},
		{"Reader.Stats", 1, func(*rand.Rand) func() { return func() { e.rd.Stats() } }},
		{"Reader.Lag", 1, func(*rand.Rand) func() { return func() { e.rd.Lag() } }},
		{"Reader.Offset", 1, func(*rand.Rand) func() { return func() { e.rd.Offset() } }},
		{"Reader.Config", 1, func(*rand.Rand) func() { return func() { e.rd.Config() } }},
	}
	threads := genThreads(r, fc, cs, 4, 16)
	// the rebalancer: ends the current generation several times
	var th []op
	for i, k := 0, 2+r.Intn(5); i < k; i++ {
		pause := time.Duration(1+r.Intn(20)) * time.Millisecond
		th = append(th, op{"groupfake.ForceRebalance", func() { time.Sleep(pause); b.ForceRebalance("c10") }})
	}
	threads = append(threads, th)
	return &program{
		threads: threads,
		before:  before,
		after: func() []string {
			if b.Generation() > 1 {
				e.tags.add("generations>1")
			}
			e.closeReader()
			b.Close()
			return e.tags.list()
		},
		also: []string{"Reader.Close"},
	}
}
