// Concurrent FIRST use of fresh Transports (C12, the pool's reference count): N fresh Transports
// are each first used by 4-8 goroutines released together (the goroutines that lose the
// pool-creation race find the pool by the re-check under the write lock), then a leader moves.
// Every transport must send a Metadata request after the move and route to the new leader.
package main

import (
	"context"
	"fmt"
	"math/rand"
	"strings"
	"sync"
	"sync/atomic"
	"time"

	kafka "github.com/segmentio/kafka-go"
	"github.com/segmentio/kafka-go/protocol"
	meta "github.com/segmentio/kafka-go/protocol/metadata"
)

var firstUseFrozen int

func runFirstUse(r *rand.Rand, scenario int, ntr int) {
	f := &fake{brokers: map[string]*fakeBroker{}, resume: make(chan struct{})}
	ids := []int32{1, 2, 3}
	var live []*fakeBroker
	for _, idv := range ids {
		v, _ := genVers(r)
		b := &fakeBroker{id: idv, addr: uint64(idv) + 16, vers: v}
		live = append(live, b)
		h, p := hostOf(b.addr)
		f.brokers[fmt.Sprintf("%s:%d", h, p)] = b
	}
	boot := live[0]
	md := &meta.Response{ClusterID: "c12", ControllerID: boot.id}
	for _, b := range live {
		h, p := hostOf(b.addr)
		md.Brokers = append(md.Brokers, meta.ResponseBroker{NodeID: b.id, Host: h, Port: p})
	}
	md.Topics = []meta.ResponseTopic{{Name: "fu", Partitions: []meta.ResponsePartition{{PartitionIndex: 0, LeaderID: live[r.Intn(3)].id,
		ReplicaNodes: []int32{}, IsrNodes: []int32{}, OfflineReplicas: []int32{}}}}}
	f.md = md
	before := cloneMd(md)

	ttl := 50 * time.Millisecond
	h, p := hostOf(boot.addr)
	bootAddr := kafka.TCP(fmt.Sprintf("%s:%d", h, p))
	g := 4 + r.Intn(5)
	ts := []tp{{topic: "fu", parts: []int32{0}}}
	trs := make([]*kafka.Transport, ntr)
	for i := range trs {
		trs[i] = &kafka.Transport{Dial: f.dial, MetadataTTL: ttl, IdleTimeout: 10 * time.Minute, DialTimeout: 3 * time.Second,
			ClientID: fmt.Sprintf("fu%d", i)}
	}
	defer func() {
		for _, tr := range trs {
			tr.CloseIdleConnections()
		}
		f.closeAll()
	}()
	rt := func(tr *kafka.Transport, msg protocol.Message) (protocol.Message, error) {
		ctx, cancel := context.WithTimeout(context.Background(), 8*time.Second)
		defer cancel()
		return tr.RoundTrip(ctx, bootAddr, msg)
	}
	// first use: g goroutines per transport behind one spin barrier
	var wg sync.WaitGroup
	var firstErrs int32
	for _, tr := range trs {
		var gate int32
		for j := 0; j < g; j++ {
			wg.Add(1)
			go func(tr *kafka.Transport) {
				defer wg.Done()
				atomic.AddInt32(&gate, 1)
				for atomic.LoadInt32(&gate) < int32(g) {
				}
				if _, err := rt(tr, fetchReq(ts)); err != nil {
					atomic.AddInt32(&firstErrs, 1)
				}
			}(tr)
		}
		wg.Wait()
	}
	// the leader moves
	f.mu.Lock()
	pt := &f.md.Topics[0].Partitions[0]
	for {
		if l := live[r.Intn(3)].id; l != pt.LeaderID {
			pt.LeaderID = l
			break
		}
	}
	after := cloneMd(f.md)
	j0 := len(f.journal)
	f.mu.Unlock()
	want := encMd(sortedMd(after))
	bound := 10*ttl + 3*time.Second
	t0 := time.Now()
	synced := make([]bool, ntr)
	nsynced := 0
	for time.Since(t0) < bound && nsynced < ntr {
		for i, tr := range trs {
			if synced[i] {
				continue
			}
			if res, err := rt(tr, &meta.Request{}); err == nil && encMd(res.(*meta.Response)) == want {
				synced[i] = true
				nsynced++
			}
		}
		time.Sleep(2 * time.Millisecond)
	}
	// which transports sent a Metadata request since the move
	refreshed := map[string]bool{}
	f.mu.Lock()
	for _, e := range f.journal[j0:] {
		if e.key == 3 {
			refreshed[e.client] = true
		}
	}
	f.mu.Unlock()
	livecnt, witness := 0, -1
	for i := range trs {
		if synced[i] && refreshed[fmt.Sprintf("fu%d", i)] {
			livecnt++
		} else if witness < 0 {
			witness = i
		}
	}
	// a fetch through a transport that did not follow (else the first one)
	w := 0
	if witness >= 0 {
		w = witness
		firstUseFrozen++
	}
	f.mu.Lock()
	j1 := len(f.journal)
	f.mu.Unlock()
	_, err := rt(trs[w], fetchReq(ts))
	f.mu.Lock()
	var trc []string
	for _, e := range f.journal[j1:] {
		if e.key == 3 || e.key == 18 || e.client != fmt.Sprintf("fu%d", w) {
			continue
		}
		trc = append(trc, encJent(e))
	}
	f.mu.Unlock()
	status := "ok"
	if err != nil {
		status = "err"
	}
	res := fmt.Sprintf("live=%x/%x:%s/%s", livecnt, ntr, dot(strings.Join(trc, ",")), status)
	feats := fmt.Sprintf("first-use,goroutines=%d,transports=%d,first-use-errors=%d", g, ntr, min(int(firstErrs), 1))
	emit("e2efu", strings.Join([]string{zs(int64(boot.id)), encMd(before), encMd(after), encVers(live), encClient(),
		"f=" + encTps(ts), fmt.Sprintf("%x", ntr), fmt.Sprintf("%x", g)}, " "), res, feats)
}
