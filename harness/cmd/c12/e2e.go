// End-to-end part of the C12 driver: a real kafka.Transport against a scripted
// multi-broker fake reached through net.Pipe connections.
package main

import (
	"context"
	"encoding/binary"
	"io"
	"errors"
	"fmt"
	"math/rand"
	"net"
	"sort"
	"strings"
	"sync"
	"time"

	kafka "github.com/segmentio/kafka-go"
	"github.com/segmentio/kafka-go/protocol"
	"github.com/segmentio/kafka-go/protocol/apiversions"
	"github.com/segmentio/kafka-go/protocol/createtopics"
	"github.com/segmentio/kafka-go/protocol/deletetopics"
	"github.com/segmentio/kafka-go/protocol/describegroups"
	"github.com/segmentio/kafka-go/protocol/fetch"
	"github.com/segmentio/kafka-go/protocol/findcoordinator"
	"github.com/segmentio/kafka-go/protocol/heartbeat"
	"github.com/segmentio/kafka-go/protocol/initproducerid"
	"github.com/segmentio/kafka-go/protocol/leavegroup"
	"github.com/segmentio/kafka-go/protocol/listgroups"
	"github.com/segmentio/kafka-go/protocol/listoffsets"
	meta "github.com/segmentio/kafka-go/protocol/metadata"
	"github.com/segmentio/kafka-go/protocol/produce"
	"github.com/segmentio/kafka-go/protocol/saslauthenticate"
	"github.com/segmentio/kafka-go/protocol/saslhandshake"
	"kverif/kvfmt"
)

type jent struct {
	broker   int32
	key, ver int16
	ktype    int8 // find-coordinator requests: the KeyType the broker decoded
	magic    int8 // produce requests: the record format (RecordSet.Version) the broker decoded
	groups   string // describe-groups requests: the groups named, hex, joined by "+"
	client   string // the client id of the request header
	conn     int    // which connection of the fake the request arrived on
}

type fcAnswer struct {
	err  int16
	node int32
}

type fakeBroker struct {
	id   int32
	addr uint64
	vers map[int16][2]int16
}

type fake struct {
	mu      sync.Mutex
	brokers map[string]*fakeBroker // by "host:port"
	md      *meta.Response         // what a metadata request is answered with
	fc      [2]fcAnswer            // how find-coordinator is answered, per KeyType (0 group, 1 transaction)
	gcoord  map[string]int32       // group coordinators by group name (they take precedence for KeyType 0)
	mdMode  int                    // Metadata requests: 0 answered, 1 left unanswered until resume, 2 connection closed
	mdFault int                    // Metadata requests received while mdMode != 0
	resume  chan struct{}
	nconn   int
	journal []jent
	conns   []net.Conn
}

var e2eKeys = []int16{0, 1, 2, 3, 10, 12, 13, 15, 16, 18, 19, 20, 22}

func (f *fake) dial(ctx context.Context, network, address string) (net.Conn, error) {
	f.mu.Lock()
	b := f.brokers[address]
	f.mu.Unlock()
	if b == nil {
		return nil, fmt.Errorf("fake: no broker at %s", address)
	}
	c1, c2 := net.Pipe()
	f.mu.Lock()
	f.conns = append(f.conns, c2)
	f.mu.Unlock()
	go f.serve(b, c2)
	return c1, nil
}

func (f *fake) closeAll() {
	f.mu.Lock()
	defer f.mu.Unlock()
	for _, c := range f.conns {
		c.Close()
	}
}

func (f *fake) serve(b *fakeBroker, conn net.Conn) {
	defer conn.Close()
	f.mu.Lock()
	f.nconn++
	connID := f.nconn
	f.mu.Unlock()
	rawToken := false
	for {
		if rawToken {
			// after a v0 SaslHandshake the client sends the bare length-prefixed token
			rawToken = false
			var lb [4]byte
			if _, err := io.ReadFull(conn, lb[:]); err != nil {
				return
			}
			tok := make([]byte, binary.BigEndian.Uint32(lb[:]))
			if _, err := io.ReadFull(conn, tok); err != nil {
				return
			}
			f.mu.Lock()
			f.journal = append(f.journal, jent{broker: b.id, key: 36, ver: -1, conn: connID})
			f.mu.Unlock()
			if _, err := conn.Write([]byte{0, 0, 0, 0}); err != nil {
				return
			}
			continue
		}
		ver, corr, clientID, msg, err := protocol.ReadRequest(conn)
		if err != nil {
			return
		}
		f.mu.Lock()
		e := jent{broker: b.id, key: int16(msg.ApiKey()), ver: ver, client: clientID, conn: connID}
		if _, ok := msg.(*saslhandshake.Request); ok && ver == 0 {
			rawToken = true
		}
		if q, ok := msg.(*describegroups.Request); ok {
			l := make([]string, len(q.Groups))
			for i, g := range q.Groups {
				l[i] = nm(g)
			}
			e.groups = strings.Join(l, "+")
		}
		if q, ok := msg.(*findcoordinator.Request); ok {
			e.ktype = q.KeyType
		}
		if q, ok := msg.(*produce.Request); ok && len(q.Topics) > 0 && len(q.Topics[0].Partitions) > 0 {
			e.magic = q.Topics[0].Partitions[0].RecordSet.Version
		}
		f.journal = append(f.journal, e)
		if _, ok := msg.(*meta.Request); ok && f.mdMode != 0 {
			f.mdFault++
			mode, resume := f.mdMode, f.resume
			f.mu.Unlock()
			if mode == 2 {
				return // i/o error: the connection is closed under the request
			}
			select { // not answered: the transport's per-request deadline (MetadataTTL) fires
			case <-resume:
			case <-time.After(20 * time.Second):
				return
			}
			f.mu.Lock()
		}
		res := f.answer(b, msg, ver)
		f.mu.Unlock()
		if res == nil {
			return
		}
		if err := protocol.WriteResponse(conn, ver, corr, res); err != nil {
			return
		}
	}
}

// called with f.mu held
func (f *fake) answer(b *fakeBroker, msg protocol.Message, ver int16) protocol.Message {
	switch q := msg.(type) {
	case *apiversions.Request:
		r := &apiversions.Response{}
		keys := make([]int, 0, len(b.vers))
		for k := range b.vers {
			keys = append(keys, int(k))
		}
		sort.Ints(keys)
		for _, k := range keys {
			v := b.vers[int16(k)]
			r.ApiKeys = append(r.ApiKeys, apiversions.ApiKeyResponse{ApiKey: int16(k), MinVersion: v[0], MaxVersion: v[1]})
		}
		return r
	case *meta.Request:
		return cloneMd(f.md)
	case *findcoordinator.Request:
		a := f.fc[0]
		if q.KeyType == 1 {
			a = f.fc[1]
		} else if n, ok := f.gcoord[q.Key]; ok {
			a = fcAnswer{0, n}
		}
		r := &findcoordinator.Response{ErrorCode: a.err, NodeID: a.node}
		r.Host, r.Port = hostOf(uint64(int64(a.node) + 16))
		return r
	case *produce.Request:
		r := &produce.Response{}
		for _, t := range q.Topics {
			rt := produce.ResponseTopic{Topic: t.Topic}
			for _, p := range t.Partitions {
				rt.Partitions = append(rt.Partitions, produce.ResponsePartition{Partition: p.Partition})
			}
			r.Topics = append(r.Topics, rt)
		}
		return r
	case *fetch.Request:
		r := &fetch.Response{}
		for _, t := range q.Topics {
			rt := fetch.ResponseTopic{Topic: t.Topic}
			for _, p := range t.Partitions {
				rv := int8(2)
				if ver < 4 {
					rv = 1
				}
				rt.Partitions = append(rt.Partitions, fetch.ResponsePartition{Partition: p.Partition, HighWatermark: 1,
					RecordSet: protocol.RecordSet{Version: rv, Records: protocol.NewRecordReader(protocol.Record{Value: protocol.NewBytes([]byte("v"))})}})
			}
			r.Topics = append(r.Topics, rt)
		}
		return r
	case *listoffsets.Request:
		r := &listoffsets.Response{}
		for _, t := range q.Topics {
			rt := listoffsets.ResponseTopic{Topic: t.Topic}
			for _, p := range t.Partitions {
				rt.Partitions = append(rt.Partitions, listoffsets.ResponsePartition{Partition: p.Partition, Offset: 7, Timestamp: -1})
			}
			r.Topics = append(r.Topics, rt)
		}
		return r
	case *describegroups.Request:
		// a broker answers for the groups it coordinates; NOT_COORDINATOR (16) for the others
		r := &describegroups.Response{}
		for _, g := range q.Groups {
			rg := describegroups.ResponseGroup{GroupID: g, GroupState: "b" + zs(int64(b.id))}
			if n, ok := f.gcoord[g]; !ok || n != b.id {
				rg.ErrorCode = 16
			}
			r.Groups = append(r.Groups, rg)
		}
		return r
	case *saslhandshake.Request:
		return &saslhandshake.Response{Mechanisms: []string{"PLAIN"}}
	case *saslauthenticate.Request:
		return &saslauthenticate.Response{}
	case *heartbeat.Request:
		return &heartbeat.Response{}
	case *leavegroup.Request:
		return &leavegroup.Response{}
	case *initproducerid.Request:
		return &initproducerid.Response{ProducerID: 1}
	case *listgroups.Request:
		return &listgroups.Response{}
	case *createtopics.Request:
		r := &createtopics.Response{}
		for _, t := range q.Topics {
			leader := int32(-1)
			if len(f.md.Brokers) > 0 {
				leader = f.md.Brokers[0].NodeID
			}
			f.md.Topics = append(f.md.Topics, meta.ResponseTopic{Name: t.Name,
				Partitions: []meta.ResponsePartition{{PartitionIndex: 0, LeaderID: leader}}})
			r.Topics = append(r.Topics, createtopics.ResponseTopic{Name: t.Name})
		}
		return r
	case *deletetopics.Request:
		r := &deletetopics.Response{}
		for _, n := range q.TopicNames {
			r.Responses = append(r.Responses, deletetopics.ResponseTopic{Name: n})
		}
		return r
	}
	return nil
}

func encJent(e jent) string {
	s := "b" + zs(int64(e.broker)) + ":" + zs(int64(e.key)) + ":" + zs(int64(e.ver))
	if e.key == 10 {
		s += ":" + zs(int64(e.ktype))
	}
	if e.key == 0 {
		s += ":" + zs(int64(e.magic))
	}
	if e.key == 15 {
		s += ":" + e.groups
	}
	return s
}

func sortedMd(m *meta.Response) *meta.Response {
	c := cloneMd(m)
	sort.SliceStable(c.Brokers, func(i, j int) bool { return c.Brokers[i].NodeID < c.Brokers[j].NodeID })
	sort.SliceStable(c.Topics, func(i, j int) bool { return c.Topics[i].Name < c.Topics[j].Name })
	for i := range c.Topics {
		ps := c.Topics[i].Partitions
		sort.SliceStable(ps, func(a, b int) bool { return ps[a].PartitionIndex < ps[b].PartitionIndex })
	}
	return c
}

func encVers(bs []*fakeBroker) string {
	l := make([]string, len(bs))
	for i, b := range bs {
		var e []string
		for _, k := range e2eKeys {
			if v, ok := b.vers[k]; ok {
				e = append(e, zs(int64(k))+"/"+zs(int64(v[0]))+"/"+zs(int64(v[1])))
			}
		}
		l[i] = zs(int64(b.id)) + ":" + strings.Join(e, ",")
	}
	return strings.Join(l, ";")
}

func encClient() string {
	var e []string
	for _, k := range e2eKeys {
		a := protocol.ApiKey(k)
		e = append(e, zs(int64(k))+"/"+zs(int64(a.MinVersion()))+"/"+zs(int64(a.MaxVersion())))
	}
	return strings.Join(e, ",")
}

func genVers(r *rand.Rand) (map[int16][2]int16, map[string]bool) {
	v := map[int16][2]int16{}
	feat := map[string]bool{}
	for _, k := range e2eKeys {
		a := protocol.ApiKey(k)
		cmin, cmax := a.MinVersion(), a.MaxVersion()
		switch {
		case k == 18:
			v[k] = [2]int16{0, 3}
		case k == 3: // keep ControllerID (v1+) in the client's view
			v[k] = [2]int16{0, 1 + int16(r.Intn(10))}
		case k == 0 && r.Intn(4) == 0: // the boundary between message sets and record batches
			v[k] = [2]int16{0, 2 + int16(r.Intn(3))}
			feat["produce-v2..4"] = true
		case k == 10 && r.Intn(4) != 0: // KeyType is on the wire from v1 on
			v[k] = [2]int16{0, 1 + int16(r.Intn(3))}
			feat["fc>=v1"] = true
		case (k == 12 || k == 22) && r.Intn(6) == 0:
			feat["key-not-advertised"] = true // version 0 is used
		default:
			lo, hi, f := genRange(r, cmin, cmax)
			if f == "arbitrary-int16" {
				lo, hi, f = 0, cmax/2, "half"
			}
			v[k] = [2]int16{lo, hi}
			feat["ver:"+f] = true
		}
	}
	return v, feat
}

type e2eReq struct {
	enc      string
	msg      protocol.Message
	splitter bool
	isMeta   bool
	isDG     bool
	fc       string
	feat     string
}

// scenarios of the e2e family whose wait for a refresh exceeded its bound (breaker at 3)
var e2eSlow int

func runE2E(r *rand.Rand, scenario int) {
	f := &fake{brokers: map[string]*fakeBroker{}, resume: make(chan struct{})}
	feat := map[string]bool{}
	// brokers
	pool := []int32{0, 1, 2, 3, 5, 7, 100}
	perm := r.Perm(len(pool))
	nb := 3 + r.Intn(3)
	var all []*fakeBroker
	withZero := scenario%2 == 0
	for i := 0; len(all) < nb+1 && i < len(perm); i++ {
		idv := pool[perm[i]]
		if idv == 0 && !withZero {
			continue
		}
		v, vf := genVers(r)
		for k := range vf {
			feat[k] = true
		}
		all = append(all, &fakeBroker{id: idv, addr: uint64(idv) + 16, vers: v})
	}
	if withZero {
		has := false
		for _, b := range all {
			has = has || b.id == 0
		}
		if !has {
			v, _ := genVers(r)
			all[len(all)-1] = &fakeBroker{id: 0, addr: 16, vers: v}
		}
		feat["broker-0-exists"] = true
	} else {
		feat["no-broker-0"] = true
	}
	spare := all[len(all)-1] // joins the cluster in a later phase
	live := append([]*fakeBroker(nil), all[:len(all)-1]...)
	for _, b := range all {
		h, p := hostOf(b.addr)
		f.brokers[fmt.Sprintf("%s:%d", h, p)] = b
	}
	boot := live[0]
	if boot.id == 0 && len(live) > 1 { // keep "broker 0" and "the bootstrap broker" distinguishable
		live[0], live[1] = live[1], live[0]
		boot = live[0]
	}
	mkBrokers := func() []meta.ResponseBroker {
		var l []meta.ResponseBroker
		for _, i := range r.Perm(len(live)) {
			h, p := hostOf(live[i].addr)
			l = append(l, meta.ResponseBroker{NodeID: live[i].id, Host: h, Port: p, Rack: rackOf(live[i].addr)})
		}
		return l
	}
	md := &meta.Response{ClusterID: "c12", Brokers: mkBrokers(), ControllerID: live[r.Intn(len(live))].id}
	nt := 2 + r.Intn(3)
	for i := 0; i < nt; i++ {
		t := meta.ResponseTopic{Name: fmt.Sprintf("t%d", (i*7+3)%10)}
		np := 1 + r.Intn(4)
		for j := 0; j < np; j++ {
			pp := meta.ResponsePartition{PartitionIndex: int32(np - 1 - j), LeaderID: live[r.Intn(len(live))].id}
			genReplicas(r, md, &pp, feat, false) // offline replicas only exist from Metadata v5 on: left empty
			t.Partitions = append(t.Partitions, pp)
		}
		md.Topics = append(md.Topics, t)
	}
	f.md = md

	ttl := 30 * time.Millisecond
	// MetadataTTL and IdleTimeout are set explicitly and far apart: a refresh period taken from the
	// wrong option shows in the latency bound below
	tr := &kafka.Transport{Dial: f.dial, MetadataTTL: ttl, IdleTimeout: 10 * time.Minute, ClientID: "c12", DialTimeout: 3 * time.Second}
	// "requests follow the new leader within one metadata TTL plus a round trip": the bound checked
	// is 10 configured TTLs plus 3s of slack for a loaded machine
	followBound := 10*ttl + 3*time.Second
	h, p := hostOf(boot.addr)
	bootAddr := kafka.TCP(fmt.Sprintf("%s:%d", h, p))
	defer func() {
		tr.CloseIdleConnections()
		f.closeAll()
	}()

	rt := func(msg protocol.Message) (protocol.Message, error) {
		ctx, cancel := context.WithTimeout(context.Background(), 8*time.Second)
		defer cancel()
		return tr.RoundTrip(ctx, bootAddr, msg)
	}
	current := func() *meta.Response {
		f.mu.Lock()
		defer f.mu.Unlock()
		return cloneMd(f.md)
	}
	// wait until the transport's cached view is the cluster's current state
	sync := func(what string, bound time.Duration) bool {
		want := encMd(sortedMd(current()))
		t0 := time.Now()
		for time.Since(t0) < bound {
			res, err := rt(&meta.Request{})
			if err == nil && encMd(res.(*meta.Response)) == want {
				return true
			}
			time.Sleep(2 * time.Millisecond)
		}
		e2eSlow++
		emit("e2efail", what, fmt.Sprintf("the cached metadata did not reflect the cluster state within %v (bound: 10 x MetadataTTL %v + 3s slack; IdleTimeout 10m): requests do not follow the new leader within one metadata TTL plus a round trip", bound, ttl), "scenario")
		return false
	}
	vers := encVers(all)
	client := encClient()
	bootS := zs(int64(boot.id))
	fs := kvfmt.Set(feat)

	topicNames := func(m *meta.Response) []string {
		var l []string
		for _, t := range m.Topics {
			l = append(l, t.Name)
		}
		return l
	}
	genReq := func(m *meta.Response, created *int) e2eReq {
		rf := map[string]bool{}
		switch x := r.Intn(16); {
		case x < 3:
			ts := e2eTps(r, m, false)
			leaderFeat(kafka.VerifMakeLayout(m), ts, rf)
			return e2eReq{enc: "p=" + encTps(ts), msg: produceReq(ts), fc: "-", feat: "produce," + kvfmt.Set(rf)}
		case x < 6:
			ts := e2eTps(r, m, false)
			leaderFeat(kafka.VerifMakeLayout(m), ts, rf)
			return e2eReq{enc: "f=" + encTps(ts), msg: fetchReq(ts), fc: "-", feat: "fetch," + kvfmt.Set(rf)}
		case x < 8:
			ts := e2eTps(r, m, true)
			leaderFeat(kafka.VerifMakeLayout(m), ts, rf)
			return e2eReq{enc: "los=" + encTps(ts), msg: listOffsetsReq(ts), splitter: true, fc: "-", feat: "listoffsets," + kvfmt.Set(rf)}
		case x == 8:
			*created++
			n := fmt.Sprintf("new%d", *created)
			return e2eReq{enc: "ctl=" + zs(19), msg: &createtopics.Request{Topics: []createtopics.RequestTopic{{Name: n, NumPartitions: 1, ReplicationFactor: 1}}},
				fc: "-", feat: "createtopics"}
		case x == 9:
			return e2eReq{enc: "ctl=" + zs(20), msg: &deletetopics.Request{TopicNames: []string{"nosuch"}}, fc: "-", feat: "deletetopics"}
		case x == 10 || x == 11:
			// how the cluster answers find-coordinator for this string, per key type: the group
			// and the transaction coordinator of the same string are mostly different brokers
			pick := func() (fcAnswer, string) {
				switch r.Intn(6) {
				case 0:
					return fcAnswer{15, -1}, "coordinator-error"
				case 1:
					return fcAnswer{0, 77}, "coordinator-not-a-broker"
				}
				return fcAnswer{0, m.Brokers[r.Intn(len(m.Brokers))].NodeID}, "coordinator-ok"
			}
			ag, fg := pick()
			at, ft := pick()
			for i := 0; i < 4 && at == ag; i++ {
				at, ft = pick()
			}
			ff := fg
			if x == 11 {
				ff = ft
			}
			if ag != at {
				ff += ",coordinators-differ"
			}
			f.mu.Lock()
			f.fc = [2]fcAnswer{ag, at}
			f.mu.Unlock()
			fc := zs(int64(ag.err)) + "/" + zs(int64(ag.node)) + "," + zs(int64(at.err)) + "/" + zs(int64(at.node))
			if x == 10 && r.Intn(3) == 0 {
				return e2eReq{enc: "g=" + zs(12) + ":" + nm("grp"), msg: &heartbeat.Request{GroupID: "grp", MemberID: "m"}, fc: fc, feat: "group,heartbeat," + ff}
			}
			if x == 10 {
				return e2eReq{enc: "g=" + zs(13) + ":" + nm("grp"), msg: &leavegroup.Request{GroupID: "grp", MemberID: "m"}, fc: fc, feat: "group," + ff}
			}
			return e2eReq{enc: "t=" + zs(22) + ":" + nm("txn"), msg: &initproducerid.Request{TransactionalID: "txn", TransactionTimeoutMs: 1000}, fc: fc, feat: "txn," + ff}
		case x == 12:
			return e2eReq{enc: "lgs", msg: &listgroups.Request{}, splitter: true, fc: "-", feat: "listgroups"}
		case x == 14 || x == 15:
			// describe-groups naming 1-4 groups whose coordinators mostly differ
			ng := 1 + r.Intn(4)
			names := make([]string, ng)
			gc := map[string]int32{}
			var kv []string
			distinct := map[int32]bool{}
			for i := range names {
				names[i] = fmt.Sprintf("dg%c", 'A'+rune((i*3+r.Intn(3))%26))
				for j := 0; j < i; j++ {
					if names[j] == names[i] {
						names[i] += "x"
					}
				}
				n := m.Brokers[r.Intn(len(m.Brokers))].NodeID
				gc[names[i]] = n
				distinct[n] = true
				kv = append(kv, nm(names[i])+"="+zs(int64(n)))
			}
			f.mu.Lock()
			f.gcoord = gc
			f.mu.Unlock()
			ff := fmt.Sprintf("describegroups,groups=%d", ng)
			if len(distinct) > 1 {
				ff += ",coordinators-differ"
			}
			hexNames := make([]string, ng)
			for i, n := range names {
				hexNames[i] = nm(n)
			}
			return e2eReq{enc: "dg=" + strings.Join(hexNames, ";"), msg: &describegroups.Request{Groups: names}, splitter: true, isDG: true,
				fc: "k:" + strings.Join(kv, ";"), feat: ff}
		default:
			var names []string
			known := topicNames(m)
			for i, k := 0, 1+r.Intn(3); i < k; i++ {
				if r.Intn(3) == 0 {
					names = append(names, fmt.Sprintf("missing%d", r.Intn(3)))
				} else {
					names = append(names, known[r.Intn(len(known))])
				}
			}
			return e2eReq{enc: "m=" + encNames(names) + ":0", msg: &meta.Request{TopicNames: names}, isMeta: true, fc: "-", feat: "metadata-filtered"}
		}
	}
	doReq := func(q e2eReq) string {
		f.mu.Lock()
		j0 := len(f.journal)
		f.mu.Unlock()
		res, err := rt(q.msg)
		if q.isMeta {
			if err != nil {
				return "err"
			}
			return "cache:" + encMd(res.(*meta.Response))
		}
		f.mu.Lock()
		var tr []string
		for _, e := range f.journal[j0:] {
			if e.key == 3 || e.key == 18 {
				continue
			}
			tr = append(tr, encJent(e))
		}
		f.mu.Unlock()
		status := "ok"
		if err != nil {
			status = "err"
			if errors.Is(err, context.DeadlineExceeded) {
				status = "timeout"
			}
		}
		if q.splitter {
			sort.Strings(tr)
			status = "-"
		}
		if q.isDG { // the merged answer: one entry per group, its error code and who answered
			status = "err"
			if err == nil {
				var l []string
				for _, g := range res.(*describegroups.Response).Groups {
					l = append(l, nm(g.GroupID)+"="+zs(int64(g.ErrorCode))+"@"+g.GroupState)
				}
				status = dot(strings.Join(l, ";"))
			}
		}
		return dot(strings.Join(tr, ",")) + "/" + status
	}

	created := 0
	var moved *fakeBroker
	for phase := 0; phase < 6; phase++ {
		before := current()
		pf := "phase0-initial"
		f.mu.Lock()
		switch phase {
		case 1: // leaders move
			pf = "phase1-leader-moves"
			for i := range f.md.Topics {
				for j := range f.md.Topics[i].Partitions {
					f.md.Topics[i].Partitions[j].LeaderID = live[r.Intn(len(live))].id
				}
			}
		case 2: // a broker joins and takes leaderships; one partition loses its leader; no controller
			pf = "phase2-broker-added,leader=-1,controller=-1"
			live = append(live, spare)
			f.md.Brokers = mkBrokers()
			for i := range f.md.Topics {
				for j := range f.md.Topics[i].Partitions {
					if r.Intn(2) == 0 {
						f.md.Topics[i].Partitions[j].LeaderID = spare.id
					}
				}
			}
			t := &f.md.Topics[r.Intn(len(f.md.Topics))]
			t.Partitions[r.Intn(len(t.Partitions))].LeaderID = -1
			f.md.ControllerID = -1
		case 3: // a broker (not the bootstrap one) leaves
			pf = "phase3-broker-removed"
			gone := live[1+r.Intn(len(live)-1)]
			var l []*fakeBroker
			for _, b := range live {
				if b != gone {
					l = append(l, b)
				}
			}
			live = l
			f.md.Brokers = mkBrokers()
			for i := range f.md.Topics {
				for j := range f.md.Topics[i].Partitions {
					if p := &f.md.Topics[i].Partitions[j]; p.LeaderID == gone.id || p.LeaderID == -1 {
						p.LeaderID = live[r.Intn(len(live))].id
					}
				}
			}
			f.md.ControllerID = live[r.Intn(len(live))].id
		case 4, 5: // a broker is re-registered under the same id: at a new address / with a new rack only
			pf = "phase4-broker-moved-to-new-address"
			moved = live[1+r.Intn(len(live)-1)]
			if phase == 4 {
				oh, op := hostOf(moved.addr)
				delete(f.brokers, fmt.Sprintf("%s:%d", oh, op)) // nobody listens at the old address any more
				moved.addr += 0x100
				nh, np := hostOf(moved.addr)
				f.brokers[fmt.Sprintf("%s:%d", nh, np)] = moved
			} else {
				pf = "phase5-broker-changed-rack-only"
				moved.addr += 1 << rackShift
			}
			f.md.Brokers = mkBrokers()
			t := &f.md.Topics[r.Intn(len(f.md.Topics))]
			t.Partitions[r.Intn(len(t.Partitions))].LeaderID = moved.id
		}
		f.mu.Unlock()
		after := current()
		t0 := time.Now()
		if phase > 0 {
			// while the refresh is pending a request may still follow the previous view
			for i := 0; i < 3; i++ {
				ts := e2eTps(r, after, true)
				q := e2eReq{enc: "f=" + encTps(ts), msg: fetchReq(ts), fc: "-"}
				res := doReq(q)
				emit("e2elag", strings.Join([]string{bootS, encMd(before), encMd(after), vers, client, q.enc, "-"}, " "), res, fs+","+pf+",during-refresh")
			}
		}
		bound := followBound
		if phase == 0 {
			bound = 15 * time.Second // the first view: connection set-up, not a refresh period
		}
		if !sync(pf, bound) {
			return
		}
		lag := time.Since(t0)
		lagf := "lag<=1ttl"
		if lag > ttl {
			lagf = "lag<=2ttl"
		}
		if lag > 2*ttl {
			lagf = "lag<=10ttl"
		}
		if lag > 10*ttl {
			lagf = "lag<=10ttl+3s"
		}
		if phase == 0 {
			lagf = "first-view"
		}
		// Client.Metadata through the transport: the public view of the cached answer
		{
			m := current()
			var names []string
			if r.Intn(3) != 0 {
				for i, k := 0, 1+r.Intn(3); i < k; i++ {
					names = append(names, m.Topics[r.Intn(len(m.Topics))].Name)
				}
				if r.Intn(3) == 0 {
					names = append(names, "missing")
				}
			}
			cl := &kafka.Client{Addr: bootAddr, Transport: tr}
			ctx, cancel := context.WithTimeout(context.Background(), 8*time.Second)
			cres, cerr := cl.Metadata(ctx, &kafka.MetadataRequest{Topics: names})
			cancel()
			out := "err"
			if cerr == nil {
				out = encClientMetadata(cres)
			}
			emit("cmeta", encNames(names)+" "+encMd(m), out, fs+","+pf+",through-transport")
		}
		if phase >= 4 {
			// requests for the partitions the re-registered broker leads must reach it
			m := current()
			for _, t := range m.Topics {
				for _, p := range t.Partitions {
					if p.LeaderID != moved.id {
						continue
					}
					ts := []tp{{topic: t.Name, parts: []int32{p.PartitionIndex}}}
					q := e2eReq{enc: "f=" + encTps(ts), msg: fetchReq(ts), fc: "-"}
					emit("e2e", strings.Join([]string{bootS, encMd(m), vers, client, q.enc, q.fc}, " "), doReq(q), fs+","+pf+","+lagf+",fetch,moved-broker")
				}
			}
		}
		nreq := 8 + r.Intn(5)
		if phase >= 4 {
			nreq = 3
		}
		for i := 0; i < nreq; i++ {
			m := current()
			q := genReq(m, &created)
			res := doReq(q)
			emit("e2e", strings.Join([]string{bootS, encMd(m), vers, client, q.enc, q.fc}, " "), res, fs+","+pf+","+lagf+","+q.feat)
			if strings.HasPrefix(q.enc, "ctl="+zs(19)) {
				if !sync(pf+"-after-create-topics", followBound) {
					return
				}
			}
		}
	}
}

// topics/partitions of the cluster: mostly one leader, sometimes several, sometimes unknown
func e2eTps(r *rand.Rand, m *meta.Response, single bool) []tp {
	t := m.Topics[r.Intn(len(m.Topics))]
	p := t.Partitions[r.Intn(len(t.Partitions))]
	ts := []tp{{topic: t.Name, parts: []int32{p.PartitionIndex}}}
	if single && r.Intn(3) != 0 {
		return ts
	}
	switch r.Intn(6) {
	case 0: // every partition with the same leader
		ts = nil
		for _, t2 := range m.Topics {
			x := tp{topic: t2.Name}
			for _, p2 := range t2.Partitions {
				if p2.LeaderID == p.LeaderID {
					x.parts = append(x.parts, p2.PartitionIndex)
				}
			}
			if len(x.parts) > 0 {
				ts = append(ts, x)
			}
		}
	case 1: // two arbitrary partitions
		t2 := m.Topics[r.Intn(len(m.Topics))]
		ts = append(ts, tp{topic: t2.Name, parts: []int32{t2.Partitions[r.Intn(len(t2.Partitions))].PartitionIndex}})
	case 2:
		ts[0].parts = append(ts[0].parts, 99)
	case 3:
		ts = append(ts, tp{topic: "nosuch", parts: []int32{0}})
	}
	return ts
}
