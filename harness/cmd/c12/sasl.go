// SASL-configured Transports in the version family of the C12 driver: the requests that set a
// connection up (ApiVersions, SaslHandshake, SaslAuthenticate or the raw token of the v0
// handshake) as journalled by the fake brokers, per connection.
package main

import (
	"context"
	"fmt"
	"math/rand"
	"sort"
	"strings"
	"time"

	kafka "github.com/segmentio/kafka-go"
	"github.com/segmentio/kafka-go/protocol"
	meta "github.com/segmentio/kafka-go/protocol/metadata"
	"github.com/segmentio/kafka-go/sasl/plain"
)

func runSasl(r *rand.Rand, scenario int) {
	f := &fake{brokers: map[string]*fakeBroker{}, resume: make(chan struct{})}
	hs := [][]int16{nil, {0, 0}, {0, 1}, {1, 1}, {0, 1}, {0, 3}}
	au := [][]int16{nil, {0, 0}, {0, 1}, {0, 2}, {1, 2}, {1, 1}}
	var live []*fakeBroker
	for _, idv := range []int32{1, 2} {
		v, _ := genVers(r)
		if x := hs[r.Intn(len(hs))]; x != nil {
			v[17] = [2]int16{x[0], x[1]}
		}
		if x := au[r.Intn(len(au))]; x != nil {
			v[36] = [2]int16{x[0], x[1]}
		}
		b := &fakeBroker{id: idv, addr: uint64(idv) + 16, vers: v}
		live = append(live, b)
		h, p := hostOf(b.addr)
		f.brokers[fmt.Sprintf("%s:%d", h, p)] = b
	}
	boot := live[0]
	md := &meta.Response{ClusterID: "c12", ControllerID: boot.id}
	for _, b := range live {
		h, p := hostOf(b.addr)
		md.Brokers = append(md.Brokers, meta.ResponseBroker{NodeID: b.id, Host: h, Port: p})
	}
	md.Topics = []meta.ResponseTopic{{Name: "s", Partitions: []meta.ResponsePartition{{PartitionIndex: 0, LeaderID: live[r.Intn(2)].id,
		ReplicaNodes: []int32{}, IsrNodes: []int32{}, OfflineReplicas: []int32{}}}}}
	f.md = md
	tr := &kafka.Transport{Dial: f.dial, MetadataTTL: time.Second, IdleTimeout: 10 * time.Minute, DialTimeout: 3 * time.Second,
		ClientID: "c12", SASL: plain.Mechanism{Username: "u", Password: "p"}}
	h, p := hostOf(boot.addr)
	defer func() {
		tr.CloseIdleConnections()
		f.closeAll()
	}()
	ctx, cancel := context.WithTimeout(context.Background(), 8*time.Second)
	_, err := tr.RoundTrip(ctx, kafka.TCP(fmt.Sprintf("%s:%d", h, p)), fetchReq([]tp{{topic: "s", parts: []int32{0}}}))
	cancel()
	// the set-up requests of every connection
	f.mu.Lock()
	byConn := map[int][]string{}
	connBroker := map[int]int32{}
	for _, e := range f.journal {
		if e.key != 18 && e.key != 17 && e.key != 36 {
			continue
		}
		v := zs(int64(e.ver))
		if e.ver < 0 {
			v = "raw"
		}
		byConn[e.conn] = append(byConn[e.conn], zs(int64(e.key))+":"+v)
		connBroker[e.conn] = e.broker
	}
	f.mu.Unlock()
	ids := make([]int, 0, len(byConn))
	for c := range byConn {
		ids = append(ids, c)
	}
	sort.Ints(ids)
	keys := []int16{17, 18, 36}
	var cl []string
	for _, k := range keys {
		a := protocol.ApiKey(k)
		cl = append(cl, zs(int64(k))+"/"+zs(int64(a.MinVersion()))+"/"+zs(int64(a.MaxVersion())))
	}
	for _, c := range ids {
		var b *fakeBroker
		for _, x := range live {
			if x.id == connBroker[c] {
				b = x
			}
		}
		var adv []string
		feat := "sasl-plain"
		for _, k := range keys {
			if v, ok := b.vers[k]; ok {
				adv = append(adv, zs(int64(k))+"/"+zs(int64(v[0]))+"/"+zs(int64(v[1])))
				feat += fmt.Sprintf(",k%d=%d..%d", k, v[0], v[1])
			} else {
				feat += fmt.Sprintf(",k%d-not-advertised", k)
			}
		}
		if err != nil {
			feat += ",request-failed"
		}
		emit("setup", dot(strings.Join(adv, ","))+" "+strings.Join(cl, ","), strings.Join(byConn[c], ","), feat)
	}
}
