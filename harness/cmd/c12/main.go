// c12: correspondence driver for request routing (property C12).
//
// Part A (direct): generated clusters / requests / version ranges through the exported
// routing methods of /repo/protocol/* and, via /repo/verif_export_c12.go, makeLayout,
// filterMetadataResponse, (*connPool).update and sendRequest.
// Part B (end to end): a real kafka.Transport whose Dial returns net.Pipe connections to a
// scripted multi-broker fake (e2e.go); every request's journal (broker, api key, version)
// is printed with the cluster state in force.
//
// One line per case:   <id> <op> <args...> | <go result> | <features>
package main

import (
	"bufio"
	"context"
	"errors"
	"flag"
	"fmt"
	"math/rand"
	"net"
	"os"
	"regexp"
	"sort"
	"strconv"
	"strings"

	kafka "github.com/segmentio/kafka-go"
	"github.com/segmentio/kafka-go/protocol"
	"github.com/segmentio/kafka-go/protocol/addoffsetstotxn"
	"github.com/segmentio/kafka-go/protocol/addpartitionstotxn"
	"github.com/segmentio/kafka-go/protocol/apiversions"
	"github.com/segmentio/kafka-go/protocol/describeconfigs"
	"github.com/segmentio/kafka-go/protocol/describegroups"
	"github.com/segmentio/kafka-go/protocol/deletegroups"
	"github.com/segmentio/kafka-go/protocol/endtxn"
	"github.com/segmentio/kafka-go/protocol/findcoordinator"
	"github.com/segmentio/kafka-go/protocol/incrementalalterconfigs"
	"github.com/segmentio/kafka-go/protocol/joingroup"
	"github.com/segmentio/kafka-go/protocol/leavegroup"
	"github.com/segmentio/kafka-go/protocol/offsetcommit"
	"github.com/segmentio/kafka-go/protocol/offsetdelete"
	"github.com/segmentio/kafka-go/protocol/offsetfetch"
	"github.com/segmentio/kafka-go/protocol/saslauthenticate"
	"github.com/segmentio/kafka-go/protocol/saslhandshake"
	"github.com/segmentio/kafka-go/protocol/syncgroup"
	"github.com/segmentio/kafka-go/protocol/txnoffsetcommit"
	"github.com/segmentio/kafka-go/protocol/alterclientquotas"
	"github.com/segmentio/kafka-go/protocol/alterconfigs"
	"github.com/segmentio/kafka-go/protocol/alterpartitionreassignments"
	"github.com/segmentio/kafka-go/protocol/alteruserscramcredentials"
	"github.com/segmentio/kafka-go/protocol/createacls"
	"github.com/segmentio/kafka-go/protocol/createpartitions"
	"github.com/segmentio/kafka-go/protocol/createtopics"
	"github.com/segmentio/kafka-go/protocol/deleteacls"
	"github.com/segmentio/kafka-go/protocol/deletetopics"
	"github.com/segmentio/kafka-go/protocol/describeacls"
	"github.com/segmentio/kafka-go/protocol/describeclientquotas"
	"github.com/segmentio/kafka-go/protocol/describeuserscramcredentials"
	"github.com/segmentio/kafka-go/protocol/electleaders"
	"github.com/segmentio/kafka-go/protocol/fetch"
	"github.com/segmentio/kafka-go/protocol/heartbeat"
	"github.com/segmentio/kafka-go/protocol/initproducerid"
	"github.com/segmentio/kafka-go/protocol/listgroups"
	"github.com/segmentio/kafka-go/protocol/listoffsets"
	"github.com/segmentio/kafka-go/protocol/listpartitionreassignments"
	meta "github.com/segmentio/kafka-go/protocol/metadata"
	"github.com/segmentio/kafka-go/protocol/produce"
	"github.com/segmentio/kafka-go/protocol/rawproduce"
	"kverif/kvfmt"
)

var out *bufio.Writer
var id int

func emit(op string, args string, res string, feats string) {
	id++
	fmt.Fprintf(out, "%d %s %s | %s | %s\n", id, op, args, res, feats)
}

// ---------------------------------------------------------------- encoding

func zs(v int64) string { return kvfmt.I(v) }
func nm(s string) string { return kvfmt.Bytes([]byte(s)) }

type tp struct {
	topic string
	parts []int32
}

func encTps(ts []tp) string {
	if len(ts) == 0 {
		return "."
	}
	l := make([]string, len(ts))
	for i, t := range ts {
		ps := "."
		if len(t.parts) > 0 {
			q := make([]string, len(t.parts))
			for j, p := range t.parts {
				q[j] = zs(int64(p))
			}
			ps = strings.Join(q, ",")
		}
		l[i] = nm(t.topic) + ":" + ps
	}
	return strings.Join(l, ";")
}

// (Rack, Host, Port) <-> address token: bits 40.. of the token are the rack, the rest the host
const rackShift = 40

func hostOf(addr uint64) (string, int32) {
	if addr == 0 {
		return "", 0
	}
	return fmt.Sprintf("h%x", addr&(1<<rackShift-1)), 9092
}

func rackOf(addr uint64) string {
	if addr>>rackShift == 0 {
		return ""
	}
	return fmt.Sprintf("r%x", addr>>rackShift)
}

func addrOf(host string, port int32) string { return addrOfR(host, port, "") }

func addrOfR(host string, port int32, rack string) string {
	if host == "" && port == 0 && rack == "" {
		return "0"
	}
	if strings.HasPrefix(host, "h") && port == 9092 {
		h, err := strconv.ParseUint(host[1:], 16, 64)
		if err == nil && (rack == "" || strings.HasPrefix(rack, "r")) {
			if rack != "" {
				rk, _ := strconv.ParseUint(rack[1:], 16, 64)
				h |= rk << rackShift
			}
			return fmt.Sprintf("%x", h)
		}
	}
	return "?" + host + ":" + strconv.Itoa(int(port)) + ":" + rack
}

func encBroker(b protocol.Broker) string {
	return zs(int64(b.ID)) + "@" + addrOfR(b.Host, b.Port, b.Rack)
}

func encIDs(l []int32) string {
	if len(l) == 0 {
		return "."
	}
	x := make([]string, len(l))
	for i, v := range l {
		x[i] = zs(int64(v))
	}
	return strings.Join(x, "+")
}

func encCluster(c protocol.Cluster) string {
	ids := make([]int, 0, len(c.Brokers))
	for k := range c.Brokers {
		ids = append(ids, int(k))
	}
	sort.Ints(ids)
	bs := make([]string, len(ids))
	for i, k := range ids {
		bs[i] = zs(int64(k)) + "=" + encBroker(c.Brokers[int32(k)])
	}
	names := make([]string, 0, len(c.Topics))
	for n := range c.Topics {
		names = append(names, n)
	}
	sort.Strings(names)
	tsl := make([]string, len(names))
	for i, n := range names {
		t := c.Topics[n]
		pk := make([]int, 0, len(t.Partitions))
		for k := range t.Partitions {
			pk = append(pk, int(k))
		}
		sort.Ints(pk)
		ps := make([]string, len(pk))
		for j, k := range pk {
			p := t.Partitions[int32(k)]
			ps[j] = zs(int64(k)) + "=" + zs(int64(p.ID)) + "/" + zs(int64(p.Error)) + "/" + zs(int64(p.Leader))
		}
		tsl[i] = nm(n) + "=" + nm(t.Name) + "/" + zs(int64(t.Error)) + ":" + dot(strings.Join(ps, ","))
	}
	return zs(int64(c.Controller)) + "~" + dot(strings.Join(bs, ",")) + "~" + dot(strings.Join(tsl, ";"))
}

func dot(s string) string {
	if s == "" {
		return "."
	}
	return s
}

func encMd(m *meta.Response) string {
	if m == nil {
		return "-"
	}
	bs := make([]string, len(m.Brokers))
	for i, b := range m.Brokers {
		bs[i] = zs(int64(b.NodeID)) + "@" + addrOfR(b.Host, b.Port, b.Rack)
	}
	tsl := make([]string, len(m.Topics))
	for i, t := range m.Topics {
		ps := make([]string, len(t.Partitions))
		for j, p := range t.Partitions {
			ps[j] = zs(int64(p.PartitionIndex)) + "/" + zs(int64(p.ErrorCode)) + "/" + zs(int64(p.LeaderID)) +
				"/" + encIDs(p.ReplicaNodes) + "/" + encIDs(p.IsrNodes) + "/" + encIDs(p.OfflineReplicas)
		}
		tsl[i] = nm(t.Name) + "/" + zs(int64(t.ErrorCode)) + "/" + kvfmt.Bool(t.IsInternal) + ":" + dot(strings.Join(ps, ","))
	}
	return zs(int64(m.ControllerID)) + "~" + dot(strings.Join(bs, ",")) + "~" + dot(strings.Join(tsl, ";"))
}

func encNames(l []string) string {
	if l == nil {
		return "-"
	}
	if len(l) == 0 {
		return "[]"
	}
	s := make([]string, len(l))
	for i, n := range l {
		s[i] = nm(n)
	}
	return strings.Join(s, ";")
}

var mismatchRe = regexp.MustCompile(`mismatching leaders \((-?\d+)!=(-?\d+)\)`)

func encErr(err error) string {
	var tpe *protocol.TopicPartitionError
	var te *protocol.TopicError
	switch {
	case errors.As(err, &tpe):
		kind := "other"
		if errors.Is(tpe.Err, protocol.ErrNoPartition) {
			kind = "nopart"
		} else if errors.Is(tpe.Err, protocol.ErrNoLeader) {
			kind = "noleader"
		}
		return "err:" + kind + ":" + nm(tpe.Topic) + ":" + zs(int64(tpe.Partition))
	case errors.As(err, &te):
		kind := "other"
		if errors.Is(te.Err, protocol.ErrNoTopic) {
			kind = "notopic"
		}
		return "err:" + kind + ":" + nm(te.Topic)
	}
	if m := mismatchRe.FindStringSubmatch(err.Error()); m != nil {
		a, _ := strconv.ParseInt(m[1], 10, 64)
		b, _ := strconv.ParseInt(m[2], 10, 64)
		return "err:mismatch:" + zs(a) + ":" + zs(b)
	}
	return "err:?" + strings.ReplaceAll(err.Error(), " ", "_")
}

func outcome(f func() (protocol.Broker, error)) (res string) {
	defer func() {
		if r := recover(); r != nil {
			res = "panic"
		}
	}()
	b, err := f()
	if err != nil {
		return encErr(err)
	}
	return "ok:" + encBroker(b)
}

// ---------------------------------------------------------------- generation

var namePool = []string{"t", "u", "a", "ab", "b", "", "zz", "T", "a\x00", "\xc3\xa9", "topic-1", "topic-10", "topic-2", "__consumer_offsets"}

func genName(r *rand.Rand) string {
	if r.Intn(8) == 0 {
		b := make([]byte, r.Intn(4))
		r.Read(b)
		return string(b)
	}
	return namePool[r.Intn(len(namePool))]
}

var idPool = []int32{0, 1, 2, 3, 5, 7, 100, 1 << 20}

type mdOpts struct {
	uniqueAddr bool // addr token derived from the id (for the send op)
	nonneg     bool
	maxTopics  int
}

func genMd(r *rand.Rand, o mdOpts) (*meta.Response, map[string]bool) {
	feat := map[string]bool{}
	m := &meta.Response{}
	nb := r.Intn(6)
	if r.Intn(10) == 0 {
		nb = 0
	}
	perm := r.Perm(len(idPool))
	for i := 0; i < nb; i++ {
		idv := idPool[perm[i]]
		if !o.nonneg && r.Intn(25) == 0 {
			idv = -1 - int32(r.Intn(2))
			feat["neg-broker-id"] = true
		}
		addr := uint64(1 + r.Intn(9))
		if o.uniqueAddr {
			addr = uint64(int64(idv) + 16)
		}
		if !o.uniqueAddr && r.Intn(4) == 0 {
			addr |= uint64(1+r.Intn(3)) << rackShift
			feat["rack"] = true
		}
		h, p := hostOf(addr)
		m.Brokers = append(m.Brokers, meta.ResponseBroker{NodeID: idv, Host: h, Port: p, Rack: rackOf(addr)})
	}
	if nb > 0 && !o.uniqueAddr && r.Intn(12) == 0 { // a duplicated node id (last wins in the map)
		d := m.Brokers[r.Intn(nb)]
		d.Host, d.Port = hostOf(uint64(10 + r.Intn(3)))
		m.Brokers = append(m.Brokers, d)
		feat["dup-broker"] = true
	}
	pickBroker := func() int32 {
		switch x := r.Intn(12); {
		case x == 0:
			feat["leader=-1"] = true
			return -1
		case x == 1:
			feat["leader-missing"] = true
			return 42
		case len(m.Brokers) == 0:
			return 0
		default:
			return m.Brokers[r.Intn(len(m.Brokers))].NodeID
		}
	}
	m.ControllerID = pickBroker()
	nt := r.Intn(o.maxTopics + 1)
	if r.Intn(15) == 0 {
		nt = 13 + r.Intn(12) // beyond sort.Slice's insertion-sort threshold
		feat["topics>12"] = true
	}
	seen := map[string]bool{}
	for i := 0; i < nt; i++ {
		n := genName(r)
		if nt > 12 {
			n = fmt.Sprintf("%s%d", n, r.Intn(1000))
		}
		if seen[n] {
			if nt > 12 || r.Intn(3) != 0 {
				continue
			}
			feat["dup-topic"] = true
		}
		seen[n] = true
		t := meta.ResponseTopic{Name: n}
		switch r.Intn(10) {
		case 0:
			t.ErrorCode = 3
		case 1:
			t.ErrorCode = 5
		}
		if r.Intn(10) == 0 {
			t.IsInternal = true
			feat["internal"] = true
		}
		np := r.Intn(6)
		pseen := map[int32]bool{}
		for j := 0; j < np; j++ {
			idx := int32(r.Intn(7))
			if pseen[idx] && r.Intn(3) != 0 {
				continue
			}
			if pseen[idx] {
				feat["dup-part"] = true
			}
			pseen[idx] = true
			p := meta.ResponsePartition{PartitionIndex: idx, LeaderID: pickBroker()}
			if p.LeaderID == -1 {
				p.ErrorCode = 5
			}
			genReplicas(r, m, &p, feat, true)
			t.Partitions = append(t.Partitions, p)
		}
		m.Topics = append(m.Topics, t)
	}
	return m, feat
}

// replica / in-sync / offline sets of a partition: the ISR is the replica list, a shrunk one (down to
// the leader alone, or empty) or the same brokers in another order
func genReplicas(r *rand.Rand, m *meta.Response, p *meta.ResponsePartition, feat map[string]bool, offline bool) {
	p.ReplicaNodes, p.IsrNodes, p.OfflineReplicas = []int32{}, []int32{}, []int32{}
	if p.LeaderID >= 0 {
		p.ReplicaNodes = append(p.ReplicaNodes, p.LeaderID)
	}
	for _, i := range r.Perm(len(m.Brokers)) {
		if len(p.ReplicaNodes) >= 3 {
			break
		}
		if idv := m.Brokers[i].NodeID; idv != p.LeaderID {
			p.ReplicaNodes = append(p.ReplicaNodes, idv)
		}
	}
	if r.Intn(8) == 0 {
		p.ReplicaNodes = append(p.ReplicaNodes, 42) // a replica that is not in the broker list
		feat["replica-missing"] = true
	}
	switch r.Intn(5) {
	case 0:
		p.IsrNodes = append(p.IsrNodes, p.ReplicaNodes...)
		feat["isr=replicas"] = true
	case 1:
		if len(p.ReplicaNodes) > 0 {
			p.IsrNodes = []int32{p.ReplicaNodes[0]}
		}
		feat["isr-shrunk-to-1"] = true
	case 2:
		feat["isr-empty"] = true
	case 3:
		for i := len(p.ReplicaNodes) - 1; i >= 0; i-- {
			p.IsrNodes = append(p.IsrNodes, p.ReplicaNodes[i])
		}
		feat["isr-reordered"] = true
	default:
		if n := len(p.ReplicaNodes); n > 1 {
			p.IsrNodes = append(p.IsrNodes, p.ReplicaNodes[:n-1]...)
			if offline {
				p.OfflineReplicas = []int32{p.ReplicaNodes[n-1]}
			}
		}
		feat["isr-shrunk"] = true
	}
}

// a request naming topics/partitions, biased towards what the layout knows
func genTps(r *rand.Rand, m *meta.Response, feat map[string]bool) []tp {
	nt := r.Intn(4)
	if r.Intn(3) == 0 {
		nt = 1
	}
	var ts []tp
	for i := 0; i < nt; i++ {
		var t tp
		var known *meta.ResponseTopic
		if len(m.Topics) > 0 && r.Intn(8) != 0 {
			known = &m.Topics[r.Intn(len(m.Topics))]
			t.topic = known.Name
		} else {
			t.topic = genName(r)
			feat["req-unknown-topic?"] = true
		}
		np := r.Intn(4)
		for j := 0; j < np; j++ {
			if known != nil && len(known.Partitions) > 0 && r.Intn(8) != 0 {
				t.parts = append(t.parts, known.Partitions[r.Intn(len(known.Partitions))].PartitionIndex)
			} else {
				t.parts = append(t.parts, int32(r.Intn(9)))
			}
		}
		if np == 0 {
			feat["req-topic-without-partitions"] = true
		}
		ts = append(ts, t)
	}
	if len(ts) == 0 {
		feat["req-empty"] = true
	}
	return ts
}

func produceReq(ts []tp) *produce.Request {
	q := &produce.Request{Acks: 1, Timeout: 1000}
	for _, t := range ts {
		rt := produce.RequestTopic{Topic: t.topic}
		for _, p := range t.parts {
			rt.Partitions = append(rt.Partitions, produce.RequestPartition{Partition: p,
				RecordSet: protocol.RecordSet{Attributes: 0, Records: protocol.NewRecordReader(protocol.Record{Value: protocol.NewBytes([]byte("v"))})}})
		}
		q.Topics = append(q.Topics, rt)
	}
	return q
}

func rawProduceReq(ts []tp) *rawproduce.Request {
	q := &rawproduce.Request{Acks: 1}
	for _, t := range ts {
		rt := rawproduce.RequestTopic{Topic: t.topic}
		for _, p := range t.parts {
			rt.Partitions = append(rt.Partitions, rawproduce.RequestPartition{Partition: p})
		}
		q.Topics = append(q.Topics, rt)
	}
	return q
}

func fetchReq(ts []tp) *fetch.Request {
	q := &fetch.Request{ReplicaID: -1, MaxWaitTime: 10, MinBytes: 1, MaxBytes: 1 << 20}
	for _, t := range ts {
		rt := fetch.RequestTopic{Topic: t.topic}
		for _, p := range t.parts {
			rt.Partitions = append(rt.Partitions, fetch.RequestPartition{Partition: p, PartitionMaxBytes: 1 << 20})
		}
		q.Topics = append(q.Topics, rt)
	}
	return q
}

func listOffsetsReq(ts []tp) *listoffsets.Request {
	q := &listoffsets.Request{ReplicaID: -1}
	for _, t := range ts {
		rt := listoffsets.RequestTopic{Topic: t.topic}
		for _, p := range t.parts {
			rt.Partitions = append(rt.Partitions, listoffsets.RequestPartition{Partition: p, Timestamp: -1})
		}
		q.Topics = append(q.Topics, rt)
	}
	return q
}

func tpsOfListOffsets(q *listoffsets.Request) []tp {
	var ts []tp
	for _, t := range q.Topics {
		x := tp{topic: t.Topic}
		for _, p := range t.Partitions {
			x.parts = append(x.parts, p.Partition)
		}
		ts = append(ts, x)
	}
	return ts
}

type ctlKind struct {
	name string
	mk   func() protocol.Message
}

var ctlKinds = []ctlKind{
	{"createtopics", func() protocol.Message { return &createtopics.Request{} }},
	{"deletetopics", func() protocol.Message { return &deletetopics.Request{} }},
	{"createpartitions", func() protocol.Message { return &createpartitions.Request{} }},
	{"alterconfigs", func() protocol.Message { return &alterconfigs.Request{} }},
	{"electleaders", func() protocol.Message { return &electleaders.Request{} }},
	{"createacls", func() protocol.Message { return &createacls.Request{} }},
	{"deleteacls", func() protocol.Message { return &deleteacls.Request{} }},
	{"describeacls", func() protocol.Message { return &describeacls.Request{} }},
	{"alterpartitionreassignments", func() protocol.Message { return &alterpartitionreassignments.Request{} }},
	{"listpartitionreassignments", func() protocol.Message { return &listpartitionreassignments.Request{} }},
	{"describeclientquotas", func() protocol.Message { return &describeclientquotas.Request{} }},
	{"alterclientquotas", func() protocol.Message { return &alterclientquotas.Request{} }},
	{"describeuserscramcredentials", func() protocol.Message { return &describeuserscramcredentials.Request{} }},
	{"alteruserscramcredentials", func() protocol.Message { return &alteruserscramcredentials.Request{} }},
}

// the cluster a routing method sees: makeLayout's, sometimes with a broker whose ID
// field differs from its map key (never built by the transport; the model carries both)
func genCluster(r *rand.Rand, feat map[string]bool) (protocol.Cluster, *meta.Response) {
	m, f := genMd(r, mdOpts{maxTopics: 5})
	for k := range f {
		feat[k] = true
	}
	c := kafka.VerifMakeLayout(m)
	if len(c.Brokers) > 0 && r.Intn(15) == 0 {
		for k, b := range c.Brokers {
			b.ID = b.ID + 1000
			c.Brokers[k] = b
			feat["key!=id"] = true
			break
		}
	}
	return c, m
}

func leaderFeat(c protocol.Cluster, ts []tp, feat map[string]bool) {
	leaders := map[int32]bool{}
	n := 0
	for _, t := range ts {
		topic, ok := c.Topics[t.topic]
		if !ok {
			feat["unknown-topic"] = true
			continue
		}
		for _, p := range t.parts {
			n++
			part, ok := topic.Partitions[p]
			if !ok {
				feat["unknown-partition"] = true
				continue
			}
			if _, ok := c.Brokers[part.Leader]; !ok {
				feat["unknown-leader"] = true
				continue
			}
			leaders[part.Leader] = true
		}
	}
	if len(leaders) > 1 {
		feat["leaders-differ"] = true
	}
	if n > 1 {
		feat["multi-partition"] = true
	}
}

// every request type registered by /repo/protocol/* (metadata is added by hand: its package is imported as meta)
var allRequests = []func() protocol.Message{
	func() protocol.Message { return &addoffsetstotxn.Request{} },
	func() protocol.Message { return &addpartitionstotxn.Request{} },
	func() protocol.Message { return &alterclientquotas.Request{} },
	func() protocol.Message { return &alterconfigs.Request{} },
	func() protocol.Message { return &alterpartitionreassignments.Request{} },
	func() protocol.Message { return &alteruserscramcredentials.Request{} },
	func() protocol.Message { return &apiversions.Request{} },
	func() protocol.Message { return &createacls.Request{} },
	func() protocol.Message { return &createpartitions.Request{} },
	func() protocol.Message { return &createtopics.Request{} },
	func() protocol.Message { return &deleteacls.Request{} },
	func() protocol.Message { return &deletegroups.Request{} },
	func() protocol.Message { return &deletetopics.Request{} },
	func() protocol.Message { return &describeacls.Request{} },
	func() protocol.Message { return &describeclientquotas.Request{} },
	func() protocol.Message { return &describeconfigs.Request{} },
	func() protocol.Message { return &describegroups.Request{} },
	func() protocol.Message { return &describeuserscramcredentials.Request{} },
	func() protocol.Message { return &electleaders.Request{} },
	func() protocol.Message { return &endtxn.Request{} },
	func() protocol.Message { return &fetch.Request{} },
	func() protocol.Message { return &findcoordinator.Request{} },
	func() protocol.Message { return &heartbeat.Request{} },
	func() protocol.Message { return &incrementalalterconfigs.Request{} },
	func() protocol.Message { return &initproducerid.Request{} },
	func() protocol.Message { return &joingroup.Request{} },
	func() protocol.Message { return &leavegroup.Request{} },
	func() protocol.Message { return &listgroups.Request{} },
	func() protocol.Message { return &listoffsets.Request{} },
	func() protocol.Message { return &listpartitionreassignments.Request{} },
	func() protocol.Message { return &offsetcommit.Request{} },
	func() protocol.Message { return &offsetdelete.Request{} },
	func() protocol.Message { return &offsetfetch.Request{} },
	func() protocol.Message { return &produce.Request{} },
	func() protocol.Message { return &rawproduce.Request{} },
	func() protocol.Message { return &saslauthenticate.Request{} },
	func() protocol.Message { return &saslhandshake.Request{} },
	func() protocol.Message { return &syncgroup.Request{} },
	func() protocol.Message { return &txnoffsetcommit.Request{} },
	func() protocol.Message { return &meta.Request{} },
}

// the interface a request type is routed by, in the order of sendRequest's type switch
func classOf(m protocol.Message) string {
	c := "plain"
	switch m.(type) {
	case protocol.BrokerMessage:
		c = "broker"
	case protocol.GroupMessage:
		c = "group"
	case protocol.TransactionalMessage:
		c = "txn"
	}
	if _, ok := m.(protocol.Splitter); ok {
		c += "+split"
	}
	return c
}

// ---------------------------------------------------------------- part A

func genRange(r *rand.Rand, cmin, cmax int16) (int16, int16, string) {
	switch r.Intn(9) {
	case 0: // below the client's range
		hi := cmin - 1 - int16(r.Intn(3))
		return hi - int16(r.Intn(3)), hi, "disjoint-below"
	case 1: // above
		lo := cmax + 1 + int16(r.Intn(3))
		return lo, lo + int16(r.Intn(4)), "disjoint-above"
	case 2:
		return cmin, cmax, "equal"
	case 3: // nested inside the client's
		if cmax-cmin < 2 {
			return cmin, cmin, "nested-point"
		}
		lo := cmin + int16(r.Intn(int(cmax-cmin)))
		return lo, lo + int16(r.Intn(int(cmax-lo)+1)), "nested-in-client"
	case 4: // client nested in broker's
		return cmin - int16(r.Intn(3)), cmax + int16(r.Intn(3)), "client-in-broker"
	case 5:
		return cmax, cmax + int16(r.Intn(5)), "touch-high"
	case 6:
		return cmin - int16(r.Intn(5)), cmin, "touch-low"
	case 7: // arbitrary, possibly inverted or extreme
		a, b := int16(r.Intn(1<<16)-(1<<15)), int16(r.Intn(1<<16)-(1<<15))
		return a, b, "arbitrary-int16"
	default:
		a := int16(r.Intn(20) - 3)
		return a, a + int16(r.Intn(15)), "small"
	}
}

func partA(r *rand.Rand, n int) {
	// which routing interface each request type implements
	for _, mk := range allRequests {
		m := mk()
		f := "classification"
		if _, ok := m.(protocol.OverrideTypeMessage); ok {
			f += ",override-type"
		}
		emit("class", zs(int64(m.ApiKey())), classOf(m), f)
	}
	// the record format Prepare chooses for each Produce version
	for v := int16(0); v <= 9 && n > 0; v++ {
		q := produceReq([]tp{{topic: "t", parts: []int32{0}}})
		q.Prepare(v)
		emit("prep", zs(int64(v)), zs(int64(q.Topics[0].Partitions[0].RecordSet.Version)), fmt.Sprintf("produce-v%d", v))
	}
	// SelectVersion
	for i := 0; i < 2*n; i++ {
		k := protocol.ApiKey(r.Intn(52) - 1)
		if r.Intn(20) == 0 {
			k = protocol.ApiKey(60 + r.Intn(10)) // unregistered key: client range (0,0)
		}
		cmin, cmax := k.MinVersion(), k.MaxVersion()
		bmin, bmax, f := genRange(r, cmin, cmax)
		v := k.SelectVersion(bmin, bmax)
		emit("sel", fmt.Sprintf("%s %s %s %s %s", zs(int64(k)), zs(int64(cmin)), zs(int64(cmax)), zs(int64(bmin)), zs(int64(bmax))),
			zs(int64(v)), f)
	}
	// routing by leader
	for i := 0; i < 3*n; i++ {
		feat := map[string]bool{}
		c, m := genCluster(r, feat)
		ts := genTps(r, m, feat)
		leaderFeat(c, ts, feat)
		kind := []string{"p", "f", "r"}[r.Intn(3)]
		var res string
		switch kind {
		case "p":
			res = outcome(func() (protocol.Broker, error) { return produceReq(ts).Broker(c) })
		case "f":
			res = outcome(func() (protocol.Broker, error) { return fetchReq(ts).Broker(c) })
		default:
			res = outcome(func() (protocol.Broker, error) { return rawProduceReq(ts).Broker(c) })
		}
		emit("route", kind+" "+encCluster(c)+" "+encTps(ts), res, kvfmt.Set(feat))
	}
	// list-offsets: Split, then Broker on each piece; also Broker on unsplit requests
	for i := 0; i < 2*n; i++ {
		feat := map[string]bool{}
		c, m := genCluster(r, feat)
		ts := genTps(r, m, feat)
		leaderFeat(c, ts, feat)
		q := listOffsetsReq(ts)
		msgs, _, err := q.Split(c)
		if err != nil {
			emit("losplit", encTps(ts), "err", kvfmt.Set(feat))
		} else {
			l := make([]string, len(msgs))
			for j, msg := range msgs {
				l[j] = encTps(tpsOfListOffsets(msg.(*listoffsets.Request)))
			}
			emit("losplit", encTps(ts), dot(strings.Join(l, "+")), kvfmt.Set(feat))
			for _, msg := range msgs {
				piece := msg.(*listoffsets.Request)
				emit("lo", encCluster(c)+" "+encTps(tpsOfListOffsets(piece)),
					outcome(func() (protocol.Broker, error) { return piece.Broker(c) }), kvfmt.Set(feat)+",split")
			}
		}
		emit("lo", encCluster(c)+" "+encTps(ts),
			outcome(func() (protocol.Broker, error) { return q.Broker(c) }), kvfmt.Set(feat)+",unsplit")
	}
	// controller-routed kinds, list-groups
	for i := 0; i < n; i++ {
		feat := map[string]bool{}
		c, _ := genCluster(r, feat)
		if _, ok := c.Brokers[c.Controller]; !ok {
			feat["controller-unknown"] = true
		}
		k := ctlKinds[r.Intn(len(ctlKinds))]
		bm := k.mk().(protocol.BrokerMessage)
		emit("ctl", k.name+" "+encCluster(c), outcome(func() (protocol.Broker, error) { return bm.Broker(c) }), kvfmt.Set(feat))
		msgs, _, _ := (&listgroups.Request{}).Split(c)
		var ids []string
		var got []int
		for _, msg := range msgs {
			b, _ := msg.(*listgroups.Request).Broker(c)
			got = append(got, int(b.ID))
		}
		sort.Ints(got)
		for _, g := range got {
			ids = append(ids, zs(int64(g)))
		}
		emit("lgsplit", encCluster(c), dot(strings.Join(ids, ",")), kvfmt.Set(feat))
	}
	// makeLayout
	for i := 0; i < n; i++ {
		m, feat := genMd(r, mdOpts{maxTopics: 6})
		emit("layout", encMd(m), encCluster(kafka.VerifMakeLayout(m)), kvfmt.Set(feat))
	}
	// filterMetadataResponse: on the cache as update leaves it (sorted), and as written on
	// arbitrary (unsorted) input
	for i := 0; i < 2*n; i++ {
		m, feat := genMd(r, mdOpts{maxTopics: 8})
		sorted := r.Intn(4) != 0
		if sorted {
			p := kafka.VerifNewPool(nil, kafka.TCP("ctrl:9092"))
			p.Update(m, nil)
			m, _, _, _, _ = p.State()
			feat["cache-sorted"] = true
		} else {
			feat["cache-unsorted"] = true
		}
		var names []string
		switch r.Intn(8) {
		case 0:
			names = nil
			feat["names=nil"] = true
		case 1:
			names = []string{}
			feat["names=empty"] = true
		default:
			k := 1 + r.Intn(5)
			for j := 0; j < k; j++ {
				if len(m.Topics) > 0 && r.Intn(4) != 0 {
					names = append(names, m.Topics[r.Intn(len(m.Topics))].Name)
				} else {
					names = append(names, genName(r))
					feat["name-maybe-missing"] = true
				}
			}
		}
		res := kafka.VerifFilterMetadataResponse(&meta.Request{TopicNames: names}, m)
		emit("filter", encNames(names)+" "+encMd(m), encMd(res), kvfmt.Set(feat))
	}
	// Client.Metadata over the cache: the public view, field by field
	for i := 0; i < n; i++ {
		m, feat := genMd(r, mdOpts{maxTopics: 5})
		p := kafka.VerifNewPool(nil, kafka.TCP("ctrl:9092"))
		p.Update(cloneMd(m), nil)
		var names []string
		if r.Intn(4) != 0 {
			for j, k := 0, 1+r.Intn(3); j < k; j++ {
				if len(m.Topics) > 0 && r.Intn(4) != 0 {
					names = append(names, m.Topics[r.Intn(len(m.Topics))].Name)
				} else {
					names = append(names, genName(r))
				}
			}
		} else {
			feat["names=nil"] = true
		}
		cl := &kafka.Client{Addr: kafka.TCP("ctrl:9092"), Transport: rtFunc(func(ctx context.Context, req kafka.Request) (kafka.Response, error) {
			return p.RoundTrip(ctx, req)
		})}
		res, err := cl.Metadata(context.Background(), &kafka.MetadataRequest{Topics: names})
		out := "err"
		if err == nil {
			out = encClientMetadata(res)
		}
		emit("cmeta", encNames(names)+" "+encMd(m), out, kvfmt.Set(feat))
	}
	// update sequences
	for i := 0; i < n; i++ {
		feat := map[string]bool{}
		p := kafka.VerifNewPool(nil, kafka.TCP("ctrl:9092"))
		steps := 1 + r.Intn(6)
		var args, res []string
		var prev *meta.Response
		for s := 0; s < steps; s++ {
			var m *meta.Response
			var e error
			var arg string
			switch x := r.Intn(10); {
			case x < 6:
				var f map[string]bool
				if prev != nil && r.Intn(2) == 0 { // a small change of the previous answer
					m = mutateMd(r, prev)
					feat["mutated"] = true
				} else {
					m, f = genMd(r, mdOpts{maxTopics: 4})
					for k := range f {
						feat[k] = true
					}
				}
				prev = m
				arg = "m:" + encMd(m)
			case x < 9:
				tok := 1 + r.Intn(255)
				e = fmt.Errorf("E%x", tok)
				arg = "e:" + fmt.Sprintf("%x", tok)
				feat["refresh-failed"] = true
			default:
				arg = "n"
				feat["nil-nil"] = true
			}
			args = append(args, arg)
			p.Update(cloneMd(m), e)
			md, serr, layout, conns, ready := p.State()
			es := "-"
			if serr != nil {
				es = strings.TrimPrefix(serr.Error(), "E")
			}
			ids := make([]int, 0, len(conns))
			for k := range conns {
				ids = append(ids, int(k))
			}
			sort.Ints(ids)
			cs := make([]string, len(ids))
			for j, k := range ids {
				b := conns[int32(k)]
				cs[j] = zs(int64(k)) + "=" + zs(int64(b.ID)) + "@" + addrOfR(b.Host, int32(b.Port), b.Rack)
			}
			res = append(res, encMd(md)+"^"+es+"^"+encCluster(layout)+"^"+dot(strings.Join(cs, ","))+"^"+kvfmt.Bool(ready))
		}
		emit("upd", strings.Join(args, " "), strings.Join(res, "#"), kvfmt.Set(feat))
	}
	// sendRequest with a dial function that fails: which connection group was used
	for i := 0; i < 2*n; i++ {
		m, feat := genMd(r, mdOpts{uniqueAddr: true, nonneg: r.Intn(6) != 0, maxTopics: 4})
		var dialed string
		dial := func(ctx context.Context, network, address string) (net.Conn, error) {
			dialed = address
			return nil, errors.New("verif: dial refused")
		}
		p := kafka.VerifNewPool(dial, kafka.TCP("ctrl:9092"))
		p.Update(cloneMd(m), nil)
		_, _, layout, _, _ := p.State()
		var req protocol.Message
		var rs string
		switch r.Intn(8) {
		case 0:
			ts := genTps(r, m, feat)
			leaderFeat(layout, ts, feat)
			req, rs = produceReq(ts), "p="+encTps(ts)
		case 1:
			ts := genTps(r, m, feat)
			leaderFeat(layout, ts, feat)
			req, rs = fetchReq(ts), "f="+encTps(ts)
		case 2:
			ts := genTps(r, m, feat)
			leaderFeat(layout, ts, feat)
			req, rs = listOffsetsReq(ts), "lo="+encTps(ts)
		case 3:
			k := ctlKinds[r.Intn(2)]
			req = k.mk()
			rs = "ctl=" + zs(int64(req.ApiKey()))
			if _, ok := layout.Brokers[layout.Controller]; !ok {
				feat["controller-unknown"] = true
			}
		case 4:
			req, rs = &heartbeat.Request{GroupID: "g"}, "g="+zs(int64(protocol.Heartbeat))+":"+nm("g")
		case 5:
			req, rs = &initproducerid.Request{TransactionalID: "x"}, "t="+zs(int64(protocol.InitProducerId))+":"+nm("x")
		case 6:
			req, rs = &meta.Request{}, "o="+zs(int64(protocol.Metadata))
		default:
			msgs, _, _ := (&listgroups.Request{}).Split(layout)
			if len(msgs) == 0 {
				continue
			}
			req = msgs[r.Intn(len(msgs))]
			b, _ := req.(*listgroups.Request).Broker(layout)
			rs = "lg=" + zs(int64(b.ID))
		}
		dialed = ""
		var res string
		func() {
			defer func() {
				if rec := recover(); rec != nil {
					res = "panic"
				}
			}()
			_, err := p.SendRequest(context.Background(), req)
			switch {
			case err == nil:
				res = "sent?"
			case dialed != "":
				res = "dial:" + targetOf(dialed)
			case errors.Is(err, kafka.BrokerNotAvailable):
				res = "unavail"
			default:
				res = "rej:" + encErr(err)
			}
		}()
		emit("send", encMd(m)+" "+rs, res, kvfmt.Set(feat))
	}
}

type rtFunc func(context.Context, kafka.Request) (kafka.Response, error)

func (f rtFunc) RoundTrip(ctx context.Context, _ net.Addr, req kafka.Request) (kafka.Response, error) {
	return f(ctx, req)
}

func errCode(err error) string {
	if err == nil {
		return "0"
	}
	var ke kafka.Error
	if errors.As(err, &ke) {
		return zs(int64(ke))
	}
	return "?" + strings.ReplaceAll(err.Error(), " ", "_")
}

// the result of Client.Metadata: controller~brokers~topics, every broker as id@address-token
func encClientMetadata(res *kafka.MetadataResponse) string {
	eb := func(b kafka.Broker) string { return zs(int64(b.ID)) + "@" + addrOfR(b.Host, int32(b.Port), b.Rack) }
	ebs := func(l []kafka.Broker) string {
		if len(l) == 0 {
			return "."
		}
		x := make([]string, len(l))
		for i, b := range l {
			x[i] = eb(b)
		}
		return strings.Join(x, "+")
	}
	bs := make([]string, len(res.Brokers))
	for i, b := range res.Brokers {
		bs[i] = eb(b)
	}
	ts := make([]string, len(res.Topics))
	for i, t := range res.Topics {
		ps := make([]string, len(t.Partitions))
		for j, p := range t.Partitions {
			ps[j] = zs(int64(p.ID)) + "/" + errCode(p.Error) + "/" + eb(p.Leader) + "/" + ebs(p.Replicas) + "/" + ebs(p.Isr)
		}
		ts[i] = nm(t.Name) + "/" + kvfmt.Bool(t.Internal) + "/" + errCode(t.Error) + ":" + dot(strings.Join(ps, ","))
	}
	return eb(res.Controller) + "~" + dot(strings.Join(bs, ",")) + "~" + dot(strings.Join(ts, ";"))
}

// "h<addr>:9092" with addr = id+16 -> "b<id>"; the control address -> "c"
func targetOf(address string) string {
	if address == "ctrl:9092" {
		return "c"
	}
	host, _, err := net.SplitHostPort(address)
	if err != nil || !strings.HasPrefix(host, "h") {
		if address == ":0" {
			return "zero-address"
		}
		return "?" + address
	}
	a, err := strconv.ParseInt(host[1:], 16, 64)
	if err != nil {
		return "?" + address
	}
	return "b" + zs(a-16)
}

func cloneMd(m *meta.Response) *meta.Response {
	if m == nil {
		return nil
	}
	c := *m
	c.Brokers = append([]meta.ResponseBroker(nil), m.Brokers...)
	c.Topics = make([]meta.ResponseTopic, len(m.Topics))
	for i, t := range m.Topics {
		t.Partitions = append([]meta.ResponsePartition(nil), t.Partitions...)
		c.Topics[i] = t
	}
	return &c
}

// leader moves, a broker added / removed / re-addressed
func mutateMd(r *rand.Rand, m *meta.Response) *meta.Response {
	c := cloneMd(m)
	switch r.Intn(4) {
	case 0:
		if len(c.Brokers) > 0 {
			i := r.Intn(len(c.Brokers))
			c.Brokers = append(c.Brokers[:i], c.Brokers[i+1:]...)
		}
	case 1:
		h, p := hostOf(uint64(1 + r.Intn(9)))
		c.Brokers = append(c.Brokers, meta.ResponseBroker{NodeID: idPool[r.Intn(len(idPool))], Host: h, Port: p})
		if len(c.Brokers) > 1 && r.Intn(2) == 0 { // keep ids distinct most of the time
			seen := map[int32]bool{}
			var l []meta.ResponseBroker
			for _, b := range c.Brokers {
				if !seen[b.NodeID] {
					seen[b.NodeID] = true
					l = append(l, b)
				}
			}
			c.Brokers = l
		}
	case 2: // re-registered under the same id: new address, or only a new rack
		if len(c.Brokers) > 0 {
			i := r.Intn(len(c.Brokers))
			if r.Intn(2) == 0 {
				c.Brokers[i].Host, c.Brokers[i].Port = hostOf(uint64(1 + r.Intn(9)))
			} else {
				c.Brokers[i].Rack = fmt.Sprintf("r%x", 4+r.Intn(3))
			}
		}
	}
	for i := range c.Topics {
		for j := range c.Topics[i].Partitions {
			if r.Intn(3) == 0 && len(c.Brokers) > 0 {
				c.Topics[i].Partitions[j].LeaderID = c.Brokers[r.Intn(len(c.Brokers))].NodeID
			}
		}
	}
	if len(c.Brokers) > 0 && r.Intn(3) == 0 {
		c.ControllerID = c.Brokers[r.Intn(len(c.Brokers))].NodeID
	}
	return c
}

func main() {
	seed := flag.Int64("seed", 1, "PRNG seed")
	count := flag.Int("n", 300, "number of cases per family")
	e2e := flag.Int("e2e", 3, "number of end-to-end scenarios")
	rec := flag.Int("rec", 2, "number of refresh-recovery scenarios")
	fu := flag.Int("fu", 2, "number of concurrent-first-use scenarios")
	fuN := flag.Int("fun", 40, "fresh transports per first-use scenario")
	sasl := flag.Int("sasl", 4, "number of SASL connection set-up scenarios")
	flag.Parse()
	r := rand.New(rand.NewSource(*seed))
	out = bufio.NewWriterSize(os.Stdout, 1<<20)
	defer out.Flush()
	partA(r, *count)
	for i := 0; i < *sasl; i++ {
		runSasl(r, i)
	}
	// breakers: after 3 scenarios of a family exceeded their bound (a refresh that never comes)
	// the rest of the run is emitted as NOT-RUN; the check has its failing cases by then
	for i := 0; i < *e2e; i++ {
		if e2eSlow >= 3 {
			emit("notrun", fmt.Sprintf("e2e %x", i), "NOT-RUN", "breaker")
			continue
		}
		runE2E(r, i)
	}
	for i := 0; i < *rec; i++ {
		if e2eSlow >= 3 || frozenSeen >= 3 { // each frozen pool costs its whole bound
			emit("notrun", fmt.Sprintf("rec %x", i), "NOT-RUN", "breaker")
			continue
		}
		runRecovery(r, i)
	}
	for i := 0; i < *fu; i++ {
		if e2eSlow >= 3 || frozenSeen >= 3 || firstUseFrozen >= 3 {
			emit("notrun", fmt.Sprintf("fu %x", i), "NOT-RUN", "breaker")
			continue
		}
		runFirstUse(r, i, *fuN)
	}
}
