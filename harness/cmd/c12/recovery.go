// Refresh-loop recovery histories of the C12 driver: the transport's own periodic Metadata
// requests time out k times (the brokers leave them unanswered for a full MetadataTTL) or fail
// with an i/o error, then the brokers answer again and leaders move.  The requests must follow
// the new leaders (the refresh loop survives failed and timed-out refreshes).
package main

import (
	"context"
	"fmt"
	"math/rand"
	"strings"
	"time"

	kafka "github.com/segmentio/kafka-go"
	"github.com/segmentio/kafka-go/protocol"
	meta "github.com/segmentio/kafka-go/protocol/metadata"
)

var frozenSeen int

func runRecovery(r *rand.Rand, scenario int) {
	f := &fake{brokers: map[string]*fakeBroker{}, resume: make(chan struct{})}
	ids := []int32{1, 2, 3, 5}
	r.Shuffle(len(ids), func(i, j int) { ids[i], ids[j] = ids[j], ids[i] })
	nb := 2 + r.Intn(3)
	var live []*fakeBroker
	for _, idv := range ids[:nb] {
		v, _ := genVers(r)
		b := &fakeBroker{id: idv, addr: uint64(idv) + 16, vers: v}
		live = append(live, b)
		h, p := hostOf(b.addr)
		f.brokers[fmt.Sprintf("%s:%d", h, p)] = b
	}
	boot := live[0]
	md := &meta.Response{ClusterID: "c12", ControllerID: boot.id}
	for _, b := range live {
		h, p := hostOf(b.addr)
		md.Brokers = append(md.Brokers, meta.ResponseBroker{NodeID: b.id, Host: h, Port: p})
	}
	for i := 0; i < 2; i++ {
		t := meta.ResponseTopic{Name: fmt.Sprintf("r%d", i)}
		for j := 0; j < 1+r.Intn(3); j++ {
			t.Partitions = append(t.Partitions, meta.ResponsePartition{PartitionIndex: int32(j), LeaderID: live[r.Intn(nb)].id,
				ReplicaNodes: []int32{}, IsrNodes: []int32{}, OfflineReplicas: []int32{}})
		}
		md.Topics = append(md.Topics, t)
	}
	f.md = md

	ttl := 60 * time.Millisecond
	tr := &kafka.Transport{Dial: f.dial, MetadataTTL: ttl, IdleTimeout: 10 * time.Minute, ClientID: "c12", DialTimeout: 3 * time.Second}
	h, p := hostOf(boot.addr)
	bootAddr := kafka.TCP(fmt.Sprintf("%s:%d", h, p))
	defer func() {
		tr.CloseIdleConnections()
		f.closeAll()
	}()
	rt := func(msg protocol.Message) (protocol.Message, error) {
		ctx, cancel := context.WithTimeout(context.Background(), 8*time.Second)
		defer cancel()
		return tr.RoundTrip(ctx, bootAddr, msg)
	}
	current := func() *meta.Response {
		f.mu.Lock()
		defer f.mu.Unlock()
		return cloneMd(f.md)
	}
	syncWithin := func(d time.Duration) bool {
		want := encMd(sortedMd(current()))
		t0 := time.Now()
		for time.Since(t0) < d {
			res, err := rt(&meta.Request{})
			if err == nil && encMd(res.(*meta.Response)) == want {
				return true
			}
			time.Sleep(2 * time.Millisecond)
		}
		return false
	}
	if !syncWithin(15 * time.Second) {
		frozenSeen++
		emit("e2efail", "recovery-initial", "the first metadata view never arrived within 15s", "recovery")
		return
	}
	before := current()

	// the fault: k refreshes in a row time out / fail
	k := 1 + r.Intn(3)
	mode, fault := 1, "t"
	if r.Intn(3) == 0 {
		mode, fault = 2, "i"
	}
	f.mu.Lock()
	f.mdMode, f.mdFault = mode, 0
	f.mu.Unlock()
	need := k
	if mode == 1 {
		need = k + 1 // k timed out, one more in flight: it is answered after the brokers resume
	}
	t0 := time.Now()
	for time.Since(t0) < time.Duration(k+2)*2*ttl+time.Second {
		f.mu.Lock()
		n := f.mdFault
		f.mu.Unlock()
		if n >= need {
			break
		}
		time.Sleep(2 * time.Millisecond)
	}
	f.mu.Lock()
	seen := f.mdFault
	// the brokers answer again, and every partition has moved to another leader
	for i := range f.md.Topics {
		for j := range f.md.Topics[i].Partitions {
			pt := &f.md.Topics[i].Partitions[j]
			for {
				if l := live[r.Intn(nb)].id; l != pt.LeaderID {
					pt.LeaderID = l
					break
				}
			}
		}
	}
	f.mdMode = 0
	close(f.resume)
	j0 := len(f.journal)
	f.mu.Unlock()
	after := current()

	t1 := time.Now()
	bound := 10*ttl + 3*time.Second // healthy code needs about two TTLs
	synced := syncWithin(bound)
	lag := time.Since(t1)
	f.mu.Lock()
	mdAfter := 0
	for _, e := range f.journal[j0:] {
		if e.key == 3 {
			mdAfter++
		}
	}
	f.mu.Unlock()

	// a fetch on one moved partition
	t := after.Topics[r.Intn(len(after.Topics))]
	pt := t.Partitions[r.Intn(len(t.Partitions))]
	ts := []tp{{topic: t.Name, parts: []int32{pt.PartitionIndex}}}
	f.mu.Lock()
	j1 := len(f.journal)
	f.mu.Unlock()
	_, err := rt(fetchReq(ts))
	f.mu.Lock()
	var trc []string
	for _, e := range f.journal[j1:] {
		if e.key == 3 || e.key == 18 {
			continue
		}
		trc = append(trc, encJent(e))
	}
	f.mu.Unlock()
	status := "ok"
	if err != nil {
		status = "err"
	}
	res := "live:"
	if !synced {
		res = "frozen:"
		frozenSeen++
	}
	res += dot(strings.Join(trc, ",")) + "/" + status
	faults := make([]string, k)
	for i := range faults {
		faults[i] = fault
	}
	lagf := "recovered<=2ttl"
	if lag > 2*ttl {
		lagf = "recovered<=2ttl+100ms"
	}
	if lag > 2*ttl+100*time.Millisecond {
		lagf = "recovered-later"
	}
	feats := fmt.Sprintf("recovery,fault=%s,k=%d,faulted-requests-seen=%d,metadata-after-recovery=%d,%s", fault, k, seen, min(mdAfter, 3), lagf)
	emit("e2erec", strings.Join([]string{zs(int64(boot.id)), encMd(before), encMd(after), strings.Join(faults, ","),
		encVers(live), encClient(), "f=" + encTps(ts), "-"}, " "), res, feats)
}
