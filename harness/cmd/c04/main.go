// c04: correspondence driver for the schema-directed codec of /repo/protocol
// (properties C04, C17 transport half, C20).
//
//	c04 -mode gen -seed S -n N [-cuts K] [-muts M]
//	    prints  <id> enc <idx> <corr> <cid> <value> | <frame> <decoded> | feats
//	    and     <id> dec <idx> <frame> | | feats        (result filled in by -mode dec)
//	c04 -mode dec   reads "<id> dec <idx> <frame>" lines on stdin, prints "<id> <class>"
//	    (run under ulimit -v by the check; a crash is classified by the caller)
package main

import (
	"bufio"
	"bytes"
	"encoding/binary"
	"encoding/hex"
	"errors"
	"flag"
	"fmt"
	"io"
	"math"
	"math/rand"
	"os"
	"reflect"
	"runtime"
	"strconv"
	"strings"
	"time"

	"github.com/segmentio/kafka-go/protocol"
	"github.com/segmentio/kafka-go/protocol/fetch"
	"kverif/kvfmt"
	"kverif/schemawalk"
)

var out *bufio.Writer
var id int

func emit(op, args, res, feats string) {
	id++
	fmt.Fprintf(out, "%d %s %s | %s | %s\n", id, op, args, res, feats)
}

// ---------------------------------------------------------------- reference layout encoder
// An independent schema-directed encoder (own code, from the Kafka protocol
// guide) that also records where every length / count field sits.

type lenField struct {
	off  int
	kind string // i16 i32 uv
	n    int    // encoded width
	what string
}

func putUvarint(b *[]byte, x uint64) int {
	n := 0
	for x >= 0x80 {
		*b = append(*b, byte(x)|0x80)
		x >>= 7
		n++
	}
	*b = append(*b, byte(x))
	return n + 1
}

// unknownTags > 0: every tag buffer additionally carries that many tagged fields
// the decoder does not know (ids 900, 901, ... with small payloads), placed after
// the known ones.
var unknownTags int

func refEncode(t *schemawalk.Ty, v reflect.Value, flex bool, b *[]byte, lens *[]lenField) {
	lenPrefix := func(n int, null bool, what string) {
		if flex {
			x := uint64(n) + 1
			if null {
				x = 0
			}
			off := len(*b)
			w := putUvarint(b, x)
			*lens = append(*lens, lenField{off, "uv", w, what})
		} else if what == "string" {
			x := int16(n)
			if null {
				x = -1
			}
			*lens = append(*lens, lenField{len(*b), "i16", 2, what})
			*b = binary.BigEndian.AppendUint16(*b, uint16(x))
		} else {
			x := int32(n)
			if null {
				x = -1
			}
			*lens = append(*lens, lenField{len(*b), "i32", 4, what})
			*b = binary.BigEndian.AppendUint32(*b, uint32(x))
		}
	}
	switch t.Kind {
	case "bool":
		if v.Bool() {
			*b = append(*b, 1)
		} else {
			*b = append(*b, 0)
		}
	case "int":
		x := uint64(v.Int())
		for i := t.W - 1; i >= 0; i-- {
			*b = append(*b, byte(x>>(8*uint(i))))
		}
	case "float":
		*b = binary.BigEndian.AppendUint64(*b, mathFloat64bits(v.Float()))
	case "string":
		s := v.String()
		lenPrefix(len(s), t.Nullable && s == "", "string")
		*b = append(*b, s...)
	case "bytes":
		lenPrefix(v.Len(), t.Nullable && v.IsNil(), "bytes")
		*b = append(*b, v.Bytes()...)
	case "array":
		lenPrefix(v.Len(), t.Nullable && v.IsNil(), "array")
		for i := 0; i < v.Len(); i++ {
			refEncode(t.Elem, v.Index(i), flex, b, lens)
		}
	case "struct":
		for _, f := range t.Fields {
			refEncode(f.Ty, v.Field(f.Ord), flex, b, lens)
		}
		if flex {
			cnt := 0
			for _, f := range t.Tagged {
				if f.Ty.Kind != "marker" {
					cnt++
				}
			}
			off := len(*b)
			w := putUvarint(b, uint64(cnt+unknownTags))
			*lens = append(*lens, lenField{off, "uv", w, "tagcount"})
			for _, f := range t.Tagged {
				if f.Ty.Kind == "marker" {
					continue
				}
				putUvarint(b, uint64(f.TagID))
				var sub []byte
				var sublens []lenField
				refEncode(f.Ty, v.Field(f.Ord), flex, &sub, &sublens)
				off := len(*b)
				w := putUvarint(b, uint64(len(sub)))
				*lens = append(*lens, lenField{off, "uv", w, "tagsize"})
				base := len(*b)
				for _, l := range sublens {
					l.off += base
					*lens = append(*lens, l)
				}
				*b = append(*b, sub...)
			}
			for u := 0; u < unknownTags; u++ {
				putUvarint(b, uint64(900+u))
				payload := bytes.Repeat([]byte{0xab}, u*3)
				putUvarint(b, uint64(len(payload)))
				*b = append(*b, payload...)
			}
		}
	case "marker":
	case "records":
		*b = append(*b, 0, 0, 0, 0)
	}
}

func mathFloat64bits(f float64) uint64 { return math.Float64bits(f) }

// ---------------------------------------------------------------- decoding with classification

const budget = 1 << 30

var plainReader bool

type discardReader struct{ *bufio.Reader }

func classify(err error) string {
	if errors.Is(err, io.ErrUnexpectedEOF) || errors.Is(err, io.EOF) {
		return "err eof"
	}
	return "err malformed"
}

func decodeResponse(s *schemawalk.Schema, frame []byte) (res string) {
	done := make(chan string, 1)
	go func() {
		defer func() {
			if r := recover(); r != nil {
				done <- "panic"
			}
		}()
		var m0, m1 runtime.MemStats
		runtime.ReadMemStats(&m0)
		var rd io.Reader = bufio.NewReaderSize(bytes.NewReader(frame), 4096)
		if plainReader {
			// a reader WITHOUT a Discard method (a bare bytes.Reader, a net.Conn): the decoder
			// then skips through its io.Copy fallback
			rd = bytes.NewReader(frame)
		}
		corr, msg, err := protocol.ReadResponse(rd, protocol.ApiKey(s.Api), int16(s.Version))
		runtime.ReadMemStats(&m1)
		if m1.TotalAlloc-m0.TotalAlloc > budget {
			done <- "oom"
			return
		}
		if err != nil {
			done <- classify(err)
			return
		}
		done <- "ok " + kvfmt.I(int64(corr)) + " " + schemawalk.PrintDecoded(s.Ty, reflect.ValueOf(msg).Elem())
	}()
	select {
	case r := <-done:
		return r
	case <-time.After(8 * time.Second): // a decode takes microseconds; 1 GiB of zeroed allocation well under a second
		return "hang"
	}
}

func main() {
	mode := flag.String("mode", "gen", "gen | dec")
	seed := flag.Int64("seed", 1, "PRNG seed")
	count := flag.Int("n", 3, "values per schema")
	cuts := flag.Int("cuts", 6, "truncation points per response frame (0 = all)")
	muts := flag.Int("muts", 4, "mutated length fields per response frame (0 = all)")
	flag.Parse()
	out = bufio.NewWriterSize(os.Stdout, 1<<20)
	defer out.Flush()
	schemas := schemawalk.Schemas()

	if *mode == "dec" {
		sc := bufio.NewScanner(os.Stdin)
		sc.Buffer(make([]byte, 1<<20), 1<<28)
		for sc.Scan() {
			f := strings.Fields(sc.Text())
			if len(f) < 4 || (f[1] != "dec" && f[1] != "decrec" && f[1] != "decnd") {
				continue
			}
			idx, _ := strconv.Atoi(f[2])
			frame, _ := hex.DecodeString(strings.TrimPrefix(f[3], "."))
			plainReader = f[1] == "decnd"
			r := decodeResponse(&schemas[idx], frame)
			if f[1] == "decrec" {
				// implementation-only predicate: the class, never the value
				r = strings.Join(strings.Fields(r)[:min(2, len(strings.Fields(r)))], " ")
				if strings.HasPrefix(r, "ok") {
					r = "ok"
				}
			}
			fmt.Fprintf(out, "%s %s\n", f[0], r)
			out.Flush()
			if r == "hang" {
				os.Exit(3) // the spinning goroutine cannot be stopped
			}
		}
		return
	}

	r := rand.New(rand.NewSource(*seed))
	genRecordMutations(r, schemas, *muts)
	for idx := range schemas {
		s := &schemas[idx]
		if s.Override >= 0 {
			continue // RawProduce override: exercised by C05
		}
		for c := 0; c < *count; c++ {
			o := &schemawalk.GenOpts{MaxArray: 4, MaxBytes: 300, Feats: map[string]bool{}}
			if c == 0 {
				o.MaxArray = 1
				o.MaxBytes = 4
			}
			msg := reflect.New(s.Go)
			schemawalk.Gen(r, s.Ty, msg.Elem(), o, 0)
			vtext := schemawalk.PrintValue(s.Ty, msg.Elem())
			corr := int32(r.Uint32())
			cid := []byte("kverif")
			switch r.Intn(4) {
			case 0:
				cid = nil
			case 1:
				cid = []byte{0xc3, 0xa9, 'x'}
			}
			if s.Flexible {
				o.Feats["flexible"] = true
			}
			dir := "req"
			if s.Response {
				dir = "res"
			}
			o.Feats[dir] = true
			var buf bytes.Buffer
			var err error
			if s.Response {
				err = protocol.WriteResponse(&buf, int16(s.Version), corr, msg.Interface().(protocol.Message))
			} else {
				err = protocol.WriteRequest(&buf, int16(s.Version), corr, string(cid), msg.Interface().(protocol.Message))
			}
			args := fmt.Sprintf("%d %s %s %s", idx, kvfmt.I(int64(corr)), kvfmt.Bytes(cid), vtext)
			if err != nil {
				emit("enc", args, "ENCODE-ERROR:"+err.Error(), kvfmt.Set(o.Feats))
				continue
			}
			frame := append([]byte(nil), buf.Bytes()...)
			// decode it back with the real decoder
			var back string
			func() {
				defer func() {
					if rec := recover(); rec != nil {
						back = "panic"
					}
				}()
				rd := bufio.NewReader(bytes.NewReader(frame))
				if s.Response {
					c2, m2, err := protocol.ReadResponse(rd, protocol.ApiKey(s.Api), int16(s.Version))
					if err != nil {
						back = classify(err)
					} else if c2 != corr {
						back = "CORR-MISMATCH"
					} else {
						back = schemawalk.PrintDecoded(s.Ty, reflect.ValueOf(m2).Elem())
					}
				} else {
					v2, c2, cid2, m2, err := protocol.ReadRequest(rd)
					if err != nil {
						back = classify(err)
					} else if int(v2) != s.Version || c2 != corr || int(m2.ApiKey()) != s.Api {
						back = "HEADER-MISMATCH"
					} else {
						back = kvfmt.Bytes([]byte(cid2)) + ":" + schemawalk.PrintDecoded(s.Ty, reflect.ValueOf(m2).Elem())
					}
				}
				if rd.Buffered() != 0 {
					back += " LEFTOVER"
				}
			}()
			emit("enc", args, kvfmt.Bytes(frame)+" "+back, kvfmt.Set(o.Feats))

			if !s.Response || s.Ty.HasRecords() {
				continue
			}
			// independent layout encoder: must agree byte for byte, gives the length fields
			var body []byte
			var lens []lenField
			refEncode(s.Ty, msg.Elem(), s.Flexible, &body, &lens)
			hdr := 8
			if s.Flexible {
				hdr = 9
			}
			if !bytes.Equal(body, frame[hdr:]) {
				emit("refenc", args, "REF-ENCODER-DISAGREES "+hex.EncodeToString(body), "refenc")
				continue
			}
			// unknown tagged fields (flexible versions): the same value must come back
			if s.Flexible && c == 0 {
				unknownTags = 2
				var ub []byte
				var ul []lenField
				refEncode(s.Ty, msg.Elem(), s.Flexible, &ub, &ul)
				unknownTags = 0
				// header tag buffer with two unknown entries as well
				hb := []byte{2, 0x84, 0x07, 1, 0xcd, 0x85, 0x07, 0}
				f := make([]byte, 4)
				f = binary.BigEndian.AppendUint32(f, uint32(corr))
				f = append(f, hb...)
				f = append(f, ub...)
				binary.BigEndian.PutUint32(f[0:4], uint32(len(f)-4))
				emit("dec", fmt.Sprintf("%d %s", idx, kvfmt.Bytes(f)), "", "unknown-tags")
				emit("decnd", fmt.Sprintf("%d %s", idx, kvfmt.Bytes(f)), "", "unknown-tags,plain-reader")
				emit("decnd", fmt.Sprintf("%d %s", idx, kvfmt.Bytes(frame)), "", "plain-reader")
			}
			// C17: truncation at byte k
			ks := []int{}
			if *cuts == 0 || len(frame) <= *cuts {
				for k := 0; k < len(frame); k++ {
					ks = append(ks, k)
				}
			} else {
				ks = append(ks, 0, 3, 4, 7, len(frame)-1)
				for i := 0; i < *cuts; i++ {
					ks = append(ks, r.Intn(len(frame)))
				}
			}
			for _, k := range ks {
				if k >= len(frame) || k < 0 {
					continue
				}
				emit("dec", fmt.Sprintf("%d %s", idx, kvfmt.Bytes(frame[:k])), "", fmt.Sprintf("cut,cut%%=%d", (k*4)/len(frame)))
			}
			// C20: mutate one length field at a time
			type mut struct {
				frame []byte
				feat  string
			}
			var ms []mut
			setSize := func(f []byte) []byte {
				binary.BigEndian.PutUint32(f[0:4], uint32(len(f)-4))
				return f
			}
			// the frame size itself
			for _, sz := range []int64{-1, 0, 3, int64(len(frame)) - 5, int64(len(frame)) - 3, 0x7fffffff, -2147483648} {
				f := append([]byte(nil), frame...)
				binary.BigEndian.PutUint32(f[0:4], uint32(int32(sz)))
				ms = append(ms, mut{f, "mut-framesize"})
			}
			// the tag buffer of a flexible response header (count, then tag id / size per entry)
			if s.Flexible {
				for _, x := range []uint64{1, 2, 1 << 20, 1<<31 - 1, 1 << 32, 1 << 62, 1 << 63, 1<<63 + 1, ^uint64(0)} {
					var vb []byte
					putUvarint(&vb, x)
					f := append(append(append([]byte(nil), frame[:8]...), vb...), frame[9:]...)
					ms = append(ms, mut{setSize(f), "mut-uv-headertagcount"})
				}
				// one header tag whose size field is huge
				for _, x := range []uint64{1 << 31, 1 << 63, ^uint64(0)} {
					vb := []byte{1, 5}
					putUvarint(&vb, x)
					f := append(append(append([]byte(nil), frame[:8]...), vb...), frame[9:]...)
					ms = append(ms, mut{setSize(f), "mut-uv-headertagsize"})
				}
			}
			pick := lens
			if *muts != 0 && len(lens) > *muts {
				pick = nil
				for i := 0; i < *muts; i++ {
					pick = append(pick, lens[r.Intn(len(lens))])
				}
			}
			for _, l := range pick {
				off := hdr + l.off
				rest := int64(len(frame) - off - l.n)
				switch l.kind {
				case "i16":
					for _, x := range []int64{-1, 0, 1, rest, rest + 1, 0x7fff, -0x8000} {
						f := append([]byte(nil), frame...)
						binary.BigEndian.PutUint16(f[off:], uint16(int16(x)))
						ms = append(ms, mut{f, "mut-i16-" + l.what})
					}
				case "i32":
					for _, x := range []int64{-1, 0, 1, rest, rest + 1, 0x7fffffff, -0x80000000, 0x10000000} {
						f := append([]byte(nil), frame...)
						binary.BigEndian.PutUint32(f[off:], uint32(int32(x)))
						ms = append(ms, mut{f, "mut-i32-" + l.what})
					}
				case "uv":
					vals := []uint64{0, 1, 2, uint64(rest) + 1, uint64(rest) + 2, 1 << 31, 1 << 32, 1 << 62, 1 << 63, 1<<63 + 1, 1<<63 + 2, ^uint64(0)}
					for _, x := range vals {
						var vb []byte
						putUvarint(&vb, x)
						f := append(append(append([]byte(nil), frame[:off]...), vb...), frame[off+l.n:]...)
						ms = append(ms, mut{setSize(f), "mut-uv-" + l.what})
					}
					// over-long varints: 11 and 12 continuation bytes
					for _, n := range []int{10, 11, 12} {
						vb := bytes.Repeat([]byte{0x80}, n)
						vb = append(vb, 0x01)
						f := append(append(append([]byte(nil), frame[:off]...), vb...), frame[off+l.n:]...)
						ms = append(ms, mut{setSize(f), "mut-uv-overlong"})
					}
				}
			}
			// two malformed fields at once: a huge declared frame size AND a huge count,
			// the residual case where allocation follows the declared size
			if c == 0 {
				for _, l := range lens {
					if l.what == "string" || l.what == "tagcount" || l.what == "tagsize" {
						continue
					}
					off := hdr + l.off
					var f []byte
					if l.kind == "i32" {
						f = append([]byte(nil), frame...)
						binary.BigEndian.PutUint32(f[off:], 0x7ffffff0)
					} else if l.kind == "uv" {
						var vb []byte
						putUvarint(&vb, 0x7ffffff0)
						f = append(append(append([]byte(nil), frame[:off]...), vb...), frame[off+l.n:]...)
					} else {
						continue
					}
					binary.BigEndian.PutUint32(f[0:4], 0x7fffffff)
					ms = append(ms, mut{f, "mut-declared-huge-" + l.what})
					break
				}
			}
			for _, m := range ms {
				emit("dec", fmt.Sprintf("%d %s", idx, kvfmt.Bytes(m.frame)), "", m.feat)
			}
		}
	}
}

// genRecordMutations: fetch responses carrying real record sets (message format 1
// and 2, with headers), mutated inside the record-set region.  The schema model
// delegates record sets to C05, so these cases only carry the implementation-side
// predicate of C20/C17: the outcome is a decoded message or an error.
func genRecordMutations(r *rand.Rand, schemas []schemawalk.Schema, muts int) {
	for idx := range schemas {
		s := &schemas[idx]
		if !(s.Response && s.Api == int(protocol.Fetch) && s.Override < 0) {
			continue
		}
		if s.Version != 4 && s.Version != 11 && !(muts == 0) {
			continue // quick tier: one old and one recent version
		}
		for _, rv := range []int8{1, 2} {
			recs := []protocol.Record{
				{Offset: 10, Time: time.UnixMilli(1700000000123), Key: protocol.NewBytes([]byte("k1")), Value: protocol.NewBytes([]byte("value-1"))},
				{Offset: 11, Time: time.UnixMilli(1700000000456), Value: protocol.NewBytes([]byte("v2"))},
			}
			if rv == 2 {
				recs[1].Headers = []protocol.Header{{Key: "h", Value: []byte("x")}}
			}
			msg := &fetch.Response{Topics: []fetch.ResponseTopic{{Topic: "t", Partitions: []fetch.ResponsePartition{{
				Partition: 0, HighWatermark: 12,
				RecordSet: protocol.RecordSet{Version: rv, Records: protocol.NewRecordReader(recs...)},
			}}}}}
			var buf bytes.Buffer
			if err := protocol.WriteResponse(&buf, int16(s.Version), 7, msg); err != nil {
				emit("decrec", fmt.Sprintf("%d .", idx), "ENCODE-ERROR:"+err.Error(), "recordset")
				continue
			}
			frame := buf.Bytes()
			emit("decrec", fmt.Sprintf("%d %s", idx, kvfmt.Bytes(frame)), "", fmt.Sprintf("recordset-v%d,intact", rv))
			start := bytes.Index(frame, []byte{0, 1, 't'}) // topic name, the record set follows the partition header
			if start < 0 {
				start = 8
			}
			for off := start; off < len(frame); off++ {
				if muts != 0 && r.Intn(3) != 0 {
					continue
				}
				for _, x := range []uint32{0xffffffff, 0x7fffffff, 0x80000000, 0} {
					if off+4 > len(frame) {
						break
					}
					f := append([]byte(nil), frame...)
					binary.BigEndian.PutUint32(f[off:], x)
					emit("decrec", fmt.Sprintf("%d %s", idx, kvfmt.Bytes(f)), "", fmt.Sprintf("recordset-v%d,mut32", rv))
				}
				for _, x := range []byte{0x80, 0xff, 0x7f} {
					f := append([]byte(nil), frame...)
					f[off] = x
					emit("decrec", fmt.Sprintf("%d %s", idx, kvfmt.Bytes(f)), "", fmt.Sprintf("recordset-v%d,mut8", rv))
				}
				if off%7 == 0 {
					emit("decrec", fmt.Sprintf("%d %s", idx, kvfmt.Bytes(frame[:off])), "", fmt.Sprintf("recordset-v%d,cut", rv))
				}
			}
		}
	}
}
