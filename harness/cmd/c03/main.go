// Command c03: correspondence driver for property C03 (consumer-group Reader: commits never
// pass undelivered records; delivery resumes at the commit).
//
// Output lines: "<id> <op> <args...> | <go result> | <feature tags>" (see BUILDING.md).
//
//	mkc   makeCommits                                   (step level)
//	merge offsetStash.merge / reset                      (step level)
//	fo    fetchOffsets + makeAssignments vs scripted coordinator (step level)
//	loop  the real commitLoopImmediate / commitLoopInterval + CommitMessages +
//	      commitOffsetsWithRetry against a scripted coordinator, compared with the
//	      model's run of the corresponding label sequence  (step level / model run)
//	hist  a globally sequenced history recorded from 1..3 REAL group Readers on the
//	      wire-level fake broker harness/groupfake, checked by the extracted C03_holds
//	mrun  a random label sequence for the model only (predicates vs model histories)
package main

import (
	"context"
	"errors"
	"flag"
	"fmt"
	"math/rand"
	"os"
	"reflect"
	"sort"
	"strconv"
	"strings"
	"sync"
	"time"

	kafka "github.com/segmentio/kafka-go"
	"kverif/groupfake"
	"kverif/kvfmt"
)

type tpo = kafka.VerifC03TPO

var topics = []string{"t0", "t1", "t2", "t3"}

func tidx(topic string) int {
	for i, t := range topics {
		if t == topic {
			return i
		}
	}
	return 99
}

func fTPO(l []tpo) string {
	if len(l) == 0 {
		return "."
	}
	s := make([]string, len(l))
	for i, e := range l {
		s[i] = kvfmt.I(int64(tidx(e.Topic))) + ":" + kvfmt.I(int64(e.Partition)) + ":" + kvfmt.I(e.Offset)
	}
	return strings.Join(s, ",")
}

func fTP(l []tpo) string {
	if len(l) == 0 {
		return "."
	}
	s := make([]string, len(l))
	for i, e := range l {
		s[i] = kvfmt.I(int64(tidx(e.Topic))) + ":" + kvfmt.I(int64(e.Partition))
	}
	return strings.Join(s, ",")
}

var (
	outMu sync.Mutex
	outN  int
)

func emitE2E(args, res, feats string) {
	if strings.HasPrefix(args, "@quiet ") {
		emit("quiet", strings.TrimPrefix(args, "@quiet "), res, feats)
		return
	}
	emit("hist", args, res, feats)
}

func emit(op, args, res, feats string) {
	outMu.Lock()
	outN++
	fmt.Printf("%d %s %s | %s | %s\n", outN, op, args, res, feats)
	outMu.Unlock()
}

// ---------------------------------------------------------------- step level

func randTPOs(rng *rand.Rand, n int, maxOff int64) []tpo {
	l := make([]tpo, n)
	for i := range l {
		l[i] = tpo{Topic: topics[rng.Intn(2)], Partition: rng.Intn(3), Offset: rng.Int63n(maxOff)}
		if rng.Intn(30) == 0 {
			l[i].Offset = rng.Int63n(1 << 40)
		}
	}
	return l
}

func uniqueStash(rng *rand.Rand, n int) []tpo {
	seen := map[string]bool{}
	var l []tpo
	for _, e := range randTPOs(rng, n, 50) {
		k := fmt.Sprint(e.Topic, e.Partition)
		if !seen[k] {
			seen[k] = true
			l = append(l, e)
		}
	}
	sort.Slice(l, func(i, j int) bool {
		if l[i].Topic != l[j].Topic {
			return l[i].Topic < l[j].Topic
		}
		return l[i].Partition < l[j].Partition
	})
	return l
}

func stepCases(rng *rand.Rand, n int) {
	for i := 0; i < n; i++ {
		msgs := randTPOs(rng, rng.Intn(6), 40)
		emit("mkc", fTPO(msgs), fTPO(kafka.VerifC03MakeCommits(msgs)), fmt.Sprintf("n=%d", len(msgs)))
	}
	for i := 0; i < n; i++ {
		st := uniqueStash(rng, rng.Intn(5))
		cs := randTPOs(rng, rng.Intn(7), 60)
		reset := rng.Intn(5) == 0
		res := kafka.VerifC03Merge(st, cs, reset)
		f := []string{fmt.Sprintf("stash=%d", len(st)), fmt.Sprintf("commits=%d", len(cs))}
		if reset {
			f = append(f, "reset")
		}
		dup := map[string]int{}
		for _, c := range cs {
			dup[fmt.Sprint(c.Topic, c.Partition)]++
		}
		for _, v := range dup {
			if v > 1 {
				f = append(f, "dup")
				break
			}
		}
		emit("merge", kvfmt.Bool(reset)+" "+fTPO(st)+" "+fTPO(cs), fTPO(res), strings.Join(f, ","))
	}
	for i := 0; i < n; i++ {
		start := kafka.FirstOffset
		if rng.Intn(3) == 0 {
			start = kafka.LastOffset
		}
		subs := map[string][]int32{}
		var asg []tpo
		for t := 0; t < 2; t++ {
			for p := 0; p < 3; p++ {
				if rng.Intn(2) == 0 {
					subs[topics[t]] = append(subs[topics[t]], int32(p))
					asg = append(asg, tpo{Topic: topics[t], Partition: p})
				}
			}
		}
		var committed, omit []tpo
		for _, a := range asg {
			switch rng.Intn(5) {
			case 0, 1:
				committed = append(committed, tpo{Topic: a.Topic, Partition: a.Partition, Offset: rng.Int63n(100)})
			case 2:
				committed = append(committed, tpo{Topic: a.Topic, Partition: a.Partition, Offset: -1})
			case 3:
				if rng.Intn(3) == 0 {
					omit = append(omit, a)
				}
			}
		}
		c := &kafka.VerifC03Coord{Committed: committed, Omit: omit}
		res, err := kafka.VerifC03FetchAssign(topics[:2], start, subs, c)
		r := fTPO(res)
		if err != nil {
			r = "ERR"
		}
		f := []string{fmt.Sprintf("asg=%d", len(asg)), fmt.Sprintf("committed=%d", len(committed)), "start=" + kvfmt.I(start)}
		if len(omit) > 0 {
			f = append(f, "omitted")
		}
		emit("fo", kvfmt.I(start)+" "+fTP(asg)+" "+fTPO(committed)+" "+fTP(omit), r, strings.Join(f, ","))
	}
}

// ---------------------------------------------------------------- commit loop vs model run

type loopTok struct {
	kind string // "c" commit call, "a" attempt outcome, "x" end generation, "s" stop reader (stctx)
	msgs []tpo
	out  int
}

func fLoop(toks []loopTok) string {
	s := make([]string, len(toks))
	for i, t := range toks {
		switch t.kind {
		case "c":
			s[i] = "c=" + fTPO(t.msgs)
		case "a":
			s[i] = "a=" + kvfmt.I(int64(t.out))
		default:
			s[i] = t.kind
		}
	}
	return strings.Join(s, " ")
}

func genLoop(rng *rand.Rand, sync bool, failures *int) []loopTok {
	var toks []loopTok
	codes := []int{22, 25, 27, 16, 15, -1}
	attempts := func(stop bool) bool { // returns false when the loop gave up through "s"
		for k := 0; k < 3; k++ {
			o := 0
			if *failures > 0 && rng.Intn(3) == 0 {
				o = codes[rng.Intn(len(codes))]
				*failures--
			}
			toks = append(toks, loopTok{kind: "a", out: o})
			if o == 0 {
				return true
			}
			if stop && k < 2 && rng.Intn(4) == 0 {
				toks = append(toks, loopTok{kind: "s"})
				return false
			}
		}
		return true
	}
	n := 1 + rng.Intn(4)
	pendingStash := false
	if !sync {
		// interval mode, two deterministic shapes:
		//  (A) no tick (CommitInterval 1h): several calls, then the final commit at generation end
		//  (B) ticks (CommitInterval 15ms): one call, wait for the tick commits until one succeeds
		//      (a failed commit keeps the stash: the next tick retries it), repeat
		if rng.Intn(2) == 0 {
			for k := 1 + rng.Intn(5); k > 0; k-- {
				toks = append(toks, loopTok{kind: "c", msgs: randTPOs(rng, 1+rng.Intn(3), 6)})
			}
			toks = append(toks, loopTok{kind: "x"})
			attempts(false)
			return toks
		}
		for i := 0; i < n; i++ {
			toks = append(toks, loopTok{kind: "c", msgs: randTPOs(rng, 1+rng.Intn(3), 6)})
			for !attempts(false) || toks[len(toks)-1].out != 0 {
			}
		}
		toks = append(toks, loopTok{kind: "x"})
		return toks
	}
	for i := 0; i < n; i++ {
		m := randTPOs(rng, 1+rng.Intn(3), 6)
		if rng.Intn(12) == 0 {
			m = nil
		}
		toks = append(toks, loopTok{kind: "c", msgs: m})
		if m == nil {
			continue // empty call: nil without a request
		}
		if !attempts(true) {
			return toks
		}
	}
	_ = pendingStash
	toks = append(toks, loopTok{kind: "x"})
	return toks
}

func runLoop(sync bool, toks []loopTok) (string, bool) {
	var outcomes []int
	for _, t := range toks {
		if t.kind == "a" {
			outcomes = append(outcomes, t.out)
		}
	}
	c := &kafka.VerifC03Coord{Outcomes: outcomes, Seen: make(chan struct{}, 64)}
	interval := time.Duration(0)
	if !sync {
		interval = time.Hour
		for _, t := range toks {
			if t.kind == "x" {
				break
			}
			if t.kind == "a" {
				interval = 15 * time.Millisecond
			}
		}
	}
	l := kafka.VerifC03NewLoop(interval, c, 7, "m-1")
	type ret struct {
		k   int
		err error
	}
	rets := make(chan ret, 64)
	calls := 0
	okAll := true
	waitSeen := func() {
		select {
		case <-c.Seen:
		case <-time.After(10 * time.Second):
			okAll = false
		}
	}
	var wg sync2
	for i, t := range toks {
		switch t.kind {
		case "c":
			k := calls
			calls++
			msgs := t.msgs
			if sync {
				wg.Add(1)
				go func() {
					defer wg.Done()
					ctx, cancel := context.WithTimeout(context.Background(), 20*time.Second)
					defer cancel()
					rets <- ret{k, l.Commit(ctx, msgs)}
				}()
				// in sync mode the loop picks the request up at once; an empty call is
				// answered without a request: wait for its return to keep the order
				if msgs == nil || (i+1 < len(toks) && toks[i+1].kind == "c") {
					time.Sleep(5 * time.Millisecond)
				}
			} else {
				rets <- ret{k, l.Commit(context.Background(), msgs)}
			}
		case "a":
			waitSeen()
		case "s":
			l.Stop()
		case "x":
			// let the loop take everything already sent (interval: merged at receive)
			time.Sleep(10 * time.Millisecond)
			go l.End(20 * time.Second)
		}
	}
	if !l.End(20 * time.Second) {
		okAll = false
	}
	wg.Wait()
	close(rets)
	res := make([]string, calls)
	for r := range rets {
		if r.err == nil {
			res[r.k] = "nil"
		} else {
			res[r.k] = "err"
		}
	}
	reqs, ans := c.VerifC03Snapshot()
	var parts []string
	for i, rq := range reqs {
		parts = append(parts, "O"+fTPO(rq)+"="+kvfmt.I(int64(ans[i])))
	}
	if len(parts) == 0 {
		parts = []string{"."}
	}
	return strings.Join(parts, ";") + "|" + strings.Join(res, ","), okAll
}

type sync2 = sync.WaitGroup

func loopCases(rng *rand.Rand, n int) {
	failures := 2 + n/3 // failing attempts cost 100-300 ms of real back-off each
	type job struct {
		sync bool
		toks []loopTok
	}
	var jobs []job
	for i := 0; i < n; i++ {
		sy := i%2 == 0
		jobs = append(jobs, job{sy, genLoop(rng, sy, &failures)})
	}
	var wg sync.WaitGroup
	for _, j := range jobs {
		j := j
		wg.Add(1)
		go func() {
			defer wg.Done()
			res, ok := runLoop(j.sync, j.toks)
			mode := "i"
			if j.sync {
				mode = "s"
			}
			f := []string{"mode=" + mode}
			fails, stop, empty := 0, false, false
			for _, t := range j.toks {
				if t.kind == "a" && t.out != 0 {
					fails++
				}
				if t.kind == "s" {
					stop = true
				}
				if t.kind == "c" && t.msgs == nil {
					empty = true
				}
			}
			if fails > 0 {
				f = append(f, fmt.Sprintf("fail=%d", fails))
			}
			if stop {
				f = append(f, "giveup")
			}
			if empty {
				f = append(f, "emptycall")
			}
			if !ok {
				res = "HANG " + res
			}
			emit("loop", mode+" "+fLoop(j.toks), res, strings.Join(f, ","))
		}()
	}
	wg.Wait()
}

// ---------------------------------------------------------------- generation end with queued requests
//
// loopend: the real commitLoopImmediate with requests still queued in Reader.commits when the
// generation context ends.  The first call is answered with an error, so the loop sleeps in its
// 100 ms back-off; meanwhile the other calls are queued and the context is cancelled.  After
// the first commit the loop's select sees both ctx.Done and the queue ready (Go picks at
// random): k requests are handled one by one, the rest is drained into the final commit.  The
// observation is (i) checked directly: a call answered nil must be covered by an accepted
// OffsetCommit, and (ii) given to the model driver, which looks for a schedule k of the model
// that reproduces it exactly.
func loopEndCases(rng *rand.Rand, n int) {
	var wg sync.WaitGroup
	sem := make(chan struct{}, 16)
	for i := 0; i < n; i++ {
		nreq := 2 + rng.Intn(5)
		perm := rng.Perm(6)
		reqs := make([][]tpo, nreq)
		for j := range reqs {
			tp := perm[j%6]
			reqs[j] = []tpo{{Topic: topics[tp/3], Partition: tp % 3, Offset: rng.Int63n(40)}}
			if j >= 6 {
				reqs[j][0].Offset += 50
			}
		}
		outcomes := []int{[]int{16, 27, 22, -1}[rng.Intn(4)], 0}
		for len(outcomes) < nreq+3 {
			outcomes = append(outcomes, 0)
		}
		if rng.Intn(4) == 0 {
			outcomes[2+rng.Intn(nreq)] = []int{16, 25, -1}[rng.Intn(3)]
		}
		wg.Add(1)
		go func() {
			defer wg.Done()
			sem <- struct{}{}
			defer func() { <-sem }()
			c := &kafka.VerifC03Coord{Outcomes: append([]int(nil), outcomes...), Seen: make(chan struct{}, 64)}
			l := kafka.VerifC03NewLoop(0, c, 7, "m-1")
			rets := make([]string, nreq)
			late := make([]bool, nreq)
			var cw sync.WaitGroup
			call := func(k int) {
				cw.Add(1)
				go func() {
					defer cw.Done()
					ctx, cancel := context.WithTimeout(context.Background(), 8*time.Second)
					defer cancel()
					err := l.Commit(ctx, reqs[k])
					if err == nil {
						rets[k] = "nil"
					} else {
						rets[k] = "err"
						// the request reached Reader.commits only after the loop had exited
						// (this goroutine was not scheduled for > 100 ms): nobody answers it
						late[k] = errors.Is(err, context.DeadlineExceeded)
					}
				}()
			}
			call(0)
			hang := false
			select {
			case <-c.Seen: // first attempt answered with an error: the loop is in its back-off
			case <-time.After(10 * time.Second):
				hang = true
			}
			for k := 1; k < nreq; k++ {
				call(k)
				time.Sleep(3 * time.Millisecond)
			}
			time.Sleep(5 * time.Millisecond)
			if !l.End(30 * time.Second) {
				hang = true
			}
			cw.Wait()
			rq, ans := c.VerifC03Snapshot()
			var parts []string
			for i, r := range rq {
				parts = append(parts, "O"+fTPO(r)+"="+kvfmt.I(int64(ans[i])))
			}
			// the property on the observation itself:
			//  - a call answered nil is covered by an ACCEPTED OffsetCommit at >= its offset + 1
			//  - every offset on the wire is offset+1 of a queued call (nothing beyond what was asked)
			verdict := "ok"
			for k, r := range rets {
				if r != "nil" {
					continue
				}
				covered := false
				for i, q := range rq {
					if ans[i] != 0 {
						continue
					}
					for _, e := range q {
						if e.Topic == reqs[k][0].Topic && e.Partition == reqs[k][0].Partition && e.Offset >= reqs[k][0].Offset+1 {
							covered = true
						}
					}
				}
				if !covered {
					verdict = fmt.Sprintf("NILNOTRECORDED:call=%d", k)
				}
			}
			for _, q := range rq {
				for _, e := range q {
					asked := false
					for _, r := range reqs {
						if e.Topic == r[0].Topic && e.Partition == r[0].Partition && e.Offset == r[0].Offset+1 {
							asked = true
						}
					}
					if !asked && verdict == "ok" {
						verdict = "UNEXPLAINED:" + fTPO([]tpo{e})
					}
				}
			}
			if hang {
				verdict = "HANG"
			}
			anyLate := false
			for _, x := range late {
				anyLate = anyLate || x
			}
			var toks []string
			for _, r := range reqs {
				toks = append(toks, "c="+fTPO(r))
			}
			os := make([]string, len(outcomes))
			for i, o := range outcomes {
				os[i] = kvfmt.I(int64(o))
			}
			f := []string{fmt.Sprintf("queued=%d", nreq-1)}
			if len(rq) > 2 && len(rq[len(rq)-1]) >= 2 {
				f = append(f, "merged-final")
			}
			if len(rq) > 3 {
				f = append(f, "some-handled-singly")
			}
			obs := strings.Join(parts, ";") + "~" + strings.Join(rets, ",")
			if anyLate || hang {
				// outside the scripted situation (machine stall): keep the property verdict,
				// do not ask the model for a schedule
				obs = "skip"
				f = append(f, "late-arrival")
			}
			emit("loopend", "s "+strings.Join(toks, " ")+" a="+strings.Join(os, ",")+" obs="+obs, verdict, strings.Join(f, ","))
		}()
	}
	wg.Wait()
}

// ---------------------------------------------------------------- end-to-end histories

type logHook struct {
	b      *groupfake.Broker
	client string
}

func (l logHook) Printf(format string, args ...interface{}) {
	kind := ""
	switch {
	case strings.HasPrefix(format, "initializing kafka reader for partition"):
		kind = "rinit"
	case strings.HasPrefix(format, "the kafka reader for partition %d of %s is seeking to offset"):
		kind = "rseek"
	default:
		return
	}
	if len(args) < 3 {
		return
	}
	p, _ := args[0].(int)
	t, _ := args[1].(string)
	off := reflect.ValueOf(args[2]).Int()
	l.b.Record(groupfake.Event{Kind: kind, Client: l.client, TPs: []groupfake.TPO{{Topic: t, Partition: p, Offset: off}}})
}

type scen struct {
	name     string
	sync     bool
	start    int64
	members  int
	topics   int
	parts    int
	recs     int
	actions  int
	faults   bool
	rebal    bool
	scripted string // "lastoffset": the replay of the Coq refutation witness; "codes"; "evict"
	code     int16  // "codes": the error code every partition of the next OffsetCommit answers carries
	missing  int    // "quiet": index of the subscribed topic that does not exist (-1: all exist)
	partsPer []int  // "quiet": partitions of each subscribed topic
	verdict  string // set by scripted scenarios: "ok" or "STALLED:..." / "NILNOTRECORDED:..."
}

type member struct {
	idx    int
	client string
	r      *kafka.Reader
	held   []kafka.Message
}

func newReader(b *groupfake.Broker, sc scen, client string) *kafka.Reader {
	ci := time.Duration(0)
	if !sc.sync {
		ci = 12 * time.Millisecond
	}
	cfg := kafka.ReaderConfig{
		Brokers:           []string{b.Addr()},
		GroupID:           "g",
		Dialer:            &kafka.Dialer{ClientID: client, DialFunc: b.Dial, Timeout: 3 * time.Second},
		HeartbeatInterval: 15 * time.Millisecond,
		SessionTimeout:    2 * time.Second,
		RebalanceTimeout:  400 * time.Millisecond,
		JoinGroupBackoff:  10 * time.Millisecond,
		MaxWait:           40 * time.Millisecond,
		ReadBackoffMin:    2 * time.Millisecond,
		ReadBackoffMax:    10 * time.Millisecond,
		CommitInterval:    ci,
		ReadLagInterval:   -1,
		MaxAttempts:       3,
		StartOffset:       sc.start,
		QueueCapacity:     8,
		Logger:            logHook{b, client},
	}
	if sc.topics == 1 {
		cfg.Topic = topics[0]
	} else {
		cfg.GroupTopics = topics[:sc.topics]
	}
	return kafka.NewReader(cfg)
}

func toTPO(m kafka.Message) groupfake.TPO {
	return groupfake.TPO{Topic: m.Topic, Partition: m.Partition, Offset: m.Offset}
}

func (m *member) fetch(b *groupfake.Broker, d time.Duration) bool {
	ctx, cancel := context.WithTimeout(context.Background(), d)
	defer cancel()
	msg, err := m.r.FetchMessage(ctx)
	if err != nil {
		return false
	}
	b.Record(groupfake.Event{Kind: "deliver", Client: m.client, TPs: []groupfake.TPO{toTPO(msg)}})
	m.held = append(m.held, msg)
	return true
}

var callID struct {
	sync.Mutex
	n int
}

func (m *member) commit(b *groupfake.Broker, msgs []kafka.Message) error {
	callID.Lock()
	callID.n++
	id := callID.n
	callID.Unlock()
	tps := make([]groupfake.TPO, len(msgs))
	for i, x := range msgs {
		tps[i] = toTPO(x)
	}
	b.Record(groupfake.Event{Kind: "ccall", Client: m.client, ID: id, TPs: tps})
	ctx, cancel := context.WithTimeout(context.Background(), 3*time.Second)
	defer cancel()
	err := m.r.CommitMessages(ctx, msgs...)
	code := 0
	if err != nil {
		code = 1
	}
	b.Record(groupfake.Event{Kind: "cret", Client: m.client, ID: id, Code: code})
	return err
}

func waitCond(d time.Duration, cond func() bool) bool {
	dl := time.Now().Add(d)
	for !cond() {
		if time.Now().After(dl) {
			return false
		}
		time.Sleep(2 * time.Millisecond)
	}
	return true
}

func countEvents(b *groupfake.Broker, pred func(groupfake.Event) bool) int {
	n := 0
	for _, e := range b.History() {
		if pred(e) {
			n++
		}
	}
	return n
}

// the replay of C03_delivered_before_covered_lastoffset_refuted on the real Reader
func runLastOffset(b *groupfake.Broker, sc scen, feats map[string]bool) {
	b.Append(topics[0], 0, 1)
	m := &member{0, "c0", newReader(b, sc, "c0"), nil}
	defer m.r.Close()
	seeks := func() int { return countEvents(b, func(e groupfake.Event) bool { return e.Kind == "rseek" }) }
	if !waitCond(5*time.Second, func() bool { return seeks() >= 1 }) {
		feats["stuck"] = true
		return
	}
	// second generation: hold its OffsetFetch while two records are appended
	var once sync.Once
	gate := make(chan struct{})
	b.SetFault(func(api, client, mem string) groupfake.Fault {
		if api == "ofetch" {
			once.Do(func() { <-gate })
		}
		return groupfake.Fault{}
	})
	b.ForceRebalance("script")
	ok := waitCond(5*time.Second, func() bool {
		return countEvents(b, func(e groupfake.Event) bool { return e.Kind == "sync" && e.Code == 0 }) >= 2
	})
	b.Append(topics[0], 0, 2)
	close(gate)
	if !ok || !waitCond(5*time.Second, func() bool { return seeks() >= 2 }) {
		feats["stuck"] = true
		return
	}
	b.SetFault(nil)
	b.Append(topics[0], 0, 1)
	for i := 0; i < 40 && len(m.held) == 0; i++ {
		m.fetch(b, 100*time.Millisecond)
	}
	if len(m.held) > 0 {
		m.commit(b, m.held[len(m.held)-1:])
	}
	feats["rebalance"] = true
}

// ---- wire-level commit answers: the Reader's coordinator connection is the REAL *Conn
// (Conn.offsetCommit -> timeoutCoordinator -> Generation.CommitOffsets); the fake broker
// answers the next three OffsetCommit requests with sc.code on every partition.
//
//	sync:     whatever CommitMessages returns is recorded; the history predicate
//	          (sync-commit-recorded) and the direct comparison below decide
//	interval: CommitMessages returns nil at once; a rejected commit must keep the stash, so
//	          that a later tick records the offsets (bounded by a watchdog)
func runCommitCodes(b *groupfake.Broker, sc scen, fs map[string]bool) string {
	for p := 0; p < sc.parts; p++ {
		b.Append(topics[0], p, 3)
	}
	m := &member{0, "c0", newReader(b, sc, "c0"), nil}
	defer m.r.Close()
	want := 2 * sc.parts
	for i := 0; i < 200 && len(m.held) < want; i++ {
		m.fetch(b, 100*time.Millisecond)
	}
	if len(m.held) == 0 {
		return "STALLED:no message delivered within the watchdog"
	}
	var mu sync.Mutex
	left := 3
	if sc.code == 0 {
		left = 0
	}
	b.SetFault(func(api, client, mem string) groupfake.Fault {
		mu.Lock()
		defer mu.Unlock()
		if api == "ocommit" && left > 0 {
			left--
			return groupfake.Fault{Code: sc.code}
		}
		return groupfake.Fault{}
	})
	last := map[int]kafka.Message{}
	for _, x := range m.held {
		last[x.Partition] = x
	}
	var sel []kafka.Message
	for p := 0; p < sc.parts; p++ {
		if x, ok := last[p]; ok {
			sel = append(sel, x)
		}
	}
	err := m.commit(b, sel)
	fs[fmt.Sprintf("code=%d", sc.code)] = true
	recorded := func() bool {
		for _, x := range sel {
			if c, ok := b.Committed(x.Topic, x.Partition); !ok || c < x.Offset+1 {
				return false
			}
		}
		return true
	}
	if sc.sync {
		if err == nil && !recorded() {
			return fmt.Sprintf("NILNOTRECORDED:code=%d", sc.code)
		}
		if err != nil {
			fs["commiterr"] = true
		}
		return "ok"
	}
	if !waitCond(6*time.Second, recorded) {
		return fmt.Sprintf("STALLED:interval commit not recorded within the watchdog after OffsetCommit answers with code %d", sc.code)
	}
	return "ok"
}

// ---- eviction: the coordinator forgets a member mid-generation (UnknownMemberId on its
// heartbeat, then on its JoinGroup with the stale id; only an empty id is accepted).  The
// group must reach a new generation and every stored record must be delivered.
func runEvict(b *groupfake.Broker, sc scen, fs map[string]bool, rng *rand.Rand) string {
	total := 0
	for p := 0; p < sc.parts; p++ {
		n := 3 + rng.Intn(3)
		b.Append(topics[0], p, n)
		total += n
	}
	var ms []*member
	for i := 0; i < sc.members; i++ {
		c := fmt.Sprintf("c%d", i)
		ms = append(ms, &member{i, c, newReader(b, sc, c), nil})
	}
	defer func() {
		for _, m := range ms {
			m.r.Close()
		}
	}()
	seen := map[string]bool{}
	step := func(m *member) {
		if m.fetch(b, 50*time.Millisecond) {
			x := m.held[len(m.held)-1]
			seen[fmt.Sprintf("%d/%d", x.Partition, x.Offset)] = true
			if rng.Intn(2) == 0 {
				m.commit(b, m.held[len(m.held)-1:])
			}
		}
	}
	for i := 0; i < 100 && len(seen) < 2; i++ {
		step(ms[i%len(ms)])
	}
	if len(seen) == 0 {
		return "STALLED:no message delivered within the watchdog before the eviction"
	}
	evictions := 1 + rng.Intn(2)
	for k := 0; k < evictions; k++ {
		victim := ms[rng.Intn(len(ms))]
		id := ""
		if !waitCond(8*time.Second, func() bool { id = b.MemberOf(victim.client); return id != "" && b.State() == "Stable" }) {
			return "STALLED:group did not become stable within the watchdog"
		}
		gen0 := b.Generation()
		b.Evict(id, "script")
		fs["evict"] = true
		rejoined := func() bool {
			nid := b.MemberOf(victim.client)
			return nid != "" && nid != id && b.Generation() > gen0
		}
		dl := time.Now().Add(8 * time.Second)
		for i := 0; !rejoined() && time.Now().Before(dl); i++ {
			step(ms[i%len(ms)])
		}
		if !rejoined() {
			return "STALLED:evicted member " + victim.client + " did not reach a new generation within the watchdog (member id " + id + ")"
		}
	}
	dl := time.Now().Add(8 * time.Second)
	for i := 0; len(seen) < total && time.Now().Before(dl); i++ {
		step(ms[i%len(ms)])
	}
	if len(seen) < total {
		return fmt.Sprintf("STALLED:only %d of %d stored records delivered within the watchdog after the eviction", len(seen), total)
	}
	return "ok"
}

// ---- synchronous commits racing with the end of the generation: several goroutines call
// CommitMessages (distinct partitions) while the commit loop is busy (OffsetCommit answers are
// delayed) and the generation is ended by a rebalance notice on the heartbeat, an eviction or
// Close.  Every return is recorded (ccall/cret) and, after each round, compared with what the
// coordinator has recorded.
func runCommitAtEnd(b *groupfake.Broker, sc scen, fs map[string]bool, rng *rand.Rand) string {
	rounds := 5
	for p := 0; p < sc.parts; p++ {
		b.Append(topics[0], p, rounds)
	}
	m := &member{0, "c0", newReader(b, sc, "c0"), nil}
	closed := false
	defer func() {
		if !closed {
			m.r.Close()
		}
	}()
	byPart := map[int][]kafka.Message{}
	got := 0
	dl := time.Now().Add(10 * time.Second)
	for got < rounds*sc.parts && time.Now().Before(dl) {
		if m.fetch(b, 100*time.Millisecond) {
			x := m.held[len(m.held)-1]
			byPart[x.Partition] = append(byPart[x.Partition], x)
			got++
		}
	}
	if got < rounds*sc.parts {
		return fmt.Sprintf("STALLED:only %d of %d records delivered within the watchdog", got, rounds*sc.parts)
	}
	b.SetFault(func(api, client, mem string) groupfake.Fault {
		if api == "ocommit" {
			return groupfake.Fault{Delay: 25 * time.Millisecond}
		}
		return groupfake.Fault{}
	})
	for round := 0; round < rounds; round++ {
		if !waitCond(8*time.Second, func() bool { return b.MemberOf("c0") != "" && b.State() == "Stable" }) {
			return "STALLED:group did not become stable within the watchdog"
		}
		time.Sleep(20 * time.Millisecond) // let the new generation's commit loop start
		type res struct {
			msg kafka.Message
			err error
		}
		out := make(chan res, sc.parts)
		for p := 0; p < sc.parts; p++ {
			if len(byPart[p]) <= round {
				continue
			}
			x := byPart[p][round]
			go func() { out <- res{x, m.commit(b, []kafka.Message{x})} }()
		}
		time.Sleep(time.Duration(2+rng.Intn(10)) * time.Millisecond)
		how := round % 3
		if round == rounds-1 {
			how = 3
		}
		switch how {
		case 0, 2:
			b.ForceRebalance("script")
			fs["end-by-rebalance"] = true
		case 1:
			if id := b.MemberOf("c0"); id != "" {
				b.Evict(id, "script")
				fs["end-by-eviction"] = true
			}
		case 3:
			closed = true
			go m.r.Close()
			fs["end-by-close"] = true
		}
		for p := 0; p < sc.parts; p++ {
			if len(byPart[p]) <= round {
				continue
			}
			select {
			case r := <-out:
				if r.err != nil {
					fs["commiterr"] = true
					continue
				}
				if c, ok := b.Committed(r.msg.Topic, r.msg.Partition); !ok || c < r.msg.Offset+1 {
					return fmt.Sprintf("NILNOTRECORDED:round=%d partition=%d offset=%d", round, r.msg.Partition, r.msg.Offset)
				}
			case <-time.After(15 * time.Second):
				return "STALLED:a synchronous CommitMessages did not return within the watchdog"
			}
		}
	}
	return "ok"
}

// ---- multi-topic subscriptions run to quiescence: the group subscribes to 2-4 topics
// (GroupTopics) of which at most one does not exist; the leader's assignment (computed by the
// real assignTopicPartitions + balancer from per-topic metadata) must cover every partition of
// every existing topic in the final generation, and every stored record must be delivered.
func runQuiet(b *groupfake.Broker, sc scen, fs map[string]bool, rng *rand.Rand) string {
	type tpk struct {
		t string
		p int
	}
	want := map[tpk]int64{}
	total := 0
	for i := 0; i < sc.topics; i++ {
		if i == sc.missing {
			continue
		}
		for p := 0; p < sc.partsPer[i]; p++ {
			n := 1 + rng.Intn(4)
			b.Append(topics[i], p, n)
			want[tpk{topics[i], p}] = int64(n)
			total += n
		}
	}
	if sc.missing >= 0 {
		fs[fmt.Sprintf("missing-topic-at=%d/%d", sc.missing, sc.topics)] = true
	}
	var ms []*member
	for i := 0; i < sc.members; i++ {
		c := fmt.Sprintf("c%d", i)
		ms = append(ms, &member{i, c, newReader(b, sc, c), nil})
	}
	defer func() {
		for _, m := range ms {
			m.r.Close()
		}
	}()
	// the group settles: every member has synced in the coordinator's current generation
	settled := func() bool {
		if b.State() != "Stable" || len(b.Members()) != len(ms) {
			return false
		}
		g := b.Generation()
		n := 0
		for _, e := range b.History() {
			if e.Kind == "sync" && e.Code == 0 && e.Drop == 0 && e.Gen == g {
				n++
			}
		}
		return n >= len(ms)
	}
	if !waitCond(10*time.Second, settled) {
		return "STALLED:the group did not settle in a stable generation within the watchdog"
	}
	// what the leader distributed in this generation must cover the existing partitions
	g := b.Generation()
	b.Record(groupfake.Event{Kind: "note", Note: "quiescent", Gen: g})
	covered := map[tpk]bool{}
	for _, e := range b.History() {
		if e.Kind == "sync" && e.Code == 0 && e.Gen == g {
			for _, t := range e.TPs {
				covered[tpk{t.Topic, t.Partition}] = true
			}
		}
	}
	verdict := "ok"
	for k := range want {
		if !covered[k] && (verdict == "ok" || verdict > fmt.Sprintf("UNCOVERED:%s/%d", k.t, k.p)) {
			verdict = fmt.Sprintf("UNCOVERED:%s/%d", k.t, k.p)
		}
	}
	seen := map[string]bool{}
	dl := time.Now().Add(10 * time.Second)
	if verdict != "ok" {
		dl = time.Now().Add(300 * time.Millisecond) // already decided: just record some deliveries
	}
	for i := 0; len(seen) < total && time.Now().Before(dl); i++ {
		m := ms[i%len(ms)]
		if m.fetch(b, 40*time.Millisecond) {
			x := m.held[len(m.held)-1]
			seen[fmt.Sprintf("%s/%d/%d", x.Topic, x.Partition, x.Offset)] = true
			m.commit(b, m.held[len(m.held)-1:])
		}
	}
	if verdict == "ok" && len(seen) < total {
		if b.Generation() != g {
			return "STALLED:the group left its generation and not every record was delivered within the watchdog"
		}
		return fmt.Sprintf("STALLED:only %d of %d stored records of the existing topics delivered within the watchdog", len(seen), total)
	}
	return verdict
}

func runScenario(seed int64, sc scen) (args string, feats string, verdict string) {
	verdict = "ok"
	rng := rand.New(rand.NewSource(seed))
	tcfg := map[string]int{}
	for i := 0; i < sc.topics; i++ {
		tcfg[topics[i]] = sc.parts
	}
	if sc.scripted == "quiet" {
		tcfg = map[string]int{}
		for i := 0; i < sc.topics; i++ {
			if i != sc.missing {
				tcfg[topics[i]] = sc.partsPer[i]
			}
		}
	}
	b := groupfake.New(groupfake.Config{Topics: tcfg})
	defer b.Close()
	fs := map[string]bool{}
	if sc.scripted == "lastoffset" {
		runLastOffset(b, sc, fs)
	} else if sc.scripted == "codes" {
		verdict = runCommitCodes(b, sc, fs)
	} else if sc.scripted == "evict" {
		verdict = runEvict(b, sc, fs, rng)
	} else if sc.scripted == "commit-at-end" {
		verdict = runCommitAtEnd(b, sc, fs, rng)
	} else if sc.scripted == "quiet" {
		verdict = runQuiet(b, sc, fs, rng)
	} else {
		for i := 0; i < sc.topics; i++ {
			for p := 0; p < sc.parts; p++ {
				b.Append(topics[i], p, 1+rng.Intn(sc.recs))
			}
		}
		var ms []*member
		add := func() {
			i := len(ms)
			c := fmt.Sprintf("c%d", i)
			ms = append(ms, &member{i, c, newReader(b, sc, c), nil})
		}
		add()
		var oneShot struct {
			sync.Mutex
			api string
			f   groupfake.Fault
		}
		b.SetFault(func(api, client, mem string) groupfake.Fault {
			oneShot.Lock()
			defer oneShot.Unlock()
			if oneShot.api == api {
				oneShot.api = ""
				return oneShot.f
			}
			return groupfake.Fault{}
		})
		deadline := time.Now().Add(4 * time.Second)
		for a := 0; a < sc.actions && time.Now().Before(deadline); a++ {
			m := ms[rng.Intn(len(ms))]
			switch x := rng.Intn(100); {
			case x < 55:
				if m.fetch(b, 60*time.Millisecond) {
					fs["deliver"] = true
				}
			case x < 75:
				if len(m.held) > 0 {
					k := 1 + rng.Intn(2)
					if k > len(m.held) {
						k = len(m.held)
					}
					sel := m.held[len(m.held)-k:]
					if rng.Intn(6) == 0 { // an old message again (stale commit)
						sel = m.held[:1]
						fs["oldcommit"] = true
					}
					if m.commit(b, sel) != nil {
						fs["commiterr"] = true
					}
				}
			case x < 80:
				b.Append(topics[rng.Intn(sc.topics)], rng.Intn(sc.parts), 1+rng.Intn(2))
			case x < 86 && sc.rebal:
				b.ForceRebalance("script")
				fs["rebalance"] = true
			case x < 89 && sc.rebal:
				if id := b.MemberOf(m.client); id != "" {
					b.Evict(id, "script")
					fs["evict"] = true
				}
			case x < 93 && sc.members > len(ms):
				add()
				fs["join2"] = true
			case x < 95 && len(ms) > 1 && sc.rebal:
				// a member leaves for good (its Reader is closed: LeaveGroup)
				last := ms[len(ms)-1]
				if last != m {
					last.r.Close()
					ms = ms[:len(ms)-1]
					fs["leave"] = true
				}
			case sc.faults:
				apis := []string{"ocommit", "ocommit", "ocommit", "ofetch", "join", "sync", "heartbeat"}
				api := apis[rng.Intn(len(apis))]
				f := groupfake.Fault{}
				switch rng.Intn(4) {
				case 0:
					f.Drop = 1
				case 1:
					f.Drop = 2
				default:
					f.Code = []int16{27, 22, 25, 16, 15, -1, 1, 32767}[rng.Intn(8)]
				}
				oneShot.Lock()
				oneShot.api, oneShot.f = api, f
				oneShot.Unlock()
				fs["fault-"+api] = true
			}
		}
		// drain: let every member read what is left, commit the last message, close
		for _, m := range ms {
			for i := 0; i < 6; i++ {
				if !m.fetch(b, 40*time.Millisecond) {
					break
				}
			}
			if len(m.held) > 0 {
				m.commit(b, m.held[len(m.held)-1:])
			}
		}
		if !sc.sync {
			time.Sleep(40 * time.Millisecond)
		}
		done := make(chan struct{})
		go func() {
			for _, m := range ms {
				m.r.Close()
			}
			close(done)
		}()
		select {
		case <-done:
		case <-time.After(8 * time.Second):
			fs["closehang"] = true
		}
	}
	h := b.History()
	args = encodeHistory(sc, h, fs)
	if sc.scripted == "quiet" {
		// op "quiet": the history plus the partitions of the EXISTING subscribed topics
		var ex []string
		for i := 0; i < sc.topics; i++ {
			if i == sc.missing {
				continue
			}
			for p := 0; p < sc.partsPer[i]; p++ {
				ex = append(ex, kvfmt.I(int64(i))+":"+kvfmt.I(int64(p)))
			}
		}
		f := strings.SplitN(args, " ", 3)
		args = "@quiet " + f[0] + " " + f[1] + " " + strings.Join(ex, ",") + " " + f[2]
	}
	var fl []string
	for k := range fs {
		fl = append(fl, k)
	}
	sort.Strings(fl)
	mode := "interval"
	if sc.sync {
		mode = "sync"
	}
	fl = append([]string{sc.name, mode, fmt.Sprintf("members=%d", sc.members), fmt.Sprintf("topics=%d", sc.topics)}, fl...)
	return args, strings.Join(fl, ","), verdict
}

func cidx(client string) int {
	n, err := strconv.Atoi(strings.TrimPrefix(client, "c"))
	if err != nil {
		return 99
	}
	return n
}

func midNum(member string) int64 {
	i := strings.LastIndex(member, "-")
	if i < 0 {
		return 0
	}
	n, _ := strconv.ParseInt(member[i+1:], 10, 64)
	return n
}

func encodeHistory(sc scen, h []groupfake.Event, fs map[string]bool) string {
	H := kvfmt.I
	tp := func(t groupfake.TPO) string { return H(int64(tidx(t.Topic))) + ":" + H(int64(t.Partition)) }
	tpo3 := func(l []groupfake.TPO) string {
		if len(l) == 0 {
			return "."
		}
		s := make([]string, len(l))
		for i, t := range l {
			s[i] = tp(t) + ":" + H(t.Offset)
		}
		return strings.Join(s, "+")
	}
	hw := map[string]int64{}
	ver := map[string]int64{}           // client -> Reader.version
	inited := map[string]bool{}         // client/version/tp -> first init seen
	given := map[string]int64{}         // client/tp -> offset of the last "initializing" line
	streams := map[string][]*[2]int64{} // client/tp -> (version, next offset)
	var toks []string
	for i, e := range h {
		r := H(int64(cidx(e.Client)))
		switch e.Kind {
		case "append":
			for _, t := range e.TPs {
				k := tp(t)
				for hw[k] < t.Offset {
					hw[k]++
					toks = append(toks, "A="+k)
				}
			}
		case "sync":
			if e.Code == 0 && e.Drop == 0 {
				var s []string
				for _, t := range e.TPs {
					s = append(s, tp(t))
				}
				a := "."
				if len(s) > 0 {
					a = strings.Join(s, "+")
				}
				toks = append(toks, "G="+r+":"+H(midNum(e.Member))+":"+H(int64(e.Gen))+":"+a)
			}
		case "ofetch":
			if e.Code != 0 || e.Drop == 1 {
				continue
			}
			if e.Drop == 0 {
				if ver[e.Client] == 0 {
					ver[e.Client] = 1
				}
				ver[e.Client]++
			}
			for _, t := range e.TPs {
				// the start offset the member derived: the offset its partition reader is
				// first initialised with (from the Reader's own log)
				start := "?"
				if e.Drop == 0 {
					for _, e2 := range h[i+1:] {
						if e2.Kind == "ofetch" && e2.Client == e.Client && e2.Code == 0 && e2.Drop == 0 {
							break
						}
						if e2.Kind == "rinit" && e2.Client == e.Client && e2.TPs[0].Topic == t.Topic && e2.TPs[0].Partition == t.Partition {
							start = H(e2.TPs[0].Offset)
							break
						}
					}
				}
				if start == "?" {
					fs["nostart"] = true
				}
				toks = append(toks, "F="+r+":"+H(int64(e.Gen))+":"+tp(t)+":"+H(t.Offset)+":"+start)
			}
		case "rinit":
			given[e.Client+"/"+tp(e.TPs[0])] = e.TPs[0].Offset
		case "rseek":
			t := e.TPs[0]
			v := ver[e.Client]
			k := fmt.Sprintf("%s/%d/%s", e.Client, v, tp(t))
			ck := e.Client + "/" + tp(t)
			if inited[k] {
				fs["reinit"] = true // re-initialisation after a connection error: same stream
				continue
			}
			inited[k] = true
			streams[ck] = append(streams[ck], &[2]int64{v, t.Offset})
			toks = append(toks, "I="+r+":"+H(v)+":"+tp(t)+":"+H(given[ck])+":"+H(t.Offset))
		case "deliver":
			t := e.TPs[0]
			ck := e.Client + "/" + tp(t)
			v := int64(0)
			ss := streams[ck]
			for j := len(ss) - 1; j >= 0; j-- {
				if ss[j][1] == t.Offset {
					v = ss[j][0]
					ss[j][1]++
					if j != len(ss)-1 {
						fs["stale-deliver"] = true
					}
					break
				}
			}
			toks = append(toks, "D="+r+":"+H(v)+":"+tp(t)+":"+H(t.Offset))
		case "note":
			if e.Note == "quiescent" {
				toks = append(toks, "Q="+H(int64(e.Gen)))
			}
		case "ccall":
			toks = append(toks, "C="+r+":"+H(int64(e.ID))+":"+tpo3(e.TPs))
		case "cret":
			toks = append(toks, "R="+r+":"+H(int64(e.ID))+":"+H(int64(e.Code)))
		case "ocommit":
			code := int64(e.Code)
			if e.Drop != 0 {
				code = -1
			}
			applied := e.Code == 0 && e.Drop != 1
			if e.Code != 0 {
				fs["ocommit-rejected"] = true
			}
			toks = append(toks, "O="+H(int64(cidx(e.Client)))+":"+H(midNum(e.Member))+":"+H(int64(e.Gen))+":"+tpo3(e.TPs)+":"+H(code)+":"+kvfmt.Bool(applied))
		}
	}
	if len(toks) == 0 {
		toks = []string{"."}
	}
	return kvfmt.Bool(sc.sync) + " " + kvfmt.I(sc.start) + " " + strings.Join(toks, " ")
}

func e2eCases(seed int64, n int) {
	rng := rand.New(rand.NewSource(seed ^ 0x5eed))
	var scs []scen
	scs = append(scs, scen{name: "lastoffset-replay", sync: true, start: kafka.LastOffset, members: 1, topics: 1, parts: 1, scripted: "lastoffset"})
	if n > 0 {
		for _, code := range []int16{0, -1, 1, 16, 22, 25, 27, 32767} {
			for _, sy := range []bool{true, false} {
				scs = append(scs, scen{name: "wire-commit-codes", sync: sy, start: kafka.FirstOffset, members: 1, topics: 1,
					parts: 1 + rng.Intn(2), scripted: "codes", code: code})
			}
		}
		for i := 0; i < 6; i++ {
			scs = append(scs, scen{name: "commit-at-generation-end", sync: true, start: kafka.FirstOffset, members: 1, topics: 1,
				parts: 3 + rng.Intn(4), scripted: "commit-at-end"})
		}
		for i := 0; i < 8; i++ {
			nt := 2 + i%3
			missing := []int{-1, 0, nt / 2, nt - 1, 0, nt - 1, -1, nt / 2}[i]
			pp := make([]int, nt)
			for j := range pp {
				pp[j] = 1 + rng.Intn(3)
			}
			scs = append(scs, scen{name: "multi-topic-quiescence", sync: i%4 != 3, start: kafka.FirstOffset, members: 1 + i%3, topics: nt,
				parts: 0, scripted: "quiet", missing: missing, partsPer: pp})
		}
		for i := 0; i < 6; i++ {
			scs = append(scs, scen{name: "evict-liveness", sync: i%2 == 0, start: kafka.FirstOffset, members: 1 + i%2, topics: 1,
				parts: 1 + rng.Intn(3), scripted: "evict"})
		}
	}
	for i := 0; i < n; i++ {
		sc := scen{sync: i%3 != 2, start: kafka.FirstOffset, members: 1 + i%3, topics: 1 + rng.Intn(2), parts: 1 + rng.Intn(3),
			recs: 2 + rng.Intn(5), actions: 50 + rng.Intn(90), faults: i%2 == 1, rebal: i%4 != 0}
		switch {
		case !sc.rebal && !sc.faults:
			sc.name = "plain"
		case sc.faults && sc.rebal:
			sc.name = "faults+rebalances"
		case sc.faults:
			sc.name = "faults"
		default:
			sc.name = "rebalances"
		}
		scs = append(scs, sc)
	}
	type result struct {
		sc    scen
		seed  int64
		r     [3]string
		stall bool
	}
	runOne := func(s int64, sc scen) ([3]string, bool) {
		done := make(chan [3]string, 1)
		go func() {
			a, f, v := runScenario(s, sc)
			done <- [3]string{a, f, v}
		}()
		select {
		case r := <-done:
			return r, strings.HasPrefix(r[2], "STALLED")
		case <-time.After(60 * time.Second):
			return [3]string{fmt.Sprintf("%s %s .", kvfmt.Bool(sc.sync), kvfmt.I(sc.start)), sc.name + ",watchdog", "HANG"}, true
		}
	}
	var mu sync.Mutex
	var stalled []result
	strikes := 0
	runAll := func(list []scen, breaker bool) {
		var wg sync.WaitGroup
		sem := make(chan struct{}, 12)
		for _, sc := range list {
			sc := sc
			s := rng.Int63()
			wg.Add(1)
			go func() {
				defer wg.Done()
				sem <- struct{}{}
				defer func() { <-sem }()
				mu.Lock()
				tripped := breaker && strikes >= 3
				mu.Unlock()
				if tripped { // three-strikes breaker: a tree that really stalls is reported in seconds
					return
				}
				r, stall := runOne(s, sc)
				if stall {
					mu.Lock()
					strikes++
					stalled = append(stalled, result{sc, s, r, true})
					mu.Unlock()
					return
				}
				emitE2E(r[0], r[2], r[1])
			}()
		}
		wg.Wait()
	}
	// phase 1: the scripted scenarios (refutation replay, wire-level commit answers, evictions)
	var scripted, random []scen
	for _, sc := range scs {
		if sc.scripted != "" {
			scripted = append(scripted, sc)
		} else {
			random = append(random, sc)
		}
	}
	runAll(scripted, true)
	// confirmation: a scenario that stalled or hit the watchdog is re-run ALONE with the same
	// seed before it is declared; one confirmed stall is enough to declare the others
	confirmed := false
	reruns := 0
	confirm := func() {
		for _, st := range stalled {
			if confirmed || reruns >= 3 {
				emitE2E(st.r[0], st.r[2], st.r[1]+",unconfirmed-breaker")
				continue
			}
			reruns++
			r, stall := runOne(st.seed, st.sc)
			if stall {
				confirmed = true
				emitE2E(r[0], r[2], r[1]+",confirmed-alone")
			} else {
				emitE2E(r[0], r[2], r[1]+",stalled-once-ok-alone")
			}
		}
		stalled = nil
	}
	confirm()
	if confirmed {
		// the tree stalls: do not burn minutes in the random scenarios (they would spin too)
		emitE2E("1 -2 .", "ok", "random-scenarios-skipped-after-confirmed-stall")
		return
	}
	// phase 2: the random scenarios
	runAll(random, false)
	confirm()
}

// ---------------------------------------------------------------- random model runs

func mrunCases(rng *rand.Rand, n int) {
	for i := 0; i < n; i++ {
		sy := rng.Intn(2) == 0
		start := kafka.FirstOffset
		L := 60 + rng.Intn(200)
		toks := make([]string, L)
		tpR := func() string { return kvfmt.I(int64(rng.Intn(2))) + ":" + kvfmt.I(int64(rng.Intn(2))) }
		for j := range toks {
			r := kvfmt.I(int64(rng.Intn(2)))
			switch rng.Intn(26) {
			case 0, 1:
				toks[j] = "ap=" + tpR()
			case 2:
				toks[j] = "bump"
			case 3:
				toks[j] = "evict=" + kvfmt.I(int64(1+rng.Intn(3)))
			case 4:
				toks[j] = "compl=" + kvfmt.Bool(rng.Intn(2) == 0)
			case 5, 6:
				var a []string
				for k := rng.Intn(4); k > 0; k-- {
					a = append(a, tpR())
				}
				s := "."
				if len(a) > 0 {
					s = strings.Join(a, "+")
				}
				toks[j] = "js=" + r + ":" + kvfmt.Bool(rng.Intn(2) == 0) + ":" + s
			case 7:
				toks[j] = "jf=" + r + ":" + kvfmt.Bool(rng.Intn(2) == 0)
			case 8, 9:
				toks[j] = "of=" + r
			case 10:
				toks[j] = "sub=" + r
			case 11:
				toks[j] = "end=" + r
			case 12:
				toks[j] = "unsub=" + r
			case 13:
				toks[j] = "close=" + r
			case 14:
				toks[j] = "init=" + r + ":" + tpR()
			case 15, 16, 17:
				toks[j] = "emit=" + r + ":" + tpR()
			case 18:
				toks[j] = "snap=" + r
			case 19, 20:
				toks[j] = "recv=" + r
			case 21:
				// commit the n-th newest delivery of r (resolved by the driver)
				toks[j] = "cc=" + r + ":" + kvfmt.I(int64(rng.Intn(3)))
			case 22:
				toks[j] = "lrecv=" + r
			case 23:
				toks[j] = []string{"tick=", "final="}[rng.Intn(2)] + r
			case 24:
				toks[j] = "att=" + r + ":" + []string{"n", "n", "n", "c16", "c1b", "b", "a"}[rng.Intn(7)]
			case 25:
				toks[j] = []string{"giveup=", "cancel="}[rng.Intn(2)] + r
			}
		}
		// make progress likely: a standard prelude
		pre := "ap=0:0 ap=0:0 ap=0:1 js=0:1:0:0+0:1 of=0 sub=0 init=0:0:0 init=0:0:1 emit=0:0:0 snap=0 recv=0"
		mode := "i"
		if sy {
			mode = "s"
		}
		emit("mrun", kvfmt.Bool(sy)+" "+kvfmt.I(start)+" "+pre+" "+strings.Join(toks, " "), "ok", "mode="+mode+fmt.Sprintf(",len=%d", L/50*50))
	}
}

func main() {
	seed := flag.Int64("seed", 1, "PRNG seed")
	n := flag.Int("n", 200, "number of step-level cases per op")
	nloop := flag.Int("loops", 16, "commit-loop scripts")
	ne2e := flag.Int("e2e", 12, "end-to-end scenarios")
	nend := flag.Int("loopend", 12, "commit-loop scripts with requests queued at generation end")
	nmrun := flag.Int("mrun", 60, "random model runs")
	flag.Parse()
	rng := rand.New(rand.NewSource(*seed))
	stepCases(rng, *n)
	mrunCases(rng, *nmrun)
	var wg sync.WaitGroup
	wg.Add(3)
	go func() { defer wg.Done(); loopEndCases(rand.New(rand.NewSource(*seed+3)), *nend) }()
	go func() { defer wg.Done(); loopCases(rand.New(rand.NewSource(*seed+1)), *nloop) }()
	go func() { defer wg.Done(); e2eCases(*seed+2, *ne2e) }()
	wg.Wait()
	os.Stdout.Sync()
}
