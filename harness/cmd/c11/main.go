// c11: correspondence driver for properties C11 / C17 (a kafka.Conn after
// broker-reported errors, and on responses cut off at any byte).
//
// A real kafka.Conn runs over a synchronous in-memory net.Conn that answers
// every request with the next scripted response frame.  One line per case:
//
//	<id> run <topic> <ops> <frames> <cut> | <go result> | <features>
//
// -gen generates the cases (own response encoder, one PRNG), runs them and
// prints the lines; -run re-runs the lines read from stdin.  Parts A (exh) and
// B (cut) are compared with the model; part C (drain: a fetch whose messages
// are all read, op "fetchdrain", token drain:<close>:<read>:[messages]) is
// judged by a predicate on its tags (recends, want); part D (framing: a foreign
// correlation id, a short / oversized frame or a cut, then two more operations
// on the same Conn); part E (nego: "nrun" lines, the Conn is not primed and
// negotiates its versions from scripted ApiVersions answers); part F (reads:
// Batch.Read / ReadMessage, Conn.Read / ReadMessage with short buffers; ops
// fetchread, connread, connreadmsg carry a 4th field, the read actions); part G
// (readcut: the short-buffer reads of part F on a response cut before, inside
// and after the value); part H (comp: Close inside a compressed batch followed
// by more batches); part I (msgcut: ReadMessage over every cut); part J (split:
// frame 1 delivered in two pieces, cut column "s<k>", or "es<k>" with the later
// frames already on the wire); part K (trunc2: a complete frame whose magic-2
// batch was truncated by the broker inside the last record); part L (stall: the
// peer goes silent, cut column "st<a|r|w>.<k>", the Conn has a 150 ms
// deadline; run concurrently); part M (offs: the Conn's offset after a fetch answered with an
// error code; ops connoffset, fetchnoseek).  The OCaml driver
// evaluates the extracted Coq model (Model/ConnOps.v conn_run) on the part
// before the first '|'.
package main

import (
	"bufio"
	"bytes"
	"encoding/binary"
	"encoding/hex"
	"errors"
	"flag"
	"fmt"
	"io"
	"math"
	"math/rand"
	"net"
	"os"
	"sort"
	"strconv"
	"strings"
	"sync"
	"time"

	kafka "github.com/segmentio/kafka-go"
	"github.com/segmentio/kafka-go/compress"
	"kverif/kvfmt"
)

// ---------------------------------------------------------------------------
// operations
// ---------------------------------------------------------------------------

type opSpec struct {
	name string
	ver  int
	off  int64
}

type apiVer struct {
	name string
	ver  int
}

// the 28 (operation, version) pairs of the Conn
var apiList = []apiVer{
	{"produce", 2}, {"produce", 3}, {"produce", 7},
	{"fetch", 2}, {"fetch", 5}, {"fetch", 10},
	{"listoffsets", 1},
	{"metadata", 1}, {"metadata", 6},
	{"brokers", 1}, {"controller", 1},
	{"findcoordinator", 0},
	{"joingroup", 1}, {"joingroup", 2},
	{"syncgroup", 0}, {"heartbeat", 0}, {"leavegroup", 0},
	{"offsetcommit", 2}, {"offsetfetch", 1},
	{"listgroups", 1},
	{"createtopics", 0}, {"createtopics", 1}, {"createtopics", 2},
	{"deletetopics", 0}, {"deletetopics", 1},
	{"apiversions", 0},
	{"saslhandshake", 1}, {"saslauthenticate", 0},
}

// api key of the request each operation sends
var apiKeyOf = map[string]int16{
	"produce": 0, "fetch": 1, "listoffsets": 2, "metadata": 3, "brokers": 3, "controller": 3,
	"offsetcommit": 8, "offsetfetch": 9, "findcoordinator": 10, "joingroup": 11, "heartbeat": 12,
	"leavegroup": 13, "syncgroup": 14, "listgroups": 16, "saslhandshake": 17, "apiversions": 18,
	"createtopics": 19, "deletetopics": 20, "saslauthenticate": 36,
	"fetchdrain": 1, // a fetch whose messages are all read before the batch is closed (part C)
	// fetches read through Batch.Read / Batch.ReadMessage, Conn.Read, Conn.ReadMessage (part F)
	"fetchread": 1, "connread": 1, "connreadmsg": 1,
	// part M: a fetch without Seek, and the Conn's offset (no request)
	"fetchnoseek": 1, "connoffset": -1,
}

// operations with a 4th field (the read actions)
var readsOp = map[string]bool{"fetchread": true, "connread": true, "connreadmsg": true}

// operations whose version is negotiated from the broker's ApiVersions table
var negotiated = map[string]bool{
	"produce": true, "fetch": true, "metadata": true, "joingroup": true,
	"createtopics": true, "deletetopics": true, "saslhandshake": true,
	"fetchdrain": true, "fetchread": true, "connread": true, "connreadmsg": true,
	"fetchnoseek": true,
}

// error-field sites of a response
func sitesOf(name string, ver int) []string {
	switch name {
	case "produce", "listoffsets", "offsetcommit", "offsetfetch":
		return []string{"partition"}
	case "fetch":
		if ver == 10 {
			return []string{"toplevel", "partition"}
		}
		return []string{"partition"}
	case "metadata":
		return []string{"topic-own", "topic-other", "partition"}
	case "brokers", "controller":
		return []string{"topic-other"}
	case "createtopics", "deletetopics":
		return []string{"topic"}
	}
	return []string{"toplevel"}
}

var errorCodes = []int16{0, 1, 3, 6, 7, 19, 27, 36, -1, 87}

// ---------------------------------------------------------------------------
// the fake peer
// ---------------------------------------------------------------------------

type hangErr struct{}

func (hangErr) Error() string   { return "verif: the peer stays silent (the client would block forever)" }
func (hangErr) Timeout() bool   { return true }
func (hangErr) Temporary() bool { return true }

var errHang error = hangErr{}

type reqHdr struct {
	key, ver int16
	corr     int32
	fetchOff int64 // fetch requests: the offset asked for
	fetchOK  bool
}

type fakeConn struct {
	req  []byte // written by the client, not parsed yet
	resp []byte // to be delivered to the client

	priming bool
	table   []byte // body of the priming ApiVersions response

	frames  [][]byte
	next    int
	cut     int // -1: no cut
	offered int // scripted bytes the script has reached so far (delivered or cut away)

	stall bool      // after the cut position the peer goes silent instead of closing
	rd    time.Time // the read deadline the Conn set on the net.Conn (honoured in stall mode only)

	split     int  // > 0: no Read returns bytes from both sides of this position of frame 1
	eager     bool // every scripted frame is queued behind frame 1 at once (pipelined answers)
	delivered int  // scripted bytes handed to the client so far

	peerClosed bool // a request arrived and the script had no frame left
	closed     bool // the Conn called Close
	hang       bool
	log        []reqHdr
}

func frame(corr int32, body []byte) []byte {
	b := make([]byte, 8, 8+len(body))
	binary.BigEndian.PutUint32(b, uint32(len(body)+4))
	binary.BigEndian.PutUint32(b[4:], uint32(corr))
	return append(b, body...)
}

// answer every complete request of the request buffer
func (f *fakeConn) pump() {
	for len(f.req) >= 4 {
		sz := int(int32(binary.BigEndian.Uint32(f.req)))
		if sz < 8 || len(f.req) < 4+sz {
			return
		}
		h := reqHdr{
			key:  int16(binary.BigEndian.Uint16(f.req[4:])),
			ver:  int16(binary.BigEndian.Uint16(f.req[6:])),
			corr: int32(binary.BigEndian.Uint32(f.req[8:])),
		}
		if h.key == 1 {
			h.fetchOff, h.fetchOK = fetchReqOffset(f.req[:4+sz])
		}
		f.req = f.req[4+sz:]
		f.log = append(f.log, h)
		switch {
		case h.key == 18 && f.priming:
			f.resp = append(f.resp, frame(h.corr, f.table)...)
		case f.eager && f.next < len(f.frames):
			if f.next == 0 {
				for _, fr := range f.frames {
					f.resp = append(f.resp, fr...)
					f.offered += len(fr)
				}
			}
			f.next++
		case f.next < len(f.frames):
			fr := f.frames[f.next]
			f.next++
			room := len(fr)
			if f.cut >= 0 {
				if rem := f.cut - f.offered; rem < room {
					room = rem
				}
				if room < 0 {
					room = 0
				}
			}
			f.resp = append(f.resp, fr[:room]...)
			f.offered += len(fr)
		default:
			f.peerClosed = true
		}
	}
}

func (f *fakeConn) Read(p []byte) (int, error) {
	if f.closed {
		return 0, io.ErrClosedPipe
	}
	f.pump()
	if len(f.resp) > 0 {
		if !f.priming && f.split > 0 && f.delivered < f.split && len(p) > f.split-f.delivered {
			p = p[:f.split-f.delivered]
		}
		n := copy(p, f.resp)
		f.resp = f.resp[n:]
		if !f.priming {
			f.delivered += n
		}
		return n, nil
	}
	if !f.priming && f.stall {
		// a silent peer: block until the read deadline, forever without one
		if f.rd.IsZero() {
			select {}
		}
		if d := time.Until(f.rd); d > 0 {
			time.Sleep(d)
		}
		return 0, os.ErrDeadlineExceeded
	}
	if !f.priming && (f.peerClosed || (f.cut >= 0 && f.offered >= f.cut)) {
		return 0, io.EOF
	}
	f.hang = true
	return 0, errHang
}

func (f *fakeConn) Write(b []byte) (int, error) {
	if f.closed {
		return 0, io.ErrClosedPipe
	}
	f.req = append(f.req, b...)
	return len(b), nil
}

func (f *fakeConn) Close() error                       { f.closed = true; return nil }
func (f *fakeConn) LocalAddr() net.Addr                { return &net.TCPAddr{IP: net.IPv4(127, 0, 0, 1), Port: 50000} }
func (f *fakeConn) RemoteAddr() net.Addr               { return &net.TCPAddr{IP: net.IPv4(127, 0, 0, 1), Port: 9092} }
func (f *fakeConn) SetDeadline(t time.Time) error      { f.rd = t; return nil }
func (f *fakeConn) SetReadDeadline(t time.Time) error  { f.rd = t; return nil }
func (f *fakeConn) SetWriteDeadline(t time.Time) error { return nil }

// the broker's ApiVersions answer that makes negotiateVersion pick the
// versions named by the case
func pinTable(ops []opSpec) []byte {
	max := map[int16]int16{
		0: 7, 1: 10, 2: 1, 3: 6, 4: 0, 5: 0, 6: 0, 7: 0, 8: 2, 9: 1, 10: 0, 11: 2, 12: 0, 13: 0,
		14: 0, 15: 0, 16: 1, 17: 1, 18: 0, 19: 2, 20: 1, 36: 0,
	}
	for _, o := range ops {
		if negotiated[o.name] {
			max[apiKeyOf[o.name]] = int16(o.ver)
		}
	}
	keys := make([]int, 0, len(max))
	for k := range max {
		keys = append(keys, int(k))
	}
	sort.Ints(keys)
	var e enc
	e.i16(0)
	e.i32(int32(len(keys)))
	for _, k := range keys {
		e.i16(int16(k))
		e.i16(0)
		e.i16(max[int16(k)])
	}
	return e.b
}

// ---------------------------------------------------------------------------
// running a case
// ---------------------------------------------------------------------------

func classify(err error) string {
	var ke kafka.Error
	switch {
	case errors.As(err, &ke):
		return "kafka:" + kvfmt.I(int64(ke))
	case errors.Is(err, io.ErrNoProgress):
		return "noprogress"
	case errors.Is(err, kafka.VerifC11ErrShortRead):
		return "short"
	case errors.Is(err, io.ErrUnexpectedEOF):
		return "ueof"
	case errors.Is(err, io.EOF):
		return "eof"
	case errors.Is(err, io.ErrClosedPipe):
		return "closed"
	case errors.Is(err, bufio.ErrNegativeCount):
		return "negcount"
	case errors.Is(err, errHang):
		return "hang"
	case errors.Is(err, io.ErrShortBuffer):
		return "shortbuf"
	case errors.Is(err, os.ErrDeadlineExceeded):
		return "timeout"
	}
	msg := err.Error()
	var n int64
	if c, _ := fmt.Sscanf(msg, "reading a response left %d unread bytes", &n); c == 1 {
		return "unread:" + kvfmt.I(n)
	}
	switch {
	case strings.HasPrefix(msg, "1 kafka topic was expected"):
		return "fmt:1"
	case strings.HasPrefix(msg, "1 kafka partition was expected"):
		return "fmt:2"
	case strings.HasPrefix(msg, "the size of the message set in a fetch response doesn't match"):
		return "fmt:3"
	case strings.HasPrefix(msg, "unsupported magic byte"):
		return "fmt:4"
	case strings.HasPrefix(msg, "invalid number of api versions"):
		return "fmt:5"
	case strings.HasPrefix(msg, "invalid number of aborted transactions"):
		return "fmt:6"
	case strings.HasPrefix(msg, "no matching versions were found"):
		return "fmt:7"
	}
	msg = strings.ReplaceAll(msg, " ", "_")
	if len(msg) > 60 {
		msg = msg[:60]
	}
	return "other:" + msg
}

var warned = map[string]bool{}
var warnMu sync.Mutex

func warn(format string, a ...interface{}) {
	warnMu.Lock()
	defer warnMu.Unlock()
	s := fmt.Sprintf(format, a...)
	if !warned[s] {
		warned[s] = true
		fmt.Fprintln(os.Stderr, "c11: "+s)
	}
}

func runOp(conn *kafka.Conn, f *fakeConn, o opSpec, acts []int64, primed bool) (cls string) {
	defer func() {
		if r := recover(); r != nil {
			cls = "panic"
		}
	}()
	f.hang = false
	sent := len(f.log)
	wasClosed := f.closed
	var s string
	var err error
	if o.name == "connoffset" { // no network: the Conn's offset and whence
		off, whence := conn.Offset()
		return "ok=" + kvfmt.I(off) + "," + kvfmt.I(int64(whence))
	}
	if o.name == "fetchnoseek" { // a fetch from wherever the Conn stands
		b := conn.ReadBatchWith(kafka.ReadBatchConfig{MinBytes: 1, MaxBytes: 1 << 20})
		err = b.Close()
		f.pump()
		req := "?"
		if len(f.log) > sent && f.log[len(f.log)-1].fetchOK {
			req = kvfmt.I(f.log[len(f.log)-1].fetchOff)
		}
		s = "[" + kvfmt.I(int64(b.Throttle()/time.Millisecond)) + ";" + kvfmt.I(b.HighWaterMark()) + ";" + req + "]"
	} else if readsOp[o.name] {
		s, err = kafka.VerifC11Reads(conn, o.name, o.off, acts)
	} else {
		s, err = kafka.VerifC11Op(conn, o.name, o.ver, o.off)
	}
	// sanity: the request that went out is the one the case names (the Conn may
	// not have called Read at all when unread bytes of an earlier response were
	// still buffered, so look at the request buffer now)
	f.pump()
	if !wasClosed && !primed {
		// nrun: implicit ApiVersions requests may come first, and nothing is sent
		// at all when the negotiation fails; look at the operation's own request
		var own []reqHdr
		for _, h := range f.log[sent:] {
			if h.key != 18 || o.name == "apiversions" {
				own = append(own, h)
			}
		}
		switch {
		case o.ver < 0 && len(own) != 0:
			warn("%s expected to fail the negotiation sent api key %d version %d", o.name, own[0].key, own[0].ver)
		case len(own) > 1:
			warn("%s v%d sent %d requests", o.name, o.ver, len(own))
		case len(own) == 1 && (own[0].key != apiKeyOf[o.name] || int(own[0].ver) != o.ver):
			warn("%s v%d sent api key %d version %d", o.name, o.ver, own[0].key, own[0].ver)
		}
	} else if !wasClosed {
		if len(f.log) != sent+1 {
			warn("%s v%d sent %d requests", o.name, o.ver, len(f.log)-sent)
		} else if h := f.log[sent]; h.key != apiKeyOf[o.name] || int(h.ver) != o.ver {
			warn("%s v%d sent api key %d version %d", o.name, o.ver, h.key, h.ver)
		}
	}
	switch {
	case f.hang:
		return "hang"
	case readsOp[o.name] && (err == nil || errors.Is(err, io.ErrShortBuffer)):
		// reads:<ok|shortbuf>:<conn offset after>:[actions]
		if err == nil {
			return "reads:ok:" + s
		}
		return "reads:shortbuf:" + s
	case readsOp[o.name]:
		return classify(err)
	case o.name == "fetchdrain":
		// drain:<class of Close's error>:<class of the read error>:[messages read]
		cc := "ok"
		if err != nil {
			cc = classify(err)
		}
		return "drain:" + cc + ":" + s
	case err == nil:
		return "ok=" + s
	}
	return classify(err)
}

// runCase gives one "<class>~<c>" token per operation.
//
// Watchdog: a case gets caseTimeout; when it fires the operation in progress
// and the later ones print hang~<last known c> and the goroutine is abandoned
// (it may keep spinning).  Circuit breaker: once maxHungCases cases have hung no
// further case is executed, they print notrun~0 per operation.
const caseTimeout = 2 * time.Second
const maxHungCases = 3

const stallTimeout = 3 * time.Second
const stallDeadline = 150 * time.Millisecond

var hungCases int
var hungMu sync.Mutex // part L runs its cases concurrently

func runCase(tc *tcase) []string {
	topic, ops, frames, cut := tc.topic, tc.ops, tc.frames, tc.cut
	hungMu.Lock()
	tripped := hungCases >= maxHungCases
	hungMu.Unlock()
	if tripped {
		out := make([]string, len(ops))
		for i := range out {
			out[i] = "notrun~0"
		}
		return out
	}
	var mu sync.Mutex
	var res []string
	lastClosed := false
	done := make(chan struct{})
	go func() {
		defer close(done)
		f := &fakeConn{priming: !tc.noprime, table: pinTable(ops), frames: frames, cut: cut, split: tc.split, eager: tc.eager}
		if tc.stallCfg != 0 {
			f.stall, f.cut = true, tc.stallK
		}
		conn := kafka.NewConnWith(f, kafka.ConnConfig{Topic: topic, Partition: 0, ClientID: "c"})
		if !tc.noprime {
			perr := func() (err error) {
				defer func() {
					if r := recover(); r != nil {
						err = fmt.Errorf("panic: %v", r)
					}
				}()
				return kafka.VerifC11LoadVersions(conn)
			}()
			f.priming = false
			if perr != nil {
				warn("priming failed: %v", perr)
			}
		}
		switch tc.stallCfg {
		case 'a':
			conn.SetDeadline(time.Now().Add(stallDeadline))
		case 'r':
			conn.SetReadDeadline(time.Now().Add(stallDeadline))
		case 'w':
			conn.SetWriteDeadline(time.Now().Add(stallDeadline))
		}
		for i, o := range ops {
			cls := runOp(conn, f, o, tc.acts[i], !tc.noprime)
			mu.Lock()
			lastClosed = f.closed
			res = append(res, cls+"~"+kvfmt.Bool(lastClosed))
			mu.Unlock()
		}
	}()
	wd := caseTimeout
	if tc.stallCfg != 0 {
		wd = stallTimeout
	}
	t := time.NewTimer(wd)
	select {
	case <-done:
		t.Stop()
	case <-t.C:
		hungMu.Lock()
		hungCases++
		if hungCases == maxHungCases {
			fmt.Fprintf(os.Stderr, "c11: circuit breaker: %d cases hung (watchdog %v each); the remaining cases are not run (notrun~0)\n", hungCases, wd)
		}
		hungMu.Unlock()
	}
	mu.Lock()
	defer mu.Unlock()
	out := append([]string(nil), res...)
	for len(out) < len(ops) { // watchdog: the operation in progress (and what follows) never returned
		out = append(out, "hang~"+kvfmt.Bool(lastClosed))
	}
	return out
}

// ---------------------------------------------------------------------------
// line format
// ---------------------------------------------------------------------------

type tcase struct {
	topic   string
	ops     []opSpec
	acts    map[int][]int64 // read actions of ops[i] (fetchread, connread, connreadmsg)
	frames  [][]byte
	cut     int
	tags    string
	noprime bool // "nrun": no priming, the script also answers the ApiVersions requests
	split   int  // cut column "s<k>" / "es<k>": no cut, frame 1 is delivered in two pieces [..k) [k..)
	eager   bool // "es<k>": and every scripted frame is on the wire right behind frame 1

	// cut column "st<cfg>.<k>": the peer goes silent after k scripted bytes and the
	// Conn has a deadline (a: SetDeadline, r: SetReadDeadline, w: SetWriteDeadline)
	stallCfg byte // 0: none
	stallK   int
}

func (c *tcase) head() string {
	ops := make([]string, len(c.ops))
	for i, o := range c.ops {
		v := "-" // the generator expects the negotiation to fail
		if o.ver >= 0 {
			v = kvfmt.U(uint64(o.ver))
		}
		ops[i] = o.name + ":" + v + ":" + kvfmt.I(o.off)
		if readsOp[o.name] {
			a := make([]string, len(c.acts[i]))
			for j, x := range c.acts[i] {
				a[j] = kvfmt.I(x)
			}
			ops[i] += ":" + strings.Join(a, "/")
		}
	}
	frs := "."
	if len(c.frames) > 0 {
		l := make([]string, len(c.frames))
		for i, fr := range c.frames {
			l[i] = kvfmt.Bytes(fr)
		}
		frs = strings.Join(l, ",")
	}
	cut := "-"
	if c.cut >= 0 {
		cut = kvfmt.U(uint64(c.cut))
	}
	if c.split > 0 {
		cut = "s" + kvfmt.U(uint64(c.split))
		if c.eager {
			cut = "e" + cut
		}
	}
	if c.stallCfg != 0 {
		cut = fmt.Sprintf("st%c.%s", c.stallCfg, kvfmt.U(uint64(c.stallK)))
	}
	kw := "run"
	if c.noprime {
		kw = "nrun"
	}
	return fmt.Sprintf("%s %s %s %s %s", kw, kvfmt.Bytes([]byte(c.topic)), strings.Join(ops, ","), frs, cut)
}

func parseI(s string) (int64, error) {
	neg := strings.HasPrefix(s, "-")
	u, err := strconv.ParseUint(strings.TrimPrefix(s, "-"), 16, 64)
	if err != nil {
		return 0, err
	}
	if neg {
		return -int64(u-1) - 1, nil
	}
	return int64(u), nil
}

func parseBytes(s string) ([]byte, error) {
	if s == "." {
		return nil, nil
	}
	return hex.DecodeString(s)
}

func parseCase(head string) (*tcase, error) {
	fs := strings.Fields(head)
	if len(fs) != 5 || (fs[0] != "run" && fs[0] != "nrun") {
		return nil, fmt.Errorf("expected: run|nrun <topic> <ops> <frames> <cut>")
	}
	c := &tcase{cut: -1, noprime: fs[0] == "nrun", acts: map[int][]int64{}}
	t, err := parseBytes(fs[1])
	if err != nil {
		return nil, err
	}
	c.topic = string(t)
	for _, o := range strings.Split(fs[2], ",") {
		p := strings.Split(o, ":")
		if _, ok := apiKeyOf[p[0]]; !ok {
			return nil, fmt.Errorf("unknown op %q", p[0])
		}
		if (readsOp[p[0]] && len(p) != 4) || (!readsOp[p[0]] && len(p) != 3) {
			return nil, fmt.Errorf("bad op %q", o)
		}
		v := int64(-1)
		if p[1] != "-" {
			u, err := strconv.ParseUint(p[1], 16, 15)
			if err != nil {
				return nil, err
			}
			v = int64(u)
		}
		if len(p) == 4 && p[3] != "" {
			for _, a := range strings.Split(p[3], "/") {
				x, err := parseI(a)
				if err != nil {
					return nil, err
				}
				c.acts[len(c.ops)] = append(c.acts[len(c.ops)], x)
			}
		}
		off, err := parseI(p[2])
		if err != nil {
			return nil, err
		}
		c.ops = append(c.ops, opSpec{p[0], int(v), off})
	}
	if fs[3] != "." {
		for _, h := range strings.Split(fs[3], ",") {
			b, err := parseBytes(h)
			if err != nil {
				return nil, err
			}
			c.frames = append(c.frames, b)
		}
	}
	switch {
	case fs[4] == "-":
	case strings.HasPrefix(fs[4], "st"):
		x := fs[4]
		if len(x) < 5 || x[3] != '.' || !strings.ContainsRune("arw", rune(x[2])) {
			return nil, fmt.Errorf("bad stall %q", x)
		}
		k, err := strconv.ParseUint(x[4:], 16, 31)
		if err != nil {
			return nil, err
		}
		c.stallCfg, c.stallK = x[2], int(k)
	case strings.HasPrefix(fs[4], "s") || strings.HasPrefix(fs[4], "es"):
		c.eager = fs[4][0] == 'e'
		k, err := strconv.ParseUint(strings.TrimPrefix(strings.TrimPrefix(fs[4], "e"), "s"), 16, 31)
		if err != nil || k == 0 {
			return nil, fmt.Errorf("bad split %q", fs[4])
		}
		c.split = int(k)
	default:
		k, err := strconv.ParseUint(fs[4], 16, 31)
		if err != nil {
			return nil, err
		}
		c.cut = int(k)
	}
	return c, nil
}

var out *bufio.Writer
var caseID int

func emit(c *tcase) {
	caseID++
	res := runCase(c)
	fmt.Fprintf(out, "%d %s | %s | %s\n", caseID, c.head(), strings.Join(res, " "), c.tags)
}

func replay() {
	sc := bufio.NewScanner(os.Stdin)
	sc.Buffer(make([]byte, 1<<20), 1<<26)
	type pending struct {
		id, tags string
		hasTags  bool
		c        *tcase
	}
	var batch []pending
	flush := func() {
		if len(batch) == 0 {
			return
		}
		var results [][]string
		if len(batch) == 1 {
			results = [][]string{runCase(batch[0].c)}
		} else {
			cs := make([]*tcase, len(batch))
			for i, p := range batch {
				cs[i] = p.c
			}
			results = runMany(cs)
		}
		for i, p := range batch {
			res := strings.Join(results[i], " ")
			if p.hasTags {
				fmt.Fprintf(out, "%s %s | %s | %s\n", p.id, p.c.head(), res, p.tags)
			} else {
				fmt.Fprintf(out, "%s %s | %s\n", p.id, p.c.head(), res)
			}
		}
		batch = batch[:0]
	}
	for sc.Scan() {
		line := strings.TrimSpace(sc.Text())
		if line == "" || strings.HasPrefix(line, "#") {
			continue
		}
		cols := strings.SplitN(line, "|", 3)
		head := strings.TrimSpace(cols[0])
		id, rest := head, ""
		if i := strings.IndexByte(head, ' '); i >= 0 {
			id, rest = head[:i], strings.TrimSpace(head[i+1:])
		}
		c, err := parseCase(rest)
		if err != nil {
			fmt.Fprintf(os.Stderr, "c11: case %s: %v\n", id, err)
			out.Flush()
			os.Exit(2)
		}
		p := pending{id: id, c: c}
		if len(cols) == 3 {
			p.tags, p.hasTags = strings.TrimSpace(cols[2]), true
		}
		if c.stallCfg == 0 {
			flush()
			batch = append(batch, p)
			flush()
		} else { // the stall cases wait for their deadlines: run them concurrently
			batch = append(batch, p)
		}
	}
	flush()
	if err := sc.Err(); err != nil {
		fmt.Fprintln(os.Stderr, "c11:", err)
		os.Exit(2)
	}
}

// ---------------------------------------------------------------------------
// reference encoder (Kafka protocol guide): big-endian integers, STRING =
// int16 length (-1 null), BYTES = int32 length (-1 null), ARRAY = int32 count
// (-1 null) then the elements, structs = their fields in order.  marks holds
// the offset at which every primitive field starts.
// ---------------------------------------------------------------------------

type enc struct {
	b     []byte
	marks []int
}

func (e *enc) mark()     { e.marks = append(e.marks, len(e.b)) }
func (e *enc) i8(v int8) { e.mark(); e.b = append(e.b, byte(v)) }
func (e *enc) i16(v int16) {
	e.mark()
	e.b = append(e.b, byte(v>>8), byte(v))
}
func (e *enc) i32(v int32) {
	e.mark()
	e.b = append(e.b, byte(v>>24), byte(v>>16), byte(v>>8), byte(v))
}
func (e *enc) i64(v int64) {
	e.mark()
	for s := 56; s >= 0; s -= 8 {
		e.b = append(e.b, byte(v>>uint(s)))
	}
}
func (e *enc) boolean(v bool) {
	if v {
		e.i8(1)
	} else {
		e.i8(0)
	}
}
func (e *enc) str(s *string) {
	if s == nil {
		e.i16(-1)
		return
	}
	e.i16(int16(len(*s)))
	e.b = append(e.b, *s...)
}
func (e *enc) byt(b []byte) { // nil = null
	if b == nil {
		e.i32(-1)
		return
	}
	e.i32(int32(len(b)))
	e.b = append(e.b, b...)
}
func (e *enc) arr(n int) { e.i32(int32(n)) }
func (e *enc) varint(v int64) {
	u := uint64(v<<1) ^ uint64(v>>63)
	for u >= 0x80 {
		e.b = append(e.b, byte(u)|0x80)
		u >>= 7
	}
	e.b = append(e.b, byte(u))
}

// ---------------------------------------------------------------------------
// random field values, all from the one PRNG
// ---------------------------------------------------------------------------

func ri64(r *rand.Rand) int64 {
	switch r.Intn(7) {
	case 0:
		return 0
	case 1:
		return int64(r.Intn(100))
	case 2:
		return -1 - int64(r.Intn(100))
	case 3:
		return int64(r.Uint64())
	case 4:
		if r.Intn(2) == 0 {
			return math.MaxInt64
		}
		return math.MinInt64
	case 5:
		return r.Int63n(1 << 40)
	}
	return int64(r.Intn(1 << 16))
}

func ri32(r *rand.Rand) int32 {
	switch r.Intn(6) {
	case 0:
		return 0
	case 1:
		return int32(r.Intn(100))
	case 2:
		return -1 - int32(r.Intn(100))
	case 3:
		return int32(r.Uint32())
	case 4:
		if r.Intn(2) == 0 {
			return math.MaxInt32
		}
		return math.MinInt32
	}
	return int32(r.Intn(1 << 16))
}

// |v| < 2^40 (the produce timestamp, turned into a time.Time by the Conn)
func rts(r *rand.Rand) int64 {
	switch r.Intn(4) {
	case 0:
		return -1
	case 1:
		return 0
	case 2:
		return -r.Int63n(1 << 40)
	}
	return r.Int63n(1 << 40)
}

func rname(r *rand.Rand) string {
	n := r.Intn(13)
	b := make([]byte, n)
	if r.Intn(8) == 0 {
		r.Read(b)
	} else {
		for i := range b {
			b[i] = byte('a' + r.Intn(26))
		}
	}
	return string(b)
}

func rstr(r *rand.Rand) *string { s := rname(r); return &s }

// nullable string
func rnstr(r *rand.Rand) *string {
	if r.Intn(4) == 0 {
		return nil
	}
	return rstr(r)
}

// nullable bytes
func rnbytes(r *rand.Rand) []byte {
	if r.Intn(5) == 0 {
		return nil
	}
	b := make([]byte, r.Intn(13))
	r.Read(b)
	return b
}

func rnameNot(r *rand.Rand, not string) string {
	for {
		if s := rname(r); s != not {
			return s
		}
	}
}

// length of an array: 0..3 elements (minArr = 1 keeps the arrays of the
// truncation cases non-empty so that every field of the grammar is cut through)
var minArr = 0

func rlen(r *rand.Rand) int { return minArr + r.Intn(4-minArr) }

func ri32s(e *enc, r *rand.Rand, pool []int32) {
	n := rlen(r)
	e.arr(n)
	for i := 0; i < n; i++ {
		if len(pool) > 0 && r.Intn(3) != 0 {
			e.i32(pool[r.Intn(len(pool))])
		} else {
			e.i32(ri32(r))
		}
	}
}

// topics x partitions shape with an optional target partition
func shape2(r *rand.Rand, need bool) (np []int, ti, pi int) {
	nt := rlen(r)
	if need && nt == 0 {
		nt = 1 + r.Intn(3)
	}
	np = make([]int, nt)
	for i := range np {
		np[i] = rlen(r)
	}
	ti, pi = -1, -1
	if need {
		ti = r.Intn(nt)
		if np[ti] == 0 {
			np[ti] = 1 + r.Intn(3)
		}
		pi = r.Intn(np[ti])
	}
	return
}

// ---------------------------------------------------------------------------
// message sets of a fetch response
// ---------------------------------------------------------------------------

const (
	msEmpty = 0
	msV2    = 1
	msV1    = 2
)

var msName = []string{"empty", "v2", "v1"}

func genMsgSet(r *rand.Rand, kind int, base int64) []byte {
	var e enc
	switch kind {
	case msV2:
		n := 1 + r.Intn(3)
		var recs enc
		for i := 0; i < n; i++ {
			var b enc
			b.i8(0)                     // attributes
			b.varint(int64(r.Intn(50))) // timestamp delta
			b.varint(int64(i))          // offset delta
			if r.Intn(3) == 0 {
				b.varint(-1) // null key
			} else {
				k := make([]byte, r.Intn(6))
				r.Read(k)
				b.varint(int64(len(k)))
				b.b = append(b.b, k...)
			}
			v := make([]byte, r.Intn(10))
			r.Read(v)
			b.varint(int64(len(v)))
			b.b = append(b.b, v...)
			b.varint(0) // headers
			recs.varint(int64(len(b.b)))
			recs.b = append(recs.b, b.b...)
		}
		ts := r.Int63n(1 << 41)
		e.i64(base)                    // base offset
		e.i32(int32(49 + len(recs.b))) // batch length
		e.i32(ri32(r))                 // partition leader epoch
		e.i8(2)                        // magic
		e.i32(int32(r.Uint32()))       // crc (not verified by the legacy reader)
		e.i16(0)                       // attributes
		e.i32(int32(n - 1))            // last offset delta
		e.i64(ts)                      // first timestamp
		e.i64(ts + 50)                 // max timestamp
		e.i64(-1)                      // producer id
		e.i16(-1)                      // producer epoch
		e.i32(-1)                      // base sequence
		e.i32(int32(n))                // record count
		e.b = append(e.b, recs.b...)
	case msV1:
		n := 1 + r.Intn(2)
		for i := 0; i < n; i++ {
			key := rnbytes(r)
			val := rnbytes(r)
			sz := 4 + 1 + 1 + 8 + 4 + len(key) + 4 + len(val)
			e.i64(base + int64(i)) // offset
			e.i32(int32(sz))       // message size
			e.i32(int32(r.Uint32()))
			e.i8(1) // magic
			e.i8(0) // attributes
			e.i64(r.Int63n(1 << 41))
			e.byt(key)
			e.byt(val)
		}
	}
	return e.b
}

// ---------------------------------------------------------------------------
// responses
// ---------------------------------------------------------------------------

type site struct {
	field string // "" = every error code is 0
	code  int16
}

type fetchOpt struct {
	ms    int  // msEmpty, msV2, msV1
	hwmEq bool // the response's high watermark equals the offset of the Conn
}

type built struct {
	body  []byte
	marks []int
	off   int64 // fetch: the offset to seek the Conn to
}

const ownTopic = "t"

func rndFetchOpt(r *rand.Rand) fetchOpt {
	switch r.Intn(8) {
	case 0:
		return fetchOpt{msEmpty, true}
	case 1:
		return fetchOpt{msV2, true}
	case 2:
		return fetchOpt{msEmpty, false}
	case 3, 4:
		return fetchOpt{msV1, false}
	}
	return fetchOpt{msV2, false}
}

func genBody(r *rand.Rand, name string, ver int, st site, fo fetchOpt) built {
	var e enc
	var off int64
	code := func(match bool) int16 {
		if match {
			return st.code
		}
		return 0
	}
	top := code(st.field == "toplevel")

	genMeta := func(v int) {
		if v == 6 {
			e.i32(ri32(r)) // throttle
		}
		nb := rlen(r)
		ids := make([]int32, nb)
		e.arr(nb)
		for i := range ids {
			ids[i] = ri32(r)
			e.i32(ids[i])
			e.str(rstr(r))
			e.i32(ri32(r))
			e.str(rnstr(r)) // rack
		}
		if v == 6 {
			e.str(rnstr(r)) // cluster id
		}
		if nb > 0 && r.Intn(3) != 0 {
			e.i32(ids[r.Intn(nb)]) // controller id
		} else {
			e.i32(ri32(r))
		}
		// topics: names, which one is the Conn's topic, where the error goes
		nt := rlen(r)
		names := make([]string, nt)
		for i := range names {
			names[i] = rnameNot(r, ownTopic)
		}
		own := -1
		if nt > 0 && r.Intn(2) == 0 {
			own = r.Intn(nt)
			names[own] = ownTopic
		}
		np := make([]int, nt)
		for i := range np {
			np[i] = rlen(r)
		}
		et, ep := -1, -1 // topic whose error is set / partition of it
		switch st.field {
		case "topic-own":
			if own < 0 {
				if nt == 0 {
					nt, names, np = 1, []string{ownTopic}, []int{rlen(r)}
					own = 0
				} else {
					own = r.Intn(nt)
					names[own] = ownTopic
				}
			}
			et = own
		case "topic-other":
			var others []int
			for i := 0; i < nt; i++ {
				if i != own {
					others = append(others, i)
				}
			}
			if len(others) == 0 {
				names = append(names, rnameNot(r, ownTopic))
				np = append(np, rlen(r))
				others = append(others, nt)
				nt++
			}
			et = others[r.Intn(len(others))]
		case "partition":
			if nt == 0 {
				nt, names, np = 1, []string{ownTopic}, []int{0}
				own = 0
			}
			et = r.Intn(nt)
			if np[et] == 0 {
				np[et] = 1 + r.Intn(3)
			}
			ep = r.Intn(np[et])
		}
		e.arr(nt)
		for i := 0; i < nt; i++ {
			e.i16(code(i == et && ep < 0))
			e.str(&names[i])
			e.boolean(r.Intn(4) == 0)
			e.arr(np[i])
			for j := 0; j < np[i]; j++ {
				e.i16(code(i == et && j == ep))
				e.i32(ri32(r)) // partition id
				if nb > 0 && r.Intn(3) != 0 {
					e.i32(ids[r.Intn(nb)]) // leader
				} else {
					e.i32(ri32(r))
				}
				ri32s(&e, r, ids) // replicas
				ri32s(&e, r, ids) // isr
				if v == 6 {
					ri32s(&e, r, ids) // offline replicas
				}
			}
		}
	}

	switch name {
	case "produce":
		e.arr(1)
		e.str(rstr(r))
		e.arr(1)
		e.i32(ri32(r))
		e.i16(code(st.field == "partition"))
		e.i64(ri64(r))
		e.i64(rts(r))
		if ver == 7 {
			e.i64(ri64(r)) // log start offset
		}
		e.i32(ri32(r)) // throttle

	case "fetch":
		// the Conn's offset and the high watermark (never the -1 / -2 placeholders
		// of an offset: the Conn would first ask the broker to resolve them)
		var hwm int64
		if r.Intn(4) == 0 {
			off = r.Int63n(1 << 40)
		} else {
			off = int64(r.Intn(1000))
		}
		switch {
		case fo.hwmEq:
			hwm = off
		case r.Intn(4) == 0:
			for hwm = ri64(r); hwm == off; hwm = ri64(r) {
			}
		default:
			hwm = off + 1 + int64(r.Intn(1000))
		}
		ms := genMsgSet(r, fo.ms, off)
		e.i32(ri32(r)) // throttle
		if ver == 10 {
			e.i16(top)
			e.i32(ri32(r)) // session id
		}
		e.arr(1)
		e.str(rstr(r))
		e.arr(1)
		e.i32(ri32(r))
		e.i16(code(st.field == "partition"))
		e.i64(hwm)
		if ver >= 5 {
			e.i64(ri64(r)) // last stable offset
			e.i64(ri64(r)) // log start offset
			if r.Intn(4) == 0 {
				e.arr(-1) // null: no aborted transactions
			} else {
				n := rlen(r)
				e.arr(n)
				for i := 0; i < n; i++ {
					e.i64(ri64(r))
					e.i64(ri64(r))
				}
			}
		}
		e.i32(int32(len(ms))) // message set size, then the message set
		e.b = append(e.b, ms...)
		// marks inside the message set header help the quick tier
		if len(ms) > 0 {
			base := len(e.b) - len(ms)
			for _, m := range []int{8, 12, 16, 17, 18, 21, 23, 26, 27, 35, 43, 51, 53, 57, 61} {
				if m < len(ms) {
					e.marks = append(e.marks, base+m)
				}
			}
		}

	case "listoffsets":
		e.arr(1)
		e.str(rstr(r))
		e.arr(1)
		e.i32(ri32(r))
		e.i16(code(st.field == "partition"))
		e.i64(ri64(r))
		e.i64(ri64(r))

	case "metadata":
		genMeta(ver)
	case "brokers", "controller":
		genMeta(1)

	case "findcoordinator":
		e.i16(top)
		e.i32(ri32(r))
		e.str(rstr(r))
		e.i32(ri32(r))

	case "joingroup":
		if ver >= 2 {
			e.i32(ri32(r))
		}
		e.i16(top)
		e.i32(ri32(r))
		e.str(rstr(r))
		e.str(rstr(r))
		e.str(rstr(r))
		n := rlen(r)
		e.arr(n)
		for i := 0; i < n; i++ {
			e.str(rstr(r))
			e.byt(rnbytes(r))
		}

	case "syncgroup":
		e.i16(top)
		e.byt(rnbytes(r))

	case "heartbeat", "leavegroup":
		e.i16(top)

	case "offsetcommit", "offsetfetch":
		np, ti, pi := shape2(r, st.field == "partition")
		e.arr(len(np))
		for i := range np {
			e.str(rstr(r))
			e.arr(np[i])
			for j := 0; j < np[i]; j++ {
				e.i32(ri32(r))
				if name == "offsetfetch" {
					e.i64(ri64(r))
					e.str(rnstr(r)) // metadata
				}
				e.i16(code(i == ti && j == pi))
			}
		}

	case "listgroups":
		e.i32(ri32(r))
		e.i16(top)
		n := rlen(r)
		e.arr(n)
		for i := 0; i < n; i++ {
			e.str(rstr(r))
			e.str(rstr(r))
		}

	case "createtopics", "deletetopics":
		if (name == "createtopics" && ver >= 2) || (name == "deletetopics" && ver >= 1) {
			e.i32(ri32(r)) // throttle
		}
		n := rlen(r)
		t := -1
		if st.field == "topic" {
			if n == 0 {
				n = 1 + r.Intn(3)
			}
			t = r.Intn(n)
		}
		e.arr(n)
		for i := 0; i < n; i++ {
			e.str(rstr(r))
			e.i16(code(i == t))
			if name == "createtopics" && ver >= 1 {
				e.str(rnstr(r)) // error message
			}
		}

	case "apiversions":
		e.i16(top)
		n := rlen(r)
		e.arr(n)
		for i := 0; i < n; i++ {
			e.i16(int16(ri32(r)))
			e.i16(int16(ri32(r)))
			e.i16(int16(ri32(r)))
		}

	case "saslhandshake":
		e.i16(top)
		n := rlen(r)
		e.arr(n)
		for i := 0; i < n; i++ {
			e.str(rstr(r))
		}

	case "saslauthenticate":
		e.i16(top)
		e.str(rnstr(r))
		e.byt(rnbytes(r))

	default:
		panic("genBody: " + name)
	}
	return built{body: e.b, marks: e.marks, off: off}
}

// ---------------------------------------------------------------------------
// generator
// ---------------------------------------------------------------------------

func codeTag(c int16) string { return fmt.Sprintf("code=%d", c) }

func genAll(seed int64, tier string) {
	r := rand.New(rand.NewSource(seed))
	counts := map[string]int{}

	// PART A: (op, version) x error field x error code x following (op, version)
	metaCases := 0
	for _, a := range apiList {
		for _, field := range sitesOf(a.name, a.ver) {
			for _, code := range errorCodes {
				// variants of the first response
				type variant struct {
					fo   fetchOpt
					tags string
				}
				variants := []variant{{}}
				if a.name == "fetch" {
					if code != 0 {
						variants = []variant{
							{fetchOpt{msEmpty, false}, ""}, {fetchOpt{msV2, false}, ""}, {fetchOpt{msV1, false}, ""},
						}
					} else {
						variants = []variant{
							{fetchOpt{msV2, false}, ""}, {fetchOpt{msV1, false}, ""}, {fetchOpt{msEmpty, false}, ""},
							{fetchOpt{msEmpty, true}, ",hwm=off"}, {fetchOpt{msV2, true}, ",hwm=off"},
						}
					}
				}
				for _, nx := range apiList {
					if nx.name == a.name && nx.ver != a.ver {
						continue
					}
					for _, v := range variants {
						topics := []string{ownTopic}
						if a.name == "metadata" {
							metaCases++
							if metaCases%10 == 0 {
								topics = append(topics, "")
							}
						}
						for _, topic := range topics {
							b1 := genBody(r, a.name, a.ver, site{field, code}, v.fo)
							fo2 := rndFetchOpt(r)
							b2 := genBody(r, nx.name, nx.ver, site{}, fo2)
							tags := fmt.Sprintf("exh,op=%sv%d,field=%s,%s,next=%sv%d", a.name, a.ver, field, codeTag(code), nx.name, nx.ver)
							if a.name == "fetch" {
								tags += ",msgset=" + msName[v.fo.ms] + v.tags
							} else if nx.name == "fetch" {
								tags += ",msgset=" + msName[fo2.ms]
								if fo2.hwmEq {
									tags += ",hwm=off"
								}
							}
							if topic == "" {
								tags += ",conntopic=empty"
							}
							emit(&tcase{
								topic:  topic,
								ops:    []opSpec{{a.name, a.ver, b1.off}, {nx.name, nx.ver, b2.off}},
								frames: [][]byte{frame(2, b1.body), frame(3, b2.body)},
								cut:    -1,
								tags:   tags,
							})
							counts["A"]++
						}
					}
				}
			}
		}
	}

	// PART B: one response cut off at byte k
	for _, a := range apiList {
		type variant struct {
			st site
			fo fetchOpt
		}
		first := sitesOf(a.name, a.ver)[0]
		variants := []variant{{site{}, fetchOpt{msV2, false}}, {site{first, 6}, fetchOpt{msV2, false}}}
		if a.name == "fetch" {
			variants = append(variants, variant{site{}, fetchOpt{msV1, false}})
		}
		for _, v := range variants {
			minArr = 1
			b := genBody(r, a.name, a.ver, v.st, v.fo)
			minArr = 0
			fr := frame(2, b.body)
			n := len(fr)
			var ks []int
			if tier == "thorough" {
				for k := 0; k < n; k++ {
					ks = append(ks, k)
				}
			} else {
				set := map[int]bool{}
				for _, k := range []int{0, 1, 3, 4, 5, 7, 8, 9, n - 1, n - 2} {
					set[k] = true
				}
				for _, m := range b.marks { // every field boundary, and one byte into the field
					set[8+m] = true
					set[8+m+1] = true
				}
				for k := range set {
					if k >= 0 && k < n {
						ks = append(ks, k)
					}
				}
				sort.Ints(ks)
			}
			field, code := "none", int16(0)
			if v.st.field != "" {
				field, code = v.st.field, v.st.code
			}
			for _, k := range ks {
				pos := "body"
				switch {
				case k < 8:
					pos = "hdr"
				case k == n-1:
					pos = "last"
				}
				tags := fmt.Sprintf("cut,op=%sv%d,field=%s,%s,cutpos=%s", a.name, a.ver, field, codeTag(code), pos)
				if a.name == "fetch" {
					tags += ",msgset=" + msName[v.fo.ms]
				}
				emit(&tcase{
					topic:  ownTopic,
					ops:    []opSpec{{a.name, a.ver, b.off}},
					frames: [][]byte{fr},
					cut:    k,
					tags:   tags,
				})
				counts["B"]++
			}
		}
	}
	nC := genDrain(seed + 7777)
	nD := genFraming(seed + 9999)
	nE := genNego(seed + 11111)
	nF := genReads(seed + 22222)
	nG := genReadCut(seed + 33333)
	nH := genComp(seed + 44444)
	nI := genMsgCut(seed + 55555)
	nJ := genSplit(seed + 66666)
	nK := genTrunc2(seed + 77777)
	nL := genStall(seed + 88888)
	nM := genOffs(seed + 99999)
	fmt.Fprintf(os.Stderr, "c11: part A %d cases, part B %d cases, part C %d cases, part D %d cases, part E %d cases, part F %d cases, part G %d cases, part H %d cases, part I %d cases, part J %d cases, part K %d cases, part L %d cases, part M %d cases\n",
		counts["A"], counts["B"], nC, nD, nE, nF, nG, nH, nI, nJ, nK, nL, nM)
}

// ---------------------------------------------------------------------------
// PART M: the Conn's offset after a fetch answered with a broker error code
// (it must stay where it was: the next fetch, issued WITHOUT a Seek, has to ask
// for the same offset).  connoffset and fetchnoseek use the exported API only.
// ---------------------------------------------------------------------------

// the fetch offset asked for by a fetch request (the whole request, size field first)
func fetchReqOffset(req []byte) (off int64, ok bool) {
	defer func() {
		if recover() != nil {
			off, ok = 0, false
		}
	}()
	ver := int(int16(binary.BigEndian.Uint16(req[6:])))
	p := 12
	if n := int(int16(binary.BigEndian.Uint16(req[p:]))); n > 0 { // client id
		p += n
	}
	p += 2
	p += 4 + 4 + 4 // replica id, max wait, min bytes
	if ver >= 3 {
		p += 4 // max bytes
	}
	if ver >= 4 {
		p++ // isolation level
	}
	if ver >= 7 {
		p += 8 // session id, session epoch
	}
	p += 4 // topics count
	p += 2 + int(int16(binary.BigEndian.Uint16(req[p:])))
	p += 4 + 4 // partitions count, partition
	if ver >= 9 {
		p += 4 // current leader epoch
	}
	return int64(binary.BigEndian.Uint64(req[p:])), true
}

// a fetch response with an empty message set
func fetchBodyM(r *rand.Rand, ver int, top, perr int16, hwm int64) []byte {
	var e enc
	e.i32(ri32(r)) // throttle
	if ver == 10 {
		e.i16(top)
		e.i32(ri32(r)) // session id
	}
	e.arr(1)
	e.str(rstr(r))
	e.arr(1)
	e.i32(ri32(r)) // partition
	e.i16(perr)
	e.i64(hwm)
	if ver >= 5 {
		e.i64(ri64(r)) // last stable offset
		e.i64(ri64(r)) // log start offset
		e.arr(0)       // aborted transactions
	}
	e.i32(0) // message set size
	return e.b
}

func genOffs(seed int64) int {
	r := rand.New(rand.NewSource(seed))
	count := 0
	co := opSpec{"connoffset", 0, 0}
	for _, ver := range []int{2, 5, 10} {
		fields := []string{"partition"}
		if ver == 10 {
			fields = append(fields, "toplevel")
		}
		type cs struct {
			field string
			code  int16
		}
		var list []cs
		for _, f := range fields {
			for _, c := range []int16{3, 6, 1} {
				list = append(list, cs{f, c})
			}
		}
		list = append(list, cs{"none", 0}) // control: no error
		for _, c := range list {
			for _, off := range []int64{0x28, 0x3039} {
				var top, perr int16
				switch c.field {
				case "toplevel":
					top = c.code
				case "partition":
					perr = c.code
				}
				hwm1 := off + 100
				if c.code == 0 {
					hwm1 = off
				}
				emit(&tcase{
					topic:  ownTopic,
					cut:    -1,
					ops:    []opSpec{{"fetch", ver, off}, co, {"fetchnoseek", ver, 0}, co},
					frames: [][]byte{frame(2, fetchBodyM(r, ver, top, perr, hwm1)), frame(3, fetchBodyM(r, ver, 0, 0, off))},
					tags: fmt.Sprintf("offs,op=fetchv%d,field=%s,code=%d,off=%s,next=connoffset,next2=fetchnoseekv%d",
						ver, c.field, c.code, kvfmt.U(uint64(off)), ver),
				})
				count++
			}
		}
	}
	return count
}

// ---------------------------------------------------------------------------
// PART L: the peer goes SILENT after k scripted bytes (cut column
// "st<cfg>.<k>"); the Conn carries a 150 ms deadline (a: SetDeadline, r:
// SetReadDeadline, w: SetWriteDeadline) and must give up with a timeout instead
// of blocking forever.  The cases run concurrently.
// ---------------------------------------------------------------------------

var writeSide = map[string]bool{
	"produce": true, "joingroup": true, "heartbeat": true, "leavegroup": true, "offsetcommit": true,
	"createtopics": true, "deletetopics": true, "saslhandshake": true, "saslauthenticate": true,
}

// runMany runs the cases on a pool of goroutines; results in case order
func runMany(cases []*tcase) [][]string {
	res := make([][]string, len(cases))
	var wg sync.WaitGroup
	next := make(chan int)
	for w := 0; w < 32; w++ {
		wg.Add(1)
		go func() {
			defer wg.Done()
			for i := range next {
				res[i] = runCase(cases[i])
			}
		}()
	}
	for i := range cases {
		next <- i
	}
	close(next)
	wg.Wait()
	return res
}

func genStall(seed int64) int {
	r := rand.New(rand.NewSource(seed))
	var cases []*tcase
	for _, a := range apiList {
		n1 := apiVer{"heartbeat", 0}
		if a.name == "heartbeat" {
			n1 = apiVer{"leavegroup", 0}
		}
		b := genBody(r, a.name, a.ver, site{}, fetchOpt{msV2, false})
		cfgs := "a"
		if writeSide[a.name] {
			cfgs += "w"
		} else {
			cfgs += "r"
		}
		if a.name == "apiversions" {
			cfgs += "w"
		}
		for _, k := range []int{0, 8 + len(b.body)/2} {
			for _, cfg := range []byte(cfgs) {
				cases = append(cases, &tcase{
					topic:    ownTopic,
					cut:      -1,
					stallCfg: cfg,
					stallK:   k,
					ops:      []opSpec{{a.name, a.ver, b.off}, {n1.name, n1.ver, 0}},
					frames:   [][]byte{frame(2, b.body), frame(3, []byte{0, 0})},
					tags:     fmt.Sprintf("stall,kind=primed,op=%sv%d,cfg=%c,k=%s,next=%sv%d", a.name, a.ver, cfg, kvfmt.U(uint64(k)), n1.name, n1.ver),
				})
			}
		}
	}
	for _, name := range []string{"produce", "joingroup", "createtopics", "deletetopics", "saslhandshake", "fetch", "metadata"} {
		var x negAPI
		for _, a := range negAPIs {
			if a.name == name {
				x = a
			}
		}
		var s script
		s.add(avTable(r, 0, nil, false))
		n := len(s.frames[0])
		op1 := s.respond(r, x.name, x.top())
		s.add([]byte{0, 0})
		for _, k := range []int{0, 9, n - 1} {
			for _, cfg := range []byte("arw") {
				cases = append(cases, &tcase{
					topic:    ownTopic,
					cut:      -1,
					noprime:  true,
					stallCfg: cfg,
					stallK:   k,
					ops:      []opSpec{op1, {"heartbeat", 0, 0}},
					frames:   s.frames,
					tags:     fmt.Sprintf("stall,kind=nego,op=%s,cfg=%c,k=%s,next=heartbeatv0", verTag(x.name, x.top()), cfg, kvfmt.U(uint64(k))),
				})
			}
		}
	}
	res := runMany(cases)
	for i, c := range cases {
		caseID++
		fmt.Fprintf(out, "%d %s | %s | %s\n", caseID, c.head(), strings.Join(res[i], " "), c.tags)
	}
	return len(cases)
}

// ---------------------------------------------------------------------------
// PART K: the broker truncated the message set inside the last record of a
// magic-2 batch (MaxBytes truncation: the frame is complete and consistent, the
// batch header still describes the full batch).  The client must stop at the
// frame boundary, not read the missing bytes from the next response.
// ---------------------------------------------------------------------------

func genTrunc2(seed int64) int {
	r := rand.New(rand.NewSource(seed))
	count := 0
	hb := opSpec{"heartbeat", 0, 0}
	lo := opSpec{"listoffsets", 1, 0}
	for _, ver := range []int{2, 10} {
		for nwhole := 0; nwhole <= 3; nwhole++ {
			for _, nhdr := range []int{0, 2} {
				off := rndOff(r)
				n := nwhole + 1
				msgs := make([]drainMsg, n)
				var recs [][]byte
				for i := range msgs {
					m := drainMsg{off: off + int64(i), val: make([]byte, 6+r.Intn(7))}
					r.Read(m.val)
					if r.Intn(3) != 0 {
						m.key = rsmall(r, 3)
					}
					msgs[i] = m
					var b enc
					b.i8(0)                     // attributes
					b.varint(int64(r.Intn(50))) // timestamp delta
					b.varint(int64(i))          // offset delta
					if m.key == nil {
						b.varint(-1)
					} else {
						b.varint(int64(len(m.key)))
						b.b = append(b.b, m.key...)
					}
					b.varint(int64(len(m.val)))
					b.b = append(b.b, m.val...)
					b.varint(int64(nhdr))
					for h := 0; h < nhdr; h++ {
						hk, hv := make([]byte, 3), make([]byte, 4)
						r.Read(hk)
						r.Read(hv)
						b.varint(3)
						b.b = append(b.b, hk...)
						b.varint(4)
						b.b = append(b.b, hv...)
					}
					var rec enc
					rec.varint(int64(len(b.b)))
					recs = append(recs, append(rec.b, b.b...))
				}
				var all []byte
				for _, rc := range recs {
					all = append(all, rc...)
				}
				ts := r.Int63n(1 << 41)
				var e enc
				e.i64(off)                  // base offset
				e.i32(int32(49 + len(all))) // batch length of the FULL batch
				e.i32(ri32(r))              // partition leader epoch
				e.i8(2)                     // magic
				e.i32(int32(r.Uint32()))    // crc
				e.i16(0)                    // attributes
				e.i32(int32(nwhole))        // last offset delta
				e.i64(ts)
				e.i64(ts + 50)
				e.i64(-1)
				e.i16(-1)
				e.i32(-1)
				e.i32(int32(n)) // record count
				full := append(e.b, all...)
				reclen := len(recs[nwhole])
				lob := genBody(r, "listoffsets", 1, site{}, fetchOpt{})
				hdrSeed := r.Int63() // the fetch header fields are the same for every t
				type opk struct {
					name string
					acts []int64
				}
				rep := func(v int64) []int64 {
					a := make([]int64, n)
					for i := range a {
						a[i] = v
					}
					return a
				}
				ops := []opk{{"fetchread", rep(-1)}, {"fetchread", rep(64)}}
				if nwhole == 0 {
					ops = append(ops, opk{"connreadmsg", []int64{4096}}, opk{"connread", []int64{64}})
				}
				for t := 1; t < reclen; t++ {
					ms := full[:len(full)-reclen+t]
					fr := frame(2, fetchBodyF(rand.New(rand.NewSource(hdrSeed)), ver, off+100, ms))
					frames := [][]byte{fr, frame(3, []byte{0, 0}), frame(4, lob.body)}
					for _, o := range ops {
						for _, mode := range []string{"plain", "eager"} {
							tc := &tcase{
								topic:  ownTopic,
								cut:    -1,
								ops:    []opSpec{{o.name, ver, off}, hb, lo},
								acts:   map[int][]int64{0: o.acts},
								frames: frames,
								tags: fmt.Sprintf("trunc2,op=%sv%d,nwhole=%d,hdr=%d,t=%d,reclen=%d,mode=%s,next=heartbeatv0,next2=listoffsetsv1",
									o.name, ver, nwhole, nhdr, t, reclen, mode) + wantTag(msgs[:nwhole]),
							}
							if mode == "eager" {
								tc.split, tc.eager = 1, true
							}
							emit(tc)
							count++
						}
					}
				}
			}
		}
	}
	return count
}

// ---------------------------------------------------------------------------
// PART H: message sets of several batches, one of them compressed; the batch is
// closed while the reader is inside (or right before) the compressed unit, so
// Close has to skip the rest of the response on the Conn, not in the
// decompressed buffer.
// ---------------------------------------------------------------------------

var codecName = []string{"none", "gzip", "snappy", "lz4", "zstd"}

func compressBytes(codec int, b []byte) []byte {
	var buf bytes.Buffer
	w := compress.Compression(codec).Codec().NewWriter(&buf)
	if _, err := w.Write(b); err != nil {
		panic(err)
	}
	if err := w.Close(); err != nil {
		panic(err)
	}
	return buf.Bytes()
}

// one unit of a message set: a magic-2 record batch, or magic-0/1 messages; with
// codec != 0 the records section is compressed (magic 2) or the messages travel
// in a wrapper message whose value is the compressed inner message set
func buildUnit(r *rand.Rand, kind int, codec int, msgs []drainMsg) []byte {
	if codec == 0 {
		return buildMsgSet(r, kind, msgs)
	}
	var e enc
	if kind == msV2 {
		plain := buildMsgSet(r, msV2, msgs)
		recs := compressBytes(codec, plain[61:])
		e.b = append(e.b, plain[:61]...)
		binary.BigEndian.PutUint32(e.b[8:], uint32(49+len(recs))) // batch length
		binary.BigEndian.PutUint16(e.b[21:], uint16(codec))       // attributes: the codec
		return append(e.b, recs...)
	}
	inner := make([]drainMsg, len(msgs))
	copy(inner, msgs)
	if kind == msV1 { // relative offsets 0..n-1 inside the wrapper
		for i := range inner {
			inner[i].off = int64(i)
		}
	}
	val := compressBytes(codec, buildMsgSet(r, kind, inner))
	sz := 4 + 1 + 1 + 4 + 4 + len(val)
	if kind == msV1 {
		sz += 8
	}
	e.i64(msgs[len(msgs)-1].off) // the wrapper carries the offset of the last inner message
	e.i32(int32(sz))
	e.i32(int32(r.Uint32())) // crc
	if kind == msV1 {
		e.i8(1)
		e.i8(int8(codec))
		e.i64(r.Int63n(1 << 41))
	} else {
		e.i8(0)
		e.i8(int8(codec))
	}
	e.byt(nil) // null key
	e.byt(val)
	return e.b
}

func wantTag(msgs []drainMsg) string {
	wl := make([]string, len(msgs))
	for i, m := range msgs {
		wl[i] = kvfmt.I(m.off) + "," + kvfmt.Bytes(m.key) + "," + kvfmt.Bytes(m.val)
	}
	return ",want=[" + strings.Join(wl, ";") + "]"
}

func rndOff(r *rand.Rand) int64 {
	if r.Intn(3) == 0 {
		return r.Int63n(1 << 40)
	}
	return int64(r.Intn(1000))
}

func genComp(seed int64) int {
	r := rand.New(rand.NewSource(seed))
	count := 0
	hb := opSpec{"heartbeat", 0, 0}
	lo := opSpec{"listoffsets", 1, 0}
	mk := func(off int64, lo, hi int) drainMsg {
		m := drainMsg{off: off, val: make([]byte, lo+r.Intn(hi-lo+1))}
		r.Read(m.val)
		if r.Intn(3) != 0 {
			m.key = rsmall(r, 3)
		}
		return m
	}
	for _, ver := range []int{2, 5, 10} {
		for _, kind := range []int{msV0, msV1, msV2} {
			for codec := 1; codec <= 4; codec++ {
				for _, layout := range []string{"CU", "UCU"} {
					off := rndOff(r)
					var all []drainMsg
					var ms []byte
					next := off
					beforeEndOfC := 0
					for _, u := range layout {
						var msgs []drainMsg
						if u == 'C' {
							for i := 0; i < 3; i++ {
								msgs = append(msgs, mk(next, 30, 40))
								next++
							}
							ms = append(ms, buildUnit(r, kind, codec, msgs)...)
							all = append(all, msgs...)
							beforeEndOfC = len(all)
						} else {
							msgs = append(msgs, mk(next, 1, 3))
							next++
							ms = append(ms, buildUnit(r, kind, 0, msgs)...)
							all = append(all, msgs...)
						}
					}
					fr := frame(2, fetchBodyF(r, ver, off+100, ms))
					lob := genBody(r, "listoffsets", 1, site{}, fetchOpt{})
					frames := [][]byte{fr, frame(3, []byte{0, 0}), frame(4, lob.body)}
					put := func(name string, acts []int64, k string) {
						a := acts
						if a == nil {
							a = []int64{}
						}
						emit(&tcase{
							topic:  ownTopic,
							cut:    -1,
							ops:    []opSpec{{name, ver, off}, hb, lo},
							acts:   map[int][]int64{0: a},
							frames: frames,
							tags: fmt.Sprintf("comp,op=%sv%d,msgset=%s,codec=%s,layout=%s,k=%s,next=heartbeatv0,next2=listoffsetsv1",
								name, ver, msTag(kind), codecName[codec], layout, k) + wantTag(all),
						})
						count++
					}
					for k := 0; k < beforeEndOfC; k++ {
						var acts []int64
						for i := 0; i < k; i++ {
							acts = append(acts, -1)
						}
						put("fetchread", acts, strconv.Itoa(k))
					}
					put("connreadmsg", []int64{4096}, "1")
					put("connread", []int64{64}, "1")
				}
			}
		}
	}
	return count
}

// ---------------------------------------------------------------------------
// PART I: Conn.ReadMessage / two Batch.ReadMessage over every cut position.
// ---------------------------------------------------------------------------

func genMsgCut(seed int64) int {
	r := rand.New(rand.NewSource(seed))
	count := 0
	hb := opSpec{"heartbeat", 0, 0}
	for _, ver := range []int{2, 5, 10} {
		for _, kind := range []int{msV0, msV1, msV2} {
			off := rndOff(r)
			msgs := make([]drainMsg, 2)
			for i := range msgs {
				m := drainMsg{off: off + int64(i), val: make([]byte, 3+r.Intn(6))}
				r.Read(m.val)
				if r.Intn(3) != 0 {
					m.key = rsmall(r, 3)
				}
				msgs[i] = m
			}
			ms, ends := buildMsgSetEnds(r, kind, msgs)
			body := fetchBodyF(r, ver, off+100, ms)
			fr := frame(2, body)
			msStart := len(fr) - len(ms)
			pe := make([]string, len(ends))
			for i, p := range ends {
				pe[i] = kvfmt.U(uint64(msStart + p))
			}
			for _, o := range []struct {
				name string
				acts []int64
			}{{"connreadmsg", []int64{4096}}, {"fetchread", []int64{-1, -1}}} {
				tags := fmt.Sprintf("msgcut,op=%sv%d,msgset=%s,recends=%s,next=heartbeatv0", o.name, ver, msTag(kind), strings.Join(pe, "/")) + wantTag(msgs)
				for k := -1; k < len(fr); k++ {
					emit(&tcase{
						topic:  ownTopic,
						cut:    k,
						ops:    []opSpec{{o.name, ver, off}, hb},
						acts:   map[int][]int64{0: o.acts},
						frames: [][]byte{fr, frame(3, []byte{0, 0})},
						tags:   tags,
					})
					count++
				}
			}
		}
	}
	return count
}

// ---------------------------------------------------------------------------
// PART J: the response arrives in two network reads split at every position
// (a read that straddles the refill of the buffer must keep the remaining-size
// counter right), with and without the following responses already on the wire.
// ---------------------------------------------------------------------------

func genSplit(seed int64) int {
	r := rand.New(rand.NewSource(seed))
	count := 0
	hb := opSpec{"heartbeat", 0, 0}
	lo := opSpec{"listoffsets", 1, 0}
	sweep := func(ver, kind int, lens []int, modes []string) {
		off := rndOff(r)
		msgs := make([]drainMsg, len(lens))
		for i := range msgs {
			msgs[i] = drainMsg{off: off + int64(i), val: make([]byte, lens[i])} // null keys
			r.Read(msgs[i].val)
		}
		fr := frame(2, fetchBodyF(r, ver, off+100, buildMsgSet(r, kind, msgs)))
		lob := genBody(r, "listoffsets", 1, site{}, fetchOpt{})
		frames := [][]byte{fr, frame(3, []byte{0, 0}), frame(4, lob.body)}
		for _, o := range []struct {
			name string
			acts []int64
		}{{"fetchread", []int64{-1, -1}}, {"connreadmsg", []int64{4096}}} {
			put := func(mode string, k int) {
				emit(&tcase{
					topic:  ownTopic,
					cut:    -1,
					split:  k,
					eager:  mode == "e",
					ops:    []opSpec{{o.name, ver, off}, hb, lo},
					acts:   map[int][]int64{0: o.acts},
					frames: frames,
					tags:   fmt.Sprintf("split,op=%sv%d,msgset=%s,mode=%s,next=heartbeatv0,next2=listoffsetsv1", o.name, ver, msTag(kind), mode) + wantTag(msgs),
				})
				count++
			}
			put("none", 0) // the reference: one piece
			for _, mode := range modes {
				for k := 1; k < len(fr); k++ {
					put(mode, k)
				}
			}
		}
	}
	for _, ver := range []int{2, 10} {
		sweep(ver, msV2, []int{70, 75}, []string{"s", "e"})
	}
	for _, ver := range []int{2, 10} {
		sweep(ver, msV1, []int{20, 20}, []string{"s"})
	}
	return count
}

// ---------------------------------------------------------------------------
// PART G: the short-buffer reads of part F on a response that is cut before,
// inside and after the value of the first message (a connection lost inside a
// value longer than the buffer must not be reported as io.ErrShortBuffer).
// ---------------------------------------------------------------------------

func genReadCut(seed int64) int {
	r := rand.New(rand.NewSource(seed))
	count := 0
	hb := opSpec{"heartbeat", 0, 0}
	for _, ver := range []int{2, 10} {
		for _, kind := range []int{msV0, msV1, msV2} {
			var off int64
			if r.Intn(3) == 0 {
				off = r.Int63n(1 << 40)
			} else {
				off = int64(r.Intn(1000))
			}
			var fr []byte
			vs := -1
			for vs < 0 { // the value must occur once in the frame, so that it can be located
				msgs := []drainMsg{
					{off: off, val: make([]byte, 20)},
					{off: off + 1, key: rsmall(r, 4), val: make([]byte, 5)},
				}
				r.Read(msgs[0].val)
				r.Read(msgs[1].val)
				fr = frame(2, fetchBodyF(r, ver, off+100, buildMsgSet(r, kind, msgs)))
				if strings.Count(string(fr), string(msgs[0].val)) == 1 {
					vs = strings.Index(string(fr), string(msgs[0].val))
				}
			}
			ve := vs + 20
			type cutAt struct {
				k   int
				rel string
			}
			cuts := []cutAt{{3, "before"}, {8, "before"}, {vs - 1, "before"}}
			for k := vs; k < ve; k++ {
				cuts = append(cuts, cutAt{k, "inside"})
			}
			cuts = append(cuts, cutAt{ve, "after"}, cutAt{ve + 1, "after"}, cutAt{len(fr) - 1, "after"})
			for _, o := range []struct {
				name string
				cap  int64
			}{{"fetchread", 0}, {"fetchread", 1}, {"fetchread", 19}, {"connread", 1}, {"connread", 19}} {
				for _, c := range cuts {
					emit(&tcase{
						topic:  ownTopic,
						ops:    []opSpec{{o.name, ver, off}, hb},
						acts:   map[int][]int64{0: {o.cap}},
						frames: [][]byte{fr, frame(3, []byte{0, 0})},
						cut:    c.k,
						tags: fmt.Sprintf("readcut,op=%sv%d,msgset=%s,cap=%d,cutrel=%s,vs=%s,ve=%s,next=heartbeatv0",
							o.name, ver, msTag(kind), o.cap, c.rel, kvfmt.U(uint64(vs)), kvfmt.U(uint64(ve))),
					})
					count++
				}
			}
		}
	}
	return count
}

// ---------------------------------------------------------------------------
// PART E: real version negotiation ("nrun": the Conn is not primed, the script
// also answers the ApiVersions requests issued by loadVersions).
// ---------------------------------------------------------------------------

type negAPI struct {
	name string
	key  int16
	sup  []int // versions the Conn supports, sorted
}

var negAPIs = []negAPI{
	{"produce", 0, []int{2, 3, 7}},
	{"fetch", 1, []int{2, 5, 10}},
	{"metadata", 3, []int{1, 6}},
	{"joingroup", 11, []int{1, 2}},
	{"createtopics", 19, []int{0, 1, 2}},
	{"deletetopics", 20, []int{0, 1}},
	{"saslhandshake", 17, []int{0, 1}},
}

func (a negAPI) top() int { return a.sup[len(a.sup)-1] }

// conn.go apiVersionMap.negotiate: the highest supported version that is not
// above the broker's MaxVersion (0 for a key missing from the table), or -1
func negotiateRef(max int, sup []int) int {
	for i := len(sup) - 1; i >= 0; i-- {
		if max >= sup[i] {
			return sup[i]
		}
	}
	return -1
}

const absent = math.MinInt32

// the body of an ApiVersions v0 response: every key of 0..20 and 36 with a
// generous MaxVersion, except the keys of over (absent = leave the key out);
// MinVersion is random (the Conn ignores it)
func avTable(r *rand.Rand, code int16, over map[int16]int, empty bool) []byte {
	max := map[int16]int{
		2: 1, 4: 0, 5: 0, 6: 0, 7: 0, 8: 2, 9: 1, 10: 0, 12: 0, 13: 0,
		14: 0, 15: 0, 16: 1, 18: 0, 36: 0,
	}
	for _, a := range negAPIs {
		max[a.key] = a.top() + r.Intn(3)
	}
	for k, v := range over {
		if v == absent {
			delete(max, k)
		} else {
			max[k] = v
		}
	}
	keys := make([]int, 0, len(max))
	for k := range max {
		keys = append(keys, int(k))
	}
	sort.Ints(keys)
	var e enc
	e.i16(code)
	if empty {
		e.arr(0)
		return e.b
	}
	e.arr(len(keys))
	for _, k := range keys {
		e.i16(int16(k))
		e.i16(int16(r.Intn(9) - 1)) // min version: -1..7, may exceed the maximum
		e.i16(int16(max[int16(k)]))
	}
	return e.b
}

// frames in the order the Conn consumes them, with the ids it will use
type script struct {
	frames [][]byte
	id     int32
}

func (s *script) add(body []byte) {
	s.id++
	s.frames = append(s.frames, frame(s.id, body))
}

// the success response of an operation at a version; gives the op
func (s *script) respond(r *rand.Rand, name string, ver int) opSpec {
	b := genBody(r, name, ver, site{}, fetchOpt{msV2, false})
	s.add(b.body)
	return opSpec{name, ver, b.off}
}

func verTag(name string, ver int) string {
	if ver < 0 {
		return name + "v-"
	}
	return fmt.Sprintf("%sv%d", name, ver)
}

func maxTag(m int) string {
	if m == absent {
		return "absent"
	}
	return strconv.Itoa(m)
}

func genNego(seed int64) int {
	r := rand.New(rand.NewSource(seed))
	count := 0
	put := func(s *script, ops []opSpec, cut int, tags string) {
		emit(&tcase{topic: ownTopic, ops: ops, frames: s.frames, cut: cut, tags: tags, noprime: true})
		count++
	}
	hb := opSpec{"heartbeat", 0, 0}

	// (a) one table, op1 negotiated from it, heartbeat, a second negotiated
	// operation of another API served from the cached table
	for xi, x := range negAPIs {
		y := negAPIs[(xi+1)%len(negAPIs)]
		var maxes []int
		maxes = append(maxes, x.sup...)
		for i := 0; i+1 < len(x.sup); i++ { // one value strictly between two supported versions
			if x.sup[i+1]-x.sup[i] > 1 {
				maxes = append(maxes, x.sup[i]+1+r.Intn(x.sup[i+1]-x.sup[i]-1))
				break
			}
		}
		below := 0 // below every supported version
		if x.sup[0] == 0 {
			below = -1
		}
		maxes = append(maxes, 12, below, absent)
		for _, m := range maxes {
			var s script
			s.add(avTable(r, 0, map[int16]int{x.key: m}, false))
			eff := m
			if m == absent {
				eff = 0
			}
			v := negotiateRef(eff, x.sup)
			op1 := opSpec{x.name, v, 0}
			if v >= 0 {
				op1 = s.respond(r, x.name, v)
			}
			s.add([]byte{0, 0})
			op3 := s.respond(r, y.name, y.top())
			put(&s, []opSpec{op1, hb, op3}, -1, fmt.Sprintf("nego,kind=table,op=%s,next=heartbeatv0,next2=%s,max=%s,code=0",
				verTag(x.name, v), verTag(y.name, y.top()), maxTag(m)))
		}
	}

	// (b) the ApiVersions answer carries an error code: op1 fails with it and
	// nothing may be cached, so op2 asks again
	for _, code := range []int16{35, 1, -1} {
		for _, empty := range []bool{true, false} {
			for xi, x := range negAPIs {
				for _, z := range []negAPI{x, negAPIs[(xi+2)%len(negAPIs)]} {
					var s script
					// the table sent with the error names the lowest versions: a Conn
					// that kept it would not ask again and would negotiate those
					s.add(avTable(r, code, map[int16]int{x.key: x.sup[0], z.key: z.sup[0]}, empty))
					op1 := opSpec{x.name, x.top(), 0}
					s.add(avTable(r, 0, nil, false))
					op2 := s.respond(r, z.name, z.top())
					s.add([]byte{0, 0})
					list, m := "table", strconv.Itoa(z.sup[0])
					if empty {
						list, m = "empty", "absent"
					}
					put(&s, []opSpec{op1, op2, hb}, -1, fmt.Sprintf("nego,kind=errcode,op=%s,next=%s,next2=heartbeatv0,max=%s,code=%d,list=%s",
						verTag(x.name, x.top()), verTag(z.name, z.top()), m, code, list))
				}
			}
		}
	}
	// the public Conn.ApiVersions never caches: the negotiated op2 asks again
	for _, x := range negAPIs {
		var s script
		s.add(avTable(r, 0, map[int16]int{x.key: x.sup[0]}, false))
		s.add(avTable(r, 0, nil, false))
		op2 := s.respond(r, x.name, x.top())
		s.add([]byte{0, 0})
		put(&s, []opSpec{{"apiversions", 0, 0}, op2, hb}, -1, fmt.Sprintf("nego,kind=errcode,op=apiversionsv0,next=%s,next2=heartbeatv0,max=%d,code=0,list=explicit",
			verTag(x.name, x.top()), x.sup[0]))
	}

	// (c) the first ApiVersions response is cut
	for xi, x := range negAPIs {
		y := negAPIs[(xi+1)%len(negAPIs)]
		var s script
		s.add(avTable(r, 0, nil, false))
		n := len(s.frames[0])
		op1 := s.respond(r, x.name, x.top())
		s.add([]byte{0, 0})
		op3 := s.respond(r, y.name, y.top())
		for _, k := range []int{3, 9, n - 1} {
			pos := "body"
			switch {
			case k < 8:
				pos = "hdr"
			case k == n-1:
				pos = "last"
			}
			put(&s, []opSpec{op1, hb, op3}, k, fmt.Sprintf("nego,kind=cut,op=%s,next=heartbeatv0,next2=%s,max=%d,code=0,cutpos=%s",
				verTag(x.name, x.top()), verTag(y.name, y.top()), x.top(), pos))
		}
	}
	return count
}

// ---------------------------------------------------------------------------
// PART F: fetches read through Batch.Read / Batch.ReadMessage / Conn.Read /
// Conn.ReadMessage, with buffers shorter than, equal to and longer than the
// value, and what the Conn does afterwards.
// ---------------------------------------------------------------------------

const msV0 = 3

func msTag(kind int) string {
	if kind == msV0 {
		return "v0"
	}
	return msName[kind]
}

func buildMsgSet(r *rand.Rand, kind int, msgs []drainMsg) []byte {
	ms, _ := buildMsgSetEnds(r, kind, msgs)
	return ms
}

// ends[i]: the number of bytes of the message set after which message i is wholly there
func buildMsgSetEnds(r *rand.Rand, kind int, msgs []drainMsg) (ms []byte, ends []int) {
	var e enc
	switch kind {
	case msV2:
		var recs enc
		for i, m := range msgs {
			var b enc
			b.i8(0)                     // attributes
			b.varint(int64(r.Intn(50))) // timestamp delta
			b.varint(int64(i))          // offset delta
			if m.key == nil {
				b.varint(-1)
			} else {
				b.varint(int64(len(m.key)))
				b.b = append(b.b, m.key...)
			}
			b.varint(int64(len(m.val)))
			b.b = append(b.b, m.val...)
			b.varint(0) // headers
			recs.varint(int64(len(b.b)))
			recs.b = append(recs.b, b.b...)
			ends = append(ends, 61+len(recs.b))
		}
		ts := r.Int63n(1 << 41)
		e.i64(msgs[0].off)             // base offset
		e.i32(int32(49 + len(recs.b))) // batch length: what follows this field
		e.i32(ri32(r))                 // partition leader epoch
		e.i8(2)                        // magic
		e.i32(int32(r.Uint32()))       // crc (not verified by the legacy reader)
		e.i16(0)                       // attributes
		e.i32(int32(len(msgs) - 1))    // last offset delta
		e.i64(ts)                      // first timestamp
		e.i64(ts + 50)                 // max timestamp
		e.i64(-1)                      // producer id
		e.i16(-1)                      // producer epoch
		e.i32(-1)                      // base sequence
		e.i32(int32(len(msgs)))        // record count
		e.b = append(e.b, recs.b...)
	case msV1, msV0:
		for _, m := range msgs {
			sz := 4 + 1 + 1 + 4 + len(m.key) + 4 + len(m.val)
			if kind == msV1 {
				sz += 8
			}
			e.i64(m.off)     // offset
			e.i32(int32(sz)) // message size: what follows this field
			e.i32(int32(r.Uint32()))
			if kind == msV1 {
				e.i8(1) // magic
				e.i8(0) // attributes
				e.i64(r.Int63n(1 << 41))
			} else {
				e.i8(0) // magic
				e.i8(0) // attributes
			}
			e.byt(m.key) // nil = null
			e.byt(m.val)
			ends = append(ends, len(e.b))
		}
	}
	return e.b, ends
}

func fetchBodyF(r *rand.Rand, ver int, hwm int64, ms []byte) []byte {
	var e enc
	e.i32(ri32(r)) // throttle
	if ver == 10 {
		e.i16(0)
		e.i32(ri32(r)) // session id
	}
	e.arr(1)
	e.str(rstr(r))
	e.arr(1)
	e.i32(ri32(r)) // partition
	e.i16(0)
	e.i64(hwm)
	if ver >= 5 {
		e.i64(ri64(r)) // last stable offset
		e.i64(ri64(r)) // log start offset
		if r.Intn(4) == 0 {
			e.arr(-1)
		} else {
			na := r.Intn(3)
			e.arr(na)
			for i := 0; i < na; i++ {
				e.i64(ri64(r))
				e.i64(ri64(r))
			}
		}
	}
	e.i32(int32(len(ms)))
	e.b = append(e.b, ms...)
	return e.b
}

func genReads(seed int64) int {
	r := rand.New(rand.NewSource(seed))
	count := 0
	caseNo := 0
	hb := opSpec{"heartbeat", 0, 0}
	for _, ver := range []int{2, 5, 10} {
		for _, kind := range []int{msV0, msV1, msV2} {
			var off int64
			if r.Intn(3) == 0 {
				off = r.Int63n(1 << 40)
			} else {
				off = int64(r.Intn(1000))
			}
			lens := r.Perm(9)[:3] // distinct value lengths in 4..12
			msgs := make([]drainMsg, 3)
			wl := make([]string, 3)
			for i := range msgs {
				m := drainMsg{off: off + int64(i), val: make([]byte, 4+lens[i])}
				r.Read(m.val)
				if r.Intn(3) != 0 {
					m.key = rsmall(r, 4)
				} // else a null key
				msgs[i] = m
				wl[i] = kvfmt.I(m.off) + "," + kvfmt.Bytes(m.key) + "," + kvfmt.Bytes(m.val)
			}
			want := ",want=[" + strings.Join(wl, ";") + "]"
			full := fetchBodyF(r, ver, off+100, buildMsgSet(r, kind, msgs))
			lo := genBody(r, "listoffsets", 1, site{}, fetchOpt{})

			for i := 0; i < 3; i++ {
				n := int64(len(msgs[i].val))
				caps := []struct {
					c   int64
					tag string
				}{{0, "zero"}, {1, "one"}, {n - 1, "short"}, {n, "equal"}, {n + 3, "long"}}
				for _, cp := range caps {
					variants := 1
					if cp.c < n {
						variants = 2
					}
					for v := 1; v <= variants; v++ {
						caseNo++
						pre := int64(-1)
						if caseNo%2 == 1 {
							pre = 64
						}
						var acts []int64
						for j := 0; j < i; j++ {
							acts = append(acts, pre)
						}
						acts = append(acts, cp.c)
						tc := &tcase{topic: ownTopic, cut: -1, acts: map[int][]int64{0: acts}}
						base := fmt.Sprintf("reads,op=fetchreadv%d,msgset=%s,target=%d,cap=%s", ver, msTag(kind), i, cp.tag)
						if v == 1 {
							tc.ops = []opSpec{{"fetchread", ver, off}, hb, {"listoffsets", 1, 0}}
							tc.frames = [][]byte{frame(2, full), frame(3, []byte{0, 0}), frame(4, lo.body)}
							tc.tags = base + ",next=heartbeatv0,next2=listoffsetsv1" + want
						} else {
							// the documented retry: fetch again from the message that did not fit
							retry := fetchBodyF(r, ver, off+100, buildMsgSet(r, kind, msgs[i:]))
							tc.ops = []opSpec{{"fetchread", ver, off}, {"fetchread", ver, off + int64(i)}, hb}
							tc.acts[1] = []int64{64}
							tc.frames = [][]byte{frame(2, full), frame(3, retry), frame(4, []byte{0, 0})}
							tc.tags = base + fmt.Sprintf(",next=fetchreadv%d,next2=heartbeatv0", ver) + want
						}
						emit(tc)
						count++
					}
				}
			}
			// Conn.Read / Conn.ReadMessage: one fetch per call, the first message
			n0 := int64(len(msgs[0].val))
			for _, cr := range []struct {
				name string
				c    int64
				tag  string
			}{{"connread", n0 - 1, "short"}, {"connread", 64, "long"}, {"connreadmsg", 64, "long"}} {
				emit(&tcase{
					topic:  ownTopic,
					cut:    -1,
					ops:    []opSpec{{cr.name, ver, off}, hb, {"listoffsets", 1, 0}},
					acts:   map[int][]int64{0: {cr.c}},
					frames: [][]byte{frame(2, full), frame(3, []byte{0, 0}), frame(4, lo.body)},
					tags:   fmt.Sprintf("reads,op=%sv%d,msgset=%s,target=0,cap=%s,next=heartbeatv0,next2=listoffsetsv1", cr.name, ver, msTag(kind), cr.tag) + want,
				})
				count++
			}
		}
	}
	return count
}

// ---------------------------------------------------------------------------
// PART D: framing errors on the first response, then TWO further operations on
// the same Conn (what the Conn does after io.ErrNoProgress / a short or
// oversized frame / a cut).  Generated after part C from a PRNG of its own.
// ---------------------------------------------------------------------------

func genFraming(seed int64) int {
	r := rand.New(rand.NewSource(seed))
	count := 0
	for _, a := range apiList {
		n1 := apiVer{"heartbeat", 0}
		if a.name == "heartbeat" {
			n1 = apiVer{"leavegroup", 0}
		}
		n2 := apiVer{"listoffsets", 1}
		if a.name == "listoffsets" {
			n2 = apiVer{"offsetfetch", 1}
		}
		b1 := genBody(r, a.name, a.ver, site{}, fetchOpt{msV2, false})
		b2 := genBody(r, n1.name, n1.ver, site{}, fetchOpt{})
		b3 := genBody(r, n2.name, n2.ver, site{}, fetchOpt{})
		ops := []opSpec{{a.name, a.ver, b1.off}, {n1.name, n1.ver, 0}, {n2.name, n2.ver, 0}}
		good := frame(2, b1.body)
		f2, f3 := frame(3, b2.body), frame(4, b3.body)
		resize := func(d int) []byte {
			fr := append([]byte(nil), good...)
			binary.BigEndian.PutUint32(fr, uint32(len(b1.body)+4+d))
			return fr
		}
		base := fmt.Sprintf("op=%sv%d,next=%sv%d,next2=%sv%d", a.name, a.ver, n1.name, n1.ver, n2.name, n2.ver)
		add := func(kind string, fr1 []byte, cut int, extra string) {
			emit(&tcase{
				topic:  ownTopic,
				ops:    ops,
				frames: [][]byte{fr1, f2, f3},
				cut:    cut,
				tags:   "framing,kind=" + kind + "," + base + extra,
			})
			count++
		}
		add("foreignid", frame(7, b1.body), -1, "")
		add("shortframe", resize(-1), -1, ",d=1")
		add("shortframe", resize(-2), -1, ",d=2")
		add("oversized", resize(3), len(good), "")
		for _, k := range []int{3, 8 + len(b1.body)/2, len(good) - 1} {
			pos := "body"
			switch {
			case k < 8:
				pos = "hdr"
			case k == len(good)-1:
				pos = "last"
			}
			add("cut", good, k, ",cutpos="+pos)
		}
	}
	return count
}

// ---------------------------------------------------------------------------
// PART C: a fetch whose messages are all read (fetchdrain).  Not covered by the
// model, judged by a predicate on the tags; generated after parts A and B from
// a PRNG of its own so that those stay what they were.
// ---------------------------------------------------------------------------

type drainMsg struct {
	off      int64
	key, val []byte
}

func rsmall(r *rand.Rand, max int) []byte {
	b := make([]byte, r.Intn(max+1))
	r.Read(b)
	return b
}

// a message set of n records with consecutive offsets off, off+1, ...; ends[i] is
// the number of bytes of the message set after which record i is wholly there
func genDrainMsgSet(r *rand.Rand, kind int, n int, off int64) (ms []byte, ends []int, want []drainMsg) {
	for i := 0; i < n; i++ {
		m := drainMsg{off: off + int64(i), val: rsmall(r, 9)}
		if r.Intn(3) != 0 {
			m.key = rsmall(r, 5)
		} // else a null key
		want = append(want, m)
	}
	var e enc
	switch kind {
	case msV2:
		var recs enc
		var recEnds []int
		for i, m := range want {
			var b enc
			b.i8(0)                     // attributes
			b.varint(int64(r.Intn(50))) // timestamp delta
			b.varint(int64(i))          // offset delta
			if m.key == nil {
				b.varint(-1)
			} else {
				b.varint(int64(len(m.key)))
				b.b = append(b.b, m.key...)
			}
			b.varint(int64(len(m.val)))
			b.b = append(b.b, m.val...)
			b.varint(0) // headers
			recs.varint(int64(len(b.b)))
			recs.b = append(recs.b, b.b...)
			recEnds = append(recEnds, len(recs.b))
		}
		ts := r.Int63n(1 << 41)
		e.i64(off)                     // base offset
		e.i32(int32(49 + len(recs.b))) // batch length: what follows this field
		e.i32(ri32(r))                 // partition leader epoch
		e.i8(2)                        // magic
		e.i32(int32(r.Uint32()))       // crc (not verified by the legacy reader)
		e.i16(0)                       // attributes
		e.i32(int32(n - 1))            // last offset delta
		e.i64(ts)                      // first timestamp
		e.i64(ts + 50)                 // max timestamp
		e.i64(-1)                      // producer id
		e.i16(-1)                      // producer epoch
		e.i32(-1)                      // base sequence
		e.i32(int32(n))                // record count
		hdr := len(e.b)
		e.b = append(e.b, recs.b...)
		for _, p := range recEnds {
			ends = append(ends, hdr+p)
		}
	case msV1:
		for _, m := range want {
			sz := 4 + 1 + 1 + 8 + 4 + len(m.key) + 4 + len(m.val)
			e.i64(m.off)     // offset
			e.i32(int32(sz)) // message size: what follows this field
			e.i32(int32(r.Uint32()))
			e.i8(1) // magic
			e.i8(0) // attributes
			e.i64(r.Int63n(1 << 41))
			e.byt(m.key) // nil = null
			if m.val == nil {
				e.byt([]byte{})
			} else {
				e.byt(m.val)
			}
			ends = append(ends, len(e.b))
		}
	}
	return e.b, ends, want
}

func genDrain(seed int64) int {
	r := rand.New(rand.NewSource(seed))
	count := 0
	type kind struct {
		ms, n int
	}
	kinds := []kind{{msV2, 1}, {msV2, 2}, {msV2, 3}, {msV1, 1}, {msV1, 2}}
	for _, ver := range []int{2, 5, 10} {
		for _, kd := range kinds {
			for variant := 0; variant < 2; variant++ {
				var off int64
				if r.Intn(3) == 0 {
					off = r.Int63n(1 << 40)
				} else {
					off = int64(r.Intn(1000))
				}
				ms, ends, want := genDrainMsgSet(r, kd.ms, kd.n, off)
				var e enc
				e.i32(ri32(r)) // throttle
				if ver == 10 {
					e.i16(0)
					e.i32(ri32(r)) // session id
				}
				e.arr(1)
				e.str(rstr(r))
				e.arr(1)
				e.i32(ri32(r)) // partition
				e.i16(0)
				e.i64(off + 100) // high watermark
				if ver >= 5 {
					e.i64(ri64(r)) // last stable offset
					e.i64(ri64(r)) // log start offset
					if r.Intn(4) == 0 {
						e.arr(-1)
					} else {
						na := r.Intn(3)
						e.arr(na)
						for i := 0; i < na; i++ {
							e.i64(ri64(r))
							e.i64(ri64(r))
						}
					}
				}
				e.i32(int32(len(ms)))
				msStart := 8 + len(e.b) // position in the frame
				e.b = append(e.b, ms...)
				fr := frame(2, e.b)

				pe := make([]string, len(ends))
				for i, p := range ends {
					pe[i] = kvfmt.U(uint64(msStart + p))
				}
				wl := make([]string, len(want))
				for i, m := range want {
					wl[i] = kvfmt.I(m.off) + "," + kvfmt.Bytes(m.key) + "," + kvfmt.Bytes(m.val)
				}
				base := fmt.Sprintf("drain,op=fetchdrainv%d,msgset=%s,nrec=%d,recends=%s,want=[%s]",
					ver, msName[kd.ms], kd.n, strings.Join(pe, "/"), strings.Join(wl, ";"))

				// (a) the whole response, then a heartbeat on the same connection
				emit(&tcase{
					topic:  ownTopic,
					ops:    []opSpec{{"fetchdrain", ver, off}, {"heartbeat", 0, 0}},
					frames: [][]byte{fr, frame(3, []byte{0, 0})},
					cut:    -1,
					tags:   base + ",next=heartbeatv0",
				})
				count++
				// (b) cut at every byte
				for k := 0; k < len(fr); k++ {
					pos := "body"
					switch {
					case k < 8:
						pos = "hdr"
					case k == len(fr)-1:
						pos = "last"
					}
					emit(&tcase{
						topic:  ownTopic,
						ops:    []opSpec{{"fetchdrain", ver, off}},
						frames: [][]byte{fr},
						cut:    k,
						tags:   base + ",cutpos=" + pos,
					})
					count++
				}
			}
		}
	}
	return count
}

func main() {
	gen := flag.Bool("gen", false, "generate the cases, run them, print the lines")
	run := flag.Bool("run", false, "re-run the case lines read from stdin")
	seed := flag.Int64("seed", 1, "PRNG seed")
	tier := flag.String("tier", "quick", "quick | thorough")
	flag.Parse()
	out = bufio.NewWriterSize(os.Stdout, 1<<20)
	defer out.Flush()
	kafka.VerifC11Classify = classify
	switch {
	case *gen && !*run:
		if *tier != "quick" && *tier != "thorough" {
			fmt.Fprintln(os.Stderr, "c11: -tier quick|thorough")
			os.Exit(2)
		}
		genAll(*seed, *tier)
	case *run && !*gen:
		replay()
	default:
		fmt.Fprintln(os.Stderr, "usage: c11 -gen -seed S -tier quick|thorough  |  c11 -run < lines")
		os.Exit(2)
	}
}
