// c14: correspondence driver for the consumer-group balancers (property C14).
//
// Generates consumer groups from one PRNG (plus an optional small-scope
// enumeration), runs the real Range / RoundRobin / RackAffinity AssignGroups of
// /repo on them and prints one line per case:
//
//	<id> <op> <members> <partitions> | <go result> | <features>
//
// members    = "-" (none) or  id:topics:userdata ; ...   topics = "-" (none) or hex,hex,...
// partitions = "-" (none) or  topic:id:rack ; ...
// strings are hex pairs ("." = empty string), partition ids hex integers.
//
// result, canonical form of a GroupMemberAssignments:
//
//	"-" (no member key) or  mid=topics ; ...   sorted by member id (bytewise);
//	topics = "-" (nothing assigned) or  thex:p,p,p + thex:p,p ...  sorted by topic,
//	(member,topic) entries with an empty list dropped, partition order as assigned.
//
// range / rr : "<canonical> perm=same|DIFF"  (perm: the same group with the member
// listing and every topic list shuffled gave the same canonical result or not);
// member keys with nothing assigned are kept.
// rack       : the DISTINCT canonical results of 8 (-rackruns) runs joined by "/" (members with
// nothing assigned dropped); a run that panicked contributes PANIC.
//
// lrange / lrr / lrack : the group LEADER path.  The real ConsumerGroup.assignTopicPartitions
// (kafka.VerifAssignTopicPartitions: findGroupBalancer, metadata encode+decode, extractTopics,
// readPartitions with its per-topic fallback, AssignGroups) runs against a fake broker holding
// <partitions> as the CLUSTER.  Like a real broker seen through Conn.ReadPartitions, a request
// naming a topic the cluster has no partition of fails as a whole with UnknownTopicOrPartition;
// otherwise the answer is the cluster's partitions of exactly the requested topics, in cluster
// order.  Every request is journalled.  Result:
//
//	"<canonical> req=<r1>;<r2>;... wire=<w> wirediff=<n>"
//
// Every case runs several rounds (-wirerounds; a fresh kafka.VerifLeaderJoinSync each: real joinGroup
// as leader members[0], real assignTopicPartitions, real syncGroup / makeSyncGroupRequestV0).
// <canonical> = the distinct canonical assignments joinGroup returned over the rounds joined by "/"
// (one for range/rr); r = requested topics, hex joined by ',' ("-" = empty request; "none" when no
// request was made; distinct journals joined by "/" if they ever differ); <w> = the distinct
// canonical forms of the SyncGroup request's GroupAssignments as the coordinator received them, raw
// bytes decoded by hand here, canonicalised like an assignment, joined by "/" (WIREERR:<why> when a
// member assignment does not decode, NOWIRE when there was no request); n = rounds in which the wire
// differed from that round's returned assignment.  Markers appended only when wrong: " own=BAD" (the
// leader's own assignment decoded by the real code from the SyncGroup response is not its wire
// entry), " sync=BAD" (request's member id is not members[0] or generation is not 7),
// " WIREDUPMEMBER" (a member id twice on the wire).
//
// <canonical> is ERR:<msg> when assignTopicPartitions returned an error and PANIC when it panicked.
//
// The OCaml driver evaluates the extracted Coq model on "<id> <op> <members> <partitions>".
package main

import (
	"bufio"
	"encoding/hex"
	"flag"
	"fmt"
	"math/rand"
	"os"
	"runtime"
	"sort"
	"strconv"
	"strings"
	"sync"
	"sync/atomic"

	kafka "github.com/segmentio/kafka-go"
	"kverif/kvfmt"
)

var out *bufio.Writer
var id int

// A case is printed in generation order; the leader cases (many rounds each, no use of the
// PRNG) are evaluated by a pool of goroutines, batch by batch, before their batch is printed.
type pendingCase struct {
	op, args, res, feats string
	g                    *group // non-nil: res still to be computed by result(op, *g, nil)
}

var pending []pendingCase

const batchSize = 8192

func flushCases() {
	var wg sync.WaitGroup
	next := int64(-1)
	for w := 0; w < runtime.GOMAXPROCS(0); w++ {
		wg.Add(1)
		go func() {
			defer wg.Done()
			for {
				i := int(atomic.AddInt64(&next, 1))
				if i >= len(pending) {
					return
				}
				if c := &pending[i]; c.g != nil {
					c.res = result(c.op, *c.g, nil)
					c.g = nil
				}
			}
		}()
	}
	wg.Wait()
	for _, c := range pending {
		id++
		fmt.Fprintf(out, "%d %s %s | %s | %s\n", id, c.op, c.args, c.res, c.feats)
	}
	pending = pending[:0]
	out.Flush()
}

type group struct {
	ms []kafka.GroupMember
	ps []kafka.Partition
}

// ---------------------------------------------------------------- encoding

func encStr(s string) string { return kvfmt.Bytes([]byte(s)) }

func decStr(s string) (string, error) {
	if s == "." {
		return "", nil
	}
	b, err := hex.DecodeString(s)
	return string(b), err
}

func encGroup(g group) string {
	ms := make([]string, len(g.ms))
	for i, m := range g.ms {
		ts := "-"
		if len(m.Topics) > 0 {
			l := make([]string, len(m.Topics))
			for j, t := range m.Topics {
				l[j] = encStr(t)
			}
			ts = strings.Join(l, ",")
		}
		ms[i] = encStr(m.ID) + ":" + ts + ":" + kvfmt.Bytes(m.UserData)
	}
	ps := make([]string, len(g.ps))
	for i, p := range g.ps {
		ps[i] = encStr(p.Topic) + ":" + kvfmt.I(int64(p.ID)) + ":" + encStr(p.Leader.Rack)
	}
	a, b := "-", "-"
	if len(ms) > 0 {
		a = strings.Join(ms, ";")
	}
	if len(ps) > 0 {
		b = strings.Join(ps, ";")
	}
	return a + " " + b
}

func decGroup(members, parts string) (group, error) {
	var g group
	if members != "-" {
		for _, e := range strings.Split(members, ";") {
			f := strings.Split(e, ":")
			if len(f) != 3 {
				return g, fmt.Errorf("bad member %q", e)
			}
			mid, err := decStr(f[0])
			if err != nil {
				return g, err
			}
			var ts []string
			if f[1] != "-" {
				for _, t := range strings.Split(f[1], ",") {
					s, err := decStr(t)
					if err != nil {
						return g, err
					}
					ts = append(ts, s)
				}
			}
			ud, err := decStr(f[2])
			if err != nil {
				return g, err
			}
			g.ms = append(g.ms, kafka.GroupMember{ID: mid, Topics: ts, UserData: []byte(ud)})
		}
	}
	if parts != "-" {
		for _, e := range strings.Split(parts, ";") {
			f := strings.Split(e, ":")
			if len(f) != 3 {
				return g, fmt.Errorf("bad partition %q", e)
			}
			t, err := decStr(f[0])
			if err != nil {
				return g, err
			}
			neg := strings.HasPrefix(f[1], "-")
			v, err := strconv.ParseInt(strings.TrimPrefix(f[1], "-"), 16, 64)
			if err != nil {
				return g, err
			}
			if neg {
				v = -v
			}
			rk, err := decStr(f[2])
			if err != nil {
				return g, err
			}
			g.ps = append(g.ps, kafka.Partition{Topic: t, ID: int(v), Leader: kafka.Broker{Rack: rk}})
		}
	}
	return g, nil
}

// canon: the canonical form described at the top of the file.
func canon(a kafka.GroupMemberAssignments, keepEmptyMembers bool) string {
	mids := make([]string, 0, len(a))
	for m := range a {
		mids = append(mids, m)
	}
	sort.Strings(mids)
	var es []string
	for _, m := range mids {
		ts := make([]string, 0, len(a[m]))
		for t, l := range a[m] {
			if len(l) > 0 {
				ts = append(ts, t)
			}
		}
		sort.Strings(ts)
		if len(ts) == 0 {
			if keepEmptyMembers {
				es = append(es, encStr(m)+"=-")
			}
			continue
		}
		l := make([]string, len(ts))
		for i, t := range ts {
			l[i] = encStr(t) + ":" + kvfmt.Ints(a[m][t])
		}
		es = append(es, encStr(m)+"="+strings.Join(l, "+"))
	}
	if len(es) == 0 {
		return "-"
	}
	return strings.Join(es, ";")
}

// ---------------------------------------------------------------- running the real code

func cloneMembers(ms []kafka.GroupMember) []kafka.GroupMember {
	c := make([]kafka.GroupMember, len(ms))
	for i, m := range ms {
		c[i] = kafka.GroupMember{ID: m.ID, Topics: append([]string(nil), m.Topics...), UserData: append([]byte(nil), m.UserData...)}
	}
	return c
}

func runOnce(op string, g group) (res string) {
	defer func() {
		if e := recover(); e != nil {
			res = "PANIC"
		}
	}()
	ms := cloneMembers(g.ms)
	ps := append([]kafka.Partition(nil), g.ps...)
	switch op {
	case "range":
		return canon(kafka.RangeGroupBalancer{}.AssignGroups(ms, ps), true)
	case "rr":
		return canon(kafka.RoundRobinGroupBalancer{}.AssignGroups(ms, ps), true)
	case "rack":
		return canon(kafka.RackAffinityGroupBalancer{}.AssignGroups(ms, ps), false)
	}
	return "BADOP"
}

var rackRuns = 8 // -rackruns
const permRuns = 2

func isLeader(op string) bool { return op == "lrange" || op == "lrr" || op == "lrack" }

// baseOp: the balancer a leader op ends up in
func baseOp(op string) string {
	if isLeader(op) {
		return op[1:]
	}
	return op
}

var leaderBalancers = []kafka.GroupBalancer{kafka.RangeGroupBalancer{}, kafka.RoundRobinGroupBalancer{}, kafka.RackAffinityGroupBalancer{}}

// leaderRound is what one round of the leader path showed.
type leaderRound struct {
	ret, req, wire         string // canonical returned assignment, request journal, canonical decoded SyncGroup request
	diff, own, sync, dupID bool   // wire != returned; leader's own assignment != its wire entry; wrong member/generation; duplicate member on the wire
}

// decodeAssignment decodes a client-encoded member assignment by hand (no kafka code):
// int16 version (1); int32 #topics; per topic int16 length + bytes, int32 count, count x int32
// (big endian); int32 userdata length (-1 or 0 = none) + bytes; nothing after that.
func decodeAssignment(b []byte) (map[string][]int, string) {
	pos := 0
	need := func(n int) bool { return n >= 0 && pos+n <= len(b) }
	i16 := func() int { v := int(int16(uint16(b[pos])<<8 | uint16(b[pos+1]))); pos += 2; return v }
	i32 := func() int {
		v := int(int32(uint32(b[pos])<<24 | uint32(b[pos+1])<<16 | uint32(b[pos+2])<<8 | uint32(b[pos+3])))
		pos += 4
		return v
	}
	if !need(2) {
		return nil, "short-version"
	}
	if v := i16(); v != 1 {
		return nil, fmt.Sprintf("version=%d", v)
	}
	if !need(4) {
		return nil, "short-topic-count"
	}
	nt := i32()
	if nt < 0 {
		return nil, "negative-topic-count"
	}
	res := map[string][]int{}
	for k := 0; k < nt; k++ {
		if !need(2) {
			return nil, "short-topic-length"
		}
		tl := i16()
		if !need(tl) {
			return nil, "short-topic"
		}
		t := string(b[pos : pos+tl])
		pos += tl
		if _, dup := res[t]; dup {
			return nil, "duplicate-topic"
		}
		if !need(4) {
			return nil, "short-partition-count"
		}
		np := i32()
		if np < 0 || !need(4*np) {
			return nil, "short-partitions"
		}
		l := make([]int, np)
		for i := range l {
			l[i] = i32()
		}
		res[t] = l
	}
	if !need(4) {
		return nil, "short-userdata-length"
	}
	if ul := i32(); ul > 0 {
		if !need(ul) {
			return nil, "short-userdata"
		}
		pos += ul
	} else if ul < -1 {
		return nil, "bad-userdata-length"
	}
	if pos != len(b) {
		return nil, "trailing-bytes"
	}
	return res, ""
}

// runLeader: one round of the real leader path (joinGroup as leader -> assignTopicPartitions ->
// syncGroup -> makeSyncGroupRequestV0) against the fake broker.  The broker behaves like a real
// one seen through Conn.ReadPartitions: a metadata request that names a topic the cluster has no
// partition of fails as a whole with UnknownTopicOrPartition; otherwise it returns the cluster's
// partitions of exactly the requested topics, in cluster order.  Every request is journalled.
// The SyncGroup request the coordinator received is decoded by hand and canonicalised like an
// assignment.
func runLeader(op string, g group) (out leaderRound) {
	var journal []string
	out.wire = "NOWIRE"
	defer func() {
		if e := recover(); e != nil {
			out.ret = "PANIC"
		}
		out.req = "none"
		if len(journal) > 0 {
			out.req = strings.Join(journal, ";")
		}
	}()
	exists := map[string]bool{}
	for _, p := range g.ps {
		exists[p.Topic] = true
	}
	read := func(topics ...string) ([]kafka.Partition, error) {
		want := map[string]bool{}
		l := make([]string, len(topics))
		for i, t := range topics {
			want[t] = true
			l[i] = encStr(t)
		}
		if len(l) > 0 {
			journal = append(journal, strings.Join(l, ","))
		} else {
			journal = append(journal, "-")
		}
		for _, t := range topics {
			if !exists[t] {
				return nil, kafka.UnknownTopicOrPartition
			}
		}
		var ps []kafka.Partition
		for _, p := range g.ps {
			if want[p.Topic] {
				ps = append(ps, p)
			}
		}
		return ps, nil
	}
	proto := map[string]string{"lrange": "range", "lrr": "roundrobin", "lrack": "rack-affinity"}[op]
	keep := op != "lrack"
	returned, wire, syncMember, syncGen, own, err := kafka.VerifLeaderJoinSync(leaderBalancers, proto, cloneMembers(g.ms), read)
	if err != nil {
		out.ret = "ERR:" + strings.Join(strings.Fields(err.Error()), "_")
		return
	}
	out.ret = canon(returned, keep)
	leaderID := ""
	if len(g.ms) > 0 {
		leaderID = g.ms[0].ID
	}
	out.sync = syncMember != leaderID || syncGen != 7
	w := kafka.GroupMemberAssignments{}
	for _, e := range wire {
		if _, dup := w[e.MemberID]; dup {
			out.dupID = true
		}
		m, why := decodeAssignment(e.MemberAssignments)
		if why != "" {
			out.wire = "WIREERR:" + why
			out.diff = true
			return
		}
		w[e.MemberID] = m
	}
	out.wire = canon(w, keep)
	out.diff = canon(w, false) != canon(returned, false) || (keep && out.wire != out.ret)
	// the leader's own assignment, as the real code decoded it from the SyncGroup response
	ownInt := map[string][]int{}
	for t, l := range own {
		for _, v := range l {
			ownInt[t] = append(ownInt[t], int(v))
		}
	}
	mine := kafka.GroupMemberAssignments{leaderID: w[leaderID]}
	out.own = canon(kafka.GroupMemberAssignments{leaderID: ownInt}, false) != canon(mine, false)
	return
}

var wireRounds = 0 // -wirerounds; 0 = 10 for >= 2 members with different subscriptions, else 3

func leaderRounds(op string, g group) int {
	n := wireRounds
	if n <= 0 {
		n = 3
		if len(g.ms) >= 2 {
			set := func(m kafka.GroupMember) string {
				l := append([]string(nil), m.Topics...)
				sort.Strings(l)
				return strings.Join(l, "\x00|")
			}
			for _, m := range g.ms {
				if set(m) != set(g.ms[0]) {
					n = 10
					break
				}
			}
		}
	}
	if op == "lrack" && n < rackRuns {
		n = rackRuns
	}
	return n
}

func sortedKeys(m map[string]bool) []string {
	l := make([]string, 0, len(m))
	for s := range m {
		l = append(l, s)
	}
	sort.Strings(l)
	return l
}

func result(op string, g group, r *rand.Rand) string {
	if isLeader(op) {
		rets, reqs, wires := map[string]bool{}, map[string]bool{}, map[string]bool{}
		ndiff := 0
		own, syn, dup := false, false, false
		for i, n := 0, leaderRounds(op, g); i < n; i++ {
			o := runLeader(op, g)
			rets[o.ret], reqs[o.req], wires[o.wire] = true, true, true
			if o.diff {
				ndiff++
			}
			own, syn, dup = own || o.own, syn || o.sync, dup || o.dupID
		}
		res := strings.Join(sortedKeys(rets), "/") + " req=" + strings.Join(sortedKeys(reqs), "/") +
			" wire=" + strings.Join(sortedKeys(wires), "/") + fmt.Sprintf(" wirediff=%d", ndiff)
		if own {
			res += " own=BAD"
		}
		if syn {
			res += " sync=BAD"
		}
		if dup {
			res += " WIREDUPMEMBER"
		}
		return res
	}
	if op == "rack" {
		seen := map[string]bool{}
		for i := 0; i < rackRuns; i++ {
			seen[runOnce(op, g)] = true
		}
		l := make([]string, 0, len(seen))
		for s := range seen {
			l = append(l, s)
		}
		sort.Strings(l)
		return strings.Join(l, "/")
	}
	c0 := runOnce(op, g)
	same := true
	for k := 0; k < permRuns; k++ {
		ms := cloneMembers(g.ms)
		r.Shuffle(len(ms), func(i, j int) { ms[i], ms[j] = ms[j], ms[i] })
		for i := range ms {
			t := ms[i].Topics
			r.Shuffle(len(t), func(a, b int) { t[a], t[b] = t[b], t[a] })
		}
		if runOnce(op, group{ms, g.ps}) != c0 {
			same = false
		}
	}
	if same {
		return c0 + " perm=same"
	}
	return c0 + " perm=DIFF"
}

// ---------------------------------------------------------------- features

func features(fullOp string, g group) string {
	op := baseOp(fullOp)
	f := map[string]bool{}
	nontrivial := false
	tag := func(s string) { f[s] = true; nontrivial = true }
	if isLeader(fullOp) {
		f["leader"] = true
		seenT := map[string]bool{}
		for _, m := range g.ms {
			sawSeen := false
			for _, t := range m.Topics {
				if seenT[t] {
					sawSeen = true
				} else {
					if sawSeen {
						tag("new-after-seen")
					}
					seenT[t] = true
				}
			}
		}
		set := func(m kafka.GroupMember) string {
			l := append([]string(nil), m.Topics...)
			sort.Strings(l)
			return strings.Join(l, "\x00|")
		}
		for _, m := range g.ms {
			if set(m) != set(g.ms[0]) {
				tag("hetero")
				break
			}
		}
		inCluster := map[string]bool{}
		for _, p := range g.ps {
			inCluster[p.Topic] = true
			if !seenT[p.Topic] {
				tag("cluster-extra-topic")
			}
		}
		sortedT := make([]string, 0, len(seenT))
		for t := range seenT {
			sortedT = append(sortedT, t)
		}
		sort.Strings(sortedT)
		nmiss := 0
		for i, t := range sortedT {
			if inCluster[t] {
				continue
			}
			nmiss++
			tag("topic-missing-in-cluster")
			switch {
			case len(sortedT) == 1:
				tag("single-missing")
			case i == 0:
				tag("missing-first")
			case i == len(sortedT)-1:
				tag("missing-last")
			default:
				tag("missing-mid")
			}
		}
		if nmiss > 0 && len(sortedT) > 1 {
			tag("fallback") // the bulk read fails and the leader asks topic by topic
			if nmiss == len(sortedT) {
				tag("all-missing")
			}
			if !f["hetero"] {
				tag("fallback-identical-subs")
			}
		}
		if len(g.ms) > 0 {
			first := map[string]bool{}
			for _, t := range g.ms[0].Topics {
				first[t] = true
			}
			for _, t := range sortedT {
				if inCluster[t] && !first[t] {
					tag("leader-lacks-existing-topic")
					if nmiss > 0 {
						tag("fallback-beyond-leader") // fallback must fetch a topic the first member does not name
					}
					break
				}
			}
		}
	}
	nm := len(g.ms)
	switch {
	case nm == 0:
		tag("m=0")
	case nm == 1:
		f["m=1"] = true
	case nm <= 3:
		f["m<=3"] = true
	default:
		f["m>3"] = true
	}
	subs := map[string][]kafka.GroupMember{}
	ids := make([]string, nm)
	for i, m := range g.ms {
		ids[i] = m.ID
		if len(m.Topics) == 0 {
			tag("empty-topics")
		}
		for _, t := range m.Topics {
			subs[t] = append(subs[t], m)
		}
		if m.ID == "" {
			tag("emptyid")
		}
		for j := 0; j < len(m.ID); j++ {
			if m.ID[j] >= 0x80 {
				tag("hibyte-id")
				break
			}
		}
	}
	if !sort.StringsAreSorted(ids) {
		tag("unsorted-ids")
	}
	sorted := append([]string(nil), ids...)
	sort.Strings(sorted)
	for i := 1; i < len(sorted); i++ {
		if strings.HasPrefix(sorted[i], sorted[i-1]) && sorted[i-1] != "" {
			tag("prefix-ids")
			break
		}
	}
	listed := map[string][]kafka.Partition{}
	topics := map[string]bool{}
	last := map[string]int{}
	for i, p := range g.ps {
		if j, ok := last[p.Topic]; ok && j != i-1 {
			tag("interleaved")
		}
		last[p.Topic] = i
		listed[p.Topic] = append(listed[p.Topic], p)
		topics[p.Topic] = true
	}
	for t := range subs {
		topics[t] = true
		if t == "" {
			tag("empty-topic-name")
		}
	}
	if len(topics) > 1 {
		tag("multi-topic")
	}
	for t := range listed {
		if len(subs[t]) == 0 {
			tag("unsub-topic")
		}
	}
	for _, ms := range subs {
		if len(ms) != nm {
			tag("partial-overlap")
			break
		}
	}
	total := 0
	zmax := 0
	for t, ms := range subs {
		ps := listed[t]
		P, M := len(ps), len(ms)
		total += P
		switch {
		case P == 0:
			tag("P=0")
		case P < M:
			tag("P<M")
		}
		if P%M != 0 {
			tag("uneven")
		}
		for i, p := range ps {
			if p.ID != i {
				tag("noncontig-parts")
				break
			}
		}
		if op != "rack" {
			continue
		}
		zp := map[string]int{}
		for _, p := range ps {
			zp[p.Leader.Rack]++
			if p.Leader.Rack == "" {
				tag("emptyrack")
			}
		}
		zc := map[string]int{}
		for _, m := range ms {
			zc[string(m.UserData)]++
			if len(m.UserData) == 0 {
				tag("emptyrack")
			}
		}
		if len(zp) > zmax {
			zmax = len(zp)
		}
		for z := range zp {
			if zc[z] == 0 {
				tag("rack-nomembers")
			}
		}
		for z := range zc {
			if zp[z] == 0 && P > 0 {
				tag("members-norack-parts")
			}
		}
		for z, n := range zp {
			if zc[z] > 0 && n > zc[z]*(P/M) {
				tag("zone-overfull") // more partitions led in z than its members may take at the floor
			}
			if zc[z] > 0 && n < zc[z]*(P/M) {
				tag("zone-underfull")
			}
		}
	}
	if op == "rack" {
		f["zones="+strconv.Itoa(zmax)] = true
		if zmax > 1 {
			nontrivial = true
		}
	}
	if nm > 8 || total > 40 {
		tag("large")
	}
	if len(subs) == 0 {
		tag("no-subscription")
	}
	if !nontrivial {
		f["trivial"] = true
	}
	return kvfmt.Set(f)
}

func emitCase(op string, g group, r *rand.Rand, extra string) {
	ft := features(op, g)
	if extra != "" {
		ft += "," + extra
	}
	if isLeader(op) {
		ft += fmt.Sprintf(",rounds=%d", leaderRounds(op, g))
	}
	if isLeader(op) {
		gc := g
		pending = append(pending, pendingCase{op: op, args: encGroup(g), feats: ft, g: &gc})
	} else {
		pending = append(pending, pendingCase{op: op, args: encGroup(g), res: result(op, g, r), feats: ft})
	}
	if len(pending) >= batchSize {
		flushCases()
	}
}

// ---------------------------------------------------------------- random groups

func genIDs(r *rand.Rand, n int) []string {
	seen := map[string]bool{}
	ids := []string{}
	add := func(s string) {
		if !seen[s] {
			seen[s] = true
			ids = append(ids, s)
		}
	}
	style := r.Intn(4)
	alphabet := []byte{0x00, 0x7f, 0x80, 0xff, 'a', 'm', '1', 0xc3}
	for len(ids) < n {
		st := style
		if st == 3 {
			st = r.Intn(3)
		}
		switch st {
		case 0: // shared prefixes m, m0, m1, m10, m2 ...
			k := r.Intn(2*n + 12)
			if k == 0 {
				add("m")
			} else {
				add("m" + strconv.Itoa(k-1))
			}
		case 1: // what a broker hands out: client id + suffix
			add(fmt.Sprintf("consumer-%04x", r.Intn(1<<16)))
		default: // short strings over a nasty alphabet
			b := make([]byte, 1+r.Intn(3))
			for i := range b {
				b[i] = alphabet[r.Intn(len(alphabet))]
			}
			add(string(b))
		}
	}
	if r.Intn(7) == 0 && !seen[""] {
		ids[r.Intn(n)] = ""
	}
	if r.Intn(10) < 3 {
		sort.Strings(ids)
	} else {
		r.Shuffle(len(ids), func(i, j int) { ids[i], ids[j] = ids[j], ids[i] })
	}
	return ids
}

func genPartIDs(r *rand.Rand, P int) []int {
	ids := make([]int, P)
	switch r.Intn(5) {
	case 0, 1:
		for i := range ids {
			ids[i] = i
		}
	case 2:
		copy(ids, r.Perm(P))
	default:
		seen := map[int]bool{}
		for i := range ids {
			for {
				v := r.Intn(4*P + 10)
				if !seen[v] {
					seen[v] = true
					ids[i] = v
					break
				}
			}
		}
		if r.Intn(2) == 0 {
			sort.Ints(ids)
		}
	}
	return ids
}

func genGroup(r *rand.Rand, op string) group {
	large := r.Intn(100) < 10
	nm := 1 + r.Intn(8)
	if large {
		nm = 9 + r.Intn(52)
	}
	if r.Intn(4) == 0 && !large {
		nm = 1 + r.Intn(3)
	}
	ids := genIDs(r, nm)

	pool := []string{"t", "t1", "topic-b", "\xc3\xa9v\xff", "events.v2"}
	r.Shuffle(len(pool), func(i, j int) { pool[i], pool[j] = pool[j], pool[i] })
	nt := 1
	switch x := r.Intn(10); {
	case x >= 8:
		nt = 3
	case x >= 5:
		nt = 2
	}
	leader := isLeader(op)
	if leader && r.Intn(2) == 0 && nt < 4 { // the leader path is about the union of subscriptions: more topics
		nt++
	}
	topics := append([]string(nil), pool[:nt]...)
	if r.Intn(30) == 0 {
		topics[r.Intn(nt)] = ""
	}

	// racks
	z := 1
	switch x := r.Intn(100); {
	case x < 20:
		z = 1
	case x < 50:
		z = 2
	case x < 80:
		z = 3
	case x < 92:
		z = 4
	default:
		z = 5
	}
	rpool := []string{"a", "b", "c", "us-east-1a", "\xe2\x82\xac"}
	r.Shuffle(len(rpool), func(i, j int) { rpool[i], rpool[j] = rpool[j], rpool[i] })
	racks := append([]string(nil), rpool[:z]...)
	if r.Intn(10) < 3 {
		racks[r.Intn(z)] = ""
	}
	leaderRacks, memberRacks := racks, racks
	switch x := r.Intn(10); {
	case x < 2: // members only in some of the racks, maybe one rack of their own
		memberRacks = append([]string(nil), racks[:1+r.Intn(z)]...)
		if r.Intn(2) == 0 {
			memberRacks = append(memberRacks, "z-nobroker")
		}
	case x < 4: // leaders only in some of the racks
		leaderRacks = racks[r.Intn(z):]
	}
	skew := r.Intn(4) == 0

	// subscriptions
	ms := make([]kafka.GroupMember, nm)
	mode := r.Intn(10)
	if leader && mode < 4 && r.Intn(3) > 0 { // mostly heterogeneous, overlapping subscriptions
		mode = 4 + r.Intn(6)
	}
	for i := range ms {
		var ts []string
		if mode < 4 {
			ts = append(ts, topics...)
		} else {
			for _, t := range topics {
				if r.Intn(10) < 6 {
					ts = append(ts, t)
				}
			}
		}
		if mode == 9 && r.Intn(2) == 0 {
			ts = append(ts, "ghost")
		}
		if r.Intn(3) == 0 || (leader && r.Intn(2) == 0) {
			r.Shuffle(len(ts), func(a, b int) { ts[a], ts[b] = ts[b], ts[a] })
		}
		ud := []byte(memberRacks[r.Intn(len(memberRacks))])
		if baseOp(op) != "rack" && r.Intn(3) == 0 {
			ud = make([]byte, r.Intn(6))
			r.Read(ud)
		}
		ms[i] = kafka.GroupMember{ID: ids[i], Topics: ts, UserData: ud}
	}

	// partitions
	ptopics := append([]string(nil), topics...)
	if r.Intn(10) == 0 || (leader && r.Intn(4) == 0) {
		ptopics = append(ptopics, "orphan")
	}
	if leader && r.Intn(100) < 15 { // subscribed topics the cluster does not have: any position, sometimes all
		switch x := r.Intn(10); {
		case x == 0:
			ptopics = ptopics[len(topics):] // every subscribed topic is missing (an orphan may remain)
		default:
			k := r.Intn(len(topics))
			ptopics = append(ptopics[:k:k], ptopics[k+1:]...)
			if x == 1 && len(ptopics) > 1 {
				ptopics = ptopics[1:]
			}
		}
	}
	var per [][]kafka.Partition
	for _, t := range ptopics {
		nsub := 0
		for _, m := range ms {
			for _, mt := range m.Topics {
				if mt == t {
					nsub++
				}
			}
		}
		if nsub == 0 {
			nsub = nm
		}
		var P int
		switch x := r.Intn(10); {
		case x == 0:
			P = 0
		case x <= 2:
			k := 1 + r.Intn(3)
			if large {
				k = 1 + r.Intn(5)
			}
			P = k * nsub
			if P > 300 {
				P = nsub
			}
		case x == 3:
			P = r.Intn(nsub + 1)
		default:
			if large {
				P = r.Intn(301)
			} else {
				P = r.Intn(21)
			}
		}
		pids := genPartIDs(r, P)
		l := make([]kafka.Partition, P)
		for i, pid := range pids {
			rk := leaderRacks[r.Intn(len(leaderRacks))]
			if skew && r.Intn(10) < 8 {
				rk = leaderRacks[0]
			}
			l[i] = kafka.Partition{Topic: t, ID: pid, Leader: kafka.Broker{Rack: rk, ID: i}}
		}
		per = append(per, l)
	}
	var ps []kafka.Partition
	if r.Intn(2) == 0 { // random merge keeping each topic's order
		for {
			live := []int{}
			for i, l := range per {
				if len(l) > 0 {
					live = append(live, i)
				}
			}
			if len(live) == 0 {
				break
			}
			i := live[r.Intn(len(live))]
			ps = append(ps, per[i][0])
			per[i] = per[i][1:]
		}
	} else {
		r.Shuffle(len(per), func(i, j int) { per[i], per[j] = per[j], per[i] })
		for _, l := range per {
			ps = append(ps, l...)
		}
	}
	return group{ms, ps}
}

// ---------------------------------------------------------------- small-scope enumeration

func perms(n int) [][]int {
	if n == 0 {
		return [][]int{{}}
	}
	var res [][]int
	for _, p := range perms(n - 1) {
		for i := 0; i <= len(p); i++ {
			q := append(append(append([]int(nil), p[:i]...), n-1), p[i:]...)
			res = append(res, q)
		}
	}
	return res
}

var exIDs = []string{"", "m", "m1", "m10"}     // sorted bytewise; shared prefixes and the empty id
var exRackIDs = []string{"m1", "", "m10", "m"} // a fixed unsorted listing for the rack balancer
var exTopics = []string{"t", "u"}
var exPart = [][]int{{5, 0, 9, 2, 7, 4}, {1, 3, 0, 8, 6, 2}} // listed order of partition ids per topic
var exRacks = []string{"", "a", "b"}

// partitions of the two topics, alternating t,u,t,u,... ; racks[k][i] = rack index of the i-th partition of topic k
func exPartitions(P [2]int, racks [2][]int) []kafka.Partition {
	var ps []kafka.Partition
	for i := 0; i < 6; i++ {
		for k := 0; k < 2; k++ {
			if i < P[k] {
				rk := ""
				if racks[k] != nil {
					rk = exRacks[racks[k][i]]
				}
				ps = append(ps, kafka.Partition{Topic: exTopics[k], ID: exPart[k][i], Leader: kafka.Broker{Rack: rk}})
			}
		}
	}
	return ps
}

func subTopics(mask int) []string {
	var ts []string
	for k := 0; k < 2; k++ {
		if mask&(1<<uint(k)) != 0 {
			ts = append(ts, exTopics[k])
		}
	}
	return ts
}

// digits of x in base b, n of them
func digits(x, b, n int) []int {
	d := make([]int, n)
	for i := 0; i < n; i++ {
		d[i] = x % b
		x /= b
	}
	return d
}

func pow(b, n int) int {
	p := 1
	for i := 0; i < n; i++ {
		p *= b
	}
	return p
}

func exhaustive(scope int, r *rand.Rand) {
	maxM, maxP1, maxP2 := 3, 4, 2
	if scope >= 2 {
		maxM, maxP1, maxP2 = 4, 6, 3
	}
	// Range / RoundRobin: every listing order of M ids, every subscription pattern over
	// two topics (including members without topics), every pair of partition counts.
	for M := 1; M <= maxM; M++ {
		for _, pm := range perms(M) {
			for sub := 0; sub < pow(4, M); sub++ {
				sd := digits(sub, 4, M)
				for P1 := 0; P1 <= maxP1; P1++ {
					for P2 := 0; P2 <= maxP2; P2++ {
						ms := make([]kafka.GroupMember, M)
						for i := range ms {
							ms[i] = kafka.GroupMember{ID: exIDs[pm[i]], Topics: subTopics(sd[i])}
						}
						g := group{ms, exPartitions([2]int{P1, P2}, [2][]int{nil, nil})}
						emitCase("range", g, r, "exh")
						emitCase("rr", g, r, "exh")
					}
				}
			}
		}
	}
	// RackAffinity, one topic: all subscribe; racks of members and leaders in all ways.
	rack1 := func(maxM, maxP, Z int) {
		for M := 1; M <= maxM; M++ {
			for P := 0; P <= maxP; P++ {
				for mr := 0; mr < pow(Z, M); mr++ {
					md := digits(mr, Z, M)
					for lr := 0; lr < pow(Z, P); lr++ {
						ms := make([]kafka.GroupMember, M)
						for i := range ms {
							ms[i] = kafka.GroupMember{ID: exRackIDs[i], Topics: []string{"t"}, UserData: []byte(exRacks[md[i]])}
						}
						g := group{ms, exPartitions([2]int{P, 0}, [2][]int{digits(lr, Z, P), nil})}
						emitCase("rack", g, r, "exh")
					}
				}
			}
		}
	}
	// RackAffinity, two topics: every member subscribes to a non-empty subset.
	rack2 := func(maxM, maxP, Z int) {
		for M := 1; M <= maxM; M++ {
			for sub := 0; sub < pow(3, M); sub++ {
				sd := digits(sub, 3, M)
				for mr := 0; mr < pow(Z, M); mr++ {
					md := digits(mr, Z, M)
					for P1 := 0; P1 <= maxP; P1++ {
						for P2 := 0; P2 <= maxP; P2++ {
							for lr := 0; lr < pow(Z, P1+P2); lr++ {
								ld := digits(lr, Z, P1+P2)
								ms := make([]kafka.GroupMember, M)
								for i := range ms {
									ms[i] = kafka.GroupMember{ID: exRackIDs[i], Topics: subTopics(sd[i] + 1), UserData: []byte(exRacks[md[i]])}
								}
								g := group{ms, exPartitions([2]int{P1, P2}, [2][]int{ld[:P1], ld[P1:]})}
								emitCase("rack", g, r, "exh")
							}
						}
					}
				}
			}
		}
	}
	if scope >= 2 {
		rack1(4, 6, 3)
		rack2(3, 3, 2)
	} else {
		rack1(3, 4, 3)
		rack2(2, 2, 2)
	}
	// Leader path: <=3 members (a fixed unsorted listing of ids; extractTopics does not look at
	// ids and the balancers' dependence on id order is enumerated above), every member's topic
	// list any duplicate-free ORDERED list over three topics (16 lists, the empty one included),
	// so every order of first mention of the topics occurs; a few small clusters.
	lists := orderedLists(exLeaderTopics)
	// a topic with 0 partitions does not exist for the broker: the clusters have t, u, v each missing
	// on its own, two missing, (thorough) all missing.  In the quick scope the last three clusters
	// get one balancer each (extractTopics and the fallback do not depend on the balancer).
	clusters := []leaderClusterSpec{{[3]int{2, 2, 2}, true}, {[3]int{1, 0, 2}, false},
		{[3]int{0, 2, 1}, true}, {[3]int{2, 1, 0}, false}, {[3]int{0, 1, 0}, false}}
	allOps := []string{"lrange", "lrr", "lrack"}
	if scope >= 2 {
		clusters = append(clusters, leaderClusterSpec{[3]int{0, 0, 0}, true}, leaderClusterSpec{[3]int{1, 1, 1}, false},
			leaderClusterSpec{[3]int{2, 0, 0}, false}, leaderClusterSpec{[3]int{0, 1, 2}, true}, leaderClusterSpec{[3]int{1, 2, 1}, false})
	}
	for M := 1; M <= 3; M++ {
		for sub := 0; sub < pow(len(lists), M); sub++ {
			sd := digits(sub, len(lists), M)
			for ci, cl := range clusters {
				ms := make([]kafka.GroupMember, M)
				for i := range ms {
					ms[i] = kafka.GroupMember{ID: exRackIDs[i], Topics: lists[sd[i]], UserData: []byte(exRacks[(i+1)%2])}
				}
				g := group{ms, leaderCluster(cl)}
				for oi, op := range allOps {
					if scope >= 2 || ci < 2 || oi == ci%3 {
						emitCase(op, g, r, "exh")
					}
				}
			}
		}
	}
}

var exLeaderTopics = []string{"t", "u", "v"}
var exLeaderPart = [][]int{{5, 0}, {1, 3}, {2, 7}}

type leaderClusterSpec struct {
	P     [3]int // partitions of t, u, v
	extra bool   // plus a topic nobody subscribes to
}

// the cluster's partition list: topics interleaved, racks alternating between "a" and ""
func leaderCluster(c leaderClusterSpec) []kafka.Partition {
	var ps []kafka.Partition
	for i := 0; i < 2; i++ {
		for k := 0; k < 3; k++ {
			if i < c.P[k] {
				ps = append(ps, kafka.Partition{Topic: exLeaderTopics[k], ID: exLeaderPart[k][i], Leader: kafka.Broker{Rack: exRacks[(i+k+1)%2]}})
			}
		}
		if i == 0 && c.extra {
			ps = append(ps, kafka.Partition{Topic: "x", ID: 0, Leader: kafka.Broker{Rack: "a"}})
		}
	}
	return ps
}

// every duplicate-free ordered list over the given topics (permutations of subsets)
func orderedLists(topics []string) [][]string {
	res := [][]string{nil}
	var rec func(cur []string, used int)
	rec = func(cur []string, used int) {
		for k, t := range topics {
			if used&(1<<uint(k)) == 0 {
				next := append(append([]string(nil), cur...), t)
				res = append(res, next)
				rec(next, used|1<<uint(k))
			}
		}
	}
	rec(nil, 0)
	return res
}

// ---------------------------------------------------------------- main

func main() {
	seed := flag.Int64("seed", 1, "PRNG seed")
	count := flag.Int("n", 500, "number of random groups per balancer")
	exh := flag.Int("exhaustive", 0, "small-scope enumeration: 0 none, 1 quick scope, 2 thorough scope")
	flag.IntVar(&rackRuns, "rackruns", 8, "how often the rack balancer is run on each case (its result depends on map iteration order)")
	flag.Bool("unknown", true, "no-op, kept for old command lines: the fake broker always answers UnknownTopicOrPartition for a request naming a topic the cluster lacks")
	flag.IntVar(&wireRounds, "wirerounds", 0, "leader ops: rounds per case (a fresh join+sync each, so that map iteration orders vary); 0 = 10 for >= 2 members with different subscriptions, else 3; lrack at least -rackruns")
	one := flag.String("case", "", "run the single case '<op> <members> <partitions>' and print its line")
	flag.Parse()
	r := rand.New(rand.NewSource(*seed))
	out = bufio.NewWriterSize(os.Stdout, 1<<20)
	defer flushCases()

	if *one != "" {
		f := strings.Fields(*one)
		if len(f) == 4 { // a leading case id is tolerated
			f = f[1:]
		}
		if len(f) != 3 {
			fmt.Fprintln(os.Stderr, "c14: -case wants '<op> <members> <partitions>'")
			out.Flush()
			os.Exit(2)
		}
		g, err := decGroup(f[1], f[2])
		if err != nil || (baseOp(f[0]) != "range" && baseOp(f[0]) != "rr" && baseOp(f[0]) != "rack") {
			fmt.Fprintln(os.Stderr, "c14: bad case:", err)
			out.Flush()
			os.Exit(2)
		}
		emitCase(f[0], g, r, "")
		return
	}

	ops := []string{"range", "rr", "rack", "lrange", "lrr", "lrack"}
	for i := 0; i < *count; i++ {
		for _, op := range ops {
			emitCase(op, genGroup(r, op), r, "")
		}
	}
	if *exh > 0 {
		exhaustive(*exh, r)
	}
}
