// c16: correspondence driver for the compression codecs (property C16).
//
// Three families of cases, all generated from one PRNG:
//
//  1. xw / xr — the xerial layer of compress/snappy.  The real xerialWriter /
//     xerialReader objects (constructed with a chosen residual state through
//     compress/snappy/verif_export.go, pooled, and obtained back through the real
//     Codec.NewWriter / NewReader) are run on generated streams; the extracted Coq
//     model is run on the same case by the OCaml driver.  The (block, snappy encoding)
//     pairs the Go side observed travel with the case and answer the model's
//     enc/dec oracle calls.
//  2. rt / hist / conc — every codec through the public compress API against the
//     underlying format libraries used directly; evaluated here, result "ok" or
//     "FAIL:<why>", which the model driver echoes as "ok".
//  3. pool — NewReader/NewWriter/Use/Close sequences on every codec with the identity
//     of the pooled object observed; the model replays the sequence and monitors the
//     Reset-before-use / release-at-most-once discipline.
//
// Line format:   <id> <op> <args...> | <go result> | <features>
package main

import (
	"bufio"
	"bytes"
	stdgzip "compress/gzip"
	"encoding/binary"
	"errors"
	"flag"
	"fmt"
	"io"
	"math/rand"
	"os"
	"runtime"
	"runtime/debug"
	"sort"
	"strings"
	"sync"
	"time"

	"github.com/klauspost/compress/s2"
	ksnappy "github.com/klauspost/compress/snappy"
	kzstd "github.com/klauspost/compress/zstd"
	plz4 "github.com/pierrec/lz4/v4"

	"github.com/segmentio/kafka-go/compress"
	cgzip "github.com/segmentio/kafka-go/compress/gzip"
	clz4 "github.com/segmentio/kafka-go/compress/lz4"
	csnappy "github.com/segmentio/kafka-go/compress/snappy"
	vxerial "github.com/segmentio/kafka-go/compress/snappy/go-xerial-snappy"
	czstd "github.com/segmentio/kafka-go/compress/zstd"
	dgzip "github.com/segmentio/kafka-go/gzip"
	dlz4 "github.com/segmentio/kafka-go/lz4"
	"github.com/segmentio/kafka-go/protocol"
	dsnappy "github.com/segmentio/kafka-go/snappy"
	dzstd "github.com/segmentio/kafka-go/zstd"
	"kverif/kvfmt"
)

var out *bufio.Writer
var id int

func emit(op string, args string, res string, feats []string) {
	id++
	sort.Strings(feats)
	fmt.Fprintf(out, "%d %s %s | %s | %s\n", id, op, args, res, strings.Join(feats, ","))
}

func hx(b []byte) string { return kvfmt.Bytes(b) }

// ----------------------------------------------------------------------------- payloads

var boundarySizes = []int{130, 1023, 1024, 1025, 10626, 31743, 31744, 31745, 32767, 32768, 32769,
	33791, 33792, 64512, 65535, 65536, 65537, 66000}

func fill(r *rand.Rand, n int, class string) []byte {
	b := make([]byte, n)
	switch class {
	case "rand":
		r.Read(b)
	case "zeros":
	case "rep":
		p := make([]byte, 1+r.Intn(40))
		r.Read(p)
		for i := range b {
			b[i] = p[i%len(p)]
		}
	case "json":
		var sb bytes.Buffer
		for i := 0; sb.Len() < n; i++ {
			fmt.Fprintf(&sb, `{"id":%d,"topic":"orders","partition":%d,"key":"user-%04d","value":{"amount":%d.%02d,"currency":"EUR","tags":["a","b","c"]}},`,
				i, r.Intn(12), r.Intn(50), r.Intn(1000), r.Intn(100))
			sb.WriteByte('\n')
		}
		copy(b, sb.Bytes())
	default: // text
		words := []string{"kafka", "offset", "partition", "the", "snappy", "xerial", " ", "\n", "0123456789"}
		var sb bytes.Buffer
		for sb.Len() < n {
			sb.WriteString(words[r.Intn(len(words))])
		}
		copy(b, sb.Bytes())
	}
	return b
}

// forcedLen > 0: the next payload has exactly this length
var forcedLen int

func genPayload(r *rand.Rand, maxLen int) ([]byte, []string) {
	classes := []string{"rand", "zeros", "rep", "text", "json", "json"}
	class := classes[r.Intn(len(classes))]
	var n int
	var szf string
	switch k := r.Intn(10); {
	case forcedLen > 0:
		n, maxLen = forcedLen, forcedLen
		forcedLen = 0
		szf = "size=boundary"
	case k < 3:
		n = 1 + r.Intn(64)
		szf = "size=tiny"
	case k < 5:
		n = 1 + r.Intn(2000)
		szf = "size=small"
	case k < 8:
		n = boundarySizes[r.Intn(len(boundarySizes))]
		szf = "size=boundary"
	default:
		n = 1 + r.Intn(maxLen)
		szf = "size=any"
	}
	if n > maxLen {
		n = 1 + r.Intn(maxLen)
		szf = "size=capped"
	}
	f := []string{"payload=" + class, szf}
	if n > 32768 {
		f = append(f, ">32K")
	}
	if n > 65536 {
		f = append(f, ">64K")
	}
	if n == 10626 {
		f = append(f, "len=10626(varint 82 53)")
	}
	return fill(r, n, class), f
}

// split n bytes into write sizes
func genSplit(r *rand.Rand, n int, maxPieces int) ([]int, string) {
	if n == 0 {
		return nil, "split=none"
	}
	switch r.Intn(6) {
	case 0:
		return []int{n}, "split=one"
	case 1, 2:
		sizes := []int{1, 7, 100, 1000, 1023, 1024, 4096, 31744, 32768, 65536}
		s := sizes[r.Intn(len(sizes))]
		for (n+s-1)/s > maxPieces {
			s *= 2
		}
		var l []int
		for rem := n; rem > 0; rem -= s {
			if rem < s {
				l = append(l, rem)
				break
			}
			l = append(l, s)
		}
		return l, "split=equal"
	default:
		k := 1 + r.Intn(maxPieces)
		if k > n {
			k = n
		}
		cuts := map[int]bool{}
		for len(cuts) < k-1 {
			cuts[1+r.Intn(n-1)] = true
		}
		var cs []int
		for c := range cuts {
			cs = append(cs, c)
		}
		sort.Ints(cs)
		var l []int
		prev := 0
		for _, c := range cs {
			l = append(l, c-prev)
			prev = c
		}
		l = append(l, n-prev)
		// sometimes an empty write in the middle
		if r.Intn(5) == 0 {
			i := r.Intn(len(l) + 1)
			l = append(l[:i], append([]int{0}, l[i:]...)...)
		}
		return l, "split=random"
	}
}

// ----------------------------------------------------------------------------- errors

var errShort = errors.New("sink full")

// a panic inside the codec, caught by the harness: always a violation
var errPanic = errors.New("panic in the codec")

func safeRead(rd io.Reader, b []byte) (n int, err error) {
	defer func() {
		if p := recover(); p != nil {
			n, err = 0, fmt.Errorf("%w: %v", errPanic, p)
		}
	}()
	return rd.Read(b)
}

func safeCopy(dst io.Writer, rd io.Reader, viaCopy bool) (err error) {
	defer func() {
		if p := recover(); p != nil {
			err = fmt.Errorf("%w: %v", errPanic, p)
		}
	}()
	if viaCopy {
		_, err = io.Copy(dst, rd)
	} else {
		_, err = rd.(io.WriterTo).WriteTo(dst)
	}
	return err
}

func errClass(err error) string {
	switch {
	case err == nil:
		return "-"
	case errors.Is(err, io.EOF):
		return "EOF"
	case errors.Is(err, io.ErrUnexpectedEOF):
		return "UEOF"
	case errors.Is(err, errPanic):
		return "PANIC"
	case errors.Is(err, errShort):
		return "SHORT"
	case errors.Is(err, errIO):
		return "IO"
	case errors.Is(err, ksnappy.ErrCorrupt), errors.Is(err, ksnappy.ErrTooLarge), errors.Is(err, ksnappy.ErrUnsupported),
		errors.Is(err, s2.ErrCorrupt), errors.Is(err, s2.ErrTooLarge), errors.Is(err, s2.ErrUnsupported):
		return "CORRUPT"
	}
	return "OTHER:" + strings.ReplaceAll(err.Error(), " ", "_")
}

// limitWriter accepts room bytes, then writes short with an error.
type limitWriter struct {
	buf  bytes.Buffer
	room int // <0: unlimited
}

func (l *limitWriter) Write(b []byte) (int, error) {
	if l.room < 0 || len(b) <= l.room {
		if l.room >= 0 {
			l.room -= len(b)
		}
		return l.buf.Write(b)
	}
	n := l.room
	l.buf.Write(b[:n])
	l.room = 0
	return n, errShort
}

// chopReader delivers data in pieces of at most the given sizes (cyclically), then io.EOF.
type chopReader struct {
	data  []byte
	sizes []int
	i     int
}

func (c *chopReader) Read(b []byte) (int, error) {
	if len(c.data) == 0 {
		return 0, io.EOF
	}
	n := len(b)
	if len(c.sizes) > 0 {
		if s := c.sizes[c.i%len(c.sizes)]; s < n {
			n = s
		}
		c.i++
	}
	if n > len(c.data) {
		n = len(c.data)
	}
	copy(b, c.data[:n])
	c.data = c.data[n:]
	return n, nil
}

// scriptReader is the io.Reader handed to ReadFrom / io.Copy: the i-th Read returns at most
// steps[i] bytes (0: a (0, nil) Read; no limit once the list is exhausted); with eofWithData
// the Read that hands over the last byte also returns the final error, as
// iotest.DataErrReader does; the final error is io.EOF unless fails.
type scriptReader struct {
	data        []byte
	steps       []int
	eofWithData bool
	fails       bool
}

var errIO = errors.New("source failed")

func (c *scriptReader) final() error {
	if c.fails {
		return errIO
	}
	return io.EOF
}

func (c *scriptReader) Read(b []byte) (int, error) {
	if len(c.data) == 0 {
		return 0, c.final()
	}
	n := len(b)
	if len(c.steps) > 0 {
		if c.steps[0] < n {
			n = c.steps[0]
		}
		c.steps = c.steps[1:]
	}
	if n > len(c.data) {
		n = len(c.data)
	}
	copy(b, c.data[:n])
	c.data = c.data[n:]
	if len(c.data) == 0 && c.eofWithData && n > 0 {
		return n, c.final()
	}
	return n, nil
}

func genScript(r *rand.Rand, data []byte, allowFail bool) (*scriptReader, string, []string) {
	sr := &scriptReader{data: data}
	var f []string
	for k := r.Intn(4); k > 0; k-- {
		switch r.Intn(5) {
		case 0:
			sr.steps = append(sr.steps, 0)
			f = append(f, "src=zero-nil-read")
		default:
			sr.steps = append(sr.steps, 1+r.Intn(2000))
		}
	}
	if r.Intn(2) == 0 {
		sr.eofWithData = true
		f = append(f, "src=data-with-EOF")
	}
	if allowFail && r.Intn(12) == 0 {
		sr.fails = true
		f = append(f, "src-fails")
	}
	spec := fmt.Sprintf("%s/%s/%s/%s", hx(data), kvfmt.Ints(sr.steps), kvfmt.Bool(sr.eofWithData), kvfmt.Bool(sr.fails))
	return sr, spec, f
}

// ----------------------------------------------------------------------------- reference xerial

var xMagic = []byte{0x82, 'S', 'N', 'A', 'P', 'P', 'Y', 0}

func refXerialEncode(blocks [][]byte, enc func([]byte) []byte) []byte {
	var b bytes.Buffer
	b.Write(xMagic)
	b.Write([]byte{0, 0, 0, 1, 0, 0, 0, 1})
	for _, blk := range blocks {
		c := enc(blk)
		var l [4]byte
		binary.BigEndian.PutUint32(l[:], uint32(len(c)))
		b.Write(l[:])
		b.Write(c)
	}
	return b.Bytes()
}

// strictSnappyDecode is a decoder for the snappy BLOCK format written from the format
// description (the Go counterpart of coq/Spec/SnappyBlock.v, compared with it by the "sb"
// cases): varint length, literal / copy-1 / copy-2 / copy-4 elements; a copy with offset 0
// (the S2 "repeat" extension) or reaching before the start of the output, output beyond
// the announced length, a cut element and a wrong final length are errors.
func strictSnappyDecode(src []byte) ([]byte, error) {
	dlen, n := binary.Uvarint(src)
	if n <= 0 || dlen > 0xffffffff {
		return nil, errors.New("strict snappy: bad length preamble")
	}
	src = src[n:]
	if dlen > uint64(len(src))*64+64 { // a copy element of 2 bytes yields at most 64
		return nil, errors.New("strict snappy: announced length cannot be reached")
	}
	out := make([]byte, 0, dlen)
	for len(src) > 0 {
		tag := src[0]
		src = src[1:]
		up := int(tag >> 2)
		var length, offset int
		switch tag & 3 {
		case 0:
			m := up
			if up >= 60 {
				k := up - 59
				if len(src) < k {
					return nil, errors.New("strict snappy: cut literal length")
				}
				m = 0
				for i := k - 1; i >= 0; i-- {
					m = m<<8 | int(src[i])
				}
				src = src[k:]
			}
			length = m + 1
			if length > len(src) || len(out)+length > int(dlen) {
				return nil, fmt.Errorf("strict snappy: literal of %d bytes at output position %d does not fit", length, len(out))
			}
			out = append(out, src[:length]...)
			src = src[length:]
			continue
		case 1:
			if len(src) < 1 {
				return nil, errors.New("strict snappy: cut copy")
			}
			length = 4 + up&7
			offset = (up>>3)<<8 | int(src[0])
			src = src[1:]
		case 2:
			if len(src) < 2 {
				return nil, errors.New("strict snappy: cut copy")
			}
			length = 1 + up
			offset = int(src[0]) | int(src[1])<<8
			src = src[2:]
		default:
			if len(src) < 4 {
				return nil, errors.New("strict snappy: cut copy")
			}
			length = 1 + up
			offset = int(src[0]) | int(src[1])<<8 | int(src[2])<<16 | int(src[3])<<24
			src = src[4:]
		}
		if offset == 0 {
			return nil, fmt.Errorf("strict snappy: copy with offset 0 at output position %d (S2 repeat extension, not snappy)", len(out))
		}
		if offset > len(out) || len(out)+length > int(dlen) {
			return nil, fmt.Errorf("strict snappy: copy offset %d length %d at output position %d out of range", offset, length, len(out))
		}
		for i := 0; i < length; i++ {
			out = append(out, out[len(out)-offset])
		}
	}
	if len(out) != int(dlen) {
		return nil, errors.New("strict snappy: decoded length differs from the announced one")
	}
	return out, nil
}

// hand-written de-framing + block decode
func refXerialDecode(s []byte) ([]byte, error) {
	if len(s) < 16 || !bytes.Equal(s[:8], xMagic) {
		return nil, errors.New("no xerial header")
	}
	if binary.BigEndian.Uint32(s[12:16]) > 1 {
		return nil, errors.New("incompatible version")
	}
	s = s[16:]
	var outb []byte
	for len(s) > 0 {
		if len(s) < 4 {
			return nil, errors.New("cut in a chunk length")
		}
		n := int(binary.BigEndian.Uint32(s[:4]))
		s = s[4:]
		if n > len(s) {
			return nil, errors.New("cut in a chunk")
		}
		d, err := strictSnappyDecode(s[:n])
		if err != nil {
			return nil, err
		}
		outb = append(outb, d...)
		s = s[n:]
	}
	return outb, nil
}

// ----------------------------------------------------------------------------- xw cases

type table map[string]string // chunk hex -> block hex or "!"

func (t table) String() string {
	if len(t) == 0 {
		return "."
	}
	keys := make([]string, 0, len(t))
	for k := range t {
		keys = append(keys, k)
	}
	sort.Strings(keys)
	var sb strings.Builder
	for i, k := range keys {
		if i > 0 {
			sb.WriteByte(',')
		}
		sb.WriteString(t[k])
		sb.WriteByte(':')
		sb.WriteString(k)
	}
	return sb.String()
}

var smallCaps = []int{1, 2, 5, 100, 1023, 1024, 1025, 2048}
var bigCaps = []int{4096, 16384, 32768, 32769, 40000, 65536, 131072}

func genXW(r *rand.Rand, big bool) {
	feats := map[string]bool{}
	tab := table{}
	csnappy.VerifDrainPools()

	// the pooled object
	var h *csnappy.VerifXW
	objSpec := "-"
	if r.Intn(4) != 0 && !forcedBigHistory {
		var c int
		switch k := r.Intn(10); {
		case k == 0:
			c = 0
		case k < 4 && !big:
			c = smallCaps[r.Intn(len(smallCaps))]
		case k < 8:
			c = bigCaps[r.Intn(len(bigCaps))]
		default:
			c = 32768 << uint(r.Intn(3))
		}
		var residual []byte
		if c > 0 && r.Intn(2) == 0 {
			residual = make([]byte, 1+r.Intn(40))
			r.Read(residual)
			if len(residual) > c {
				residual = residual[:c]
			}
			feats["obj=residual-input"] = true
		}
		nb := int64(0)
		if r.Intn(2) == 0 {
			nb = int64(1 + r.Intn(100000))
			feats["obj=residual-nbytes"] = true
		}
		fr := r.Intn(2) == 0
		h = csnappy.VerifNewXW(c, residual, nb, fr, r.Intn(3)*1000)
		objSpec = fmt.Sprintf("%x:%s:%x:%s", c, hx(residual), nb, kvfmt.Bool(fr))
		switch {
		case c == 0:
			feats["cap=0"] = true
		case c < 1024:
			feats["cap<1024"] = true
		case c == 32768:
			feats["cap=32K"] = true
		case c < 32768:
			feats["cap<32K"] = true
		default:
			feats["cap>32K"] = true
		}
		h.Pool()
	} else {
		feats["obj=fresh"] = true
	}

	nstreams := 1 + r.Intn(3)
	bigHistory := forcedBigHistory
	forcedBigHistory = false
	if bigHistory {
		nstreams = 2
		feats["history=large-unframed-then-framed"] = true
	}
	if nstreams > 1 {
		feats["history"] = true
	}
	var specs, results []string
	refOK := "ok"
	var prevID uintptr
	if h != nil {
		prevID = h.ID()
	}
	smallCap := h != nil && func() bool { c, _, _ := h.State(); return c > 0 && c < 4096 }()
	for si := 0; si < nstreams; si++ {
		framed := r.Intn(4) != 0
		maxLen := 70000
		if !big {
			maxLen = 2000
		}
		if smallCap && framed {
			maxLen = 300
		}
		payload, pf := genPayload(r, maxLen)
		if bigHistory {
			framed = si == 1
			payload, pf = fill(r, 100000+r.Intn(60000), "rand"), []string{"payload=rand", "size=>100K"}
		}
		if r.Intn(25) == 0 && !bigHistory {
			payload = nil
			pf = []string{"payload=empty"}
		}
		for _, f := range pf {
			feats[f] = true
		}
		if framed {
			feats["framed"] = true
		} else {
			feats["unframed"] = true
		}
		split, sf := genSplit(r, len(payload), 40)
		feats[sf] = true
		room := -1
		if r.Intn(8) == 0 && !bigHistory {
			room = r.Intn(len(payload) + 40)
			feats["sink-fails"] = true
		}
		sink := &limitWriter{room: room}
		codec := &csnappy.Codec{Compression: csnappy.Compression(r.Intn(4))}
		feats[fmt.Sprintf("level=%d", int(codec.Compression))] = true
		if !framed {
			codec.Framing = csnappy.Unframed
		}
		wc := codec.NewWriter(sink)
		hw := csnappy.VerifXWOf(wc)
		if prevID != 0 && hw.ID() != prevID {
			fmt.Fprintln(os.Stderr, "c16: pooled writer was not handed back by sync.Pool (GOMAXPROCS?)")
			os.Exit(3)
		}
		prevID = hw.ID()
		hw.WrapEncode(func(block, chunk []byte) { tab[hx(chunk)] = hx(block) })

		var ops, res []string
		failed := false
		explicitFlush := false
		pos := 0
		for _, n := range split {
			piece := payload[pos : pos+n]
			pos += n
			var wn int64
			var err error
			if r.Intn(3) == 0 {
				// ReadFrom (what io.Copy uses) with a scripted source
				sr, spec, sf := genScript(r, piece, true)
				for _, f := range sf {
					feats[f] = true
				}
				feats["ReadFrom"] = true
				ops = append(ops, "R"+spec)
				if r.Intn(2) == 0 {
					wn, err = io.Copy(wc, sr)
				} else {
					wn, err = wc.(io.ReaderFrom).ReadFrom(sr)
				}
			} else {
				ops = append(ops, "W"+hx(piece))
				var k int
				k, err = wc.Write(piece)
				wn = int64(k)
			}
			res = append(res, fmt.Sprintf("%x:%s", wn, errClass(err)))
			if err != nil {
				failed = true
				break
			}
			if r.Intn(40) == 0 {
				feats["explicit-Flush"] = true
				explicitFlush = true
				ops = append(ops, "F")
				err := wc.(interface{ Flush() error }).Flush()
				res = append(res, fmt.Sprintf("0:%s", errClass(err)))
				if err != nil {
					failed = true
					break
				}
			}
		}
		cerr := wc.Close()
		if cerr != nil {
			failed = true
		}
		c, l, nb := hw.State()
		data := sink.buf.Bytes()
		roomS := "-"
		if room >= 0 {
			roomS = kvfmt.U(uint64(room))
		}
		opS := strings.Join(ops, ";")
		if opS == "" {
			opS = "."
		}
		resS := strings.Join(res, ",")
		if resS == "" {
			resS = "."
		}
		specs = append(specs, fmt.Sprintf("%s:%s:%s", kvfmt.Bool(framed), roomS, opS))
		results = append(results, fmt.Sprintf("%s;%s;%s;%x,%x,%x", hx(data), resS, errClass(cerr), c, l, nb))
		if failed {
			feats["stream-ended-in-error"] = true
		}

		// the property's predicate on the implementation's own output
		if !failed && !(explicitFlush && !framed) {
			if why := checkWritten(codec, framed, data, payload); why != "" && refOK == "ok" {
				refOK = fmt.Sprintf("FAIL:stream%d:%s", si, why)
			}
		}
		if framed {
			nblocks := 0
			if len(data) >= 16 {
				for p := 16; p+4 <= len(data); {
					p += 4 + int(binary.BigEndian.Uint32(data[p:]))
					nblocks++
				}
			}
			switch {
			case nblocks > 2:
				feats["blocks>2"] = true
			case nblocks == 2:
				feats["blocks=2"] = true
			}
		}
	}
	emit("xw", fmt.Sprintf("%s %s %s", tab.String(), objSpec, strings.Join(specs, " ")),
		strings.Join(results, "/")+" ref="+refOK, keys(feats))
}

func keys(m map[string]bool) []string {
	var l []string
	for k := range m {
		l = append(l, k)
	}
	return l
}

// checkWritten: the emitted stream decodes to the payload with the reference
// decoders and through kafka-go's own reader.
func checkWritten(codec *csnappy.Codec, framed bool, data, payload []byte) (why string) {
	defer func() {
		if p := recover(); p != nil {
			why = fmt.Sprintf("PANIC-reading-the-written-stream:%v", p)
		}
	}()
	if len(payload) == 0 {
		if len(data) != 0 {
			return "empty-payload-produced-bytes"
		}
		return ""
	}
	if framed {
		d, err := refXerialDecode(data)
		if err != nil {
			return "reference-deframe:" + strings.ReplaceAll(err.Error(), " ", "_")
		}
		if !bytes.Equal(d, payload) {
			return "reference-deframe-differs"
		}
		d, err = vxerial.Decode(data)
		if err != nil || !bytes.Equal(d, payload) {
			return "go-xerial-snappy-decode-differs"
		}
	} else {
		d, err := strictSnappyDecode(data)
		if err != nil {
			return "raw-block-not-snappy:" + strings.ReplaceAll(err.Error(), " ", "_")
		}
		if !bytes.Equal(d, payload) {
			return "raw-block-decode-differs"
		}
		d, err = ksnappy.Decode(nil, data)
		if err != nil || !bytes.Equal(d, payload) {
			return "raw-block-decode-differs(klauspost)"
		}
	}
	rc := codec.NewReader(bytes.NewReader(data))
	d, err := io.ReadAll(rc)
	rc.Close()
	if err != nil || !bytes.Equal(d, payload) {
		return "own-reader-differs"
	}
	return ""
}

// ----------------------------------------------------------------------------- xr cases

func kafkaWrite(codec compress.Codec, payload []byte, split []int) []byte {
	var b bytes.Buffer
	w := codec.NewWriter(&b)
	pos := 0
	for _, n := range split {
		if _, err := w.Write(payload[pos : pos+n]); err != nil {
			panic(err)
		}
		pos += n
	}
	if err := w.Close(); err != nil {
		panic(err)
	}
	return append([]byte(nil), b.Bytes()...)
}

func randomBlocks(r *rand.Rand, payload []byte) [][]byte {
	split, _ := genSplit(r, len(payload), 12)
	var blocks [][]byte
	pos := 0
	for _, n := range split {
		blocks = append(blocks, payload[pos:pos+n])
		pos += n
		if r.Intn(6) == 0 {
			blocks = append(blocks, nil) // an empty block
		}
	}
	return blocks
}

// forcedBigBlocks: the next source is a reference-encoded xerial stream with blocks of these
// sizes.  The format allows any block size and other clients use larger blocks than
// kafka-go's writer (32 KiB): the reader's buffer must grow from any capacity to any frame.
var forcedBigBlocks []int

// forcedBigHistory: the next xw case is "a large unframed use, then a framed use of the same
// pooled writer" (the grown buffer makes the framed stream emit equally large frames)
var forcedBigHistory bool

func genSource(r *rand.Rand, maxLen int, feats map[string]bool) (src []byte, payload []byte, valid bool) {
	if forcedBigBlocks != nil {
		var blocks [][]byte
		for _, n := range forcedBigBlocks {
			class := "rand"
			if r.Intn(4) == 0 {
				class = "json"
			}
			b := fill(r, n, class)
			blocks = append(blocks, b)
			payload = append(payload, b...)
		}
		forcedBigBlocks = nil
		feats["src=reference-framed"] = true
		feats["blocks>64K"] = true
		feats["payload=rand"] = true
		return refXerialEncode(blocks, func(b []byte) []byte { return ksnappy.Encode(nil, b) }), payload, true
	}
	payload, pf := genPayload(r, maxLen)
	for _, f := range pf {
		feats[f] = true
	}
	split, _ := genSplit(r, len(payload), 30)
	encs := []func([]byte) []byte{
		func(b []byte) []byte { return ksnappy.Encode(nil, b) },
		func(b []byte) []byte { return s2.EncodeSnappy(nil, b) },
		func(b []byte) []byte { return s2.EncodeSnappyBest(nil, b) },
	}
	enc := encs[r.Intn(len(encs))]
	kind := r.Intn(7)
	switch kind {
	case 0:
		feats["src=kafka-go-framed"] = true
		src = kafkaWrite(&csnappy.Codec{}, payload, split)
	case 1:
		feats["src=kafka-go-unframed"] = true
		src = kafkaWrite(&csnappy.Codec{Framing: csnappy.Unframed}, payload, split)
	case 2, 3:
		feats["src=reference-framed"] = true
		blocks := randomBlocks(r, payload)
		for _, b := range blocks {
			if len(b) == 0 {
				feats["empty-block"] = true
			}
		}
		src = refXerialEncode(blocks, enc)
		if r.Intn(4) == 0 {
			src[11] = byte(1 + r.Intn(3)) // another writer version, still compatible with 1
			feats["version>1"] = true
		}
	case 4:
		feats["src=go-xerial-snappy"] = true
		src = vxerial.EncodeStream(nil, payload)
	default:
		feats["src=reference-raw-block"] = true
		src = enc(payload)
	}
	valid = true
	switch r.Intn(12) {
	case 0, 1: // cut
		valid = false
		var k int
		switch r.Intn(4) {
		case 0:
			k = r.Intn(21)
		case 1:
			k = len(src) - 1 - r.Intn(4)
		default:
			k = r.Intn(len(src))
		}
		if k > len(src)-1 {
			k = len(src) - 1
		}
		if k < 0 {
			k = 0
		}
		// cut right after a chunk length when framed
		if r.Intn(3) == 0 && len(src) > 20 && bytes.Equal(src[:8], xMagic) {
			k = 20
			feats["cut-after-length"] = true
		}
		src = src[:k]
		feats["src-cut"] = true
	case 2: // corrupt one byte outside the length fields
		valid = false
		src = append([]byte(nil), src...)
		framedSrc := len(src) >= 16 && bytes.Equal(src[:8], xMagic)
		var k int
		if framedSrc && len(src) > 21 {
			switch r.Intn(3) {
			case 0:
				k = r.Intn(8) // the magic
			default:
				k = 20 + r.Intn(min(len(src)-20, 30)) // inside the first chunk
				if l := int(binary.BigEndian.Uint32(src[16:20])); k >= 20+l {
					k = 20
				}
			}
		} else {
			k = r.Intn(len(src))
		}
		src[k] ^= byte(1 + r.Intn(255))
		feats["src-corrupt"] = true
	case 3: // junk
		valid = false
		feats["src-junk"] = true
		switch r.Intn(4) {
		case 0:
			src = append([]byte(nil), xMagic[:1+r.Intn(8)]...)
			feats["magic-prefix-only"] = true
		case 1:
			src = append(append([]byte(nil), xMagic...), make([]byte, r.Intn(9))...)
			feats["magic-short-header"] = true
		case 2:
			src = append(append([]byte(nil), xMagic...), []byte{0, 0, 0, 1, 0, 0, 0, 1}...)
			feats["header-only"] = true
			valid, payload = true, nil
		default:
			src = make([]byte, 1+r.Intn(40))
			r.Read(src)
		}
	case 4:
		src, payload = nil, nil
		feats["src-empty"] = true
	}
	return
}

func genXR(r *rand.Rand, big bool) {
	feats := map[string]bool{}
	tab := table{}
	csnappy.VerifDrainPools()

	var h *csnappy.VerifXR
	objSpec := "-"
	if r.Intn(4) != 0 {
		var hdr [16]byte
		switch r.Intn(3) {
		case 0:
			copy(hdr[:], xMagic)
			copy(hdr[8:], []byte{0, 0, 0, 1, 0, 0, 0, 1})
			feats["obj=residual-magic"] = true
		case 1:
			r.Read(hdr[:])
		}
		output := make([]byte, r.Intn(50))
		r.Read(output)
		input := make([]byte, r.Intn(50))
		r.Read(input)
		off := int64(0)
		if len(output) > 0 {
			off = int64(r.Intn(len(output) + 1))
		}
		nb := int64(r.Intn(3) * (1 + r.Intn(5000)))
		h = csnappy.VerifNewXR(hdr, input, output, off, nb)
		objSpec = fmt.Sprintf("%s:%s:%x:%x", hx(hdr[:]), hx(output), off, nb)
		feats["obj=dirty"] = true
		h.Pool()
	} else {
		feats["obj=fresh"] = true
	}
	var prevID uintptr
	if h != nil {
		prevID = h.ID()
	}
	nstreams := 1 + r.Intn(3)
	if nstreams > 1 {
		feats["history"] = true
	}
	var specs, results []string
	refOK := "ok"
	for si := 0; si < nstreams; si++ {
		maxLen := 70000
		if !big {
			maxLen = 2000
		}
		src, payload, valid := genSource(r, maxLen, feats)
		codec := &csnappy.Codec{}
		var under io.Reader = bytes.NewReader(src)
		if r.Intn(3) == 0 {
			feats["underlying-short-reads"] = true
			under = &chopReader{data: src, sizes: []int{1 + r.Intn(20), 1 + r.Intn(5000)}}
		}
		rc := codec.NewReader(under)
		hr := csnappy.VerifXROf(rc)
		if prevID != 0 && hr.ID() != prevID {
			fmt.Fprintln(os.Stderr, "c16: pooled reader was not handed back by sync.Pool (GOMAXPROCS?)")
			os.Exit(3)
		}
		prevID = hr.ID()
		hr.WrapDecode(func(chunk, block []byte, err error) {
			if err != nil {
				tab[hx(chunk)] = "!"
			} else {
				tab[hx(chunk)] = hx(block)
			}
		})
		var got bytes.Buffer
		var lens []string
		var final error
		var mode string
		complete := false
		if r.Intn(5) == 0 {
			feats["WriteTo"] = true
			mode = "T"
			err := safeCopy(&got, rc, false)
			final = err
			if err == nil {
				final = io.EOF // WriteTo maps io.EOF to nil; the model reports the same class
			}
			complete = true
		} else {
			var sizes []int
			var pool []int
			if len(payload) <= 2000 {
				pool = []int{1, 2, 3, 7, 16, 100, 512, 4096, len(payload), len(payload) + 1, 32768, 65536}
			} else {
				pool = []int{512, 1000, 4096, 31744, 32768, 65536, 70000, len(payload), len(payload) - 1}
			}
			for k := 1 + r.Intn(3); k > 0; k-- {
				s := pool[r.Intn(len(pool))]
				if s < 1 {
					s = 1
				}
				if s > 70000 {
					s = 70000
				}
				sizes = append(sizes, s)
			}
			minS := sizes[0]
			for _, s := range sizes {
				if s < minS {
					minS = s
				}
			}
			switch {
			case minS <= 16:
				feats["read=tiny"] = true
			case minS < 32768:
				feats["read<32K"] = true
			default:
				feats["read>=32K"] = true
			}
			count := len(payload)/minS + len(src)/4 + 4
			if count > 4000 {
				count = 4000
			}
			thenCopy := r.Intn(3) == 0
			if thenCopy {
				// a few Reads (peeking at the start), then io.Copy / WriteTo for the rest
				count = 1 + r.Intn(3)
				feats["Read-then-WriteTo"] = true
			} else if r.Intn(8) == 0 {
				count = r.Intn(4)
				feats["closed-before-EOF"] = true
			}
			mode = fmt.Sprintf("R%xx%s", count, kvfmt.Ints(sizes))
			if thenCopy {
				mode += "+T"
			}
			buf := make([]byte, 70001)
			for i := 0; i < count; i++ {
				k := sizes[i%len(sizes)]
				for j := range buf[:k] {
					buf[j] = 0xAA
				}
				n, err := safeRead(rc, buf[:k])
				if n > k && refOK == "ok" {
					// io.Reader: 0 <= n <= len(p); the caller's memory beyond len(p) is not the reader's
					refOK = fmt.Sprintf("FAIL:stream%d:Read-returned-%d-bytes-for-a-buffer-of-%d", si, n, k)
				}
				if err != nil {
					final = err
					complete = true
					if n != 0 {
						refOK = "FAIL:data-with-error"
					}
					break
				}
				got.Write(buf[:n])
				lens = append(lens, kvfmt.U(uint64(n)))
			}
			if thenCopy && final == nil {
				err := safeCopy(&got, rc, r.Intn(2) == 0)
				final = err
				if err == nil {
					final = io.EOF
				}
				complete = true
			}
		}
		if errors.Is(final, errPanic) {
			refOK = fmt.Sprintf("FAIL:stream%d:PANIC:%s", si, strings.ReplaceAll(final.Error(), " ", "_"))
			feats["PANIC"] = true
		}
		hr.UnwrapDecode()
		rc.Close()
		clean := hr.Clean()
		lensS := strings.Join(lens, ",")
		if lensS == "" {
			lensS = "."
		}
		specs = append(specs, fmt.Sprintf("%s:%s", hx(src), mode))
		results = append(results, fmt.Sprintf("%s;%s;%s;%s", hx(got.Bytes()), lensS, errClass(final), kvfmt.Bool(clean)))
		if final != nil && !errors.Is(final, io.EOF) {
			feats["stream-ended-in-error"] = true
		}
		// the property's predicate on the implementation's own output
		if valid && refOK == "ok" {
			if complete {
				if !bytes.Equal(got.Bytes(), payload) || !errors.Is(final, io.EOF) {
					refOK = fmt.Sprintf("FAIL:stream%d:read-back-differs(err=%s)", si, errClass(final))
				}
			} else if !bytes.HasPrefix(payload, got.Bytes()) {
				refOK = fmt.Sprintf("FAIL:stream%d:read-back-not-a-prefix", si)
			}
		}
		if !clean && refOK == "ok" {
			refOK = "FAIL:not-reset-on-Close"
		}
	}
	emit("xr", fmt.Sprintf("%s %s %s", tab.String(), objSpec, strings.Join(specs, " ")),
		strings.Join(results, "/")+" ref="+refOK, keys(feats))
}

// ----------------------------------------------------------------------------- all codecs (implementation-only predicates)

type refCodec struct {
	name   string
	codec  func() compress.Codec // a fresh codec value
	shared compress.Codec        // the package-level one
	enc    func(r *rand.Rand, payload []byte, split []int) ([]byte, error)
	dec    func(data []byte) ([]byte, error)
}

func writeSplit(w io.Writer, payload []byte, split []int) error {
	pos := 0
	for _, n := range split {
		if _, err := w.Write(payload[pos : pos+n]); err != nil {
			return err
		}
		pos += n
	}
	return nil
}

var refCodecs = []refCodec{
	{
		name:   "gzip",
		codec:  func() compress.Codec { return &cgzip.Codec{} },
		shared: &compress.GzipCodec,
		enc: func(r *rand.Rand, payload []byte, split []int) ([]byte, error) {
			// RFC 1952 2.2: a gzip file is a series of members; every decoder yields
			// the concatenation.  Members get optional header fields.
			var b bytes.Buffer
			var w *stdgzip.Writer
			for _, g := range groups(payload, split, genMembers(r)) {
				if w == nil || r.Intn(2) == 0 {
					lvl := []int{stdgzip.DefaultCompression, stdgzip.NoCompression, stdgzip.BestSpeed, stdgzip.BestCompression, stdgzip.HuffmanOnly}[r.Intn(5)]
					w, _ = stdgzip.NewWriterLevel(&b, lvl)
				} else {
					w.Reset(&b) // closed and reset onto the same destination
				}
				if r.Intn(2) == 0 {
					w.Name = "member.bin"
				}
				if r.Intn(2) == 0 {
					w.Comment = "a comment"
				}
				if r.Intn(2) == 0 {
					w.Extra = []byte{'k', 'v', 3, 0, 1, 2, 3}
				}
				if r.Intn(2) == 0 {
					w.ModTime = time.Unix(1700000000, 0)
				}
				for _, p := range g {
					if _, err := w.Write(p); err != nil {
						return nil, err
					}
				}
				if r.Intn(3) == 0 {
					w.Flush()
				}
				if err := w.Close(); err != nil {
					return nil, err
				}
			}
			return b.Bytes(), nil
		},
		dec: func(data []byte) ([]byte, error) {
			z, err := stdgzip.NewReader(bytes.NewReader(data))
			if err != nil {
				return nil, err
			}
			return io.ReadAll(z)
		},
	},
	{
		name:   "snappy",
		codec:  func() compress.Codec { return &csnappy.Codec{} },
		shared: &compress.SnappyCodec,
		enc: func(r *rand.Rand, payload []byte, split []int) ([]byte, error) {
			var blocks [][]byte
			pos := 0
			for _, n := range split {
				blocks = append(blocks, payload[pos:pos+n])
				pos += n
			}
			if r.Intn(3) == 0 {
				return vxerial.EncodeStream(nil, payload), nil
			}
			return refXerialEncode(blocks, func(b []byte) []byte { return ksnappy.Encode(nil, b) }), nil
		},
		dec: refXerialDecode,
	},
	{
		name:   "snappy-unframed",
		codec:  func() compress.Codec { return &csnappy.Codec{Framing: csnappy.Unframed} },
		shared: &csnappy.Codec{Framing: csnappy.Unframed},
		enc: func(r *rand.Rand, payload []byte, split []int) ([]byte, error) {
			switch r.Intn(3) {
			case 0:
				return s2.EncodeSnappyBest(nil, payload), nil
			case 1:
				return s2.EncodeSnappy(nil, payload), nil
			}
			return ksnappy.Encode(nil, payload), nil
		},
		dec: strictSnappyDecode,
	},
	{
		name:   "lz4",
		codec:  func() compress.Codec { return &clz4.Codec{} },
		shared: &compress.Lz4Codec,
		enc: func(r *rand.Rand, payload []byte, split []int) ([]byte, error) {
			// frame options in their legal variety.  One frame only: pierrec/lz4 v4.1.15, the
			// reference library, itself stops after the first of several concatenated frames
			// (used directly as well as through the codec), so there is no oracle for them.
			var b bytes.Buffer
			for _, g := range groups(payload, split, 1) {
				size := 0
				for _, p := range g {
					size += len(p)
				}
				w := plz4.NewWriter(&b)
				opts := []plz4.Option{
					plz4.ChecksumOption(r.Intn(2) == 0),
					plz4.BlockChecksumOption(r.Intn(2) == 0),
					plz4.BlockSizeOption([]plz4.BlockSize{plz4.Block64Kb, plz4.Block256Kb, plz4.Block1Mb, plz4.Block4Mb}[r.Intn(4)]),
					plz4.CompressionLevelOption([]plz4.CompressionLevel{plz4.Fast, plz4.Level1, plz4.Level5, plz4.Level9}[r.Intn(4)]),
				}
				if r.Intn(2) == 0 {
					opts = append(opts, plz4.SizeOption(uint64(size)))
				}
				if err := w.Apply(opts...); err != nil {
					return nil, err
				}
				for _, p := range g {
					if _, err := w.Write(p); err != nil {
						return nil, err
					}
				}
				if err := w.Close(); err != nil {
					return nil, err
				}
			}
			return b.Bytes(), nil
		},
		dec: func(data []byte) ([]byte, error) { return io.ReadAll(plz4.NewReader(bytes.NewReader(data))) },
	},
	{
		name:   "zstd",
		codec:  func() compress.Codec { return &czstd.Codec{} },
		shared: &compress.ZstdCodec,
		enc: func(r *rand.Rand, payload []byte, split []int) ([]byte, error) {
			// several frames back to back, skippable frames in between, frame options
			var b bytes.Buffer
			skippable := func() {
				if r.Intn(4) == 0 {
					junk := make([]byte, r.Intn(40))
					r.Read(junk)
					var h [8]byte
					binary.LittleEndian.PutUint32(h[:4], 0x184D2A50+uint32(r.Intn(16)))
					binary.LittleEndian.PutUint32(h[4:], uint32(len(junk)))
					b.Write(h[:])
					b.Write(junk)
				}
			}
			for _, g := range groups(payload, split, genMembers(r)%5) {
				skippable()
				w, err := kzstd.NewWriter(&b, kzstd.WithEncoderConcurrency(1),
					kzstd.WithEncoderCRC(r.Intn(2) == 0),
					kzstd.WithZeroFrames(true),
					kzstd.WithEncoderLevel(kzstd.EncoderLevel(1+r.Intn(4))),
					kzstd.WithWindowSize(1<<uint(10+r.Intn(13))))
				if err != nil {
					return nil, err
				}
				for _, p := range g {
					if _, err := w.Write(p); err != nil {
						return nil, err
					}
				}
				if err := w.Close(); err != nil {
					return nil, err
				}
			}
			skippable()
			return b.Bytes(), nil
		},
		dec: func(data []byte) ([]byte, error) {
			z, err := kzstd.NewReader(bytes.NewReader(data), kzstd.WithDecoderConcurrency(1))
			if err != nil {
				return nil, err
			}
			defer z.Close()
			return io.ReadAll(z)
		},
	},
}

// every compression level of the snappy codec, framed and unframed, is a codec of its own
// for the round-trip / interoperability cases
func init() {
	base := len(refCodecs)
	_ = base
	for _, unframed := range []bool{false, true} {
		for lvl := csnappy.FasterCompression; lvl <= csnappy.BestCompression; lvl++ {
			lvl, unframed := lvl, unframed
			rc := refCodecs[1]
			fr := csnappy.Framed
			if unframed {
				rc = refCodecs[2]
				fr = csnappy.Unframed
			}
			rc.name = fmt.Sprintf("%s-level%d", rc.name, int(lvl))
			rc.codec = func() compress.Codec { return &csnappy.Codec{Framing: fr, Compression: lvl} }
			rc.shared = &csnappy.Codec{Framing: fr, Compression: lvl}
			refCodecs = append(refCodecs, rc)
		}
	}
	// codec OPTIONS are part of the generated space: every level a codec accepts, built
	// through the codec struct and through the deprecated constructors of /repo/{gzip,lz4,
	// snappy,zstd}.  (gzip: Level 0 means "default" for the codec struct; valid levels are
	// -3 stateless, -2 Huffman only, -1 default, 1..9.)
	for i, lvl := range []int{-3, -2, -1, 1, 6, 9} {
		lvl := lvl
		rc := refCodecs[0]
		rc.name = fmt.Sprintf("gzip-level%d", lvl)
		if i%2 == 0 {
			rc.name += "-ctor"
			rc.codec = func() compress.Codec { return dgzip.NewCompressionCodecLevel(lvl) }
		} else {
			rc.codec = func() compress.Codec { return &cgzip.Codec{Level: lvl} }
		}
		rc.shared = rc.codec()
		refCodecs = append(refCodecs, rc)
	}
	for i, lvl := range []int{-5, -1, 0, 1, 2, 3, 4, 5, 9, 12, 19, 22, 23} {
		lvl := lvl
		rc := refCodecs[4]
		rc.name = fmt.Sprintf("zstd-level%d", lvl)
		if i%2 == 0 {
			rc.name += "-ctor"
			rc.codec = func() compress.Codec { return dzstd.NewCompressionCodecWith(lvl) }
		} else {
			rc.codec = func() compress.Codec { return &czstd.Codec{Level: lvl} }
		}
		rc.shared = rc.codec()
		refCodecs = append(refCodecs, rc)
	}
	{
		rc := refCodecs[0]
		rc.name = "gzip-default-ctor"
		rc.codec = func() compress.Codec { return dgzip.NewCompressionCodec() }
		rc.shared = rc.codec()
		refCodecs = append(refCodecs, rc)
		rc = refCodecs[4]
		rc.name = "zstd-default-ctor"
		rc.codec = func() compress.Codec { return dzstd.NewCompressionCodec() }
		rc.shared = rc.codec()
		refCodecs = append(refCodecs, rc)
		rc = refCodecs[3]
		rc.name = "lz4-ctor"
		rc.codec = func() compress.Codec { return dlz4.NewCompressionCodec() }
		rc.shared = rc.codec()
		refCodecs = append(refCodecs, rc)
		rc = refCodecs[1]
		rc.name = "snappy-ctor"
		rc.codec = func() compress.Codec { return dsnappy.NewCompressionCodec() }
		rc.shared = rc.codec()
		refCodecs = append(refCodecs, rc)
		rc = refCodecs[2]
		rc.name = "snappy-unframed-ctor"
		rc.codec = func() compress.Codec { return dsnappy.NewCompressionCodecFraming(dsnappy.Unframed) }
		rc.shared = rc.codec()
		refCodecs = append(refCodecs, rc)
	}
}

// groups cuts the split of a payload into m consecutive groups (members / frames)
func groups(payload []byte, split []int, m int) [][][]byte {
	var pieces [][]byte
	pos := 0
	for _, n := range split {
		pieces = append(pieces, payload[pos:pos+n])
		pos += n
	}
	if m > len(pieces) {
		m = len(pieces)
	}
	if m < 1 {
		m = 1
	}
	out := make([][][]byte, m)
	for i, p := range pieces {
		g := i * m / len(pieces)
		out[g] = append(out[g], p)
	}
	return out
}

func genMembers(r *rand.Rand) int {
	switch r.Intn(6) {
	case 0:
		return 2
	case 1:
		return 4
	case 2:
		return 1000 // as many as there are pieces
	}
	return 1
}

// writeMixed offers the payload through a mix of Write and io.Copy (ReadFrom where the
// writer has it) from scripted sources, incl. ones that return (n > 0, io.EOF)
func writeMixed(r *rand.Rand, w io.Writer, payload []byte, split []int) error {
	pos := 0
	for _, n := range split {
		piece := payload[pos : pos+n]
		pos += n
		if r.Intn(3) == 0 {
			sr, _, _ := genScript(r, piece, false)
			k, err := io.Copy(w, sr)
			if err != nil {
				return err
			}
			if k != int64(n) {
				return fmt.Errorf("io.Copy reported %d of %d bytes", k, n)
			}
		} else if _, err := w.Write(piece); err != nil {
			return err
		}
	}
	return nil
}

// readMixed reads everything: Reads with the given sizes, or a few Reads and then io.Copy
// (WriteTo where the reader has it), or io.Copy alone
func readMixed(r *rand.Rand, rd io.Reader, sizes []int) ([]byte, error) {
	switch r.Intn(3) {
	case 0:
		return readSizes(rd, sizes)
	case 1:
		var got bytes.Buffer
		_, err := io.Copy(&got, rd)
		return got.Bytes(), err
	}
	var got bytes.Buffer
	buf := make([]byte, maxOf(sizes))
	for i, k := 0, 1+r.Intn(3); i < k; i++ {
		n, err := rd.Read(buf[:sizes[i%len(sizes)]])
		got.Write(buf[:n])
		if err != nil {
			if errors.Is(err, io.EOF) {
				return got.Bytes(), nil
			}
			return got.Bytes(), err
		}
	}
	_, err := io.Copy(&got, rd)
	return got.Bytes(), err
}

// read everything with the given buffer sizes (cyclically)
func maxOf(l []int) int {
	m := 1
	for _, v := range l {
		if v > m {
			m = v
		}
	}
	return m
}

func readSizes(rd io.Reader, sizes []int) ([]byte, error) {
	var got bytes.Buffer
	buf := make([]byte, maxOf(sizes))
	for i := 0; ; i++ {
		k := sizes[i%len(sizes)]
		n, err := rd.Read(buf[:k])
		got.Write(buf[:n])
		if err != nil {
			if errors.Is(err, io.EOF) {
				return got.Bytes(), nil
			}
			return got.Bytes(), err
		}
		if i > 50_000_000 {
			return got.Bytes(), errors.New("no progress")
		}
	}
}

func genReadSizes(r *rand.Rand, n int) []int {
	pool := []int{1, 3, 100, 512, 4096, 32768, 65536, 1 << 20, n, n + 1}
	if n > 20000 {
		pool = pool[2:]
	}
	var sizes []int
	for k := 1 + r.Intn(3); k > 0; k-- {
		s := pool[r.Intn(len(pool))]
		if s < 1 {
			s = 1
		}
		sizes = append(sizes, s)
	}
	return sizes
}

// one full round trip + interoperability in both directions; "" = ok
func roundTrip(r *rand.Rand, rc refCodec, codec compress.Codec, payload []byte, split []int, sizes []int) (why string) {
	defer func() {
		if p := recover(); p != nil {
			why = fmt.Sprintf("panic:%v", p)
		}
	}()
	var b bytes.Buffer
	w := codec.NewWriter(&b)
	if err := writeMixed(r, w, payload, split); err != nil {
		w.Close()
		return "write:" + err.Error()
	}
	if err := w.Close(); err != nil {
		return "close:" + err.Error()
	}
	if err := w.Close(); err != nil { // Close twice is harmless
		return "second-close:" + err.Error()
	}
	comp := append([]byte(nil), b.Bytes()...)
	d, err := rc.dec(comp)
	if err != nil {
		return "reference-decoder-rejects:" + err.Error()
	}
	if !bytes.Equal(d, payload) {
		return "reference-decoder-differs"
	}
	rd := codec.NewReader(bytes.NewReader(comp))
	d, err = readMixed(r, rd, sizes)
	rd.Close()
	rd.Close()
	if err != nil {
		return "read:" + err.Error()
	}
	if !bytes.Equal(d, payload) {
		return "round-trip-differs"
	}
	comp2, err := rc.enc(r, payload, split)
	if err != nil {
		return "reference-encoder:" + err.Error()
	}
	if d, err := rc.dec(comp2); err != nil || !bytes.Equal(d, payload) {
		return fmt.Sprintf("HARNESS:reference-decoder-does-not-read-the-reference-stream(%v)", err)
	}
	rd = codec.NewReader(&chopReader{data: comp2, sizes: []int{1 + r.Intn(5000)}})
	d, err = readMixed(r, rd, sizes)
	rd.Close()
	if err != nil {
		return "read-of-reference-stream:" + err.Error()
	}
	if !bytes.Equal(d, payload) {
		return "reference-stream-read-differs"
	}
	return ""
}

func okOr(why string) string {
	if why == "" {
		return "ok"
	}
	return "FAIL:" + strings.ReplaceAll(why, " ", "_")
}

func genRT(r *rand.Rand) {
	rc := refCodecs[r.Intn(len(refCodecs))]
	pseed := r.Int63()
	pr := rand.New(rand.NewSource(pseed))
	payload, pf := genPayload(pr, 300000)
	split, sf := genSplit(pr, len(payload), 200)
	sizes := genReadSizes(pr, len(payload))
	codec := rc.shared
	feats := append(pf, sf, "codec="+rc.name)
	if r.Intn(3) == 0 {
		codec = rc.codec()
		feats = append(feats, "own-codec-value")
	}
	why := roundTrip(pr, rc, codec, payload, split, sizes)
	emit("rt", fmt.Sprintf("%s %x %x", rc.name, pseed, len(payload)), okOr(why), feats)
}

// a pooled object that saw a failed / abandoned stream is then used for a good one
func genHist(r *rand.Rand) {
	rc := refCodecs[r.Intn(len(refCodecs))]
	pseed := r.Int63()
	pr := rand.New(rand.NewSource(pseed))
	codec := rc.shared
	feats := map[string]bool{"codec=" + rc.name: true}
	why := func() (why string) {
		defer func() {
			if p := recover(); p != nil {
				why = fmt.Sprintf("panic:%v", p)
			}
		}()
		for k := 1 + pr.Intn(4); k > 0; k-- {
			payload, _ := genPayload(pr, 100000)
			split, _ := genSplit(pr, len(payload), 20)
			comp, _ := rc.enc(pr, payload, split)
			switch pr.Intn(5) {
			case 0: // truncated stream read to its error
				feats["bad=truncated"] = true
				cut := comp[:pr.Intn(len(comp))]
				rd := codec.NewReader(bytes.NewReader(cut))
				d, err := readSizes(rd, []int{1 + pr.Intn(70000)})
				rd.Close()
				if err == nil && len(cut) < len(comp) && bytes.Equal(d, payload) && len(payload) > 0 && len(cut) == 0 {
					return "empty-stream-returned-data"
				}
			case 1: // corrupted stream
				feats["bad=corrupt"] = true
				bad := append([]byte(nil), comp...)
				i := pr.Intn(len(bad))
				if rc.name == "snappy" && i >= 16 && i < 20 {
					i = 3 // never a chunk length (the reader allocates what it announces)
				}
				bad[i] ^= byte(1 + pr.Intn(255))
				rd := codec.NewReader(bytes.NewReader(bad))
				readSizes(rd, []int{1 + pr.Intn(70000)})
				rd.Close()
			case 2: // reader abandoned half way
				feats["bad=abandoned-reader"] = true
				rd := codec.NewReader(bytes.NewReader(comp))
				buf := make([]byte, 1+len(payload)/2)
				rd.Read(buf)
				rd.Close()
			case 3: // writer whose sink fails
				feats["bad=failing-sink"] = true
				w := codec.NewWriter(&limitWriter{room: pr.Intn(len(comp) + 1)})
				writeSplit(w, payload, split)
				w.Close()
			default: // writer closed without a complete logical stream, output discarded
				feats["bad=abandoned-writer"] = true
				w := codec.NewWriter(io.Discard)
				w.Write(payload[:len(payload)/2])
				w.Close()
			}
			// and now a good stream
			payload, _ = genPayload(pr, 100000)
			split, _ = genSplit(pr, len(payload), 20)
			if why := roundTrip(pr, rc, codec, payload, split, genReadSizes(pr, len(payload))); why != "" {
				return "after-bad-stream:" + why
			}
		}
		return ""
	}()
	emit("hist", fmt.Sprintf("%s %x", rc.name, pseed), okOr(why), keys(feats))
}

// one codec value used from several goroutines
func genConc(r *rand.Rand, goroutines, rounds int) {
	rc := refCodecs[r.Intn(len(refCodecs))]
	pseed := r.Int63()
	codec := rc.shared
	var wg sync.WaitGroup
	whys := make([]string, goroutines)
	for g := 0; g < goroutines; g++ {
		wg.Add(1)
		go func(g int) {
			defer wg.Done()
			pr := rand.New(rand.NewSource(pseed + int64(g)))
			for i := 0; i < rounds; i++ {
				payload, _ := genPayload(pr, 80000)
				split, _ := genSplit(pr, len(payload), 20)
				if why := roundTrip(pr, rc, codec, payload, split, genReadSizes(pr, len(payload))); why != "" {
					whys[g] = fmt.Sprintf("goroutine%d-round%d:%s", g, i, why)
					return
				}
				if pr.Intn(4) == 0 {
					runtime.Gosched()
				}
			}
		}(g)
	}
	wg.Wait()
	why := ""
	for _, w := range whys {
		if w != "" {
			why = w
			break
		}
	}
	emit("conc", fmt.Sprintf("%s %x %x %x", rc.name, pseed, goroutines, rounds), okOr(why),
		[]string{"codec=" + rc.name, fmt.Sprintf("goroutines=%d", goroutines)})
}

// many goroutines, many short streams on ONE codec value: the window between a pooled
// object being released and being re-initialised is a few instructions wide, only a tight
// loop of small streams finds another goroutine inside it
// roundTripLight: write through the codec, check with the reference decoder, read back
// through the codec — the shortest loop over NewWriter/Close/NewReader/Close, for the
// tight concurrent run (windows of a few instructions between Put and Reset)
func roundTripLight(r *rand.Rand, rc refCodec, codec compress.Codec, payload []byte) (why string) {
	defer func() {
		if p := recover(); p != nil {
			why = fmt.Sprintf("panic:%v", p)
		}
	}()
	var b bytes.Buffer
	w := codec.NewWriter(&b)
	if err := writeMixed(r, w, payload, []int{len(payload)}); err != nil {
		w.Close()
		return "write:" + err.Error()
	}
	if err := w.Close(); err != nil {
		return "close:" + err.Error()
	}
	d, err := rc.dec(b.Bytes())
	if err != nil {
		return "reference-decoder-rejects:" + err.Error()
	}
	if !bytes.Equal(d, payload) {
		return "reference-decoder-differs"
	}
	rd := codec.NewReader(bytes.NewReader(b.Bytes()))
	d, err = readMixed(r, rd, []int{len(payload) + 16})
	rd.Close()
	if err != nil {
		return "read:" + err.Error()
	}
	if !bytes.Equal(d, payload) {
		return "round-trip-differs"
	}
	return ""
}

func genConcTight(r *rand.Rand, rc refCodec, goroutines, rounds int) {
	pseed := r.Int63()
	codec := rc.shared
	var wg sync.WaitGroup
	whys := make([]string, goroutines)
	for g := 0; g < goroutines; g++ {
		wg.Add(1)
		go func(g int) {
			defer wg.Done()
			pr := rand.New(rand.NewSource(pseed + int64(g)))
			for i := 0; i < rounds; i++ {
				payload := []byte(fmt.Sprintf("goroutine=%02d iteration=%05d;", g, i))
				payload = append(payload, bytes.Repeat([]byte{byte('a' + g%26)}, 16+pr.Intn(1000))...)
				var why string
				switch {
				case i%512 == 0:
					why = roundTrip(pr, rc, codec, payload, []int{len(payload)}, []int{len(payload) + 16})
				case i%16 < 4:
					why = roundTripLight(pr, rc, codec, payload)
				default:
					// burst: the cheapest loop over NewWriter/Close and NewReader/Close; an object
					// shared by mistake shows as an empty or foreign stream / wrong bytes read back
					why = func() (why string) {
						defer func() {
							if p := recover(); p != nil {
								why = fmt.Sprintf("panic:%v", p)
							}
						}()
						var b bytes.Buffer
						w := codec.NewWriter(&b)
						if _, err := w.Write(payload); err != nil {
							w.Close()
							return "write:" + err.Error()
						}
						if err := w.Close(); err != nil {
							return "close:" + err.Error()
						}
						if b.Len() == 0 {
							return "burst:nothing-written"
						}
						rd := codec.NewReader(bytes.NewReader(b.Bytes()))
						d, err := readSizes(rd, []int{len(payload) + 16})
						rd.Close()
						if err != nil {
							return "burst:read:" + err.Error()
						}
						if !bytes.Equal(d, payload) {
							return "burst:round-trip-differs"
						}
						return ""
					}()
				}
				if why != "" {
					whys[g] = fmt.Sprintf("goroutine%d-round%d:%s", g, i, why)
					return
				}
			}
		}(g)
	}
	// a codec object shared by mistake can also deadlock its users: do not wait for ever
	done := make(chan struct{})
	go func() { wg.Wait(); close(done) }()
	select {
	case <-done:
	case <-time.After(60 * time.Second):
		emit("conc", fmt.Sprintf("%s %x %x %x", rc.name, pseed, goroutines, rounds), "FAIL:no-progress-for-60s(deadlock?)",
			[]string{"codec=" + rc.name, fmt.Sprintf("goroutines=%d", goroutines), "tight"})
		return
	}
	why := ""
	for _, w := range whys {
		if w != "" {
			why = w
			break
		}
	}
	emit("conc", fmt.Sprintf("%s %x %x %x", rc.name, pseed, goroutines, rounds), okOr(why),
		[]string{"codec=" + rc.name, fmt.Sprintf("goroutines=%d", goroutines), "tight"})
}

// ----------------------------------------------------------------------------- pool discipline

type poolKind struct {
	name   string
	reader bool
	rc     int // index into refCodecs
	obj    func(interface{}) uintptr
	drain  func(c compress.Codec)
	mk     func() compress.Codec
	bad    func() compress.Codec // a codec value whose NewWriter fails (gzip), or nil
}

func poolKinds() []poolKind {
	var l []poolKind
	for _, rd := range []bool{true, false} {
		side := "writer"
		if rd {
			side = "reader"
		}
		l = append(l,
			poolKind{"snappy-" + side, rd, 1, csnappy.VerifObj, func(compress.Codec) { csnappy.VerifDrainPools() },
				func() compress.Codec { return &csnappy.Codec{} }, nil},
			poolKind{"lz4-" + side, rd, 3, clz4.VerifObj, func(compress.Codec) { clz4.VerifDrainPools() },
				func() compress.Codec { return &clz4.Codec{} }, nil},
			poolKind{"gzip-" + side, rd, 0, cgzip.VerifObj, func(c compress.Codec) { cgzip.VerifDrainPools(c.(*cgzip.Codec)) },
				func() compress.Codec { return &cgzip.Codec{} }, func() compress.Codec { return &cgzip.Codec{Level: 42} }},
			poolKind{"zstd-" + side, rd, 4, czstd.VerifObj, func(c compress.Codec) { czstd.VerifDrainPools(c.(*czstd.Codec)) },
				func() compress.Codec { return &czstd.Codec{} }, nil},
		)
	}
	return l
}

func genPool(r *rand.Rand, pk poolKind) {
	codec := pk.mk()
	pk.drain(codec)
	rc := refCodecs[pk.rc]
	payload := []byte("pool discipline payload: aaaaaaaaaaaaaaaaaaaaaaaaaaaaaaaa bbbbbbbbbbbbbbbbbbbbbbbbbbbbbbbbbbbbbb")
	good, _ := rc.enc(r, payload, []int{len(payload)})
	ids := map[uintptr]int{}
	type wrapper struct {
		rd io.ReadCloser
		wr io.WriteCloser
	}
	var ws []wrapper
	var acts, obs []string
	feats := map[string]bool{"kind=" + pk.name: true}
	n := 2 + r.Intn(12)
	for i := 0; i < n; i++ {
		switch k := r.Intn(10); {
		case k < 4 || len(ws) == 0: // New
			fail := false
			if (pk.name == "gzip-reader" || pk.name == "gzip-writer") && r.Intn(4) == 0 {
				fail = true
				feats["init-fails"] = true
			}
			var w wrapper
			var v interface{}
			if pk.reader {
				src := good
				if fail {
					src = []byte("this is not a gzip header")
				}
				w.rd = codec.NewReader(bytes.NewReader(src))
				v = w.rd
			} else {
				c := codec
				if fail {
					c = pk.bad()
				}
				w.wr = c.NewWriter(io.Discard)
				v = w.wr
			}
			ws = append(ws, w)
			p := pk.obj(v)
			switch {
			case p == 0:
				acts = append(acts, fmt.Sprintf("N%s:-", kvfmt.Bool(fail)))
				obs = append(obs, "NE")
			default:
				idn, seen := ids[p]
				if !seen {
					idn = len(ids)
					ids[p] = idn
					acts = append(acts, fmt.Sprintf("N%s:-", kvfmt.Bool(fail)))
					feats["pool-miss"] = true
				} else {
					acts = append(acts, fmt.Sprintf("N%s:%x", kvfmt.Bool(fail), idn))
					feats["pool-hit"] = true
				}
				obs = append(obs, fmt.Sprintf("N%x", idn))
			}
		case k < 7: // Use
			wi := r.Intn(len(ws))
			w := ws[wi]
			ok := func() (ok bool) {
				defer func() {
					if recover() != nil {
						ok = false
					}
				}()
				if pk.reader {
					buf := make([]byte, 5)
					_, err := w.rd.Read(buf)
					return err == nil || errors.Is(err, io.EOF)
				}
				_, err := w.wr.Write([]byte("abc"))
				return err == nil
			}()
			held := false
			if pk.reader {
				held = pk.obj(w.rd) != 0
			} else {
				held = pk.obj(w.wr) != 0
			}
			if !held {
				feats["use-without-object"] = true
			}
			if ok != held {
				// a wrapper with an object must work, one without must not pretend to
				obs = append(obs, fmt.Sprintf("U?ok=%v,held=%v", ok, held))
			} else {
				obs = append(obs, "U"+kvfmt.Bool(ok))
			}
			acts = append(acts, fmt.Sprintf("U%x", wi))
		default: // Close
			wi := r.Intn(len(ws))
			w := ws[wi]
			var held bool
			if pk.reader {
				held = pk.obj(w.rd) != 0
				w.rd.Close()
				if pk.obj(w.rd) != 0 {
					obs = append(obs, "C?still-held")
					acts = append(acts, fmt.Sprintf("C%x", wi))
					continue
				}
			} else {
				held = pk.obj(w.wr) != 0
				w.wr.Close()
				if pk.obj(w.wr) != 0 {
					obs = append(obs, "C?still-held")
					acts = append(acts, fmt.Sprintf("C%x", wi))
					continue
				}
			}
			if !held {
				feats["close-again"] = true
			}
			acts = append(acts, fmt.Sprintf("C%x", wi))
			obs = append(obs, "C"+kvfmt.Bool(held))
		}
	}
	emit("pool", pk.name+" "+strings.Join(acts, " "), strings.Join(obs, ","), keys(feats))
}

// ----------------------------------------------------------------------------- regression cases for F32-F34 (fixed in /repo: dbad737, 4241137): these mixes must succeed

func genMixRegressions() {
	payload := bytes.Repeat([]byte("hello kafka "), 3000)
	{ // lz4: Write, then io.Copy (ReadFrom promoted from *lz4.Writer)
		var b bytes.Buffer
		w := compress.Lz4Codec.NewWriter(&b)
		why := ""
		if _, err := w.Write(payload[:100]); err != nil {
			why = "write:" + err.Error()
		} else if _, err := io.Copy(w, &scriptReader{data: payload[100:]}); err != nil {
			why = "io.Copy-after-Write:" + err.Error()
		}
		if err := w.Close(); err != nil && why == "" {
			why = "close:" + err.Error()
		}
		if why == "" {
			if d, err := io.ReadAll(plz4.NewReader(bytes.NewReader(b.Bytes()))); err != nil || !bytes.Equal(d, payload) {
				why = "reference-decoder-differs"
			}
		}
		emit("mix", "lz4-readfrom-after-write", okOr(why), []string{"codec=lz4", "Write-then-ReadFrom"})
	}
	{ // lz4: Read, then io.Copy (WriteTo promoted from *lz4.Reader)
		var lb bytes.Buffer
		lw := plz4.NewWriter(&lb)
		lw.Write(payload)
		lw.Close()
		rd := compress.Lz4Codec.NewReader(bytes.NewReader(lb.Bytes()))
		var got bytes.Buffer
		buf := make([]byte, 10)
		n, err := rd.Read(buf)
		got.Write(buf[:n])
		why := ""
		if err != nil {
			why = "read:" + err.Error()
		} else if _, err := io.Copy(&got, rd); err != nil {
			why = "io.Copy-after-Read:" + err.Error()
		} else if !bytes.Equal(got.Bytes(), payload) {
			why = "read-back-differs"
		}
		rd.Close()
		emit("mix", "lz4-writeto-after-read", okOr(why), []string{"codec=lz4", "Read-then-WriteTo"})
	}
	{ // gzip: Read, then io.Copy (WriteTo promoted from *gzip.Reader)
		var gb bytes.Buffer
		gw := stdgzip.NewWriter(&gb)
		gw.Write(payload)
		gw.Close()
		rd := compress.GzipCodec.NewReader(bytes.NewReader(gb.Bytes()))
		var got bytes.Buffer
		buf := make([]byte, 10)
		n, err := rd.Read(buf)
		got.Write(buf[:n])
		why := ""
		if err != nil {
			why = "read:" + err.Error()
		} else if _, err := io.Copy(&got, rd); err != nil {
			why = "io.Copy-after-Read:" + err.Error()
		} else if !bytes.Equal(got.Bytes(), payload) {
			why = "read-back-differs"
		}
		rd.Close()
		emit("mix", "gzip-writeto-after-read", okOr(why), []string{"codec=gzip", "Read-then-WriteTo"})
	}
}

// ----------------------------------------------------------------------------- protocol-level witness of F32

// plainBytes is a protocol.Bytes WITHOUT a WriteTo method: io.Copy(encoder, b) then goes
// through encoder.ReadFrom and io.Copy(compressor, r), i.e. the compressor's ReadFrom after
// earlier Writes on the same stream.
type plainBytes struct{ r *bytes.Reader }

func (p plainBytes) Read(b []byte) (int, error) { return p.r.Read(b) }
func (p plainBytes) Close() error               { return nil }
func (p plainBytes) Len() int                   { return p.r.Len() }

func genProto(r *rand.Rand) {
	attrs := []struct {
		name string
		a    protocol.Attributes
	}{{"gzip", protocol.Gzip}, {"snappy", protocol.Snappy}, {"lz4", protocol.Lz4}, {"zstd", protocol.Zstd}}
	for _, at := range attrs {
		for _, ver := range []int8{1, 2} {
			for _, plain := range []bool{true, false} {
				mk := func(b []byte) protocol.Bytes {
					if plain {
						return plainBytes{bytes.NewReader(b)}
					}
					return protocol.NewBytes(b)
				}
				n := 1 + r.Intn(5)
				var keys, vals [][]byte
				var recs []protocol.Record
				for i := 0; i < n; i++ {
					k := []byte(fmt.Sprintf("key-%d-%d", i, r.Intn(1000)))
					v, _ := genPayload(r, 5000)
					keys, vals = append(keys, k), append(vals, v)
					recs = append(recs, protocol.Record{Time: time.Unix(1700000000, 0), Key: mk(k), Value: mk(v)})
				}
				why := func() (why string) {
					defer func() {
						if p := recover(); p != nil {
							why = fmt.Sprintf("panic:%v", p)
						}
					}()
					rs := protocol.RecordSet{Version: ver, Attributes: at.a, Records: protocol.NewRecordReader(recs...)}
					var b bytes.Buffer
					if _, err := rs.WriteTo(&b); err != nil {
						return "RecordSet.WriteTo:" + err.Error()
					}
					var back protocol.RecordSet
					if _, err := back.ReadFrom(bytes.NewReader(b.Bytes())); err != nil {
						return "RecordSet.ReadFrom:" + err.Error()
					}
					for i := 0; i < n; i++ {
						rec, err := back.Records.ReadRecord()
						if err != nil {
							return fmt.Sprintf("record-%d:%v", i, err)
						}
						k, _ := protocol.ReadAll(rec.Key)
						v, _ := protocol.ReadAll(rec.Value)
						if !bytes.Equal(k, keys[i]) || !bytes.Equal(v, vals[i]) {
							return fmt.Sprintf("record-%d-differs", i)
						}
					}
					if _, err := back.Records.ReadRecord(); !errors.Is(err, io.EOF) {
						return "more-records-than-written"
					}
					return ""
				}()
				f := []string{"codec=" + at.name, fmt.Sprintf("recordset-v%d", ver)}
				if plain {
					f = append(f, "Bytes-without-WriteTo")
				} else {
					f = append(f, "protocol.NewBytes")
				}
				emit("proto", fmt.Sprintf("%s v%d plain=%v n=%d", at.name, ver, plain, n), okOr(why), f)
			}
		}
	}
}

// ----------------------------------------------------------------------------- xerial streams with large and varying frames (Go side only)

// blockOfCompressedSize returns a block whose snappy encoding has (as nearly as a few
// rounds get it) the given length: incompressible bytes, or JSON-like text when compressible.
func blockOfCompressedSize(r *rand.Rand, target int, compressible bool) []byte {
	if compressible {
		return fill(r, target, "json") // compresses to a fraction: a small frame from a large block
	}
	n := target - 8
	if n < 1 {
		n = 1
	}
	var b []byte
	for i := 0; i < 6; i++ {
		b = fill(r, n, "rand")
		c := len(ksnappy.Encode(nil, b))
		if c == target {
			break
		}
		n += target - c
		if n < 1 {
			n = 1
		}
	}
	return b
}

func alignUp(n, a int) int {
	if n%a == 0 {
		return n
	}
	return (n/a + 1) * a
}

// genBigXerial: a reference-encoded xerial stream whose frame sizes walk through the
// reader's buffer growth: relative to the capacity c the reader has reached (32 KiB at
// first, then the largest frame so far rounded up to 32 KiB) the next frame is c, 2c-1, 2c,
// 2c+1, 4c+1, a shrink, or one of the fixed block sizes 64 KiB .. 1 MiB.
func genBigXerial(r *rand.Rand) {
	c := 32768
	total := 0
	var blocks [][]byte
	var desc []string
	feats := map[string]bool{"codec=snappy": true, "src=reference-framed": true}
	for k := 2 + r.Intn(5); k > 0 && total < 3<<20; k-- {
		var target int
		switch r.Intn(9) {
		case 0:
			target = c
		case 1:
			target = 2*c - 1
		case 2:
			target = 2 * c
		case 3:
			target = 2*c + 1
		case 4:
			target = 4*c + 1
		case 5:
			target = 1 + r.Intn(c)
			feats["shrinking-frame"] = true
		default:
			target = []int{1 << 10, 32 << 10, 64 << 10, 100 << 10, 256 << 10, 1 << 20}[r.Intn(6)]
		}
		if target > 1<<20+5 {
			target = 1<<20 + 5
		}
		compressible := r.Intn(5) == 0
		b := blockOfCompressedSize(r, target, compressible)
		blocks = append(blocks, b)
		total += len(b)
		enc := len(ksnappy.Encode(nil, b))
		desc = append(desc, fmt.Sprintf("%x", enc))
		if enc > 65536 {
			feats["frame>64K"] = true
		}
		if enc > 2*c {
			feats["frame>2x-capacity"] = true
		}
		if a := alignUp(enc, 32768); a > c {
			c = a
		}
	}
	var payload []byte
	for _, b := range blocks {
		payload = append(payload, b...)
	}
	src := refXerialEncode(blocks, func(b []byte) []byte { return ksnappy.Encode(nil, b) })
	sizes := [][]int{{4096}, {65536}, {1 << 20}, {1000, 70000}, {len(payload) + 1}}[r.Intn(5)]
	why := func() (why string) {
		defer func() {
			if p := recover(); p != nil {
				why = fmt.Sprintf("PANIC:%v", p)
			}
		}()
		if d, err := refXerialDecode(src); err != nil || !bytes.Equal(d, payload) {
			return "HARNESS:reference-decoder-does-not-read-the-reference-stream"
		}
		codec := compress.Codec(&compress.SnappyCodec)
		if r.Intn(2) == 0 {
			codec = &csnappy.Codec{}
		}
		var under io.Reader = bytes.NewReader(src)
		if r.Intn(2) == 0 {
			under = &chopReader{data: src, sizes: []int{1 + r.Intn(100000)}}
		}
		rd := codec.NewReader(under)
		defer rd.Close()
		d, err := readMixed(r, rd, sizes)
		if err != nil {
			return "read:" + err.Error()
		}
		if !bytes.Equal(d, payload) {
			return "read-back-differs"
		}
		return ""
	}()
	emit("bigx", strings.Join(desc, ","), okOr(why), keys(feats))
}

// ----------------------------------------------------------------------------- the strict snappy block decoder vs its Coq counterpart

func genSB(r *rand.Rand) {
	payload, feats := genPayload(r, 3000)
	type encoder struct {
		name string
		f    func(dst, src []byte) []byte
	}
	encs := []encoder{
		{"snappy.Encode", ksnappy.Encode}, {"s2.EncodeSnappy", s2.EncodeSnappy},
		{"s2.EncodeSnappyBetter", s2.EncodeSnappyBetter}, {"s2.EncodeSnappyBest", s2.EncodeSnappyBest},
		{"s2.Encode", s2.Encode}, {"s2.EncodeBetter", s2.EncodeBetter}, {"s2.EncodeBest", s2.EncodeBest},
	}
	e := encs[r.Intn(len(encs))]
	chunk := e.f(nil, payload)
	feats = append(feats, "enc="+e.name)
	switch r.Intn(6) {
	case 0:
		chunk = append([]byte(nil), chunk...)
		chunk[r.Intn(len(chunk))] ^= byte(1 + r.Intn(255))
		feats = append(feats, "chunk-corrupt")
	case 1:
		chunk = chunk[:r.Intn(len(chunk))]
		feats = append(feats, "chunk-cut")
	}
	res := "!"
	d, err := strictSnappyDecode(chunk)
	if err == nil {
		res = hx(d)
		feats = append(feats, "accepted")
	} else {
		feats = append(feats, "rejected")
		if strings.Contains(err.Error(), "offset 0") {
			feats = append(feats, "rejected-S2-repeat")
		}
	}
	emit("sb", hx(chunk), res, feats)
}

// ----------------------------------------------------------------------------- main

func main() {
	seed := flag.Int64("seed", 1, "PRNG seed")
	nx := flag.Int("nx", 300, "xerial-layer cases (each of xw, xr); one in eight uses large payloads")
	nrt := flag.Int("nrt", 300, "public-API round-trip cases")
	nhist := flag.Int("nhist", 60, "pooled-history cases")
	nconc := flag.Int("nconc", 10, "concurrent cases")
	ntight := flag.Int("ntight", 13000, "rounds per goroutine of the tight concurrent run (per codec)")
	npool := flag.Int("npool", 30, "pool-discipline cases per codec side")
	nsb := flag.Int("nsb", 200, "strict snappy block decoder cases")
	nbig := flag.Int("nbig", 8, "xerial streams with frames up to 1 MiB (Go side only)")
	flag.Parse()
	out = bufio.NewWriterSize(os.Stdout, 1<<20)
	defer out.Flush()
	r := rand.New(rand.NewSource(*seed))

	// 1. xerial layer and 3. pool identity: one P and no collection, so that
	// sync.Pool hands back exactly what was put and addresses are not reused
	prevProcs := runtime.GOMAXPROCS(1)
	prevGC := debug.SetGCPercent(-1)
	for i := 0; i < *nx; i++ {
		if i < 8 {
			// a block of 10626 bytes starts with the bytes 82 53 like the xerial magic; 130 with 82
			forcedLen = []int{10626, 130}[i%2]
		}
		if i == 8 {
			forcedBigHistory = true
		}
		genXW(r, i%8 == 7 || i < 8)
		if i < 8 {
			forcedLen = []int{10626, 130}[i%2]
		}
		if i >= 8 && i < 12 {
			// frames beyond 64 KiB compressed, growing and shrinking
			forcedBigBlocks = [][]int{{66000}, {100000, 300, 70000}, {40000, 33000, 80000, 1000}, {65530, 65540, 131100}}[i-8]
		}
		genXR(r, i%8 == 7 || i < 8 || forcedBigBlocks != nil)
		if i%16 == 15 {
			debug.SetGCPercent(prevGC)
			runtime.GC()
			debug.SetGCPercent(-1)
		}
	}
	csnappy.VerifDrainPools()
	for _, pk := range poolKinds() {
		for i := 0; i < *npool; i++ {
			genPool(r, pk)
		}
	}
	debug.SetGCPercent(prevGC)
	runtime.GOMAXPROCS(prevProcs)

	for i := 0; i < *nsb; i++ {
		genSB(r)
	}

	// 2. all codecs through the public API
	for i := 0; i < *nbig; i++ {
		genBigXerial(r)
	}
	genMixRegressions()
	genProto(r)
	for i := 0; i < *nrt; i++ {
		genRT(r)
	}
	for i := 0; i < *nhist; i++ {
		genHist(r)
	}
	for i := 0; i < *nconc; i++ {
		genConc(r, 2+r.Intn(14), 4+r.Intn(8))
	}
	for _, rc := range refCodecs[:5] {
		genConcTight(r, rc, 64, *ntight)
	}
}
