// hold.go: a client-side connection wrapper that HOLDS BACK one request (the first
// OffsetCommit) for a while and lets the later requests of the same connection pass.
//
// groupfake serves a connection strictly one request at a time, so a Fault{Delay} on the
// OffsetCommit would also delay the heartbeat that the Reader pipelines behind it on the same
// coordinator connection.  Holding the request frame on its way to the fake instead gives the
// situation wanted: the OffsetCommit is in flight (its answer is late) while the next heartbeat
// is answered at once.  The request counts as "arrived" (qoc) when the wrapper has taken it,
// and as "answered" (aoc) when the fake has processed it (its "ocommit" history event, which
// directly precedes the write of the response) or when it could not be delivered any more
// because the client had closed the connection.
package main

import (
	"context"
	"encoding/binary"
	"net"
	"sync"
	"time"
)

const apiKeyOffsetCommit = 8

type holder struct {
	tl    *tline
	delay time.Duration

	mu      sync.Mutex
	taken   bool
	forward bool // the held request is on its way to the fake: its arrival there is not journalled again
	done    bool // aoc has happened (or cannot happen any more)
	heldCh  chan struct{}
	doneCh  chan struct{}
}

func newHolder(tl *tline, delay time.Duration) *holder {
	return &holder{tl: tl, delay: delay, heldCh: make(chan struct{}), doneCh: make(chan struct{})}
}

func (h *holder) held() bool {
	h.mu.Lock()
	defer h.mu.Unlock()
	return h.taken
}

// forwarded tells the FaultFunc that this arrival of an OffsetCommit is the held one.
func (h *holder) forwarded() bool {
	h.mu.Lock()
	defer h.mu.Unlock()
	if h.forward {
		h.forward = false
		return true
	}
	return false
}

func (h *holder) finish() {
	h.mu.Lock()
	if !h.done {
		h.done = true
		close(h.doneCh)
	}
	h.mu.Unlock()
}

func (h *holder) wrap(d dialFunc) dialFunc {
	return func(ctx context.Context, network, address string) (net.Conn, error) {
		c, err := d(ctx, network, address)
		if err != nil {
			return nil, err
		}
		return &holdConn{Conn: c, h: h}, nil
	}
}

type holdConn struct {
	net.Conn
	h   *holder
	wmu sync.Mutex // one frame at a time towards the fake
	bmu sync.Mutex
	buf []byte
}

// memberOfOffsetCommit parses the member id of an OffsetCommit v2 request frame.
func memberOfOffsetCommit(frame []byte) string {
	defer func() { recover() }()
	p := 4 + 2 + 2 + 4
	str := func() string {
		n := int(int16(binary.BigEndian.Uint16(frame[p:])))
		p += 2
		if n < 0 {
			return ""
		}
		s := string(frame[p : p+n])
		p += n
		return s
	}
	str()  // client id
	str()  // group id
	p += 4 // generation
	return str()
}

func (c *holdConn) Write(p []byte) (int, error) {
	c.bmu.Lock()
	defer c.bmu.Unlock()
	c.buf = append(c.buf, p...)
	for len(c.buf) >= 4 {
		n := int(binary.BigEndian.Uint32(c.buf))
		if n < 8 || len(c.buf) < 4+n {
			break
		}
		frame := append([]byte(nil), c.buf[:4+n]...)
		c.buf = c.buf[4+n:]
		if int16(binary.BigEndian.Uint16(frame[4:])) == apiKeyOffsetCommit && c.take(frame) {
			continue
		}
		c.wmu.Lock()
		_, err := c.Conn.Write(frame)
		c.wmu.Unlock()
		if err != nil {
			return 0, err
		}
	}
	return len(p), nil
}

// take holds the first OffsetCommit back.
func (c *holdConn) take(frame []byte) bool {
	h := c.h
	h.mu.Lock()
	if h.taken {
		h.mu.Unlock()
		return false
	}
	h.taken = true
	h.mu.Unlock()
	h.tl.req("ocommit", memberOfOffsetCommit(frame)) // qoc: arrived
	close(h.heldCh)
	go func() {
		time.Sleep(h.delay)
		h.mu.Lock()
		h.forward = true
		h.mu.Unlock()
		c.wmu.Lock()
		_, err := c.Conn.Write(frame)
		c.wmu.Unlock()
		if err != nil {
			// the client has closed the connection under its own request: no answer any more
			h.mu.Lock()
			h.forward = false
			h.mu.Unlock()
			vlogf("hold: the held OffsetCommit cannot be delivered: %v", err)
			h.tl.rec("aoc")
			h.finish()
		}
	}()
	return true
}
