// gse.go: op `gse` ("generation self-end", ConsumerGroup API, deterministic): a generation
// ends ON ITS OWN (its heartbeat fails) while a function started with Generation.Start needs
// `wind` ms to wind down after its context has ended; ConsumerGroup.Close is called during the
// wind-down.  Generation.close must wait for the function before the group re-joins, and Close
// must not return before the function has.  Judged by the ORDER of events in one timeline:
//
//	F  the function's context ended     R  the function returned
//	qjo / qoc / …  requests that arrived at the fake     C1 / D1  cg.Close begins / returned
//
// args = <hbfault> <wind> (hex): hbfault 1b (27) or 19 (25) = the code the first heartbeat after
// the generation was handed out is answered with (Fault{Code}: no state change in the fake),
// 0 = the fake drops the connection instead of answering.
package main

import (
	"context"
	"fmt"
	"math/rand"
	"strconv"
	"strings"
	"sync"
	"time"

	kafka "github.com/segmentio/kafka-go"
	"kverif/groupfake"
)

func gseParams(sc scen) (rng *rand.Rand, hbfault, wind int) {
	rng = rand.New(rand.NewSource(sc.seed))
	c, err := strconv.ParseInt(sc.variant, 16, 16)
	if err != nil {
		c = 0x1b
	}
	return rng, int(c), rr(rng, 0x96, 0x2bc)
}

func gseArgs(sc scen) string {
	_, hb, wind := gseParams(sc)
	return fmt.Sprintf("%x %x", hb, wind)
}

// hbFaultSeen: the fake has answered (with an error code) or dropped a heartbeat of the client.
func hbFaultSeen(b *groupfake.Broker) bool {
	for _, e := range b.History() {
		if e.Kind == "hb" && e.Client == clientU && (e.Code != 0 || e.Drop != 0) {
			return true
		}
	}
	return false
}

func runGse(sc scen) result {
	rng, hbfault, wind := gseParams(sc)
	args := gseArgs(sc)
	ft := newFeats()
	ft.add("gse")
	if hbfault == 0 {
		ft.add("hb=drop")
	} else {
		ft.add("hb=" + hx(hbfault))
	}
	ft.add("wind=" + hx(wind))
	vlogf("scenario %d: gse %s", sc.id, args)

	b := groupfake.New(groupfake.Config{
		Topics: map[string]int{topicT: 1}, // (session eviction off)
		Logf: func() func(string, ...interface{}) {
			if verbose {
				return vlogf
			}
			return nil
		}(),
	})
	b.Append(topicT, 0, 3)
	tl := &tline{gf: b}
	e := newEnv(sc, tl)
	e.ft = ft

	var mu sync.Mutex
	armed, faulted := false, false
	b.SetFault(func(api, client, member string) groupfake.Fault {
		if client != clientU {
			return groupfake.Fault{}
		}
		tl.req(api, member)
		mu.Lock()
		defer mu.Unlock()
		if api == "heartbeat" && armed && !faulted {
			faulted = true
			if hbfault == 0 {
				return groupfake.Fault{Drop: 1}
			}
			return groupfake.Fault{Code: int16(hbfault)}
		}
		return groupfake.Fault{}
	})

	hb := ms(rr(rng, 10, 25))
	e.baseline()
	cfg := kafka.ConsumerGroupConfig{
		ID:                "g",
		Brokers:           []string{b.Addr()},
		Dialer:            &kafka.Dialer{ClientID: clientU, DialFunc: e.cc.wrap(b.DialFor(clientU)), Timeout: ms(300)},
		Topics:            []string{topicT},
		HeartbeatInterval: hb,
		SessionTimeout:    ms(400),
		RebalanceTimeout:  ms(300),
		// a re-join after a join error cannot sneak in
		JoinGroupBackoff: ms(400),
	}
	if verbose {
		cfg.Logger = klogger{"kafka[u]: "}
	}
	cg, err := kafka.NewConsumerGroup(cfg)
	if err != nil {
		b.Close()
		return result{args, "PANIC:" + sanitize(err.Error(), 100), ft.String()}
	}

	var gen *kafka.Generation
	ctx, cancel := context.WithCancel(context.Background())
	defer cancel()
	if !runWatched(e.wd, func() { gen, err = cg.Next(ctx) }) || err != nil || gen == nil {
		vlogf("gse: no generation: %v", err)
		go cg.Close()
		b.Close()
		return result{args, "HANG:setup", ft.String()}
	}
	var cmu sync.Mutex
	commit := "none"
	gen.Start(func(ctx context.Context) {
		<-ctx.Done()
		tl.rec("F")
		time.Sleep(ms(wind))
		cerr := gen.CommitOffsets(map[string]map[int]int64{topicT: {0: 1}})
		cmu.Lock()
		if cerr == nil {
			commit = "nil"
		} else {
			commit = "err"
			ft.setOnce("commit-error", sanitize(cerr.Error(), 60))
		}
		cmu.Unlock()
		vlogf("gse: fn commit: %v", cerr)
		tl.rec("R")
	})
	mu.Lock()
	armed = true
	mu.Unlock()

	if !waitCond(e.wd, func() bool { return hbFaultSeen(b) }) {
		ft.add("trigger-timeout")
	}
	time.Sleep(ms(rr(rng, 20, 50))) // inside the wind-down
	e.doClose(1, func() { cg.Close() })

	// the function of the old generation may still run (that is the defect looked for): let it
	// finish before the timeline ends; then the census and the quiet period
	quiet := ms(wind) + 3*hb + ms(120)
	toks, res := e.finish(quiet, 1500*time.Millisecond, b.Close)
	vlogf("gse timeline: %s", strings.Join(toks, ","))
	if strings.Contains(res, "HANG") {
		return result{args, res, ft.String()}
	}

	pos := func(tok string) int {
		for i, t := range toks {
			if t == tok {
				return i
			}
		}
		return -1
	}
	r, d := pos("R"), pos("D1")
	fnretBeforeClose := 0
	if r >= 0 && d >= 0 && r < d {
		fnretBeforeClose = 1
	}
	joinBeforeFnret := 0
	njoin := 0
	for i, t := range toks {
		if strings.HasPrefix(t, "qjo:") {
			njoin++
			if njoin > 1 && (r < 0 || i < r) {
				joinBeforeFnret = 1
			}
		}
	}
	census := res
	if d >= 0 {
		for _, t := range toks[d+1:] {
			if len(t) >= 3 && strings.Contains("qhb qoc qfe qjo qsy", t[:3]) {
				census += "+REQ-AFTER-CLOSE:" + t[:3]
				break
			}
		}
	}
	cmu.Lock()
	defer cmu.Unlock()
	return result{args, fmt.Sprintf("fnret_before_close=%d,join_before_fnret=%d,commit=%s,census=%s", fnretBeforeClose, joinBeforeFnret, commit, census), ft.String()}
}
