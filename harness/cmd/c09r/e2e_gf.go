// e2e_gf.go: e2e scenarios of a Reader (mode p: Partition set, mode g: GroupID set)
// against harness/groupfake.
package main

import (
	"fmt"
	"math/rand"
	"strconv"
	"strings"
	"sync"
	"sync/atomic"
	"time"

	kafka "github.com/segmentio/kafka-go"
	"kverif/groupfake"
)

const (
	topicT  = "t"
	silence = time.Hour // a Fault.Delay that means "never answered"
)

// gfState is what the FaultFunc and the triggers share.
type gfState struct {
	mu         sync.Mutex
	rng        *rand.Rand
	count      map[string]int
	fault      func(api string, n int) groupfake.Fault // called with mu held
	leaveFault bool
	killed     bool

	watchAPI string // the api whose first request closes watchCh
	watchCh  chan struct{}
	wOnce    sync.Once

	hb        int32
	commitReq chan struct{}
	cOnce     sync.Once
	fetchReq  chan struct{}
	fOnce     sync.Once
}

func sawJoin(b *groupfake.Broker) bool {
	for _, e := range b.History() {
		if e.Kind == "join" && e.Client == clientU && e.Code == 0 && e.Drop == 0 {
			return true
		}
	}
	return false
}

// aocSeen: the answer of an OffsetCommit of the client has been produced by the fake, or the
// held request was found undeliverable (token aoc recorded by the holder).
func aocSeen(b *groupfake.Broker) bool {
	for _, e := range b.History() {
		if (e.Kind == "ocommit" && e.Client == clientU) || (e.Kind == "tl" && e.Note == "aoc") {
			return true
		}
	}
	return false
}

// selfEndVerdict makes the order checks of kind gen-self-end on the full timeline and returns
// the timeline to print (without the a… tokens) and the OVERLAP verdicts.
func selfEndVerdict(all []string, ft *feats) (toks, over []string) {
	iq, ia, id := -1, -1, -1
	for i, t := range all {
		switch {
		case iq < 0 && strings.HasPrefix(t, "qoc:"):
			iq = i
		case iq >= 0 && ia < 0 && t == "aoc":
			ia = i
		case id < 0 && t[0] == 'D':
			id = i
		}
		if t[0] != 'a' {
			toks = append(toks, t)
		}
	}
	if iq < 0 {
		ft.add("no-commit") // the OffsetCommit never came: nothing to check
		return toks, nil
	}
	end := ia
	if end < 0 {
		end = len(all)
	}
	for _, t := range all[iq+1 : end] {
		if strings.HasPrefix(t, "qjo:") || strings.HasPrefix(t, "qlv:") {
			over = append(over, "OVERLAP:join-before-commit-answered")
			break
		}
	}
	if id >= 0 && (ia < 0 || id < ia) {
		over = append(over, "OVERLAP:close-before-commit-answered")
	}
	return toks, over
}

func stableU(b *groupfake.Broker) bool {
	return b.State() == groupfake.StateStable && b.MemberOf(clientU) != ""
}

// waitOr waits for cond at most d.
func waitOr(d time.Duration, cond func() bool) bool { return waitCond(d, cond) }

func waitCh(d time.Duration, ch <-chan struct{}) bool {
	t := time.NewTimer(d)
	defer t.Stop()
	select {
	case <-ch:
		return true
	case <-t.C:
		return false
	}
}

// pKinds / gKinds: the kinds drawn for the ordinary e2e scenarios (with weights).
var pKindsGF = []string{"idle", "blocked-fetch", "blocked-fetch", "racing", "racing", "racing", "ctx", "ctx", "full-queue", "slow", "lag", "lag", "setoffset", "setoffset"}
var pKindsFF = []string{"silent", "silent", "refuse", "refuse"}
var gKinds = []string{"idle", "stable", "stable", "rebalance", "rebalance", "rebalance", "racing-read", "racing-read", "racing-read",
	"commit-slow", "commit-slow", "ctx-commit", "ctx-commit", "ctx-fetch", "coord-error", "coord-error", "coord-slow", "coord-slow",
	"refuse", "refuse", "interval", "interval", "full-queue"}

func runGF(sc scen) result {
	rng := rand.New(rand.NewSource(sc.seed))
	isG := sc.mode == "g"
	kind := sc.kind

	// ---- configuration
	hb := ms(rr(rng, 10, 30))
	sess := ms(rr(rng, 150, 400))
	reb := ms(rr(rng, 150, 400))
	jb := ms(rr(rng, 10, 50))
	maxWait := ms(rr(rng, 20, 100))
	rbMin := ms(rr(rng, 5, 12))
	rbMax := rbMin + ms(rr(rng, 0, 8))
	batchTO := ms(200)
	dialTO := ms(rr(rng, 100, 300))
	lag := time.Duration(-1)
	if !isG && (kind == "lag" || rng.Intn(4) == 0) {
		lag = ms(rr(rng, 20, 60))
	}
	qcap := rr(rng, 1, 8)
	if rng.Intn(8) == 0 {
		qcap = 100
	}
	commitmode := commitModeOf(sc)
	ci := time.Duration(0)
	if commitmode == "a" {
		ci = ms(rr(rng, 5, 30))
	}
	nparts := 1
	watch := false
	watchIv := ms(rr(rng, 20, 60))
	if isG {
		nparts = rr(rng, 1, 3)
		watch = rng.Intn(4) == 0
	}
	if kind == "gen-self-end" {
		nparts, watch = 1, false
	}
	nrec0 := rng.Intn(21)
	appendDuring := rng.Intn(2) == 0

	ft := newFeats()
	b := groupfake.New(groupfake.Config{
		Topics:         map[string]int{topicT: nparts},
		SessionTimeout: rng.Intn(2) == 0 && kind != "gen-self-end",
		Logf: func() func(string, ...interface{}) {
			if verbose {
				return vlogf
			}
			return nil
		}(),
	})
	tl := &tline{gf: b}
	e := newEnv(sc, tl)
	e.ft = ft
	ft.add("kind=" + kind)
	ft.add("fake=groupfake")
	if watch {
		ft.add("watch")
	}

	st := &gfState{rng: rand.New(rand.NewSource(rng.Int63())), count: map[string]int{}, commitReq: make(chan struct{}), fetchReq: make(chan struct{})}
	st.fault = func(string, int) groupfake.Fault { return groupfake.Fault{} }

	// ---- program defaults
	p := &prog{
		callers:  rr(rng, 1, 4),
		ncalls:   rr(rng, 3, 10),
		kinds:    "fffr",
		thinkMax: 5,
		afterEOF: 1,
		newKinds: "fr",
	}
	if isG {
		p.kinds = "ffrrmm"
		p.newKinds = "frm"
	}
	if rng.Intn(10) < 4 {
		p.close2 = []string{"seq", "conc"}[rng.Intn(2)]
	}
	if rng.Intn(10) < 7 {
		p.newcalls = rr(rng, 2, 4)
	}
	// m (and, with synchronous commits, r) calls whose context never ends can block for ever
	// once the commit loop is gone; they are only allowed in a few scenarios (tag commit-never).
	mNever := isG && commitmode == "s" && rng.Intn(8) == 0
	wNever, wAfter, wBefore := 3, 3, 1
	cancelLo, cancelHi := 0, 60
	mCancelLo, mCancelHi := 20, 120
	p.policy = func(r *rand.Rand, k byte) (int, time.Duration) {
		commits := isG && commitmode == "s" && (k == 'm' || k == 'r')
		x := r.Intn(wNever + wAfter + wBefore)
		switch {
		case x < wNever:
			if commits && !mNever {
				return polAfter, ms(rr(r, 60, 300))
			}
			if commits {
				ft.add("commit-never")
			}
			return polNever, 0
		case x < wNever+wAfter:
			if k == 'm' {
				return polAfter, ms(rr(r, mCancelLo, mCancelHi))
			}
			return polAfter, ms(rr(r, cancelLo, cancelHi))
		}
		return polBefore, 0
	}

	closeDelay := ms(rr(rng, 0, 80))
	trig := "delay"
	var callersDone chan struct{} // for trig "late"
	var auxRd *kafka.Reader
	var auxMu sync.Mutex
	killAt := time.Duration(-1)
	reviveAfter := time.Duration(-1)
	setOffsets := 0
	rebalAct := ""
	var hold *holder // kind gen-self-end: the first OffsetCommit is held back
	selfEndCode := 0

	coordAPIs := map[string]bool{"findcoordinator": true, "join": true, "sync": true, "heartbeat": true, "leave": true, "ofetch": true, "ocommit": true}

	// ---- kinds
	switch kind {
	case "idle":
		p.callers = 0
		closeDelay = ms(rr(rng, 0, 30))
		if isG {
			closeDelay = ms(rr(rng, 0, 10))
			if rng.Intn(3) != 0 {
				// the in-memory join takes about a millisecond: slow it down so that Close
				// lands before it has completed
				ft.add("broker=slow")
				st.fault = func(a string, n int) groupfake.Fault {
					if a == "findcoordinator" || a == "join" || a == "sync" {
						return groupfake.Fault{Delay: ms(rr(st.rng, 3, 20))}
					}
					return groupfake.Fault{}
				}
			}
		}
	case "blocked-fetch":
		nrec0, appendDuring = 0, false
		p.callers = rr(rng, 1, 3)
		p.kinds = "ffr"
		wNever, wAfter, wBefore = 1, 0, 0
		closeDelay = ms(rr(rng, 20, 80))
	case "racing":
		nrec0 = rr(rng, 5, 20)
		appendDuring = true
		p.callers = rr(rng, 2, 4)
		if rng.Intn(2) == 0 {
			trig = "msg"
			closeDelay = ms(rr(rng, 0, 20))
		}
	case "ctx", "ctx-fetch":
		nrec0, appendDuring = 0, false
		p.callers = rr(rng, 1, 2)
		p.ncalls = rr(rng, 2, 4)
		p.kinds = "f"
		if kind == "ctx-fetch" {
			p.kinds = "ffr"
		}
		wNever, wAfter, wBefore = 0, 4, 1
		cancelLo, cancelHi = 10, 60
		trig = "late"
	case "full-queue":
		qcap = 1
		nrec0 = rr(rng, 10, 20)
		if isG {
			p.callers = 0
			trig = "stable"
			closeDelay = ms(rr(rng, 50, 100))
		} else {
			p.callers, p.ncalls = 1, 1
			p.kinds = "f"
			wNever, wAfter, wBefore = 1, 0, 0
			trig = "msg"
			closeDelay = ms(rr(rng, 30, 80))
		}
	case "slow":
		d1, d2 := 5, 40
		st.fault = func(string, int) groupfake.Fault { return groupfake.Fault{Delay: ms(rr(st.rng, d1, d2))} }
		ft.add("broker=slow")
		nrec0 = rr(rng, 3, 20)
	case "lag":
		if rng.Intn(2) == 0 {
			nrec0, appendDuring = 0, false
			wNever, wAfter, wBefore = 2, 1, 0
		}
		closeDelay = ms(rr(rng, 30, 120))
	case "setoffset":
		nrec0 = rr(rng, 5, 20)
		setOffsets = rr(rng, 2, 6)
		closeDelay = ms(rr(rng, 10, 80))
	case "silent":
		// groupfake variant: one API of the partition reader is never answered
		api := []string{"fetch", "fetch", "metadata"}[rng.Intn(3)]
		if sc.variant == "lo" { // the one scenario with the hard-coded 10 s readOffsets deadline
			api = "listoffsets"
		}
		after := 0
		if api == "fetch" {
			after = rng.Intn(4)
		}
		// how: never answered | answered later than the reader waits | connection dropped
		how := 0
		if api == "fetch" {
			how = rng.Intn(3)
		}
		if how == 2 {
			ft.add("broker=drop")
		} else {
			ft.add("broker=silent")
		}
		ft.add("silent-api=" + apiShort[api])
		lateBy := 2*maxWait + ms(rr(rng, 10, 100))
		st.fault = func(a string, n int) groupfake.Fault {
			if a == api && n > after {
				switch how {
				case 1:
					return groupfake.Fault{Delay: lateBy}
				case 2:
					return groupfake.Fault{Drop: 1 + st.rng.Intn(2)}
				}
				return groupfake.Fault{Delay: silence}
			}
			return groupfake.Fault{}
		}
		p.callers = rr(rng, 1, 2)
		p.kinds = "f"
		closeDelay = ms(rr(rng, 40, 150))
		if api == "metadata" {
			ft.add("silent-step-family") // the leader lookup's Metadata request is never answered
		}
		if api == "listoffsets" {
			e.wd = 25 * time.Second
			wNever, wAfter, wBefore = 1, 2, 0
			ft.add("silent-step-family") // the leader connection falls silent at ListOffsets
		}
	case "silent-metadata":
		// silent-step family on groupfake: the Metadata request of the leader lookup
		// (Dialer.LookupPartition, a connection without deadline) is never answered; one caller
		// blocked in FetchMessage; Close 10-30 ms after that request arrived
		ft.add("silent-step-family")
		ft.add("broker=silent")
		ft.add("silent-api=md")
		st.watchAPI, st.watchCh = "metadata", make(chan struct{})
		st.fault = func(a string, n int) groupfake.Fault {
			if a == "metadata" {
				return groupfake.Fault{Delay: silence}
			}
			return groupfake.Fault{}
		}
		p.callers, p.ncalls = 1, 1
		p.kinds = "f"
		wNever, wAfter, wBefore = 1, 0, 0
		trig = "req"
		closeDelay = ms(rr(rng, 10, 30))
	case "stable":
		p.callers = rng.Intn(2)
		trig = "hb2"
		closeDelay = ms(rr(rng, 0, 20))
	case "rebalance":
		p.callers = rng.Intn(3)
		trig = "rebalance"
		rebalAct = []string{"aux-join", "aux-join", "aux-leave", "force", "evict"}[rng.Intn(5)]
		ft.add("rebal=" + rebalAct)
		closeDelay = ms(rr(rng, 0, 30))
	case "racing-read":
		nrec0 = rr(rng, 10, 20)
		appendDuring = true
		p.callers = rr(rng, 2, 4)
		p.kinds = "rrrfmm"
		trig = []string{"delay", "msg", "commitreq", "stable"}[rng.Intn(4)]
		closeDelay = ms(rr(rng, 0, 80))
		if trig == "delay" {
			closeDelay = ms(rr(rng, 30, 150))
		}
	case "interval":
		nrec0 = rr(rng, 10, 20)
		appendDuring = true
		p.callers = rr(rng, 1, 4)
		p.kinds = "rrfmm"
		trig = []string{"delay", "msg", "commitreq"}[rng.Intn(3)]
		closeDelay = ms(rr(rng, 0, 100))
	case "commit-slow":
		nrec0 = rr(rng, 10, 20)
		p.callers = rr(rng, 1, 3)
		p.kinds = "fmmm"
		mCancelLo, mCancelHi = 150, 400
		wNever, wAfter, wBefore = 0, 1, 0
		dropping := rng.Intn(10) < 3
		if dropping {
			ft.add("broker=drop")
		} else {
			ft.add("broker=slow")
		}
		st.fault = func(a string, n int) groupfake.Fault {
			if a != "ocommit" {
				return groupfake.Fault{}
			}
			if dropping && st.rng.Intn(2) == 0 {
				return groupfake.Fault{Drop: 1 + st.rng.Intn(2)}
			}
			return groupfake.Fault{Delay: ms(rr(st.rng, 30, 100))}
		}
		trig = "commitreq"
		closeDelay = ms(rr(rng, 0, 30))
	case "ctx-commit":
		nrec0 = rr(rng, 10, 20)
		p.callers = rr(rng, 1, 2)
		p.kinds = "fmm"
		mCancelLo, mCancelHi = 10, 40
		cancelLo, cancelHi = 100, 200
		wNever, wAfter, wBefore = 0, 6, 1
		ft.add("broker=slow")
		st.fault = func(a string, n int) groupfake.Fault {
			if a == "ocommit" {
				return groupfake.Fault{Delay: ms(rr(st.rng, 100, 200))}
			}
			return groupfake.Fault{}
		}
		trig = "late"
	case "coord-error":
		ft.add("broker=error")
		nerr := rr(rng, 1, 3)
		codes := []int16{27, 15, 16, 25}
		st.fault = func(a string, n int) groupfake.Fault {
			switch a {
			case "join", "sync":
				if st.count["join"]+st.count["sync"] <= nerr+1 && st.rng.Intn(3) != 0 {
					return groupfake.Fault{Code: codes[st.rng.Intn(len(codes))]}
				}
			case "heartbeat":
				if n <= 6 && st.rng.Intn(3) == 0 {
					return groupfake.Fault{Code: 27}
				}
			}
			return groupfake.Fault{}
		}
		p.callers = rr(rng, 0, 2)
		trig = []string{"delay", "join"}[rng.Intn(2)]
		closeDelay = ms(rr(rng, 0, 60))
		if trig == "delay" {
			closeDelay = ms(rr(rng, 50, 300))
		}
	case "coord-slow":
		ft.add("broker=slow")
		st.fault = func(a string, n int) groupfake.Fault {
			if coordAPIs[a] {
				return groupfake.Fault{Delay: ms(rr(st.rng, 20, 80))}
			}
			return groupfake.Fault{}
		}
		p.callers = rr(rng, 0, 2)
		trig = []string{"delay", "join", "hb2"}[rng.Intn(3)]
		closeDelay = ms(rr(rng, 0, 40))
		if trig == "delay" {
			closeDelay = ms(rr(rng, 0, 300))
		}
	case "coord-silent":
		ft.add("broker=silent")
		api := []string{"findcoordinator", "join", "heartbeat", "leave", "ocommit"}[rng.Intn(5)]
		ft.add("silent-api=" + apiShort[api])
		st.fault = func(a string, n int) groupfake.Fault {
			if a == api {
				if a == "findcoordinator" || a == "leave" {
					st.leaveFault = true
				}
				return groupfake.Fault{Delay: silence}
			}
			return groupfake.Fault{}
		}
		e.wd = 25 * time.Second
		if api == "findcoordinator" || api == "join" {
			ft.add("silent-step-family") // the coordinator connection falls silent during set-up
		}
		mNever = false // (a call that never returns would cost the long watchdog)
		p.callers = rr(rng, 0, 2)
		nrec0 = rr(rng, 3, 10)
		switch api {
		case "heartbeat", "leave":
			trig = "stable"
			closeDelay = hb + ms(rr(rng, 0, 30))
		case "ocommit":
			p.callers = rr(rng, 1, 2)
			p.kinds = "fmm"
			trig = "commitreq"
			closeDelay = ms(rr(rng, 0, 30))
		default:
			closeDelay = ms(rr(rng, 20, 100))
		}
	case "refuse":
		ft.add("broker=refuse")
		if rng.Intn(2) == 0 {
			killAt = 0
			if rng.Intn(2) == 0 {
				reviveAfter = ms(rr(rng, 30, 120))
			}
			closeDelay = ms(rr(rng, 30, 250))
		} else {
			trig = "stable"
			killAt = ms(rr(rng, 0, 40)) // after stable
			closeDelay = killAt + ms(rr(rng, 20, 200))
		}
		p.callers = rr(rng, 0, 2)
	case "gen-self-end":
		// the generation ends ON ITS OWN (a heartbeat is answered with an error) while the commit
		// loop, a function started with Generation.Start, is still blocked in an OffsetCommit
		// round trip whose answer is 200-500 ms late; Close comes 20-60 ms after the heartbeat.
		// Generation.close has to wait for the commit loop: the re-join, the LeaveGroup and the
		// return of Close all come after the answer of the OffsetCommit.
		ft.add("gen-self-end-family")
		ft.add("broker=slow")
		c, err := strconv.ParseInt(sc.variant, 16, 16)
		if err != nil {
			c = 0x1b
		}
		selfEndCode = int(c)
		ft.add("hb=" + hx(selfEndCode))
		hold = newHolder(tl, ms(rr(rng, 200, 500)))
		tl.aoc = true
		appendDuring = false
		nrec0 = rr(rng, 3, 8)
		p.callers = 0
		hbDone := false
		st.fault = func(a string, n int) groupfake.Fault {
			if a == "heartbeat" && !hbDone && hold.held() {
				hbDone = true
				return groupfake.Fault{Code: int16(selfEndCode)}
			}
			return groupfake.Fault{}
		}
		trig = "hbfault"
		closeDelay = ms(rr(rng, 20, 60))
	case "late-reply-reader":
		// Close (or the end of a call's context) while a request of the Reader is in flight;
		// the fake answers it 2..4 x later than the Close comes
		ft.add("late-answer")
		ft.add("late-answer-family")
		ft.add("broker=slow")
		api := []string{"fetch", "fetch", "listoffsets"}[rng.Intn(3)]
		if isG {
			api = []string{"join", "sync", "fetch", "findcoordinator"}[rng.Intn(4)]
		}
		ft.add("late-api=" + apiShort[api])
		closeDelay = ms(rr(rng, 10, 40))
		lateBy := closeDelay * time.Duration(rr(rng, 2, 4))
		st.watchAPI, st.watchCh = api, make(chan struct{})
		st.fault = func(a string, n int) groupfake.Fault {
			if a == api {
				return groupfake.Fault{Delay: lateBy}
			}
			return groupfake.Fault{}
		}
		nrec0 = rr(rng, 3, 10)
		p.callers = rr(rng, 0, 2)
		p.kinds = "f"
		wNever, wAfter, wBefore = 1, 3, 0
		cancelLo, cancelHi = 10, 40
		trig = "req"
	default:
		panic("unknown kind " + kind)
	}
	if lag > 0 {
		ft.add("readlag")
	}

	// ---- watchdog and graces
	sum := maxWait + batchTO + rbMax + dialTO
	largest := maxDur(batchTO, dialTO)
	if isG {
		sum += hb + sess + reb + jb
		largest = maxDur(largest, maxDur(sess, reb))
	}
	if lag > 0 {
		sum += lag
	}
	e.wd = maxDur(e.wd, 4*sum)
	grace := maxDur(1500*time.Millisecond, 3*largest)
	quiet := 3*hb + 2*maxWait + 2*rbMax + ms(30)
	if lag > 0 {
		quiet += lag
	}

	// ---- fault function (journal + faults)
	b.SetFault(func(api, client, member string) groupfake.Fault {
		if client != clientU {
			return groupfake.Fault{}
		}
		if api == "ocommit" && hold != nil && hold.forwarded() {
			// the held OffsetCommit reaches the fake now: it was journalled when it was taken
			return groupfake.Fault{}
		}
		tl.req(api, member)
		switch api {
		case "heartbeat":
			atomic.AddInt32(&st.hb, 1)
		case "ocommit":
			st.cOnce.Do(func() { close(st.commitReq) })
		case "fetch":
			st.fOnce.Do(func() { close(st.fetchReq) })
		}
		if st.watchAPI == api {
			st.wOnce.Do(func() { close(st.watchCh) })
		}
		st.mu.Lock()
		defer st.mu.Unlock()
		st.count[api]++
		f := st.fault(api, st.count[api])
		if (api == "leave" || api == "findcoordinator") && (f.Code != 0 || f.Drop != 0 || f.Delay >= silence) {
			st.leaveFault = true
		}
		return f
	})

	if nrec0 > 0 {
		for i := 0; i < nrec0; i++ {
			b.Append(topicT, rng.Intn(nparts), 1)
		}
	}
	if killAt == 0 {
		b.Kill(clientU)
		st.mu.Lock()
		st.killed = true
		st.mu.Unlock()
	}

	// ---- the Reader under test
	e.baseline()
	mkReader := func(client string, dial dialFunc) *kafka.Reader {
		cfg := kafka.ReaderConfig{
			Brokers:          []string{b.Addr()},
			Topic:            topicT,
			Dialer:           &kafka.Dialer{ClientID: client, DialFunc: dial, Timeout: dialTO},
			QueueCapacity:    qcap,
			MinBytes:         1,
			MaxBytes:         1 << 20,
			MaxWait:          maxWait,
			ReadBatchTimeout: batchTO,
			ReadLagInterval:  lag,
			ReadBackoffMin:   rbMin,
			ReadBackoffMax:   rbMax,
			MaxAttempts:      rr(rng, 1, 3),
		}
		if isG {
			cfg.GroupID = "g"
			cfg.HeartbeatInterval = hb
			cfg.SessionTimeout = sess
			cfg.RebalanceTimeout = reb
			cfg.JoinGroupBackoff = jb
			cfg.CommitInterval = ci
			if watch {
				cfg.WatchPartitionChanges = true
				cfg.PartitionWatchInterval = watchIv
			}
		}
		if verbose {
			cfg.Logger = klogger{"kafka[" + client + "]: "}
		}
		return kafka.NewReader(cfg)
	}
	if rebalAct == "aux-leave" {
		// the auxiliary Reader is a member from the start
		auxRd = mkReader(clientV, b.DialFor(clientV))
		waitOr(ms(600), func() bool { return b.State() == groupfake.StateStable && b.MemberOf(clientV) != "" })
		// (no new baseline: the auxiliary Reader is closed before the census as well)
	}
	dialU := dialFunc(b.DialFor(clientU))
	if hold != nil {
		dialU = hold.wrap(dialU)
	}
	rd := mkReader(clientU, e.cc.wrap(dialU))
	vlogf("scenario %d: mode=%s kind=%s commitmode=%s qcap=%d nrec0=%d parts=%d hb=%v sess=%v reb=%v jb=%v maxWait=%v lag=%v trig=%s closeDelay=%v close2=%q callers=%d ncalls=%d wd=%v",
		sc.id, sc.mode, kind, commitmode, qcap, nrec0, nparts, hb, sess, reb, jb, maxWait, lag, trig, closeDelay, p.close2, p.callers, p.ncalls, e.wd)

	// ---- background activity: appends, SetOffset, revive
	stopBg := make(chan struct{})
	var bg sync.WaitGroup
	if appendDuring {
		bg.Add(1)
		arng := rand.New(rand.NewSource(rng.Int63()))
		go func() {
			defer bg.Done()
			for i := 0; i < 12; i++ {
				select {
				case <-stopBg:
					return
				case <-time.After(ms(rr(arng, 2, 25))):
				}
				b.Append(topicT, arng.Intn(nparts), rr(arng, 1, 3))
			}
		}()
	}
	if setOffsets > 0 {
		bg.Add(1)
		srng := rand.New(rand.NewSource(rng.Int63()))
		go func() {
			defer bg.Done()
			for i := 0; i < setOffsets; i++ {
				select {
				case <-stopBg:
					return
				case <-time.After(ms(rr(srng, 0, 20))):
				}
				rd.SetOffset(int64(srng.Intn(nrec0 + 1)))
			}
		}()
	}
	if reviveAfter >= 0 {
		bg.Add(1)
		go func() {
			defer bg.Done()
			select {
			case <-stopBg:
			case <-time.After(reviveAfter):
				b.Revive(clientU)
				st.mu.Lock()
				st.killed = false
				st.mu.Unlock()
				ft.add("revived")
			}
		}()
	}

	if trig == "late" {
		callersDone = make(chan struct{})
	}
	// ---- when to close
	p.closeWait = func() {
		const fallback = 1200 * time.Millisecond
		switch trig {
		case "msg":
			if !waitCh(ms(400), e.firstMsg) {
				ft.add("trigger-timeout")
			}
		case "join":
			if !waitOr(fallback, func() bool { return sawJoin(b) }) {
				ft.add("trigger-timeout")
			}
		case "stable":
			if !waitOr(fallback, func() bool { return stableU(b) }) {
				ft.add("trigger-timeout")
			}
			if killAt > 0 {
				time.Sleep(killAt)
				b.Kill(clientU)
				st.mu.Lock()
				st.killed = true
				st.mu.Unlock()
				closeDelay -= killAt
			}
		case "hb2":
			if !waitOr(fallback, func() bool { return sawJoin(b) && atomic.LoadInt32(&st.hb) >= 2 }) {
				ft.add("trigger-timeout")
			}
		case "commitreq":
			if !waitCh(ms(600), st.commitReq) {
				ft.add("trigger-timeout")
			}
		case "hbfault":
			if !waitOr(e.wd, func() bool { return hbFaultSeen(b) }) {
				ft.add("trigger-timeout")
			}
		case "req":
			if !waitCh(fallback, st.watchCh) {
				ft.add("trigger-timeout")
			}
		case "late":
			waitCh(e.wd+time.Second, callersDone)
		case "rebalance":
			if !waitOr(fallback, func() bool { return stableU(b) }) {
				ft.add("trigger-timeout")
			}
			time.Sleep(ms(rr(rng, 0, 2*int(hb/time.Millisecond))))
			switch rebalAct {
			case "aux-join":
				auxMu.Lock()
				auxRd = mkReader(clientV, b.DialFor(clientV))
				auxMu.Unlock()
				waitOr(ms(60), func() bool { return b.State() == groupfake.StatePreparingRebalance })
			case "aux-leave":
				a := auxRd
				go a.Close() // joined below (closeAux)
				waitOr(ms(60), func() bool { return b.State() == groupfake.StatePreparingRebalance })
			case "force":
				b.ForceRebalance("script")
			case "evict":
				if id := b.MemberOf(clientU); id != "" {
					b.Evict(id, "script")
				}
			}
			if b.State() == groupfake.StatePreparingRebalance {
				ft.add("close-in-rebalance")
			}
		}
		time.Sleep(closeDelay)
		st.mu.Lock()
		if st.killed {
			st.leaveFault = true // refused while closing
		}
		st.mu.Unlock()
	}

	// ---- run
	if trig == "late" {
		// the callers run to completion first (every call has a context that ends)
		var wg sync.WaitGroup
		pc := *p
		n := p.callers
		p.callers = 0
		for i := 0; i < n; i++ {
			wg.Add(1)
			seed := rng.Int63()
			go func() {
				defer wg.Done()
				e.caller(rd, &pc, seed)
			}()
		}
		go func() { wg.Wait(); close(callersDone) }()
	}
	var selfEnd sync.WaitGroup
	if hold != nil {
		// one caller: FetchMessage, then a synchronous CommitMessages whose context never ends
		selfEnd.Add(1)
		go func() {
			defer selfEnd.Done()
			var last kafka.Message
			have := false
			if e.readerCall(rd, 'f', polNever, 0, &last, &have) == "msg" {
				ft.add("commit-never")
				e.readerCall(rd, 'm', polNever, 0, &last, &have)
			}
		}()
	}
	e.runProgram(rd, p, rng)
	close(stopBg)
	bg.Wait()
	if hold != nil {
		selfEnd.Wait() // bounded: every call is under its watchdog
		// the held request is answered (or found undeliverable) before the timeline ends
		if !waitOr(hold.delay+2*time.Second, func() bool { return aocSeen(b) }) {
			ft.add("no-aoc")
		}
	}

	// the auxiliary Reader is closed before the census
	auxMu.Lock()
	a := auxRd
	auxMu.Unlock()
	if a != nil {
		if !runWatched(e.wd, func() { a.Close() }) {
			e.fail("HANG:closeaux")
		}
	}
	st.mu.Lock()
	if st.leaveFault {
		// a LeaveGroup (or its FindCoordinator) was faulted, or the broker refused the Reader's
		// connections when it closed
		ft.add("leave-faulted")
	}
	st.mu.Unlock()

	toks, res := e.finish(quiet, grace, b.Close)
	if hold != nil {
		vlogf("full timeline: %s", joinToks(toks))
		var over []string
		toks, over = selfEndVerdict(toks, ft)
		if len(over) > 0 {
			if res == "ok" {
				res = strings.Join(over, "+")
			} else {
				res += "+" + strings.Join(over, "+")
			}
		}
	}
	deriveTags(toks, ft)
	return result{
		args:  fmt.Sprintf("%s %s ; %s", sc.mode, commitmode, joinToks(toks)),
		res:   res,
		feats: ft.String(),
	}
}
