// e2e_ff.go: mode p scenarios against harness/fetchfake: a broker that stops answering
// Fetch requests (kind silent) or refuses connections (kind refuse).
package main

import (
	"fmt"
	"math/rand"
	"sync"
	"time"

	kafka "github.com/segmentio/kafka-go"
	"kverif/fetchfake"
)

func ffLayout(n int) fetchfake.Layout {
	var l fetchfake.Layout
	ts := int64(1_600_000_000_000)
	for o := 0; o < n; {
		k := 3
		if o+k > n {
			k = n - o
		}
		bt := fetchfake.PBatch{Fmt: 2, Codec: 0, Base: int64(o), Lod: int64(k - 1), Ts: ts}
		for i := 0; i < k; i++ {
			bt.Recs = append(bt.Recs, fetchfake.Record{Off: int64(o + i), Ts: ts, Key: []byte("k"), Val: []byte(fmt.Sprintf("v%d", o+i))})
		}
		l = append(l, bt)
		o += k
	}
	return l
}

func runFF(sc scen) result {
	rng := rand.New(rand.NewSource(sc.seed))
	kind := sc.kind

	maxWait := ms(rr(rng, 20, 100))
	rbMin := ms(rr(rng, 5, 12))
	rbMax := rbMin + ms(rr(rng, 0, 8))
	batchTO := ms(200)
	dialTO := ms(rr(rng, 100, 300))
	lag := time.Duration(-1)
	if rng.Intn(3) == 0 {
		lag = ms(rr(rng, 20, 60))
	}
	qcap := rr(rng, 1, 8)
	nrec := rng.Intn(13)
	layout := ffLayout(nrec)
	var enc fetchfake.Encoder

	fake := fetchfake.NewFake(topicT, 10, 0, int64(nrec))
	tl := &tline{ff: fake}
	e := newEnv(sc, tl)
	ft := e.ft
	ft.add("kind=" + kind)
	ft.add("fake=fetchfake")
	if lag > 0 {
		ft.add("readlag")
	}

	// how the fake behaves: it answers the first `answered` fetches (data, or an empty
	// response after half the max wait when the reader is at the log end), then
	//   silent: leaves every further Fetch unanswered
	//   refuse: closes the connections that fetch and fails every dial
	answered := rng.Intn(5)
	if rng.Intn(3) == 0 {
		answered = 0
	}
	if kind == "refuse" && rng.Intn(2) == 0 {
		answered = -1 // dials fail from the start
		fake.FailNextDials(1 << 30)
	}
	if kind == "silent" {
		ft.add("broker=silent")
		ft.add("silent-api=fe")
	} else {
		ft.add("broker=refuse")
	}

	stopResp := make(chan struct{})
	var respWG sync.WaitGroup
	respWG.Add(1)
	go func() {
		defer respWG.Done()
		n := 0
		seen := map[*fetchfake.PendingFetch]time.Time{}
		for {
			select {
			case <-stopResp:
				return
			case <-time.After(time.Millisecond):
			}
			for _, pf := range fake.Pending() {
				if n >= answered {
					if kind == "refuse" {
						fake.FailNextDials(1 << 30)
						pf.CloseConn()
					}
					continue // silent: left pending
				}
				if pf.Offset < int64(nrec) {
					l := layout.FromOffset(pf.Offset)
					set := enc.Batch(l[0])
					if pf.RespondData(int64(nrec), set, len(set), -1) {
						n++
					}
					continue
				}
				t0, ok := seen[pf]
				if !ok {
					seen[pf] = time.Now()
					continue
				}
				if time.Since(t0) >= maxWait/2 {
					if pf.RespondData(int64(nrec), nil, 0, -1) {
						n++
					}
					delete(seen, pf)
				}
			}
		}
	}()

	p := &prog{
		callers:  rr(rng, 1, 3),
		ncalls:   rr(rng, 2, 8),
		kinds:    "fffr",
		thinkMax: 5,
		afterEOF: 1,
		newKinds: "fr",
	}
	if rng.Intn(10) < 4 {
		p.close2 = []string{"seq", "conc"}[rng.Intn(2)]
	}
	if rng.Intn(10) < 7 {
		p.newcalls = rr(rng, 2, 4)
	}
	p.policy = func(r *rand.Rand, k byte) (int, time.Duration) {
		switch x := r.Intn(7); {
		case x < 3:
			return polNever, 0
		case x < 6:
			return polAfter, ms(rr(r, 0, 60))
		}
		return polBefore, 0
	}
	closeDelay := ms(rr(rng, 20, 250))
	p.closeWait = func() { time.Sleep(closeDelay) }

	sum := maxWait + batchTO + rbMax + dialTO
	if lag > 0 {
		sum += lag
	}
	e.wd = maxDur(e.wd, 4*sum)
	grace := maxDur(1500*time.Millisecond, 3*maxDur(batchTO, dialTO))
	quiet := 2*maxWait + 2*rbMax + ms(60)
	if lag > 0 {
		quiet += lag
	}

	e.baseline()
	cfg := kafka.ReaderConfig{
		Brokers:          fetchfake.BrokerAddrs,
		Topic:            topicT,
		Partition:        0,
		Dialer:           &kafka.Dialer{ClientID: clientU, DialFunc: e.cc.wrap(fake.Dial), Timeout: dialTO},
		QueueCapacity:    qcap,
		MinBytes:         1,
		MaxBytes:         1 << 20,
		MaxWait:          maxWait,
		ReadBatchTimeout: batchTO,
		ReadLagInterval:  lag,
		ReadBackoffMin:   rbMin,
		ReadBackoffMax:   rbMax,
		MaxAttempts:      rr(rng, 1, 3),
	}
	if verbose {
		cfg.Logger = klogger{"kafka[u]: "}
	}
	rd := kafka.NewReader(cfg)
	vlogf("scenario %d: mode=p kind=%s fake=fetchfake qcap=%d nrec=%d answered=%d maxWait=%v lag=%v closeDelay=%v close2=%q callers=%d ncalls=%d wd=%v",
		sc.id, kind, qcap, nrec, answered, maxWait, lag, closeDelay, p.close2, p.callers, p.ncalls, e.wd)

	e.runProgram(rd, p, rng)

	toks, res := e.finish(quiet, grace, func() {
		close(stopResp)
		respWG.Wait()
		fake.Shutdown()
		if verbose {
			vlogf("fetchfake:\n%s", fake.Dump())
		}
	})
	deriveTags(toks, ft)
	return result{
		args:  fmt.Sprintf("p - ; %s", joinToks(toks)),
		res:   res,
		feats: ft.String(),
	}
}
