// e2e_ss.go: the "silent step" family (mode p, tag silent-step-family): the peer accepts the
// connection and falls silent for ever at one step of the partition reader's connection set-up
// (Dialer.DialLeader: the leader lookup on a first connection, then the leader connection).
// One caller is blocked in FetchMessage; 10-30 ms after the step was reached the Reader is
// closed.  The blocked call must return eof, Close must return, and at the census (the fake
// is still up and keeps its side of the silent connection open) every goroutine of the Reader
// must be gone and every connection it dialled must have been closed BY THE CLIENT.
//
//	silent-accept       the lookup connection is accepted and never read (the client blocks writing)
//	silent-apiversions  the first request of the lookup connection (ApiVersions) is never answered
//	silent-metadata     ApiVersions is answered, the Metadata request of the lookup never is
//	silent-mid          … the first half of that Metadata response frame is written, then nothing
//	silent-fetch        lookup and leader connection work, every Fetch is left unanswered
package main

import (
	"fmt"
	"math/rand"
	"time"

	kafka "github.com/segmentio/kafka-go"
)

func runSS(sc scen) result {
	rng := rand.New(rand.NewSource(sc.seed))
	kind := sc.kind
	tl := &tline{}
	e := newEnv(sc, tl)
	ft := e.ft
	ft.add("kind=" + kind)
	ft.add("fake=sfake")
	ft.add("silent-step-family")
	ft.add("broker=silent")

	fake := newSfake(tl, rr(rng, 0, 5))
	switch kind {
	case "silent-accept":
		fake.deaf = 1
		fake.rule = func(conn, nreq int, api string) int { return sfAnswer }
	case "silent-apiversions":
		fake.rule = func(conn, nreq int, api string) int {
			if nreq == 1 {
				return sfSilent
			}
			return sfAnswer
		}
	case "silent-metadata", "silent-mid":
		what := sfSilent
		if kind == "silent-mid" {
			what = sfHalf
		}
		fake.rule = func(conn, nreq int, api string) int {
			if api == "metadata" {
				return what
			}
			return sfAnswer
		}
	case "silent-fetch":
		fake.rule = func(conn, nreq int, api string) int {
			if api == "fetch" {
				return sfSilent
			}
			return sfAnswer
		}
	default:
		panic("unknown kind " + kind)
	}

	maxWait := ms(rr(rng, 20, 100))
	rbMin := ms(rr(rng, 5, 12))
	rbMax := rbMin + ms(rr(rng, 0, 8))
	batchTO := ms(200)
	dialTO := ms(rr(rng, 100, 300))
	closeDelay := ms(rr(rng, 10, 30))

	p := &prog{
		callers:  1,
		ncalls:   1,
		kinds:    "f",
		afterEOF: 1,
		newKinds: "fr",
		policy:   func(r *rand.Rand, k byte) (int, time.Duration) { return polNever, 0 },
	}
	if rng.Intn(10) < 3 {
		p.close2 = []string{"seq", "conc"}[rng.Intn(2)]
	}
	if rng.Intn(2) == 0 {
		p.newcalls = rr(rng, 1, 3)
	}
	p.closeWait = func() {
		if !waitCh(2*time.Second, fake.silent) {
			ft.add("trigger-timeout")
		}
		time.Sleep(closeDelay)
	}
	e.wd = maxDur(e.wd, 4*(maxWait+batchTO+rbMax+dialTO))
	grace := maxDur(1500*time.Millisecond, 3*maxDur(batchTO, dialTO))
	quiet := 2*maxWait + 2*rbMax + ms(60)

	e.baseline()
	cfg := kafka.ReaderConfig{
		Brokers:          []string{sfakeAddr},
		Topic:            topicT,
		Partition:        0,
		Dialer:           &kafka.Dialer{ClientID: clientU, DialFunc: e.cc.wrap(fake.dial), Timeout: dialTO},
		QueueCapacity:    rr(rng, 1, 8),
		MinBytes:         1,
		MaxBytes:         1 << 20,
		MaxWait:          maxWait,
		ReadBatchTimeout: batchTO,
		ReadLagInterval:  -1,
		ReadBackoffMin:   rbMin,
		ReadBackoffMax:   rbMax,
		MaxAttempts:      rr(rng, 1, 3),
	}
	if verbose {
		cfg.Logger = klogger{"kafka[u]: "}
	}
	rd := kafka.NewReader(cfg)
	vlogf("scenario %d: mode=p kind=%s fake=sfake dialTO=%v maxWait=%v closeDelay=%v close2=%q wd=%v", sc.id, kind, dialTO, maxWait, closeDelay, p.close2, e.wd)

	e.runProgram(rd, p, rng)

	// the fake is shut down only after the census
	toks, res := e.finish(quiet, grace, fake.close)
	deriveTags(toks, ft)
	return result{
		args:  fmt.Sprintf("p - ; %s", joinToks(toks)),
		res:   res,
		feats: ft.String(),
	}
}
